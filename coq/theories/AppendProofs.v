(* AppendProofs.v -- C08 "append preserves history": theorems about the append session of
   Append.v, read through py7zr's own assignment of entries to sub-streams (Assign.v impl_plans)
   and through the header writer/parser pair (Header.v, HeaderProofs.v header_roundtrip). *)
From Coq Require Import ZifyBool.
From P7 Require Import Prelude PyPrims Number Header HeaderPrims Spec Assign AssignProofs Append.
Open Scope Z_scope.

(* ================================================================== *)
(* Definitions used in the statements                                  *)
(* ================================================================== *)
Definition nfolders (h : header) : Z :=
  match h_streams h with
  | Some st => match si_folders st with Some fs => zlen fs | None => 0 end
  | None => 0
  end.
Definition nfiles (h : header) : Z := match h_files h with Some fl => zlen fl | None => 0 end.

(* what the session's members mean: entry number fid, fid+1, ...; data members in folder `folder` at
   consecutive offsets, with the size and CRC the session recorded; the others without data *)
Fixpoint new_plans (fid folder off : Z) (ms : list new_member) : list iplan :=
  match ms with
  | [] => []
  | m :: r =>
      let e := m_file m in
      match m_stream m with
      | None =>
          (* an entry without data added by a session has no "emptyfile" key (its EmptyFile bit is written as
             False): a directory, whatever its attributes *)
          mkIPlan (e_name e) 2 (-1) 0 0 None
                  (Spec.flat_opt (e_mtime e)) (Spec.flat_opt (e_attr e)) fid true false
          :: new_plans (fid + 1) folder off r
      | Some (sz, c) =>
          mkIPlan (e_name e) (if attr_is_dir (e_attr e) then 2 else 0) folder off sz (Some c)
                  (Spec.flat_opt (e_mtime e)) (Spec.flat_opt (e_attr e)) fid false false
          :: new_plans (fid + 1) folder (off + sz) r
      end
  end.

(* the default sub-stream sizes of _real_get_contents when no SIZE record was read (the inline
   comprehension of impl_plans, named) *)
Fixpoint dflt_sizes (fs : list folder) (ns : list Z) : res (list Z) :=
  match fs, ns with
  | f :: r, n :: nr =>
      if n <=? 0 then dflt_sizes r nr else
      do v <- py_index (f_unpacksizes f) (-1); do t <- dflt_sizes r nr;
      Ok (repeat v (Z.to_nat n) ++ t)
  | _, _ => Ok []
  end.

(* ================================================================== *)
(* Small helpers                                                       *)
(* ================================================================== *)
Lemma nthZ_inv {A} (l : list A) i x : nthZ l i = Ok x -> 0 <= i < zlen l /\ nth_error l (Z.to_nat i) = Some x.
Proof.
  unfold nthZ. destruct (i <? 0) eqn:E; [discriminate|].
  destruct (nth_error l (Z.to_nat i)) as [y|] eqn:En; [|discriminate]. intros H. injection H as ->.
  split; [|reflexivity]. assert (Z.to_nat i < length l)%nat by (apply nth_error_Some; congruence).
  unfold zlen. lia.
Qed.
Lemma nthZ_app_l {A} (l t : list A) i x : nthZ l i = Ok x -> nthZ (l ++ t) i = Ok x.
Proof.
  intros H. destruct (nthZ_inv _ _ _ H) as [Hr Hn]. unfold nthZ. replace (i <? 0) with false by lia.
  rewrite nth_error_app1 by (unfold zlen in Hr; lia). rewrite Hn. reflexivity.
Qed.
Lemma nthZ_app_r {A} (l t : list A) i : 0 <= i -> nthZ (l ++ t) (zlen l + i) = nthZ t i.
Proof.
  intros Hi. unfold nthZ. replace (zlen l + i <? 0) with false by (unfold zlen; lia).
  replace (i <? 0) with false by lia. rewrite nth_error_app2 by (unfold zlen; lia).
  replace (Z.to_nat (zlen l + i) - length l)%nat with (Z.to_nat i) by (unfold zlen; lia). reflexivity.
Qed.
Lemma nthZ_oob {A} (l : list A) i : zlen l <= i -> nthZ l i = Err EOther.
Proof.
  intros H. unfold nthZ. destruct (i <? 0); [reflexivity|].
  destruct (nth_error l (Z.to_nat i)) eqn:E; [|reflexivity].
  assert (Z.to_nat i < length l)%nat by (apply nth_error_Some; congruence). unfold zlen in H. lia.
Qed.
Lemma nthZ_nonneg_in l i n : forallb (fun n => 0 <=? n) l = true -> nthZ l i = Ok n -> 0 <= n.
Proof.
  intros Hl H. destruct (nthZ_inv _ _ _ H) as [_ Hn]. apply nth_error_In in Hn.
  rewrite forallb_forall in Hl. specialize (Hl _ Hn). lia.
Qed.

Lemma forallb_skipn {A} (f : A -> bool) : forall k l, forallb f l = true -> forallb f (skipn k l) = true.
Proof.
  induction k as [|k IH]; intros [|x l] H; try exact H; try reflexivity.
  simpl in H. apply andb_prop in H. apply IH, H.
Qed.

(* prefix sums of the counts *)
Definition psum (nums : list Z) (i : Z) : Z := sumZ (firstn (Z.to_nat i) nums).
Lemma psum_0 nums : psum nums 0 = 0.
Proof. reflexivity. Qed.
Lemma psum_succ nums i n : nthZ nums i = Ok n -> psum nums (i + 1) = psum nums i + n.
Proof.
  intros H. destruct (nthZ_inv _ _ _ H) as [Hr Hn]. unfold psum.
  replace (Z.to_nat (i + 1)) with (S (Z.to_nat i)) by lia.
  revert Hn. generalize (Z.to_nat i). clear. intros k. revert nums.
  induction k as [|k IH]; intros [|x l] H; try discriminate H.
  - simpl in H. injection H as ->. simpl firstn. rewrite AssignProofs.sumZ_cons. cbn. lia.
  - simpl in H. change (firstn (S (S k)) (x :: l)) with (x :: firstn (S k) l).
    change (firstn (S k) (x :: l)) with (x :: firstn k l). rewrite !AssignProofs.sumZ_cons, (IH l H). lia.
Qed.
Lemma psum_all nums i : zlen nums <= i -> psum nums i = sumZ nums.
Proof. intros H. unfold psum. rewrite firstn_all2 by (unfold zlen in H; lia). reflexivity. Qed.
Lemma psum_mono nums i : forallb (fun n => 0 <=? n) nums = true -> 0 <= i -> psum nums i <= sumZ nums.
Proof.
  intros Hn Hi. unfold psum. rewrite <- (firstn_skipn (Z.to_nat i) nums) at 2.
  rewrite AssignProofs.sumZ_app. enough (0 <= sumZ (skipn (Z.to_nat i) nums)) by lia.
  apply sumZ_nonneg, forallb_skipn, Hn.
Qed.
(* when the prefix sum has reached the total, every later count is zero *)
Lemma psum_full_zero nums i j : forallb (fun n => 0 <=? n) nums = true -> 0 <= i ->
  psum nums i = sumZ nums -> i <= j < zlen nums -> nthZ nums j = Ok 0.
Proof.
  intros Hn Hi Hs Hj.
  assert (exists n, nthZ nums j = Ok n) as [n Hnj].
  { unfold nthZ. replace (j <? 0) with false by lia.
    destruct (nth_error nums (Z.to_nat j)) eqn:E; [eauto|].
    apply nth_error_None in E. unfold zlen in Hj. lia. }
  pose proof (nthZ_nonneg_in _ _ _ Hn Hnj) as Hn0.
  pose proof (psum_succ _ _ _ Hnj) as Hsucc.
  pose proof (psum_mono nums (j + 1) Hn ltac:(lia)) as Hm.
  assert (psum nums i <= psum nums j).
  { unfold psum. rewrite <- (firstn_skipn (Z.to_nat i) (firstn (Z.to_nat j) nums)).
    rewrite firstn_firstn. replace (Nat.min (Z.to_nat i) (Z.to_nat j)) with (Z.to_nat i) by lia.
    rewrite AssignProofs.sumZ_app. enough (0 <= sumZ (skipn (Z.to_nat i) (firstn (Z.to_nat j) nums))) by lia.
    apply sumZ_nonneg, forallb_skipn, forallb_firstn, Hn. }
  replace n with 0 in Hnj by lia. exact Hnj.
Qed.

(* ================================================================== *)
(* skip_zero on an extended count list                                 *)
(* ================================================================== *)
Lemma skip_zero_psum nums : forall fuel x, 0 <= x -> psum nums (skip_zero fuel nums x) = psum nums x.
Proof.
  induction fuel as [|fuel IH]; intros x Hx; simpl; [reflexivity|].
  destruct ((x <? zlen nums - 1) && (0 <=? x)) eqn:Ec; [|reflexivity].
  destruct (nth_error nums (Z.to_nat x)) as [[|p|p]|] eqn:En; try reflexivity.
  rewrite IH by lia. assert (nthZ nums x = Ok 0) as H0.
  { unfold nthZ. replace (x <? 0) with false by lia. rewrite En. reflexivity. }
  rewrite (psum_succ _ _ _ H0). lia.
Qed.

(* with enough fuel, stopping on a zero count means having reached the last folder *)
Lemma skip_zero_stop nums : forall fuel x, 0 <= x -> (length nums <= fuel + Z.to_nat x)%nat ->
  nthZ nums (skip_zero fuel nums x) = Ok 0 -> zlen nums - 1 <= skip_zero fuel nums x.
Proof.
  induction fuel as [|fuel IH]; intros x Hx Hf H; simpl in *.
  - destruct (nthZ_inv _ _ _ H) as [Hr _]. unfold zlen in Hr. lia.
  - destruct ((x <? zlen nums - 1) && (0 <=? x)) eqn:Ec; [|lia].
    destruct (nth_error nums (Z.to_nat x)) as [[|p|p]|] eqn:En.
    + apply IH; [lia|lia|exact H].
    + unfold nthZ in H. replace (x <? 0) with false in H by lia. rewrite En in H. discriminate H.
    + unfold nthZ in H. replace (x <? 0) with false in H by lia. rewrite En in H. discriminate H.
    + unfold nthZ in H. replace (x <? 0) with false in H by lia. rewrite En in H. discriminate H.
Qed.

(* the cursor lands on a non-zero count: appending counts does not move it *)
Lemma skip_zero_app_same nums t : forall fuel x n, 0 <= x ->
  nthZ nums (skip_zero fuel nums x) = Ok n -> n <> 0 ->
  skip_zero fuel (nums ++ t) x = skip_zero fuel nums x.
Proof.
  induction fuel as [|fuel IH]; intros x n Hx H Hn; simpl in *; [reflexivity|].
  destruct ((x <? zlen nums - 1) && (0 <=? x)) eqn:Ec.
  - replace ((x <? zlen (nums ++ t) - 1) && (0 <=? x)) with true by (rewrite AssignProofs.zlen_app; pose proof (zlen_nonneg t); lia).
    rewrite nth_error_app1 by (unfold zlen in Ec; lia).
    destruct (nth_error nums (Z.to_nat x)) as [[|p|p]|] eqn:En; try reflexivity.
    apply (IH (x + 1) n); [lia|exact H|exact Hn].
  - destruct (nthZ_inv _ _ _ H) as [Hr Hnx].
    destruct ((x <? zlen (nums ++ t) - 1) && (0 <=? x)); [|reflexivity].
    rewrite nth_error_app1 by (unfold zlen in Hr; lia). rewrite Hnx.
    destruct n; [congruence|reflexivity|reflexivity].
Qed.

Lemma cur_folder_app_same nums t fo inp n : 0 <= fo ->
  nthZ nums (cur_folder nums fo inp) = Ok n -> n <> 0 ->
  cur_folder (nums ++ t) fo inp = cur_folder nums fo inp.
Proof.
  unfold cur_folder. intros Hfo H Hn. destruct (inp =? 0); [|reflexivity].
  rewrite (skip_zero_fuel (nums ++ t) (length (nums ++ t)) (length (nums ++ t) + length nums) fo Hfo) by lia.
  rewrite (skip_zero_fuel nums (length nums) (length (nums ++ t) + length nums) fo Hfo) in * by lia.
  eapply skip_zero_app_same; eassumption.
Qed.

(* from a position behind which every old count is zero, the cursor runs to the first new folder *)
Lemma skip_zero_to_new nums k : forall d fo, 0 <= fo -> fo + Z.of_nat d = zlen nums ->
  (forall j, fo <= j < zlen nums -> nthZ nums j = Ok 0) ->
  skip_zero (length (nums ++ [k])) (nums ++ [k]) fo = zlen nums.
Proof.
  induction d as [|d IH]; intros fo Hfo Hd Hz.
  - assert (fo = zlen nums) by lia. subst fo.
    destruct (length (nums ++ [k])) as [|L]; [reflexivity|]. simpl.
    replace ((zlen nums <? zlen (nums ++ [k]) - 1) && (0 <=? zlen nums)) with false; [reflexivity|].
    rewrite AssignProofs.zlen_app. change (zlen [k]) with 1. lia.
  - rewrite skip_zero_step.
    + apply IH; [lia|lia|]. intros j Hj. apply Hz. lia.
    + apply nthZ_app_l. apply Hz. lia.
    + rewrite AssignProofs.zlen_app. change (zlen [k]) with 1. lia.
Qed.

(* ================================================================== *)
(* The assignment loop on extended lists                               *)
(* ================================================================== *)
Lemma count_data_cons e r : count_data (e :: r) = (if e_emptystream e then 0 else 1) + count_data r.
Proof.
  unfold count_data, is_data. simpl filter. destruct (e_emptystream e); simpl negb; cbn iota.
  - lia.
  - rewrite AssignProofs.zlen_cons. lia.
Qed.
Lemma count_data_nonneg l : 0 <= count_data l.
Proof. unfold count_data. apply zlen_nonneg. Qed.
Lemma count_data_app a b : count_data (a ++ b) = count_data a + count_data b.
Proof. unfold count_data. rewrite filter_app, AssignProofs.zlen_app. reflexivity. Qed.

Section Extend.
Variables (nums sizes : list Z) (dd : list bool) (dg : list Z).
Variables (tn tsz : list Z) (tdd : list bool) (tdg : list Z).
Hypothesis Hnn : forallb (fun n => 0 <=? n) nums = true.
Hypothesis Hsz : zlen sizes = sumZ nums.

(* the ParseStatus cursor counts sub-streams: folder by folder, `inp` inside the current folder *)
Definition Inv (fo os inp : Z) : Prop :=
  0 <= fo <= zlen nums /\ 0 <= inp /\ os = psum nums fo + inp /\
  (0 < inp -> exists n, nthZ nums fo = Ok n /\ inp < n).

(* efl: one EmptyFile bit per entry of `files` without data; tef: the bits of the entries that follow *)
Lemma ext_run : forall files efl multi fid fo os inp fstats ps,
  length efl = nempty files ->
  Inv fo os inp ->
  assign_loop multi files efl fid nums sizes dd dg fo os inp fstats (zlen nums) = Ok ps ->
  exists fo' inp' fstats',
    Inv fo' (os + count_data files) inp' /\
    (forall k, zlen nums <= k -> flook fstats k = None -> flook fstats' k = None) /\
    forall g tef, assign_loop multi (files ++ g) (efl ++ tef) fid (nums ++ tn) (sizes ++ tsz) (dd ++ tdd) (dg ++ tdg)
                          fo os inp fstats (zlen nums + 1) =
              do qs <- assign_loop multi g tef (fid + zlen files) (nums ++ tn) (sizes ++ tsz) (dd ++ tdd) (dg ++ tdg)
                                   fo' (os + count_data files) inp' fstats' (zlen nums + 1);
              Ok (ps ++ qs).
Proof.
  induction files as [|e r IH]; intros efl multi fid fo os inp fstats ps HE HI H.
  - simpl in H. injection H as <-. exists fo, inp, fstats.
    change (count_data []) with 0. change (zlen (@nil fileent)) with 0. rewrite !Z.add_0_r.
    split; [exact HI|]. split; [auto|]. intros g tef. simpl app.
    destruct efl; [|discriminate HE]. simpl app.
    destruct (assign_loop multi g tef fid _ _ _ _ fo os inp fstats _); reflexivity.
  - rewrite assign_loop_cons in H. cbn zeta in H. rewrite count_data_cons, AssignProofs.zlen_cons.
    rewrite nempty_cons in HE.
    destruct (e_emptystream e) eqn:Ee.
    + destruct efl as [|b efl]; [discriminate HE|]. simpl in HE. injection HE as HE. cbn [hd tl] in H.
      bind_inv H rest Hrest. injection H as <-.
      destruct (IH efl multi (fid + 1) fo os inp fstats rest HE HI Hrest) as [fo' [inp' [fstats' [HI' [HF HG]]]]].
      exists fo', inp', fstats'. rewrite Z.add_0_l. split; [exact HI'|]. split; [exact HF|].
      intros g tef. change ((e :: r) ++ g) with (e :: (r ++ g)). rewrite assign_loop_cons. cbn zeta. rewrite Ee.
      change ((b :: efl) ++ tef) with (b :: (efl ++ tef)). cbn [hd tl].
      rewrite HG. replace (fid + (1 + zlen r)) with (fid + 1 + zlen r) by lia.
      destruct (assign_loop multi g tef _ _ _ _ _ fo' _ inp' fstats' _); reflexivity.
    + simpl in HE. fold (cur_folder nums fo inp) in H.
      destruct HI as [Hfo [Hinp [Hos Hin]]].
      pose proof (skip_zero_ge nums (length nums) fo) as Hge.
      assert (Hcf : fo <= cur_folder nums fo inp /\ psum nums (cur_folder nums fo inp) = psum nums fo /\
                    (inp =? 0 = false -> cur_folder nums fo inp = fo)).
      { unfold cur_folder. destruct (inp =? 0); (split; [lia|]); split; try reflexivity; try discriminate.
        apply skip_zero_psum. lia. }
      destruct Hcf as [Hge1 [Hps Hsame]].
      destruct ((cur_folder nums fo inp <? 0) || (zlen nums <=? cur_folder nums fo inp)) eqn:Echk; [discriminate H|].
      bind_inv H n Hn. bind_inv H size Hsize. bind_inv H d Hd. bind_inv H gg Hg.
      destruct (upd_fstat fstats (cur_folder nums fo inp) fid size) as [fstats1 old] eqn:EU.
      bind_inv H rest Hrest. injection H as <-.
      (* the count under the cursor is positive *)
      assert (Hnpos : 0 < n).
      { pose proof (nthZ_nonneg_in _ _ _ Hnn Hn) as Hn0.
        destruct (Z.eq_dec n 0) as [->|]; [|lia]. exfalso.
        destruct (nthZ_inv _ _ _ Hsize) as [Hsr _].
        destruct (inp =? 0) eqn:Ei.
        - unfold cur_folder in Hn, Hps. rewrite Ei in Hn, Hps.
          pose proof (skip_zero_stop nums (length nums) fo ltac:(lia) ltac:(lia) Hn) as Hstop.
          unfold cur_folder in Echk. rewrite Ei in Echk.
          set (c := skip_zero (length nums) nums fo) in *.
          pose proof (psum_succ _ _ _ Hn) as Hsucc. rewrite (psum_all nums (c + 1)) in Hsucc by lia. lia.
        - rewrite (Hsame eq_refl) in Hn. destruct (Hin ltac:(lia)) as [n' [Hn' Hlt]]. rewrite Hn in Hn'. injection Hn' as <-. lia. }
      set (c := cur_folder nums fo inp) in *.
      pose proof (psum_succ _ _ _ Hn) as Hsucc.
      assert (HU : forall k, zlen nums <= k -> flook fstats k = None -> flook fstats1 k = None).
      { intros k Hk Hnone. pose proof (upd_fstat_spec fstats c fid size) as [_ HU2]. rewrite EU in HU2. cbn [fst] in HU2.
        rewrite HU2. replace (k =? c) with false by lia. exact Hnone. }
      assert (Hcur' : cur_folder (nums ++ tn) fo inp = c).
      { apply (cur_folder_app_same nums tn fo inp n); [lia|exact Hn|lia]. }
      destruct (n <=? inp + 1) eqn:En.
      * assert (HI1 : Inv (c + 1) (os + 1) 0).
        { unfold Inv. split; [lia|]. split; [lia|]. split; [|lia].
          assert (n = inp + 1).
          { destruct (inp =? 0) eqn:Ei; [lia|]. rewrite (Hsame eq_refl) in Hn.
            destruct (Hin ltac:(lia)) as [n' [Hn' Hlt]]. fold c in Hn'. rewrite Hn in Hn'. injection Hn' as <-. lia. }
          lia. }
        destruct (IH efl multi (fid + 1) (c + 1) (os + 1) 0 fstats1 rest HE HI1 Hrest) as [fo' [inp' [fstats' [HI' [HF HG]]]]].
        exists fo', inp', fstats'. replace (os + (1 + count_data r)) with (os + 1 + count_data r) by lia.
        split; [exact HI'|]. split; [intros k Hk Hk0; apply HF; [exact Hk|apply HU; assumption]|].
        intros g tef. change ((e :: r) ++ g) with (e :: (r ++ g)). rewrite assign_loop_cons. cbn zeta. rewrite Ee.
        fold (cur_folder (nums ++ tn) fo inp). rewrite Hcur'.
        replace ((c <? 0) || (zlen nums + 1 <=? c)) with false by lia.
        rewrite (nthZ_app_l _ _ _ _ Hn), (nthZ_app_l _ _ _ _ Hsize), (nthZ_app_l _ _ _ _ Hd), (nthZ_app_l _ _ _ _ Hg).
        cbn [bind]. rewrite EU, En, HG. replace (fid + (1 + zlen r)) with (fid + 1 + zlen r) by lia.
        destruct (assign_loop multi g tef _ _ _ _ _ fo' _ inp' fstats' _); reflexivity.
      * assert (HI1 : Inv c (os + 1) (inp + 1)).
        { unfold Inv. split; [lia|]. split; [lia|]. split; [lia|]. intros _. exists n. split; [exact Hn|lia]. }
        destruct (IH efl multi (fid + 1) c (os + 1) (inp + 1) fstats1 rest HE HI1 Hrest) as [fo' [inp' [fstats' [HI' [HF HG]]]]].
        exists fo', inp', fstats'. replace (os + (1 + count_data r)) with (os + 1 + count_data r) by lia.
        split; [exact HI'|]. split; [intros k Hk Hk0; apply HF; [exact Hk|apply HU; assumption]|].
        intros g tef. change ((e :: r) ++ g) with (e :: (r ++ g)). rewrite assign_loop_cons. cbn zeta. rewrite Ee.
        fold (cur_folder (nums ++ tn) fo inp). rewrite Hcur'.
        replace ((c <? 0) || (zlen nums + 1 <=? c)) with false by lia.
        rewrite (nthZ_app_l _ _ _ _ Hn), (nthZ_app_l _ _ _ _ Hsize), (nthZ_app_l _ _ _ _ Hd), (nthZ_app_l _ _ _ _ Hg).
        cbn [bind]. rewrite EU, En, HG. replace (fid + (1 + zlen r)) with (fid + 1 + zlen r) by lia.
        destruct (assign_loop multi g tef _ _ _ _ _ fo' _ inp' fstats' _); reflexivity.
Qed.
End Extend.

(* ================================================================== *)
(* The new entries                                                     *)
(* ================================================================== *)
Lemma member_ok_data m sz c : member_ok m = true -> m_stream m = Some (sz, c) -> e_emptystream (m_file m) = false.
Proof. unfold member_ok. intros H E. rewrite E in H. destruct (e_emptystream (m_file m)); [discriminate H|reflexivity]. Qed.
Lemma member_ok_nodata m : member_ok m = true -> m_stream m = None -> e_emptystream (m_file m) = true.
Proof. unfold member_ok. intros H E. rewrite E in H. destruct (e_emptystream (m_file m)); [reflexivity|discriminate H]. Qed.

Lemma new_sizes_cons m r : new_sizes (m :: r) = match m_stream m with Some (sz, _) => [sz] | None => [] end ++ new_sizes r.
Proof. reflexivity. Qed.
Lemma new_crcs_cons m r : new_crcs (m :: r) = match m_stream m with Some (_, c) => [c] | None => [] end ++ new_crcs r.
Proof. reflexivity. Qed.
Lemma new_crcs_length ms : length (new_crcs ms) = length (new_sizes ms).
Proof.
  induction ms as [|m r IH]; [reflexivity|]. rewrite new_sizes_cons, new_crcs_cons, !app_length, IH.
  destruct (m_stream m) as [[sz c]|]; reflexivity.
Qed.

(* members without data never touch the cursor *)
(* the EmptyFile bits of the entries a session adds: none has the key, all read as False *)
Definition new_ef (ms : list new_member) : list bool :=
  flat_map (fun m => if e_emptystream (m_file m) then [false] else []) ms.
Lemma new_ef_cons m r : new_ef (m :: r) = (if e_emptystream (m_file m) then [false] else []) ++ new_ef r.
Proof. reflexivity. Qed.

Lemma new_run_empty multi nums sizes dd dg nf : forall ms fid fo os inp fstats F off,
  forallb member_ok ms = true -> new_sizes ms = [] ->
  assign_loop multi (map m_file ms) (new_ef ms) fid nums sizes dd dg fo os inp fstats nf = Ok (new_plans fid F off ms).
Proof.
  induction ms as [|m r IH]; intros fid fo os inp fstats F off Hok Hs; [reflexivity|].
  simpl in Hok. apply andb_prop in Hok as [Hm Hr]. rewrite new_sizes_cons in Hs.
  destruct (m_stream m) as [[sz c]|] eqn:Es; [discriminate Hs|]. simpl in Hs.
  change (map m_file (m :: r)) with (m_file m :: map m_file r). rewrite assign_loop_cons, new_ef_cons. cbn zeta.
  rewrite (member_ok_nodata m Hm Es). cbn [app hd tl]. rewrite (IH (fid + 1) fo os inp fstats F off Hr Hs). cbn [bind].
  simpl new_plans. rewrite Es. reflexivity.
Qed.

Section NewRun.
Variables (nums sizes : list Z) (dd : list bool) (dg : list Z) (multi : bool).
Hypothesis Hdd : zlen dd = zlen sizes.
Hypothesis Hdg : zlen dg = zlen sizes.
Let N := zlen nums.

(* inside the new folder: `inp` members handed out so far, `off` bytes *)
Lemma new_run : forall ms pre_sz pre_dd pre_dg fid inp fo fstats off,
  zlen pre_sz = inp -> zlen pre_dd = inp -> zlen pre_dg = inp ->
  forallb member_ok ms = true ->
  (if inp =? 0
   then 0 <= fo <= N /\ (forall j, fo <= j < N -> nthZ nums j = Ok 0) /\ flook fstats N = None /\ off = 0
   else fo = N /\ exists first, flook fstats N = Some (mkFstat first inp off)) ->
  assign_loop multi (map m_file ms) (new_ef ms) fid
              (nums ++ [inp + zlen (new_sizes ms)])
              (sizes ++ pre_sz ++ new_sizes ms)
              (dd ++ pre_dd ++ repeat true (length (new_sizes ms)))
              (dg ++ pre_dg ++ new_crcs ms)
              fo (zlen sizes + inp) inp fstats (N + 1)
  = Ok (new_plans fid N off ms).
Proof.
  induction ms as [|m r IH]; intros pre_sz pre_dd pre_dg fid inp fo fstats off H1 H2 H3 Hok Hst; [reflexivity|].
  simpl in Hok. apply andb_prop in Hok as [Hm Hr].
  change (map m_file (m :: r)) with (m_file m :: map m_file r). rewrite assign_loop_cons, new_ef_cons. cbn zeta.
  rewrite new_sizes_cons, new_crcs_cons. simpl new_plans.
  destruct (m_stream m) as [[sz c]|] eqn:Es.
  - rewrite (member_ok_data m sz c Hm Es). change ([] ++ new_ef r) with (new_ef r).
    set (numsX := nums ++ [inp + zlen ([sz] ++ new_sizes r)]).
    assert (Hinp : 0 <= inp) by (rewrite <- H1; apply zlen_nonneg).
    assert (Hcur : (if inp =? 0 then skip_zero (length numsX) numsX fo else fo) = N).
    { destruct (inp =? 0) eqn:Ei.
      - destruct Hst as [Hfo [Hz _]]. unfold numsX, N.
        apply (skip_zero_to_new nums _ (Z.to_nat (zlen nums - fo)) fo); [lia|fold N; lia|exact Hz].
      - destruct Hst as [-> _]. reflexivity. }
    rewrite Hcur. replace ((N <? 0) || (N + 1 <=? N)) with false by (unfold N; pose proof (zlen_nonneg nums); lia).
    assert (HnX : nthZ numsX N = Ok (inp + zlen ([sz] ++ new_sizes r))).
    { unfold numsX, N. apply nthZ_app. }
    rewrite HnX. cbn [bind].
    assert (Hs : nthZ (sizes ++ pre_sz ++ [sz] ++ new_sizes r) (zlen sizes + inp) = Ok sz).
    { rewrite nthZ_app_r by lia. rewrite <- H1. apply nthZ_app. }
    rewrite Hs. cbn [bind].
    assert (Hd : nthZ (dd ++ pre_dd ++ repeat true (length ([sz] ++ new_sizes r))) (zlen sizes + inp) = Ok true).
    { rewrite <- Hdd. rewrite nthZ_app_r by lia. rewrite <- H2. simpl length. simpl repeat. apply nthZ_app. }
    rewrite Hd. cbn [bind].
    assert (Hg : nthZ (dg ++ pre_dg ++ [c] ++ new_crcs r) (zlen sizes + inp) = Ok c).
    { rewrite <- Hdg. rewrite nthZ_app_r by lia. rewrite <- H3. apply nthZ_app. }
    rewrite Hg. cbn [bind].
    pose proof (upd_fstat_spec fstats N fid sz) as HU. cbn zeta in HU.
    destruct (upd_fstat fstats N fid sz) as [fstats1 old] eqn:EU. cbn [fst snd] in HU. destruct HU as [HU1 HU2].
    rewrite <- HU1 in HU2.
    assert (Hoff : fs_bytes old = off /\ fs_count old = inp).
    { destruct (inp =? 0) eqn:Ei.
      - destruct Hst as [_ [_ [Hnone ->]]]. rewrite Hnone in HU1. subst old. cbn. lia.
      - destruct Hst as [_ [first Hsome]]. rewrite Hsome in HU1. subst old. cbn. lia. }
    destruct Hoff as [Hoff Hcnt]. clear HnX Hcur. subst numsX.
    rewrite AssignProofs.zlen_app. change (zlen [sz]) with 1.
    destruct (inp + (1 + zlen (new_sizes r)) <=? inp + 1) eqn:En.
    + (* the last data member of the session *)
      assert (Hnil : new_sizes r = []).
      { pose proof (zlen_nonneg (new_sizes r)). destruct (new_sizes r); [reflexivity|]. rewrite AssignProofs.zlen_cons in En.
        pose proof (zlen_nonneg l). lia. }
      rewrite (new_run_empty multi _ _ _ _ _ r (fid + 1) _ _ _ _ N (off + sz) Hr Hnil). cbn [bind].
      rewrite Hoff. reflexivity.
    + assert (IHr := IH (pre_sz ++ [sz]) (pre_dd ++ [true]) (pre_dg ++ [c]) (fid + 1) (inp + 1) N fstats1 (off + sz)).
      rewrite !AssignProofs.zlen_app in IHr. change (zlen [sz]) with 1 in IHr. change (zlen [true]) with 1 in IHr.
      change (zlen [c]) with 1 in IHr.
      specialize (IHr ltac:(lia) ltac:(lia) ltac:(lia) Hr).
      replace (inp + 1 =? 0) with false in IHr by lia.
      assert (Hfl : flook fstats1 N = Some (mkFstat (fs_first old) (inp + 1) (off + sz)))
        by (rewrite HU2, Z.eqb_refl, Hoff, Hcnt; reflexivity).
      specialize (IHr (conj eq_refl (ex_intro _ (fs_first old) Hfl))).
      rewrite <- !app_assoc in IHr. simpl length. simpl repeat.
      replace (inp + 1 + zlen (new_sizes r)) with (inp + (1 + zlen (new_sizes r))) in IHr by lia.
      replace (zlen sizes + (inp + 1)) with (zlen sizes + inp + 1) in IHr by lia.
      cbn [app] in IHr |- *. rewrite IHr. cbn [bind]. rewrite Hoff. reflexivity.
  - rewrite (member_ok_nodata m Hm Es). cbn [app hd tl].
    rewrite (IH pre_sz pre_dd pre_dg (fid + 1) inp fo fstats off H1 H2 H3 Hr Hst). reflexivity.
Qed.
End NewRun.

(* ================================================================== *)
(* impl_plans unfolded; default sizes                                  *)
(* ================================================================== *)
Lemma impl_plans_streams p fs s fl ef :
  impl_plans (mkHeader (Some (mkStreams (Some p) (Some fs) (Some s))) (Some fl) ef) =
  do sizes <- (match s_sizes s with Some sz => Ok sz | None => dflt_sizes fs (s_nums s) end);
  assign_loop (negb (zlen fs =? 1)) fl ef 0 (s_nums s) sizes (Header.s_digestsdefined s) (Header.s_digests s) 0 0 0 [] (zlen fs).
Proof. unfold impl_plans. cbn [h_files h_streams h_emptyfiles si_folders si_pack si_sub]. destruct (s_sizes s); reflexivity. Qed.

Lemma dflt_sizes_length : forall fs ns l, length fs = length ns -> forallb (fun n => 0 <=? n) ns = true ->
  dflt_sizes fs ns = Ok l -> zlen l = sumZ ns.
Proof.
  induction fs as [|f fs IH]; intros [|n ns] l HL Hn H; try discriminate HL.
  - simpl in H. injection H as <-. reflexivity.
  - simpl in HL, Hn, H. injection HL as HL. apply andb_prop in Hn as [Hn0 Hn]. rewrite AssignProofs.sumZ_cons.
    destruct (n <=? 0) eqn:En.
    + rewrite (IH ns l HL Hn H). lia.
    + bind_inv H v Hv. bind_inv H t Ht. injection H as <-.
      rewrite AssignProofs.zlen_app, zlen_repeat, (IH ns t HL Hn Ht). lia.
Qed.

Lemma recover_of_dflt : forall fs ns l, recover_agrees fs ns = true -> dflt_sizes fs ns = Ok l -> recover_sizes fs ns = Ok l.
Proof.
  induction fs as [|f fs IH]; intros [|n ns] l Ha H; try exact H.
  simpl in Ha, H |- *. apply andb_prop in Ha as [Ha1 Ha]. destruct (n <=? 0) eqn:En.
  - apply IH; assumption.
  - simpl in Ha1. unfold last_is_main in Ha1.
    bind_inv H v Hv. bind_inv H t Ht. injection H as <-. rewrite Hv in Ha1.
    destruct (folder_unpack_size f) as [a|] eqn:Ea; [|discriminate Ha1].
    assert (a = v) by lia. subst a. cbn [bind]. rewrite (IH ns t Ha Ht). reflexivity.
Qed.

Lemma assign_loop_multi_irrel m1 m2 : forall files efl fid nums sizes dd dg fo os inp fstats nf,
  assign_loop m1 files efl fid nums sizes dd dg fo os inp fstats nf =
  assign_loop m2 files efl fid nums sizes dd dg fo os inp fstats nf.
Proof.
  induction files as [|e r IH]; intros; [reflexivity|]. rewrite !assign_loop_cons. cbn zeta.
  destruct (e_emptystream e).
  - rewrite (IH (tl efl) (fid + 1)). reflexivity.
  - destruct (_ || _); [reflexivity|].
    destruct (nthZ nums _) as [n|]; [|reflexivity]. cbn [bind].
    destruct (nthZ sizes os) as [size|]; [|reflexivity]. cbn [bind].
    destruct (nthZ dd os) as [d|]; [|reflexivity]. cbn [bind].
    destruct (nthZ dg os) as [g|]; [|reflexivity]. cbn [bind].
    destruct (upd_fstat _ _ _ _) as [f1 old]. destruct (n <=? inp + 1); rewrite (IH efl (fid + 1)); reflexivity.
Qed.

(* entries without data: no list but the EmptyFile vector is consulted *)
Lemma assign_loop_all_empty multi nums sizes dd dg nf : forall files efl fid fo os inp fstats,
  forallb e_emptystream files = true ->
  assign_loop multi files efl fid nums sizes dd dg fo os inp fstats nf = Ok (nostream_plans files efl fid).
Proof.
  induction files as [|e r IH]; intros efl fid fo os inp fstats H; [reflexivity|].
  simpl in H. apply andb_prop in H as [He Hr]. rewrite assign_loop_cons. cbn zeta. rewrite He.
  rewrite (IH (tl efl) (fid + 1) fo os inp fstats Hr). cbn [bind nostream_plans]. unfold entry_kind. rewrite He. reflexivity.
Qed.
Lemma impl_plans_nostreams fl ef :
  impl_plans (mkHeader None (Some fl) ef) = Ok (nostream_plans fl ef 0).
Proof. reflexivity. Qed.

(* ================================================================== *)
(* The session in closed form                                          *)
(* ================================================================== *)
Lemma incr_last_app : forall l n, incr_last (l ++ [n]) = Ok (l ++ [n + 1]).
Proof.
  induction l as [|x l IH]; intros n; [reflexivity|].
  change ((x :: l) ++ [n]) with (x :: (l ++ [n])). simpl incr_last. rewrite IH. cbn [bind].
  destruct (l ++ [n]) eqn:E; [destruct l; discriminate E|reflexivity].
Qed.

Lemma add_members_closed pk fo : forall ms nums c sz dd dg fl ef,
  add_members (mkHeader (Some (mkStreams pk fo (Some (mkSub (nums ++ [c]) (Some sz) dd dg)))) (Some fl) ef) ms =
  Ok (mkHeader (Some (mkStreams pk fo (Some (mkSub (nums ++ [c + zlen (new_sizes ms)]) (Some (sz ++ new_sizes ms))
                                                 (dd ++ repeat true (length (new_sizes ms))) (dg ++ new_crcs ms)))))
               (Some (fl ++ map m_file ms)) (ef ++ new_ef ms)).
Proof.
  induction ms as [|m r IH]; intros nums c sz dd dg fl ef.
  - simpl. change (zlen (@nil Z)) with 0. rewrite Z.add_0_r, !app_nil_r. reflexivity.
  - simpl add_members. unfold add_member. cbn [h_files h_streams h_emptyfiles si_sub si_pack si_folders].
    rewrite new_sizes_cons, new_crcs_cons. simpl new_ef. simpl map.
    destruct (m_stream m) as [[s0 c0]|] eqn:Es.
    + unfold after_write. cbn [s_nums s_sizes Header.s_digestsdefined Header.s_digests]. rewrite incr_last_app. cbn [bind].
      rewrite IH. rewrite AssignProofs.zlen_app. change (zlen [s0]) with 1.
      rewrite app_length. simpl length. simpl repeat. rewrite <- !app_assoc. cbn [app].
      replace (c + 1 + zlen (new_sizes r)) with (c + (1 + zlen (new_sizes r))) by lia. reflexivity.
    + cbn [bind]. rewrite IH. rewrite <- !app_assoc. cbn [app]. reflexivity.
Qed.

(* ================================================================== *)
(* (1) appending extends the meaning of the base                       *)
(* ================================================================== *)
Lemma append_core nums sz0 dd dg files ef ms multi multi' ps :
  length ef = nempty files ->
  forallb (fun n => 0 <=? n) nums = true ->
  zlen sz0 = sumZ nums -> zlen dd = sumZ nums -> zlen dg = sumZ nums -> count_data files = sumZ nums ->
  forallb member_ok ms = true ->
  assign_loop multi files ef 0 nums sz0 dd dg 0 0 0 [] (zlen nums) = Ok ps ->
  assign_loop multi' (files ++ map m_file ms) (ef ++ new_ef ms) 0 (nums ++ [0 + zlen (new_sizes ms)]) (sz0 ++ new_sizes ms)
              (dd ++ repeat true (length (new_sizes ms))) (dg ++ new_crcs ms) 0 0 0 [] (zlen nums + 1)
  = Ok (ps ++ new_plans (zlen files) (zlen nums) 0 ms).
Proof.
  intros Hef Hnn Hsz Hdd Hdg Hcnt Hok Hrun.
  rewrite (assign_loop_multi_irrel multi multi') in Hrun.
  destruct (ext_run nums sz0 dd dg [0 + zlen (new_sizes ms)] (new_sizes ms) (repeat true (length (new_sizes ms))) (new_crcs ms)
                    Hnn Hsz files ef multi' 0 0 0 0 [] ps Hef) as [fo' [inp' [fstats' [HI [HF HG]]]]].
  { unfold Inv. rewrite psum_0. pose proof (zlen_nonneg nums). repeat split; try lia. }
  { exact Hrun. }
  rewrite HG. clear HG. destruct HI as [Hfo [Hinp [Hos Hin]]]. rewrite Hcnt in Hos.
  pose proof (psum_mono nums fo' Hnn ltac:(lia)) as Hm.
  assert (inp' = 0).
  { destruct (Z.eq_dec inp' 0) as [|Hne]; [assumption|]. exfalso.
    destruct (Hin ltac:(lia)) as [n [Hn Hlt]]. pose proof (psum_succ _ _ _ Hn) as Hs.
    pose proof (psum_mono nums (fo' + 1) Hnn ltac:(lia)). lia. }
  subst inp'.
  pose proof (new_run nums sz0 dd dg multi' ltac:(lia) ltac:(lia) ms [] [] [] (0 + zlen files) 0 fo' fstats' 0
                      eq_refl eq_refl eq_refl Hok) as HN.
  cbn [app] in HN. rewrite Hcnt. replace (0 + sumZ nums) with (zlen sz0 + 0) by lia. rewrite HN.
  - cbn [bind]. rewrite Z.add_0_l. reflexivity.
  - simpl. split; [lia|]. split; [|split; [|reflexivity]].
    + intros j Hj. apply (psum_full_zero nums fo' j Hnn); lia.
    + apply HF; [lia|reflexivity].
Qed.

Lemma count_data_all_empty files : forallb e_emptystream files = true -> count_data files = 0.
Proof.
  induction files as [|e r IH]; intros H; [reflexivity|]. simpl in H. apply andb_prop in H as [He Hr].
  rewrite count_data_cons, He, (IH Hr). reflexivity.
Qed.

Theorem append_preserves_plans pw h nf ms psz pcrc h' ps :
  base_ok h = true -> impl_plans h = Ok ps -> forallb member_ok ms = true ->
  append_session pw h nf ms psz pcrc = Ok h' ->
  impl_plans h' = Ok (ps ++ new_plans (nfiles h) (nfolders h) 0 ms).
Proof.
  intros Hb Hp Hok Hs. unfold append_session in Hs.
  destruct ms as [|m0 r] eqn:Ems.
  { injection Hs as <-. simpl. rewrite app_nil_r. exact Hp. }
  rewrite <- Ems in *. clear Ems m0 r.
  destruct h as [st fl ef]. unfold base_ok in Hb. apply andb_prop in Hb as [Hef Hb].
  unfold ef_aligned in Hef. cbn [h_streams h_files h_emptyfiles] in Hb, Hef.
  destruct st as [[pk fo sb]|].
  - cbn [si_pack si_folders si_sub] in Hb.
    destruct pk as [p|]; [|discriminate Hb]. destruct fo as [fs|]; [|discriminate Hb].
    destruct sb as [[nums sizes dd dg]|]; [|discriminate Hb]. destruct fl as [files|]; [|discriminate Hb].
    cbn [s_nums s_sizes Header.s_digestsdefined Header.s_digests] in Hb.
    apply andb_prop in Hb as [Hb Hcnt]. apply andb_prop in Hb as [Hb Hdg]. apply andb_prop in Hb as [Hb Hdd].
    apply andb_prop in Hb as [Hb Hsizes]. apply andb_prop in Hb as [Hlen Hnn].
    rewrite impl_plans_streams in Hp. cbn [s_nums s_sizes Header.s_digestsdefined Header.s_digests] in Hp.
    bind_inv Hp sz0 Hsz0.
    assert (Hsz : zlen sz0 = sumZ nums).
    { destruct sizes as [sz|]; [injection Hsz0 as <-; lia|].
      apply (dflt_sizes_length fs nums sz0); [unfold zlen in *; lia|assumption|exact Hsz0]. }
    assert (Hinit : initialize (mkHeader (Some (mkStreams (Some p) (Some fs) (Some (mkSub nums sizes dd dg)))) (Some files) ef) nf =
                    Ok (mkHeader (Some (mkStreams (Some p) (Some (fs ++ [nf])) (Some (mkSub (nums ++ [0]) (Some sz0) dd dg))))
                                 (Some files) ef)).
    { unfold initialize. cbn [h_streams h_files h_emptyfiles si_sub si_pack si_folders s_sizes s_nums Header.s_digestsdefined Header.s_digests option_map].
      destruct sizes as [sz|].
      - injection Hsz0 as <-. reflexivity.
      - rewrite (recover_of_dflt fs nums sz0) by assumption. reflexivity. }
    rewrite Hinit in Hs. cbn [bind] in Hs. rewrite add_members_closed in Hs. cbn [bind] in Hs.
    unfold flush in Hs. cbn [h_streams h_files h_emptyfiles si_sub si_pack si_folders] in Hs. injection Hs as <-.
    rewrite impl_plans_streams. cbn [s_nums s_sizes Header.s_digestsdefined Header.s_digests bind].
    unfold nfiles, nfolders. cbn [h_streams h_files si_folders].
    rewrite AssignProofs.zlen_app. change (zlen [nf]) with 1.
    replace (zlen fs) with (zlen nums) in * by lia.
    apply (append_core nums sz0 dd dg files ef ms (negb (zlen nums =? 1))); try assumption; unfold zlen in *; lia.
  - cbn [h_streams] in *.
    set (files := match fl with Some f => f | None => [] end).
    assert (Hfe : forallb e_emptystream files = true) by (destruct fl; [exact Hb|reflexivity]).
    assert (Hps : ps = nostream_plans files ef 0).
    { destruct fl as [f|]; [rewrite impl_plans_nostreams in Hp; injection Hp as <-; reflexivity|].
      simpl in Hp. injection Hp as <-. destruct ef; [reflexivity|discriminate Hef]. }
    unfold initialize in Hs. cbn [h_streams h_files h_emptyfiles bind] in Hs. fold files in Hs. unfold fresh_streams in Hs.
    change [0] with ([] ++ [0]) in Hs. rewrite add_members_closed in Hs. cbn [bind] in Hs.
    unfold flush in Hs. cbn [h_streams h_files h_emptyfiles si_sub si_pack si_folders] in Hs. injection Hs as <-.
    rewrite impl_plans_streams. cbn [s_nums s_sizes Header.s_digestsdefined Header.s_digests bind].
    unfold nfiles, nfolders. cbn [h_streams h_files].
    replace (match fl with Some fl0 => zlen fl0 | None => 0 end) with (zlen files) by (destruct fl; reflexivity).
    change (zlen [nf]) with (zlen (@nil Z) + 1). 
    apply (append_core [] [] [] [] files ef ms false); try reflexivity; try assumption.
    + unfold zlen in Hef. fold files in Hef. lia.
    + rewrite (count_data_all_empty files Hfe). reflexivity.
    + rewrite Hps. apply assign_loop_all_empty. exact Hfe.
Qed.

(* ================================================================== *)
(* (2) where the new packed stream goes                                *)
(* ================================================================== *)
Definition pack_of (h : header) : option packinfo :=
  match h_streams h with Some st => si_pack st | None => None end.
(* the PackInfo the session starts from: the base's, or the empty one of a fresh header *)
Definition base_pack (h : header) : packinfo :=
  match pack_of h with Some p => p | None => mkPack 0 0 [] [] [] end.

Lemma add_member_pack h m h2 : add_member h m = Ok h2 -> h_streams h <> None ->
  pack_of h2 = pack_of h /\ h_streams h2 <> None.
Proof.
  unfold add_member, pack_of. destruct (h_files h) as [fl|]; [|discriminate].
  destruct (m_stream m) as [[sz c]|].
  - destruct (h_streams h) as [st|]; [|discriminate]. destruct (si_sub st) as [s|]; [|discriminate].
    intros H _. bind_inv H s' Hs'. injection H as <-. split; [reflexivity|discriminate].
  - intros H Hne. injection H as <-. split; [reflexivity|exact Hne].
Qed.
Lemma add_members_pack : forall ms h h2, add_members h ms = Ok h2 -> h_streams h <> None ->
  pack_of h2 = pack_of h /\ h_streams h2 <> None.
Proof.
  induction ms as [|m r IH]; intros h h2 H Hne; simpl in H.
  - injection H as <-. split; [reflexivity|exact Hne].
  - bind_inv H h1 H1. destruct (add_member_pack _ _ _ H1 Hne) as [E1 N1].
    destruct (IH _ _ H N1) as [E2 N2]. split; [congruence|exact N2].
Qed.

Lemma tiling_app : forall a b off, tiling off (a ++ b) = tiling off a ++ tiling (off + sumZ a) b.
Proof.
  induction a as [|x a IH]; intros b off; simpl.
  - rewrite AssignProofs.sumZ_nil, Z.add_0_r. reflexivity.
  - rewrite IH, AssignProofs.sumZ_cons. replace (off + x + sumZ a) with (off + (x + sumZ a)) by lia. reflexivity.
Qed.
Lemma tiling_within : forall szs off o s, Forall (fun x => 0 <= x) szs -> In (o, s) (tiling off szs) ->
  off <= o /\ o + s <= off + sumZ szs.
Proof.
  induction szs as [|x szs IH]; intros off o s Hp Hin; [destruct Hin|].
  inversion Hp as [|? ? Hx Hr]; subst. rewrite AssignProofs.sumZ_cons.
  assert (0 <= sumZ szs) by (clear -Hr; induction Hr; [rewrite AssignProofs.sumZ_nil; lia|rewrite AssignProofs.sumZ_cons; lia]).
  destruct Hin as [E|Hin].
  - injection E as <- <-. lia.
  - destruct (IH (off + x) o s Hr Hin). lia.
Qed.

Theorem append_position_after_data pw h nf ms psz pcrc h' ah :
  ms <> [] -> append_session pw h nf ms psz pcrc = Ok h' ->
  let p := base_pack h in
  p_numstreams p = zlen (p_sizes p) ->
  let start := ah + p_pos p in
  let pos := start + sumZ (p_sizes p) in
  (* the seek position of _prepare_append is the end of the base's packed area *)
  append_position h ah = Ok pos /\
  exists p', pack_of h' = Some p' /\ p_pos p' = p_pos p /\ p_sizes p' = p_sizes p ++ [psz] /\
             p_numstreams p' = zlen (p_sizes p') /\
             (* the packed streams of the result: the old ones where they were, then the new one; together they tile *)
             tiling start (p_sizes p') = tiling start (p_sizes p) ++ [(pos, psz)] /\
             tiles start (tiling start (p_sizes p')) (pos + psz) /\
             (* no old packed byte lies in the interval written by the session *)
             (Forall (fun x => 0 <= x) (p_sizes p) ->
              forall o s, In (o, s) (tiling start (p_sizes p)) -> start <= o /\ o + s <= pos).
Proof.
  intros Hne Hs p Hnum start pos. unfold append_session in Hs.
  destruct ms as [|m0 r]; [congruence|]. bind_inv Hs h1 H1. bind_inv Hs h2 H2.
  assert (Hbase : pack_of h1 = Some p /\ h_streams h1 <> None /\
                  append_position h ah = Ok (ah + p_pos p + pack_end p)).
  { unfold initialize in H1. unfold p, base_pack, pack_of, append_position. destruct (h_streams h) as [st|] eqn:Est.
    - bind_inv H1 sub' Hsub. injection H1 as <-. cbn [h_streams si_pack].
      destruct (si_pack st) as [p0|] eqn:Ep.
      + split; [reflexivity|]. split; [discriminate|reflexivity].
      + exfalso. destruct (add_members_pack _ _ _ H2 ltac:(discriminate)) as [E2 _].
        unfold flush in Hs. unfold pack_of in E2. cbn [h_streams si_pack] in E2.
        destruct (h_streams h2) as [st2|]; [|discriminate Hs]. rewrite E2 in Hs.
        destruct (si_folders st2); discriminate Hs.
    - injection H1 as <-. cbn. split; [reflexivity|]. split; [discriminate|]. f_equal. unfold pack_end. cbn. lia. }
  destruct Hbase as [Hp1 [Hn1 Hpos]].
  destruct (add_members_pack _ _ _ H2 Hn1) as [Hp2 Hn2]. rewrite Hp1 in Hp2.
  assert (Hend : pack_end p = sumZ (p_sizes p)).
  { unfold pack_end. rewrite Hnum, takeZ_all. reflexivity. }
  split; [rewrite Hpos, Hend; unfold pos, start; f_equal; lia|].
  unfold flush in Hs. unfold pack_of in Hp2. destruct (h_streams h2) as [st2|]; [|discriminate Hs].
  rewrite Hp2 in Hs. destruct (si_folders st2) as [fs2|]; [|discriminate Hs]. injection Hs as <-.
  eexists. split; [unfold pack_of; cbn [h_streams si_pack]; reflexivity|]. cbn [p_pos p_sizes p_numstreams].
  split; [reflexivity|]. split; [reflexivity|]. split; [rewrite AssignProofs.zlen_app; change (zlen [psz]) with 1; lia|].
  assert (Ht : tiling start (p_sizes p ++ [psz]) = tiling start (p_sizes p) ++ [(pos, psz)]).
  { rewrite tiling_app. reflexivity. }
  split; [exact Ht|]. split.
  - replace (pos + psz) with (start + sumZ (p_sizes p ++ [psz])).
    + apply tiling_tiles.
    + rewrite AssignProofs.sumZ_app, AssignProofs.sumZ_cons, AssignProofs.sumZ_nil. unfold pos. lia.
  - intros Hnn o s Hin. exact (tiling_within _ _ _ _ Hnn Hin).
Qed.

(* ================================================================== *)
(* (3) k sessions                                                      *)
(* ================================================================== *)
Lemma recover_sizes_length : forall fs ns l, length fs = length ns -> forallb (fun n => 0 <=? n) ns = true ->
  recover_sizes fs ns = Ok l -> zlen l = sumZ ns.
Proof.
  induction fs as [|f fs IH]; intros [|n ns] l HL Hn H; try discriminate HL.
  - simpl in H. injection H as <-. reflexivity.
  - simpl in HL, Hn, H. injection HL as HL. apply andb_prop in Hn as [Hn0 Hn]. rewrite AssignProofs.sumZ_cons.
    destruct (n <=? 0) eqn:En.
    + rewrite (IH ns l HL Hn H). lia.
    + bind_inv H v Hv. bind_inv H t Ht. injection H as <-.
      rewrite AssignProofs.zlen_app, zlen_repeat, (IH ns t HL Hn Ht). lia.
Qed.
Lemma count_data_members ms : forallb member_ok ms = true -> count_data (map m_file ms) = zlen (new_sizes ms).
Proof.
  induction ms as [|m r IH]; intros H; [reflexivity|]. simpl in H. apply andb_prop in H as [Hm Hr].
  simpl map. rewrite count_data_cons, new_sizes_cons, AssignProofs.zlen_app, (IH Hr).
  destruct (m_stream m) as [[sz c]|] eqn:Es.
  - rewrite (member_ok_data m sz c Hm Es). reflexivity.
  - rewrite (member_ok_nodata m Hm Es). reflexivity.
Qed.
Lemma forallb_app_true {A} (f : A -> bool) a b : forallb f a = true -> forallb f b = true -> forallb f (a ++ b) = true.
Proof. intros Ha Hb. rewrite forallb_app, Ha, Hb. reflexivity. Qed.

Lemma new_ef_length ms : length (new_ef ms) = nempty (map m_file ms).
Proof.
  induction ms as [|m r IH]; [reflexivity|]. rewrite new_ef_cons, app_length, IH. simpl map. rewrite nempty_cons.
  destruct (e_emptystream (m_file m)); reflexivity.
Qed.
Lemma ef_aligned_app st files ef ms : zlen ef = Z.of_nat (nempty files) ->
  ef_aligned (mkHeader st (Some (files ++ map m_file ms)) (ef ++ new_ef ms)) = true.
Proof.
  intros H. unfold ef_aligned. cbn [h_files h_emptyfiles]. rewrite AssignProofs.zlen_app, nempty_app.
  unfold zlen at 2. rewrite new_ef_length. lia.
Qed.

(* the graph a session leaves behind is again a base a session can start from *)
Theorem append_session_base_ok pw h nf ms psz pcrc h' :
  base_ok h = true -> forallb member_ok ms = true ->
  append_session pw h nf ms psz pcrc = Ok h' -> base_ok h' = true.
Proof.
  intros Hb Hok Hs. unfold append_session in Hs.
  destruct ms as [|m0 r] eqn:Ems; [injection Hs as <-; exact Hb|].
  rewrite <- Ems in *. clear Ems m0 r.
  pose proof (count_data_members ms Hok) as Hcm.
  pose proof (zlen_nonneg (new_sizes ms)) as Hk.
  assert (Hcr : zlen (new_crcs ms) = zlen (new_sizes ms)) by (unfold zlen; rewrite new_crcs_length; reflexivity).
  destruct h as [st fl ef]. unfold base_ok in Hb. apply andb_prop in Hb as [Hef Hb].
  unfold ef_aligned in Hef. cbn [h_streams h_files h_emptyfiles] in Hb, Hef.
  destruct st as [[pk fo sb]|].
  - cbn [si_pack si_folders si_sub] in Hb.
    destruct pk as [p|]; [|discriminate Hb]. destruct fo as [fs|]; [|discriminate Hb].
    destruct sb as [[nums sizes dd dg]|]; [|discriminate Hb]. destruct fl as [files|]; [|discriminate Hb].
    cbn [s_nums s_sizes Header.s_digestsdefined Header.s_digests] in Hb.
    apply andb_prop in Hb as [Hb Hcnt]. apply andb_prop in Hb as [Hb Hdg]. apply andb_prop in Hb as [Hb Hdd].
    apply andb_prop in Hb as [Hb Hsizes]. apply andb_prop in Hb as [Hlen Hnn].
    unfold initialize in Hs. cbn [h_streams h_files h_emptyfiles si_sub si_pack si_folders s_sizes s_nums
                                  Header.s_digestsdefined Header.s_digests option_map] in Hs.
    bind_inv Hs h1 H1. bind_inv H1 sub' Hsub. bind_inv Hsub osz Hosz. injection Hsub as <-. injection H1 as <-.
    assert (exists sz0, osz = Some sz0 /\ zlen sz0 = sumZ nums) as [sz0 [-> Hsz]].
    { destruct sizes as [sz|].
      - injection Hosz as <-. exists sz. split; [reflexivity|lia].
      - bind_inv Hosz r0 Hr0. injection Hosz as <-. exists r0. split; [reflexivity|].
        apply (recover_sizes_length fs nums r0); [unfold zlen in *; lia|assumption|exact Hr0]. }
    rewrite add_members_closed in Hs. cbn [bind] in Hs.
    unfold flush in Hs. cbn [h_streams h_files h_emptyfiles si_sub si_pack si_folders] in Hs. injection Hs as <-.
    unfold base_ok. rewrite ef_aligned_app by lia. cbn [andb].
    cbn [h_streams h_files si_pack si_folders si_sub s_nums s_sizes Header.s_digestsdefined Header.s_digests].
    assert (Hs1 : sumZ (nums ++ [zlen (new_sizes ms)]) = sumZ nums + zlen (new_sizes ms))
      by (rewrite AssignProofs.sumZ_app, AssignProofs.sumZ_cons, AssignProofs.sumZ_nil; lia).
    rewrite Hs1.
    repeat (apply andb_true_intro; split).
    + rewrite !AssignProofs.zlen_app. change (zlen [nf]) with 1. change (zlen [zlen (new_sizes ms)]) with 1. lia.
    + apply forallb_app_true; [exact Hnn|]. simpl. rewrite andb_true_r. lia.
    + rewrite AssignProofs.zlen_app. lia.
    + rewrite AssignProofs.zlen_app, zlen_repeat. fold (zlen (new_sizes ms)). lia.
    + rewrite AssignProofs.zlen_app. lia.
    + rewrite count_data_app, Hcm. lia.
  - cbn [h_streams] in *.
    set (files := match fl with Some f => f | None => [] end).
    assert (Hfe : forallb e_emptystream files = true) by (destruct fl; [exact Hb|reflexivity]).
    unfold initialize in Hs. cbn [h_streams h_files h_emptyfiles bind] in Hs. fold files in Hs. unfold fresh_streams in Hs.
    change [0] with ([] ++ [0]) in Hs. rewrite add_members_closed in Hs. cbn [bind] in Hs.
    unfold flush in Hs. cbn [h_streams h_files h_emptyfiles si_sub si_pack si_folders] in Hs. injection Hs as <-.
    unfold base_ok. rewrite ef_aligned_app by (fold files in Hef; lia). cbn [andb].
    cbn [h_streams h_files si_pack si_folders si_sub s_nums s_sizes Header.s_digestsdefined Header.s_digests app].
    assert (Hs1 : sumZ [zlen (new_sizes ms)] = zlen (new_sizes ms))
      by (rewrite AssignProofs.sumZ_cons, AssignProofs.sumZ_nil; lia).
    rewrite Hs1.
    repeat (apply andb_true_intro; split);
      rewrite ?zlen_repeat, ?count_data_app, ?(count_data_all_empty files Hfe), ?Hcm;
      try fold (zlen (new_sizes ms)); try reflexivity; lia.
Qed.

Section Sessions.
(* what closing and opening again does to the graph, an invariant G of the graphs a session starts
   from, and a condition P on sessions: re-opening what a session left keeps the invariant and the plans *)
Variable reopen : header -> res header.
Variable pw : bool.
Variable G : header -> Prop.
Variable P : session -> Prop.
Hypothesis G_base_ok : forall h, G h -> base_ok h = true.
Hypothesis P_members : forall s, P s -> forallb member_ok (ss_members s) = true.
Hypothesis reopen_keeps : forall h s h1 h2, G h -> P s ->
  append_session pw h (ss_folder s) (ss_members s) (ss_packsize s) (ss_packcrc s) = Ok h1 ->
  reopen h1 = Ok h2 -> G h2 /\ impl_plans h2 = impl_plans h1.

Theorem append_sessions_preserve : forall ss h ps hk,
  G h -> impl_plans h = Ok ps -> Forall P ss ->
  append_sessions reopen pw h ss = Ok hk ->
  G hk /\ exists qs, impl_plans hk = Ok (ps ++ qs).
Proof.
  induction ss as [|s r IH]; intros h ps hk Hg Hp HP Hs; simpl in Hs.
  - injection Hs as <-. split; [exact Hg|]. exists []. rewrite app_nil_r. exact Hp.
  - inversion HP as [|? ? Ps Pr]; subst. bind_inv Hs h1 H1. bind_inv Hs h2 H2.
    pose proof (append_preserves_plans pw h _ _ _ _ h1 ps (G_base_ok h Hg) Hp (P_members s Ps) H1) as Hp1.
    destruct (reopen_keeps h s h1 h2 Hg Ps H1 H2) as [Hg2 Hp2]. rewrite <- Hp2 in Hp1.
    destruct (IH h2 _ hk Hg2 Hp1 Pr Hs) as [Hgk [qs Hq]]. split; [exact Hgk|].
    eexists. rewrite <- app_assoc in Hq. exact Hq.
Qed.
End Sessions.

(* instance: the sessions chained on the graph itself (no re-serialisation between them) *)
Corollary append_sessions_preserve_graph pw ss h ps hk :
  base_ok h = true -> impl_plans h = Ok ps ->
  Forall (fun s => forallb member_ok (ss_members s) = true) ss ->
  append_sessions (fun x => Ok x) pw h ss = Ok hk ->
  base_ok hk = true /\ exists qs, impl_plans hk = Ok (ps ++ qs).
Proof.
  intros Hb Hp HP Hs.
  apply (append_sessions_preserve (fun x => Ok x) pw (fun x => base_ok x = true)
           (fun s => forallb member_ok (ss_members s) = true)) with (ss := ss) (h := h); auto.
  intros h0 s h1 h2 Hg Ps H1 H2. injection H2 as <-. split; [|reflexivity].
  eapply append_session_base_ok; eassumption.
Qed.

(* ================================================================== *)
(* Re-serialisation keeps the plans (composition with header_roundtrip) *)
(* ================================================================== *)
From P7 Require HeaderProofs.

(* the SIZE record is written only when some folder holds more than one sub-stream; otherwise the
   reader takes each size from its folder: the sizes held must be those *)
Definition sizes_canonical (h : header) : bool :=
  match h_streams h with
  | Some st =>
      match si_folders st, si_sub st with
      | Some fs, Some s =>
          match s_sizes s with
          | Some sz => HeaderProofs.sub_multi s ||
                       match dflt_sizes fs (s_nums s) with Ok l => HeaderProofs.zlist_eqb l sz | Err _ => false end
          | None => true
          end
      | _, _ => true
      end
  | None => true
  end.
(* SubstreamsInfo.write writes nothing when there is no folder; and the graph carries a SubstreamsInfo object at all
   (every graph that went through _real_get_contents does: Assign.install_sub) -- without one the folders' CRCs,
   which the assignment then hands to the members, would be lost with the folder CRC record that is never written *)
Definition nums_nonempty (h : header) : bool :=
  match h_streams h with
  | Some st => match si_sub st with Some s => negb (length (s_nums s) =? 0)%nat | None => false end
  | None => true
  end.

Lemma norm_file_attr_dir cd ad e : attr_is_dir (e_attr (HeaderProofs.norm_file cd ad e)) = attr_is_dir (e_attr e).
Proof. destruct e as [es nm ct at_ mt [[a|]|]]; reflexivity. Qed.
Lemma norm_file_attr cd ad e : Spec.flat_opt (e_attr (HeaderProofs.norm_file cd ad e)) = Spec.flat_opt (e_attr e).
Proof. destruct e as [es nm ct at_ mt [[a|]|]]; reflexivity. Qed.
Lemma norm_file_mtime cd ad e : Spec.flat_opt (e_mtime (HeaderProofs.norm_file cd ad e)) = Spec.flat_opt (e_mtime e).
Proof. destruct e as [es nm ct at_ [[m|]|] a]; reflexivity. Qed.

Lemma nthZ_mask : forall (dd : list bool) (dg : list Z) i d, length dd = length dg -> nthZ dd i = Ok d ->
  exists g, nthZ dg i = Ok g /\ nthZ (HeaderProofs.mask_digests dg dd) i = Ok (if d then g else 0).
Proof.
  intros dd dg i d HL H. destruct (nthZ_inv _ _ _ H) as [Hr Hn]. unfold nthZ. replace (i <? 0) with false by lia.
  revert Hn HL. generalize (Z.to_nat i). clear. intros k. revert dd dg.
  induction k as [|k IH]; intros [|b dd] [|c dg] Hn HL; try discriminate Hn; try discriminate HL.
  - simpl in Hn. injection Hn as ->. exists c. split; reflexivity.
  - simpl in Hn, HL. injection HL as HL. destruct (IH dd dg Hn HL) as [g [H1 H2]]. exists g. split; assumption.
Qed.

Lemma assign_loop_norm cd ad : forall files efl m fid nums sizes dd dg fo os inp fst nf, length dd = length dg ->
  assign_loop m (map (HeaderProofs.norm_file cd ad) files) efl fid nums sizes dd (HeaderProofs.mask_digests dg dd) fo os inp fst nf =
  assign_loop m files efl fid nums sizes dd dg fo os inp fst nf.
Proof.
  induction files as [|e r IH]; intros efl m fid nums sizes dd dg fo os inp fst nf HL; [reflexivity|].
  change (map (HeaderProofs.norm_file cd ad) (e :: r)) with (HeaderProofs.norm_file cd ad e :: map (HeaderProofs.norm_file cd ad) r).
  rewrite !assign_loop_cons. cbn zeta.
  rewrite norm_file_attr_dir, norm_file_attr, norm_file_mtime.
  change (e_emptystream (HeaderProofs.norm_file cd ad e)) with (e_emptystream e).
  change (e_name (HeaderProofs.norm_file cd ad e)) with (e_name e).
  destruct (e_emptystream e).
  - rewrite (IH (tl efl) m (fid + 1) nums sizes dd dg fo os inp fst nf HL). reflexivity.
  - destruct (_ || _); [reflexivity|].
    destruct (nthZ nums _) as [n|]; [|reflexivity]. cbn [bind].
    destruct (nthZ sizes os) as [size|]; [|reflexivity]. cbn [bind].
    destruct (nthZ dd os) as [d|] eqn:Ed; [|reflexivity]. cbn [bind].
    destruct (nthZ_mask dd dg os d HL Ed) as [g [Hg Hm]]. rewrite Hg, Hm. cbn [bind].
    destruct (upd_fstat _ _ _ _) as [f1 old].
    replace (if d then Some (if d then g else 0) else None) with (if d then Some g else None) by (destruct d; reflexivity).
    destruct (n <=? inp + 1); rewrite (IH efl m (fid + 1) nums sizes dd dg _ _ _ f1 nf HL); reflexivity.
Qed.

Lemma dflt_sizes_norm : forall fs ns, dflt_sizes (map HeaderProofs.norm_folder fs) ns = dflt_sizes fs ns.
Proof.
  induction fs as [|f fs IH]; intros [|n ns]; try reflexivity. simpl. rewrite IH. reflexivity.
Qed.

Lemma enumerate_norm cd ad : forall files efl i,
  nostream_plans (map (HeaderProofs.norm_file cd ad) files) efl i = nostream_plans files efl i.
Proof.
  induction files as [|e r IH]; intros efl i; [reflexivity|]. simpl map. cbn [nostream_plans].
  change (e_emptystream (HeaderProofs.norm_file cd ad e)) with (e_emptystream e).
  change (e_name (HeaderProofs.norm_file cd ad e)) with (e_name e).
  rewrite IH. unfold entry_kind. rewrite norm_file_attr_dir, norm_file_attr, norm_file_mtime.
  change (e_emptystream (HeaderProofs.norm_file cd ad e)) with (e_emptystream e). reflexivity.
Qed.
Lemma nempty_norm cd ad files : nempty (map (HeaderProofs.norm_file cd ad) files) = nempty files.
Proof.
  induction files as [|e r IH]; [reflexivity|]. simpl map. rewrite !nempty_cons, IH.
  change (e_emptystream (HeaderProofs.norm_file cd ad e)) with (e_emptystream e). reflexivity.
Qed.
(* the EmptyFile vector as it is written and read back stands for the one in the graph *)
Lemma norm_emptyfiles_pad files ef :
  HeaderProofs.norm_emptyfiles files ef = firstn (nempty files) (ef ++ repeat false (nempty files)).
Proof. unfold HeaderProofs.norm_emptyfiles. cbv zeta. rewrite count_true_nempty, Nat2Z.id. reflexivity. Qed.

Lemma has_data_norm cd ad files :
  existsb (fun e => negb (e_emptystream e)) (map (HeaderProofs.norm_file cd ad) files) = existsb (fun e => negb (e_emptystream e)) files.
Proof. induction files as [|e r IH]; [reflexivity|]. simpl. rewrite IH. reflexivity. Qed.

Theorem impl_plans_norm lim en h :
  HeaderProofs.wf_header lim en h = true -> sizes_canonical h = true -> nums_nonempty h = true ->
  impl_plans (HeaderProofs.norm en h) = impl_plans h.
Proof.
  intros Hwf Hcan Hne. destruct h as [st fl ef]. unfold HeaderProofs.norm, HeaderProofs.norm_files. cbn [h_streams h_files h_emptyfiles].
  destruct fl as [files|]; [|reflexivity]. cbn [option_map].
  destruct st as [[pk fo sb]|].
  2:{ cbn [option_map]. rewrite !impl_plans_nostreams. rewrite enumerate_norm, norm_emptyfiles_pad.
      rewrite nostream_plans_ef_pad by lia. reflexivity. }
  unfold HeaderProofs.wf_header in Hwf. cbn [h_streams h_files] in Hwf. apply andb_prop in Hwf as [Hws _].
  unfold HeaderProofs.wf_streams in Hws. cbn [si_pack si_folders] in Hws.
  unfold sizes_canonical in Hcan. unfold nums_nonempty in Hne. cbn [h_streams si_folders si_sub] in Hcan, Hne.
  cbn [option_map]. unfold HeaderProofs.norm_streams. cbn [si_pack si_folders si_sub].
  destruct fo as [fs|]; [|destruct pk; reflexivity].
  destruct pk as [p|]; [|reflexivity]. cbn [option_map].
  unfold HeaderProofs.sub_written in *. cbn [si_sub] in *.
  destruct sb as [x|].
  - apply negb_true_iff in Hne. rewrite Hne in *. cbn [option_map]. apply andb_prop in Hws as [_ Hsub].
    unfold HeaderProofs.wf_sub in Hsub.
    apply andb_prop in Hsub as [Hsub Hmulti]. apply andb_prop in Hsub as [Hsub Hdg]. apply andb_prop in Hsub as [Hsub Hdd].
    rewrite !impl_plans_streams. unfold HeaderProofs.norm_sub. cbn [s_nums s_sizes Header.s_digestsdefined Header.s_digests].
    rewrite AssignProofs.zlen_map, dflt_sizes_norm.
    assert (HL : length (Header.s_digestsdefined x) = length (Header.s_digests x)) by (unfold zlen in *; lia).
    assert (Hsz : (match (if HeaderProofs.sub_multi x then s_sizes x else None) with
                   | Some sz => Ok sz | None => dflt_sizes fs (s_nums x) end) =
                  (match s_sizes x with Some sz => Ok sz | None => dflt_sizes fs (s_nums x) end)).
    { destruct (HeaderProofs.sub_multi x) eqn:Em; [reflexivity|].
      destruct (s_sizes x) as [sz|]; [|reflexivity]. simpl in Hcan.
      destruct (dflt_sizes fs (s_nums x)) as [l|]; [|discriminate Hcan].
      apply HeaderProofs.zlist_eqb_eq in Hcan. subst l. reflexivity. }
    rewrite Hsz. destruct (match s_sizes x with Some sz => Ok sz | None => dflt_sizes fs (s_nums x) end) as [sizes|]; [|reflexivity].
    cbn [bind]. rewrite assign_loop_norm by exact HL. rewrite norm_emptyfiles_pad.
    apply assign_loop_ef_pad; lia.
  - discriminate Hne.
Qed.

(* ---- the packed-stream list of a folder with one packed stream is not stored: the Folder object
   py7zr builds for a new folder leaves it empty, the reader recomputes it ---- *)
Definition canon_folder (f : folder) : folder :=
  if HeaderProofs.total_in f - (HeaderProofs.total_out f - 1) =? 1
  then mkFolder (f_coders f) (f_bonds f) (HeaderProofs.computed_packed f) (f_unpacksizes f) (f_digestdefined f) (f_crc f)
  else f.
Definition canon_header (h : header) : header :=
  mkHeader (option_map (fun st => mkStreams (si_pack st) (option_map (map canon_folder) (si_folders st)) (si_sub st)) (h_streams h))
           (h_files h) (h_emptyfiles h).

Lemma write_folder_canon f : write_folder (canon_folder f) = write_folder f.
Proof.
  unfold canon_folder, HeaderProofs.total_in, HeaderProofs.total_out.
  destruct (_ =? 1) eqn:E; [|reflexivity]. unfold write_folder. cbn [f_coders f_bonds f_packed].
  replace (0 <? sumZ (map c_nin (f_coders f)) - sumZ (map c_nout (f_coders f))) with false by lia. reflexivity.
Qed.
Lemma wr_list_map_ext {A} (f : A -> res bytes) (g : A -> A) : (forall x, f (g x) = f x) ->
  forall l, wr_list f (map g l) = wr_list f l.
Proof. intros H. induction l as [|x l IH]; [reflexivity|]. simpl. rewrite H, IH. reflexivity. Qed.
Lemma canon_folder_unpacksizes f : f_unpacksizes (canon_folder f) = f_unpacksizes f.
Proof. unfold canon_folder. destruct (_ =? 1); reflexivity. Qed.

Lemma write_header_canon en pos h : write_header en pos (canon_header h) = write_header en pos h.
Proof.
  unfold write_header, canon_header. cbn [h_streams h_files h_emptyfiles].
  destruct (h_streams h) as [st|]; [|reflexivity]. cbn [option_map].
  unfold write_streams. cbn [si_pack si_folders si_sub].
  destruct (si_folders st) as [fs|]; [|reflexivity]. cbn [option_map].
  unfold write_unpackinfo. rewrite AssignProofs.zlen_map.
  rewrite (wr_list_map_ext write_folder canon_folder write_folder_canon).
  rewrite (wr_list_map_ext (fun f => wr_list wr_number (f_unpacksizes f)) canon_folder)
    by (intros x; rewrite canon_folder_unpacksizes; reflexivity).
  reflexivity.
Qed.

Lemma dflt_sizes_canon : forall fs ns, dflt_sizes (map canon_folder fs) ns = dflt_sizes fs ns.
Proof.
  induction fs as [|f fs IH]; intros [|n ns]; try reflexivity. simpl. rewrite IH, canon_folder_unpacksizes. reflexivity.
Qed.
Lemma canon_folder_crc f :
  f_digestdefined (canon_folder f) = f_digestdefined f /\ f_crc (canon_folder f) = f_crc f.
Proof. unfold canon_folder. destruct (_ =? 1); split; reflexivity. Qed.
Lemma default_digests_canon : forall fs ns, default_digests ns (map canon_folder fs) = default_digests ns fs.
Proof.
  induction fs as [|f fs IH]; intros [|n ns]; try reflexivity.
  cbn [map default_digests]. rewrite IH. destruct (canon_folder_crc f) as [Hd Hc]. rewrite Hd, Hc. reflexivity.
Qed.
Lemma default_sub_canon fs : default_sub (map canon_folder fs) = default_sub fs.
Proof. unfold default_sub. rewrite map_length, default_digests_canon. reflexivity. Qed.
Lemma impl_plans_canon h : impl_plans (canon_header h) = impl_plans h.
Proof.
  destruct h as [[[pk fo sb]|] fl ef]; [|reflexivity]. unfold canon_header. cbn [h_streams h_files h_emptyfiles option_map si_pack si_folders si_sub].
  destruct fl as [files|]; [|reflexivity]. destruct fo as [fs|]; [|reflexivity]. destruct pk as [p|]; [|reflexivity].
  cbn [option_map]. destruct sb as [x|].
  - rewrite !impl_plans_streams, AssignProofs.zlen_map, dflt_sizes_canon. reflexivity.
  - unfold impl_plans. cbn [h_files h_streams si_folders si_pack si_sub].
    rewrite AssignProofs.zlen_map, default_sub_canon.
    change last_sizes with dflt_sizes. rewrite dflt_sizes_canon. reflexivity.
Qed.
Lemma sizes_canonical_canon h : sizes_canonical (canon_header h) = sizes_canonical h.
Proof.
  destruct h as [[[pk fo sb]|] fl ef]; [|reflexivity]. unfold canon_header, sizes_canonical.
  cbn [h_streams option_map si_folders si_sub]. destruct fo as [fs|]; [|reflexivity]. cbn [option_map].
  destruct sb as [x|]; [|reflexivity]. rewrite dflt_sizes_canon. reflexivity.
Qed.
Lemma nums_nonempty_canon h : nums_nonempty (canon_header h) = nums_nonempty h.
Proof. destruct h as [[[pk fo sb]|] fl ef]; reflexivity. Qed.

(* what is on disk after the session reads back with the same plans *)
Theorem reserialise_keeps_plans lim en pos h bs :
  HeaderProofs.wf_header lim en (canon_header h) = true -> sizes_canonical h = true -> nums_nonempty h = true ->
  write_header en pos h = Ok bs ->
  parse_header lim bs = Ok (HeaderProofs.norm en (canon_header h)) /\
  impl_plans (HeaderProofs.norm en (canon_header h)) = impl_plans h.
Proof.
  intros Hwf Hcan Hne Hw. rewrite <- write_header_canon in Hw. split.
  - exact (HeaderProofs.header_roundtrip lim en pos _ bs Hwf Hw).
  - rewrite (impl_plans_norm lim en (canon_header h) Hwf) by (rewrite ?sizes_canonical_canon, ?nums_nonempty_canon; assumption).
    apply impl_plans_canon.
Qed.

Theorem append_then_reopen lim pw h nf ms psz pcrc h' ps pos bs :
  base_ok h = true -> impl_plans h = Ok ps -> forallb member_ok ms = true ->
  append_session pw h nf ms psz pcrc = Ok h' ->
  HeaderProofs.wf_header lim (enable_digests pw h) (canon_header h') = true ->
  sizes_canonical h' = true -> nums_nonempty h' = true ->
  write_header (enable_digests pw h) pos h' = Ok bs ->
  exists h2, parse_header lim bs = Ok h2 /\
             impl_plans h2 = Ok (ps ++ new_plans (nfiles h) (nfolders h) 0 ms).
Proof.
  intros Hb Hp Hok Hs Hwf Hcan Hne Hw.
  destruct (reserialise_keeps_plans lim _ pos h' bs Hwf Hcan Hne Hw) as [H1 H2].
  eexists. split; [exact H1|]. rewrite H2. eapply append_preserves_plans; eassumption.
Qed.

(* ---- k sessions with the archive closed, written and read again between them ---- *)
Definition recover_all (h : header) : bool :=
  match h_streams h with
  | Some st => match si_folders st, si_sub st with
               | Some fs, Some s => recover_agrees fs (s_nums s)
               | _, _ => true
               end
  | None => true
  end.
Definition named (e : fileent) : bool := match e_name e with Some _ => true | None => false end.
Definition all_named_h (h : header) : bool :=
  match h_files h with Some fl => forallb named fl | None => true end.

(* the conditions under which what is written reads back with the same plans and can be appended to again *)
Definition reopen_guard (lim : Z) (en : bool) (h : header) : bool :=
  HeaderProofs.wf_header lim en (canon_header h) && sizes_canonical h && nums_nonempty h && recover_all h && all_named_h h.
Definition reopen_checked (lim : Z) (pw : bool) (posf : header -> Z) (dflt : list Z) (h : header) : res header :=
  if reopen_guard lim (enable_digests pw h) h
  then reopen_via_bytes lim (enable_digests pw h) (posf h) dflt h
  else Err EOther.

Lemma open_names_named dflt h : all_named_h h = true -> open_names dflt h = h.
Proof.
  destruct h as [st [fl|] ef]; [|reflexivity]. unfold all_named_h, open_names. cbn [h_files h_streams h_emptyfiles option_map].
  intros H. f_equal. f_equal. induction fl as [|e r IH]; [reflexivity|]. simpl in H. apply andb_prop in H as [He Hr].
  simpl. rewrite (IH Hr). f_equal. unfold fill_name. unfold named in He. destruct (e_name e); [reflexivity|discriminate He].
Qed.
Lemma all_named_norm_canon en h : all_named_h (HeaderProofs.norm en (canon_header h)) = all_named_h h.
Proof.
  destruct h as [st [fl|] ef]; [|reflexivity]. unfold all_named_h, HeaderProofs.norm, HeaderProofs.norm_files, canon_header.
  cbn [h_files option_map]. generalize (has_time e_ctime fl) (has_time e_atime fl). intros cd ad.
  induction fl as [|e r IH]; [reflexivity|]. simpl. rewrite IH. reflexivity.
Qed.

Lemma last_is_main_norm_canon f : last_is_main (HeaderProofs.norm_folder (canon_folder f)) = last_is_main f.
Proof.
  unfold last_is_main, folder_unpack_size, HeaderProofs.norm_folder, canon_folder.
  destruct (_ =? 1); reflexivity.
Qed.
Lemma recover_agrees_norm_canon : forall fs ns,
  recover_agrees (map HeaderProofs.norm_folder (map canon_folder fs)) ns = recover_agrees fs ns.
Proof.
  induction fs as [|f fs IH]; intros [|n ns]; try reflexivity. simpl. rewrite IH, last_is_main_norm_canon. reflexivity.
Qed.
Lemma count_data_norm cd ad files : count_data (map (HeaderProofs.norm_file cd ad) files) = count_data files.
Proof. induction files as [|e r IH]; [reflexivity|]. simpl map. rewrite !count_data_cons, IH. reflexivity. Qed.
Lemma mask_digests_length : forall (dd : list bool) (dg : list Z), length dd = length dg ->
  length (HeaderProofs.mask_digests dg dd) = length dg.
Proof.
  unfold HeaderProofs.mask_digests. intros dd dg H. rewrite map_length, combine_length. lia.
Qed.

(* a graph that was written and read back holds exactly one EmptyFile bit per entry without data *)
Lemma ef_aligned_norm_canon en h : ef_aligned (HeaderProofs.norm en (canon_header h)) = true.
Proof.
  destruct h as [st fl ef]. unfold ef_aligned, HeaderProofs.norm, canon_header. cbn [h_streams h_files h_emptyfiles].
  destruct fl as [files|]; [|reflexivity]. cbn [option_map]. unfold HeaderProofs.norm_files.
  rewrite nempty_norm. unfold zlen. rewrite HeaderProofs.norm_emptyfiles_length, count_true_nempty, Nat2Z.id. lia.
Qed.

Lemma base_ok_norm_canon en h :
  base_ok h = true -> recover_all h = true -> nums_nonempty h = true ->
  base_ok (HeaderProofs.norm en (canon_header h)) = true.
Proof.
  intros Hb Hr Hne. unfold base_ok at 1. rewrite ef_aligned_norm_canon. cbn [andb].
  unfold base_ok in Hb. apply andb_prop in Hb as [_ Hb].
  destruct h as [st fl ef]. unfold recover_all, nums_nonempty in *.
  unfold HeaderProofs.norm, HeaderProofs.norm_files, canon_header. cbn [h_streams h_files h_emptyfiles] in *.
  destruct st as [[pk fo sb]|]; cbn [option_map].
  - cbn [si_pack si_folders si_sub] in *. destruct pk as [p|]; [|discriminate Hb]. destruct fo as [fs|]; [|discriminate Hb].
    destruct sb as [x|]; [|discriminate Hb]. destruct fl as [files|]; [|discriminate Hb].
    unfold HeaderProofs.norm_streams, HeaderProofs.sub_written. cbn [si_pack si_folders si_sub option_map].
    apply negb_true_iff in Hne. rewrite Hne. cbn [option_map].
    unfold HeaderProofs.norm_sub. cbn [s_nums s_sizes Header.s_digestsdefined Header.s_digests].
    apply andb_prop in Hb as [Hb Hcnt]. apply andb_prop in Hb as [Hb Hdg]. apply andb_prop in Hb as [Hb Hdd].
    apply andb_prop in Hb as [Hb Hsizes]. apply andb_prop in Hb as [Hlen Hnn].
    rewrite !AssignProofs.zlen_map, count_data_norm, Hlen, Hnn, Hdd, Hcnt. cbn [andb].
    assert (Hm : zlen (HeaderProofs.mask_digests (Header.s_digests x) (Header.s_digestsdefined x)) = zlen (Header.s_digests x)).
    { unfold zlen. rewrite mask_digests_length; [reflexivity|]. unfold zlen in *. lia. }
    rewrite Hm, Hdg, andb_true_r.
    rewrite !andb_true_r.
    destruct (HeaderProofs.sub_multi x); [destruct (s_sizes x)|]; rewrite ?recover_agrees_norm_canon; assumption.
  - destruct fl as [files|]; [|reflexivity]. cbn [option_map].
    generalize (has_time e_ctime files) (has_time e_atime files). intros cd ad.
    clear -Hb. induction files as [|e r IH]; [reflexivity|]. simpl in *. apply andb_prop in Hb as [He Hr0].
    rewrite He, (IH Hr0). reflexivity.
Qed.

(* a base already carries its SubstreamsInfo object: opening installs nothing *)
Lemma install_sub_base_ok h : base_ok h = true -> install_sub h = h.
Proof.
  destruct h as [[[pk fo sb]|] fl ef]; [|intros _; destruct fl; reflexivity].
  unfold base_ok, install_sub. cbn [h_streams h_files si_pack si_folders si_sub].
  destruct pk as [p|], fo as [fs|], sb as [x|], fl as [files|]; intros H; try reflexivity;
    apply andb_prop in H as [_ H]; discriminate H.
Qed.

Theorem reopen_checked_keeps lim pw posf dflt h1 h2 :
  base_ok h1 = true -> reopen_checked lim pw posf dflt h1 = Ok h2 ->
  base_ok h2 = true /\ impl_plans h2 = impl_plans h1.
Proof.
  unfold reopen_checked, reopen_guard. intros Hb H.
  destruct (_ && _) eqn:Eg in H; [|discriminate H].
  apply andb_prop in Eg as [Eg Hnamed]. apply andb_prop in Eg as [Eg Hrec]. apply andb_prop in Eg as [Eg Hne].
  apply andb_prop in Eg as [Hwf Hcan].
  unfold reopen_via_bytes in H. bind_inv H bs Hw. bind_inv H hp Hparse. injection H as <-.
  destruct (reserialise_keeps_plans lim _ _ h1 bs Hwf Hcan Hne Hw) as [H1 H2].
  rewrite H1 in Hparse. injection Hparse as <-.
  unfold open_graph. rewrite install_sub_base_ok by (apply base_ok_norm_canon; assumption).
  rewrite open_names_named by (rewrite all_named_norm_canon; exact Hnamed).
  split; [apply base_ok_norm_canon; assumption|exact H2].
Qed.

(* every earlier plan survives k sessions, each closed, written and read back before the next *)
Corollary append_sessions_preserve_reopened lim pw posf dflt ss h ps hk :
  base_ok h = true -> impl_plans h = Ok ps ->
  Forall (fun s => forallb member_ok (ss_members s) = true) ss ->
  append_sessions (reopen_checked lim pw posf dflt) pw h ss = Ok hk ->
  base_ok hk = true /\ exists qs, impl_plans hk = Ok (ps ++ qs).
Proof.
  intros Hb Hp HP Hs.
  apply (append_sessions_preserve (reopen_checked lim pw posf dflt) pw (fun x => base_ok x = true)
           (fun s => forallb member_ok (ss_members s) = true)) with (ss := ss) (h := h); auto.
  intros h0 s h1 h2 Hg Ps H1 H2.
  apply (reopen_checked_keeps lim pw posf dflt h1 h2); [|exact H2].
  eapply append_session_base_ok; eassumption.
Qed.

(* ================================================================== *)
(* Creation and access times of earlier entries survive                 *)
(* ================================================================== *)
(* (since the repair of FilesInfo.write: CREATION_TIME / LAST_ACCESS_TIME are written back whenever some entry
   has a defined value).  No hypothesis on the base beyond what makes the header round trip hold. *)
Definition entry_times (e : fileent) : option Z * option Z := (Spec.flat_opt (e_ctime e), Spec.flat_opt (e_atime e)).
Definition times_of (h : header) : list (option Z * option Z) :=
  match h_files h with Some fl => map entry_times fl | None => [] end.
Definition files_list (h : header) : list fileent := match h_files h with Some fl => fl | None => [] end.

Lemma add_members_files : forall ms h h2, add_members h ms = Ok h2 -> files_list h2 = files_list h ++ map m_file ms.
Proof.
  induction ms as [|m r IH]; intros h h2 H; simpl in H.
  - injection H as <-. simpl. rewrite app_nil_r. reflexivity.
  - bind_inv H h1 H1. rewrite (IH h1 h2 H). simpl map.
    assert (E : files_list h1 = files_list h ++ [m_file m]).
    { unfold add_member in H1. destruct (h_files h) as [fl|] eqn:Ef; [|discriminate H1].
      unfold files_list at 2. rewrite Ef.
      destruct (m_stream m) as [[sz crc]|].
      - destruct (h_streams h) as [st|]; [|discriminate H1]. destruct (si_sub st) as [sb|]; [|discriminate H1].
        bind_inv H1 s' Hs'. injection H1 as <-. reflexivity.
      - injection H1 as <-. reflexivity. }
    rewrite E, <- app_assoc. reflexivity.
Qed.

(* the graph at close: the earlier entries are the very same records, the session's entries follow *)
Theorem append_session_files pw h nf ms psz pcrc h' :
  append_session pw h nf ms psz pcrc = Ok h' -> files_list h' = files_list h ++ map m_file ms.
Proof.
  unfold append_session. destruct ms as [|m0 r] eqn:Ems.
  { intros H. injection H as <-. simpl. rewrite app_nil_r. reflexivity. }
  rewrite <- Ems. clear Ems m0 r. intros H. bind_inv H h1 H1. bind_inv H h2 H2.
  assert (E1 : files_list h1 = files_list h).
  { unfold initialize in H1. destruct (h_streams h) as [st|].
    - bind_inv H1 sub' Hsub. injection H1 as <-. reflexivity.
    - injection H1 as <-. unfold files_list. cbn [h_files]. destruct (h_files h); reflexivity. }
  assert (E2 : files_list h' = files_list h2).
  { unfold flush in H. destruct (h_streams h2) as [st|]; [|discriminate H].
    destruct (si_folders st); [|discriminate H]. destruct (si_pack st); [|discriminate H]. injection H as <-. reflexivity. }
  rewrite E2, (add_members_files ms h1 h2 H2), E1. reflexivity.
Qed.

Lemma times_of_files h : times_of h = map entry_times (files_list h).
Proof. unfold times_of, files_list. destruct (h_files h); reflexivity. Qed.

Theorem append_session_times pw h nf ms psz pcrc h' :
  append_session pw h nf ms psz pcrc = Ok h' ->
  times_of h' = times_of h ++ map (fun m => entry_times (m_file m)) ms.
Proof.
  intros H. rewrite !times_of_files, (append_session_files pw h nf ms psz pcrc h' H), map_app, map_map. reflexivity.
Qed.

(* what close() writes reads back with the creation / access time of EVERY entry, at its position *)
Theorem reserialise_keeps_times lim en pos h bs :
  HeaderProofs.wf_header lim en (canon_header h) = true -> write_header en pos h = Ok bs ->
  exists h2, parse_header lim bs = Ok h2 /\ times_of h2 = times_of h.
Proof.
  intros Hwf Hw. rewrite <- write_header_canon in Hw.
  eexists. split; [exact (HeaderProofs.header_roundtrip lim en pos _ bs Hwf Hw)|].
  unfold times_of, HeaderProofs.norm, canon_header. cbn [h_files].
  destruct (h_files h) as [fl|]; [|reflexivity]. cbn [option_map].
  exact (HeaderProofs.norm_files_times fl).
Qed.

Theorem append_then_reopen_times lim pw h nf ms psz pcrc h' pos bs :
  append_session pw h nf ms psz pcrc = Ok h' ->
  HeaderProofs.wf_header lim (enable_digests pw h) (canon_header h') = true ->
  write_header (enable_digests pw h) pos h' = Ok bs ->
  exists h2, parse_header lim bs = Ok h2 /\
             times_of h2 = times_of h ++ map (fun m => entry_times (m_file m)) ms /\
             firstn (length (times_of h)) (times_of h2) = times_of h.
Proof.
  intros Hs Hwf Hw. destruct (reserialise_keeps_times lim _ pos h' bs Hwf Hw) as [h2 [H1 H2]].
  exists h2. split; [exact H1|]. rewrite H2, (append_session_times pw h nf ms psz pcrc h' Hs).
  split; [reflexivity|]. rewrite firstn_app, Nat.sub_diag, firstn_all. simpl. apply app_nil_r.
Qed.

(* k sessions, the archive written and read back (and the generated names filled in) between them *)
Lemma open_names_times dflt h : times_of (open_names dflt h) = times_of h.
Proof.
  unfold times_of, open_names. cbn [h_files]. destruct (h_files h) as [fl|]; [|reflexivity]. cbn [option_map].
  rewrite map_map. apply map_ext. intros e. unfold fill_name. destruct (e_name e); reflexivity.
Qed.

Lemma install_sub_files h : h_files (Assign.install_sub h) = h_files h.
Proof.
  destruct h as [[st|] [fl|] ef]; try reflexivity. unfold Assign.install_sub. cbn [h_files h_streams].
  destruct (si_folders st), (si_pack st), (si_sub st); reflexivity.
Qed.
Lemma open_graph_times dflt h : times_of (open_graph dflt h) = times_of h.
Proof. unfold open_graph. rewrite open_names_times. unfold times_of. rewrite install_sub_files. reflexivity. Qed.

Theorem reopen_checked_keeps_times lim pw posf dflt h1 h2 :
  reopen_checked lim pw posf dflt h1 = Ok h2 -> times_of h2 = times_of h1.
Proof.
  unfold reopen_checked, reopen_guard. intros H.
  destruct (_ && _) eqn:Eg in H; [|discriminate H].
  apply andb_prop in Eg as [Eg _]. apply andb_prop in Eg as [Eg _]. apply andb_prop in Eg as [Eg _].
  apply andb_prop in Eg as [Hwf _].
  unfold reopen_via_bytes in H. bind_inv H bs Hw. bind_inv H hp Hparse. injection H as <-.
  destruct (reserialise_keeps_times lim _ _ h1 bs Hwf Hw) as [hq [H1 H2]].
  rewrite H1 in Hparse. injection Hparse as <-. rewrite open_graph_times. exact H2.
Qed.

Theorem append_sessions_preserve_times lim pw posf dflt : forall ss h hk,
  append_sessions (reopen_checked lim pw posf dflt) pw h ss = Ok hk ->
  exists ts, times_of hk = times_of h ++ ts.
Proof.
  induction ss as [|s r IH]; intros h hk Hs; simpl in Hs.
  - injection Hs as <-. exists []. rewrite app_nil_r. reflexivity.
  - bind_inv Hs h1 H1. bind_inv Hs h2 H2. destruct (IH h2 hk Hs) as [ts Hts].
    rewrite Hts, (reopen_checked_keeps_times lim pw posf dflt h1 h2 H2), (append_session_times pw h _ _ _ _ h1 H1).
    eexists. rewrite <- app_assoc. reflexivity.
Qed.

(* ================================================================== *)
(* A base read from a specification-valid header                        *)
(* ================================================================== *)
(* the graph py7zr builds for a header that is valid by the format's own reading (AssignProofs.embed, nice)
   is a base in the sense of base_ok, and its plans are the format's plans (assign_conforms) *)
Lemma base_ok_embed sh : nice sh = true -> base_ok (embed sh) = true.
Proof.
  intros Hn. unfold nice, s_valid, nums_nonneg in Hn.
  repeat match goal with H : _ && _ = true |- _ => apply andb_prop in H; destruct H end.
  unfold base_ok, ef_aligned, embed, embed_sub. cbn [h_streams h_files h_emptyfiles si_pack si_folders si_sub s_nums s_sizes
                                         Header.s_digestsdefined Header.s_digests].
  rewrite !AssignProofs.zlen_map. unfold count_data, is_data.
  match goal with H : (zlen (sh_emptyfile sh) =? count_true _) = true |- _ => rewrite count_true_nempty in H end.
  repeat (apply andb_true_intro; split); try assumption; lia.
Qed.

Theorem append_preserves_spec_base pw sh nf ms psz pcrc h' :
  nice sh = true -> forallb member_ok ms = true ->
  append_session pw (embed sh) nf ms psz pcrc = Ok h' ->
  exists ps, impl_plans (embed sh) = Ok ps /\ plans_agree 0 (spec_plans sh) ps = true /\
             impl_plans h' = Ok (ps ++ new_plans (zlen (sh_files sh)) (zlen (sh_folders sh)) 0 ms).
Proof.
  intros Hn Hok Hs. destruct (assign_conforms sh Hn) as [ps [Hp Ha]]. exists ps. split; [exact Hp|]. split; [exact Ha|].
  pose proof (append_preserves_plans pw (embed sh) nf ms psz pcrc h' ps (base_ok_embed sh Hn) Hp Hok Hs) as H.
  unfold nfiles, nfolders, embed in H. cbn [h_streams h_files si_folders] in H. rewrite AssignProofs.zlen_map in H. exact H.
Qed.

(* ================================================================== *)
(* Examples: the hypotheses are met by concrete non-trivial states      *)
(* ================================================================== *)
Definition x_copy : coder := mkCoder [0] 1 1 None.
Definition x_lzma2 : coder := mkCoder [33] 1 1 (Some [24]).
Definition x_file (name : Z) (mt : Z) : fileent := mkFile false (Some [name]) None None (Some (Some mt)) (Some (Some 32)).
Definition x_dir (name : Z) : fileent := mkFile true (Some [name]) None None (Some (Some 7)) (Some (Some 16)).

(* a solid folder of two members and a second folder, a directory between the data entries *)
Definition x_base : header :=
  mkHeader
    (Some (mkStreams (Some (mkPack 0 2 [40; 7] [] []))
                     (Some [mkFolder [x_lzma2] [] [0] [300] false None; mkFolder [x_copy] [] [0] [7] false None])
                     (Some (mkSub [2; 1] (Some [100; 200; 7]) [true; true; true] [11; 22; 33]))))
    (Some [x_file 97 1000; x_dir 100; x_file 98 2000; x_file 99 3000])
    [false].
(* the Folder object of the session as py7zr leaves it: packed-stream list empty, unpack sizes from the compressor *)
Definition x_newfolder : folder := mkFolder [x_copy] [] [] [12] false None.
Definition x_members : list new_member :=
  [mkMember (x_file 120 4000) (Some (5, 111)); mkMember (x_dir 121) None; mkMember (x_file 122 5000) (Some (7, 222))].

Example append_example_hypotheses :
  base_ok x_base = true /\ forallb member_ok x_members = true /\
  exists h', append_session false x_base x_newfolder x_members 12 999 = Ok h' /\
             HeaderProofs.wf_header 1000 (enable_digests false x_base) (canon_header h') = true /\
             sizes_canonical h' = true /\ nums_nonempty h' = true /\
             reopen_guard 1000 (enable_digests false h') h' = true.
Proof. split; [reflexivity|]. split; [reflexivity|]. eexists. split; [vm_compute; reflexivity|]. repeat split; vm_compute; reflexivity. Qed.

Example append_example_plans :
  exists ps h', impl_plans x_base = Ok ps /\ append_session false x_base x_newfolder x_members 12 999 = Ok h' /\
    impl_plans h' = Ok (ps ++ [mkIPlan (Some [120]) 0 2 0 5 (Some 111) (Some 4000) (Some 32) 4 false false;
                               mkIPlan (Some [121]) 2 (-1) 0 0 None (Some 7) (Some 16) 5 true false;
                               mkIPlan (Some [122]) 0 2 5 7 (Some 222) (Some 5000) (Some 32) 6 false false]).
Proof.
  eexists. eexists. split; [vm_compute; reflexivity|]. split; [vm_compute; reflexivity|].
  apply (append_preserves_plans false x_base x_newfolder x_members 12 999); vm_compute; reflexivity.
Qed.

(* through the theorems: what is written reads back with the old plans first *)
Definition x_result : header :=
  Eval vm_compute in match append_session false x_base x_newfolder x_members 12 999 with Ok h' => h' | Err _ => x_base end.
Definition x_ps : list iplan := Eval vm_compute in match impl_plans x_base with Ok ps => ps | Err _ => [] end.
Example append_example_reopen bs :
  write_header false 79 x_result = Ok bs ->
  impl_plans x_base = Ok x_ps /\
  exists h2, parse_header 1000 bs = Ok h2 /\ impl_plans h2 = Ok (x_ps ++ new_plans 4 2 0 x_members).
Proof.
  intros Hw.
  assert (H1 : base_ok x_base = true) by reflexivity.
  assert (H2 : impl_plans x_base = Ok x_ps) by (vm_compute; reflexivity).
  assert (H3 : forallb member_ok x_members = true) by reflexivity.
  assert (H4 : append_session false x_base x_newfolder x_members 12 999 = Ok x_result) by (vm_compute; reflexivity).
  assert (H5 : HeaderProofs.wf_header 1000 (enable_digests false x_base) (canon_header x_result) = true) by (vm_compute; reflexivity).
  assert (H6 : sizes_canonical x_result = true) by (vm_compute; reflexivity).
  assert (H7 : nums_nonempty x_result = true) by reflexivity.
  split; [exact H2|].
  exact (append_then_reopen 1000 false x_base x_newfolder x_members 12 999 x_result x_ps 79 bs H1 H2 H3 H4 H5 H6 H7 Hw).
Qed.

(* a foreign base: one sub-stream per folder and no SIZE record (sizes recovered at append), packed-stream
   CRCs partly defined, an entry with creation/access times; two sessions with a real re-open between them *)
Definition x_foreign : header :=
  mkHeader
    (Some (mkStreams (Some (mkPack 5 2 [40; 7] [true; false] [77; 0]))
                     (Some [mkFolder [x_lzma2] [] [0] [300] false None; mkFolder [x_copy] [] [0] [7] false None])
                     (Some (mkSub [1; 1] None [true; false] [11; 0]))))
    (Some [mkFile false (Some [97]) (Some (Some 1)) (Some (Some 2)) (Some (Some 1000)) (Some (Some 32));
           mkFile true (Some [101]) None None (Some None) (Some None);
           x_file 98 2000])
    [true].

Example append_partial_pack_crc_example :
  exists h' bs h2, append_session false x_foreign x_newfolder x_members 12 999 = Ok h' /\
    write_header (enable_digests false x_foreign) 84 h' = Ok bs /\ parse_header 1000 bs = Ok h2 /\
    option_map (fun p => (p_sizes p, p_digestdefined p, p_crcs p)) (pack_of h2) =
      Some ([40; 7; 12], [true; false; true], [77; 0; 999]) /\
    append_position x_foreign 32 = Ok (32 + 5 + 47).
Proof.
  eexists. eexists. eexists. split; [vm_compute; reflexivity|]. split; [vm_compute; reflexivity|].
  split; [vm_compute; reflexivity|]. split; vm_compute; reflexivity.
Qed.

Example append_sessions_example :
  let s1 := mkSession x_newfolder x_members 12 999 in
  let s2 := mkSession (mkFolder [x_lzma2] [] [] [9] false None) [mkMember (x_file 130 6000) (Some (9, 333))] 20 555 in
  exists ps hk qs, impl_plans x_foreign = Ok ps /\ length ps = 3%nat /\
    append_sessions (reopen_checked 1000 false (fun _ => 100) [99]) false x_foreign [s1; s2] = Ok hk /\
    impl_plans hk = Ok (ps ++ qs) /\ length qs = 4%nat.
Proof.
  cbv zeta. eexists. eexists. eexists. split; [vm_compute; reflexivity|]. split; [reflexivity|].
  split; [vm_compute; reflexivity|]. split; vm_compute; reflexivity.
Qed.

(* ================================================================== *)
(* What is NOT preserved                                               *)
(* ================================================================== *)
(* creation and access times: an append keeps them at every earlier entry (the concrete base that was the
   witness of the defect C08-append-drops-ctime-atime before FilesInfo.write was repaired) *)
Example append_keeps_ctime_atime_example :
  exists h' bs h2, append_session false x_foreign x_newfolder x_members 12 999 = Ok h' /\
    write_header (enable_digests false x_foreign) 84 h' = Ok bs /\ parse_header 1000 bs = Ok h2 /\
    times_of x_foreign = [(Some 1, Some 2); (None, None); (None, None)] /\
    times_of h2 = times_of x_foreign ++ [(None, None); (None, None); (None, None)] /\
    option_map (fun fl => map (fun e => (e_ctime e, e_atime e)) (firstn 2 fl)) (h_files h2) =
      Some [(Some (Some 1), Some (Some 2)); (Some None, Some None)].
Proof.
  eexists. eexists. eexists. split; [vm_compute; reflexivity|]. split; [vm_compute; reflexivity|].
  split; [vm_compute; reflexivity|]. split; [reflexivity|]. split; reflexivity.
Qed.

(* the same through the theorem (its hypotheses are met by this state) *)
Example append_keeps_ctime_atime_thm bs :
  write_header (enable_digests false x_foreign) 84
    (match append_session false x_foreign x_newfolder x_members 12 999 with Ok h' => h' | Err _ => x_foreign end) = Ok bs ->
  exists h2, parse_header 1000 bs = Ok h2 /\ firstn 3 (times_of h2) = [(Some 1, Some 2); (None, None); (None, None)].
Proof.
  intros Hw.
  destruct (append_session false x_foreign x_newfolder x_members 12 999) as [h'|] eqn:Hs; [|discriminate Hs].
  destruct (append_then_reopen_times 1000 false x_foreign x_newfolder x_members 12 999 h' 84 bs Hs) as [h2 [H1 [_ H3]]].
  - vm_compute in Hs. injection Hs as <-. vm_compute. reflexivity.
  - exact Hw.
  - exists h2. split; [exact H1|exact H3].
Qed.

(* regression: the writer as it was BEFORE the repair (FilesInfo.write without the two records) drops the
   times of the earlier entry on the same state *)
Definition write_files_unrepaired (pos : Z) (files : list fileent) (emptyfiles : list bool) : res bytes :=
  do n <- wr_number (zlen files);
  let es := map e_emptystream files in
  let nes := count_true es in
  let efl := firstn (Z.to_nat nes) (emptyfiles ++ repeat false (Z.to_nat nes)) in
  do a <- (if any_true es then
             do sz <- wr_number ((zlen files + 7) / 8);
             do b <- (if any_true efl then do sz2 <- wr_number ((nes + 7) / 8); Ok ([15] ++ sz2 ++ wr_bits efl)
                      else Ok []);
             Ok ([14] ++ sz ++ wr_bits es ++ b)
           else Ok []);
  let p := pos + 1 + zlen n + zlen a in
  let padlen0 := (- p) mod 4 in
  let padlen := if (0 <? padlen0) && (padlen0 <=? 2) then padlen0 + 4 else padlen0 in
  let pad := if 2 <? padlen then [25; padlen - 2] ++ repeatZ 0 (Z.to_nat (padlen - 2)) else [] in
  do nm <- write_names files;
  do tm <- write_times 20 e_mtime files;
  do at_ <- write_attributes files;
  Ok ([5] ++ n ++ a ++ pad ++ nm ++ tm ++ at_ ++ [0]).
Definition write_header_unrepaired (enable_digests : bool) (pos : Z) (h : header) : res bytes :=
  do a <- (match h_streams h with Some s => write_streams enable_digests s | None => Ok [] end);
  do b <- (match h_files h with
           | Some f => write_files_unrepaired (pos + 1 + zlen a) f (h_emptyfiles h)
           | None => Ok []
           end);
  Ok ([1] ++ a ++ b ++ [0]).
Example append_drops_ctime_atime_unrepaired :
  exists h' bs h2, append_session false x_foreign x_newfolder x_members 12 999 = Ok h' /\
    write_header_unrepaired (enable_digests false x_foreign) 84 h' = Ok bs /\ parse_header 1000 bs = Ok h2 /\
    option_map (fun fl => map (fun e => (e_ctime e, e_atime e)) (firstn 1 fl)) (h_files x_foreign) = Some [(Some (Some 1), Some (Some 2))] /\
    option_map (fun fl => map (fun e => (e_ctime e, e_atime e)) (firstn 1 fl)) (h_files h2) = Some [(None, None)] /\
    times_of h2 <> times_of x_foreign ++ [(None, None); (None, None); (None, None)].
Proof.
  eexists. eexists. eexists. split; [vm_compute; reflexivity|]. split; [vm_compute; reflexivity|].
  split; [vm_compute; reflexivity|]. split; [reflexivity|]. split; [reflexivity|]. vm_compute. discriminate.
Qed.

(* entries stored without a name get the generated one when the archive is opened, and the session writes it
   into the archive: afterwards every reader sees "contents" (here [99]) where the base had no name *)
Definition x_unnamed : header :=
  mkHeader
    (Some (mkStreams (Some (mkPack 0 1 [7] [] [])) (Some [mkFolder [x_copy] [] [0] [7] false None])
                     (Some (mkSub [1] None [true] [33]))))
    (Some [mkFile false None None None (Some (Some 1000)) (Some (Some 32))]) [].
Theorem append_names_unnamed_refuted :
  exists bs0 h h' bs h2,
    write_header false 39 x_unnamed = Ok bs0 /\ s_valid match s_header 1000 bs0 with Ok a => a | Err _ => mkSHeader 0 [] [] [] [] [] [] [] [] end = true /\
    open_for_append 1000 [99] bs0 = Ok h /\
    append_session false h x_newfolder x_members 12 999 = Ok h' /\
    write_header false 51 h' = Ok bs /\ parse_header 1000 bs = Ok h2 /\
    option_map (fun fl => map e_name (firstn 1 fl)) (h_files x_unnamed) = Some [None] /\
    option_map (fun fl => map e_name (firstn 1 fl)) (h_files h2) = Some [Some [99]].
Proof.
  eexists. eexists. eexists. eexists. eexists. split; [vm_compute; reflexivity|]. split; [vm_compute; reflexivity|].
  split; [vm_compute; reflexivity|]. split; [vm_compute; reflexivity|]. split; [vm_compute; reflexivity|].
  split; [vm_compute; reflexivity|]. split; reflexivity.
Qed.

(* the hypothesis of append_preserves_plans on bases without a SIZE record is necessary: when the folder's
   main output is not its last unpack size, the reader (unpacksizes[-1]) and initialize() (get_unpack_size())
   disagree, and the size py7zr reports for the EARLIER member changes with the append *)
Definition x_mainfirst : header :=
  mkHeader
    (Some (mkStreams (Some (mkPack 0 1 [9] [] []))
                     (Some [mkFolder [x_copy; x_copy] [(0, 1)] [1] [5; 7] false None])
                     (Some (mkSub [1] None [true] [33]))))
    (Some [x_file 97 1000]) [].
Theorem append_needs_last_is_main_refuted :
  base_ok x_mainfirst = false /\
  exists ps h' ps', impl_plans x_mainfirst = Ok ps /\ map ip_size ps = [7] /\
    append_session false x_mainfirst x_newfolder x_members 12 999 = Ok h' /\
    impl_plans h' = Ok ps' /\ map ip_size (firstn 1 ps') = [5].
Proof.
  split; [reflexivity|]. eexists. eexists. eexists. split; [vm_compute; reflexivity|]. split; [reflexivity|].
  split; [vm_compute; reflexivity|]. split; [vm_compute; reflexivity|]. reflexivity.
Qed.

(* an archive whose header cannot be read is refused; nothing is written (the exception is passed on) *)
Example open_for_append_unreadable_example :
  exists bs0, write_header false 79 x_base = Ok bs0 /\
    (exists sh, s_header 1000 (1 :: [2; 153; 1; 7; 0] ++ tl bs0) = Ok sh /\ s_valid sh = true /\ length (spec_plans sh) = 4%nat) /\
    open_for_append 1000 [99] (1 :: [2; 153; 1; 7; 0] ++ tl bs0) = Err EBad7z.
Proof.
  eexists. split; [vm_compute; reflexivity|]. split; [eexists; split; [vm_compute; reflexivity|split; vm_compute; reflexivity]|].
  vm_compute. reflexivity.
Qed.

(* ================================================================== *)
(* A base that was read without SubStreamsInfo                          *)
(* ================================================================== *)
(* the parser builds a graph without the object; _real_get_contents installs SubstreamsInfo.default(folders)
   (Assign.install_sub) and the session works on that graph: when it is a base, every earlier plan -- as read
   from the graph the parser built -- survives the session *)
Theorem append_preserves_installed_base pw h nf ms psz pcrc h' ps :
  base_ok (install_sub h) = true -> impl_plans h = Ok ps -> forallb member_ok ms = true ->
  append_session pw (install_sub h) nf ms psz pcrc = Ok h' ->
  impl_plans h' = Ok (ps ++ new_plans (nfiles h) (nfolders h) 0 ms).
Proof.
  intros Hb Hp Hok Hs. rewrite <- impl_plans_install_sub in Hp.
  pose proof (append_preserves_plans pw (install_sub h) nf ms psz pcrc h' ps Hb Hp Hok Hs) as H.
  replace (nfiles (install_sub h)) with (nfiles h) in H; [replace (nfolders (install_sub h)) with (nfolders h) in H; [exact H|]|].
  - destruct h as [[[pk fo sb]|] [fl|] ef]; try reflexivity. destruct fo as [fs|], pk as [p|], sb as [s|]; reflexivity.
  - destruct h as [[[pk fo sb]|] [fl|] ef]; try reflexivity. destruct fo as [fs|], pk as [p|], sb as [s|]; reflexivity.
Qed.

(* two folders (the first with a folder-level CRC), a directory between the data entries, no SubStreamsInfo *)
Definition x_nosub : header :=
  mkHeader
    (Some (mkStreams (Some (mkPack 0 2 [40; 7] [] []))
                     (Some [mkFolder [x_lzma2] [] [0] [300] true (Some 11); mkFolder [x_copy] [] [0] [7] false None])
                     None))
    (Some [x_file 97 1000; x_dir 100; x_file 98 2000])
    [false].
Example append_no_substreams_example :
  exists bs0 h ps h' bs h2,
    (* its bytes (the header writer never stores folder CRCs), opened for append: the object is installed *)
    write_header false 79 x_nosub = Ok bs0 /\
    open_for_append 1000 [99] bs0 = Ok h /\
    option_map si_sub (h_streams h) = Some (Some (mkSub [1; 1] None [false; false] [0; 0])) /\
    install_sub x_nosub =
      mkHeader (Some (mkStreams (Some (mkPack 0 2 [40; 7] [] []))
                                (Some [mkFolder [x_lzma2] [] [0] [300] true (Some 11); mkFolder [x_copy] [] [0] [7] false None])
                                (Some (mkSub [1; 1] None [true; false] [11; 0]))))
               (h_files x_nosub) (h_emptyfiles x_nosub) /\
    base_ok (install_sub x_nosub) = true /\ forallb member_ok x_members = true /\
    impl_plans x_nosub = Ok ps /\
    map (fun p => (ip_id p, ip_kind p, ip_folder p, ip_offset p, ip_size p, ip_crc p)) ps =
      [(0, 0, 0, 0, 300, Some 11); (1, 2, -1, 0, 0, None); (2, 0, 1, 0, 7, None)] /\
    append_session false (install_sub x_nosub) x_newfolder x_members 12 999 = Ok h' /\
    impl_plans h' = Ok (ps ++ new_plans 3 2 0 x_members) /\
    reopen_guard 1000 false h' = true /\
    write_header false 79 h' = Ok bs /\ parse_header 1000 bs = Ok h2 /\
    impl_plans h2 = Ok (ps ++ new_plans 3 2 0 x_members).
Proof.
  do 6 eexists. split; [vm_compute; reflexivity|]. split; [vm_compute; reflexivity|]. split; [reflexivity|].
  split; [reflexivity|]. split; [reflexivity|]. split; [reflexivity|]. split; [vm_compute; reflexivity|].
  split; [reflexivity|]. split; [vm_compute; reflexivity|]. split; [vm_compute; reflexivity|].
  split; [vm_compute; reflexivity|]. split; [vm_compute; reflexivity|]. split; vm_compute; reflexivity.
Qed.

Print Assumptions append_preserves_plans.
Print Assumptions append_preserves_installed_base.
Print Assumptions append_preserves_spec_base.
Print Assumptions append_position_after_data.
Print Assumptions append_sessions_preserve.
Print Assumptions append_sessions_preserve_reopened.
Print Assumptions append_then_reopen.
Print Assumptions append_then_reopen_times.
Print Assumptions append_sessions_preserve_times.
Print Assumptions impl_plans_norm.
