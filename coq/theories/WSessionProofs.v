(* WSessionProofs.v -- theorems about the write-session machine of WSession.v (property C15). *)
From P7 Require Import Prelude Crc32 WSession.
From Coq Require Import ZifyBool.
Open Scope Z_scope.

Section Proofs.
Context {D : Type}.
Variable dg : bytes -> D.
Variable deq : D -> D -> bool.
Hypothesis deq_spec : forall a b, deq a b = true <-> a = b.

Notation wstate := (wstate D).
Notation archive := (archive dg).
Notation call_write := (call_write dg).
Notation call_data := (call_data dg).
Notation elem_writeall := (elem_writeall dg).
Notation writeall_loop := (writeall_loop dg).
Notation wstep := (wstep dg).
Notation run := (run dg).
Notation abs := (abs dg deq).
Notation readable := (readable dg deq).
Notation assign := (assign dg deq).

Lemma deq_refl : forall a, deq a a = true.
Proof. intros a. apply deq_spec. reflexivity. Qed.

(* ------------------------------------------------------------------ *)
(** * Generic facts about cut / assign                                  *)
(* ------------------------------------------------------------------ *)

Definition sub_of (bs : bytes) : nat * D := (length bs, dg bs).
Definition datas (ms : list (Z * mres)) : list bytes :=
  flat_map (fun m => match snd m with MData bs => [bs] | _ => [] end) ms.
Definition info (ms : list (Z * mres)) : list (Z * bool) :=
  map (fun m => (fst m, match snd m with MDir => true | _ => false end)) ms.
Definition no_crc (ms : list (Z * mres)) : Prop := forall m, In m ms -> snd m <> MCrc.

Lemma cut_cons : forall n (c : D) r stream, r <> [] ->
  cut ((n, c) :: r) stream =
  if (n <=? length stream)%nat then option_map (cons (firstn n stream, c)) (cut r (skipn n stream)) else None.
Proof. intros n c r stream H. destruct r; [contradiction | reflexivity]. Qed.

Lemma cut_concat : forall l, cut (map sub_of l) (concat l) = Some (map (fun bs => (bs, dg bs)) l).
Proof.
  induction l as [|a l IH]; [reflexivity|].
  destruct l as [|b l].
  - simpl. rewrite app_nil_r. reflexivity.
  - change (map sub_of (a :: b :: l)) with ((length a, dg a) :: map sub_of (b :: l)).
    change (concat (a :: b :: l)) with (a ++ concat (b :: l)).
    rewrite cut_cons by discriminate.
    assert (Hle : (length a <=? length (a ++ concat (b :: l)))%nat = true)
      by (apply Nat.leb_le; rewrite app_length; lia).
    rewrite Hle.
    rewrite firstn_app, Nat.sub_diag, firstn_all, firstn_O, app_nil_r.
    rewrite skipn_app, Nat.sub_diag, skipn_all, skipn_O.
    change ([] ++ concat (b :: l)) with (concat (b :: l)). rewrite IH. reflexivity.
Qed.

Lemma assign_full : forall ms, no_crc ms ->
  assign (info ms) (map (fun bs => (bs, dg bs)) (datas ms)) = Some ms.
Proof.
  induction ms as [|[n r] ms IH]; intros Hn; [reflexivity|].
  assert (Hn' : no_crc ms) by (intros m Hm; apply Hn; right; exact Hm).
  destruct r as [|bs|].
  - change (assign (info ((n, MDir) :: ms)) (map (fun bs => (bs, dg bs)) (datas ((n, MDir) :: ms))))
      with (option_map (cons (n, MDir)) (assign (info ms) (map (fun bs => (bs, dg bs)) (datas ms)))).
    rewrite (IH Hn'). reflexivity.
  - change (assign (info ((n, MData bs) :: ms)) (map (fun bs => (bs, dg bs)) (datas ((n, MData bs) :: ms))))
      with (option_map (cons (n, if deq (dg bs) (dg bs) then MData bs else MCrc))
                       (assign (info ms) (map (fun bs => (bs, dg bs)) (datas ms)))).
    rewrite (IH Hn'), deq_refl. reflexivity.
  - exfalso. apply (Hn (n, MCrc)); [left; reflexivity | reflexivity].
Qed.

(* ------------------------------------------------------------------ *)
(** * Histories whose faults are all detected before registration       *)
(* ------------------------------------------------------------------ *)

Record synced (st : wstate) (ms : list (Z * mres)) (seen : bool) : Prop := {
  sy_pend : ws_pend st = [];
  sy_done : map (fun p => full_member (fst p)) (ws_done st) = ms;
  sy_subs : ws_subs st = map sub_of (datas ms);
  sy_stream : ws_stream st = concat (datas ms);
  sy_init : ws_init st = false -> ms = [];
  sy_seen : existsb is_kdata (map fst (ws_done st)) = seen
}.

Lemma full_member_no_crc : forall (l : list (wfile * nat)),
  no_crc (map (fun p => full_member (fst p)) l).
Proof.
  intros l m Hm. apply in_map_iff in Hm. destruct Hm as [p [<- _]].
  unfold full_member. simpl. destruct (is_dir (fst p)); discriminate.
Qed.

Lemma info_full : forall (l : list (wfile * nat)),
  info (map (fun p => full_member (fst p)) l) = map (fun f => (w_name f, is_dir f)) (map fst l).
Proof.
  induction l as [|p l IH]; [reflexivity|].
  simpl. rewrite <- IH. unfold full_member at 1 2. simpl. destruct (is_dir (fst p)); reflexivity.
Qed.

Lemma readable_synced : forall st ms seen, synced st ms seen -> abs st = Some ms.
Proof.
  intros st ms seen H. destruct H as [Hp Hd Hs Hst Hi _].
  unfold WSession.abs, WSession.readable, wclose, ws_files. simpl.
  rewrite Hp, app_nil_r.
  destruct (ws_init st) eqn:Ei.
  - rewrite Hs, Hst, cut_concat. rewrite <- Hd at 1. rewrite <- info_full, Hd.
    apply assign_full. rewrite <- Hd. apply full_member_no_crc.
  - rewrite (Hi eq_refl) in *. destruct (ws_done st); [reflexivity | discriminate].
Qed.

Definition api_step (a : api) (st : wstate) (s : src) : wstate * wout :=
  match a with AWrite => call_write st s | _ => call_data a st s end.

Lemma wstep_call : forall st a s, wstep st (OCall a s) = api_step a st s.
Proof. intros st [] s; reflexivity. Qed.

Lemma datas_app : forall a b, datas (a ++ b) = datas a ++ datas b.
Proof. intros. unfold datas. apply flat_map_app. Qed.

Lemma file_of_src_nofault : forall a s, s_fault s = None -> w_fault (file_of_src a s) = None.
Proof. intros [] s H; simpl; rewrite ?H; reflexivity. Qed.

Lemma file_of_src_pos : forall a s, w_pos (file_of_src a s) = O.
Proof. intros [] s; reflexivity. Qed.

Definition link_file (f : wfile) : bool := match w_kind f with KLink => true | _ => false end.

(* the registration + archive step of a member without fault, with the worker in step *)
Lemma archive_fresh : forall st ms seen f,
  synced st ms seen -> w_fault f = None -> w_pos f = O -> seen && link_file f = false ->
  exists st', archive (register (set_init st) f) = (st', Returned) /\
              synced st' (ms ++ [full_member f]) (seen || is_kdata f).
Proof.
  intros st ms seen f [Hp Hd Hs Hst Hi Hsn] Hf Hpos Hl.
  unfold WSession.archive, register, set_init. simpl. rewrite Hp. simpl.
  destruct (is_dir f) eqn:Edir.
  - eexists; split; [reflexivity|].
    constructor; simpl.
    + reflexivity.
    + rewrite map_app, Hd. reflexivity.
    + rewrite datas_app. unfold full_member. rewrite Edir. simpl. rewrite app_nil_r. exact Hs.
    + rewrite datas_app. unfold full_member. rewrite Edir. simpl. rewrite app_nil_r. exact Hst.
    + discriminate.
    + rewrite map_app, existsb_app, Hsn. simpl. rewrite orb_false_r. reflexivity.
  - assert (Hany : existsb is_kdata (ws_files (mkState D true (ws_done st) [f] (ws_last st) (ws_subs st)
                                                  (ws_stream st) (ws_garb st))) = seen || is_kdata f).
    { unfold ws_files. simpl. rewrite existsb_app, Hsn. simpl. rewrite orb_false_r. reflexivity. }
    rewrite Hany.
    assert (Hrd : exists f', read_src (seen || is_kdata f) f = RdOk (w_data f) O f' /\
                             full_member f' = full_member f /\ is_kdata f' = is_kdata f).
    { unfold read_src. rewrite Hf, Hpos. unfold is_dir in Edir. unfold link_file in Hl.
      destruct (w_kind f) eqn:Ek; try discriminate.
      - exists f. repeat split; reflexivity.
      - rewrite andb_true_r in Hl. rewrite Hl.
        replace (false || is_kdata f) with false by (unfold is_kdata; rewrite Ek; reflexivity).
        exists f. repeat split; reflexivity.
      - simpl. exists (set_pos f (length (w_data f))). split; [reflexivity|].
        unfold full_member, is_dir, is_kdata, set_pos. simpl. rewrite Ek. split; reflexivity. }
    destruct Hrd as [f' [Hrd [Hfm Hkd]]]. rewrite Hrd.
    eexists; split; [reflexivity|].
    assert (Hm : full_member f = (w_name f, MData (w_data f))) by (unfold full_member; rewrite Edir; reflexivity).
    constructor; simpl.
    + reflexivity.
    + rewrite map_app, Hd. simpl. rewrite Hfm. reflexivity.
    + rewrite datas_app, map_app, Hs, Hm. reflexivity.
    + rewrite datas_app, concat_app, Hst, Hm. simpl. rewrite app_nil_r. reflexivity.
    + discriminate.
    + rewrite map_app, existsb_app, Hsn. simpl. rewrite Hkd, orb_false_r. reflexivity.
Qed.

Lemma synced_set_init : forall st ms seen, synced st ms seen -> synced (set_init st) ms seen.
Proof. intros st ms seen [Hp Hd Hs Hst Hi Hsn]. constructor; simpl; auto. discriminate. Qed.

Lemma pre_only_src_cases : forall s, pre_only_src s = true ->
  s_fault s = None \/ (has_fault s = true /\ (fault_kind s = Some FStat \/ fault_kind s = Some FName)).
Proof.
  intros s H. unfold pre_only_src, fault_kind, has_fault in *.
  destruct (s_fault s) as [[k b]|]; [right | left; reflexivity].
  simpl in *. destruct k; try discriminate; auto.
Qed.

Lemma kdata_file_of_src : forall a s,
  is_kdata (file_of_src a s) = match a with AWrite => false | _ => true end.
Proof. intros [] s; simpl; try reflexivity. unfold is_kdata. simpl. destruct (s_kind s); reflexivity. Qed.

Lemma link_file_of_src : forall a s,
  link_file (file_of_src a s) = match a with AWrite => is_link_src s | _ => false end.
Proof. intros [] s; simpl; try reflexivity. unfold link_file, is_link_src. simpl. destruct (s_kind s); reflexivity. Qed.

Lemma call_synced : forall st ms seen a s,
  synced st ms seen -> pre_only_src s = true -> op_links_ok seen (OCall a s) = true ->
  exists st', api_step a st s = (st', expected_out (OCall a s)) /\
              synced st' (ms ++ expected (OCall a s)) (seen || op_adds_data (OCall a s)).
Proof.
  intros st ms seen a s Hsy Hpre Hl.
  destruct (pre_only_src_cases s Hpre) as [Hn | [Hf Hk]].
  - assert (Hhf : has_fault s = false) by (unfold has_fault; rewrite Hn; reflexivity).
    assert (Hfk : fault_kind s = None) by (unfold fault_kind; rewrite Hn; reflexivity).
    destruct (archive_fresh st ms seen (file_of_src a s) Hsy (file_of_src_nofault a s Hn) (file_of_src_pos a s))
      as [st' [Ha Hs']].
    { rewrite link_file_of_src. destruct a; simpl in *; try apply andb_false_r.
      apply negb_true_iff in Hl. exact Hl. }
    exists st'. simpl. rewrite Hhf. split.
    + destruct a; unfold api_step, WSession.call_write, WSession.call_data; rewrite Hfk; exact Ha.
    + rewrite kdata_file_of_src in Hs'. destruct a; simpl; exact Hs'.
  - simpl. rewrite Hf. simpl. rewrite app_nil_r.
    assert (Hseen : seen || (match a with AWrite => false | _ => negb true end) = seen)
      by (destruct a; simpl; apply orb_false_r).
    destruct a; simpl; rewrite ?orb_false_r;
      unfold api_step, WSession.call_write, WSession.call_data; destruct Hk as [-> | ->];
      eexists; (split; [reflexivity|]); try exact Hsy; apply synced_set_init; exact Hsy.
Qed.

Lemma loop_synced : forall l st ms seen,
  synced st ms seen -> forallb pre_only_src l = true -> seen && existsb is_link_src l = false ->
  exists st', writeall_loop st l = (st', if existsb has_fault l then Raised else Returned) /\
              synced st' (ms ++ map (fun s => full_member (file_of_src AWrite s)) (ok_prefix l)) seen.
Proof.
  induction l as [|s l IH]; intros st ms seen Hsy Hpre Hl.
  - exists st. simpl. rewrite app_nil_r. split; [reflexivity | exact Hsy].
  - simpl in Hpre. apply andb_true_iff in Hpre. destruct Hpre as [Hps Hpl].
    simpl in Hl.
    assert (Hl1 : seen && is_link_src s = false) by (destruct seen, (is_link_src s); simpl in *; auto; discriminate).
    assert (Hl2 : seen && existsb is_link_src l = false)
      by (destruct seen, (is_link_src s), (existsb is_link_src l); simpl in *; auto; discriminate).
    destruct (call_synced st ms seen AWrite s Hsy Hps) as [st1 [H1 S1]].
    { simpl. rewrite Hl1. reflexivity. }
    simpl in H1, S1. rewrite orb_false_r in S1.
    destruct (pre_only_src_cases s Hps) as [Hn | [Hf Hk]].
    + assert (Hhf : has_fault s = false) by (unfold has_fault; rewrite Hn; reflexivity).
      assert (Hfk : fault_kind s = None) by (unfold fault_kind; rewrite Hn; reflexivity).
      rewrite Hhf in *. simpl. rewrite Hhf. simpl.
      unfold WSession.elem_writeall. rewrite Hfk. rewrite H1.
      destruct (IH st1 _ seen S1 Hpl Hl2) as [st' [H2 S2]].
      exists st'. split; [exact H2|]. rewrite <- app_assoc in S2. exact S2.
    + rewrite Hf in *. simpl. rewrite Hf. simpl. rewrite app_nil_r in *.
      unfold WSession.elem_writeall. destruct Hk as [Hk | Hk]; rewrite Hk.
      * exists st. split; [reflexivity | exact Hsy].
      * rewrite H1. exists st1. split; [reflexivity | exact S1].
Qed.

Lemma wstep_synced : forall st ms seen op,
  synced st ms seen -> pre_only op = true -> op_links_ok seen op = true ->
  exists st', wstep st op = (st', expected_out op) /\
              synced st' (ms ++ expected op) (seen || op_adds_data op).
Proof.
  intros st ms seen [a s | rm l] Hsy Hpre Hl.
  - rewrite wstep_call. apply call_synced; assumption.
  - simpl in *. rewrite orb_false_r. destruct rm.
    + exists st. rewrite app_nil_r. split; [reflexivity | exact Hsy].
    + apply loop_synced; try assumption. apply negb_true_iff in Hl. exact Hl.
Qed.

Lemma run_synced : forall ops st ms seen,
  synced st ms seen -> forallb pre_only ops = true -> links_ok seen ops = true ->
  exists st' seen', run st ops = (st', map expected_out ops) /\
                    synced st' (ms ++ flat_map expected ops) seen'.
Proof.
  induction ops as [|op ops IH]; intros st ms seen Hsy Hpre Hl.
  - exists st, seen. simpl. rewrite app_nil_r. split; [reflexivity | exact Hsy].
  - simpl in Hpre, Hl. apply andb_true_iff in Hpre. destruct Hpre as [Hp1 Hp2].
    apply andb_true_iff in Hl. destruct Hl as [Hl1 Hl2].
    destruct (wstep_synced st ms seen op Hsy Hp1 Hl1) as [st1 [H1 S1]].
    destruct (IH st1 _ _ S1 Hp2 Hl2) as [st' [seen' [H2 S2]]].
    exists st', seen'. simpl. rewrite H1, H2. split; [reflexivity|].
    rewrite <- app_assoc in S2. exact S2.
Qed.

Lemma synced_st0 : synced st0 [] false.
Proof. constructor; reflexivity. Qed.

(* members written before and after a call that failed before registration are all present and
   intact, the failed call's source is absent, every failure reached the caller *)
Theorem later_writes_intact_partial : forall ops,
  forallb pre_only ops = true -> links_ok false ops = true ->
  exists st, run st0 ops = (st, map expected_out ops) /\ abs st = Some (flat_map expected ops).
Proof.
  intros ops Hp Hl.
  destruct (run_synced ops st0 [] false synced_st0 Hp Hl) as [st [seen [H S]]].
  exists st. split; [exact H|]. simpl in S. exact (readable_synced _ _ _ S).
Qed.

(* every member of the archive comes from a source without fault: nothing of a failed source enters *)
Lemma expected_sources : forall op m, In m (expected op) ->
  exists a s, In (a, s) (op_srcs op) /\ has_fault s = false /\ m = full_member (file_of_src a s).
Proof.
  intros [a s | rm l] m H; simpl in *.
  - destruct (has_fault s) eqn:E; [contradiction|].
    destruct H as [<- | []]. exists a, s. auto.
  - destruct rm; [contradiction|].
    apply in_map_iff in H. destruct H as [s [<- Hs]].
    exists AWrite, s. split; [|split; [|reflexivity]].
    + apply in_map_iff. exists s. split; [reflexivity|].
      clear -Hs. induction l as [|x l IH]; simpl in *; [contradiction|].
      destruct (has_fault x); [contradiction|]. destruct Hs as [-> | Hs]; auto.
    + clear -Hs. induction l as [|x l IH]; simpl in *; [contradiction|].
      destruct (has_fault x) eqn:E; [contradiction|]. destruct Hs as [<- | Hs]; auto.
Qed.

Theorem no_retry_partial : forall ops,
  forallb pre_only ops = true -> links_ok false ops = true ->
  exists st outs ms, run st0 ops = (st, outs) /\ abs st = Some ms /\
    forall m, In m ms -> exists a s, In (a, s) (flat_map op_srcs ops) /\ has_fault s = false /\
                                     m = full_member (file_of_src a s).
Proof.
  intros ops Hp Hl. destruct (later_writes_intact_partial ops Hp Hl) as [st [H A]].
  exists st, (map expected_out ops), (flat_map expected ops). split; [exact H | split; [exact A|]].
  intros m Hm. apply in_flat_map in Hm. destruct Hm as [op [Hop Hm]].
  destruct (expected_sources op m Hm) as [a [s [Hin [Hf Heq]]]].
  exists a, s. split; [|auto]. apply in_flat_map. exists op. auto.
Qed.

(* ------------------------------------------------------------------ *)
(** * The general invariant (any faults)                                *)
(* ------------------------------------------------------------------ *)

Definition rec_bytes (p : wfile * nat) : bytes := skipn (snd p) (w_data (fst p)).
Definition recs_of (done : list (wfile * nat)) : list bytes :=
  flat_map (fun p => if is_dir (fst p) then [] else [rec_bytes p]) done.
Fixpoint sum_sizes (l : list (nat * D)) : nat :=
  match l with [] => O | p :: r => (fst p + sum_sizes r)%nat end.

Record inv (st : wstate) : Prop := {
  iv_subs : ws_subs st = map sub_of (recs_of (ws_done st));
  iv_len : length (ws_stream st) = (sum_sizes (ws_subs st) + ws_garb st)%nat;
  iv_skip : Forall (fun p => (snd p <= ws_garb st)%nat) (ws_done st);
  iv_pos : Forall (fun f => (w_pos f <= ws_garb st)%nat) (ws_pend st);
  iv_init : ws_init st = false -> ws_done st = [] /\ ws_pend st = []
}.

Lemma inv_st0 : inv st0.
Proof. constructor; simpl; auto. Qed.

Lemma sum_sizes_app : forall a b, sum_sizes (a ++ b) = (sum_sizes a + sum_sizes b)%nat.
Proof. induction a as [|x a IH]; intros b; simpl; [reflexivity|]. rewrite IH. lia. Qed.

Lemma recs_of_app : forall a b, recs_of (a ++ b) = recs_of a ++ recs_of b.
Proof. intros. unfold recs_of. apply flat_map_app. Qed.

Lemma disarm_same : forall f, w_name (disarm f) = w_name f /\ w_kind (disarm f) = w_kind f /\
  w_data (disarm f) = w_data f /\ w_pos (disarm f) = w_pos f.
Proof. intros f. unfold disarm. destruct (w_fault f) as [[k []]|]; simpl; auto. Qed.

Lemma read_src_ok : forall b f bs sk f', is_dir f = false -> read_src b f = RdOk bs sk f' ->
  bs = skipn sk (w_data f') /\ (sk <= w_pos f)%nat /\ w_kind f' = w_kind f /\ w_name f' = w_name f /\ w_data f' = w_data f.
Proof.
  intros b f bs sk f' Hd H. unfold read_src in H. unfold is_dir in Hd.
  destruct (w_kind f) eqn:Ek.
  - destruct (w_fault f) as [[[| | |k] st]|]; try discriminate;
      try (destruct (k <? length (w_data f))%nat; try discriminate);
      inversion H; subst; simpl; repeat split; auto; lia.
  - discriminate.
  - destruct (w_fault f) as [[[| | |k] st]|]; try discriminate;
      destruct b; try discriminate; inversion H; subst; simpl; repeat split; auto; lia.
  - destruct (w_fault f) as [[[| | |k] st]|];
      try (destruct (k <? length (w_data f))%nat; try discriminate);
      inversion H; subst; simpl; repeat split; auto.
Qed.

Lemma read_src_fail : forall b f c f', read_src b f = RdFail c f' -> (w_pos f' <= w_pos f + length c)%nat.
Proof.
  intros b f c f' H. unfold read_src in H.
  destruct (w_kind f) eqn:Ek.
  - destruct (w_fault f) as [[[| | |k] st]|]; try discriminate;
      try (destruct (k <? length (w_data f))%nat; try discriminate);
      inversion H; subst; destruct (disarm_same f) as [_ [_ [_ ->]]]; lia.
  - discriminate.
  - destruct (w_fault f) as [[[| | |k] st]|]; try discriminate;
      try (destruct b; try discriminate);
      inversion H; subst; try (destruct (disarm_same f) as [_ [_ [_ ->]]]); lia.
  - destruct (w_fault f) as [[[| | |k] st]|]; try discriminate.
    destruct (k <? length (w_data f))%nat eqn:Ekl; try discriminate.
    inversion H; subst. apply Nat.ltb_lt in Ekl.
    destruct (disarm_same (set_pos f (Nat.max (w_pos f) k))) as [_ [_ [_ ->]]]. simpl.
    rewrite firstn_length, skipn_length. lia.
Qed.

Lemma Forall_le_weaken : forall {A} (g : A -> nat) l n m, (n <= m)%nat ->
  Forall (fun x => (g x <= n)%nat) l -> Forall (fun x => (g x <= m)%nat) l.
Proof. intros A g l n m Hnm H. eapply Forall_impl; [|exact H]. simpl. intros; lia. Qed.

Lemma inv_set_init : forall st, inv st -> inv (set_init st).
Proof. intros st [H1 H2 H3 H4 H5]. constructor; simpl; auto. discriminate. Qed.

Lemma inv_register : forall st f, inv st -> ws_init st = true -> w_pos f = O -> inv (register st f).
Proof.
  intros st f [H1 H2 H3 H4 H5] Hi Hp. constructor; simpl; auto.
  - apply Forall_app. split; [exact H4|]. constructor; [lia | constructor].
  - rewrite Hi. discriminate.
Qed.

Lemma inv_archive : forall st st' o, inv st -> ws_init st = true -> archive st = (st', o) ->
  inv st' /\ ws_init st' = true.
Proof.
  intros st st' o [H1 H2 H3 H4 H5] Hi Ha. unfold WSession.archive in Ha.
  destruct (ws_pend st) as [|f p] eqn:Ep.
  - inversion Ha; subst. split; [constructor; auto; rewrite Ep; auto | exact Hi].
  - inversion H4 as [|? ? Hf Hp']; subst.
    destruct (is_dir f) eqn:Ed.
    + inversion Ha; subst. split; [|exact Hi]. constructor; simpl; auto.
      * rewrite recs_of_app. simpl. rewrite Ed. simpl. rewrite app_nil_r. exact H1.
      * apply Forall_app. split; [exact H3|]. constructor; [simpl; lia | constructor].
      * rewrite Hi. discriminate.
    + destruct (read_src _ f) as [bs sk f' | c f'] eqn:Er.
      * inversion Ha; subst. split; [|exact Hi].
        destruct (read_src_ok _ _ _ _ _ Ed Er) as [Hbs [Hsk [Hk [_ _]]]].
        assert (Ed' : is_dir f' = false) by (unfold is_dir in *; rewrite Hk; exact Ed).
        constructor; simpl; auto.
        -- rewrite recs_of_app, map_app, <- H1. simpl. rewrite Ed'. simpl.
           unfold rec_bytes. simpl. rewrite <- Hbs. reflexivity.
        -- rewrite app_length, sum_sizes_app, H2. simpl. lia.
        -- apply Forall_app. split; [exact H3|]. constructor; [simpl; lia | constructor].
        -- rewrite Hi. discriminate.
      * inversion Ha; subst. split; [|exact Hi].
        pose proof (read_src_fail _ _ _ _ Er) as Hpos.
        constructor; simpl; auto.
        -- rewrite app_length, H2. lia.
        -- eapply Forall_le_weaken; [|exact H3]. lia.
        -- constructor; [lia|]. eapply Forall_le_weaken; [|exact Hp']. lia.
        -- rewrite Hi. discriminate.
Qed.

Lemma inv_reg_archive : forall st f st' o, inv st -> w_pos f = O ->
  archive (register (set_init st) f) = (st', o) -> inv st' /\ ws_init st' = true.
Proof.
  intros st f st' o Hi Hp Ha.
  eapply inv_archive; [| |exact Ha].
  - apply inv_register; [apply inv_set_init; exact Hi | reflexivity | exact Hp].
  - reflexivity.
Qed.

Lemma inv_call_write : forall st s st' o, inv st -> call_write st s = (st', o) -> inv st'.
Proof.
  intros st s st' o Hi H. unfold WSession.call_write in H.
  destruct (fault_kind s) as [[| | |k]|];
    try (inversion H; subst; auto using inv_set_init; fail);
    eapply inv_reg_archive in H; try exact Hi; try reflexivity; tauto.
Qed.

Lemma inv_call_data : forall a st s st' o, inv st -> call_data a st s = (st', o) -> inv st'.
Proof.
  intros a st s st' o Hi H. unfold WSession.call_data in H.
  destruct (fault_kind s) as [[| | |k]|];
    try (inversion H; subst; auto; fail);
    eapply inv_reg_archive in H; try exact Hi; try apply file_of_src_pos; tauto.
Qed.

Lemma inv_loop : forall l st st' o, inv st -> writeall_loop st l = (st', o) -> inv st'.
Proof.
  induction l as [|s l IH]; intros st st' o Hi H; simpl in H.
  - inversion H; subst. exact Hi.
  - destruct (elem_writeall st s) as [st1 o1] eqn:E1.
    assert (Hi1 : inv st1).
    { unfold WSession.elem_writeall in E1. destruct (fault_kind s) as [[| | |k]|];
        try (eapply inv_call_write; [exact Hi | exact E1]).
      inversion E1; subst. exact Hi. }
    destruct o1; [eapply IH; eauto | inversion H; subst; exact Hi1].
Qed.

Lemma inv_wstep : forall st op st' o, inv st -> wstep st op = (st', o) -> inv st'.
Proof.
  intros st [a s | rm l] st' o Hi H.
  - rewrite wstep_call in H. destruct a; simpl in H;
      [eapply inv_call_write | eapply inv_call_data | eapply inv_call_data]; eauto.
  - simpl in H. destruct rm; [inversion H; subst; exact Hi | eapply inv_loop; eauto].
Qed.

Lemma inv_run : forall ops st st' outs, inv st -> run st ops = (st', outs) -> inv st'.
Proof.
  induction ops as [|op ops IH]; intros st st' outs Hi H; simpl in H.
  - inversion H; subst. exact Hi.
  - destruct (wstep st op) as [st1 o] eqn:E1. destruct (run st1 ops) as [st2 os] eqn:E2.
    inversion H; subst. eapply IH; [|exact E2]. eapply inv_wstep; eauto.
Qed.

Definition reachable (st : wstate) : Prop := exists ops outs, run st0 ops = (st, outs).

Lemma reachable_inv : forall st, reachable st -> inv st.
Proof. intros st [ops [outs H]]. eapply inv_run; [apply inv_st0 | exact H]. Qed.

(* ------------------------------------------------------------------ *)
(** * A call that fails before registration has no effect               *)
(* ------------------------------------------------------------------ *)

Lemma abs_set_init : forall st, inv st -> abs (set_init st) = abs st.
Proof.
  intros st Hi. unfold WSession.abs, WSession.readable, wclose, ws_files. simpl.
  destruct (ws_init st) eqn:Ei; [reflexivity|].
  destruct (iv_init st Hi Ei) as [Hd Hp]. rewrite (iv_subs st Hi), Hd, Hp. reflexivity.
Qed.

Theorem failed_call_no_effect_pre : forall st a s k,
  inv st -> s_fault s = Some k -> pre_fault (f_kind k) = true ->
  exists st', wstep st (OCall a s) = (st', Raised) /\ abs st' = abs st /\ (st' = st \/ st' = set_init st).
Proof.
  intros st a s [k b] Hi Hs Hk. simpl in Hk.
  assert (Hfk : fault_kind s = Some k) by (unfold fault_kind; rewrite Hs; reflexivity).
  rewrite wstep_call.
  destruct a; unfold api_step, WSession.call_write, WSession.call_data; rewrite Hfk;
    destruct k; try discriminate;
    eexists; (split; [reflexivity|]); (split; [|auto]); try reflexivity; apply abs_set_init; exact Hi.
Qed.

Theorem failed_call_no_effect_pre_reach : forall st a s k,
  reachable st -> s_fault s = Some k -> pre_fault (f_kind k) = true ->
  exists st', wstep st (OCall a s) = (st', Raised) /\ abs st' = abs st /\ (st' = st \/ st' = set_init st).
Proof. intros st a s k Hr. apply failed_call_no_effect_pre. apply reachable_inv. exact Hr. Qed.

Theorem failed_writeall_root_no_effect : forall st l, wstep st (OWriteall true l) = (st, Raised).
Proof. reflexivity. Qed.

(* ------------------------------------------------------------------ *)
(** * An archive that extracts without error has the right bytes        *)
(* ------------------------------------------------------------------ *)

Fixpoint rebuild (files : list (Z * bool)) (bl : list bytes) : list (Z * mres) :=
  match files with
  | [] => []
  | (n, true) :: r => (n, MDir) :: rebuild r bl
  | (n, false) :: r => match bl with [] => [] | b :: bl' => (n, MData b) :: rebuild r bl' end
  end.
Definition count_data (files : list (Z * bool)) : nat := length (filter (fun x => negb (snd x)) files).

Lemma cut_props : forall (subs : list (nat * D)) stream sl, cut subs stream = Some sl ->
  map snd sl = map snd subs /\ (subs <> [] -> concat (map fst sl) = stream).
Proof.
  induction subs as [|[n c] r IH]; intros stream sl H.
  - inversion H; subst. split; [reflexivity | intros X; contradiction].
  - destruct r as [|x r'].
    + inversion H; subst. simpl. rewrite app_nil_r. auto.
    + rewrite cut_cons in H by discriminate.
      destruct (n <=? length stream)%nat; [|discriminate].
      destruct (cut (x :: r') (skipn n stream)) as [sl'|] eqn:E; [|discriminate].
      inversion H; subst. destruct (IH _ _ E) as [I1 I2]. split.
      * simpl. rewrite I1. reflexivity.
      * intros _. simpl. rewrite I2 by discriminate. apply firstn_skipn.
Qed.

Lemma all_pass_cons : forall m ms, all_pass (m :: ms) = true -> is_crc m = false /\ all_pass ms = true.
Proof.
  intros m ms H. unfold all_pass in *. simpl in H. apply negb_true_iff in H.
  apply orb_false_iff in H. destruct H as [H1 H2]. rewrite H2. auto.
Qed.

Lemma assign_pass : forall files sl ms, assign files sl = Some ms -> all_pass ms = true ->
  Forall (fun x => dg (fst x) = snd x) sl /\ ms = rebuild files (map fst sl) /\ length sl = count_data files.
Proof.
  induction files as [|[n e] r IH]; intros sl ms H Hp.
  - simpl in H. destruct sl; [|discriminate]. inversion H; subst. auto.
  - destruct e.
    + simpl in H. destruct (assign r sl) as [ms'|] eqn:E; [|discriminate].
      inversion H; subst. apply all_pass_cons in Hp. destruct Hp as [_ Hp].
      destruct (IH _ _ E Hp) as [I1 [I2 I3]]. split; [exact I1|]. split.
      * simpl. rewrite <- I2. reflexivity.
      * exact I3.
    + simpl in H. destruct sl as [|[bs c] sl']; [discriminate|].
      destruct (assign r sl') as [ms'|] eqn:E; [|discriminate].
      inversion H; subst. apply all_pass_cons in Hp. destruct Hp as [Hc Hp].
      destruct (IH _ _ E Hp) as [I1 [I2 I3]].
      destruct (deq (dg bs) c) eqn:Eq; [|discriminate].
      apply deq_spec in Eq. split; [constructor; [exact Eq | exact I1]|]. split.
      * simpl. rewrite <- I2. reflexivity.
      * unfold count_data in *. simpl. rewrite I3. reflexivity.
Qed.

Section Injective.
Hypothesis dg_inj : forall x y, dg x = dg y -> x = y.

Lemma slices_are_recs : forall (sl : list (bytes * D)) recs,
  map snd sl = map dg recs -> Forall (fun x => dg (fst x) = snd x) sl -> map fst sl = recs.
Proof.
  induction sl as [|[b c] sl IH]; intros recs Hm Hf; destruct recs as [|r recs]; try discriminate; [reflexivity|].
  simpl in Hm. inversion Hm; subst. inversion Hf; subst. simpl in *.
  f_equal; [apply dg_inj; assumption | apply IH; assumption].
Qed.
End Injective.

Lemma sum_sizes_recs : forall recs, sum_sizes (map sub_of recs) = length (concat recs).
Proof. induction recs as [|r recs IH]; simpl; [reflexivity|]. rewrite app_length, IH. reflexivity. Qed.

Definition finfo (l : list wfile) : list (Z * bool) := map (fun f => (w_name f, is_dir f)) l.

Lemma count_data_app : forall a b, count_data (a ++ b) = (count_data a + count_data b)%nat.
Proof. intros. unfold count_data. rewrite filter_app, app_length. reflexivity. Qed.

Lemma count_done : forall done, count_data (finfo (map fst done)) = length (recs_of done).
Proof.
  induction done as [|p done IH]; [reflexivity|].
  unfold count_data, finfo in *. simpl. destruct (is_dir (fst p)); simpl; rewrite IH; reflexivity.
Qed.

Lemma rebuild_done : forall done rest bl,
  (forall p, In p done -> is_dir (fst p) = false -> snd p = O) ->
  rebuild (finfo (map fst done) ++ rest) (recs_of done ++ bl) =
  map (fun p => full_member (fst p)) done ++ rebuild rest bl.
Proof.
  induction done as [|p done IH]; intros rest bl H; [reflexivity|].
  assert (H' : forall q, In q done -> is_dir (fst q) = false -> snd q = O) by (intros q Hq; apply H; right; exact Hq).
  unfold finfo in *. simpl. unfold full_member at 1. destruct (is_dir (fst p)) eqn:Ed.
  - simpl. rewrite (IH rest bl H'). reflexivity.
  - simpl. rewrite (IH rest bl H'). unfold rec_bytes. rewrite (H p (or_introl eq_refl) Ed). reflexivity.
Qed.

Lemma rebuild_dirs : forall pend, count_data (finfo pend) = O -> rebuild (finfo pend) [] = map full_member pend.
Proof.
  induction pend as [|f pend IH]; intros H; [reflexivity|].
  unfold count_data, finfo in *. simpl in *. unfold full_member at 1.
  destruct (is_dir f); simpl in *; [|discriminate]. rewrite (IH H). reflexivity.
Qed.

Section Injective2.
Hypothesis dg_inj : forall x y, dg x = dg y -> x = y.

(* whatever faults occurred: if the closed archive can be read and every member passes its
   check, every registered member is there with the complete bytes of its source *)
Lemma inv_readable_right : forall st ms, inv st -> abs st = Some ms -> all_pass ms = true ->
  ms = map full_member (ws_files st).
Proof.
  intros st ms Hi Ha Hp. destruct Hi as [H1 H2 H3 H4 H5].
  unfold WSession.abs, WSession.readable, wclose in Ha. simpl in Ha.
  destruct (ws_init st) eqn:Ei.
  - destruct (cut (ws_subs st) (ws_stream st)) as [sl|] eqn:Ec; [|discriminate].
    destruct (assign_pass _ _ _ Ha Hp) as [A1 [A2 A3]].
    destruct (cut_props _ _ _ Ec) as [C1 C2].
    rewrite H1, map_map in C1. simpl in C1.
    pose proof (slices_are_recs dg_inj sl (recs_of (ws_done st)) C1 A1) as Hsl.
    assert (Hskip : forall p, In p (ws_done st) -> is_dir (fst p) = false -> snd p = O).
    { intros p Hin Hd. destruct (recs_of (ws_done st)) as [|r0 rs] eqn:Er.
      - exfalso. clear -Hin Hd Er. induction (ws_done st) as [|q l IH]; [contradiction|].
        unfold recs_of in Er. simpl in Er. destruct Hin as [-> | Hin].
        + rewrite Hd in Er. discriminate.
        + apply IH; [|exact Hin]. destruct (is_dir (fst q)); [exact Er | discriminate].
      - assert (Hne : ws_subs st <> []) by (rewrite H1; discriminate).
        specialize (C2 Hne). rewrite Hsl in C2.
        assert (Hg : ws_garb st = O).
        { rewrite H1 in H2. rewrite <- C2 in H2. rewrite sum_sizes_recs in H2. lia. }
        rewrite Forall_forall in H3. specialize (H3 p Hin). lia. }
    unfold ws_files in *. rewrite map_app in A2, A3.
    change (map (fun f => (w_name f, is_dir f)) (map fst (ws_done st))) with (finfo (map fst (ws_done st))) in A2, A3.
    change (map (fun f => (w_name f, is_dir f)) (ws_pend st)) with (finfo (ws_pend st)) in A2, A3.
    rewrite count_data_app, count_done, <- Hsl, map_length in A3.
    assert (Hpd : count_data (finfo (ws_pend st)) = O) by lia.
    rewrite A2, Hsl, map_app. rewrite <- (app_nil_r (recs_of (ws_done st))).
    rewrite (rebuild_done _ _ _ Hskip), (rebuild_dirs _ Hpd), map_map. reflexivity.
  - destruct (H5 eq_refl) as [Hd Hpn]. unfold ws_files in *. rewrite Hd, Hpn in *. simpl in Ha.
    inversion Ha. reflexivity.
Qed.

Theorem midway_failure_not_wrong : forall ops st outs ms,
  run st0 ops = (st, outs) -> abs st = Some ms -> all_pass ms = true ->
  ms = map full_member (ws_files st).
Proof.
  intros ops st outs ms H Ha Hp. eapply inv_readable_right; eauto.
  eapply inv_run; [apply inv_st0 | exact H].
Qed.
End Injective2.

End Proofs.

(* ------------------------------------------------------------------ *)
(** * Instances: the hypotheses are satisfiable; CRC-32 corollaries     *)
(* ------------------------------------------------------------------ *)

Definition bytes_eqb (a b : bytes) : bool := if list_eq_dec Z.eq_dec a b then true else false.

Lemma bytes_eqb_spec : forall a b, bytes_eqb a b = true <-> a = b.
Proof. intros a b. unfold bytes_eqb. destruct (list_eq_dec Z.eq_dec a b); split; auto; discriminate. Qed.

(* an injective digest with a decidable equality exists: the identity *)
Lemma hyps_satisfiable : exists (D : Type) (dg : bytes -> D) (deq : D -> D -> bool),
  (forall a b, deq a b = true <-> a = b) /\ (forall x y, dg x = dg y -> x = y).
Proof. exists bytes, (fun x => x), bytes_eqb. split; [exact bytes_eqb_spec | auto]. Qed.

Lemma zeqb_spec : forall a b : Z, Z.eqb a b = true <-> a = b.
Proof. intros. apply Z.eqb_eq. Qed.

Definition wstep32 := @wstep Z crc32.

Corollary later_writes_intact_crc32 : forall ops,
  forallb pre_only ops = true -> links_ok false ops = true ->
  exists st, run32 st0 ops = (st, map expected_out ops) /\ abs32 st = Some (flat_map expected ops).
Proof. exact (later_writes_intact_partial crc32 Z.eqb zeqb_spec). Qed.

(* ------------------------------------------------------------------ *)
(** * Witnesses (executable instance, CRC-32)                           *)
(* ------------------------------------------------------------------ *)

Definition sx := mkSrc 0 KData [88; 88] None.
Definition sy := mkSrc 4 KData [89; 89; 89] None.
Definition sb := mkSrc 2 KFile [66; 66; 66] None.
Definition sdir := mkSrc 3 KDir [] None.
Definition slink := mkSrc 5 KLink [116] None.
Definition sa_open (sticky : bool) := mkSrc 1 KFile [65; 65; 65; 65] (Some (mkFault FOpen sticky)).
Definition sa_read (k : nat) (sticky : bool) :=
  mkSrc 1 KData [65; 65; 65; 65; 65; 65; 65; 65] (Some (mkFault (FRead k) sticky)).
Definition s_missing := mkSrc 6 KFile [67] (Some (mkFault FStat true)).
Definition s_badname := mkSrc 7 KData [68] (Some (mkFault FName true)).

Lemma reachable_run : forall ops, reachable crc32 (fst (run32 st0 ops)).
Proof. intros ops. exists ops, (snd (run32 st0 ops)). unfold run32. destruct (run crc32 st0 ops); reflexivity. Qed.

(* write() registers before Worker.archive opens the source: the failed call changes what a reader gets *)
Theorem failed_call_no_effect_refuted : exists st op st',
  reachable crc32 st /\ wstep32 st op = (st', Raised) /\
  abs32 st = Some [(0, MData [88; 88])] /\ abs32 st' = None.
Proof.
  exists (fst (run32 st0 [OCall AWritestr sx])), (OCall AWrite (sa_open true)).
  exists (fst (wstep32 (fst (run32 st0 [OCall AWritestr sx])) (OCall AWrite (sa_open true)))).
  split; [apply reachable_run|]. vm_compute. repeat split; reflexivity.
Qed.

(* ... and the archive stays unreadable whatever is written afterwards: members written before and
   after the failed call are lost; the later (valid) call raises the earlier call's error *)
Definition ops_open_sticky := [OCall AWritestr sx; OCall AWrite (sa_open true); OCall AWritestr sy].
Theorem open_failure_poisons :
  snd (run32 st0 ops_open_sticky) = [Returned; Raised; Raised] /\
  abs32 (fst (run32 st0 ops_open_sticky)) = None /\
  map expected_out ops_open_sticky = [Returned; Raised; Returned] /\
  flat_map expected ops_open_sticky = [(0, MData [88; 88]); (4, MData [89; 89; 89])].
Proof. vm_compute. repeat split; reflexivity. Qed.

(* with a fault that is gone when the source is touched again, the next call returns, but it has
   archived the failed source and not its own *)
Definition ops_open_once := [OCall AWritestr sx; OCall AWrite (sa_open false); OCall AWrite sb].
Theorem open_failure_once_poisons :
  snd (run32 st0 ops_open_once) = [Returned; Raised; Returned] /\
  abs32 (fst (run32 st0 ops_open_once)) = None /\
  map fst (ws_subs (fst (run32 st0 ops_open_once))) = [2%nat; 4%nat] /\
  ws_cur (fst (run32 st0 ops_open_once)) = 2%nat /\ length (ws_files (fst (run32 st0 ops_open_once))) = 3%nat.
Proof. vm_compute. repeat split; reflexivity. Qed.

(* the general statement of later_writes_intact without the side condition on links is false even
   without any fault: _find_link_target fails on a valid link after a writestr member *)
Definition ops_link_after_data := [OCall AWritestr sx; OCall AWrite slink].
Theorem later_writes_intact_refuted :
  forallb pre_only ops_link_after_data = true /\
  map expected_out ops_link_after_data = [Returned; Returned] /\
  snd (run32 st0 ops_link_after_data) = [Returned; Raised] /\
  abs32 (fst (run32 st0 ops_link_after_data)) = None.
Proof. vm_compute. repeat split; reflexivity. Qed.

(* the failed source is archived behind the caller's back *)
Definition ops_retry := [OCall AWrite (sa_open false); OCall AWrite sdir].
Theorem no_retry_refuted :
  snd (run32 st0 ops_retry) = [Raised; Returned] /\
  failed_of ops_retry (snd (run32 st0 ops_retry)) = [1] /\
  abs32 (fst (run32 st0 ops_retry)) = Some [(1, MData [65; 65; 65; 65]); (3, MDir)] /\
  flat_map expected ops_retry = [(3, MDir)].
Proof. vm_compute. repeat split; reflexivity. Qed.

(* midway read failure, per member: a member can pass its CRC with the wrong (truncated) bytes;
   the archive as a whole does not extract without error (the next member fails its CRC) *)
Definition ops_midway := [OCall AWritestr sx; OCall AWritef (sa_read 3 false); OCall AWritestr sy; OCall AWrite sdir].
Theorem midway_member_refuted :
  snd (run32 st0 ops_midway) = [Returned; Raised; Returned; Returned] /\
  map (fun f => (w_name f, w_data f)) (ws_files (fst (run32 st0 ops_midway))) =
    [(0, [88; 88]); (1, [65; 65; 65; 65; 65; 65; 65; 65]); (4, [89; 89; 89]); (3, [])] /\
  abs32 (fst (run32 st0 ops_midway)) =
    Some [(0, MData [88; 88]); (1, MData [65; 65; 65; 65; 65]); (4, MCrc); (3, MDir)].
Proof. vm_compute. repeat split; reflexivity. Qed.

(* non-vacuity of the positive theorems *)
Example later_writes_intact_example :
  let ops := [OCall AWrite slink; OCall AWritestr sx; OCall AWrite s_missing; OCall AWritef s_badname;
              OWriteall false [sdir; sb; mkSrc 8 KFile [69] (Some (mkFault FStat true)); sy];
              OWriteall true [sdir]; OCall AWritef sy] in
  forallb pre_only ops = true /\ links_ok false ops = true /\
  snd (run32 st0 ops) = [Returned; Returned; Raised; Raised; Raised; Raised; Returned] /\
  abs32 (fst (run32 st0 ops)) =
    Some [(5, MData [116]); (0, MData [88; 88]); (3, MDir); (2, MData [66; 66; 66]); (4, MData [89; 89; 89])].
Proof. vm_compute. repeat split; reflexivity. Qed.

Example failed_call_no_effect_pre_example :
  let st := fst (run32 st0 [OCall AWritestr sx]) in
  wstep32 st (OCall AWrite s_missing) = (set_init st, Raised) /\ abs32 (set_init st) = abs32 st /\
  wstep32 st0 (OCall AWrite s_missing) = (set_init st0, Raised) /\ set_init (D:=Z) st0 <> st0 /\
  abs32 (set_init st0) = Some [] /\ abs32 st0 = Some [].
Proof. vm_compute. repeat split; try reflexivity. discriminate. Qed.

Example midway_example :
  let ops := [OCall AWritestr sx; OCall AWritef (sa_read 0 false); OCall AWrite sdir] in
  snd (run32 st0 ops) = [Returned; Raised; Returned] /\
  abs32 (fst (run32 st0 ops)) = Some [(0, MData [88; 88]); (1, MData [65; 65; 65; 65; 65; 65; 65; 65]); (3, MDir)] /\
  ws_garb (fst (run32 st0 [OCall AWritef (sa_read 3 true)])) = 3%nat /\
  abs32 (fst (run32 st0 [OCall AWritef (sa_read 3 true)])) = None.
Proof. vm_compute. repeat split; reflexivity. Qed.
