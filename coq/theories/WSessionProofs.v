(* WSessionProofs.v -- theorems about the write-session machine of WSession.v (property C15),
   for the code after the repair of the poisoning defect (_register_and_archive with rollback). *)
From P7 Require Import Prelude Crc32 WSession.
From Coq Require Import ZifyBool.
Open Scope Z_scope.

Section Proofs.
Context {D : Type}.
Variable dg : bytes -> D.
Variable deq : D -> D -> bool.
Hypothesis deq_spec : forall a b, deq a b = true <-> a = b.

Notation wstate := (wstate D).
Notation archive := (archive dg).
Notation reg_archive := (reg_archive dg).
Notation call_write := (call_write dg).
Notation call_data := (call_data dg).
Notation elem_writeall := (elem_writeall dg).
Notation writeall_loop := (writeall_loop dg).
Notation wstep := (wstep dg).
Notation run := (run dg).
Notation abs := (abs dg deq).
Notation readable := (readable dg deq).
Notation assign := (assign dg deq).

Lemma deq_refl : forall a, deq a a = true.
Proof. intros a. apply deq_spec. reflexivity. Qed.

(* ------------------------------------------------------------------ *)
(** * Generic facts about cut / assign                                  *)
(* ------------------------------------------------------------------ *)

Definition sub_of (bs : bytes) : nat * D := (length bs, dg bs).
Definition slice_of (bs : bytes) : bytes * D := (bs, dg bs).
Definition datas (ms : list (Z * mres)) : list bytes :=
  flat_map (fun m => match snd m with MData bs => [bs] | _ => [] end) ms.
Definition info (ms : list (Z * mres)) : list (Z * bool) :=
  map (fun m => (fst m, match snd m with MDir => true | _ => false end)) ms.
Definition no_crc (ms : list (Z * mres)) : Prop := forall m, In m ms -> snd m <> MCrc.

Lemma cut_cons : forall n (c : D) r stream, r <> [] ->
  cut ((n, c) :: r) stream =
  if (n <=? length stream)%nat then option_map (cons (firstn n stream, c)) (cut r (skipn n stream)) else None.
Proof. intros n c r stream H. destruct r; [contradiction | reflexivity]. Qed.

(* the slices of the members in front of the last sub-stream are exact, whatever follows *)
Lemma cut_app : forall l (r : list (nat * D)) rest, r <> [] ->
  cut (map sub_of l ++ r) (concat l ++ rest) = option_map (app (map slice_of l)) (cut r rest).
Proof.
  induction l as [|a l IH]; intros r rest Hr.
  - simpl. destruct (cut r rest); reflexivity.
  - change (map sub_of (a :: l) ++ r) with ((length a, dg a) :: (map sub_of l ++ r)).
    change (concat (a :: l) ++ rest) with ((a ++ concat l) ++ rest).
    rewrite cut_cons by (destruct l; simpl; [exact Hr | discriminate]).
    rewrite <- app_assoc.
    assert (Hle : (length a <=? length (a ++ concat l ++ rest))%nat = true)
      by (apply Nat.leb_le; rewrite app_length; lia).
    rewrite Hle, firstn_app, Nat.sub_diag, firstn_all, firstn_O, app_nil_r.
    rewrite skipn_app, Nat.sub_diag, skipn_all, skipn_O.
    change ([] ++ concat l ++ rest) with (concat l ++ rest).
    rewrite (IH r rest Hr). destruct (cut r rest); reflexivity.
Qed.

Lemma cut_concat : forall l, cut (map sub_of l) (concat l) = Some (map slice_of l).
Proof.
  intros l. destruct l as [|x l0]; [reflexivity|].
  destruct (@exists_last _ (x :: l0)) as [l' [a E]]; [discriminate|]. rewrite E.
  rewrite map_app, concat_app. simpl. rewrite cut_app by discriminate.
  simpl. rewrite map_app, app_nil_r. reflexivity.
Qed.

(* a non-empty table whose sizes fit always cuts; the digests are those of the table *)
Lemma cut_total : forall l rest, (length (concat l) <= length rest)%nat ->
  exists sl, cut (map sub_of l) rest = Some sl /\ map snd sl = map dg l.
Proof.
  induction l as [|a l IH]; intros rest H.
  - exists []. split; reflexivity.
  - destruct l as [|b l].
    + exists [(rest, dg a)]. split; reflexivity.
    + change (map sub_of (a :: b :: l)) with ((length a, dg a) :: map sub_of (b :: l)).
      rewrite cut_cons by discriminate.
      change (concat (a :: b :: l)) with (a ++ concat (b :: l)) in H. rewrite app_length in H.
      assert (Hle : (length a <=? length rest)%nat = true) by (apply Nat.leb_le; lia).
      rewrite Hle.
      destruct (IH (skipn (length a) rest)) as [sl [Hc Hs]]; [rewrite skipn_length; lia|].
      rewrite Hc. eexists. split; [reflexivity|]. simpl. rewrite Hs. reflexivity.
Qed.

Lemma assign_app : forall ms fi sl, no_crc ms ->
  assign (info ms ++ fi) (map slice_of (datas ms) ++ sl) = option_map (app ms) (assign fi sl).
Proof.
  induction ms as [|[n r] ms IH]; intros fi sl Hn.
  - simpl. destruct (assign fi sl); reflexivity.
  - assert (Hn' : no_crc ms) by (intros m Hm; apply Hn; right; exact Hm).
    destruct r as [|bs|].
    + change (assign (info ((n, MDir) :: ms) ++ fi) (map slice_of (datas ((n, MDir) :: ms)) ++ sl))
        with (option_map (cons (n, MDir)) (assign (info ms ++ fi) (map slice_of (datas ms) ++ sl))).
      rewrite (IH fi sl Hn'). destruct (assign fi sl); reflexivity.
    + change (assign (info ((n, MData bs) :: ms) ++ fi) (map slice_of (datas ((n, MData bs) :: ms)) ++ sl))
        with (option_map (cons (n, if deq (dg bs) (dg bs) then MData bs else MCrc))
                         (assign (info ms ++ fi) (map slice_of (datas ms) ++ sl))).
      rewrite (IH fi sl Hn'), deq_refl. destruct (assign fi sl); reflexivity.
    + exfalso. apply (Hn (n, MCrc)); [left; reflexivity | reflexivity].
Qed.

Lemma assign_full : forall ms, no_crc ms -> assign (info ms) (map slice_of (datas ms)) = Some ms.
Proof.
  intros ms Hn. pose proof (assign_app ms [] [] Hn) as H. rewrite !app_nil_r in H. rewrite H.
  simpl. rewrite app_nil_r. reflexivity.
Qed.

Lemma assign_total : forall ms (sl : list (bytes * D)), no_crc ms -> length sl = length (datas ms) ->
  exists tail, assign (info ms) sl = Some tail /\ map fst tail = map fst ms.
Proof.
  induction ms as [|[n r] ms IH]; intros sl Hnc H.
  - destruct sl; [|discriminate]. exists []. split; reflexivity.
  - assert (Hnc' : no_crc ms) by (intros m Hm; apply Hnc; right; exact Hm).
    specialize (IH sl Hnc') as IH0. clear IH0.
    destruct r as [|bs|].
    + destruct (IH sl Hnc' H) as [t [Ht Hn]]. exists ((n, MDir) :: t). split.
      * change (assign (info ((n, MDir) :: ms)) sl) with (option_map (cons (n, MDir)) (assign (info ms) sl)).
        rewrite Ht. reflexivity.
      * simpl. rewrite Hn. reflexivity.
    + destruct sl as [|[b c] sl]; [discriminate|]. simpl in H. injection H as H.
      destruct (IH sl Hnc' H) as [t [Ht Hn]]. eexists. split.
      * change (assign (info ((n, MData bs) :: ms)) ((b, c) :: sl))
          with (option_map (cons (n, if deq (dg b) c then MData b else MCrc)) (assign (info ms) sl)).
        rewrite Ht. reflexivity.
      * simpl. rewrite Hn. reflexivity.
    + exfalso. apply (Hnc (n, MCrc)); [left; reflexivity | reflexivity].
Qed.

(* ------------------------------------------------------------------ *)
(** * One call, with the worker in step (ws_pend = [])                  *)
(* ------------------------------------------------------------------ *)

Definition api_step (a : api) (st : wstate) (s : src) : wstate * wout :=
  match a with AWrite => call_write st s | _ => call_data a st s end.

Lemma wstep_call : forall st a s, wstep st (OCall a s) = api_step a st s.
Proof. intros st [] s; reflexivity. Qed.

Definition sub_list (f : wfile) : list (nat * D) := if is_dir f then [] else [sub_of (w_data f)].
Definition byte_list (f : wfile) : bytes := if is_dir f then [] else w_data f.

Lemma file_of_src_pos : forall a s, w_pos (file_of_src a s) = O.
Proof. intros [] s; reflexivity. Qed.

Lemma disarm_same : forall f, w_name (disarm f) = w_name f /\ w_kind (disarm f) = w_kind f /\
  w_data (disarm f) = w_data f /\ w_pos (disarm f) = w_pos f.
Proof. intros f. unfold disarm. destruct (w_fault f) as [[k []]|]; simpl; auto. Qed.

(* reading the source of the member a call registers: fails iff the fault fires *)
Lemma read_fresh : forall a s, let f := file_of_src a s in is_dir f = false ->
  fault_kind s <> Some FStat -> fault_kind s <> Some FName ->
  if fires a s
  then exists c f', read_src f = RdFail c f' /\ (dirty a s = false -> c = [])
  else exists f', read_src f = RdOk (w_data f) O f' /\ w_name f' = w_name f /\ w_kind f' = w_kind f /\
                  w_data f' = w_data f.
Proof.
  intros a s f Hd Hns Hnn. subst f. unfold fault_kind in *. unfold dirty, fires.
  destruct (s_fault s) as [[k b]|] eqn:Ef; [destruct k as [| | |n]|]; simpl in Hns, Hnn;
    try (exfalso; apply Hns; reflexivity); try (exfalso; apply Hnn; reflexivity);
    destruct a; unfold file_of_src, read_src, is_dir in *; simpl in *; rewrite ?Ef; simpl;
    try (destruct (s_kind s) eqn:Ek; try discriminate; simpl);
    rewrite ?andb_false_r, ?andb_true_r;
    try (destruct (n <? length (s_data s))%nat eqn:El; simpl);
    first [ solve [eexists; split; [reflexivity | repeat split; reflexivity]]
          | solve [eexists; eexists; split; [reflexivity | intros H; reflexivity]]
          | solve [eexists; eexists; split; [reflexivity | intros H; try reflexivity;
                                             destruct n; [reflexivity | discriminate]]] ].
Qed.

Lemma fires_pre : forall a s, (fault_kind s = Some FStat \/ fault_kind s = Some FName) ->
  fires a s = true /\ dirty a s = false.
Proof.
  intros a s H. unfold fault_kind, fires, dirty, fires in *.
  destruct (s_fault s) as [[k b]|]; simpl in *; [|destruct H; discriminate].
  destruct H as [H | H]; injection H as ->; split; reflexivity.
Qed.

Lemma fires_dir : forall a s, is_dir (file_of_src a s) = true ->
  fires a s = match fault_kind s with Some FStat => true | Some FName => true | _ => false end.
Proof.
  intros a s H. unfold fires, fault_kind. destruct a; unfold is_dir in H; simpl in H; try discriminate.
  destruct (s_kind s); try discriminate.
  destruct (s_fault s) as [[[| | |k] b]|]; simpl; try reflexivity. apply andb_false_r.
Qed.

(* the state after a call that fails: nothing but the init flag and the compressor's input moved *)
Definition fail_state (st : wstate) (i : bool) (c : bytes) : wstate :=
  mkState D i (ws_done st) [] (ws_last st) (ws_subs st) (ws_stream st ++ c) (ws_garb st + length c).
(* ... and after a call that returns *)
Definition ok_state (st : wstate) (f' f : wfile) : wstate :=
  mkState D true (ws_done st ++ [(f', O)]) []
          (if is_dir f then ws_last st else Z.of_nat (length (ws_done st)))
          (ws_subs st ++ sub_list f) (ws_stream st ++ byte_list f) (ws_garb st).

Lemma reg_archive_spec : forall st a s, ws_pend st = [] -> ws_init st = true ->
  fault_kind s <> Some FStat -> fault_kind s <> Some FName ->
  let f := file_of_src a s in
  if fires a s
  then exists c, reg_archive st f = (fail_state st true c, Raised) /\ (dirty a s = false -> c = [])
  else exists f', reg_archive st f = (ok_state st f' f, Returned) /\ w_name f' = w_name f /\
                  w_kind f' = w_kind f /\ w_data f' = w_data f.
Proof.
  intros st a s Hp Hi Hns Hnn f.
  unfold WSession.reg_archive, WSession.archive, register. simpl. rewrite Hp. simpl.
  destruct (is_dir f) eqn:Ed.
  - subst f. rewrite (fires_dir a s Ed).
    destruct (fault_kind s) as [[| | |k]|]; try contradiction;
      (exists (file_of_src a s); split; [|auto]);
      unfold ok_state, sub_list, byte_list; rewrite Ed, !app_nil_r, Hi; reflexivity.
  - pose proof (read_fresh a s Ed Hns Hnn) as Hr. fold f in Hr.
    destruct (fires a s).
    + destruct Hr as [c [f' [Hr Hc]]]. rewrite Hr. exists c. split; [|exact Hc].
      unfold pop_pend, fail_state. simpl. rewrite Hi. reflexivity.
    + destruct Hr as [f' [Hr [H1 [H2 H3]]]]. rewrite Hr. exists f'. split; [|auto].
      unfold ok_state, sub_list, byte_list. rewrite Ed, Hi. reflexivity.
Qed.

Lemma api_step_spec : forall st a s, ws_pend st = [] ->
  let f := file_of_src a s in
  if fires a s
  then exists i c, api_step a st s = (fail_state st i c, Raised) /\ (i = ws_init st \/ i = true) /\
                   (dirty a s = false -> c = [])
  else exists f', api_step a st s = (ok_state st f' f, Returned) /\ w_name f' = w_name f /\
                  w_kind f' = w_kind f /\ w_data f' = w_data f.
Proof.
  intros st a s Hp f.
  assert (Hst : forall i, fail_state st i [] = mkState D i (ws_done st) (ws_pend st) (ws_last st) (ws_subs st)
                                                        (ws_stream st) (ws_garb st)).
  { intros i. unfold fail_state. rewrite Hp, app_nil_r. simpl. rewrite Nat.add_0_r. reflexivity. }
  assert (Hsame : fail_state st (ws_init st) [] = st) by (rewrite Hst; destruct st; reflexivity).
  assert (Hset : fail_state st true [] = set_init st) by (rewrite Hst; reflexivity).
  destruct (fault_kind s) as [k|] eqn:Ek.
  - destruct k as [| | |n].
    + destruct (fires_pre a s (or_introl Ek)) as [-> Hd].
      destruct a; unfold api_step, WSession.call_write, WSession.call_data; rewrite Ek.
      * exists true, []. rewrite Hset. auto.
      * exists (ws_init st), []. rewrite Hsame. auto.
      * exists (ws_init st), []. rewrite Hsame. auto.
    + destruct (fires_pre a s (or_intror Ek)) as [-> Hd].
      exists (ws_init st), []. rewrite Hsame.
      destruct a; unfold api_step, WSession.call_write, WSession.call_data; rewrite Ek; auto.
    + pose proof (reg_archive_spec (set_init st) a s Hp eq_refl) as H. fold f in H. rewrite Ek in H.
      specialize (H ltac:(discriminate) ltac:(discriminate)).
      assert (Hstep : api_step a st s = reg_archive (set_init st) f)
        by (destruct a; unfold api_step, WSession.call_write, WSession.call_data; rewrite Ek; reflexivity).
      rewrite Hstep. destruct (fires a s).
      * destruct H as [c [H Hc]]. exists true, c. auto.
      * exact H.
    + pose proof (reg_archive_spec (set_init st) a s Hp eq_refl) as H. fold f in H. rewrite Ek in H.
      specialize (H ltac:(discriminate) ltac:(discriminate)).
      assert (Hstep : api_step a st s = reg_archive (set_init st) f)
        by (destruct a; unfold api_step, WSession.call_write, WSession.call_data; rewrite Ek; reflexivity).
      rewrite Hstep. destruct (fires a s).
      * destruct H as [c [H Hc]]. exists true, c. auto.
      * exact H.
  - pose proof (reg_archive_spec (set_init st) a s Hp eq_refl) as H. fold f in H. rewrite Ek in H.
    specialize (H ltac:(discriminate) ltac:(discriminate)).
    assert (Hstep : api_step a st s = reg_archive (set_init st) f)
      by (destruct a; unfold api_step, WSession.call_write, WSession.call_data; rewrite Ek; reflexivity).
    rewrite Hstep. destruct (fires a s).
    + destruct H as [c [H Hc]]. exists true, c. auto.
    + exact H.
Qed.

(* one member visited by _writeall *)
Lemma elem_spec : forall st s, ws_pend st = [] ->
  let f := file_of_src AWrite s in
  if fires AWrite s
  then exists i c, elem_writeall st s = (fail_state st i c, Raised) /\ (i = ws_init st \/ i = true) /\
                   (dirty AWrite s = false -> c = [])
  else exists f', elem_writeall st s = (ok_state st f' f, Returned) /\ w_name f' = w_name f /\
                  w_kind f' = w_kind f /\ w_data f' = w_data f.
Proof.
  intros st s Hp f. unfold WSession.elem_writeall.
  destruct (fault_kind s) as [[| | |n]|] eqn:Ek; try exact (api_step_spec st AWrite s Hp).
  destruct (fires_pre AWrite s (or_introl Ek)) as [-> Hd].
  destruct (s_eloop s).
  - exists true, []. split; [|auto].
    unfold fail_state, set_init. rewrite app_nil_r, Nat.add_0_r, <- Hp. reflexivity.
  - exists (ws_init st), []. split; [|auto].
    unfold fail_state. rewrite app_nil_r, Nat.add_0_r, <- Hp. destruct st; reflexivity.
Qed.

(* ------------------------------------------------------------------ *)
(** * The invariant of every reachable state                            *)
(* ------------------------------------------------------------------ *)

Definition fulldatas (l : list wfile) : list bytes := flat_map (fun f => if is_dir f then [] else [w_data f]) l.

Record inv (st : wstate) : Prop := {
  iv_pend : ws_pend st = [];                                   (* the worker is in step *)
  iv_skip : Forall (fun p => snd p = O) (ws_done st);          (* every source was read from its start *)
  iv_subs : ws_subs st = map sub_of (fulldatas (map fst (ws_done st)));
  iv_init : ws_init st = false -> ws_done st = []
}.

Lemma inv_st0 : inv st0.
Proof. constructor; simpl; auto. Qed.

Lemma fulldatas_app : forall a b, fulldatas (a ++ b) = fulldatas a ++ fulldatas b.
Proof. intros. unfold fulldatas. apply flat_map_app. Qed.

Lemma inv_fail : forall st i c, inv st -> (i = ws_init st \/ i = true) -> inv (fail_state st i c).
Proof.
  intros st i c [H1 H2 H3 H4] Hi. constructor; simpl; auto.
  destruct Hi as [-> | ->]; [exact H4 | discriminate].
Qed.

Lemma inv_ok : forall st f' f, inv st -> w_kind f' = w_kind f -> w_data f' = w_data f -> inv (ok_state st f' f).
Proof.
  intros st f' f [H1 H2 H3 H4] Hk Hd. constructor; simpl; auto.
  - apply Forall_app. split; [exact H2 | constructor; [reflexivity | constructor]].
  - rewrite map_app, fulldatas_app, map_app, <- H3. simpl. unfold sub_list, is_dir. rewrite Hk, Hd.
    destruct (w_kind f); simpl; rewrite ?app_nil_r; reflexivity.
  - discriminate.
Qed.

Lemma inv_api_step : forall st a s st' o, inv st -> api_step a st s = (st', o) -> inv st'.
Proof.
  intros st a s st' o Hi H. pose proof (api_step_spec st a s (iv_pend st Hi)) as Hs. simpl in Hs.
  destruct (fires a s).
  - destruct Hs as [i [c [E [Hii _]]]]. rewrite E in H. inversion H; subst. apply inv_fail; assumption.
  - destruct Hs as [f' [E [_ [Hk Hd]]]]. rewrite E in H. inversion H; subst. apply inv_ok; assumption.
Qed.

Lemma inv_loop : forall dr l st st' o, inv st -> writeall_loop dr st l = (st', o) -> inv st'.
Proof.
  induction l as [|s l IH]; intros st st' o Hi H; simpl in H.
  - inversion H; subst. exact Hi.
  - pose proof (elem_spec st s (iv_pend st Hi)) as Hs. simpl in Hs. destruct (fires AWrite s).
    + destruct Hs as [i [c [E [Hii _]]]]. rewrite E in H.
      pose proof (inv_fail st i c Hi Hii) as Hi'.
      destruct (swallows dr s); [eapply IH; eauto | inversion H; subst; exact Hi'].
    + destruct Hs as [f' [E [_ [Hk Hd]]]]. rewrite E in H. eapply IH; [|exact H]. apply inv_ok; assumption.
Qed.

Lemma inv_wstep : forall st op st' o, inv st -> wstep st op = (st', o) -> inv st'.
Proof.
  intros st [a s | rm dr l] st' o Hi H.
  - rewrite wstep_call in H. eapply inv_api_step; eauto.
  - simpl in H. destruct rm; [inversion H; subst; exact Hi | eapply inv_loop; eauto].
Qed.

Lemma inv_run : forall ops st st' outs, inv st -> run st ops = (st', outs) -> inv st'.
Proof.
  induction ops as [|op ops IH]; intros st st' outs Hi H; simpl in H.
  - inversion H; subst. exact Hi.
  - destruct (wstep st op) as [st1 o] eqn:E1. destruct (run st1 ops) as [st2 os] eqn:E2.
    inversion H; subst. eapply IH; [|exact E2]. eapply inv_wstep; eauto.
Qed.

Definition reachable (st : wstate) : Prop := exists ops outs, run st0 ops = (st, outs).

Lemma reachable_inv : forall st, reachable st -> inv st.
Proof. intros st [ops [outs H]]. eapply inv_run; [apply inv_st0 | exact H]. Qed.

(* the worker never lags behind: no call works on an earlier call's member *)
Theorem worker_in_step : forall st, reachable st -> ws_pend st = [] /\ ws_cur st = length (ws_files st).
Proof.
  intros st H. pose proof (iv_pend st (reachable_inv st H)) as Hp. split; [exact Hp|].
  unfold ws_cur, ws_files. rewrite Hp, app_nil_r, map_length. reflexivity.
Qed.

(* ------------------------------------------------------------------ *)
(** * A failed call has no effect                                       *)
(* ------------------------------------------------------------------ *)

Lemma abs_set_init : forall st, inv st -> abs (set_init st) = abs st.
Proof.
  intros st Hi. unfold WSession.abs, WSession.readable, wclose, ws_files. simpl.
  destruct (ws_init st) eqn:Ei; [reflexivity|].
  rewrite (iv_subs st Hi), (iv_init st Hi Ei), (iv_pend st Hi). reflexivity.
Qed.

Lemma fail_state_nil : forall st i, ws_pend st = [] -> (i = ws_init st \/ i = true) ->
  fail_state st i [] = st \/ fail_state st i [] = set_init st.
Proof.
  intros st i Hp Hi. unfold fail_state. rewrite app_nil_r, Nat.add_0_r, <- Hp.
  destruct Hi as [-> | ->]; [left; destruct st; reflexivity | right; reflexivity].
Qed.

(* any entry point, any fault that fires except read() raising after k > 0 bytes: the exception
   reaches the caller, the state is the one before the call (write() may have run
   header.initialize()), a reader of the closed archive sees no difference *)
Theorem failed_call_no_effect : forall st a s,
  reachable st -> fires a s = true -> dirty a s = false ->
  exists st', wstep st (OCall a s) = (st', Raised) /\ (st' = st \/ st' = set_init st) /\ abs st' = abs st.
Proof.
  intros st a s Hr Hf Hd. pose proof (reachable_inv st Hr) as Hi.
  pose proof (api_step_spec st a s (iv_pend st Hi)) as Hs. simpl in Hs. rewrite Hf in Hs.
  destruct Hs as [i [c [E [Hii Hc]]]]. rewrite (Hc Hd) in E.
  rewrite wstep_call. eexists. split; [exact E|].
  destruct (fail_state_nil st i (iv_pend st Hi) Hii) as [-> | ->].
  - auto.
  - split; [auto | apply abs_set_init; exact Hi].
Qed.

(* read() raising after k > 0 bytes: the exception reaches the caller, no entry and no sub-stream
   is left behind, but the bytes already fed to the compressor stay in the folder *)
Theorem failed_read_effect : forall st a s,
  reachable st -> fires a s = true ->
  exists i c, wstep st (OCall a s) = (fail_state st i c, Raised) /\ (i = ws_init st \/ i = true) /\
              (dirty a s = false -> c = []).
Proof.
  intros st a s Hr Hf. pose proof (api_step_spec st a s (iv_pend st (reachable_inv st Hr))) as Hs.
  simpl in Hs. rewrite Hf in Hs. rewrite wstep_call. exact Hs.
Qed.

Theorem failed_writeall_root_no_effect : forall st dr l, wstep st (OWriteall true dr l) = (st, Raised).
Proof. reflexivity. Qed.

(* ------------------------------------------------------------------ *)
(** * Histories: members before and after a failed call                 *)
(* ------------------------------------------------------------------ *)

(* the members ms1, then c stray bytes in the folder, then the members ms2 *)
Record gsynced (st : wstate) (ms1 : list (Z * mres)) (c : bytes) (ms2 : list (Z * mres)) : Prop := {
  gs_pend : ws_pend st = [];
  gs_done : map (fun p => full_member (fst p)) (ws_done st) = ms1 ++ ms2;
  gs_subs : ws_subs st = map sub_of (datas ms1 ++ datas ms2);
  gs_stream : ws_stream st = concat (datas ms1) ++ c ++ concat (datas ms2);
  gs_init : ws_init st = false -> ms1 ++ ms2 = []
}.

Lemma datas_app : forall a b, datas (a ++ b) = datas a ++ datas b.
Proof. intros. unfold datas. apply flat_map_app. Qed.

Lemma full_member_no_crc : forall (l : list (wfile * nat)), no_crc (map (fun p => full_member (fst p)) l).
Proof.
  intros l m Hm. apply in_map_iff in Hm. destruct Hm as [p [<- _]].
  unfold full_member. simpl. destruct (is_dir (fst p)); discriminate.
Qed.

Lemma info_full : forall (l : list (wfile * nat)),
  info (map (fun p => full_member (fst p)) l) = map (fun f => (w_name f, is_dir f)) (map fst l).
Proof.
  induction l as [|p l IH]; [reflexivity|].
  simpl. rewrite <- IH. unfold full_member at 1 2. simpl. destruct (is_dir (fst p)); reflexivity.
Qed.

Lemma gsynced_files : forall st ms1 c ms2, gsynced st ms1 c ms2 ->
  map (fun f => (w_name f, is_dir f)) (ws_files st) = info (ms1 ++ ms2) /\ no_crc (ms1 ++ ms2).
Proof.
  intros st ms1 c ms2 [Hp Hd _ _ _]. unfold ws_files. rewrite Hp, app_nil_r, <- info_full, Hd.
  split; [reflexivity|]. rewrite <- Hd. apply full_member_no_crc.
Qed.

Lemma readable_clean : forall st ms, gsynced st [] [] ms -> abs st = Some ms.
Proof.
  intros st ms H. destruct (gsynced_files _ _ _ _ H) as [Hf Hn]. destruct H as [Hp Hd Hs Hst Hi].
  simpl in *. unfold WSession.abs, WSession.readable, wclose. simpl. rewrite Hf.
  destruct (ws_init st) eqn:Ei.
  - rewrite Hs, Hst, cut_concat. apply assign_full. exact Hn.
  - rewrite (Hi eq_refl). reflexivity.
Qed.

Lemma info_app : forall a b, info (a ++ b) = info a ++ info b.
Proof. intros. unfold info. apply map_app. Qed.

Lemma no_crc_app_l : forall a b, no_crc (a ++ b) -> no_crc a.
Proof. intros a b H m Hm. apply H. apply in_or_app. left. exact Hm. Qed.

(* members written before a failed call are intact as soon as a member with data is written after it *)
Lemma readable_before : forall st ms1 c ms2, gsynced st ms1 c ms2 -> datas ms2 <> [] ->
  exists tail, abs st = Some (ms1 ++ tail) /\ map fst tail = map fst ms2.
Proof.
  intros st ms1 c ms2 H Hne. destruct (gsynced_files _ _ _ _ H) as [Hf Hn]. destruct H as [Hp Hd Hs Hst Hi].
  unfold WSession.abs, WSession.readable, wclose. simpl. rewrite Hf.
  destruct (ws_init st) eqn:Ei.
  - rewrite Hs, Hst, map_app, cut_app by (destruct (datas ms2); [contradiction | discriminate]).
    destruct (cut_total (datas ms2) (c ++ concat (datas ms2))) as [sl [Hc Hsn]];
      [rewrite app_length; lia|].
    rewrite Hc. simpl. rewrite info_app, (assign_app ms1 (info ms2) sl (no_crc_app_l _ _ Hn)).
    destruct (assign_total ms2 sl) as [tail [Ht Hnm]].
    { intros m Hm; apply Hn; apply in_or_app; right; exact Hm. }
    { rewrite <- (map_length snd sl), Hsn, map_length. reflexivity. }
    rewrite Ht. exists tail. split; [reflexivity | exact Hnm].
  - destruct ms2; [contradiction | ]. specialize (Hi eq_refl). destruct ms1; discriminate.
Qed.

Lemma gsynced_fail_clean : forall st ms1 c ms2 i, gsynced st ms1 c ms2 -> (i = ws_init st \/ i = true) ->
  gsynced (fail_state st i []) ms1 c ms2.
Proof.
  intros st ms1 c ms2 i [Hp Hd Hs Hst Hi] Hii. constructor; simpl; auto.
  - rewrite app_nil_r. exact Hst.
  - destruct Hii as [-> | ->]; [exact Hi | discriminate].
Qed.

Lemma gsynced_ok : forall st ms1 c ms2 f' f, gsynced st ms1 c ms2 ->
  w_name f' = w_name f -> w_kind f' = w_kind f -> w_data f' = w_data f ->
  gsynced (ok_state st f' f) ms1 c (ms2 ++ [full_member f]).
Proof.
  intros st ms1 c ms2 f' f [Hp Hd Hs Hst Hi] Hn Hk Hda.
  assert (Hfm : full_member f' = full_member f) by (unfold full_member, is_dir; rewrite Hn, Hk, Hda; reflexivity).
  constructor; simpl.
  - reflexivity.
  - rewrite map_app, Hd. simpl. rewrite Hfm, app_assoc. reflexivity.
  - rewrite Hs, datas_app, app_assoc, (map_app sub_of (datas ms1 ++ datas ms2)). f_equal.
    unfold sub_list, full_member. destruct (is_dir f); reflexivity.
  - rewrite Hst, datas_app, concat_app, <- !app_assoc. do 3 f_equal.
    unfold byte_list, full_member. destruct (is_dir f); simpl; rewrite ?app_nil_r; reflexivity.
  - discriminate.
Qed.

Lemma call_gsynced : forall st ms1 c ms2 a s,
  gsynced st ms1 c ms2 -> dirty a s = false ->
  exists st', api_step a st s = (st', expected_out (OCall a s)) /\
              gsynced st' ms1 c (ms2 ++ expected (OCall a s)).
Proof.
  intros st ms1 c ms2 a s Hg Hd. pose proof (api_step_spec st a s (gs_pend _ _ _ _ Hg)) as Hs.
  simpl in *. destruct (fires a s).
  - destruct Hs as [i [c' [E [Hii Hc]]]]. rewrite (Hc Hd) in E. eexists. split; [exact E|].
    rewrite app_nil_r. apply gsynced_fail_clean; assumption.
  - destruct Hs as [f' [E [Hn [Hk Hda]]]]. eexists. split; [exact E|]. apply gsynced_ok; assumption.
Qed.

Lemma loop_gsynced : forall dr l st ms1 c ms2,
  gsynced st ms1 c ms2 -> forallb (fun s => negb (dirty AWrite s)) l = true ->
  exists st', writeall_loop dr st l = (st', if existsb (stops dr) l then Raised else Returned) /\
              gsynced st' ms1 c (ms2 ++ map (fun s => full_member (file_of_src AWrite s)) (ok_prefix dr l)).
Proof.
  induction l as [|s l IH]; intros st ms1 c ms2 Hg Hcl.
  - exists st. simpl. rewrite app_nil_r. split; [reflexivity | exact Hg].
  - simpl in Hcl. apply andb_true_iff in Hcl. destruct Hcl as [Hc1 Hc2]. apply negb_true_iff in Hc1.
    pose proof (elem_spec st s (gs_pend _ _ _ _ Hg)) as Hs. cbv zeta in Hs.
    change (writeall_loop dr st (s :: l)) with
      (match elem_writeall st s with
       | (st', Raised) => if swallows dr s then writeall_loop dr st' l else (st', Raised)
       | (st', Returned) => writeall_loop dr st' l end).
    change (existsb (stops dr) (s :: l)) with (stops dr s || existsb (stops dr) l).
    change (ok_prefix dr (s :: l)) with
      (if fires AWrite s then (if swallows dr s then ok_prefix dr l else []) else s :: ok_prefix dr l).
    unfold stops at 1. destruct (fires AWrite s).
    + destruct Hs as [i [c' [E [Hii Hc]]]]. rewrite (Hc Hc1) in E. rewrite E.
      pose proof (gsynced_fail_clean _ _ _ _ i Hg Hii) as Hg'.
      destruct (swallows dr s); simpl.
      * exact (IH _ _ _ _ Hg' Hc2).
      * eexists. split; [reflexivity|]. rewrite app_nil_r. exact Hg'.
    + destruct Hs as [f' [E [Hn [Hk Hda]]]]. rewrite E. simpl orb.
      destruct (IH _ ms1 c _ (gsynced_ok _ _ _ _ _ _ Hg Hn Hk Hda) Hc2) as [st' [H2 S2]].
      exists st'. split; [exact H2|]. rewrite <- app_assoc in S2. exact S2.
Qed.

Lemma wstep_gsynced : forall st ms1 c ms2 op,
  gsynced st ms1 c ms2 -> clean_op op = true ->
  exists st', wstep st op = (st', expected_out op) /\ gsynced st' ms1 c (ms2 ++ expected op).
Proof.
  intros st ms1 c ms2 [a s | rm dr l] Hg Hc.
  - rewrite wstep_call. apply call_gsynced; [exact Hg|]. simpl in Hc. apply negb_true_iff in Hc. exact Hc.
  - simpl in *. destruct rm.
    + exists st. rewrite app_nil_r. split; [reflexivity | exact Hg].
    + apply loop_gsynced; assumption.
Qed.

Lemma run_gsynced : forall ops st ms1 c ms2,
  gsynced st ms1 c ms2 -> forallb clean_op ops = true ->
  exists st', run st ops = (st', map expected_out ops) /\ gsynced st' ms1 c (ms2 ++ flat_map expected ops).
Proof.
  induction ops as [|op ops IH]; intros st ms1 c ms2 Hg Hc.
  - exists st. simpl. rewrite app_nil_r. split; [reflexivity | exact Hg].
  - simpl in Hc. apply andb_true_iff in Hc. destruct Hc as [Hc1 Hc2].
    destruct (wstep_gsynced st ms1 c ms2 op Hg Hc1) as [st1 [H1 S1]].
    destruct (IH st1 _ _ _ S1 Hc2) as [st' [H2 S2]].
    exists st'. simpl. rewrite H1, H2. split; [reflexivity|].
    rewrite <- app_assoc in S2. exact S2.
Qed.

Lemma gsynced_st0 : gsynced st0 [] [] [].
Proof. constructor; reflexivity. Qed.

(* histories of any length over write/writestr/writef/writeall with any faults except read()
   raising after k > 0 bytes (source missing, lstat/open/readlink raising once or for good,
   arcname or argument rejected, read raising at the first byte, in any number): every failure
   reaches the caller and only those calls raise; a reader of the closed archive gets exactly the
   members of the calls that returned, in order, with their complete bytes *)
Theorem later_writes_intact : forall ops, forallb clean_op ops = true ->
  exists st, run st0 ops = (st, map expected_out ops) /\ abs st = Some (flat_map expected ops).
Proof.
  intros ops Hc. destruct (run_gsynced ops st0 [] [] [] gsynced_st0 Hc) as [st [H S]].
  exists st. split; [exact H|]. simpl in S. exact (readable_clean _ _ S).
Qed.

Lemma run_app : forall a b st, run st (a ++ b) =
  let '(st1, o1) := run st a in let '(st2, o2) := run st1 b in (st2, o1 ++ o2).
Proof.
  induction a as [|op a IH]; intros b st; simpl.
  - destruct (run st b); reflexivity.
  - destruct (wstep st op) as [st1 o]. rewrite IH. destruct (run st1 a) as [st2 o1].
    destruct (run st2 b) as [st3 o2]. reflexivity.
Qed.

(* one call fails after k > 0 bytes were read, everything else is clean: every call's outcome is
   still as expected, and as soon as a member with data is written after the failed call the
   members written before it are all present and intact (the members after it are listed, their
   bytes do not pass the check) *)
Theorem members_before_intact : forall pre a s post,
  forallb clean_op pre = true -> forallb clean_op post = true -> fires a s = true ->
  datas (flat_map expected post) <> [] ->
  exists st tail, run st0 (pre ++ OCall a s :: post) = (st, map expected_out (pre ++ OCall a s :: post)) /\
    abs st = Some (flat_map expected pre ++ tail) /\ map fst tail = map fst (flat_map expected post).
Proof.
  intros pre a s post Hpre Hpost Hf Hne.
  destruct (run_gsynced pre st0 [] [] [] gsynced_st0 Hpre) as [st1 [H1 S1]]. simpl in S1.
  pose proof (api_step_spec st1 a s (gs_pend _ _ _ _ S1)) as Hs. simpl in Hs. rewrite Hf in Hs.
  destruct Hs as [i [c [E [Hii _]]]].
  assert (S2 : gsynced (fail_state st1 i c) (flat_map expected pre) c []).
  { destruct S1 as [Hp Hd Hs Hst Hi]. simpl in *. constructor; simpl; rewrite ?app_nil_r; auto.
    - rewrite Hst. reflexivity.
    - destruct Hii as [-> | ->]; [exact Hi | discriminate]. }
  destruct (run_gsynced post _ _ _ _ S2 Hpost) as [st3 [H3 S3]]. simpl in S3.
  destruct (readable_before _ _ _ _ S3 Hne) as [tail [Ha Hn]].
  exists st3, tail. split; [|split; assumption].
  rewrite run_app, H1.
  change (run st1 (OCall a s :: post)) with
    (let '(s1, o) := wstep st1 (OCall a s) in let '(s2, os) := run s1 post in (s2, o :: os)).
  rewrite wstep_call, E, H3, map_app. simpl. rewrite Hf. reflexivity.
Qed.

(* ------------------------------------------------------------------ *)
(** * no_retry: nothing of a failed source enters the archive           *)
(* ------------------------------------------------------------------ *)

Definition from_ok_src (srcs : list (api * src)) (p : wfile * nat) : Prop :=
  exists a s, In (a, s) srcs /\ fires a s = false /\ full_member (fst p) = full_member (file_of_src a s).

Lemma from_ok_weaken : forall l1 l2 done, Forall (from_ok_src l1) done -> Forall (from_ok_src (l1 ++ l2)) done.
Proof.
  intros l1 l2 done H. eapply Forall_impl; [|exact H]. intros p [a [s [Hin H']]].
  exists a, s. split; [apply in_or_app; left; exact Hin | exact H'].
Qed.

Lemma ok_state_from : forall st f' a s srcs, Forall (from_ok_src srcs) (ws_done st) -> fires a s = false ->
  w_name f' = w_name (file_of_src a s) -> w_kind f' = w_kind (file_of_src a s) ->
  w_data f' = w_data (file_of_src a s) ->
  Forall (from_ok_src (srcs ++ [(a, s)])) (ws_done (ok_state st f' (file_of_src a s))).
Proof.
  intros st f' a s srcs H Hf Hn Hk Hd. simpl. apply Forall_app. split.
  - apply from_ok_weaken. exact H.
  - constructor; [|constructor]. exists a, s. split; [apply in_or_app; right; left; reflexivity|].
    split; [exact Hf|]. simpl. unfold full_member, is_dir. rewrite Hn, Hk, Hd. reflexivity.
Qed.

Lemma loop_from : forall dr l st st' o srcs, inv st -> Forall (from_ok_src srcs) (ws_done st) ->
  writeall_loop dr st l = (st', o) ->
  Forall (from_ok_src (srcs ++ map (fun s => (AWrite, s)) l)) (ws_done st').
Proof.
  induction l as [|s l IH]; intros st st' o srcs Hi H E; simpl in E.
  - inversion E; subst. apply from_ok_weaken. exact H.
  - pose proof (elem_spec st s (iv_pend st Hi)) as Hs. cbv zeta in Hs.
    change (map (fun s0 => (AWrite, s0)) (s :: l)) with ((AWrite, s) :: map (fun s0 => (AWrite, s0)) l).
    destruct (fires AWrite s) eqn:Ef.
    + destruct Hs as [i [c [E1 [Hii _]]]]. rewrite E1 in E.
      destruct (swallows dr s).
      * assert (H' : Forall (from_ok_src (srcs ++ [(AWrite, s)])) (ws_done (fail_state st i c)))
          by (simpl; apply from_ok_weaken; exact H).
        pose proof (IH _ _ _ _ (inv_fail st i c Hi Hii) H' E) as H2.
        rewrite <- app_assoc in H2. exact H2.
      * inversion E; subst. apply (from_ok_weaken srcs). exact H.
    + destruct Hs as [f' [E1 [Hn [Hk Hd]]]]. rewrite E1 in E.
      pose proof (ok_state_from st f' AWrite s srcs H Ef Hn Hk Hd) as H'.
      pose proof (IH _ _ _ _ (inv_ok st f' _ Hi Hk Hd) H' E) as H2.
      rewrite <- app_assoc in H2. exact H2.
Qed.

Lemma run_from : forall ops st st' outs srcs, inv st -> Forall (from_ok_src srcs) (ws_done st) ->
  run st ops = (st', outs) -> Forall (from_ok_src (srcs ++ flat_map op_srcs ops)) (ws_done st').
Proof.
  induction ops as [|op ops IH]; intros st st' outs srcs Hi H E; simpl in E.
  - inversion E; subst. apply from_ok_weaken. exact H.
  - destruct (wstep st op) as [st1 o] eqn:E1. destruct (run st1 ops) as [st2 os] eqn:E2.
    inversion E; subst. simpl. rewrite app_assoc. eapply IH; [eapply inv_wstep; eauto | | exact E2].
    destruct op as [a s | rm dr l].
    + rewrite wstep_call in E1. pose proof (api_step_spec st a s (iv_pend st Hi)) as Hs. simpl in Hs.
      destruct (fires a s) eqn:Ef.
      * destruct Hs as [i [c [E3 _]]]. rewrite E3 in E1. inversion E1; subst. simpl.
        apply from_ok_weaken. exact H.
      * destruct Hs as [f' [E3 [Hn [Hk Hd]]]]. rewrite E3 in E1. inversion E1; subst.
        apply ok_state_from; assumption.
    + simpl in E1. destruct rm.
      * inversion E1; subst. apply from_ok_weaken. exact H.
      * eapply loop_from; eauto.
Qed.

(* ANY history, ANY faults: every entry of the closed archive's header was registered by a call
   (or writeall member) whose fault did not fire, i.e. that returned; no source is touched twice *)
Theorem no_retry : forall ops st outs, run st0 ops = (st, outs) ->
  ws_pend st = [] /\
  forall f, In f (ws_files st) -> exists a s, In (a, s) (flat_map op_srcs ops) /\ fires a s = false /\
                                               full_member f = full_member (file_of_src a s).
Proof.
  intros ops st outs H. pose proof (inv_run _ _ _ _ inv_st0 H) as Hi.
  split; [exact (iv_pend st Hi)|].
  pose proof (run_from ops st0 st outs [] inv_st0 (Forall_nil _) H) as Hf. simpl in Hf.
  intros f Hin. unfold ws_files in Hin. rewrite (iv_pend st Hi), app_nil_r in Hin.
  apply in_map_iff in Hin. destruct Hin as [p [<- Hp]]. rewrite Forall_forall in Hf. exact (Hf p Hp).
Qed.

(* writeall: a member's failure always reaches the caller, except the one case the code filters
   on purpose: an ELOOP error under dereference=True *)
Theorem writeall_failure_reaches_caller : forall dr l st, reachable st ->
  existsb (stops dr) l = true -> snd (wstep st (OWriteall false dr l)) = Raised.
Proof.
  intros dr l st Hr. pose proof (reachable_inv st Hr) as Hi. clear Hr. simpl.
  revert st Hi. induction l as [|s l IH]; intros st Hi Hex; [discriminate|].
  simpl in Hex. pose proof (elem_spec st s (iv_pend st Hi)) as Hs. cbv zeta in Hs.
  change (writeall_loop dr st (s :: l)) with
    (match elem_writeall st s with
     | (st', Raised) => if swallows dr s then writeall_loop dr st' l else (st', Raised)
     | (st', Returned) => writeall_loop dr st' l end).
  unfold stops in Hex at 1. destruct (fires AWrite s).
  - destruct Hs as [i [c [E [Hii _]]]]. rewrite E. destruct (swallows dr s); simpl in Hex.
    + apply IH; [apply inv_fail; assumption | exact Hex].
    + reflexivity.
  - destruct Hs as [f' [E [_ [Hk Hd]]]]. rewrite E. simpl in Hex.
    apply IH; [apply inv_ok; assumption | exact Hex].
Qed.

Lemma stops_not_eloop : forall dr s, fires AWrite s = true -> s_eloop s = false -> stops dr s = true.
Proof. intros dr s Hf He. unfold stops, swallows. rewrite Hf, He, andb_false_r. reflexivity. Qed.

Lemma stops_no_deref : forall s, fires AWrite s = true -> stops false s = true.
Proof. intros s Hf. unfold stops, swallows. rewrite Hf. reflexivity. Qed.

(* ------------------------------------------------------------------ *)
(** * Whatever failed: a member that passes its check has the right bytes *)
(* ------------------------------------------------------------------ *)

Section Injective.
Hypothesis dg_inj : forall x y, dg x = dg y -> x = y.

Lemma assign_match : forall fl (sl : list (bytes * D)) ms,
  map snd sl = map dg (fulldatas fl) -> assign (map (fun f => (w_name f, is_dir f)) fl) sl = Some ms ->
  Forall2 right_or_crc fl ms.
Proof.
  induction fl as [|f fl IH]; intros sl ms Hc Ha.
  - simpl in Ha. destruct sl; [|discriminate]. inversion Ha. constructor.
  - simpl in Ha. unfold fulldatas in Hc. simpl in Hc. fold (fulldatas fl) in Hc.
    destruct (is_dir f) eqn:Ed.
    + destruct (assign _ sl) as [ms'|] eqn:E; [|discriminate]. inversion Ha; subst.
      constructor; [|exact (IH _ _ Hc E)].
      split; [reflexivity|]. left. unfold full_member. rewrite Ed. reflexivity.
    + destruct sl as [|[bs c] sl]; [discriminate|]. simpl in Hc. injection Hc as Hc1 Hc2.
      destruct (assign _ sl) as [ms'|] eqn:E; [|discriminate]. inversion Ha; subst.
      constructor; [|exact (IH _ _ Hc2 E)].
      split; [reflexivity|]. simpl. destruct (deq (dg bs) (dg (w_data f))) eqn:Eq.
      * left. apply deq_spec in Eq. apply dg_inj in Eq. subst bs. unfold full_member. rewrite Ed. reflexivity.
      * right. reflexivity.
Qed.

Lemma cut_digests : forall (subs : list (nat * D)) stream sl, cut subs stream = Some sl -> map snd sl = map snd subs.
Proof.
  induction subs as [|[n c] r IH]; intros stream sl H.
  - inversion H; reflexivity.
  - destruct r as [|x r'].
    + inversion H; reflexivity.
    + rewrite cut_cons in H by discriminate.
      destruct (n <=? length stream)%nat; [|discriminate].
      destruct (cut (x :: r') (skipn n stream)) as [sl'|] eqn:E; [|discriminate].
      inversion H; subst. simpl. rewrite (IH _ _ E). reflexivity.
Qed.

(* ANY history with ANY faults (including sources failing after k > 0 bytes, any number of times):
   if the closed archive can be read, every entry is a member some call registered, and for each
   the reader gets either the complete bytes of its source or a check failure -- never other bytes *)
Theorem midway_member_right : forall ops st outs ms,
  run st0 ops = (st, outs) -> abs st = Some ms -> Forall2 right_or_crc (ws_files st) ms.
Proof.
  intros ops st outs ms H Ha. pose proof (inv_run _ _ _ _ inv_st0 H) as [H1 H2 H3 H4].
  unfold WSession.abs, WSession.readable, wclose in Ha. simpl in Ha.
  unfold ws_files in *. rewrite H1, app_nil_r in *.
  destruct (ws_init st) eqn:Ei.
  - destruct (cut (ws_subs st) (ws_stream st)) as [sl|] eqn:Ec; [|discriminate].
    apply (assign_match _ sl); [|exact Ha].
    rewrite (cut_digests _ _ _ Ec), H3, map_map. reflexivity.
  - rewrite (H4 eq_refl) in *. simpl in Ha. inversion Ha. constructor.
Qed.

Lemma all_pass_cons : forall m ms, all_pass (m :: ms) = true -> is_crc m = false /\ all_pass ms = true.
Proof.
  intros m ms H. unfold all_pass in *. simpl in H. apply negb_true_iff in H.
  apply orb_false_iff in H. destruct H as [H1 H2]. rewrite H2. auto.
Qed.

Theorem midway_failure_not_wrong : forall ops st outs ms,
  run st0 ops = (st, outs) -> abs st = Some ms -> all_pass ms = true ->
  ms = map full_member (ws_files st).
Proof.
  intros ops st outs ms H Ha Hp. pose proof (midway_member_right ops st outs ms H Ha) as HF.
  clear -HF Hp. induction HF as [|f m fl ms' [Hn Hm] HF IH]; [reflexivity|].
  apply all_pass_cons in Hp. destruct Hp as [Hc Hp]. simpl. rewrite <- (IH Hp). f_equal.
  destruct m as [n r]. simpl in *. subst n. destruct Hm as [-> | ->].
  - unfold full_member. reflexivity.
  - discriminate.
Qed.
End Injective.

End Proofs.

(* ------------------------------------------------------------------ *)
(** * Instances: the hypotheses are satisfiable; CRC-32 corollaries     *)
(* ------------------------------------------------------------------ *)

Definition bytes_eqb (a b : bytes) : bool := if list_eq_dec Z.eq_dec a b then true else false.

Lemma bytes_eqb_spec : forall a b, bytes_eqb a b = true <-> a = b.
Proof. intros a b. unfold bytes_eqb. destruct (list_eq_dec Z.eq_dec a b); split; auto; discriminate. Qed.

(* an injective digest with a decidable equality exists: the identity *)
Lemma hyps_satisfiable : exists (D : Type) (dg : bytes -> D) (deq : D -> D -> bool),
  (forall a b, deq a b = true <-> a = b) /\ (forall x y, dg x = dg y -> x = y).
Proof. exists bytes, (fun x => x), bytes_eqb. split; [exact bytes_eqb_spec | auto]. Qed.

Lemma zeqb_spec : forall a b : Z, Z.eqb a b = true <-> a = b.
Proof. intros. apply Z.eqb_eq. Qed.

Definition wstep32 := @wstep Z crc32.

Corollary later_writes_intact_crc32 : forall ops, forallb clean_op ops = true ->
  exists st, run32 st0 ops = (st, map expected_out ops) /\ abs32 st = Some (flat_map expected ops).
Proof. exact (later_writes_intact crc32 Z.eqb zeqb_spec). Qed.

(* ------------------------------------------------------------------ *)
(** * Concrete histories (executable instance, CRC-32)                  *)
(* ------------------------------------------------------------------ *)

Definition sx := mkSrc 0 KData [88; 88] None false.
Definition sw := mkSrc 9 KData [87; 87; 87] None false.
Definition sy := mkSrc 4 KData [89; 89; 89] None false.
Definition sb := mkSrc 2 KFile [66; 66; 66] None false.
Definition sdir := mkSrc 3 KDir [] None false.
Definition slink := mkSrc 5 KLink [116] None false.
Definition sa_open (sticky : bool) := mkSrc 1 KFile [65; 65; 65; 65] (Some (mkFault FOpen sticky)) false.
Definition sa_read (k : nat) (sticky : bool) :=
  mkSrc 1 KData [65; 65; 65; 65; 65; 65; 65; 65] (Some (mkFault (FRead k) sticky)) false.
Definition s_missing := mkSrc 6 KFile [67] (Some (mkFault FStat true)) false.
Definition s_badname := mkSrc 7 KData [68] (Some (mkFault FName true)) false.
Definition s_dangling := mkSrc 8 KLink [110] (Some (mkFault FOpen true)) false.

(* what remains after a source failed midway: the k bytes stay in the folder.  When nothing with
   data is written afterwards, the LAST member written before the failed call absorbs them (the
   size of the last sub-stream of a folder is implied) and fails its check; the others are intact *)
Definition ops_midway_last := [OCall AWritestr sx; OCall AWritestr sw; OCall AWritef (sa_read 3 false); OCall AWrite sdir].
Theorem member_before_midway_failure_refuted :
  forallb clean_op [OCall AWritestr sx; OCall AWritestr sw] = true /\
  snd (run32 st0 ops_midway_last) = [Returned; Returned; Raised; Returned] /\
  ws_garb (fst (run32 st0 ops_midway_last)) = 3%nat /\
  abs32 (fst (run32 st0 ops_midway_last)) = Some [(0, MData [88; 88]); (9, MCrc); (3, MDir)].
Proof. vm_compute. repeat split; reflexivity. Qed.

(* when a member with data follows, the members before are intact and the ones after fail their check *)
Definition ops_midway := [OCall AWritestr sx; OCall AWritestr sw; OCall AWritef (sa_read 3 false);
                          OCall AWritestr sy; OCall AWrite sdir].
Theorem midway_failure_example :
  snd (run32 st0 ops_midway) = [Returned; Returned; Raised; Returned; Returned] /\
  map (fun f => (w_name f, w_data f)) (ws_files (fst (run32 st0 ops_midway))) =
    [(0, [88; 88]); (9, [87; 87; 87]); (4, [89; 89; 89]); (3, [])] /\
  abs32 (fst (run32 st0 ops_midway)) =
    Some [(0, MData [88; 88]); (9, MData [87; 87; 87]); (4, MCrc); (3, MDir)].
Proof. vm_compute. repeat split; reflexivity. Qed.

(* non-vacuity of the positive theorems; these are the histories that poisoned the archive before the repair *)
Example later_writes_intact_example :
  let ops := [OCall AWritestr sx; OCall AWrite (sa_open true); OCall AWrite slink; OCall AWrite s_missing;
              OCall AWritef s_badname; OCall AWrite s_dangling; OCall AWritef (sa_read 0 false);
              OWriteall false false [sdir; sb; sa_open false; sy];
              OWriteall true false [sdir]; OCall AWritef sy] in
  forallb clean_op ops = true /\
  snd (run32 st0 ops) = [Returned; Raised; Returned; Raised; Raised; Raised; Raised; Raised; Raised; Returned] /\
  abs32 (fst (run32 st0 ops)) =
    Some [(0, MData [88; 88]); (5, MData [116]); (3, MDir); (2, MData [66; 66; 66]); (4, MData [89; 89; 89])].
Proof. vm_compute. repeat split; reflexivity. Qed.

(* the except clause of _writeall: an ELOOP failure is skipped under dereference=True only *)
Definition s_eloop_open := mkSrc 10 KFile [70] (Some (mkFault FOpen true)) true.
Example writeall_eloop_example :
  let tree := [sdir; sb; s_eloop_open; sy] in
  snd (run32 st0 [OWriteall false true tree]) = [Returned] /\
  abs32 (fst (run32 st0 [OWriteall false true tree])) = Some [(3, MDir); (2, MData [66; 66; 66]); (4, MData [89; 89; 89])] /\
  snd (run32 st0 [OWriteall false false tree]) = [Raised] /\
  abs32 (fst (run32 st0 [OWriteall false false tree])) = Some [(3, MDir); (2, MData [66; 66; 66])] /\
  snd (run32 st0 [OWriteall false true [sdir; sb; sa_open true; sy]]) = [Raised] /\
  existsb (stops true) [sdir; sb; sa_open true; sy] = true /\ existsb (stops true) tree = false.
Proof. vm_compute. repeat split; reflexivity. Qed.

Lemma reachable_run : forall ops, reachable crc32 (fst (run32 st0 ops)).
Proof. intros ops. exists ops, (snd (run32 st0 ops)). unfold run32. destruct (run crc32 st0 ops); reflexivity. Qed.

Example failed_call_no_effect_example :
  let st := fst (run32 st0 [OCall AWritestr sx]) in
  fires AWrite (sa_open true) = true /\ dirty AWrite (sa_open true) = false /\
  wstep32 st (OCall AWrite (sa_open true)) = (st, Raised) /\
  wstep32 st0 (OCall AWrite (sa_open false)) = (set_init st0, Raised) /\ set_init (D:=Z) st0 <> st0 /\
  abs32 (set_init st0) = Some [] /\ abs32 st0 = Some [] /\
  fires AWritef (sa_read 3 true) = true /\ dirty AWritef (sa_read 3 true) = true /\
  fires AWritestr (sa_read 3 true) = false /\ fires AWrite (mkSrc 3 KDir [] (Some (mkFault FOpen true)) false) = false.
Proof. vm_compute. repeat split; try reflexivity. discriminate. Qed.

Example members_before_intact_example :
  forallb clean_op [OCall AWritestr sx; OCall AWritestr sw] = true /\
  forallb clean_op [OCall AWritestr sy; OCall AWrite sdir] = true /\
  fires AWritef (sa_read 3 false) = true /\
  flat_map expected [OCall AWritestr sy; OCall AWrite sdir] = [(4, MData [89; 89; 89]); (3, MDir)].
Proof. vm_compute. repeat split; reflexivity. Qed.
