(* FilesGen.v -- the FilesInfo pieces (names, times, attributes) and read_utf16 / write_utf16 as generated from
   py7zr/archiveinfo.py (gen/ArchiveinfoRecords.v) are Header.v's rd_utf16 / wr_utf16 / rd_names / rd_per_file /
   write_names / write_times / write_attributes, on all inputs. *)
From P7 Require Import Prelude PyPrims PyStr PyRe PyTac Number NumberGen BoolVec BoolVecGen Header HeaderPrims HeaderGenPrims PackInfoGen
  FolderGen SubstreamsGen.
From P7gen Require Import ArchiveinfoPrims ArchiveinfoRecords.
From Coq Require Import ZifyBool ZifyNat.
Open Scope Z_scope.

(* ------------------------------------------------------------------ the UTF-16 primitives of PyStr.v are Header.v's *)
Lemma py_utf16_units_eq bs : py_utf16_units bs = utf16_units bs.
Proof. reflexivity. Qed.
Lemma py_utf16_points_eq us : py_utf16_points us = utf16_decode us.
Proof. reflexivity. Qed.
Lemma py_encode_char_eq c : py_encode_utf16le_char c = utf16_enc_char c.
Proof. reflexivity. Qed.
Lemma py_encode_utf16le_eq s : py_encode_utf16le s = wr_list utf16_enc_char s.
Proof. induction s as [|c s IH]; cbn [py_encode_utf16le wr_list]; [reflexivity|]. now rewrite IH. Qed.
Lemma py_replace_backslash s : py_replace_char s 92 47 = map fix_backslash s.
Proof. reflexivity. Qed.

(* ------------------------------------------------------------------ read_utf16 *)
Lemma gen_utf16_loop (body : Z -> bytes * bytes -> res ((bytes * bytes) * bool)) :
  (forall x val inp, body x (val, inp) =
     let '(t1, inp) := rd_read inp 2 in
     if bytes_eqb t1 [0; 0] then Ok ((val, inp), true)
     else if py_len t1 <? 2 then Ok ((val ++ t1, inp), true) else Ok ((val ++ t1, inp), false)) ->
  forall (xs : list Z) fuel iters acc bs, (length bs < fuel)%nat -> iters + Z.of_nat (length xs) = 65536 ->
  for_m xs body (acc, bs) = rd_utf16_raw fuel iters acc bs.
Proof.
  intros Hb. induction xs as [|x xs IH]; intros fuel iters acc bs Hf Hi; (destruct fuel as [|f]; [lia|]); cbn [length] in Hi.
  - cbn [for_m rd_utf16_raw]. replace (65536 <=? iters) with true by lia. reflexivity.
  - cbn [for_m rd_utf16_raw]. replace (65536 <=? iters) with false by lia. rewrite Hb.
    destruct bs as [|a [|b r]].
    + assert (Hr : rd_read [] 2 = ([], [])) by reflexivity. rewrite Hr. cbv iota. cbn [bytes_eqb py_len length Z.of_nat].
      change (0 <? 2) with true. cbv iota. now rewrite app_nil_r.
    + assert (Hr : rd_read [a] 2 = ([a], [])) by reflexivity. rewrite Hr. cbv iota. cbn [bytes_eqb]. rewrite andb_false_r.
      replace (py_len [a] <? 2) with true by reflexivity. cbv iota. destruct a; reflexivity.
    + assert (Hr : rd_read (a :: b :: r) 2 = ([a; b], r)) by reflexivity. rewrite Hr. cbv iota.
      cbn [bytes_eqb]. rewrite andb_true_r.
      replace (py_len [a; b] <? 2) with false by reflexivity.
      destruct a as [|pa|pa]; [destruct b as [|pb|pb]|..]; cbn [Z.eqb andb]; cbv iota; try reflexivity;
        (apply IH; [cbn [length] in Hf; lia | lia]).
Qed.

(* read_utf16 does not replace the backslashes (FilesInfo._read_name does): rd_utf16 without the last step *)
Definition rd_utf16_plain : reader (list Z) := fun bs =>
  do (raw, r) <- rd_utf16_raw (S (length bs)) 0 [] bs;
  do us <- utf16_units raw;
  do cs <- utf16_decode us;
  Ok (cs, r).
Lemma rd_utf16_plain_fix bs : rd_utf16 bs = (do (cs, r) <- rd_utf16_plain bs; Ok (map fix_backslash cs, r)).
Proof.
  unfold rd_utf16, rd_utf16_plain. destruct (rd_utf16_raw _ _ _ _) as [[raw r]|e]; cbn [bind]; [|reflexivity].
  destruct (utf16_units raw) as [us|e]; cbn [bind]; [|reflexivity]. destruct (utf16_decode us); reflexivity.
Qed.

Theorem gen_read_utf16 bs : read_utf16 bs = rd_utf16_plain bs.
Proof.
  unfold read_utf16, rd_utf16_plain. cbv zeta.
  rewrite gen_utf16_loop with (fuel := S (length bs)) (iters := 0);
    [|intros; reflexivity|lia|rewrite py_range_length; reflexivity].
  destruct (rd_utf16_raw (S (length bs)) 0 [] bs) as [[raw r]|e]; cbn [bind]; [|reflexivity].
  unfold py_decode_utf16le. change (py_utf16_units raw) with (utf16_units raw).
  destruct (utf16_units raw) as [us|e]; cbn [bind]; [|reflexivity].
  change (py_utf16_points us) with (utf16_decode us). destruct (utf16_decode us); reflexivity.
Qed.

Theorem gen_write_utf16 s : write_utf16 s = wr_utf16 s.
Proof.
  unfold write_utf16, wr_utf16. cbv zeta.
  rewrite (gen_write_loop_body utf16_enc_char); [|intros; reflexivity].
  destruct (wr_list utf16_enc_char s) as [b|e]; reflexivity.
Qed.

(* ------------------------------------------------------------------ the entries: generated record -> model record
   (the model keeps the EmptyFile bits in a separate list, the code keeps each with its entry as well) *)
Definition file_of (f : FileEntry) : fileent :=
  mkFile (FileEntry_emptystream f) (FileEntry_filename f) (FileEntry_creationtime f) (FileEntry_lastaccesstime f)
         (FileEntry_lastwritetime f) (FileEntry_attributes f).
Definition set_name_g (f : FileEntry) (n : list Z) : FileEntry :=
  mkFileEntry (FileEntry_emptystream f) (FileEntry_emptyfile f) (Some n) (FileEntry_creationtime f) (FileEntry_lastaccesstime f)
              (FileEntry_lastwritetime f) (FileEntry_attributes f).
Definition set_attr_g (f : FileEntry) (a : option Z) : FileEntry :=
  mkFileEntry (FileEntry_emptystream f) (FileEntry_emptyfile f) (FileEntry_filename f) (FileEntry_creationtime f)
              (FileEntry_lastaccesstime f) (FileEntry_lastwritetime f) (Some a).
Definition set_time_g (which : Z) (f : FileEntry) (t : option Z) : FileEntry :=
  if which =? 18 then mkFileEntry (FileEntry_emptystream f) (FileEntry_emptyfile f) (FileEntry_filename f) (Some t)
                                  (FileEntry_lastaccesstime f) (FileEntry_lastwritetime f) (FileEntry_attributes f)
  else if which =? 19 then mkFileEntry (FileEntry_emptystream f) (FileEntry_emptyfile f) (FileEntry_filename f)
                                  (FileEntry_creationtime f) (Some t) (FileEntry_lastwritetime f) (FileEntry_attributes f)
  else mkFileEntry (FileEntry_emptystream f) (FileEntry_emptyfile f) (FileEntry_filename f) (FileEntry_creationtime f)
                   (FileEntry_lastaccesstime f) (Some t) (FileEntry_attributes f).
Lemma file_of_set_name f n : file_of (set_name_g f n) = set_name (file_of f) n.
Proof. reflexivity. Qed.
Lemma file_of_set_attr f a : file_of (set_attr_g f a) = set_attr (file_of f) a.
Proof. reflexivity. Qed.
Lemma file_of_set_time w f t : file_of (set_time_g w f t) = set_time w (file_of f) t.
Proof. unfold set_time_g, set_time. destruct (w =? 18); [reflexivity|]. destruct (w =? 19); reflexivity. Qed.

(* the generated form of rd_names / rd_per_file over the objects: same reads, the object-level setter *)
Fixpoint rd_names_g (fs : list FileEntry) : reader (list FileEntry) := fun bs =>
  match fs with
  | [] => Ok ([], bs)
  | f :: r => do (nm, bs) <- rd_utf16 bs; do (r', bs) <- rd_names_g r bs; Ok (set_name_g f nm :: r', bs)
  end.
Lemma rd_names_g_model fs : forall bs,
  (do (l, r) <- rd_names_g fs bs; Ok (map file_of l, r)) = rd_names (map file_of fs) bs.
Proof.
  induction fs as [|f fs IH]; intros bs; cbn [rd_names_g rd_names map bind]; [reflexivity|].
  destruct (rd_utf16 bs) as [[nm b1]|e]; cbn [bind]; [|reflexivity]. rewrite <- IH.
  destruct (rd_names_g fs b1) as [[l r]|e]; reflexivity.
Qed.

Fixpoint rd_per_file_g (n : nat) (fs : list FileEntry) (defined : list bool) (set : FileEntry -> option Z -> FileEntry)
  : reader (list FileEntry) := fun bs =>
  match fs with
  | [] => Ok ([], bs)
  | f :: r =>
      match defined with
      | [] => Err EOther
      | true :: ds => do (v, bs) <- rd_fixed n bs;
                      do (r', bs) <- rd_per_file_g n r ds set bs; Ok (set f (Some v) :: r', bs)
      | false :: ds => do (r', bs) <- rd_per_file_g n r ds set bs; Ok (set f None :: r', bs)
      end
  end.
Lemma rd_per_file_g_model n (setg : FileEntry -> option Z -> FileEntry) (setm : fileent -> option Z -> fileent) :
  (forall f v, file_of (setg f v) = setm (file_of f) v) ->
  forall fs defined bs,
  (do (l, r) <- rd_per_file_g n fs defined setg bs; Ok (map file_of l, r)) = rd_per_file n (map file_of fs) defined setm bs.
Proof.
  intros Hs. induction fs as [|f fs IH]; intros defined bs; cbn [rd_per_file_g rd_per_file map bind]; [reflexivity|].
  destruct defined as [|[|] ds]; [reflexivity| |].
  - destruct (rd_fixed n bs) as [[v b1]|e]; cbn [bind]; [|reflexivity]. rewrite <- IH.
    destruct (rd_per_file_g n fs ds setg b1) as [[l r]|e]; cbn [bind map]; [|reflexivity]. now rewrite Hs.
  - rewrite <- IH. destruct (rd_per_file_g n fs ds setg bs) as [[l r]|e]; cbn [bind map]; [|reflexivity]. now rewrite Hs.
Qed.

(* ------------------------------------------------------------------ FilesInfo._read_name *)
Lemma gen_names_loop (body : FileEntry -> list FileEntry * bytes -> res ((list FileEntry * bytes) * bool)) :
  (forall f acc inp, body f (acc, inp) =
     do t1r <- read_utf16 inp; let '(t1, inp) := t1r in
     Ok ((acc ++ [set_name_g f (py_replace_char t1 92 47)], inp), false)) ->
  forall fs acc bs, for_m fs body (acc, bs) = (do (l, r) <- rd_names_g fs bs; Ok (acc ++ l, r)).
Proof.
  intros Hb. induction fs as [|f fs IH]; intros acc bs; cbn [for_m rd_names_g bind]; [now rewrite app_nil_r|].
  rewrite Hb, gen_read_utf16, rd_utf16_plain_fix. destruct (rd_utf16_plain bs) as [[cs b1]|e]; cbn [bind]; [|reflexivity].
  rewrite IH, py_replace_backslash. destruct (rd_names_g fs b1) as [[l r]|e]; cbn [bind]; [|reflexivity].
  now rewrite <- app_assoc.
Qed.

Theorem gen_FilesInfo_read_name (self : FilesInfo) bs :
  FilesInfo_read_name self bs
  = (do (l, r) <- rd_names_g (FilesInfo_files self) bs; Ok (mkFilesInfo l (FilesInfo_emptyfiles self), r)).
Proof.
  unfold FilesInfo_read_name. cbv zeta.
  rewrite gen_names_loop; [|intros; reflexivity].
  destruct (rd_names_g (FilesInfo_files self) bs) as [[l r]|e]; reflexivity.
Qed.

Corollary gen_FilesInfo_read_name_model (self : FilesInfo) bs :
  (do (o, r) <- FilesInfo_read_name self bs; Ok (map file_of (FilesInfo_files o), FilesInfo_emptyfiles o, r))
  = (do (fs, r) <- rd_names (map file_of (FilesInfo_files self)) bs; Ok (fs, FilesInfo_emptyfiles self, r)).
Proof.
  rewrite gen_FilesInfo_read_name, <- rd_names_g_model.
  destruct (rd_names_g (FilesInfo_files self) bs) as [[l r]|e]; reflexivity.
Qed.

(* ------------------------------------------------------------------ FilesInfo._read_attributes / _read_times *)
Lemma gen_perfile_loop (n : nat) (defined : list bool) (setg : FileEntry -> option Z -> FileEntry)
      (body : Z * FileEntry -> list FileEntry * bytes -> res ((list FileEntry * bytes) * bool)) :
  (forall idx f acc inp, body (idx, f) (acc, inp) =
     do d <- py_index defined idx;
     if d then (do (v, r) <- rd_fixed n inp; Ok ((acc ++ [setg f (Some v)], r), false))
     else Ok ((acc ++ [setg f None], inp), false)) ->
  forall fs (k : nat) acc bs,
  for_m (enumerate_from (Z.of_nat k) fs) body (acc, bs)
  = (do (l, r) <- rd_per_file_g n fs (skipn k defined) setg bs; Ok (acc ++ l, r)).
Proof.
  intros Hb. induction fs as [|f fs IH]; intros k acc bs; cbn [enumerate_from for_m rd_per_file_g bind]; [now rewrite app_nil_r|].
  rewrite Hb, py_index_skipn. destruct (skipn k defined) as [|d ds] eqn:Es; cbn [bind]; [reflexivity|].
  assert (Hds : ds = skipn (S k) defined).
  { replace (S k) with (k + 1)%nat by lia. rewrite <- skipn_add, Es. reflexivity. }
  replace (Z.of_nat k + 1) with (Z.of_nat (S k)) by lia. destruct d.
  - destruct (rd_fixed n bs) as [[v b1]|e]; cbn [bind]; [|reflexivity]. rewrite IH, <- Hds.
    destruct (rd_per_file_g n fs ds setg b1) as [[l r]|e]; cbn [bind]; [|reflexivity]. now rewrite <- app_assoc.
  - rewrite IH, <- Hds. destruct (rd_per_file_g n fs ds setg bs) as [[l r]|e]; cbn [bind]; [|reflexivity]. now rewrite <- app_assoc.
Qed.

Theorem gen_FilesInfo_read_attributes (self : FilesInfo) bs defined :
  FilesInfo_read_attributes self bs defined
  = (do (l, r) <- rd_per_file_g 4 (FilesInfo_files self) defined set_attr_g bs; Ok (mkFilesInfo l (FilesInfo_emptyfiles self), r)).
Proof.
  unfold FilesInfo_read_attributes. cbv zeta. unfold py_enumerate. change 0 with (Z.of_nat 0).
  rewrite (gen_perfile_loop 4 defined set_attr_g).
  2: { intros idx f acc inp. destruct (py_index defined idx) as [[|]|e]; cbn [bind]; try reflexivity.
       rewrite gen_read_uint32_rd_fixed. destruct (rd_fixed 4 inp) as [[v r]|e]; reflexivity. }
  cbn [skipn]. destruct (rd_per_file_g 4 (FilesInfo_files self) defined set_attr_g bs) as [[l r]|e]; reflexivity.
Qed.

Corollary gen_FilesInfo_read_attributes_model (self : FilesInfo) bs defined :
  (do (o, r) <- FilesInfo_read_attributes self bs defined; Ok (map file_of (FilesInfo_files o), FilesInfo_emptyfiles o, r))
  = (do (fs, r) <- rd_per_file 4 (map file_of (FilesInfo_files self)) defined set_attr bs; Ok (fs, FilesInfo_emptyfiles self, r)).
Proof.
  rewrite gen_FilesInfo_read_attributes, <- (rd_per_file_g_model 4 set_attr_g set_attr file_of_set_attr).
  destruct (rd_per_file_g 4 (FilesInfo_files self) defined set_attr_g bs) as [[l r]|e]; reflexivity.
Qed.

(* _read_times(fp, name) for the three names the class uses: the vector of defined entries, the external flag (asserted
   to be 0), one FILETIME per defined entry *)
Definition rd_times_g (lim : Z) (which : Z) (fs : list FileEntry) : reader (list FileEntry) := fun bs =>
  do (defined, bs) <- rd_boolean lim (zlen fs) true bs;
  do (ext, bs) <- rd_pid bs;
  match ext with
  | Some 0 => rd_per_file_g 8 fs defined (set_time_g which) bs
  | _ => Err EOther
  end.

Ltac read_times_tac lim which self bs Hw :=
  cbv zeta; unfold rd_times_g; change (py_len (FilesInfo_files self)) with (zlen (FilesInfo_files self));
  destruct (rd_boolean lim (zlen (FilesInfo_files self)) true bs) as [[defined b1]|e] eqn:Eb;
  [ right; rewrite (gen_read_boolean_rd_boolean lim _ true bs Hw) by (rewrite Eb; discriminate); rewrite Eb; cbn [bind];
    destruct (gen_pid b1) as (pid & b2 & Hp1 & Hp2 & _); rewrite Hp1, Hp2; cbn [bind]; rewrite pid_bytes_eqb, match_pid_0;
    destruct pid as [p|]; [destruct (p =? 0)|]; try reflexivity;
    unfold py_enumerate; change 0 with (Z.of_nat 0);
    rewrite (gen_perfile_loop 8 defined (set_time_g which));
    [ cbn [skipn]; destruct (rd_per_file_g 8 (FilesInfo_files self) defined (set_time_g which) b2) as [[l r]|e]; reflexivity
    | intros idx f acc inp; destruct (py_index defined idx) as [[|]|e]; cbn [bind]; try reflexivity;
      rewrite gen_read_real_uint64_rd_fixed; destruct (rd_fixed 8 inp) as [[v r]|e]; reflexivity ]
  | destruct e; try (right; rewrite (gen_read_boolean_rd_boolean lim _ true bs Hw) by (rewrite Eb; discriminate);
                     rewrite Eb; reflexivity); left; reflexivity ].

Theorem gen_FilesInfo_read_times_creationtime lim (self : FilesInfo) bs : wf_bytes bs = true ->
  rd_boolean lim (zlen (FilesInfo_files self)) true bs = Err EFuel \/
  FilesInfo_read_times_creationtime self bs
  = (do (l, r) <- rd_times_g lim 18 (FilesInfo_files self) bs; Ok (mkFilesInfo l (FilesInfo_emptyfiles self), r)).
Proof. intros Hw. unfold FilesInfo_read_times_creationtime. read_times_tac lim 18 self bs Hw. Qed.

Theorem gen_FilesInfo_read_times_lastaccesstime lim (self : FilesInfo) bs : wf_bytes bs = true ->
  rd_boolean lim (zlen (FilesInfo_files self)) true bs = Err EFuel \/
  FilesInfo_read_times_lastaccesstime self bs
  = (do (l, r) <- rd_times_g lim 19 (FilesInfo_files self) bs; Ok (mkFilesInfo l (FilesInfo_emptyfiles self), r)).
Proof. intros Hw. unfold FilesInfo_read_times_lastaccesstime. read_times_tac lim 19 self bs Hw. Qed.

Theorem gen_FilesInfo_read_times_lastwritetime lim (self : FilesInfo) bs : wf_bytes bs = true ->
  rd_boolean lim (zlen (FilesInfo_files self)) true bs = Err EFuel \/
  FilesInfo_read_times_lastwritetime self bs
  = (do (l, r) <- rd_times_g lim 20 (FilesInfo_files self) bs; Ok (mkFilesInfo l (FilesInfo_emptyfiles self), r)).
Proof. intros Hw. unfold FilesInfo_read_times_lastwritetime. read_times_tac lim 20 self bs Hw. Qed.

(* rd_times_g over the objects is the times branch of the model's parse_file_prop *)
Lemma rd_times_g_model lim which fs bs : (which =? 18) || (which =? 19) || (which =? 20) = true ->
  (do (l, r) <- rd_times_g lim which fs bs; Ok (map file_of l, r))
  = (do (defined, b1) <- rd_boolean lim (zlen (map file_of fs)) true bs;
     do (ext, b2) <- rd_pid b1;
     match ext with
     | Some 0 => rd_per_file 8 (map file_of fs) defined (set_time which) b2
     | _ => Err EOther
     end).
Proof.
  intros _. unfold rd_times_g. rewrite zlen_map.
  destruct (rd_boolean lim (zlen fs) true bs) as [[defined b1]|e]; cbn [bind]; [|reflexivity].
  destruct (rd_pid b1) as [[ext b2]|e]; cbn [bind]; [|reflexivity].
  destruct ext as [[| |]|]; try reflexivity.
  exact (rd_per_file_g_model 8 (set_time_g which) (set_time which) (file_of_set_time which) fs defined b2).
Qed.

(* ------------------------------------------------------------------ the writers *)
Theorem gen_FilesInfo_are_there v : FilesInfo_are_there v = Ok (any_true v).
Proof. unfold FilesInfo_are_there. rewrite HeaderGenPrims.py_any_any_true. cbn [orb]. destruct (any_true v); reflexivity. Qed.

Definition names_g (fs : list FileEntry) : list (list Z) :=
  flat_map (fun f => match FileEntry_filename f with Some n => [n] | None => [] end) fs.
Lemma names_g_model fs : names_g fs = flat_map (fun f => match e_name f with Some n => [n] | None => [] end) (map file_of fs).
Proof. unfold names_g. induction fs as [|f fs IH]; cbn [flat_map map]; [reflexivity|]. now rewrite IH. Qed.

Lemma gen_names_count_loop (body : FileEntry -> Z * list (list Z) * Z -> res ((Z * list (list Z) * Z) * bool)) :
  (forall f nd names sz, body f (nd, names, sz) =
     if py_is_some (FileEntry_filename f) then
       do t1 <- py_unwrap (FileEntry_filename f); do t2 <- py_unwrap (FileEntry_filename f);
       do t3 <- py_encode_utf16le t2; Ok ((nd + 1, names ++ [t1], sz + (py_len t3 + 2)), false)
     else Ok ((nd, names, sz), false)) ->
  forall fs nd names sz,
  for_m fs body (nd, names, sz)
  = (do b <- wr_list wr_utf16 (names_g fs); Ok (nd + zlen (names_g fs), names ++ names_g fs, sz + zlen b)).
Proof.
  intros Hb. unfold names_g. induction fs as [|f fs IH]; intros nd names sz; cbn [for_m flat_map].
  - cbn [wr_list bind]. unfold zlen. cbn [length]. now rewrite app_nil_r, !Z.add_0_r.
  - rewrite Hb. destruct (FileEntry_filename f) as [n|]; cbn [py_is_some py_unwrap bind app wr_list].
    + rewrite py_encode_utf16le_eq. unfold wr_utf16 at 1.
      destruct (wr_list utf16_enc_char n) as [b|e]; cbn [bind]; [|reflexivity].
      rewrite IH. destruct (wr_list wr_utf16 _) as [b'|e]; cbn [bind]; [|reflexivity].
      f_equal. unfold zlen, py_len. rewrite !app_length. cbn [length]. rewrite <- app_assoc. cbn [app].
      f_equal; [f_equal; lia | lia].
    + apply IH.
Qed.

Theorem gen_FilesInfo_write_names (self : FilesInfo) :
  FilesInfo_write_names self = write_names (map file_of (FilesInfo_files self)).
Proof.
  unfold FilesInfo_write_names, write_names. cbv zeta. rewrite <- names_g_model.
  rewrite gen_names_count_loop; [|intros; reflexivity].
  remember (names_g (FilesInfo_files self)) as names eqn:En. clear En.
  destruct names as [|n0 nr]; [reflexivity|].
  match goal with |- context[@wr_list ?A ?f (n0 :: nr)] => destruct (@wr_list A f (n0 :: nr)) as [body|e] eqn:Eb end; cbn [bind]; [|reflexivity].
  replace (0 <? 0 + zlen (n0 :: nr)) with true by (unfold zlen; cbn [length]; lia).
  replace (length (n0 :: nr) =? 0)%nat with false by reflexivity.
  rewrite !gen_write_byte. cbn [bind]. rewrite gen_write_uint64_wr_number, Z.add_0_l.
  destruct (wr_number (zlen body + 1)) as [sz|e]; cbn [bind]; [|reflexivity].
  rewrite (gen_write_loop write_utf16 wr_utf16 gen_write_utf16). cbn [app]. rewrite Eb. cbn [bind]. f_equal. cbn [app]. rewrite <- ?app_assoc. reflexivity.
Qed.

(* the vector of defined entries and the values, for a key holding an optional number *)
Definition sel_defined (sel : FileEntry -> option (option Z)) (fs : list FileEntry) : list bool :=
  map (fun f => opt_defined (sel f)) fs.

Lemma gen_defined_loop (sel : FileEntry -> option (option Z)) (body : FileEntry -> list bool * Z -> res ((list bool * Z) * bool)) :
  (forall f d n, body f (d, n) = if opt_defined (sel f) then Ok ((d ++ [true], n + 1), false) else Ok ((d ++ [false], n), false)) ->
  forall fs d n, for_m fs body (d, n) = Ok (d ++ sel_defined sel fs, n + count_true (sel_defined sel fs)).
Proof.
  intros Hb. unfold sel_defined. induction fs as [|f fs IH]; intros d n; cbn [for_m map].
  - rewrite app_nil_r. unfold count_true, zlen. cbn. now rewrite Z.add_0_r.
  - rewrite Hb, count_true_cons. destruct (opt_defined (sel f)); rewrite IH, <- app_assoc; cbn [app]; do 2 f_equal; lia.
Qed.

Lemma gen_values_loop (n : nat) (sel : FileEntry -> option (option Z)) (W : Z -> res bytes) (defined : list bool)
      (body : Z * FileEntry -> bytes -> res (bytes * bool)) :
  (forall v, W v = wr_fixed n v) ->
  (forall i f out, body (i, f) out =
     do d <- py_index defined i;
     if d then do t10 <- py_unwrap (sel f); do t11 <- py_unwrap t10; do t12 <- W t11; Ok (out ++ t12, false)
     else Ok (out, false)) ->
  forall fs (k : nat) out, skipn k defined = sel_defined sel fs ->
  for_m (enumerate_from (Z.of_nat k) fs) body out
  = (do b <- wr_list (fun f => if opt_defined (sel f) then wr_fixed n (opt_value (sel f)) else Ok []) fs; Ok (out ++ b)).
Proof.
  intros HW Hb. unfold sel_defined. induction fs as [|f fs IH]; intros k out Hs; cbn [enumerate_from for_m wr_list bind].
  - now rewrite app_nil_r.
  - rewrite Hb, py_index_skipn, Hs. cbn [map bind].
    assert (Hs' : skipn (S k) defined = map (fun f0 => opt_defined (sel f0)) fs).
    { replace (S k) with (k + 1)%nat by lia. rewrite <- skipn_add, Hs. reflexivity. }
    replace (Z.of_nat k + 1) with (Z.of_nat (S k)) by lia.
    destruct (sel f) as [[v|]|]; cbn [opt_defined opt_value py_unwrap bind].
    + rewrite HW. destruct (wr_fixed n v) as [a|e]; cbn [bind]; [|reflexivity].
      rewrite (IH (S k) _ Hs'). destruct (wr_list _ fs) as [b|e]; cbn [bind]; [|reflexivity]. now rewrite app_assoc.
    + rewrite (IH (S k) _ Hs'). destruct (wr_list _ fs) as [b|e]; cbn [bind]; reflexivity.
    + rewrite (IH (S k) _ Hs'). destruct (wr_list _ fs) as [b|e]; cbn [bind]; reflexivity.
Qed.

Lemma sel_defined_model sel selm fs : (forall f, sel f = selm (file_of f)) ->
  sel_defined sel fs = map (fun f => opt_defined (selm f)) (map file_of fs).
Proof. intros H. unfold sel_defined. rewrite map_map. apply map_ext. intros f. now rewrite H. Qed.

Lemma wr_values_model n sel selm fs : (forall f, sel f = selm (file_of f)) ->
  wr_list (fun f => if opt_defined (sel f) then wr_fixed n (opt_value (sel f)) else Ok []) fs
  = wr_list (fun f => if opt_defined (selm f) then wr_fixed n (opt_value (selm f)) else Ok []) (map file_of fs).
Proof. intros H. induction fs as [|f fs IH]; cbn [wr_list map]; [reflexivity|]. now rewrite IH, H. Qed.

Theorem gen_FilesInfo_write_attributes (self : FilesInfo) :
  FilesInfo_write_attributes self = write_attributes (map file_of (FilesInfo_files self)).
Proof.
  unfold FilesInfo_write_attributes, write_attributes. cbv zeta. set (fs := FilesInfo_files self).
  rewrite (gen_defined_loop FileEntry_attributes).
  2: { intros f d n. destruct (FileEntry_attributes f) as [[v|]|]; reflexivity. }
  cbn [bind app]. rewrite Z.add_0_l.
  rewrite <- (sel_defined_model FileEntry_attributes e_attr fs ltac:(reflexivity)).
  rewrite <- (wr_values_model 4 FileEntry_attributes e_attr fs ltac:(reflexivity)).
  set (defined := sel_defined FileEntry_attributes fs).
  assert (Hlen : py_len defined = zlen fs) by (unfold defined, sel_defined, py_len, zlen; now rewrite map_length).
  rewrite Hlen, zlen_map. rewrite gen_bits_to_bytes_all.
  assert (Hsz : (do t5j <- (if negb (count_true defined =? zlen fs)
                            then do t4 <- Ok ((zlen fs + 7) / 8); Ok (count_true defined * 4 + 2 + t4)
                            else Ok (count_true defined * 4 + 2)); Ok t5j)
                = Ok (count_true defined * 4 + 2 + (if count_true defined =? zlen fs then 0 else (zlen fs + 7) / 8))).
  { destruct (count_true defined =? zlen fs); cbn [negb bind]; [now rewrite Z.add_0_r | reflexivity]. }
  destruct (count_true defined =? zlen fs) eqn:Ec; cbn [negb bind]; rewrite !gen_write_byte; cbn [bind];
    rewrite gen_write_uint64_wr_number, ?Z.add_0_r;
    (destruct (wr_number _) as [sz|e]; cbn [bind]; [|reflexivity]);
    rewrite gen_write_boolean_wr_boolean; cbn [bind];
    unfold py_enumerate; change 0 with (Z.of_nat 0);
    (rewrite (gen_values_loop 4 FileEntry_attributes write_uint32 defined _ gen_write_uint32_wr_fixed);
      [|intros; reflexivity|reflexivity]);
    (destruct (wr_list _ fs) as [vals|e]; cbn [bind]; [|reflexivity]);
    f_equal; cbn [app]; rewrite <- ?app_assoc; reflexivity.
Qed.

Ltac write_times_tac self sel selm :=
  cbv zeta; set (fs := FilesInfo_files self);
  rewrite gen_write_byte; cbn [bind];
  rewrite (gen_defined_loop sel);
  [| let f := fresh in let d := fresh in let n := fresh in
     intros f d n; destruct (sel f) as [[?|]|]; reflexivity ];
  cbn [bind app]; rewrite Z.add_0_l;
  rewrite <- (sel_defined_model sel selm fs ltac:(reflexivity));
  rewrite <- (wr_values_model 8 sel selm fs ltac:(reflexivity));
  set (defined := sel_defined sel fs);
  assert (Hlen : py_len defined = zlen fs) by (unfold defined, sel_defined, py_len, zlen; now rewrite map_length);
  rewrite Hlen, zlen_map, gen_bits_to_bytes_all, BoolVecGen.py_all_forallb; cbn [andb];
  change (forallb id defined) with (all_true defined);
  destruct (all_true defined); cbn [negb bind];
    rewrite gen_write_uint64_wr_number, ?Z.add_0_r;
    (destruct (wr_number _) as [sz|e]; cbn [bind]; [|reflexivity]);
    rewrite gen_write_boolean_wr_boolean; cbn [bind]; rewrite gen_write_byte; cbn [bind];
    unfold py_enumerate; change 0 with (Z.of_nat 0);
    (rewrite (gen_values_loop 8 sel write_real_uint64 defined _ gen_write_real_uint64_wr_fixed);
      [|intros; reflexivity|reflexivity]);
    (destruct (wr_list _ fs) as [vals|e]; cbn [bind]; [|reflexivity]);
    f_equal; cbn [app]; rewrite <- ?app_assoc; reflexivity.

Theorem gen_FilesInfo_write_times_creationtime (self : FilesInfo) p :
  FilesInfo_write_times_creationtime self [p] = write_times p e_ctime (map file_of (FilesInfo_files self)).
Proof. unfold FilesInfo_write_times_creationtime, write_times. write_times_tac self FileEntry_creationtime e_ctime. Qed.

Theorem gen_FilesInfo_write_times_lastaccesstime (self : FilesInfo) p :
  FilesInfo_write_times_lastaccesstime self [p] = write_times p e_atime (map file_of (FilesInfo_files self)).
Proof. unfold FilesInfo_write_times_lastaccesstime, write_times. write_times_tac self FileEntry_lastaccesstime e_atime. Qed.

Theorem gen_FilesInfo_write_times_lastwritetime (self : FilesInfo) p :
  FilesInfo_write_times_lastwritetime self [p] = write_times p e_mtime (map file_of (FilesInfo_files self)).
Proof. unfold FilesInfo_write_times_lastwritetime, write_times. write_times_tac self FileEntry_lastwritetime e_mtime. Qed.

(* ------------------------------------------------------------------ the time readers against the model's branch of parse_file_prop *)
Definition times_branch (lim which : Z) (files : list fileent) (emptyfiles : list bool) (bs : bytes)
  : res (list fileent * list bool * bytes) :=
  do (defined, b1) <- rd_boolean lim (zlen files) true bs;
  do (ext, b2) <- rd_pid b1;
  match ext with
  | Some 0 => do (fs, r) <- rd_per_file 8 files defined (set_time which) b2; Ok (fs, emptyfiles, r)
  | _ => Err EOther
  end.

Lemma times_branch_g lim which (self : FilesInfo) bs : (which =? 18) || (which =? 19) || (which =? 20) = true ->
  (do (o, r) <- (do (l, r) <- rd_times_g lim which (FilesInfo_files self) bs; Ok (mkFilesInfo l (FilesInfo_emptyfiles self), r));
   Ok (map file_of (FilesInfo_files o), FilesInfo_emptyfiles o, r))
  = times_branch lim which (map file_of (FilesInfo_files self)) (FilesInfo_emptyfiles self) bs.
Proof.
  intros Hw. unfold times_branch. pose proof (rd_times_g_model lim which (FilesInfo_files self) bs Hw) as H.
  destruct (rd_times_g lim which (FilesInfo_files self) bs) as [[l r]|e]; cbn [bind] in H |- *.
  - cbn [FilesInfo_files FilesInfo_emptyfiles].
    destruct (rd_boolean lim (zlen (map file_of (FilesInfo_files self))) true bs) as [[defined b1]|e]; cbn [bind] in H |- *; [|discriminate].
    destruct (rd_pid b1) as [[ext b2]|e]; cbn [bind] in H |- *; [|discriminate].
    destruct ext as [[| |]|]; try discriminate. rewrite <- H. reflexivity.
  - destruct (rd_boolean lim (zlen (map file_of (FilesInfo_files self))) true bs) as [[defined b1]|e']; cbn [bind] in H |- *; [|congruence].
    destruct (rd_pid b1) as [[ext b2]|e']; cbn [bind] in H |- *; [|congruence].
    destruct ext as [[| |]|]; try congruence. rewrite <- H. reflexivity.
Qed.

Theorem gen_FilesInfo_read_times_model lim (self : FilesInfo) bs : wf_bytes bs = true ->
  rd_boolean lim (zlen (FilesInfo_files self)) true bs = Err EFuel \/
  ((do (o, r) <- FilesInfo_read_times_creationtime self bs; Ok (map file_of (FilesInfo_files o), FilesInfo_emptyfiles o, r))
   = times_branch lim 18 (map file_of (FilesInfo_files self)) (FilesInfo_emptyfiles self) bs /\
   (do (o, r) <- FilesInfo_read_times_lastaccesstime self bs; Ok (map file_of (FilesInfo_files o), FilesInfo_emptyfiles o, r))
   = times_branch lim 19 (map file_of (FilesInfo_files self)) (FilesInfo_emptyfiles self) bs /\
   (do (o, r) <- FilesInfo_read_times_lastwritetime self bs; Ok (map file_of (FilesInfo_files o), FilesInfo_emptyfiles o, r))
   = times_branch lim 20 (map file_of (FilesInfo_files self)) (FilesInfo_emptyfiles self) bs).
Proof.
  intros Hw.
  destruct (gen_FilesInfo_read_times_creationtime lim self bs Hw) as [Hf|H1]; [left; exact Hf|].
  destruct (gen_FilesInfo_read_times_lastaccesstime lim self bs Hw) as [Hf|H2]; [left; exact Hf|].
  destruct (gen_FilesInfo_read_times_lastwritetime lim self bs Hw) as [Hf|H3]; [left; exact Hf|].
  right. rewrite H1, H2, H3. repeat split; apply times_branch_g; reflexivity.
Qed.

(* ------------------------------------------------------------------ FilesInfo._read as a whole *)
(* one round of the property loop of the model *)
Definition props_step (lim : Z) (files : list fileent) (ef : list bool) (ne : Z) (bs : bytes)
  : res ((list fileent * list bool * Z * bytes) * bool) :=
  do (prop, bs) <- rd_pid bs;
  match prop with
  | Some 0 => Ok ((files, ef, ne, bs), true)
  | None => Err EOther
  | Some p =>
      do (size, bs) <- rd_number bs;
      if p =? 25 then Ok ((files, ef, ne, dropZ size bs), false)
      else do (fs, ef', ne') <- parse_file_prop lim p (takeZ size bs) files ef ne; Ok ((fs, ef', ne', dropZ size bs), false)
  end.

Lemma parse_file_props_step f lim files ef ne bs :
  parse_file_props (S f) lim files ef ne bs
  = match props_step lim files ef ne bs with
    | Err e => Err e
    | Ok ((fs, ef', _, r), true) => Ok ((fs, ef'), r)
    | Ok ((fs, ef', ne', r), false) => parse_file_props f lim fs ef' ne' r
    end.
Proof.
  cbn [parse_file_props]. unfold props_step. destruct (rd_pid bs) as [[prop b1]|e]; cbn [bind]; [|reflexivity].
  destruct prop as [[|p|p]|]; try reflexivity;
    (destruct (rd_number b1) as [[size b2]|e]; cbn [bind]; [|reflexivity]);
    match goal with |- context[if ?c then _ else _] => destruct c end; try reflexivity;
    (destruct (parse_file_prop lim _ (takeZ size b2) files ef ne) as [[[fs ef'] ne']|e]; reflexivity).
Qed.

Definition entry_flags (fs : list FileEntry) : list bool :=
  flat_map (fun f => if FileEntry_emptystream f then [match FileEntry_emptyfile f with Some b => b | None => false end] else []) fs.

(* the last loop of _read: each empty-stream entry takes the next EmptyFile bit (False when the vector is used up) *)
Fixpoint fill_flags (fs : list FileEntry) (flags : list bool) : list FileEntry :=
  match fs with
  | [] => []
  | f :: r =>
      if FileEntry_emptystream f then
        let '(b, flags') := py_next_default flags false in
        mkFileEntry (FileEntry_emptystream f) (Some b) (FileEntry_filename f) (FileEntry_creationtime f) (FileEntry_lastaccesstime f)
                    (FileEntry_lastwritetime f) (FileEntry_attributes f) :: fill_flags r flags'
      else f :: fill_flags r flags
  end.
Lemma fill_flags_files fs : forall flags, map file_of (fill_flags fs flags) = map file_of fs.
Proof.
  induction fs as [|f fs IH]; intros flags; cbn [fill_flags map]; [reflexivity|].
  destruct (FileEntry_emptystream f) eqn:E.
  - destruct flags as [|b fl]; cbn [py_next_default map]; rewrite IH; f_equal; unfold file_of; cbn; now rewrite E.
  - cbn [map]. now rewrite IH.
Qed.
Lemma firstn_app_repeat {A} (x : A) : forall k l m, (k <= m)%nat -> firstn k (l ++ repeat x m) = firstn k (l ++ repeat x k).
Proof.
  induction k as [|k IH]; intros l m Hm; [reflexivity|].
  destruct l as [|y l]; cbn [app].
  - destruct m as [|m]; [lia|]. cbn [repeat firstn]. f_equal. exact (IH [] m ltac:(lia)).
  - cbn [firstn]. f_equal. rewrite (IH l m ltac:(lia)), (IH l (S k) ltac:(lia)). reflexivity.
Qed.

Lemma fill_flags_flags fs : forall flags,
  entry_flags (fill_flags fs flags)
  = let nes := Z.to_nat (count_true (map FileEntry_emptystream fs)) in firstn nes (flags ++ repeat false nes).
Proof.
  induction fs as [|f fs IH]; intros flags; cbn [fill_flags map]; [reflexivity|].
  rewrite count_true_cons. pose proof (count_true_bounds (map FileEntry_emptystream fs)) as Hb.
  destruct (FileEntry_emptystream f) eqn:E.
  - replace (Z.to_nat (1 + count_true (map FileEntry_emptystream fs))) with (S (Z.to_nat (count_true (map FileEntry_emptystream fs)))) by lia.
    cbv zeta. set (k := Z.to_nat (count_true (map FileEntry_emptystream fs))).
    destruct flags as [|b fl]; cbn [py_next_default]; unfold entry_flags; cbn [flat_map FileEntry_emptystream FileEntry_emptyfile app].
    + change (flat_map _ (fill_flags fs [])) with (entry_flags (fill_flags fs [])). rewrite IH. cbv zeta. fold k.
      cbn [app repeat firstn]. reflexivity.
    + change (flat_map _ (fill_flags fs fl)) with (entry_flags (fill_flags fs fl)). rewrite IH. cbv zeta. fold k.
      cbn [app firstn]. f_equal. symmetry. apply firstn_app_repeat. lia.
  - replace (0 + count_true (map FileEntry_emptystream fs)) with (count_true (map FileEntry_emptystream fs)) by lia.
    unfold entry_flags. cbn [flat_map]. rewrite E. cbn [app]. apply IH.
Qed.

Lemma gen_flags_loop (body : FileEntry -> list FileEntry * list bool -> res ((list FileEntry * list bool) * bool)) :
  (forall f acc flags, body f (acc, flags) =
     do t17j <- (if FileEntry_emptystream f then let '(t16, flags) := py_next_default flags false in Ok (Some t16, flags)
                 else Ok (FileEntry_emptyfile f, flags));
     let '(ef, flags) := t17j in
     Ok ((acc ++ [mkFileEntry (FileEntry_emptystream f) ef (FileEntry_filename f) (FileEntry_creationtime f)
                              (FileEntry_lastaccesstime f) (FileEntry_lastwritetime f) (FileEntry_attributes f)], flags), false)) ->
  forall fs acc flags, exists fl', for_m fs body (acc, flags) = Ok (acc ++ fill_flags fs flags, fl').
Proof.
  intros Hb. induction fs as [|f fs IH]; intros acc flags; cbn [for_m fill_flags].
  - exists flags. now rewrite app_nil_r.
  - rewrite Hb. destruct (FileEntry_emptystream f) eqn:E.
    + destruct flags as [|b fl]; cbn [py_next_default bind].
      * destruct (IH (acc ++ [mkFileEntry true (Some false) (FileEntry_filename f) (FileEntry_creationtime f) (FileEntry_lastaccesstime f)
                                           (FileEntry_lastwritetime f) (FileEntry_attributes f)]) []) as [fl' H].
        exists fl'. rewrite H, <- app_assoc. reflexivity.
      * destruct (IH (acc ++ [mkFileEntry true (Some b) (FileEntry_filename f) (FileEntry_creationtime f) (FileEntry_lastaccesstime f)
                                           (FileEntry_lastwritetime f) (FileEntry_attributes f)]) fl) as [fl' H].
        exists fl'. rewrite H, <- app_assoc. reflexivity.
    + cbn [bind]. destruct (IH (acc ++ [f]) flags) as [fl' H]. exists fl'.
      assert (Hf : mkFileEntry false (FileEntry_emptyfile f) (FileEntry_filename f) (FileEntry_creationtime f) (FileEntry_lastaccesstime f)
                               (FileEntry_lastwritetime f) (FileEntry_attributes f) = f) by (destruct f; cbn in *; now subst).
      rewrite Hf, H, <- app_assoc. reflexivity.
Qed.

Lemma zip_update_model (gfs : list FileEntry) : forall l,
  map file_of (py_zip_update (fun x y => mkFileEntry y (FileEntry_emptyfile x) (FileEntry_filename x) (FileEntry_creationtime x)
                                             (FileEntry_lastaccesstime x) (FileEntry_lastwritetime x) (FileEntry_attributes x)) gfs l)
  = zip_update set_empty (map file_of gfs) l.
Proof. induction gfs as [|f gfs IH]; intros [|b l]; cbn [py_zip_update zip_update map]; try reflexivity. now rewrite IH. Qed.
Lemma py_zip_update_length {A B} (f : A -> B -> A) (l : list A) : forall m, length (py_zip_update f l m) = length l.
Proof. induction l as [|a l IH]; intros [|b m]; cbn [py_zip_update length]; try reflexivity. now rewrite IH. Qed.
Lemma rd_names_g_length fs : forall bs l r, rd_names_g fs bs = Ok (l, r) -> length l = length fs.
Proof.
  induction fs as [|f fs IH]; intros bs l r; cbn [rd_names_g].
  - intros H. now assert (l = []) as -> by congruence.
  - destruct (rd_utf16 bs) as [[nm b1]|e]; cbn [bind]; [|discriminate].
    destruct (rd_names_g fs b1) as [[l' r']|e] eqn:E; cbn [bind]; [|discriminate].
    intros H. assert (l = set_name_g f nm :: l') as -> by congruence. cbn [length]. f_equal. eapply IH; eassumption.
Qed.
Lemma rd_per_file_g_length n set fs : forall defined bs l r, rd_per_file_g n fs defined set bs = Ok (l, r) -> length l = length fs.
Proof.
  induction fs as [|f fs IH]; intros defined bs l r; cbn [rd_per_file_g].
  - intros H. now assert (l = []) as -> by congruence.
  - destruct defined as [|[|] ds]; [discriminate| |].
    + destruct (rd_fixed n bs) as [[v b1]|e]; cbn [bind]; [|discriminate].
      destruct (rd_per_file_g n fs ds set b1) as [[l' r']|e] eqn:E; cbn [bind]; [|discriminate].
      intros H. assert (l = set f (Some v) :: l') as -> by congruence. cbn [length]. f_equal. eapply IH; eassumption.
    + destruct (rd_per_file_g n fs ds set bs) as [[l' r']|e] eqn:E; cbn [bind]; [|discriminate].
      intros H. assert (l = set f None :: l') as -> by congruence. cbn [length]. f_equal. eapply IH; eassumption.
Qed.

(* the states of the two loops *)
Definition st_rel (numfiles : Z) (g : bytes * Z * list bool * list FileEntry) (m : list fileent * list bool * Z * bytes) : Prop :=
  let '(bs', ne', ef', gfs') := g in let '(fs, ef'', ne'', r) := m in
  fs = map file_of gfs' /\ ef' = ef'' /\ ne' = ne'' /\ r = bs' /\ wf_bytes bs' = true /\ zlen gfs' = numfiles.
Definition step_ok (numfiles : Z) (bs : bytes) (g : res ((bytes * Z * list bool * list FileEntry) * bool))
           (m : res ((list fileent * list bool * Z * bytes) * bool)) : Prop :=
  m = Err EFuel \/
  match g, m with
  | Ok (sg, b), Ok (sm, b') => b = b' /\ st_rel numfiles sg sm /\ (b = false -> (length (fst (fst (fst sg))) < length bs)%nat)
  | Err _, Err _ => True
  | _, _ => False
  end.

Lemma gen_props_while lim numfiles (body : bytes * Z * list bool * list FileEntry -> res ((bytes * Z * list bool * list FileEntry) * bool))
      (cond : bytes * Z * list bool * list FileEntry -> bool) :
  (forall a b c d, cond (a, b, c, d) = true) ->
  (forall bs ne ef gfs, wf_bytes bs = true -> zlen gfs = numfiles ->
     step_ok numfiles bs (body (bs, ne, ef, gfs)) (props_step lim (map file_of gfs) ef ne bs)) ->
  forall fm fg bs ne ef gfs, wf_bytes bs = true -> zlen gfs = numfiles -> (length bs < fm)%nat -> (length bs < fg)%nat ->
  parse_file_props fm lim (map file_of gfs) ef ne bs = Err EFuel \/
  match while_m fg cond body (bs, ne, ef, gfs), parse_file_props fm lim (map file_of gfs) ef ne bs with
  | Ok (bs', _, ef', gfs'), Ok ((fs, ef''), r) => fs = map file_of gfs' /\ ef' = ef'' /\ r = bs' /\ zlen gfs' = numfiles
  | Err _, Err _ => True
  | _, _ => False
  end.
Proof.
  intros Hcond Hstep. induction fm as [|fm IH]; intros fg bs ne ef gfs Hw Hn Hfm Hfg; [lia|]. destruct fg as [|fg]; [lia|].
  rewrite parse_file_props_step. cbn [while_m]. rewrite Hcond.
  destruct (Hstep bs ne ef gfs Hw Hn) as [Hf|Hs]; [left; now rewrite Hf|].
  destruct (body (bs, ne, ef, gfs)) as [[[[[bs' ne'] ef'] gfs'] b]|eg];
    destruct (props_step lim (map file_of gfs) ef ne bs) as [[[[[fs ef''] ne''] r] b']|em]; try contradiction; [|right; exact I].
  destruct Hs as (<- & (-> & -> & -> & -> & Hw' & Hn') & Hlt). destruct b.
  - right. auto.
  - cbn [fst] in Hlt. specialize (Hlt eq_refl). apply IH; [exact Hw' | exact Hn' | lia | lia].
Qed.

Lemma props_step_nz lim files ef ne bs p b1 : p <> 0 -> rd_pid bs = Ok (Some p, b1) ->
  props_step lim files ef ne bs
  = (do (size, b2) <- rd_number b1;
     if p =? 25 then Ok ((files, ef, ne, dropZ size b2), false)
     else do (fs, ef', ne') <- parse_file_prop lim p (takeZ size b2) files ef ne; Ok ((fs, ef', ne', dropZ size b2), false)).
Proof. intros Hp H. unfold props_step. rewrite H. cbn [bind]. destruct p; [congruence|reflexivity|reflexivity]. Qed.

Lemma map_repeat' {A B} (f : A -> B) x n : map f (repeat x n) = repeat (f x) n.
Proof. induction n as [|n IH]; cbn [repeat map]; [reflexivity|]. now rewrite IH. Qed.

Lemma dropZ_length n (bs : bytes) : (length (dropZ n bs) <= length bs)%nat.
Proof. apply suffix_len, suffix_dropZ. Qed.
Lemma wf_dropZ n bs : wf_bytes bs = true -> wf_bytes (dropZ n bs) = true.
Proof. intros H. eapply suffix_wf; [apply suffix_dropZ | exact H]. Qed.

Theorem gen_FilesInfo_retrieve_model_or lim bs fuel : wf_bytes bs = true -> (length bs < fuel)%nat ->
  parse_files lim bs = Err EFuel \/
  res_same (do (o, r) <- FilesInfo_retrieve bs fuel;
            Ok ((map file_of (FilesInfo_files o), entry_flags (FilesInfo_files o)), r))
           (parse_files lim bs).
Proof.
  intros Hw Hfuel. unfold FilesInfo_retrieve, FilesInfo_read, FilesInfo_init, parse_files.
  cbn [FilesInfo_files FilesInfo_emptyfiles]. cbv zeta.
  rewrite gen_read_uint64_rd_number by exact Hw.
  destruct (rd_number bs) as [[n b1]|e] eqn:E1; cbn [bind]; [|right; exact I].
  pose proof (rd_number_wf _ _ _ Hw E1) as Hw1. pose proof (rd_number_nonneg _ _ _ Hw E1) as Hn0.
  pose proof (rd_number_progress _ _ _ E1) as Hl1.
  destruct (lim <? n) eqn:Elim; [left; reflexivity|].
  match goal with |- context[while_m fuel _ ?b _] => set (body := b) end.
  assert (Hstep : forall (bs : bytes) (ne : Z) (ef : list bool) (gfs : list FileEntry), wf_bytes bs = true -> zlen gfs = n ->
            step_ok n bs (body (bs, ne, ef, gfs)) (props_step lim (map file_of gfs) ef ne bs)).
  { clear - Hn0. intros bs ne ef gfs Hw Hn. unfold step_ok, body.
    destruct (gen_pid' bs Hw) as (pid & bs1 & Hp1 & Hp2 & Hw1). rewrite Hp2. cbv iota beta.
    assert (Hl1 : (length bs1 <= length bs)%nat) by (destruct (gen_pid bs) as (pid' & r' & Q1 & _ & _ & Q4); congruence).
    rewrite pid_bytes_eqb.
    destruct pid as [p|].
    2: { right. unfold props_step. rewrite Hp1. cbn [bind]. 
         assert (bs1 = []) as -> by (destruct bs; cbn [rd_pid] in Hp1; congruence).
         rewrite gen_read_uint64_rd_number by reflexivity. cbn. exact I. }
    destruct (Z.eq_dec p 0) as [->|Hp0].
    { right. unfold props_step. rewrite Hp1. cbn [bind Z.eqb]. cbv iota. repeat split; auto; discriminate. }
    replace (p =? 0) with false by (symmetry; apply Z.eqb_neq; exact Hp0). cbv iota.
    rewrite (props_step_nz lim _ ef ne bs p bs1 Hp0 Hp1).
    rewrite gen_read_uint64_rd_number by exact Hw1.
    destruct (rd_number bs1) as [[size bs2]|e] eqn:E2; cbn [bind]; [|right; exact I].
    pose proof (rd_number_wf _ _ _ Hw1 E2) as Hw2. pose proof (rd_number_nonneg _ _ _ Hw1 E2) as Hs0.
    pose proof (rd_number_progress _ _ _ E2) as Hl2.
    assert (Hprog : (length (dropZ size bs2) < length bs)%nat) by (pose proof (dropZ_length size bs2); lia).
    pose proof (wf_dropZ size bs2 Hw2) as Hwd.
    rewrite (gen_rd_read_bytes bs2 size Hs0). cbn [snd]. cbv iota beta.
    cbn [pid_bytes bytes_eqb]. rewrite !andb_true_r.
    destruct (p =? 25) eqn:E25.
    { right. replace (size <? 0) with false by lia. cbn [bind]. repeat split; auto. }
    set (buf := takeZ size bs2). assert (Hwb : wf_bytes buf = true) by (apply wf_bytes_takeZ; exact Hw2).
    unfold parse_file_prop. rewrite zlen_map, Hn.
    destruct (p =? 14) eqn:E14.
    { (* kEmptyStream *)
      destruct (rd_boolean lim n false buf) as [[isempty b3]|e] eqn:Eb.
      2: { destruct e; try (right; rewrite (gen_read_boolean_rd_boolean lim n false buf Hwb) by (rewrite Eb; discriminate);
                            rewrite Eb; cbn [bind]; exact I). left. reflexivity. }
      right. rewrite (gen_read_boolean_rd_boolean lim n false buf Hwb) by (rewrite Eb; discriminate). rewrite Eb. cbn [bind].
      repeat split; auto. { symmetry. apply zip_update_model. }
      unfold zlen in *. now rewrite py_zip_update_length. }
    destruct (p =? 15) eqn:E15.
    { destruct (rd_boolean lim ne false buf) as [[efl b3]|e] eqn:Eb.
      2: { destruct e; try (right; rewrite (gen_read_boolean_rd_boolean lim ne false buf Hwb) by (rewrite Eb; discriminate);
                            rewrite Eb; cbn [bind]; exact I). left. reflexivity. }
      right. rewrite (gen_read_boolean_rd_boolean lim ne false buf Hwb) by (rewrite Eb; discriminate). rewrite Eb. cbn [bind].
      repeat split; auto. }
    destruct (p =? 17) eqn:E17.
    { right. destruct (gen_pid buf) as (ext & b3 & Hq1 & Hq2 & _). rewrite Hq1, Hq2. cbn [bind]. cbv iota beta.
      rewrite pid_bytes_eqb, match_pid_0. destruct ext as [x|]; [destruct (x =? 0)|]; cbn [bind]; try exact I.
      rewrite gen_FilesInfo_read_name. cbn [FilesInfo_files FilesInfo_emptyfiles].
      rewrite <- (rd_names_g_model gfs b3).
      destruct (rd_names_g gfs b3) as [[l r]|e] eqn:En; cbn [bind FilesInfo_files FilesInfo_emptyfiles]; [|exact I].
      repeat split; auto. pose proof (rd_names_g_length _ _ _ _ En). unfold zlen in *. lia. }
    assert (Htimes : forall which (G : FilesInfo -> bytes -> res (FilesInfo * bytes)),
              (which =? 18) || (which =? 19) || (which =? 20) = true ->
              (rd_boolean lim (zlen gfs) true buf = Err EFuel \/
               G (mkFilesInfo gfs ef) buf = (do (l, r) <- rd_times_g lim which gfs buf; Ok (mkFilesInfo l ef, r))) ->
              (do (fs, ef', ne') <-
                 (do (defined, b3) <- rd_boolean lim n true buf;
                  do (ext, b4) <- rd_pid b3;
                  match ext with
                  | Some 0 => do (fs, _) <- rd_per_file 8 (map file_of gfs) defined (set_time which) b4; Ok (fs, ef, ne)
                  | _ => Err EOther
                  end);
               Ok ((fs, ef', ne', dropZ size bs2), false)) = Err EFuel \/
              match (do t9r <- G (mkFilesInfo gfs ef) buf; let '(t9, _) := t9r in
                     Ok ((dropZ size bs2, ne, FilesInfo_emptyfiles t9, FilesInfo_files t9), false)),
                    (do (fs, ef', ne') <-
                       (do (defined, b3) <- rd_boolean lim n true buf;
                        do (ext, b4) <- rd_pid b3;
                        match ext with
                        | Some 0 => do (fs, _) <- rd_per_file 8 (map file_of gfs) defined (set_time which) b4; Ok (fs, ef, ne)
                        | _ => Err EOther
                        end);
                     Ok ((fs, ef', ne', dropZ size bs2), false)) with
              | Ok (sg, b), Ok (sm, b') => b = b' /\ st_rel n sg sm /\ (b = false -> (length (fst (fst (fst sg))) < length bs)%nat)
              | Err _, Err _ => True
              | _, _ => False
              end).
    { intros which G Hwh HG. rewrite Hn in HG. destruct HG as [Hf|HG]; [left; now rewrite Hf|]. right. rewrite HG.
      pose proof (rd_times_g_model lim which gfs buf Hwh) as Hm. rewrite zlen_map, Hn in Hm.
      destruct (rd_times_g lim which gfs buf) as [[l r]|e] eqn:Et; cbn [bind] in Hm |- *.
      - cbn [FilesInfo_files FilesInfo_emptyfiles].
        destruct (rd_boolean lim n true buf) as [[defined b3]|e]; cbn [bind] in Hm |- *; [|discriminate].
        destruct (rd_pid b3) as [[ext b4]|e]; cbn [bind] in Hm |- *; [|discriminate].
        destruct ext as [[| |]|]; try discriminate. rewrite <- Hm. cbn [bind].
        repeat split; auto. unfold rd_times_g in Et.
        assert (length l = length gfs); [|unfold zlen in *; lia].
        destruct (rd_boolean lim (zlen gfs) true buf) as [[d' b']|]; cbn [bind] in Et; [|discriminate].
        destruct (rd_pid b') as [[e' b'']|]; cbn [bind] in Et; [|discriminate].
        destruct e' as [[| |]|]; try discriminate. eapply rd_per_file_g_length; exact Et.
      - destruct (rd_boolean lim n true buf) as [[defined b3]|e']; cbn [bind] in Hm |- *; [|exact I].
        destruct (rd_pid b3) as [[ext b4]|e']; cbn [bind] in Hm |- *; [|exact I].
        destruct ext as [[| |]|]; try exact I. rewrite <- Hm. exact I. }
    destruct (p =? 18) eqn:E18.
    { assert (p = 18) by lia. subst p. cbn [orb Z.eqb]. exact (Htimes 18 FilesInfo_read_times_creationtime eq_refl
                          (gen_FilesInfo_read_times_creationtime lim (mkFilesInfo gfs ef) buf Hwb)). }
    destruct (p =? 19) eqn:E19.
    { assert (p = 19) by lia. subst p. cbn [orb Z.eqb]. exact (Htimes 19 FilesInfo_read_times_lastaccesstime eq_refl
                          (gen_FilesInfo_read_times_lastaccesstime lim (mkFilesInfo gfs ef) buf Hwb)). }
    destruct (p =? 20) eqn:E20.
    { assert (p = 20) by lia. subst p. cbn [orb Z.eqb]. exact (Htimes 20 FilesInfo_read_times_lastwritetime eq_refl
                          (gen_FilesInfo_read_times_lastwritetime lim (mkFilesInfo gfs ef) buf Hwb)). }
    cbn [orb]. clear Htimes.
    destruct (p =? 21) eqn:E21.
    { destruct (rd_boolean lim n true buf) as [[defined b3]|e] eqn:Eb.
      2: { destruct e; try (right; rewrite (gen_read_boolean_rd_boolean lim n true buf Hwb) by (rewrite Eb; discriminate);
                            rewrite Eb; cbn [bind]; exact I). left. reflexivity. }
      right. rewrite (gen_read_boolean_rd_boolean lim n true buf Hwb) by (rewrite Eb; discriminate). rewrite Eb. cbn [bind].
      destruct (gen_pid b3) as (ext & b4 & Hq1 & Hq2 & _). rewrite Hq1, Hq2. cbn [bind]. cbv iota beta.
      rewrite pid_bytes_eqb, match_pid_0. destruct ext as [x|]; [destruct (x =? 0)|]; cbn [bind]; try exact I.
      rewrite gen_FilesInfo_read_attributes. cbn [FilesInfo_files FilesInfo_emptyfiles].
      rewrite <- (rd_per_file_g_model 4 set_attr_g set_attr file_of_set_attr gfs defined b4).
      destruct (rd_per_file_g 4 gfs defined set_attr_g b4) as [[l r]|e] eqn:En; cbn [bind FilesInfo_files FilesInfo_emptyfiles]; [|exact I].
      repeat split; auto. pose proof (rd_per_file_g_length _ _ _ _ _ _ _ En). unfold zlen in *. lia. }
    right. destruct (p =? 24); exact I. }
  match goal with |- context[while_m fuel ?c body _] => set (cnd := c) end.
  pose proof (gen_props_while lim n body cnd ltac:(intros; reflexivity) Hstep (S (length b1)) fuel b1 0 []
                (repeat (mkFileEntry false None None None None None None) (Z.to_nat n)) Hw1
                ltac:(unfold zlen; rewrite repeat_length; lia) ltac:(lia) ltac:(lia)) as HW.
  rewrite map_repeat' in HW. change (file_of (mkFileEntry false None None None None None None)) with empty_file in HW.
  destruct HW as [Hf|HW]; [left; now rewrite Hf|]. right.
  destruct (while_m fuel cnd body _) as [[[[bs' ne'] ef'] gfs']|eg];
    destruct (parse_file_props (S (length b1)) lim (repeat empty_file (Z.to_nat n)) [] 0 b1) as [[[fs ef''] r]|em];
    cbv iota beta in HW; try contradiction; cbn [bind]; [|exact I].
  destruct HW as (-> & -> & -> & Hn').
  match goal with |- context[for_m gfs' ?b _] =>
    destruct (gen_flags_loop b ltac:(intros; reflexivity) gfs' [] ef'') as [fl' Hfl] end.
  rewrite Hfl. cbn [bind app FilesInfo_files res_same].
  rewrite fill_flags_files, fill_flags_flags, map_map. reflexivity.
Qed.

(* ------------------------------------------------------------------ FilesInfo.write as a whole *)
Lemma gen_emptyfiles_loop (body : FileEntry -> list bool -> res (list bool * bool)) :
  (forall f acc, body f acc =
     if FileEntry_emptystream f then Ok (acc ++ [match FileEntry_emptyfile f with Some b => b | None => false end], false)
     else Ok (acc, false)) ->
  forall fs acc, for_m fs body acc = Ok (acc ++ entry_flags fs).
Proof.
  intros Hb. unfold entry_flags. induction fs as [|f fs IH]; intros acc; cbn [for_m flat_map]; [now rewrite app_nil_r|].
  rewrite Hb. destruct (FileEntry_emptystream f); rewrite IH; [rewrite <- app_assoc|]; reflexivity.
Qed.

Lemma entry_flags_length fs : length (entry_flags fs) = Z.to_nat (count_true (map FileEntry_emptystream fs)).
Proof.
  unfold entry_flags. induction fs as [|f fs IH]; cbn [flat_map map]; [reflexivity|].
  rewrite count_true_cons, app_length, IH. pose proof (count_true_bounds (map FileEntry_emptystream fs)).
  destruct (FileEntry_emptystream f); cbn [length]; lia.
Qed.

Lemma land3_mod4 x : Z.land x 3 = x mod 4.
Proof. change 3 with (Z.ones 2). rewrite Z.land_ones by lia. reflexivity. Qed.

Lemma has_time_g (sel : FileEntry -> option (option Z)) (selm : fileent -> option (option Z)) fs :
  (forall f, sel f = selm (file_of f)) ->
  existsb (fun f => py_is_some (match sel f with Some v => v | None => None end)) fs = has_time selm (map file_of fs).
Proof.
  intros H. unfold has_time, any_true. induction fs as [|f fs IH]; cbn [existsb map]; [reflexivity|].
  rewrite IH, <- H. destruct (sel f) as [[v|]|]; reflexivity.
Qed.

Theorem gen_FilesInfo_write (self : FilesInfo) pos :
  FilesInfo_write self pos = write_files pos (map file_of (FilesInfo_files self)) (entry_flags (FilesInfo_files self)).
Proof.
  destruct self as [fs efl0]. unfold FilesInfo_write, write_files. cbn [FilesInfo_files FilesInfo_emptyfiles]. cbv zeta.
  rewrite gen_write_byte. cbn [bind]. rewrite gen_write_uint64_wr_number. change (py_len fs) with (zlen fs). rewrite zlen_map.
  destruct (wr_number (zlen fs)) as [n|e]; cbn [bind]; [|reflexivity].
  rewrite (for_m_map FileEntry_emptystream) by (intros; reflexivity). cbn [bind app].
  rewrite gen_FilesInfo_are_there. cbn [bind].
  rewrite map_map. change (map (fun x => e_emptystream (file_of x)) fs) with (map FileEntry_emptystream fs).
  set (es := map FileEntry_emptystream fs).
  assert (Hefl : firstn (Z.to_nat (count_true es)) (entry_flags fs ++ repeat false (Z.to_nat (count_true es))) = entry_flags fs).
  { unfold es. rewrite <- (entry_flags_length fs). rewrite firstn_app, firstn_all, Nat.sub_diag. cbn [firstn]. now rewrite app_nil_r. }
  rewrite Hefl.
  (* the EmptyStream / EmptyFile vectors *)
  match goal with |- context[bind (if any_true es then ?A else ?B)] =>
    let G := constr:(if any_true es then A else B) in
    assert (HA' : G = (do a <- (if any_true es then
                  do sz <- wr_number ((zlen fs + 7) / 8);
                  do b <- (if any_true (entry_flags fs)
                           then do sz2 <- wr_number ((count_true es + 7) / 8); Ok (15 :: sz2 ++ wr_bits (entry_flags fs))
                           else Ok []);
                  Ok (14 :: sz ++ wr_bits es ++ b)
                else Ok []); Ok (5 :: n ++ a))) end.
  { destruct (any_true es); cbn [bind]; [|now rewrite app_nil_r].
    rewrite gen_write_byte, gen_bits_to_bytes_all. cbn [bind]. rewrite gen_write_uint64_wr_number.
    destruct (wr_number ((zlen fs + 7) / 8)) as [sz|e]; cbn [bind]; [|reflexivity].
    rewrite gen_write_boolean_wr_boolean. cbn [bind].
    rewrite gen_emptyfiles_loop by (intros; reflexivity). cbn [bind app].
    rewrite gen_FilesInfo_are_there. cbn [bind].
    change (wr_boolean es false) with (wr_bits es).
    destruct (any_true (entry_flags fs)); cbn [bind].
    - rewrite gen_write_byte, gen_bits_to_bytes_all. cbn [bind]. rewrite gen_write_uint64_wr_number.
      assert (Hl : py_len (entry_flags fs) = count_true es).
      { unfold py_len, es. rewrite entry_flags_length. pose proof (count_true_bounds (map FileEntry_emptystream fs)). lia. }
      rewrite Hl. destruct (wr_number ((count_true es + 7) / 8)) as [sz2|e]; cbn [bind]; [|reflexivity].
      rewrite gen_write_boolean_wr_boolean. cbn [bind]. change (wr_boolean (entry_flags fs) false) with (wr_bits (entry_flags fs)).
      f_equal. cbn [app]. rewrite <- ?app_assoc. cbn [app]. rewrite <- ?app_assoc. reflexivity.
    - f_equal. cbn [app]. rewrite <- ?app_assoc. cbn [app]. rewrite <- ?app_assoc, ?app_nil_r. reflexivity. }
  rewrite HA'. clear HA'.
  match goal with |- context[bind (if any_true es then ?A else ?B)] => destruct (if any_true es then A else B) as [a|e] end;
    cbn [bind]; [|reflexivity].
  (* padding *)
  assert (Hpos : pos + py_len (5 :: n ++ a) = pos + 1 + zlen n + zlen a).
  { unfold py_len, zlen. cbn [length]. rewrite app_length. lia. }
  rewrite Hpos, land3_mod4. set (pl0 := (- (pos + 1 + zlen n + zlen a)) mod 4).
  assert (Hpl : pl0 = 0 \/ pl0 = 1 \/ pl0 = 2 \/ pl0 = 3).
  { pose proof (Z.mod_pos_bound (- (pos + 1 + zlen n + zlen a)) 4 ltac:(lia)). unfold pl0. lia. }
  assert (Hpad : forall (K : bytes -> res bytes),
     (do t17j <- (if (pl0 <=? 2) && (0 <? pl0) then Ok (pl0 + 4) else Ok pl0);
      do t23j <- (if 2 <? t17j then
                    do t18 <- write_byte [25]; do t19 <- py_to_bytes_le (t17j - 2) 1; do t20 <- write_byte t19;
                    do t21 <- py_zeros (t17j - 2); do t22 <- write_bytes t21;
                    Ok ((((5 :: n ++ a) ++ t18) ++ t20) ++ t22)
                  else Ok (5 :: n ++ a));
      K t23j)
     = K ((5 :: n ++ a) ++
          (if 2 <? (if (0 <? pl0) && (pl0 <=? 2) then pl0 + 4 else pl0)
           then [25; (if (0 <? pl0) && (pl0 <=? 2) then pl0 + 4 else pl0) - 2] ++
                repeatZ 0 (Z.to_nat ((if (0 <? pl0) && (pl0 <=? 2) then pl0 + 4 else pl0) - 2))
           else []))).
  { intros K. destruct Hpl as [H|[H|[H|H]]]; rewrite H; simpl; rewrite <- ?app_assoc, ?app_nil_r; reflexivity. }
  match goal with |- bind ?I (fun t17j => bind (@?J t17j) (fun t23j => @?K t23j)) = _ =>
    etransitivity; [exact (Hpad K)|] end.
  clear Hpad. cbv beta.
  set (pad := if 2 <? (if (0 <? pl0) && (pl0 <=? 2) then pl0 + 4 else pl0) then _ else []).
  rewrite gen_FilesInfo_write_names. cbn [FilesInfo_files].
  destruct (write_names (map file_of fs)) as [nm|e]; cbn [bind]; [|reflexivity].
  rewrite (has_time_g FileEntry_creationtime e_ctime fs ltac:(reflexivity)),
          (has_time_g FileEntry_lastaccesstime e_atime fs ltac:(reflexivity)).
  unfold write_times_opt.
  rewrite gen_FilesInfo_write_times_creationtime, gen_FilesInfo_write_times_lastaccesstime,
          gen_FilesInfo_write_times_lastwritetime, gen_FilesInfo_write_attributes, gen_write_byte. cbn [FilesInfo_files].
  destruct (has_time e_ctime (map file_of fs)); cbn [bind];
    [destruct (write_times 18 e_ctime (map file_of fs)) as [ct|e]; cbn [bind]; [|reflexivity]|];
    (destruct (has_time e_atime (map file_of fs)); cbn [bind];
     [destruct (write_times 19 e_atime (map file_of fs)) as [lat|e]; cbn [bind]; [|reflexivity]|]);
    (destruct (write_times 20 e_mtime (map file_of fs)) as [tm|e]; cbn [bind]; [|reflexivity]);
    (destruct (write_attributes (map file_of fs)) as [at_|e]; cbn [bind]; [|reflexivity]);
    f_equal; cbn [app]; rewrite <- ?app_assoc, ?app_nil_r; cbn [app]; rewrite <- ?app_assoc; reflexivity.
Qed.
