(* PathGen.v -- ties between the path helpers generated from py7zr/helpers.py
   (gen/HelpersPath.v, produced by tools/translate.py from the current source) and the model of
   C16 (Path.v): check_archive_path, canonical_path; remove_trailing_slash and
   remove_relative_path_marker are given closed forms here (their ties to the hand models of
   Select.v / Listing.v / FS.v are in HelpersGen.v).
   All statements are for ALL strings / path objects. *)
From P7 Require Import Prelude PyPrims PyStr PyRe Path PathProofs.
From P7gen Require HelpersPath ArcName.
From Coq Require Import ZifyBool.
Open Scope Z_scope.

Lemma py_str_eqb_path a b : py_str_eqb a b = str_eqb a b.
Proof. reflexivity. Qed.   (* the two fixpoints have the same body *)

Lemma py_nonempty_isnil {A} (l : list A) : py_nonempty l = negb (isnil l).
Proof. now destruct l. Qed.

(* ------------------------------------------------------------------ check_archive_path *)
(* the loop: same verdict as Path.lex_walk, whatever the depth it starts from *)
Lemma gen_walk_loop (body : list Z -> Z * option bool -> res ((Z * option bool) * bool)) :
  (forall part depth rv, body part (depth, rv) =
     if py_str_eqb part [46; 46]
     then (if depth - 1 <? 0 then Ok ((depth - 1, Some false), true) else Ok ((depth - 1, rv), false))
     else Ok ((depth + 1, rv), false)) ->
  forall (ps : list (list Z)) depth, exists d',
    for_m ps body (depth, None) = Ok (d', if lex_walk ps depth then None else Some false).
Proof.
  intros Hbody ps. induction ps as [|p ps IH]; intros depth.
  - exists depth. reflexivity.
  - cbn [for_m lex_walk]. rewrite Hbody, py_str_eqb_path. unfold s_dotdot.
    destruct (str_eqb p [46; 46]) eqn:Edd.
    + destruct (depth - 1 <? 0) eqn:Eneg.
      * eexists. reflexivity.
      * apply IH.
    + apply IH.
Qed.

Theorem gen_check_archive_path_model name :
  HelpersPath.check_archive_path name = Ok (Path.check_archive_path name).
Proof.
  unfold HelpersPath.check_archive_path, Path.check_archive_path. cbv zeta. unfold str.
  rewrite py_nonempty_isnil.
  destruct (pp_is_absolute [name] || negb (isnil (pp_anchor [name]))) eqn:Eabs; [reflexivity|].
  match goal with |- context[for_m _ ?b _] => destruct (gen_walk_loop b) with (ps := pp_parts [name]) (depth := 0) as [d' Hd] end.
  { intros part depth rv. reflexivity. }
  rewrite Hd. cbn [bind]. destruct (lex_walk (pp_parts [name]) 0); reflexivity.
Qed.

Theorem gen_check_archive_path_spec name : HelpersPath.check_archive_path name = Ok (spec_ok name).
Proof. rewrite gen_check_archive_path_model. f_equal. apply check_archive_path_spec. Qed.

(* ------------------------------------------------------------------ canonical_path *)
(* the generated loop keeps the stack bottom-first (list.append / pop), Path.canon_step top-first *)
Lemma gen_canon_loop (body : list Z -> list (list Z) -> res (list (list Z) * bool)) :
  (forall p stack, body p stack =
     if negb (py_str_eqb p [46; 46]) || (py_len stack =? 0) then Ok (stack ++ [p], false)
     else do t1 <- py_index stack (-1);
          if py_str_eqb t1 [46; 46] then Ok (stack ++ [p], false)
          else do t2 <- py_index stack (-1);
               if py_str_eqb t2 [47] then Ok (stack, false)
               else do stack' <- py_pop_ stack; Ok (stack', false)) ->
  forall (ps st : list (list Z)), for_m ps body (rev st) = Ok (rev (fold_left canon_step ps st)).
Proof.
  intros Hbody ps. induction ps as [|p ps IH]; intros st; [reflexivity|].
  cbn [for_m fold_left]. rewrite Hbody.
  assert (Hstep : (if negb (py_str_eqb p [46; 46]) || (py_len (rev st) =? 0) then Ok (rev st ++ [p], false)
     else do t1 <- py_index (rev st) (-1);
          if py_str_eqb t1 [46; 46] then Ok (rev st ++ [p], false)
          else do t2 <- py_index (rev st) (-1);
               if py_str_eqb t2 [47] then Ok (rev st, false)
               else do stack' <- py_pop_ (rev st); Ok (stack', false)) = Ok (rev (canon_step st p), false)).
  { unfold canon_step, s_dotdot, s_slash, str. change py_str_eqb with str_eqb.
    assert (Hnil : (py_len (rev st) =? 0) = isnil st).
    { unfold py_len. rewrite rev_length. destruct st; cbn [length isnil]; lia. }
    rewrite Hnil.
    destruct (negb (str_eqb p [46; 46]) || isnil st) eqn:E1; [reflexivity|].
    destruct st as [|top rest]; [rewrite orb_true_r in E1; discriminate|].
    cbn [rev]. rewrite py_index_last_app. cbn [bind].
    destruct (str_eqb top [46; 46]) eqn:E2; [reflexivity|].
    destruct (str_eqb top [47]) eqn:E3; [reflexivity|].
    rewrite py_pop_app. reflexivity. }
  rewrite Hstep. apply IH.
Qed.

Theorem gen_canonical_path_model target :
  HelpersPath.canonical_path target = Ok (Path.canonical_path target).
Proof.
  unfold HelpersPath.canonical_path, Path.canonical_path. cbv zeta. unfold str.
  match goal with |- context[for_m _ ?b _] => pose proof (gen_canon_loop b) as Hl end.
  specialize (Hl ltac:(intros; reflexivity) (pp_parts target) []). change (rev (@nil (list Z))) with (@nil (list Z)) in Hl.
  rewrite Hl. reflexivity.
Qed.

(* ------------------------------------------------------------------ remove_trailing_slash *)
Lemma py_slice_drop_last (s : list Z) c : py_slice (s ++ [c]) None (Some (-1)) = s.
Proof.
  unfold py_slice, py_len, py_clamp. rewrite app_length. cbn [length].
  change ((-1) <? 0) with true. cbv iota.
  replace (Z.max 0 (-1 + Z.of_nat (length s + 1))) with (Z.of_nat (length s)) by lia.
  destruct s as [|x s]; [reflexivity|].
  destruct (Z.of_nat (length (x :: s)) <=? 0) eqn:E; [cbn [length] in E; lia|].
  rewrite Z.sub_0_r, Nat2Z.id. change (Z.to_nat 0) with O. cbn [skipn].
  apply firstn_app_exact.
Qed.

(* for every string: the last character is dropped exactly when it is '/' *)
Theorem gen_remove_trailing_slash_spec s :
  HelpersPath.remove_trailing_slash s = Ok (if endswith_slash s then removelast s else s).
Proof.
  unfold HelpersPath.remove_trailing_slash, py_endswith. cbn [rev app].
  destruct (rev s) as [|c r] eqn:E.
  - apply (f_equal (@rev Z)) in E. rewrite rev_involutive in E. subst s. reflexivity.
  - assert (Hs : s = rev r ++ [c]) by (rewrite <- (rev_involutive s), E; reflexivity).
    cbn [py_prefixb]. rewrite andb_true_r, (Z.eqb_sym 47 c). clear E. subst s.
    rewrite endswith_slash_app by discriminate. cbn [endswith_slash].
    destruct (c =? 47) eqn:Ec; [|reflexivity].
    now rewrite py_slice_drop_last, removelast_last.
Qed.

(* ------------------------------------------------------------------ remove_relative_path_marker *)
Lemma py_slice_from {A} (l : list A) n : 0 <= n -> py_slice l (Some n) None = skipn (Z.to_nat n) l.
Proof.
  intros Hn. unfold py_slice, py_len, py_clamp.
  destruct (n <? 0) eqn:E0; [lia|].
  destruct (Z.of_nat (length l) <=? Z.min n (Z.of_nat (length l))) eqn:E1.
  - symmetry. apply skipn_all2. lia.
  - rewrite Z.min_l by lia. apply firstn_all2. rewrite skipn_length. lia.
Qed.

(* for every string: a leading "./" (RELATIVE_PATH_MARKER) is dropped, once *)
Theorem gen_remove_relative_path_marker_spec s :
  HelpersPath.remove_relative_path_marker s =
  Ok (match s with a :: b :: r => if (a =? 46) && (b =? 47) then r else s | _ => s end).
Proof.
  unfold HelpersPath.remove_relative_path_marker, py_startswith. cbv zeta.
  destruct s as [|a [|b r]].
  - reflexivity.
  - cbn [py_prefixb]. now rewrite andb_false_r.
  - cbn [py_prefixb]. rewrite andb_true_r, (Z.eqb_sym 46 a), (Z.eqb_sym 47 b).
    destruct ((a =? 46) && (b =? 47)); [|reflexivity].
    rewrite py_slice_from by (unfold py_len; cbn [length]; lia). reflexivity.
Qed.

(* ------------------------------------------------------------------ _sanitize_archive_arcname *)
(* gen/ArcName.v: SevenZipFile._sanitize_archive_arcname translated for a str argument (os.sep = '/') *)
Lemma gen_startswith_slash s : py_startswith s [47] = startswith_slash s.
Proof.
  destruct s as [|c r]; [reflexivity|]. unfold py_startswith. cbn [py_prefixb startswith_slash].
  rewrite andb_true_r. apply Z.eqb_sym.
Qed.

Lemma gen_lstrip_slash s : py_lstrip s ([47] ++ [47]) = lstrip_slash s.
Proof.
  induction s as [|c r IH]; [reflexivity|]. cbn [py_lstrip lstrip_slash app existsb].
  rewrite orb_false_r, orb_diag. destruct (c =? 47); [exact IH | reflexivity].
Qed.

Lemma gen_drive_prefix s : py_is_some (re_match_alpha_colon s) = drive_prefix s.
Proof.
  destruct s as [|c0 [|c1 r]]; try reflexivity. unfold re_match_alpha_colon, drive_prefix.
  change (re_is_ascii_alpha c0) with (is_ascii_alpha c0). destruct (is_ascii_alpha c0 && (c1 =? 58)); reflexivity.
Qed.

Theorem gen_sanitize_archive_arcname_model s :
  ArcName.sanitize_archive_arcname s = Path.sanitize_archive_arcname s.
Proof.
  unfold ArcName.sanitize_archive_arcname, Path.sanitize_archive_arcname, strip_leading, py_posix_isabs. cbv zeta.
  repeat (progress (rewrite ?gen_lstrip_slash, ?gen_startswith_slash, ?gen_drive_prefix, ?orb_diag,
                      ?(py_slice_from _ 2) by lia; change (Z.to_nat 2) with 2%nat)).
  destruct (startswith_slash s) eqn:E1; cbv iota.
  - destruct (drive_prefix (lstrip_slash s)) eqn:E2; cbv iota; rewrite ?E2; [|reflexivity].
    destruct (startswith_slash (skipn 2 (lstrip_slash s))) eqn:E3; cbv iota; rewrite ?E3; reflexivity.
  - rewrite ?E1. destruct (drive_prefix s) eqn:E2; cbv iota; rewrite ?E1, ?E2; [|reflexivity].
    destruct (startswith_slash (skipn 2 s)) eqn:E3; cbv iota; rewrite ?E3; reflexivity.
Qed.

(* ------------------------------------------------------------------ non-vacuity *)
Example ex_gen_check_rejects :                             (* "a/../../b" *)
  HelpersPath.check_archive_path [97; 47; 46; 46; 47; 46; 46; 47; 98] = Ok false.
Proof. reflexivity. Qed.
Example ex_gen_check_accepts : HelpersPath.check_archive_path [97; 47; 46; 46; 47; 98] = Ok true.   (* "a/../b" *)
Proof. reflexivity. Qed.
Example ex_gen_canonical :                                 (* Path("/a/../../b/c/..") -> parts ['/', 'b'] *)
  HelpersPath.canonical_path [[47; 97; 47; 46; 46; 47; 46; 46; 47; 98; 47; 99; 47; 46; 46]] = Ok [[47]; [98]].
Proof. reflexivity. Qed.
Example ex_gen_strings :                                   (* "./a/" -> "./a" ; "./a/" -> "a/" *)
  HelpersPath.remove_trailing_slash [46; 47; 97; 47] = Ok [46; 47; 97] /\
  HelpersPath.remove_relative_path_marker [46; 47; 97; 47] = Ok [97; 47].
Proof. split; reflexivity. Qed.
Example ex_gen_sanitize :                                  (* "//c://tmp/x" -> "tmp/x"; "c:/d:/x" rejected *)
  ArcName.sanitize_archive_arcname [47; 47; 99; 58; 47; 47; 116; 109; 112; 47; 120] = Ok [116; 109; 112; 47; 120] /\
  ArcName.sanitize_archive_arcname [99; 58; 47; 100; 58; 47; 120] = Err EOther.
Proof. split; reflexivity. Qed.
