(* SpecProofs.v -- C07, writer conformance: whatever py7zr's header writer (Header.v,
   write_header) emits for a header graph of the kind its write sessions build is accepted
   by the STRICT specification reader (Spec.v, s_header), is structurally valid (s_valid)
   and means exactly the members that were written (spec_plans = plans_of).
   Section by section (PackInfo, Coder/Folder/UnpackInfo, SubStreamsInfo, FilesInfo) and
   composed (writer_conforms).  The models (Header.v, Spec.v) are not touched.
   Depends on the writer half of Header.v, on Spec.v and on the primitive lemmas of
   HeaderPrims.v only (not on py7zr's parser, nor on HeaderProofs.v: the few writer-side
   helpers both developments need are restated here). *)
From P7 Require Import Prelude PyPrims Number Header HeaderPrims Spec.
From Coq Require Import ZifyBool ZifyNat.
Ltac Zify.zify_post_hook ::= Z.to_euclidean_division_equations.
Open Scope Z_scope.

(* ================================================================== *)
(* Definitions                                                         *)
(* ================================================================== *)

(* ---- helper definitions (as in HeaderProofs.v) ---- *)
Definition wf_coder (c : coder) : bool := (1 <=? zlen (c_method c)) && (zlen (c_method c) <=? 15).
Definition sub_solid (s : substreams) : bool := existsb (fun n => negb (n =? 1)) (s_nums s).
Definition sub_multi (s : substreams) : bool := existsb (fun n => 1 <? n) (s_nums s).
(* per folder with sub-streams: its sizes add up to Folder.get_unpack_size() *)
Fixpoint wf_sub_sizes (nums : list Z) (fs : list folder) (sizes : list Z) : bool :=
  match nums, fs with
  | [], _ => (length sizes =? 0)%nat
  | n :: nr, f :: fr =>
      if 0 <? n then
        let k := Z.to_nat n in
        (k <=? length sizes)%nat &&
        (match folder_unpack_size f with Ok t => t =? sumZ (firstn k sizes) | Err _ => false end) &&
        wf_sub_sizes nr fr (skipn k sizes)
      else wf_sub_sizes nr fr sizes
  | _ :: _, [] => false
  end.
Definition defined_values (dg : list Z) (dd : list bool) : list Z :=
  map fst (filter (fun p : Z * bool => snd p) (combine dg dd)).
(* what a reader gets back for an entry: mtime/attributes are vectors (always written); the creation /
   access time vector is written exactly when some entry has a defined value (cd / ad = Header.has_time) *)
Definition tnorm (b : bool) (o : option (option Z)) : option (option Z) :=
  if b then Some (flat_opt o) else None.
Definition norm_file (cd ad : bool) (e : fileent) : fileent :=
  mkFile (e_emptystream e) (e_name e) (tnorm cd (e_ctime e)) (tnorm ad (e_atime e))
         (Some (flat_opt (e_mtime e))) (Some (flat_opt (e_attr e))).
Definition norm_files (files : list fileent) : list fileent :=
  map (norm_file (has_time e_ctime files) (has_time e_atime files)) files.
(* the EmptyFile vector as written: one bit per empty-stream entry *)
Definition norm_emptyfiles (files : list fileent) (emptyfiles : list bool) : list bool :=
  let nes := Z.to_nat (count_true (map e_emptystream files)) in
  firstn nes (emptyfiles ++ repeat false nes).
Definition names_of (files : list fileent) : list (list Z) :=
  flat_map (fun f => match e_name f with Some n => [n] | None => [] end) files.
Definition wr_bond (p : Z * Z) : res bytes := do a <- wr_number (fst p); do b <- wr_number (snd p); Ok (a ++ b).
(* reader states after the EMPTY_STREAM, NAME, CREATION_TIME, LAST_ACCESS_TIME and LAST_WRITE_TIME records *)
Definition st1 (e : fileent) : fileent := mkFile (e_emptystream e) None None None None None.
Definition st2 (e : fileent) : fileent := mkFile (e_emptystream e) (e_name e) None None None None.
Definition st2c (cd : bool) (e : fileent) : fileent :=
  mkFile (e_emptystream e) (e_name e) (tnorm cd (e_ctime e)) None None None.
Definition st2a (cd ad : bool) (e : fileent) : fileent :=
  mkFile (e_emptystream e) (e_name e) (tnorm cd (e_ctime e)) (tnorm ad (e_atime e)) None None.
Definition st3 (cd ad : bool) (e : fileent) : fileent :=
  mkFile (e_emptystream e) (e_name e) (tnorm cd (e_ctime e)) (tnorm ad (e_atime e)) (Some (flat_opt (e_mtime e))) None.

(* ---- the header graphs py7zr writes ---- *)
(* Folder.prepare_coderinfo: bindpairs = [Bond(incoder=i+1, outcoder=i) for i in range(n-1)] *)
Definition chain_bonds (n : Z) : list (Z * Z) := map (fun i => (i + 1, i)) (py_range 0 (n - 1)).

Fixpoint pairs_eqb (a b : list (Z * Z)) : bool :=
  match a, b with
  | [], [] => true
  | x :: a', y :: b' => (fst x =? fst y) && (snd x =? snd y) && pairs_eqb a' b'
  | _, _ => false
  end.

(* WW-CODER: one input and one output per coder; a method id of 1..15 bytes (the flag byte stores
   len(method) & 15) *)
Definition wfw_coder (c : coder) : bool := is_simple c && wf_coder c.

Definition wfw_folder (lim : Z) (f : folder) : bool :=
  let n := zlen (f_coders f) in
  (* WW-FOLDER-NCODERS: the format allows 1..32 coders per folder *)
  (1 <=? n) && (n <=? 32) && (n <=? lim) &&
  forallb wfw_coder (f_coders f) &&
  (* WW-FOLDER-CHAIN: coder i feeds coder i+1; hence one packed stream, not listed *)
  pairs_eqb (f_bonds f) (chain_bonds n) &&
  (* WW-FOLDER-UNPACKSIZES: one unpack size per coder *)
  (zlen (f_unpacksizes f) =? n).

Definition wfw_pack (nf : Z) (p : packinfo) : bool :=
  (* WW-PACK-ONE-PER-FOLDER *)
  (p_numstreams p =? nf) &&
  (* WW-PACK-DDLEN: no digest vector at all, or one flag per packed stream *)
  ((length (p_digestdefined p) =? 0)%nat || (zlen (p_digestdefined p) =? p_numstreams p)).

Definition wfw_sub (lim : Z) (fs : list folder) (s : substreams) : bool :=
  (* WW-SUB-NFOLDERS *)
  (length (s_nums s) =? length fs)%nat &&
  (* WW-SUB-LIM *)
  (sumZ (s_nums s) <=? lim) &&
  (* WW-SUB-DIGESTLEN: one flag and one value slot per sub-stream *)
  (zlen (s_digestsdefined s) =? sumZ (s_nums s)) && (zlen (Header.s_digests s) =? sumZ (s_nums s)) &&
  (* WW-SUB-SIZES: the session keeps one non-negative size per sub-stream, and the sizes of a folder's
     sub-streams add up to the folder's unpack size (the last one is never stored) *)
  match s_sizes s with
  | Some sz => forallb (fun x => 0 <=? x) sz && wf_sub_sizes (s_nums s) fs sz
  | None => false
  end.

Definition named_bs (files : list fileent) : bool :=
  forallb (fun f => match e_name f with Some n => wf_name_bs n | None => false end) files.

Definition is_data (e : fileent) : bool := negb (e_emptystream e).

Definition wfw_files (lim : Z) (files : list fileent) (ef : list bool) : bool :=
  (* WW-FILES-LIM *)
  (zlen files <=? lim) &&
  (* WW-FILES-NAMES: every entry has a name of Unicode scalar values without NUL, shorter than 65536
     UTF-16 units (backslashes are fine for the format) *)
  named_bs files &&
  (* WW-EMPTYFILE-ALIGN: one EmptyFile bit per empty-stream entry *)
  (zlen ef =? count_true (map e_emptystream files)).

Definition files_of (h : header) : list fileent := match h_files h with Some f => f | None => [] end.
Definition nums_of (h : header) : list Z :=
  match h_streams h with
  | Some st => match si_sub st with Some sub => s_nums sub | None => [] end
  | None => []
  end.

Definition wf_written_b (lim : Z) (h : header) : bool :=
  match h_streams h with
  | None => true                      (* nothing was ever compressed *)
  | Some st =>
      match si_pack st, si_folders st, si_sub st with
      | Some p, Some fs, Some sub =>
          (zlen fs <=? lim) && wfw_pack (zlen fs) p && forallb (wfw_folder lim) fs && wfw_sub lim fs sub
      | _, _, _ => false              (* Header.initialize creates all three together *)
      end
  end &&
  match h_files h with
  | Some files => wfw_files lim files (h_emptyfiles h)
  | None => (length (h_emptyfiles h) =? 0)%nat
  end &&
  (* WW-DATA-COUNT: every entry with a stream has its sub-stream and vice versa *)
  (zlen (filter is_data (files_of h)) =? sumZ (nums_of h)).

Definition wf_written (lim : Z) (h : header) : Prop := wf_written_b lim h = true.

(* ---- the intended meaning of a written header graph ---- *)
Definition opt_crc (c : Z) (d : bool) : option Z := if d then Some c else None.
Definition crc_opts (dg : list Z) (dd : list bool) : list (option Z) :=
  map (fun p : Z * bool => opt_crc (fst p) (snd p)) (combine dg dd).

(* the members of one folder are consecutive slices of the folder's output *)
Fixpoint folder_slices (fi off : Z) (szs : list Z) (crcs : list (option Z)) : list (Z * Z * Z * option Z) :=
  match szs, crcs with
  | s :: sr, c :: cr => (fi, off, s, c) :: folder_slices fi (off + s) sr cr
  | _, _ => []
  end.
(* folder fi takes the next nums[fi] sizes and CRCs *)
Fixpoint slices_of (fi : Z) (nums sizes : list Z) (crcs : list (option Z)) : list (Z * Z * Z * option Z) :=
  match nums with
  | [] => []
  | n :: nr =>
      let k := Z.to_nat n in
      folder_slices fi 0 (firstn k sizes) (firstn k crcs) ++ slices_of (fi + 1) nr (skipn k sizes) (skipn k crcs)
  end.
(* entry by entry: an empty-stream entry is an empty file (kind 1) if its EmptyFile bit is set, else a
   directory (kind 2); any other entry (kind 0) is the next slice *)
Fixpoint entries_of (files : list fileent) (emptyfile : list bool) (slices : list (Z * Z * Z * option Z)) : list plan :=
  match files with
  | [] => []
  | e :: r =>
      if e_emptystream e then
        match emptyfile with
        | isfile :: er =>
            mkPlan (e_name e) (if isfile then 1 else 2) (-1) 0 0 None (flat_opt (e_mtime e)) (flat_opt (e_attr e))
            :: entries_of r er slices
        | [] => []
        end
      else
        match slices with
        | (fi, off, sz, c) :: sr =>
            mkPlan (e_name e) 0 fi off sz c (flat_opt (e_mtime e)) (flat_opt (e_attr e)) :: entries_of r emptyfile sr
        | [] => []
        end
  end.

Definition slices_written (h : header) : list (Z * Z * Z * option Z) :=
  match h_streams h with
  | Some st =>
      match si_sub st with
      | Some sub => slices_of 0 (s_nums sub) (match s_sizes sub with Some sz => sz | None => [] end)
                              (crc_opts (Header.s_digests sub) (s_digestsdefined sub))
      | None => []
      end
  | None => []
  end.

Definition plans_of (h : header) : list plan := entries_of (files_of h) (h_emptyfiles h) (slices_written h).

(* ---- the semantic header the strict reader returns ---- *)
(* the CRC values PackInfo.write emits: crcs[i] for the defined i *)
Fixpoint sel_defined (dd : list bool) (cs : list Z) : list Z :=
  match dd, cs with
  | d :: ds, c :: cs' => if d then c :: sel_defined ds cs' else sel_defined ds cs'
  | _, _ => []
  end.
(* CRC values placed at the defined positions *)
Fixpoint fill_crcs (dd : list bool) (vals : list Z) : list (option Z) :=
  match dd with
  | [] => []
  | true :: ds => match vals with v :: vs => Some v :: fill_crcs ds vs | [] => None :: fill_crcs ds [] end
  | false :: ds => None :: fill_crcs ds vals
  end.

Definition sem_folder (f : folder) : sfolder := mkSFolder (f_coders f) (f_bonds f) [0] (f_unpacksizes f) None.
Definition bare_folder (f : folder) : sfolder := mkSFolder (f_coders f) (f_bonds f) [0] [] None.

Definition sem_packcrcs (en : bool) (p : packinfo) : list (option Z) :=
  if any_true (p_digestdefined p) || en
  then fill_crcs (p_digestdefined p) (sel_defined (p_digestdefined p) (p_crcs p))
  else repeat None (Z.to_nat (p_numstreams p)).

Definition sem_of (en : bool) (h : header) : sheader :=
  let files := norm_files (files_of h) in
  match h_streams h with
  | Some (mkStreams (Some p) (Some fs) (Some sub)) =>
      mkSHeader (p_pos p) (p_sizes p) (sem_packcrcs en p) (map sem_folder fs)
                (s_nums sub) (match s_sizes sub with Some sz => sz | None => [] end)
                (crc_opts (Header.s_digests sub) (s_digestsdefined sub))
                files (h_emptyfiles h)
  | _ => mkSHeader 0 [] [] [] [] [] [] files (h_emptyfiles h)
  end.

(* ---- FilesInfo as a sequence of property records ---- *)
Definition enc_record (r : Z * bytes) : bytes := fst r :: number_enc (zlen (snd r)) ++ snd r.

Definition time_defined (sel : fileent -> option (option Z)) (files : list fileent) : list bool :=
  map (fun f => opt_defined (sel f)) files.
Definition mtime_defined (files : list fileent) : list bool := time_defined e_mtime files.
(* the content of a time record: defined-vector, external = 0, one 8-byte value per defined entry *)
Definition time_record (sel : fileent -> option (option Z)) (files : list fileent) (body : bytes) : Prop :=
  exists vals,
     wr_list (fun f => if opt_defined (sel f) then wr_fixed 8 (opt_value (sel f)) else Ok []) files = Ok vals /\
     body = wr_boolean (time_defined sel files) true ++ [0] ++ vals /\
     zlen body = 1 + (if all_true (time_defined sel files) then 0 else (zlen files + 7) / 8) + 1
                 + 8 * count_true (time_defined sel files).
Definition attr_defined (files : list fileent) : list bool := map (fun f => opt_defined (e_attr f)) files.

(* what each record written by FilesInfo.write contains, and the size the grammar gives that content *)
Definition record_content (files : list fileent) (efl : list bool) (r : Z * bytes) : Prop :=
  let '(p, body) := r in
  (p = 14 /\ body = wr_bits (map e_emptystream files) /\ zlen body = (zlen files + 7) / 8) \/
  (p = 15 /\ body = wr_bits efl /\ zlen body = (count_true (map e_emptystream files) + 7) / 8) \/
  (p = 25 /\ exists k, body = repeatZ 0 k) \/
  (p = 17 /\ exists nb, wr_list wr_utf16 (names_of files) = Ok nb /\ body = 0 :: nb) \/
  (p = 18 /\ has_time e_ctime files = true /\ time_record e_ctime files body) \/
  (p = 19 /\ has_time e_atime files = true /\ time_record e_atime files body) \/
  (p = 20 /\ time_record e_mtime files body) \/
  (p = 21 /\ exists vals,
     wr_list (fun f => if opt_defined (e_attr f) then wr_fixed 4 (opt_value (e_attr f)) else Ok []) files = Ok vals /\
     body = wr_boolean (attr_defined files) true ++ [0] ++ vals /\
     zlen body = 1 + (if all_true (attr_defined files) then 0 else (zlen files + 7) / 8) + 1
                 + 4 * count_true (attr_defined files)).

(* ================================================================== *)
(* Writer-side helpers (as in HeaderProofs.v)                          *)
(* ================================================================== *)
Ltac norm_app := repeat (progress (rewrite <- ?app_assoc; cbn [app])).
Ltac bstep H := rewrite H; cbn [bind].

Lemma sumZ_acc l : forall a, fold_left Z.add l a = a + sumZ l.
Proof.
  unfold sumZ. induction l as [|x l IH]; intros a; cbn [fold_left]; [lia|].
  rewrite (IH (a + x)), (IH (0 + x)). lia.
Qed.
Lemma sumZ_nil : sumZ [] = 0.
Proof. reflexivity. Qed.
Lemma sumZ_cons x l : sumZ (x :: l) = x + sumZ l.
Proof. unfold sumZ at 1. cbn [fold_left]. rewrite sumZ_acc. lia. Qed.
Lemma sumZ_app a b : sumZ (a ++ b) = sumZ a + sumZ b.
Proof. induction a as [|x a IH]; [cbn [app]; rewrite sumZ_nil; lia|]. cbn [app]. rewrite !sumZ_cons, IH. lia. Qed.

Lemma flag_bits k a b : 0 <= k < 16 -> (a = 0 \/ a = 16) -> (b = 0 \/ b = 32) ->
  Z.land (k + a + b) 15 = k /\ Z.land (k + a + b) 16 = a /\ Z.land (k + a + b) 32 = b.
Proof.
  intros Hk Ha Hb.
  assert (H : k = 0 \/ k = 1 \/ k = 2 \/ k = 3 \/ k = 4 \/ k = 5 \/ k = 6 \/ k = 7 \/ k = 8 \/ k = 9 \/
              k = 10 \/ k = 11 \/ k = 12 \/ k = 13 \/ k = 14 \/ k = 15) by lia.
  destruct Ha as [-> | ->]; destruct Hb as [-> | ->];
    repeat (destruct H as [-> | H]; [repeat split; reflexivity|]); subst; repeat split; reflexivity.
Qed.
Lemma land15_small k : 0 <= k < 16 -> Z.land k 15 = k.
Proof. intros H. destruct (flag_bits k 0 0 H) as [E _]; auto. rewrite !Z.add_0_r in E. exact E. Qed.

Lemma write_coder_nonempty c bs : write_coder c = Ok bs -> bs <> [].
Proof.
  unfold write_coder. intros H. bind_inv H cx Hcx. bind_inv H pr Hpr. apply Ok_inj in H. subst bs. discriminate.
Qed.
Lemma wr_bond_nonempty p bs : wr_bond p = Ok bs -> bs <> [].
Proof.
  unfold wr_bond. intros H. bind_inv H a Ha. bind_inv H b Hb. apply Ok_inj in H. subst bs.
  apply wr_number_nonempty in Ha. destruct a; [congruence|discriminate].
Qed.
Lemma write_folder_nonempty f bs : write_folder f = Ok bs -> bs <> [].
Proof.
  unfold write_folder. intros H. bind_inv H n Hn. bind_inv H cs Hc. bind_inv H bo Hb. bind_inv H pk Hp.
  apply Ok_inj in H. subst bs. apply wr_number_nonempty in Hn. destruct n; [congruence|discriminate].
Qed.
Lemma forallb_Forall {A} (f : A -> bool) l : forallb f l = true -> Forall (fun x => f x = true) l.
Proof. intros H. apply Forall_forall. apply forallb_forall. exact H. Qed.

Lemma firstn_S_snoc {A} (d : A) l : forall j, (j < length l)%nat -> firstn (S j) l = firstn j l ++ [nth j l d].
Proof.
  induction l as [|x l IH]; intros j Hj; [cbn [length] in Hj; lia|].
  destruct j as [|j]; [reflexivity|]. cbn [length] in Hj.
  change (firstn (S (S j)) (x :: l)) with (x :: firstn (S j) l). rewrite (IH j) by lia. reflexivity.
Qed.
Lemma zlen_skipn {A} k (l : list A) : (k <= length l)%nat -> zlen (skipn k l) = zlen l - Z.of_nat k.
Proof. intros H. unfold zlen. rewrite skipn_length. lia. Qed.
Lemma zlen_repeatZ x n : zlen (repeatZ x n) = Z.of_nat n.
Proof. unfold zlen. induction n; cbn [repeatZ length]; lia. Qed.

Lemma wr_list_numbers_range l x : wr_list wr_number l = Ok x -> Forall (fun n => 0 <= n < 2^64) l.
Proof.
  revert x. induction l as [|n l IH]; intros x H; [constructor|].
  apply wr_list_cons_inv in H as [a [b [Ha [Hb _]]]]. apply wr_number_inv in Ha as [Hn _].
  constructor; [exact Hn|eapply IH; exact Hb].
Qed.
Lemma not_solid_ones nums : existsb (fun n => negb (n =? 1)) nums = false -> nums = repeat 1 (length nums).
Proof.
  induction nums as [|n nr IH]; intros H; [reflexivity|].
  cbn [existsb] in H. apply orb_false_iff in H as [Hn Hr]. cbn [length repeat]. f_equal; [lia|apply IH; exact Hr].
Qed.
Lemma not_solid_not_multi nums :
  existsb (fun n => negb (n =? 1)) nums = false -> existsb (fun n => 1 <? n) nums = false.
Proof.
  induction nums as [|n nr IH]; intros H; [reflexivity|].
  cbn [existsb] in *. apply orb_false_iff in H as [Hn Hr]. rewrite (IH Hr). lia.
Qed.
Lemma sum_bound_each lim nums : Forall (fun n => 0 <= n) nums -> sumZ nums <= lim ->
  Forall (fun n => 0 <= n <= lim) nums /\ 0 <= sumZ nums.
Proof.
  induction 1 as [|n nr Hn Hnr IH]; intros Hs; [split; [constructor|rewrite sumZ_nil; lia]|].
  rewrite sumZ_cons in *.
  assert (H0 : 0 <= sumZ nr). { clear - Hnr. induction Hnr; [rewrite sumZ_nil; lia|rewrite sumZ_cons; lia]. }
  destruct IH as [IH _]; [lia|]. split; [constructor; [lia|exact IH]|lia].
Qed.
Lemma existsb_lim_false lim nums : Forall (fun n => 0 <= n <= lim) nums -> existsb (fun n => lim <? n) nums = false.
Proof. induction 1 as [|n nr Hn _ IH]; [reflexivity|]. cbn [existsb]. rewrite IH. lia. Qed.

Lemma norm_emptyfiles_length files ef :
  length (norm_emptyfiles files ef) = Z.to_nat (count_true (map e_emptystream files)).
Proof. unfold norm_emptyfiles. cbv zeta. rewrite firstn_length, app_length, repeat_length. lia. Qed.
Lemma zip_update_empty files :
  zip_update set_empty (repeat empty_file (length files)) (map e_emptystream files) = map st1 files.
Proof. induction files as [|e fs IH]; [reflexivity|]. cbn [length repeat map zip_update]. rewrite IH. reflexivity. Qed.
Lemma no_empty_st1 files :
  any_true (map e_emptystream files) = false -> repeat empty_file (length files) = map st1 files.
Proof.
  induction files as [|e fs IH]; intros H; [reflexivity|].
  cbn [map any_true existsb] in H. apply orb_false_iff in H as [He Hr].
  cbn [length repeat map]. rewrite (IH Hr). unfold st1. rewrite He. reflexivity.
Qed.

(* the kDummy record, whatever the position *)
Lemma pad_cases p :
  let padlen0 := (- p) mod 4 in
  let padlen := if (0 <? padlen0) && (padlen0 <=? 2) then padlen0 + 4 else padlen0 in
  let pad := if 2 <? padlen then [25; padlen - 2] ++ repeatZ 0 (Z.to_nat (padlen - 2)) else [] in
  pad = [] \/ exists d, 0 <= d < 128 /\ pad = 25 :: d :: repeatZ 0 (Z.to_nat d).
Proof.
  cbv zeta. pose proof (Z.mod_pos_bound (- p) 4 ltac:(lia)) as Hm.
  set (m := (- p) mod 4) in *. clearbody m.
  destruct ((0 <? m) && (m <=? 2)) eqn:E1.
  - destruct (2 <? m + 4) eqn:E2; [|lia]. right. exists (m + 4 - 2). split; [lia|reflexivity].
  - destruct (2 <? m) eqn:E2; [|left; reflexivity]. right. exists (m - 2). split; [lia|reflexivity].
Qed.

(* length of the values of a time/attribute vector: n bytes per DEFINED entry *)
Lemma vector_vals_length n sel (files : list fileent) : forall vals,
  wr_list (fun f => if opt_defined (sel f) then wr_fixed n (opt_value (sel f)) else Ok []) files = Ok vals ->
  zlen vals = Z.of_nat n * count_true (map (fun f => opt_defined (sel f)) files).
Proof.
  induction files as [|e fs IH]; intros vals Hw.
  - cbn in Hw. apply Ok_inj in Hw. subst. unfold count_true, zlen. cbn. lia.
  - apply wr_list_cons_inv in Hw as [a [b [Ha [Hb ->]]]]. specialize (IH b Hb).
    cbn [map]. rewrite count_true_cons, zlen_app, IH.
    destruct (opt_defined (sel e)).
    + apply wr_fixed_length in Ha. unfold zlen. lia.
    + apply Ok_inj in Ha. subst a. rewrite zlen_nil. lia.
Qed.
(* the size of a vector record: defined-vector (1 byte, plus the bit field unless all are defined),
   the `external` byte, the values *)
Lemma vector_record_size n defined vals total :
  zlen defined = total -> zlen vals = n * count_true defined ->
  zlen (wr_boolean defined true ++ [0] ++ vals) =
    count_true defined * n + 2 + (if all_true defined then 0 else (total + 7) / 8).
Proof.
  intros H1 H2. rewrite !zlen_app, wr_boolean_length, H2, H1. change (zlen [0]) with 1. destruct (all_true defined); lia.
Qed.

(* ================================================================== *)
(* Strict primitive readers on what the writers emit                   *)
(* ================================================================== *)
Theorem s_number_wr v bs r : wr_number v = Ok bs -> s_number (bs ++ r) = Ok (v, r).
Proof.
  intros H. apply wr_number_inv in H as [Hv ->]. unfold s_number. rewrite number_spec_enc by exact Hv. reflexivity.
Qed.

Lemma s_number_small b r : 0 <= b < 128 -> s_number (b :: r) = Ok (b, r).
Proof.
  intros Hb. unfold s_number, spec_number, leading_ones. destruct (b <? 128) eqn:E; [|lia].
  cbn [Nat.ltb Nat.leb length firstn skipn le_value Z.of_nat]. cbv zeta.
  destruct (length r <? 0)%nat eqn:E2; [lia|].
  cbn [Nat.ltb Nat.leb firstn skipn le_value Z.of_nat]. f_equal. f_equal.
  change (7 - 0) with 7. change (2 ^ 7) with 128. change (256 ^ 0) with 1. lia.
Qed.

Lemma s_fixed_rd n bs x : rd_fixed n bs = Ok x -> s_fixed n bs = Ok x.
Proof. unfold rd_fixed, s_fixed. destruct (length bs <? n)%nat; [discriminate|auto]. Qed.

Theorem s_fixed_wr n v bs r : wr_fixed n v = Ok bs -> s_fixed n (bs ++ r) = Ok (v, r).
Proof. intros H. apply s_fixed_rd. apply rd_fixed_wr. exact H. Qed.

Lemma s_bytes_app a r : s_bytes (zlen a) (a ++ r) = Ok (a, r).
Proof.
  unfold s_bytes. rewrite zlen_app. pose proof (zlen_nonneg a). pose proof (zlen_nonneg r).
  destruct ((zlen a <? 0) || (zlen a + zlen r <? zlen a)) eqn:E; [lia|]. rewrite takeZ_app, dropZ_app. reflexivity.
Qed.

Lemma s_many_ok {A} lim n (rd : reader A) bs x : n <= lim -> rd_many n rd bs = Ok x -> s_many lim n rd bs = Ok x.
Proof. intros Hn H. unfold s_many. destruct (lim <? n) eqn:E; [lia|]. rewrite H. reflexivity. Qed.

Theorem s_many_numbers lim l bs r : zlen l <= lim ->
  wr_list wr_number l = Ok bs -> s_many lim (zlen l) s_number (bs ++ r) = Ok (l, r).
Proof.
  intros Hl Hw. apply s_many_ok; [exact Hl|].
  apply (rd_many_wr_list (fun _ => True) wr_number s_number); auto using Forall_True.
  - intros x b r0 _ H. apply s_number_wr. exact H.
  - intros x b _ H. eapply wr_number_nonempty. exact H.
Qed.

Theorem s_bits_wr l r : s_bits (zlen l) (wr_bits l ++ r) = Ok (l, r).
Proof.
  unfold s_bits. rewrite zlen_app, wr_bits_length. pose proof (zlen_nonneg r).
  destruct ((zlen l + 7) / 8 + zlen r <? (zlen l + 7) / 8) eqn:E; [lia|].
  rewrite rd_bits_wr_bits. reflexivity.
Qed.

(* "Digests": values for the defined entries only *)
Lemma s_defined_crcs_wr dd : forall vals x r,
  wr_list (wr_fixed 4) vals = Ok x -> zlen vals = count_true dd ->
  s_defined_crcs dd (x ++ r) = Ok (fill_crcs dd vals, r).
Proof.
  induction dd as [|d ds IH]; intros vals x r Hw Hc.
  - destruct vals; [|rewrite zlen_cons in Hc; pose proof (zlen_nonneg vals); change (count_true []) with 0 in Hc; lia].
    cbn in Hw. apply Ok_inj in Hw. subst x. reflexivity.
  - rewrite count_true_cons in Hc. destruct d.
    + destruct vals as [|v vs]; [rewrite zlen_nil in Hc; pose proof (count_true_bounds ds); lia|].
      apply wr_list_cons_inv in Hw as [a [b [Ha [Hb ->]]]]. rewrite zlen_cons in Hc.
      cbn [s_defined_crcs fill_crcs]. rewrite <- app_assoc. rewrite (s_fixed_wr 4 v a (b ++ r) Ha). cbn [bind].
      rewrite (IH vs b r Hb) by lia. reflexivity.
    + cbn [s_defined_crcs fill_crcs]. rewrite (IH vals x r Hw) by lia. reflexivity.
Qed.

Lemma fill_crcs_length dd : forall vals, length (fill_crcs dd vals) = length dd.
Proof.
  induction dd as [|d ds IH]; intros vals; [reflexivity|].
  destruct d; [destruct vals|]; cbn [fill_crcs length]; rewrite IH; reflexivity.
Qed.

Theorem s_digests_wr lim dd vals x r :
  zlen dd <= lim -> wr_list (wr_fixed 4) vals = Ok x -> zlen vals = count_true dd ->
  s_digests lim (zlen dd) (wr_boolean dd true ++ x ++ r) = Ok (fill_crcs dd vals, r).
Proof.
  intros Hl Hw Hc. unfold s_digests, wr_boolean. destruct (lim <? zlen dd) eqn:E; [lia|].
  cbn [andb]. destruct (all_true dd) eqn:Ea.
  - cbn [app s_byte bind Z.eqb]. unfold zlen. rewrite Nat2Z.id, <- (all_true_repeat dd Ea).
    apply s_defined_crcs_wr; assumption.
  - cbn [app s_byte bind Z.eqb]. rewrite <- ?app_assoc. rewrite s_bits_wr. cbn [bind].
    apply s_defined_crcs_wr; assumption.
Qed.

(* the defined values of a (digests, digestsdefined) pair fill back to one option per entry *)
Lemma fill_defined_values dd : forall dg, (length dd <= length dg)%nat ->
  fill_crcs dd (defined_values dg dd) = crc_opts dg dd /\ zlen (defined_values dg dd) = count_true dd.
Proof.
  unfold defined_values, crc_opts.
  induction dd as [|d dd IH]; intros dg Hl.
  - destruct dg; split; reflexivity.
  - destruct dg as [|c dg]; [cbn [length] in Hl; lia|]. cbn [length] in Hl.
    destruct (IH dg ltac:(lia)) as [H1 H2].
    cbn [combine filter map snd fst]. rewrite count_true_cons. destruct d; cbn [map fst snd fill_crcs opt_crc].
    + rewrite zlen_cons, H1, H2. split; [reflexivity|lia].
    + rewrite H1, H2. split; [reflexivity|lia].
Qed.

Lemma crc_opts_length dg dd : length dd = length dg -> length (crc_opts dg dd) = length dd.
Proof. intros H. unfold crc_opts. rewrite map_length, combine_length. lia. Qed.

(* ================================================================== *)
(* PackInfo                                                            *)
(* ================================================================== *)
Lemma wr_pack_crcs_sel dd : forall crcs x,
  wr_pack_crcs dd crcs = Ok x ->
  wr_list (wr_fixed 4) (sel_defined dd crcs) = Ok x /\ count_true dd = zlen (sel_defined dd crcs).
Proof.
  induction dd as [|d ds IH]; intros crcs x H.
  - cbn in H. apply Ok_inj in H. subst. split; reflexivity.
  - cbn [wr_pack_crcs] in H. rewrite count_true_cons. destruct crcs as [|c cs].
    + destruct d; [discriminate|]. destruct (IH [] x H) as [H1 H2].
      cbn [sel_defined]. destruct ds; cbn [sel_defined] in *; split; auto; lia.
    + bind_inv H a Ha. bind_inv H b Hb. apply Ok_inj in H. subst x.
      destruct (IH cs b Hb) as [H1 H2]. cbn [sel_defined]. destruct d.
      * cbn [wr_list]. rewrite Ha, H1. cbn [bind]. rewrite zlen_cons. split; [reflexivity|lia].
      * apply Ok_inj in Ha. subst a. cbn [app]. split; [exact H1|lia].
Qed.

Theorem s_packinfo_wr lim en nf p bs :
  wfw_pack nf p = true -> nf <= lim -> write_packinfo en p = Ok bs ->
  exists body, bs = 6 :: body /\
    forall r, s_packinfo lim (body ++ r) = Ok ((p_pos p, p_sizes p, sem_packcrcs en p), r).
Proof.
  unfold wfw_pack, write_packinfo. intros Hwf Hlim Hw.
  apply andb_true_iff in Hwf as [Hnf Hdd].
  destruct (negb (p_numstreams p =? zlen (p_sizes p))) eqn:En; [discriminate|].
  bind_inv Hw a Ha. bind_inv Hw b Hb. bind_inv Hw c Hc. bind_inv Hw d Hd.
  apply Ok_inj in Hw. subst bs. cbn [app]. eexists. split; [reflexivity|]. intros r.
  unfold s_packinfo. norm_app.
  bstep (s_number_wr _ _ (b ++ 9 :: c ++ d ++ 0 :: r) Ha).
  bstep (s_number_wr _ _ (9 :: c ++ d ++ 0 :: r) Hb).
  cbn [s_byte bind Z.eqb Pos.eqb].
  replace (p_numstreams p) with (zlen (p_sizes p)) at 1 by lia.
  bstep (s_many_numbers lim (p_sizes p) c (d ++ 0 :: r) ltac:(lia) Hc).
  unfold sem_packcrcs. destruct (any_true (p_digestdefined p) || en) eqn:Een.
  - destruct (negb (zlen (p_crcs p) =? p_numstreams p)) eqn:E1; [discriminate|].
    destruct (length (p_digestdefined p) <? length (p_sizes p))%nat eqn:E2; [discriminate|].
    bind_inv Hd x Hx. apply Ok_inj in Hd. subst d. norm_app. cbn [s_byte bind Z.eqb Pos.eqb].
    assert (Hlen : zlen (p_digestdefined p) = p_numstreams p) by (unfold zlen in *; lia).
    rewrite firstn_all2 in Hx by (unfold zlen in *; lia).
    destruct (wr_pack_crcs_sel _ _ _ Hx) as [Hx1 Hx2].
    rewrite <- Hlen at 1.
    rewrite (s_digests_wr lim (p_digestdefined p) _ x (0 :: r) ltac:(lia) Hx1 (eq_sym Hx2)). cbn [bind s_byte Z.eqb negb].
    destruct (zlen (p_sizes p) =? p_numstreams p) eqn:E3; [reflexivity|lia].
  - apply Ok_inj in Hd. subst d. cbn [app s_byte bind Z.eqb negb].
    destruct (zlen (p_sizes p) =? p_numstreams p) eqn:E3; [|lia].
    replace (Z.min (p_numstreams p) lim) with (p_numstreams p) by lia. reflexivity.
Qed.

Lemma sem_packcrcs_length en nf p :
  wfw_pack nf p = true -> 0 <= p_numstreams p ->
  (any_true (p_digestdefined p) || en = true -> zlen (p_digestdefined p) = p_numstreams p) ->
  zlen (sem_packcrcs en p) = p_numstreams p.
Proof.
  intros _ Hn Hdd. unfold sem_packcrcs. destruct (any_true (p_digestdefined p) || en).
  - unfold zlen. rewrite fill_crcs_length. apply Hdd. reflexivity.
  - rewrite zlen_repeat. lia.
Qed.

(* ================================================================== *)
(* Coder, Folder, UnpackInfo                                           *)
(* ================================================================== *)
Lemma flag_reserved k b : 0 <= k < 16 -> (b = 0 \/ b = 32) -> Z.land (k + 0 + b) 192 = 0.
Proof.
  intros Hk Hb.
  assert (H : k = 0 \/ k = 1 \/ k = 2 \/ k = 3 \/ k = 4 \/ k = 5 \/ k = 6 \/ k = 7 \/ k = 8 \/ k = 9 \/
              k = 10 \/ k = 11 \/ k = 12 \/ k = 13 \/ k = 14 \/ k = 15) by lia.
  destruct Hb as [-> | ->];
    repeat (destruct H as [-> | H]; [reflexivity|]); subst; reflexivity.
Qed.

Theorem s_coder_wr c bs r :
  wfw_coder c = true -> write_coder c = Ok bs -> s_coder (bs ++ r) = Ok (c, r).
Proof.
  unfold wfw_coder, wf_coder, write_coder. intros Hwf Hw. apply andb_true_iff in Hwf as [Hs Hwf].
  apply andb_true_iff in Hwf as [Hm1 Hm2]. rewrite Hs in Hw.
  destruct c as [m nin nout props]. cbn [c_method c_nin c_nout c_props] in *.
  unfold is_simple in Hs. cbn [c_nin c_nout] in Hs.
  assert (nin = 1) by lia. assert (nout = 1) by lia. subst nin nout.
  rewrite land15_small in Hw by lia.
  cbn [bind] in Hw. bind_inv Hw pr Hpr. apply Ok_inj in Hw. subst bs.
  set (b := match props with Some _ => 32 | None => 0 end) in *.
  assert (Hb : b = 0 \/ b = 32) by (unfold b; destruct props; auto).
  destruct (flag_bits (zlen m) 0 b ltac:(lia) ltac:(auto) Hb) as [F1 [F2 F3]].
  pose proof (flag_reserved (zlen m) b ltac:(lia) Hb) as F4.
  unfold s_coder. norm_app. cbn [s_byte bind]. cbv zeta. rewrite F1, F2, F3, F4.
  cbn [Z.eqb negb]. rewrite takeZ_all. rewrite s_bytes_app. cbn [bind].
  unfold b in *. clear b Hb F1 F2 F3 F4.
  destruct props as [p|].
  - bind_inv Hpr l Hl. apply Ok_inj in Hpr. subst pr. cbn [Z.eqb negb Pos.eqb]. norm_app.
    bstep (s_number_wr _ _ (p ++ r) Hl). rewrite s_bytes_app. reflexivity.
  - apply Ok_inj in Hpr. subst pr. cbn [Z.eqb negb app bind]. reflexivity.
Qed.

Lemma s_bond_wr p bs r : wr_bond p = Ok bs -> s_bond (bs ++ r) = Ok (p, r).
Proof.
  unfold wr_bond, s_bond. intros H. bind_inv H a Ha. bind_inv H b Hb. apply Ok_inj in H. subst bs.
  norm_app. bstep (s_number_wr _ _ (b ++ r) Ha). bstep (s_number_wr _ _ r Hb). destruct p; reflexivity.
Qed.

Lemma pairs_eqb_eq a : forall b, pairs_eqb a b = true -> a = b.
Proof.
  induction a as [|[x1 x2] a IH]; intros [|[y1 y2] b] H; cbn in H; try discriminate; [reflexivity|].
  apply andb_true_iff in H as [Hx Hr]. f_equal; [f_equal; lia|apply IH; exact Hr].
Qed.

Lemma simple_sums cs : forallb wfw_coder cs = true ->
  sumZ (map c_nin cs) = zlen cs /\ sumZ (map c_nout cs) = zlen cs /\
  sumZ (map (fun c => Z.max (c_nout c) 0) cs) = zlen cs.
Proof.
  induction cs as [|c cs IH]; intros H; [repeat split; reflexivity|].
  cbn [forallb] in H. apply andb_true_iff in H as [Hc Hr]. destruct (IH Hr) as [I1 [I2 I3]].
  unfold wfw_coder, is_simple in Hc. cbn [map]. rewrite !sumZ_cons, zlen_cons, I1, I2, I3. lia.
Qed.

(* the chain of bonds binds inputs 1..n-1 and outputs 0..n-2 *)
Lemma chain_in_bound i : forall k a,
  existsb (fun p : Z * Z => fst p =? i) (map (fun j => (j + 1, j)) (range_from a k)) =
  (a + 1 <=? i) && (i <=? a + Z.of_nat k).
Proof.
  induction k as [|k IH]; intros a; [cbn [range_from map existsb]; lia|].
  cbn [range_from map existsb fst]. rewrite IH. lia.
Qed.
Lemma chain_out_bound i : forall k a,
  existsb (fun p : Z * Z => snd p =? i) (map (fun j => (j + 1, j)) (range_from a k)) =
  (a <=? i) && (i <? a + Z.of_nat k).
Proof.
  induction k as [|k IH]; intros a; [cbn [range_from map existsb]; lia|].
  cbn [range_from map existsb snd]. rewrite IH. lia.
Qed.

Lemma chain_bonds_length n : 1 <= n -> zlen (chain_bonds n) = n - 1.
Proof. intros Hn. unfold chain_bonds, py_range, zlen. rewrite map_length, range_from_length. lia. Qed.

Lemma filter_range_none (f : Z -> bool) : forall k a,
  (forall i, a <= i < a + Z.of_nat k -> f i = false) -> filter f (range_from a k) = [].
Proof.
  induction k as [|k IH]; intros a H; [reflexivity|].
  cbn [range_from filter]. rewrite (H a) by lia. apply IH. intros i Hi. apply H. lia.
Qed.

Lemma chain_packed n : 1 <= n ->
  filter (fun i => negb (find_in_bond (chain_bonds n) i)) (py_range 0 n) = [0].
Proof.
  intros Hn. unfold py_range. replace (Z.to_nat (n - 0)) with (S (Z.to_nat (n - 1))) by lia.
  cbn [range_from filter]. unfold find_in_bond at 1, chain_bonds, py_range. rewrite chain_in_bound.
  replace ((0 + 1 <=? 0) && (0 <=? 0 + Z.of_nat (Z.to_nat (n - 1 - 0)))) with false by lia. cbn [negb].
  f_equal. apply filter_range_none. intros i Hi. unfold find_in_bond. rewrite chain_in_bound. lia.
Qed.

Lemma range_from_snoc : forall k a, range_from a (S k) = range_from a k ++ [a + Z.of_nat k].
Proof.
  induction k as [|k IH]; intros a; [cbn [range_from app]; f_equal; lia|].
  change (range_from a (S (S k))) with (a :: range_from (a + 1) (S k)). rewrite IH.
  cbn [range_from app]. do 3 f_equal. lia.
Qed.

Lemma find_range_skip (f : Z -> bool) l : forall k a,
  (forall i, a <= i < a + Z.of_nat k -> f i = false) -> find f (range_from a k ++ l) = find f l.
Proof.
  induction k as [|k IH]; intros a H; [reflexivity|].
  cbn [range_from app find]. rewrite (H a) by lia. apply IH. intros i Hi. apply H. lia.
Qed.

(* both readings of "the folder's unpack size" give the last coder's output size *)
Lemma chain_unpack_size_spec f : let n := zlen (f_coders f) in
  1 <= n -> f_bonds f = chain_bonds n -> zlen (f_unpacksizes f) = n ->
  sfolder_unpack_size (sem_folder f) = Ok (nth (Z.to_nat (n - 1)) (f_unpacksizes f) 0).
Proof.
  cbv zeta. intros Hn Hb Hu. unfold sfolder_unpack_size. cbn [sem_folder sf_unpacksizes sf_bonds].
  rewrite Hu, Hb. unfold py_range. replace (Z.to_nat (zlen (f_coders f) - 0)) with (S (Z.to_nat (zlen (f_coders f) - 1))) by lia.
  rewrite range_from_snoc, find_range_skip.
  2:{ intros i Hi. unfold find_out_bond, chain_bonds, py_range. rewrite chain_out_bound. lia. }
  cbn [find]. unfold find_out_bond, chain_bonds, py_range. rewrite chain_out_bound.
  replace ((0 <=? 0 + Z.of_nat (Z.to_nat (zlen (f_coders f) - 1))) &&
           (0 + Z.of_nat (Z.to_nat (zlen (f_coders f) - 1)) <? 0 + Z.of_nat (Z.to_nat (zlen (f_coders f) - 1 - 0))))
    with false by lia.
  cbn [negb]. replace (0 + Z.of_nat (Z.to_nat (zlen (f_coders f) - 1))) with (zlen (f_coders f) - 1) by lia.
  destruct (nth_error (f_unpacksizes f) (Z.to_nat (zlen (f_coders f) - 1))) as [v|] eqn:E.
  - rewrite (nth_error_nth _ _ 0 E). reflexivity.
  - apply nth_error_None in E. unfold zlen in *. lia.
Qed.

Lemma chain_unpack_size_impl f : let n := zlen (f_coders f) in
  1 <= n -> f_bonds f = chain_bonds n -> zlen (f_unpacksizes f) = n ->
  folder_unpack_size f = Ok (nth (Z.to_nat (n - 1)) (f_unpacksizes f) 0).
Proof.
  cbv zeta. intros Hn Hb Hu. unfold folder_unpack_size. cbv zeta.
  rewrite Hu, Hb. unfold py_range. replace (Z.to_nat (zlen (f_coders f) - 0)) with (S (Z.to_nat (zlen (f_coders f) - 1))) by lia.
  rewrite range_from_snoc, rev_app_distr. cbn [rev app find].
  unfold find_out_bond, chain_bonds, py_range. rewrite chain_out_bound.
  replace ((0 <=? 0 + Z.of_nat (Z.to_nat (zlen (f_coders f) - 1))) &&
           (0 + Z.of_nat (Z.to_nat (zlen (f_coders f) - 1)) <? 0 + Z.of_nat (Z.to_nat (zlen (f_coders f) - 1 - 0))))
    with false by lia.
  cbn [negb]. replace (0 + Z.of_nat (Z.to_nat (zlen (f_coders f) - 1))) with (zlen (f_coders f) - 1) by lia.
  unfold py_index, py_len. fold (zlen (f_unpacksizes f)). rewrite Hu.
  destruct (zlen (f_coders f) - 1 <? 0) eqn:E0; [lia|].
  destruct ((zlen (f_coders f) - 1 <? 0) || (zlen (f_coders f) <=? zlen (f_coders f) - 1)) eqn:E1; [lia|].
  destruct (nth_error (f_unpacksizes f) (Z.to_nat (zlen (f_coders f) - 1))) as [v|] eqn:E.
  - rewrite (nth_error_nth _ _ 0 E). reflexivity.
  - apply nth_error_None in E. unfold zlen in *. lia.
Qed.

Lemma wfw_folder_inv lim f : wfw_folder lim f = true ->
  1 <= zlen (f_coders f) <= 32 /\ zlen (f_coders f) <= lim /\ forallb wfw_coder (f_coders f) = true /\
  f_bonds f = chain_bonds (zlen (f_coders f)) /\ zlen (f_unpacksizes f) = zlen (f_coders f).
Proof.
  unfold wfw_folder. cbv zeta. intros H.
  apply andb_true_iff in H as [H H6]. apply andb_true_iff in H as [H H5]. apply andb_true_iff in H as [H H4].
  apply andb_true_iff in H as [H H3]. apply andb_true_iff in H as [H1 H2].
  apply pairs_eqb_eq in H5. repeat split; try lia; assumption.
Qed.

Theorem s_folder_wr lim f bs r :
  wfw_folder lim f = true -> write_folder f = Ok bs -> s_folder lim (bs ++ r) = Ok (bare_folder f, r).
Proof.
  intros Hwf Hw. destruct (wfw_folder_inv lim f Hwf) as [Hn [Hl [Hcs [Hbo Hus]]]].
  destruct (simple_sums _ Hcs) as [Sin [Sout _]].
  unfold write_folder in Hw.
  bind_inv Hw n Hnn. bind_inv Hw cs Hc. bind_inv Hw bo Hb. bind_inv Hw pk Hp. apply Ok_inj in Hw. subst bs.
  rewrite Sin, Sout in Hp. destruct (0 <? zlen (f_coders f) - zlen (f_coders f)) eqn:E0; [lia|].
  apply Ok_inj in Hp. subst pk.
  unfold s_folder. norm_app.
  bstep (s_number_wr _ _ (cs ++ bo ++ r) Hnn).
  destruct ((zlen (f_coders f) <=? 0) || (32 <? zlen (f_coders f))) eqn:E1; [lia|].
  rewrite (s_many_ok lim (zlen (f_coders f)) s_coder (cs ++ bo ++ r) (f_coders f, bo ++ r) Hl).
  2:{ apply (rd_many_wr_list (fun c => wfw_coder c = true) write_coder s_coder);
        [intros; apply s_coder_wr; assumption|intros x b _ Hx; eapply write_coder_nonempty; exact Hx
        |exact Hc|apply forallb_Forall; exact Hcs]. }
  cbn [bind]. cbv zeta. rewrite Sin, Sout.
  destruct ((lim <? zlen (f_coders f)) || (lim <? zlen (f_coders f)) || (zlen (f_coders f) <? 1)) eqn:E2; [lia|].
  pose proof (chain_bonds_length (zlen (f_coders f)) ltac:(lia)) as Hbl. rewrite <- Hbo in Hbl.
  rewrite (s_many_ok lim (zlen (f_coders f) - 1) s_bond (bo ++ r) (f_bonds f, r) ltac:(lia)).
  2:{ rewrite <- Hbl. apply (rd_many_wr_list (fun _ => True) wr_bond s_bond);
        [intros; apply s_bond_wr; assumption|intros x b _ Hx; eapply wr_bond_nonempty; exact Hx
        |exact Hb|apply Forall_True]. }
  cbn [bind].
  destruct (zlen (f_coders f) - (zlen (f_coders f) - 1) <? 1) eqn:E3; [lia|].
  destruct (zlen (f_coders f) - (zlen (f_coders f) - 1) =? 1) eqn:E4; [|lia].
  assert (Hpk : filter (fun i => negb (find_in_bond (f_bonds f) i)) (py_range 0 (zlen (f_coders f))) = [0])
    by (rewrite Hbo; apply chain_packed; lia).
  rewrite Hpk. reflexivity.
Qed.

Lemma s_unpacksizes_wr lim fs : forall us r,
  wr_list (fun f => wr_list wr_number (f_unpacksizes f)) fs = Ok us ->
  Forall (fun f => wfw_folder lim f = true) fs ->
  s_unpacksizes lim (map bare_folder fs) (us ++ r) = Ok (map sem_folder fs, r).
Proof.
  induction fs as [|f fs IH]; intros us r Hw HF.
  - cbn in Hw. apply Ok_inj in Hw. subst. reflexivity.
  - apply wr_list_cons_inv in Hw as [a [b [Ha [Hb ->]]]]. inversion HF as [|? ? Hf Hfs]; subst.
    destruct (wfw_folder_inv lim f Hf) as [Hn [Hl [Hcs [Hbo Hus]]]].
    destruct (simple_sums _ Hcs) as [_ [Sout _]].
    cbn [map s_unpacksizes bare_folder sf_coders sf_bonds sf_packed]. norm_app.
    rewrite Sout, <- Hus.
    bstep (s_many_numbers lim (f_unpacksizes f) a (b ++ r) ltac:(lia) Ha). bstep (IH b r Hb Hfs). reflexivity.
Qed.

Theorem s_unpackinfo_wr lim fs bs :
  zlen fs <= lim -> forallb (wfw_folder lim) fs = true -> write_unpackinfo fs = Ok bs ->
  exists body, bs = 7 :: body /\
    forall r, s_unpackinfo lim (body ++ r) = Ok (map sem_folder fs, r).
Proof.
  unfold write_unpackinfo. intros Hlim Hwf Hw.
  bind_inv Hw n Hn. bind_inv Hw body Hb. bind_inv Hw us Hu. apply Ok_inj in Hw. subst bs.
  cbn [app]. eexists. split; [reflexivity|]. intros r.
  unfold s_unpackinfo. norm_app. cbn [s_expect bind Z.eqb Pos.eqb].
  bstep (s_number_wr _ _ (0 :: body ++ 12 :: us ++ 0 :: r) Hn). cbn [s_byte bind Z.eqb negb].
  rewrite (s_many_ok lim (zlen fs) (s_folder lim) (body ++ 12 :: us ++ 0 :: r)
             (map bare_folder fs, 12 :: us ++ 0 :: r) Hlim).
  2:{ apply (rd_many_wr_list_g (fun f => wfw_folder lim f = true) write_folder bare_folder (s_folder lim));
        [intros; apply s_folder_wr; assumption|intros x b _ Hx; eapply write_folder_nonempty; exact Hx
        |exact Hb|apply forallb_Forall; exact Hwf]. }
  cbn [bind s_expect Z.eqb Pos.eqb].
  rewrite (s_unpacksizes_wr lim fs us (0 :: r) Hu (forallb_Forall _ _ Hwf)).
  cbn [bind s_byte Z.eqb]. reflexivity.
Qed.

(* ================================================================== *)
(* SubStreamsInfo                                                      *)
(* ================================================================== *)
Lemma forallb_skipn {A} (f : A -> bool) : forall k l, forallb f l = true -> forallb f (skipn k l) = true.
Proof.
  induction k as [|k IH]; intros l H; [exact H|]. destruct l as [|x l]; [reflexivity|].
  cbn [forallb] in H. apply andb_true_iff in H as [_ H]. cbn [skipn]. apply IH. exact H.
Qed.

Lemma nonneg_nth l : forallb (fun x => 0 <=? x) l = true -> forall j, 0 <= nth j l 0.
Proof.
  induction l as [|x l IH]; intros H j; [destruct j; cbn; lia|].
  cbn [forallb] in H. apply andb_true_iff in H as [Hx Hl]. destruct j as [|j]; cbn [nth]; [lia|apply IH; exact Hl].
Qed.

Lemma sfolder_size_agrees lim f : wfw_folder lim f = true -> forall t,
  folder_unpack_size f = Ok t -> sfolder_unpack_size (sem_folder f) = Ok t.
Proof.
  intros Hwf t Ht. destruct (wfw_folder_inv lim f Hwf) as [Hn [_ [_ [Hbo Hus]]]].
  rewrite (chain_unpack_size_impl f ltac:(lia) Hbo Hus) in Ht.
  rewrite (chain_unpack_size_spec f ltac:(lia) Hbo Hus). exact Ht.
Qed.

Lemma s_sub_sizes_wr lim nums : forall fs sizes x r,
  Forall (fun f => wfw_folder lim f = true) fs -> Forall (fun n => 0 <= n <= lim) nums ->
  forallb (fun x => 0 <=? x) sizes = true ->
  wf_sub_sizes nums fs sizes = true -> wr_sub_sizes nums sizes = Ok x ->
  s_sub_sizes lim nums (map sem_folder fs) (x ++ r) = Ok (sizes, r).
Proof.
  induction nums as [|n nr IH]; intros fs sizes x r HF Hn Hpos Hwf Hw.
  - cbn in Hw. apply Ok_inj in Hw. subst x. destruct fs; cbn in Hwf; destruct sizes; try discriminate; reflexivity.
  - destruct fs as [|f fr]; [discriminate|]. cbn [wf_sub_sizes] in Hwf.
    inversion HF as [|? ? Hf Hfr]; subst. inversion Hn as [|? ? Hn0 Hnr]; subst.
    cbn [wr_sub_sizes] in Hw. cbv zeta in Hw. cbn [map s_sub_sizes].
    destruct (0 <? n) eqn:En.
    + cbv zeta in Hwf. apply andb_true_iff in Hwf as [Hwf Hrec]. apply andb_true_iff in Hwf as [Hk Hsum].
      destruct (folder_unpack_size f) as [t|] eqn:Et; [|discriminate].
      replace (Z.to_nat (Z.max n 0)) with (Z.to_nat n) in Hw by lia.
      destruct (length sizes <? Z.to_nat n - 1)%nat eqn:E; [lia|].
      bind_inv Hw a Ha. bind_inv Hw b Hb. apply Ok_inj in Hw. subst x. norm_app.
      destruct (n =? 0) eqn:En0; [lia|].
      assert (Hlen : zlen (firstn (Z.to_nat n - 1) sizes) = n - 1) by (unfold zlen; rewrite firstn_length; lia).
      rewrite <- Hlen.
      bstep (s_many_numbers lim (firstn (Z.to_nat n - 1) sizes) a (b ++ r) ltac:(lia) Ha).
      rewrite (sfolder_size_agrees lim f Hf t Et). cbn [bind].
      assert (Hsplit : firstn (Z.to_nat n) sizes =
                       firstn (Z.to_nat n - 1) sizes ++ [nth (Z.to_nat n - 1) sizes 0]).
      { replace (Z.to_nat n) with (S (Z.to_nat n - 1)) at 1 by lia. apply firstn_S_snoc. lia. }
      pose proof (nonneg_nth sizes Hpos (Z.to_nat n - 1)%nat) as Hlast.
      assert (Ht : t = sumZ (firstn (Z.to_nat n - 1) sizes) + nth (Z.to_nat n - 1) sizes 0).
      { replace t with (sumZ (firstn (Z.to_nat n) sizes)) by lia. rewrite Hsplit, sumZ_app, sumZ_cons, sumZ_nil. lia. }
      destruct (t <? sumZ (firstn (Z.to_nat n - 1) sizes)) eqn:Elt; [lia|].
      bstep (IH fr _ b r Hfr Hnr (forallb_skipn _ _ _ Hpos) Hrec Hb).
      do 2 f_equal.
      replace (t - sumZ (firstn (Z.to_nat n - 1) sizes)) with (nth (Z.to_nat n - 1) sizes 0) by lia.
      change (firstn (Z.to_nat n - 1) sizes ++ [nth (Z.to_nat n - 1) sizes 0] ++ skipn (Z.to_nat n) sizes = sizes).
      rewrite app_assoc, <- Hsplit. apply firstn_skipn.
    + assert (n = 0) by lia. subst n. cbn [Z.eqb].
      change (Z.to_nat (Z.max 0 0)) with 0%nat in Hw.
      cbn [Nat.sub Nat.ltb Nat.leb firstn skipn wr_list bind] in Hw.
      bind_inv Hw b Hb. apply Ok_inj in Hw. subst x. cbn [app].
      apply (IH fr sizes b r Hfr Hnr Hpos Hwf Hb).
Qed.

Lemma s_default_sizes_wr lim nums : forall fs sizes,
  Forall (fun f => wfw_folder lim f = true) fs -> Forall (fun n => n = 0 \/ n = 1) nums ->
  wf_sub_sizes nums fs sizes = true ->
  s_default_sizes nums (map sem_folder fs) = Ok sizes.
Proof.
  induction nums as [|n nr IH]; intros fs sizes HF Hn Hwf.
  - destruct fs; cbn in Hwf; destruct sizes; try discriminate; reflexivity.
  - destruct fs as [|f fr]; [discriminate|]. cbn [wf_sub_sizes] in Hwf.
    inversion HF as [|? ? Hf Hfr]; subst. inversion Hn as [|? ? Hn0 Hnr]; subst.
    cbn [map s_default_sizes]. destruct Hn0 as [-> | ->].
    + cbn [Z.ltb Z.compare] in Hwf. rewrite (IH fr sizes Hfr Hnr Hwf). reflexivity.
    + cbn [Z.ltb Z.compare] in Hwf. cbv zeta in Hwf. change (Z.to_nat 1) with 1%nat in Hwf.
      apply andb_true_iff in Hwf as [Hwf Hrec]. apply andb_true_iff in Hwf as [Hk Hsum].
      destruct (folder_unpack_size f) as [t|] eqn:Et; [|discriminate].
      destruct sizes as [|s0 rest]; [cbn [length] in Hk; lia|].
      cbn [firstn skipn] in *. rewrite sumZ_cons, sumZ_nil in Hsum.
      rewrite (IH fr rest Hfr Hnr Hrec). cbn [bind Z.eqb Pos.eqb].
      rewrite (sfolder_size_agrees lim f Hf t Et). cbn [bind]. do 2 f_equal. lia.
Qed.

Lemma s_unknown_count nums : forall fs, length nums = length fs -> Forall (fun n => 0 <= n) nums ->
  s_unknown_crc_count nums (map sem_folder fs) = sumZ nums.
Proof.
  induction nums as [|n nr IH]; intros fs Hl Hn; [reflexivity|].
  destruct fs as [|f fr]; [discriminate|]. inversion Hn as [|? ? Hn0 Hnr]; subst.
  cbn [map s_unknown_crc_count sem_folder sf_crc]. rewrite (IH fr) by (cbn [length] in Hl; auto; lia).
  rewrite sumZ_cons. destruct (n =? 1); lia.
Qed.

Lemma s_merge_all nums : forall fs (crcs : list (option Z)),
  length nums = length fs -> Forall (fun n => 0 <= n) nums -> zlen crcs = sumZ nums ->
  s_merge_crcs nums (map sem_folder fs) crcs = Ok crcs.
Proof.
  induction nums as [|n nr IH]; intros fs crcs Hl Hn Hc.
  - rewrite sumZ_nil in Hc. destruct crcs; [|rewrite zlen_cons in Hc; pose proof (zlen_nonneg crcs); lia].
    destruct fs; reflexivity.
  - destruct fs as [|f fr]; [discriminate|]. inversion Hn as [|? ? Hn0 Hnr]; subst. rewrite sumZ_cons in Hc.
    assert (Hs : 0 <= sumZ nr).
    { clear - Hnr. induction Hnr; [rewrite sumZ_nil; lia|rewrite sumZ_cons; lia]. }
    cbn [map s_merge_crcs sem_folder sf_crc].
    replace (if n =? 1 then None else None) with (@None Z) by (destruct (n =? 1); reflexivity).
    cbv zeta. replace (Z.to_nat (Z.max n 0)) with (Z.to_nat n) by lia.
    destruct (length crcs <? Z.to_nat n)%nat eqn:E; [unfold zlen in *; lia|].
    rewrite (IH fr); [|cbn [length] in Hl; lia|exact Hnr|rewrite zlen_skipn by (unfold zlen in *; lia); lia].
    cbn [bind]. rewrite firstn_skipn. reflexivity.
Qed.

Lemma not_multi_01 nums : Forall (fun n => 0 <= n) nums -> existsb (fun n => 1 <? n) nums = false ->
  Forall (fun n => n = 0 \/ n = 1) nums.
Proof.
  induction 1 as [|n nr Hn _ IH]; intros H; [constructor|].
  cbn [existsb] in H. apply orb_false_iff in H as [H1 H2]. constructor; [lia|apply IH; exact H2].
Qed.

Lemma crc_opts_none dd : forall (dg : list Z), any_true dd = false -> length dg = length dd ->
  crc_opts dg dd = repeat None (length dd).
Proof.
  unfold crc_opts. induction dd as [|d dd IH]; intros dg Hd Hl; [destruct dg; reflexivity|].
  destruct dg as [|c dg]; [discriminate|]. cbn [any_true existsb] in Hd. apply orb_false_iff in Hd as [-> Hd].
  cbn [combine map length repeat fst snd opt_crc]. f_equal. apply IH; [exact Hd|cbn [length] in Hl; lia].
Qed.

Ltac stageS lim :=
  match goal with
  | Ha : _ = Ok ?a, Hlen : length (s_nums ?s) = length ?fs |- _ =>
    destruct (sub_solid s) eqn:Es;
    [ let x0 := fresh "x0" in let Hx0 := fresh "Hx0" in
      bind_inv Ha x0 Hx0; apply Ok_inj in Ha; subst a; norm_app; cbn [s_byte bind Z.eqb Pos.eqb];
      replace (zlen fs) with (zlen (s_nums s)) by (unfold zlen; lia);
      rewrite (s_many_numbers lim (s_nums s) _ _ ltac:(unfold zlen in *; lia) Hx0); cbn [bind s_byte Z.eqb Pos.eqb]
    | apply Ok_inj in Ha; subst a; norm_app; cbn [s_byte bind Z.eqb Pos.eqb];
      unfold sub_solid in Es; rewrite <- Hlen, <- (not_solid_ones _ Es) ]
  end.

Theorem s_substreams_wr lim fs s sz bs :
  Forall (fun f => wfw_folder lim f = true) fs -> zlen fs <= lim ->
  wfw_sub lim fs s = true -> s_sizes s = Some sz -> (length (s_nums s) =? 0)%nat = false ->
  write_substreams s = Ok bs ->
  exists body, bs = 8 :: body /\
    forall r, s_substreams lim (map sem_folder fs) (body ++ r) =
              Ok ((s_nums s, sz, crc_opts (Header.s_digests s) (s_digestsdefined s)), r).
Proof.
  unfold wfw_sub, write_substreams. intros HF Hnf Hwf Esz Hne Hw. rewrite Hne in Hw. rewrite Esz in Hwf.
  apply andb_true_iff in Hwf as [Hwf Hsz]. apply andb_true_iff in Hwf as [Hwf Hdg].
  apply andb_true_iff in Hwf as [Hwf Hdd]. apply andb_true_iff in Hwf as [Hlen Hlim].
  apply andb_true_iff in Hsz as [Hpos Hsz].
  apply Nat.eqb_eq in Hlen.
  cbv zeta in Hw. fold (sub_solid s) (sub_multi s) in Hw.
  bind_inv Hw a Ha. bind_inv Hw b Hb. bind_inv Hw c Hc. apply Ok_inj in Hw. subst bs.
  cbn [app]. eexists. split; [reflexivity|]. intros r.
  assert (Hnn : Forall (fun n => 0 <= n) (s_nums s)).
  { destruct (sub_solid s) eqn:Es.
    - bind_inv Ha x Hx. apply wr_list_numbers_range in Hx. eapply Forall_impl; [|exact Hx]. cbv beta. intros; lia.
    - unfold sub_solid in Es. rewrite (not_solid_ones _ Es). apply Forall_forall. intros n Hn.
      apply repeat_spec in Hn. lia. }
  destruct (sum_bound_each lim _ Hnn ltac:(lia)) as [Hbound Hsum0].
  pose proof (existsb_lim_false lim _ Hbound) as Hex.
  pose proof (s_unknown_count _ fs Hlen Hnn) as Hunk.
  assert (Hmerge : s_merge_crcs (s_nums s) (map sem_folder fs)
                     (crc_opts (Header.s_digests s) (s_digestsdefined s)) =
                   Ok (crc_opts (Header.s_digests s) (s_digestsdefined s))).
  { apply s_merge_all; [exact Hlen|exact Hnn|].
    unfold zlen. rewrite crc_opts_length by (unfold zlen in *; lia). unfold zlen in *. lia. }
  unfold s_substreams. cbv zeta. rewrite zlen_map, map_length.
  destruct (sub_multi s) eqn:Em; destruct (any_true (s_digestsdefined s)) eqn:Ed.
  - (* SIZE and CRC *)
    rewrite Esz in Hb. destruct sz as [|s0 sz']; [discriminate|].
    bind_inv Hb x Hx. apply Ok_inj in Hb. subst b. bind_inv Hc z Hz. apply Ok_inj in Hc. subst c.
    stageS lim; [|unfold sub_multi in Em; rewrite (not_solid_not_multi _ Es) in Em; discriminate].
    rewrite Hex.
    bstep (s_sub_sizes_wr lim _ fs _ x (10 :: wr_boolean (s_digestsdefined s) true ++ z ++ 0 :: r) HF Hbound Hpos Hsz Hx).
    cbn [s_byte bind Z.eqb Pos.eqb]. rewrite Hunk.
    destruct (fill_defined_values (s_digestsdefined s) (Header.s_digests s) ltac:(unfold zlen in *; lia)) as [D1 D2].
    fold (defined_values (Header.s_digests s) (s_digestsdefined s)) in Hz.
    replace (sumZ (s_nums s)) with (zlen (s_digestsdefined s)) by lia.
    rewrite (s_digests_wr lim (s_digestsdefined s) _ z (0 :: r) ltac:(lia) Hz D2). cbn [bind s_byte].
    rewrite D1, Hmerge. reflexivity.
  - (* SIZE only *)
    rewrite Esz in Hb. destruct sz as [|s0 sz']; [discriminate|].
    bind_inv Hb x Hx. apply Ok_inj in Hb. subst b. apply Ok_inj in Hc. subst c.
    stageS lim; [|unfold sub_multi in Em; rewrite (not_solid_not_multi _ Es) in Em; discriminate].
    rewrite Hex.
    bstep (s_sub_sizes_wr lim _ fs _ x (0 :: r) HF Hbound Hpos Hsz Hx).
    cbn [s_byte bind Z.eqb Pos.eqb]. rewrite Hunk.
    replace (Z.min (sumZ (s_nums s)) lim) with (sumZ (s_nums s)) by lia.
    replace (Z.to_nat (sumZ (s_nums s))) with (length (s_digestsdefined s)) by (unfold zlen in *; lia).
    rewrite <- (crc_opts_none _ (Header.s_digests s) Ed) by (unfold zlen in *; lia).
    rewrite Hmerge. reflexivity.
  - (* CRC only *)
    apply Ok_inj in Hb. subst b. bind_inv Hc z Hz. apply Ok_inj in Hc. subst c.
    pose proof (s_default_sizes_wr lim _ fs sz HF (not_multi_01 _ Hnn Em) Hsz) as Hdef.
    destruct (fill_defined_values (s_digestsdefined s) (Header.s_digests s) ltac:(unfold zlen in *; lia)) as [D1 D2].
    fold (defined_values (Header.s_digests s) (s_digestsdefined s)) in Hz.
    stageS lim.
    all: rewrite Hex, Hdef; cbn [bind s_byte Z.eqb Pos.eqb]; rewrite Hunk.
    all: replace (sumZ (s_nums s)) with (zlen (s_digestsdefined s)) by lia.
    all: rewrite (s_digests_wr lim (s_digestsdefined s) _ z (0 :: r) ltac:(lia) Hz D2); cbn [bind s_byte].
    all: rewrite D1, Hmerge; reflexivity.
  - (* neither *)
    apply Ok_inj in Hb. subst b. apply Ok_inj in Hc. subst c.
    pose proof (s_default_sizes_wr lim _ fs sz HF (not_multi_01 _ Hnn Em) Hsz) as Hdef.
    stageS lim.
    all: rewrite Hex, Hdef; cbn [bind s_byte Z.eqb Pos.eqb]; rewrite Hunk.
    all: replace (Z.min (sumZ (s_nums s)) lim) with (sumZ (s_nums s)) by lia.
    all: replace (Z.to_nat (sumZ (s_nums s))) with (length (s_digestsdefined s)) by (unfold zlen in *; lia).
    all: rewrite <- (crc_opts_none _ (Header.s_digests s) Ed) by (unfold zlen in *; lia).
    all: rewrite Hmerge; reflexivity.
Qed.

(* ================================================================== *)
(* FilesInfo                                                           *)
(* ================================================================== *)
(* "s_file_props succeeds with any fuel >= k" *)
Definition SF (lim : Z) (k : nat) (files : list fileent) (ef : option (list bool)) (bs : bytes)
              (res : (list fileent * option (list bool)) * bytes) : Prop :=
  forall fuel, (k <= fuel)%nat -> s_file_props fuel lim files ef bs = Ok res.

Lemma SF_end lim files ef r : SF lim 1 files ef (0 :: r) ((files, ef), r).
Proof. intros fuel Hf. destruct fuel; [lia|]. reflexivity. Qed.

Lemma SF_weaken lim k files ef bs res : SF lim k files ef bs res -> SF lim (S k) files ef bs res.
Proof. intros H fuel Hf. apply H. lia. Qed.

(* a record is accepted iff its size field is exactly the length of its content and the content is
   exactly what the property's grammar consumes (s_file_prop uses s_exact) *)
Lemma SF_weaken_le lim k k' files ef bs res : (k <= k')%nat ->
  SF lim k files ef bs res -> SF lim k' files ef bs res.
Proof. intros Hk H fuel Hf. apply H. lia. Qed.

Lemma SF_record lim k p sz body rest files ef fs' ef' res :
  p <> 0 -> wr_number (zlen body) = Ok sz ->
  s_file_prop lim p body files ef = Ok (fs', ef') ->
  SF lim k fs' ef' rest res ->
  SF lim (S k) files ef (p :: sz ++ body ++ rest) res.
Proof.
  intros Hp0 Hsz Hprop Hrest fuel Hf. destruct fuel as [|fuel]; [lia|].
  cbn [s_file_props s_byte bind]. destruct (p =? 0) eqn:E; [lia|].
  bstep (s_number_wr _ _ (body ++ rest) Hsz). rewrite s_bytes_app. cbn [bind]. rewrite Hprop. cbn [bind].
  apply Hrest. lia.
Qed.

Lemma SF_dummy lim k d rest files ef res :
  0 <= d < 128 -> SF lim k files ef rest res ->
  SF lim (S k) files ef (25 :: d :: repeatZ 0 (Z.to_nat d) ++ rest) res.
Proof.
  intros Hd Hrest fuel Hf. destruct fuel as [|fuel]; [lia|].
  cbn [s_file_props s_byte bind Z.eqb]. rewrite s_number_small by exact Hd. cbn [bind].
  pose proof (s_bytes_app (repeatZ 0 (Z.to_nat d)) rest) as Hs. rewrite zlen_repeatZ in Hs.
  replace (Z.of_nat (Z.to_nat d)) with d in Hs by lia.
  rewrite Hs. cbn [bind]. change (s_file_prop lim 25 (repeatZ 0 (Z.to_nat d)) files ef) with (Ok (files, ef)).
  cbn [bind]. apply Hrest. lia.
Qed.

Lemma s_exact_app {A} (rd : reader A) body x : rd (body ++ []) = Ok (x, []) -> s_exact rd body = Ok x.
Proof. unfold s_exact. rewrite app_nil_r. intros ->. reflexivity. Qed.

Lemma map_emptystream_st1 files : map e_emptystream (map st1 files) = map e_emptystream files.
Proof. rewrite map_map. reflexivity. Qed.
Lemma map_emptystream_norm cd ad files : map e_emptystream (map (norm_file cd ad) files) = map e_emptystream files.
Proof. rewrite map_map. reflexivity. Qed.

(* EMPTY_STREAM: exactly ceil(n/8) bytes *)
Lemma sprop14 lim files ef :
  s_file_prop lim 14 (wr_bits (map e_emptystream files)) (repeat empty_file (length files)) ef =
  Ok (map st1 files, ef).
Proof.
  unfold s_file_prop. cbv zeta. change (14 =? 14) with true. cbv iota.
  rewrite zlen_repeat, <- (map_length e_emptystream files). fold (zlen (map e_emptystream files)).
  rewrite (s_exact_app _ _ (map e_emptystream files)) by apply s_bits_wr. cbn [bind].
  rewrite map_length, zip_update_empty. reflexivity.
Qed.

(* EMPTY_FILE: exactly ceil(#empty streams / 8) bytes *)
Lemma sprop15 lim files ef ef0 :
  s_file_prop lim 15 (wr_bits (norm_emptyfiles files ef)) (map st1 files) ef0 =
  Ok (map st1 files, Some (norm_emptyfiles files ef)).
Proof.
  unfold s_file_prop. cbv zeta. change (15 =? 14) with false. change (15 =? 15) with true. cbv iota.
  rewrite map_emptystream_st1.
  replace (count_true (map e_emptystream files)) with (zlen (norm_emptyfiles files ef)).
  2:{ unfold zlen. rewrite norm_emptyfiles_length. pose proof (count_true_bounds (map e_emptystream files)). lia. }
  rewrite (s_exact_app _ _ (norm_emptyfiles files ef)) by apply s_bits_wr. reflexivity.
Qed.

(* NAME: every name with its terminator, nothing else *)
Lemma s_names_wr files : forall body r,
  named_bs files = true -> wr_list wr_utf16 (names_of files) = Ok body ->
  s_names (map st1 files) (body ++ r) = Ok (map st2 files, r).
Proof.
  induction files as [|e fs IH]; intros body r Hn Hw.
  - cbn in Hw. apply Ok_inj in Hw. subst. reflexivity.
  - cbn [named_bs forallb] in Hn. apply andb_true_iff in Hn as [He Hr].
    destruct (e_name e) as [n|] eqn:En; [|discriminate].
    unfold names_of in Hw. cbn [flat_map] in Hw. rewrite En in Hw. cbn [app] in Hw.
    apply wr_list_cons_inv in Hw as [a [b [Ha [Hb ->]]]].
    rewrite (wr_utf16_inv n a He Ha).
    unfold wf_name_bs in He. apply andb_true_iff in He as [Hc Hl].
    cbn [map s_names]. rewrite <- !app_assoc. cbn [app].
    set (us := utf16_units_of n) in *. set (rest := b ++ r).
    rewrite (rd_utf16_raw_units us _ 0 [] rest (units_of_ok n Hc) ltac:(lia)).
    2:{ rewrite app_length, units_bytes_length. cbn [length]. lia. }
    cbn [bind app].
    assert (Hchk : (Z.of_nat (length (units_bytes us)) + 2 + zlen rest =? zlen (units_bytes us ++ 0 :: 0 :: rest)) = true).
    { unfold zlen. rewrite app_length. cbn [length]. lia. }
    rewrite Hchk, utf16_units_bytes. cbn [bind]. unfold us.
    rewrite utf16_decode_units by (apply wf_char_bs_scalar; exact Hc). cbn [bind].
    unfold rest. bstep (IH b r Hr Hb). unfold set_name, st1, st2. cbn [e_emptystream e_ctime e_atime e_mtime e_attr].
    rewrite En. reflexivity.
Qed.

Lemma sprop17 lim files body ef :
  named_bs files = true -> wr_list wr_utf16 (names_of files) = Ok body ->
  s_file_prop lim 17 (0 :: body) (map st1 files) ef = Ok (map st2 files, ef).
Proof.
  intros Hn Hw. unfold s_file_prop. cbv zeta.
  change (17 =? 14) with false. change (17 =? 15) with false. change (17 =? 17) with true. cbv iota.
  rewrite (s_exact_app _ _ (map st2 files)); [reflexivity|].
  cbn [app s_expect bind Z.eqb]. apply s_names_wr; assumption.
Qed.

(* time and attribute vectors *)
Lemma s_defined_vector_wr lim l r : zlen l <= lim ->
  s_defined_vector lim (zlen l) (wr_boolean l true ++ r) = Ok (l, r).
Proof.
  intros Hl. unfold s_defined_vector, wr_boolean. destruct (lim <? zlen l) eqn:E; [lia|]. cbn [andb].
  destruct (all_true l) eqn:Ea.
  - cbn [app s_byte bind Z.eqb]. unfold zlen. rewrite Nat2Z.id, <- (all_true_repeat l Ea). reflexivity.
  - cbn [app s_byte bind Z.eqb]. apply s_bits_wr.
Qed.

Lemma s_per_file_wr n sel set (g : fileent -> fileent) files : forall vals r,
  wr_list (fun f => if opt_defined (sel f) then wr_fixed n (opt_value (sel f)) else Ok []) files = Ok vals ->
  s_per_file n (map g files) (map (fun f => opt_defined (sel f)) files) set (vals ++ r) =
    Ok (map (fun e => set (g e) (flat_opt (sel e))) files, r).
Proof.
  induction files as [|e fs IH]; intros vals r Hw.
  - cbn in Hw. apply Ok_inj in Hw. subst. reflexivity.
  - apply wr_list_cons_inv in Hw as [a [b [Ha [Hb ->]]]]. specialize (IH b r Hb).
    cbn [map s_per_file].
    destruct (sel e) as [[v|]|] eqn:Es; cbn [opt_defined opt_value flat_opt] in *.
    + norm_app. bstep (s_fixed_wr n v a (b ++ r) Ha). bstep IH. reflexivity.
    + apply Ok_inj in Ha. subst a. cbn [app]. bstep IH. reflexivity.
    + apply Ok_inj in Ha. subst a. cbn [app]. bstep IH. reflexivity.
Qed.

(* CREATION_TIME (18), LAST_ACCESS_TIME (19), LAST_WRITE_TIME (20) *)
Lemma sprop_time lim p sel (g : fileent -> fileent) files vals ef :
  p = 18 \/ p = 19 \/ p = 20 ->
  zlen files <= lim ->
  wr_list (fun f => if opt_defined (sel f) then wr_fixed 8 (opt_value (sel f)) else Ok []) files = Ok vals ->
  s_file_prop lim p (wr_boolean (map (fun f => opt_defined (sel f)) files) true ++ [0] ++ vals)
              (map g files) ef = Ok (map (fun e => set_time p (g e) (flat_opt (sel e))) files, ef).
Proof.
  intros Hp Hl Hw. unfold s_file_prop. cbv zeta.
  assert (E14 : (p =? 14) = false) by lia. assert (E15 : (p =? 15) = false) by lia.
  assert (E17 : (p =? 17) = false) by lia.
  assert (Et : (p =? 18) || (p =? 19) || (p =? 20) = true) by lia.
  rewrite E14, E15, E17, Et.
  rewrite (s_exact_app _ _ (map (fun e => set_time p (g e) (flat_opt (sel e))) files)); [reflexivity|].
  rewrite zlen_map, <- (zlen_map (fun f => opt_defined (sel f)) files). rewrite <- !app_assoc.
  rewrite s_defined_vector_wr by (rewrite zlen_map; lia). cbn [bind app s_expect Z.eqb].
  apply (s_per_file_wr 8 sel (set_time p) g files vals [] Hw).
Qed.

Lemma sprop21 lim cd ad files vals ef :
  zlen files <= lim ->
  wr_list (fun f => if opt_defined (e_attr f) then wr_fixed 4 (opt_value (e_attr f)) else Ok []) files = Ok vals ->
  s_file_prop lim 21 (wr_boolean (map (fun f => opt_defined (e_attr f)) files) true ++ [0] ++ vals)
              (map (st3 cd ad) files) ef = Ok (map (norm_file cd ad) files, ef).
Proof.
  intros Hl Hw. unfold s_file_prop. cbv zeta.
  change (21 =? 14) with false. change (21 =? 15) with false. change (21 =? 17) with false.
  change ((21 =? 18) || (21 =? 19) || (21 =? 20)) with false. change (21 =? 21) with true. cbv iota.
  rewrite (s_exact_app _ _ (map (norm_file cd ad) files)); [reflexivity|].
  rewrite zlen_map, <- (zlen_map (fun f => opt_defined (e_attr f)) files). rewrite <- !app_assoc.
  rewrite s_defined_vector_wr by (rewrite zlen_map; lia). cbn [bind app s_expect Z.eqb].
  apply (s_per_file_wr 4 e_attr set_attr (st3 cd ad) files vals [] Hw).
Qed.

(* a time record as written by _write_times is accepted by one more round of the strict property loop *)
Lemma SF_time lim k p sel (g : fileent -> fileent) files rec rest ef res :
  p = 18 \/ p = 19 \/ p = 20 -> zlen files <= lim ->
  write_times p sel files = Ok rec ->
  SF lim k (map (fun e => set_time p (g e) (flat_opt (sel e))) files) ef rest res ->
  SF lim (S k) (map g files) ef (rec ++ rest) res /\ 3 <= zlen rec.
Proof.
  intros Hp Hl Hw Hrest. unfold write_times in Hw. cbv zeta in Hw.
  bind_inv Hw sz Hsz. bind_inv Hw vals Hv. apply Ok_inj in Hw. subst rec.
  set (defined := map (fun f => opt_defined (sel f)) files) in *.
  split.
  - replace (([p] ++ sz ++ wr_boolean defined true ++ [0] ++ vals) ++ rest)
      with (p :: sz ++ (wr_boolean defined true ++ [0] ++ vals) ++ rest) by (norm_app; reflexivity).
    pose proof (vector_vals_length 8 sel files vals Hv) as Hlen. fold defined in Hlen.
    change (Z.of_nat 8) with 8 in Hlen.
    eapply SF_record; [lia| |apply sprop_time; [exact Hp|lia|exact Hv]|exact Hrest].
    rewrite (vector_record_size 8 defined vals (zlen files) (zlen_map _ _) Hlen).
    exact Hsz.
  - apply wr_number_length in Hsz. rewrite !zlen_app.
    change (zlen [p]) with 1. change (zlen [0]) with 1.
    pose proof (zlen_nonneg vals). pose proof (zlen_nonneg (wr_boolean defined true)). lia.
Qed.

(* CREATION_TIME / LAST_ACCESS_TIME: written exactly when some entry has a defined value *)
Lemma SF_time_opt lim k p sel (g g' : fileent -> fileent) files rec rest ef res :
  p = 18 \/ p = 19 -> zlen files <= lim ->
  write_times_opt p sel files = Ok rec ->
  (forall e, g' e = if has_time sel files then set_time p (g e) (flat_opt (sel e)) else g e) ->
  SF lim k (map g' files) ef rest res ->
  SF lim (k + length rec) (map g files) ef (rec ++ rest) res.
Proof.
  intros Hp Hl Hw Hg Hrest. unfold write_times_opt in Hw.
  destruct (has_time sel files) eqn:E.
  - rewrite (map_ext _ _ Hg) in Hrest.
    destruct (SF_time lim k p sel g files rec rest ef res ltac:(lia) Hl Hw Hrest) as [H1 H2].
    eapply SF_weaken_le; [|exact H1]. unfold zlen in H2. lia.
  - apply Ok_inj in Hw. subst rec. cbn [app length]. rewrite Nat.add_0_r.
    rewrite (map_ext _ _ Hg) in Hrest. exact Hrest.
Qed.

Lemma named_empty_names files : named_bs files = true -> (length (names_of files) =? 0)%nat = true -> files = [].
Proof.
  destruct files as [|e fs]; [reflexivity|]. intros Hn H0.
  cbn [named_bs forallb] in Hn. apply andb_true_iff in Hn as [He _].
  destruct (e_name e) eqn:En; [|discriminate]. unfold names_of in H0. cbn [flat_map] in H0.
  rewrite En in H0. discriminate.
Qed.

Theorem s_files_wr lim pos files ef bs :
  zlen files <= lim -> named_bs files = true -> write_files pos files ef = Ok bs ->
  exists body, bs = 5 :: body /\
    forall r, s_files lim (body ++ r) = Ok ((norm_files files, norm_emptyfiles files ef), r).
Proof.
  unfold write_files, norm_files. intros Hlim Hnames Hw.
  remember (has_time e_ctime files) as cd eqn:Ecd. remember (has_time e_atime files) as ad eqn:Ead.
  bind_inv Hw n Hn. cbv zeta in Hw. fold (norm_emptyfiles files ef) in Hw. bind_inv Hw a Ha.
  set (pad := if 2 <? _ then _ else _) in Hw.
  assert (Hpad : pad = [] \/ exists d, 0 <= d < 128 /\ pad = 25 :: d :: repeatZ 0 (Z.to_nat d))
    by apply pad_cases.
  clearbody pad.
  bind_inv Hw nm Hnm. bind_inv Hw ct Hct. bind_inv Hw lat Hlat. bind_inv Hw tm Htm. bind_inv Hw at_ Hat.
  apply Ok_inj in Hw. subst bs.
  cbn [app]. eexists. split; [reflexivity|]. intros r.
  set (res := fun ef0 : option (list bool) => ((map (norm_file cd ad) files, ef0), r)).
  (* END *)
  assert (H1 : forall ef0, SF lim 1 (map (norm_file cd ad) files) ef0 (0 :: r) (res ef0)) by (intros; apply SF_end).
  (* ATTRIBUTES *)
  assert (H2 : forall ef0, SF lim 2 (map (st3 cd ad) files) ef0 (at_ ++ 0 :: r) (res ef0)).
  { intros ef0. unfold write_attributes in Hat. cbv zeta in Hat.
    bind_inv Hat sz Hsz. bind_inv Hat vals Hv. apply Ok_inj in Hat. subst at_.
    set (defined := map (fun f => opt_defined (e_attr f)) files) in *.
    replace (([21] ++ sz ++ wr_boolean defined true ++ [0] ++ vals) ++ 0 :: r)
      with (21 :: sz ++ (wr_boolean defined true ++ [0] ++ vals) ++ 0 :: r) by (norm_app; reflexivity).
    pose proof (vector_vals_length 4 e_attr files vals Hv) as Hlen. fold defined in Hlen.
    change (Z.of_nat 4) with 4 in Hlen.
    eapply SF_record; [lia| |apply sprop21; [lia|exact Hv]|apply H1].
    rewrite (vector_record_size 4 defined vals (zlen files) (zlen_map _ _) Hlen).
    rewrite <- count_true_all. unfold defined in *. rewrite zlen_map. exact Hsz. }
  (* LAST_WRITE_TIME *)
  assert (H3 : (forall ef0, SF lim 3 (map (st2a cd ad) files) ef0 (tm ++ at_ ++ 0 :: r) (res ef0)) /\ 3 <= zlen tm).
  { split; [intros ef0|].
    - eapply (SF_time lim 2 20 e_mtime (st2a cd ad) files tm (at_ ++ 0 :: r) ef0 (res ef0) ltac:(lia) ltac:(lia) Htm).
      apply H2.
    - eapply (SF_time lim 2 20 e_mtime (st2a cd ad) files tm (at_ ++ 0 :: r) None (res None) ltac:(lia) ltac:(lia) Htm).
      apply H2. }
  destruct H3 as [H3 Ltm].
  (* LAST_ACCESS_TIME, when some entry has one *)
  assert (H3a : forall ef0, SF lim (3 + length lat) (map (st2c cd) files) ef0 (lat ++ tm ++ at_ ++ 0 :: r) (res ef0)).
  { intros ef0. eapply (SF_time_opt lim 3 19 e_atime (st2c cd) (st2a cd ad)); [lia|lia|exact Hlat| |apply H3].
    intros e. rewrite <- Ead. destruct ad; reflexivity. }
  (* CREATION_TIME, when some entry has one *)
  assert (H3c : forall ef0, SF lim (3 + length lat + length ct) (map st2 files) ef0
                               (ct ++ lat ++ tm ++ at_ ++ 0 :: r) (res ef0)).
  { intros ef0. eapply (SF_time_opt lim _ 18 e_ctime st2 (st2c cd)); [lia|lia|exact Hct| |apply H3a].
    intros e. rewrite <- Ecd. destruct cd; reflexivity. }
  set (K := (3 + length lat + length ct)%nat) in *.
  (* NAME *)
  assert (H4 : forall ef0, SF lim (S K) (map st1 files) ef0 (nm ++ ct ++ lat ++ tm ++ at_ ++ 0 :: r) (res ef0)).
  { intros ef0. unfold write_names in Hnm. fold (names_of files) in Hnm.
    destruct (length (names_of files) =? 0)%nat eqn:E0.
    - apply Ok_inj in Hnm. subst nm. cbn [app]. apply SF_weaken.
      pose proof (named_empty_names files Hnames E0) as Hnil.
      replace (map st1 files) with (map st2 files) by (rewrite Hnil; reflexivity). apply H3c.
    - bind_inv Hnm body Hb. bind_inv Hnm sz Hsz. apply Ok_inj in Hnm. subst nm.
      replace (([17] ++ sz ++ [0] ++ body) ++ ct ++ lat ++ tm ++ at_ ++ 0 :: r)
        with (17 :: sz ++ (0 :: body) ++ ct ++ lat ++ tm ++ at_ ++ 0 :: r) by (norm_app; reflexivity).
      eapply SF_record; [lia| |apply sprop17; [exact Hnames|exact Hb]|apply H3c].
      rewrite zlen_cons. replace (1 + zlen body) with (zlen body + 1) by lia. exact Hsz. }
  (* kDummy *)
  assert (H5 : forall ef0, SF lim (S (S K)) (map st1 files) ef0 (pad ++ nm ++ ct ++ lat ++ tm ++ at_ ++ 0 :: r) (res ef0)).
  { intros ef0. destruct Hpad as [-> | [d [Hd ->]]].
    - cbn [app]. apply SF_weaken. apply H4.
    - norm_app. apply SF_dummy; [exact Hd|apply H4]. }
  (* EMPTY_STREAM and EMPTY_FILE *)
  assert (H7 : exists ef0,
    (ef0 = Some (norm_emptyfiles files ef) \/ (ef0 = None /\ any_true (norm_emptyfiles files ef) = false)) /\
    SF lim (S (S (S (S K)))) (repeat empty_file (length files)) None
       (a ++ pad ++ nm ++ ct ++ lat ++ tm ++ at_ ++ 0 :: r) (res ef0)).
  { set (es := map e_emptystream files) in *.
    destruct (any_true es) eqn:Ees.
    - bind_inv Ha sz Hsz. bind_inv Ha b Hb. apply Ok_inj in Ha. subst a.
      destruct (any_true (norm_emptyfiles files ef)) eqn:Eef.
      + bind_inv Hb sz2 Hsz2. apply Ok_inj in Hb. subst b.
        exists (Some (norm_emptyfiles files ef)). split; [left; reflexivity|].
        replace (([14] ++ sz ++ wr_bits es ++ [15] ++ sz2 ++ wr_bits (norm_emptyfiles files ef)) ++
                 pad ++ nm ++ ct ++ lat ++ tm ++ at_ ++ 0 :: r)
          with (14 :: sz ++ wr_bits es ++
                15 :: sz2 ++ wr_bits (norm_emptyfiles files ef) ++ pad ++ nm ++ ct ++ lat ++ tm ++ at_ ++ 0 :: r)
          by (norm_app; reflexivity).
        eapply SF_record; [lia| |apply sprop14|].
        { unfold es. rewrite wr_bits_length, zlen_map. exact Hsz. }
        eapply SF_record; [lia| |apply sprop15|apply H5].
        rewrite wr_bits_length. unfold zlen. rewrite norm_emptyfiles_length.
        fold es. pose proof (count_true_bounds es).
        replace (Z.of_nat (Z.to_nat (count_true es))) with (count_true es) by lia. exact Hsz2.
      + apply Ok_inj in Hb. subst b. exists None. split; [right; auto|].
        replace (([14] ++ sz ++ wr_bits es ++ []) ++ pad ++ nm ++ ct ++ lat ++ tm ++ at_ ++ 0 :: r)
          with (14 :: sz ++ wr_bits es ++ pad ++ nm ++ ct ++ lat ++ tm ++ at_ ++ 0 :: r)
          by (rewrite app_nil_r; norm_app; reflexivity).
        apply SF_weaken. eapply SF_record; [lia| |apply sprop14|apply H5].
        unfold es. rewrite wr_bits_length, zlen_map. exact Hsz.
    - apply Ok_inj in Ha. subst a. cbn [app]. exists None. split.
      + right. split; [reflexivity|].
        assert (Hn0 : norm_emptyfiles files ef = []).
        { pose proof (norm_emptyfiles_length files ef) as Hl. fold es in Hl.
          rewrite (any_true_false_all _ Ees) in Hl. unfold count_true in Hl.
          assert (Hz : filter (fun b : bool => b) (repeat false (length es)) = []).
          { clear. induction (length es); [reflexivity|]. cbn [repeat filter]. exact IHn. }
          rewrite Hz in Hl. destruct (norm_emptyfiles files ef); [reflexivity|discriminate]. }
        rewrite Hn0. reflexivity.
      + do 2 apply SF_weaken. rewrite (no_empty_st1 files Ees). apply H5. }
  destruct H7 as [ef0 [Hef0 H7]].
  unfold s_files. norm_app.
  bstep (s_number_wr _ _ (a ++ pad ++ nm ++ ct ++ lat ++ tm ++ at_ ++ 0 :: r) Hn).
  destruct (lim <? zlen files) eqn:El; [lia|].
  unfold zlen at 1. rewrite Nat2Z.id. rewrite H7.
  - unfold res. cbn [bind]. rewrite map_emptystream_norm. f_equal.
    pose proof (norm_emptyfiles_length files ef) as Hl.
    destruct Hef0 as [-> | [-> Hf]]; [reflexivity|].
    rewrite (any_true_false_all _ Hf), Hl. reflexivity.
  - (* fuel: each record written occupies at least 3 bytes *)
    assert (3 <= zlen at_).
    { unfold write_attributes in Hat. cbv zeta in Hat. bind_inv Hat sz Hsz. bind_inv Hat vals Hv.
      apply Ok_inj in Hat. subst at_. apply wr_number_length in Hsz. rewrite !zlen_app.
      change (zlen [21]) with 1. change (zlen [0]) with 1.
      pose proof (zlen_nonneg vals).
      pose proof (zlen_nonneg (wr_boolean (map (fun f => opt_defined (e_attr f)) files) true)). lia. }
    unfold K. rewrite !app_length. cbn [length]. unfold zlen in *. lia.
Qed.

(* ---- the size field of every property record is the length of its content ---- *)
Lemma number_enc_small d : 0 <= d < 128 -> number_enc d = [d].
Proof.
  intros Hd. unfold number_enc, number_extra. destruct (d <? 2 ^ 7) eqn:E; [|lia].
  unfold number_prefix. cbn [Nat.ltb Nat.leb le_bytes Z.of_nat]. f_equal.
  change (2 ^ (8 - 0)) with 256. change (256 ^ 0) with 1. rewrite Z.div_1_r. lia.
Qed.

Lemma time_record_content p sel files rec :
  write_times p sel files = Ok rec ->
  exists body, rec = enc_record (p, body) /\ time_record sel files body.
Proof.
  intros Hw. unfold write_times in Hw. cbv zeta in Hw. bind_inv Hw sz Hsz. bind_inv Hw vals Hv.
  apply Ok_inj in Hw. subst rec. apply wr_number_inv in Hsz as [_ ->]. fold (time_defined sel files) in *.
  pose proof (vector_vals_length 8 sel files vals Hv) as Hlen.
  fold (time_defined sel files) in Hlen. change (Z.of_nat 8) with 8 in Hlen.
  pose proof (vector_record_size 8 (time_defined sel files) vals (zlen files) (zlen_map _ _) Hlen) as Hsize.
  exists (wr_boolean (time_defined sel files) true ++ [0] ++ vals). split.
  - unfold enc_record. cbn [fst snd]. rewrite Hsize. reflexivity.
  - exists vals. split; [exact Hv|split; [reflexivity|]]. rewrite Hsize. destruct (all_true (time_defined sel files)); lia.
Qed.

Theorem property_sizes_exact pos files ef bs :
  write_files pos files ef = Ok bs ->
  exists recs,
    bs = [5] ++ number_enc (zlen files) ++ flat_map enc_record recs ++ [0] /\
    Forall (record_content files (norm_emptyfiles files ef)) recs.
Proof.
  unfold write_files. intros Hw.
  bind_inv Hw n Hn. cbv zeta in Hw. fold (norm_emptyfiles files ef) in Hw. bind_inv Hw a Ha.
  set (pad := if 2 <? _ then _ else _) in Hw.
  assert (Hpad : pad = [] \/ exists d, 0 <= d < 128 /\ pad = 25 :: d :: repeatZ 0 (Z.to_nat d))
    by apply pad_cases.
  clearbody pad.
  bind_inv Hw nm Hnm. bind_inv Hw ct Hct. bind_inv Hw lat Hlat. bind_inv Hw tm Htm. bind_inv Hw at_ Hat.
  apply Ok_inj in Hw. subst bs.
  apply wr_number_inv in Hn as [_ ->].
  set (efl := norm_emptyfiles files ef) in *.
  set (P := fun (x : bytes) (rs : list (Z * bytes)) =>
              x = flat_map enc_record rs /\ Forall (record_content files efl) rs).
  assert (Pa : exists rs, P a rs).
  { set (es := map e_emptystream files) in *. destruct (any_true es) eqn:Ees.
    - bind_inv Ha sz Hsz. bind_inv Ha b Hb. apply Ok_inj in Ha. subst a.
      apply wr_number_inv in Hsz as [_ ->].
      assert (L14 : zlen (wr_bits es) = (zlen files + 7) / 8) by (unfold es; rewrite wr_bits_length, zlen_map; reflexivity).
      assert (C14 : record_content files efl (14, wr_bits es)) by (left; auto).
      destruct (any_true efl) eqn:Eef.
      + bind_inv Hb sz2 Hsz2. apply Ok_inj in Hb. subst b. apply wr_number_inv in Hsz2 as [_ ->].
        assert (L15 : zlen (wr_bits efl) = (count_true es + 7) / 8).
        { rewrite wr_bits_length. unfold zlen, efl. rewrite norm_emptyfiles_length. fold es.
          pose proof (count_true_bounds es). f_equal. lia. }
        exists [(14, wr_bits es); (15, wr_bits efl)]. split.
        * cbn [flat_map enc_record fst snd app]. rewrite L14, L15, app_nil_r. norm_app. reflexivity.
        * apply Forall_cons; [exact C14|apply Forall_cons; [right; left; auto|apply Forall_nil]].
      + apply Ok_inj in Hb. subst b. exists [(14, wr_bits es)]. split.
        * cbn [flat_map enc_record fst snd app]. rewrite L14, !app_nil_r. norm_app. reflexivity.
        * apply Forall_cons; [exact C14|apply Forall_nil].
    - apply Ok_inj in Ha. subst a. exists []. split; [reflexivity|constructor]. }
  assert (Pp : exists rs, P pad rs).
  { destruct Hpad as [-> | [d [Hd ->]]]; [exists []; split; [reflexivity|constructor]|].
    exists [(25, repeatZ 0 (Z.to_nat d))]. split.
    - cbn [flat_map enc_record fst snd app]. rewrite zlen_repeatZ, app_nil_r.
      replace (Z.of_nat (Z.to_nat d)) with d by lia. rewrite number_enc_small by exact Hd. reflexivity.
    - apply Forall_cons; [|apply Forall_nil]. right; right; left. split; [reflexivity|eexists; reflexivity]. }
  assert (Pn : exists rs, P nm rs).
  { unfold write_names in Hnm. fold (names_of files) in Hnm.
    destruct (length (names_of files) =? 0)%nat; [apply Ok_inj in Hnm; subst nm; exists []; split; [reflexivity|constructor]|].
    bind_inv Hnm body Hb. bind_inv Hnm sz Hsz. apply Ok_inj in Hnm. subst nm. apply wr_number_inv in Hsz as [_ ->].
    exists [(17, 0 :: body)]. split.
    - cbn [flat_map enc_record fst snd app]. rewrite zlen_cons, app_nil_r.
      replace (1 + zlen body) with (zlen body + 1) by lia. reflexivity.
    - apply Forall_cons; [|apply Forall_nil]. right; right; right; left. split; [reflexivity|]. exists body. auto. }
  assert (Pct : exists rs, P ct rs).
  { unfold write_times_opt in Hct. destruct (has_time e_ctime files) eqn:Ec.
    - destruct (time_record_content 18 e_ctime files ct Hct) as [body [-> Hb]].
      exists [(18, body)]. split; [cbn [flat_map]; rewrite app_nil_r; reflexivity|].
      apply Forall_cons; [|apply Forall_nil]. right; right; right; right; left. auto.
    - apply Ok_inj in Hct. subst ct. exists []. split; [reflexivity|constructor]. }
  assert (Plat : exists rs, P lat rs).
  { unfold write_times_opt in Hlat. destruct (has_time e_atime files) eqn:Ec.
    - destruct (time_record_content 19 e_atime files lat Hlat) as [body [-> Hb]].
      exists [(19, body)]. split; [cbn [flat_map]; rewrite app_nil_r; reflexivity|].
      apply Forall_cons; [|apply Forall_nil]. right; right; right; right; right; left. auto.
    - apply Ok_inj in Hlat. subst lat. exists []. split; [reflexivity|constructor]. }
  assert (Pt : exists rs, P tm rs).
  { destruct (time_record_content 20 e_mtime files tm Htm) as [body [-> Hb]].
    exists [(20, body)]. split; [cbn [flat_map]; rewrite app_nil_r; reflexivity|].
    apply Forall_cons; [|apply Forall_nil]. right; right; right; right; right; right; left. auto. }
  assert (Pat : exists rs, P at_ rs).
  { unfold write_attributes in Hat. cbv zeta in Hat. bind_inv Hat sz Hsz. bind_inv Hat vals Hv.
    apply Ok_inj in Hat. subst at_. apply wr_number_inv in Hsz as [_ ->]. fold (attr_defined files) in *.
    pose proof (vector_vals_length 4 e_attr files vals Hv) as Hlen.
    fold (attr_defined files) in Hlen. change (Z.of_nat 4) with 4 in Hlen.
    pose proof (vector_record_size 4 (attr_defined files) vals (zlen files) (zlen_map _ _) Hlen) as Hsize.
    assert (Hz : zlen (attr_defined files) = zlen files) by apply zlen_map.
    rewrite <- count_true_all, Hz in Hsize.
    exists [(21, wr_boolean (attr_defined files) true ++ [0] ++ vals)]. split.
    - cbn [flat_map]. unfold enc_record. cbn [fst snd]. rewrite Hsize, app_nil_r. reflexivity.
    - apply Forall_cons; [|apply Forall_nil]. right; right; right; right; right; right; right. split; [reflexivity|]. exists vals.
      split; [exact Hv|split; [reflexivity|]]. rewrite Hsize, <- count_true_all, Hz.
      destruct (count_true (attr_defined files) =? zlen files); lia. }
  destruct Pa as [ra [-> Fa]]. destruct Pp as [rp [-> Fp]]. destruct Pn as [rn [-> Fn]].
  destruct Pct as [rc [-> Fc]]. destruct Plat as [rl [-> Fl]].
  destruct Pt as [rt [-> Ft]]. destruct Pat as [rat [-> Fat]].
  exists (ra ++ rp ++ rn ++ rc ++ rl ++ rt ++ rat). split.
  - rewrite !flat_map_app. norm_app. reflexivity.
  - repeat (apply Forall_app; split); assumption.
Qed.

(* ================================================================== *)
(* Header: the strict reader returns the semantic header               *)
(* ================================================================== *)
Lemma write_packinfo_facts en p bs : write_packinfo en p = Ok bs ->
  p_numstreams p = zlen (p_sizes p) /\
  (any_true (p_digestdefined p) || en = true -> (length (p_sizes p) <= length (p_digestdefined p))%nat).
Proof.
  unfold write_packinfo. intros Hw.
  destruct (negb (p_numstreams p =? zlen (p_sizes p))) eqn:En; [discriminate|].
  bind_inv Hw a Ha. bind_inv Hw b Hb. bind_inv Hw c Hc. bind_inv Hw d Hd.
  split; [lia|]. intros Hen. rewrite Hen in Hd.
  destruct (negb (zlen (p_crcs p) =? p_numstreams p)); [discriminate|].
  destruct (length (p_digestdefined p) <? length (p_sizes p))%nat eqn:E2; [discriminate|]. lia.
Qed.

Lemma write_substreams_nonneg s bs : write_substreams s = Ok bs -> Forall (fun n => 0 <= n) (s_nums s).
Proof.
  unfold write_substreams. intros Hw. destruct (length (s_nums s) =? 0)%nat eqn:E.
  - destruct (s_nums s); [constructor|discriminate].
  - cbv zeta in Hw. bind_inv Hw a Ha. destruct (existsb (fun n => negb (n =? 1)) (s_nums s)) eqn:Es.
    + bind_inv Ha x Hx. apply wr_list_numbers_range in Hx. eapply Forall_impl; [|exact Hx]. cbv beta. intros; lia.
    + rewrite (not_solid_ones _ Es). apply Forall_forall. intros n Hn. apply repeat_spec in Hn. lia.
Qed.

Lemma wf_sub_sizes_length nums : forall fs sizes, Forall (fun n => 0 <= n) nums ->
  wf_sub_sizes nums fs sizes = true -> zlen sizes = sumZ nums.
Proof.
  induction nums as [|n nr IH]; intros fs sizes Hn Hwf.
  - destruct fs; cbn in Hwf; destruct sizes; try discriminate; reflexivity.
  - destruct fs as [|f fr]; [discriminate|]. cbn [wf_sub_sizes] in Hwf. inversion Hn as [|? ? Hn0 Hnr]; subst.
    rewrite sumZ_cons. destruct (0 <? n) eqn:En.
    + cbv zeta in Hwf. apply andb_true_iff in Hwf as [Hwf Hrec]. apply andb_true_iff in Hwf as [Hk _].
      pose proof (IH fr _ Hnr Hrec) as Hl. rewrite zlen_skipn in Hl by lia. lia.
    + rewrite (IH fr sizes Hnr Hwf). lia.
Qed.

Ltac hdr_cbn := cbn [map length repeat s_default_sizes s_expect s_byte bind Z.eqb Pos.eqb negb fst snd].
Ltac hdr_fin :=
  norm_app; hdr_cbn;
  repeat match goal with
  | H : forall r, s_packinfo _ (_ ++ r) = _ |- _ => rewrite H; clear H; hdr_cbn
  | H : forall r, s_unpackinfo _ (_ ++ r) = _ |- _ => rewrite H; clear H; hdr_cbn
  | H : forall r, s_substreams _ _ (_ ++ r) = _ |- _ => rewrite H; clear H; hdr_cbn
  | H : forall r, s_files _ (_ ++ r) = _ |- _ => rewrite H; clear H; hdr_cbn
  end;
  reflexivity.

Theorem writer_conforms_sem lim en pos h bs :
  wf_written lim h -> write_header en pos h = Ok bs -> s_header lim bs = Ok (sem_of en h).
Proof.
  unfold wf_written, wf_written_b, write_header. destruct h as [st fl ef].
  cbn [h_streams h_files h_emptyfiles files_of nums_of].
  intros Hwf Hw. apply andb_true_iff in Hwf as [Hwf Hcount]. apply andb_true_iff in Hwf as [Hws Hwfl].
  bind_inv Hw a Ha. bind_inv Hw b Hb. apply Ok_inj in Hw. subst bs.
  unfold sem_of. cbn [h_streams h_files h_emptyfiles files_of].
  (* FilesInfo *)
  assert (HB : (fl = None /\ b = [] /\ ef = []) \/
               exists files bfl, fl = Some files /\ b = 5 :: bfl /\
                 forall r, s_files lim (bfl ++ r) = Ok ((norm_files files, ef), r)).
  { destruct fl as [files|].
    - right. unfold wfw_files in Hwfl. apply andb_true_iff in Hwfl as [Hwfl Hef].
      apply andb_true_iff in Hwfl as [Hl Hnm].
      destruct (s_files_wr lim _ files ef b ltac:(lia) Hnm Hb) as [bfl [-> Hf]].
      exists files, bfl. split; [reflexivity|split; [reflexivity|]].
      replace (norm_emptyfiles files ef) with ef in Hf; [exact Hf|].
      unfold norm_emptyfiles. cbv zeta. symmetry. apply firstn_app_len.
      pose proof (count_true_bounds (map e_emptystream files)). unfold zlen in *. lia.
    - left. apply Ok_inj in Hb. destruct ef; [auto|discriminate]. }
  clear Hb Hwfl.
  destruct st as [[pk fo so]|].
  - (* MainStreamsInfo *)
    cbn [si_pack si_folders si_sub] in Hws.
    destruct pk as [p|]; [|discriminate]. destruct fo as [fs|]; [|discriminate]. destruct so as [sub|]; [|discriminate].
    apply andb_true_iff in Hws as [Hws Hwsub]. apply andb_true_iff in Hws as [Hws Hwfs].
    apply andb_true_iff in Hws as [Hnf Hwp].
    unfold write_streams in Ha. cbn [si_pack si_folders si_sub] in Ha.
    bind_inv Ha pa Hpa. bind_inv Ha pb Hpb. bind_inv Ha pc Hpc. apply Ok_inj in Ha. subst a.
    destruct (s_packinfo_wr lim en (zlen fs) p pa Hwp ltac:(lia) Hpa) as [bp [-> Hp]].
    destruct (s_unpackinfo_wr lim fs pb ltac:(lia) Hwfs Hpb) as [bf [-> Hf]].
    assert (Esz : exists sz, s_sizes sub = Some sz).
    { unfold wfw_sub in Hwsub. destruct (s_sizes sub) as [sz|]; [eauto|].
      rewrite !andb_false_r in Hwsub. discriminate. }
    destruct Esz as [sz Esz]. rewrite Esz.
    destruct (length (s_nums sub) =? 0)%nat eqn:Ene.
    + (* no sub-streams at all: SubStreamsInfo is not written *)
      unfold write_substreams in Hpc. rewrite Ene in Hpc. apply Ok_inj in Hpc. subst pc.
      unfold wfw_sub in Hwsub. rewrite Esz in Hwsub.
      destruct sub as [nums szo dd dg]. cbn [s_nums s_sizes s_digestsdefined Header.s_digests] in *.
      destruct nums; [|discriminate]. rewrite sumZ_nil in Hwsub.
      destruct fs; [|cbn in Hwsub; discriminate].
      destruct dd; [|rewrite zlen_cons in Hwsub; pose proof (zlen_nonneg dd); lia].
      destruct dg; [|rewrite zlen_cons in Hwsub; pose proof (zlen_nonneg dg); lia].
      destruct sz; [|cbn in Hwsub; rewrite !andb_false_r in Hwsub; discriminate].
      unfold s_header.
      destruct HB as [[-> [-> ->]] | [files [bfl [-> [-> Hfl]]]]]; hdr_fin.
    + pose proof (forallb_Forall _ _ Hwfs) as HF.
      destruct (s_substreams_wr lim fs sub sz pc HF ltac:(lia) Hwsub Esz Ene Hpc) as [bsb [-> Hs]].
      unfold s_header.
      destruct HB as [[-> [-> ->]] | [files [bfl [-> [-> Hfl]]]]]; hdr_fin.
  - apply Ok_inj in Ha. subst a. unfold s_header.
    destruct HB as [[-> [-> ->]] | [files [bfl [-> [-> Hfl]]]]]; hdr_fin.
Qed.

(* ================================================================== *)
(* Structural validity and meaning                                     *)
(* ================================================================== *)
Lemma filter_data_norm cd ad files :
  filter (fun e => negb (e_emptystream e)) (map (norm_file cd ad) files) = map (norm_file cd ad) (filter is_data files).
Proof.
  induction files as [|e fs IH]; [reflexivity|]. cbn [map filter]. unfold is_data at 1.
  cbn [norm_file e_emptystream]. destruct (negb (e_emptystream e)); cbn [map]; rewrite IH; reflexivity.
Qed.

Lemma sumZ_nonneg l : Forall (fun n => 0 <= n) l -> 0 <= sumZ l.
Proof. induction 1; [rewrite sumZ_nil; lia|rewrite sumZ_cons; lia]. Qed.

Lemma packed_count fs : sumZ (map (fun f => zlen (sf_packed f)) (map sem_folder fs)) = zlen fs.
Proof.
  induction fs as [|f fs IH]; [reflexivity|]. cbn [map sem_folder sf_packed]. rewrite sumZ_cons, IH. change (zlen [0]) with 1. rewrite zlen_cons. reflexivity.
Qed.

Lemma unpacksizes_ok lim fs : forallb (wfw_folder lim) fs = true ->
  forallb (fun f => zlen (sf_unpacksizes f) =? sumZ (map c_nout (sf_coders f))) (map sem_folder fs) = true.
Proof.
  induction fs as [|f fs IH]; intros H; [reflexivity|]. cbn [forallb] in H. apply andb_true_iff in H as [Hf Hr].
  cbn [map forallb sem_folder sf_unpacksizes sf_coders]. rewrite (IH Hr), andb_true_r.
  destruct (wfw_folder_inv lim f Hf) as [_ [_ [Hcs [_ Hus]]]]. destruct (simple_sums _ Hcs) as [_ [Sout _]]. lia.
Qed.

Theorem written_valid lim en pos h bs :
  wf_written lim h -> write_header en pos h = Ok bs -> s_valid (sem_of en h) = true.
Proof.
  unfold wf_written, wf_written_b, write_header. destruct h as [st fl ef].
  cbn [h_streams h_files h_emptyfiles files_of nums_of].
  intros Hwf Hw. apply andb_true_iff in Hwf as [Hwf Hcount]. apply andb_true_iff in Hwf as [Hws Hwfl].
  bind_inv Hw a Ha. clear Hw.
  unfold files_of, nums_of in Hcount. cbn [h_streams h_files h_emptyfiles] in Hcount.
  set (files := match fl with Some f => f | None => [] end) in *.
  assert (Hef : zlen ef = count_true (map e_emptystream (norm_files files))).
  { unfold norm_files. rewrite map_emptystream_norm. unfold files. destruct fl as [f|].
    - unfold wfw_files in Hwfl. apply andb_true_iff in Hwfl as [_ Hef]. lia.
    - destruct ef; [reflexivity|discriminate]. }
  assert (Hdata : zlen (filter (fun e => negb (e_emptystream e)) (norm_files files)) = zlen (filter is_data files)).
  { unfold norm_files. rewrite filter_data_norm. apply zlen_map. }
  unfold s_valid, sem_of, files_of. cbn [h_streams h_files h_emptyfiles]. fold files.
  destruct st as [[pk fo so]|].
  - cbn [si_pack si_folders si_sub] in *.
    destruct pk as [p|]; [|discriminate]. destruct fo as [fs|]; [|discriminate]. destruct so as [sub|]; [|discriminate].
    apply andb_true_iff in Hws as [Hws Hwsub]. apply andb_true_iff in Hws as [Hws Hwfs].
    apply andb_true_iff in Hws as [Hnf Hwp].
    unfold write_streams in Ha. cbn [si_pack si_folders si_sub] in Ha.
    bind_inv Ha pa Hpa. bind_inv Ha pb Hpb. bind_inv Ha pc Hpc. clear Ha.
    destruct (write_packinfo_facts en p pa Hpa) as [Hns Hddl].
    pose proof (write_substreams_nonneg sub pc Hpc) as Hnn.
    unfold wfw_sub in Hwsub. destruct (s_sizes sub) as [sz|] eqn:Esz; [|rewrite !andb_false_r in Hwsub; discriminate].
    apply andb_true_iff in Hwsub as [Hw1 Hsz]. apply andb_true_iff in Hw1 as [Hw1 Hdg].
    apply andb_true_iff in Hw1 as [Hw1 Hdd]. apply andb_true_iff in Hw1 as [Hlen Hlim].
    apply andb_true_iff in Hsz as [Hpos Hsz]. apply Nat.eqb_eq in Hlen.
    pose proof (wf_sub_sizes_length _ fs sz Hnn Hsz) as Hszl.
    cbn [sh_packcrcs sh_packsizes sh_folders sh_nums sh_sizes sh_crcs sh_files sh_emptyfile].
    unfold wfw_pack in Hwp. apply andb_true_iff in Hwp as [Hpn Hpd].
    assert (Hpc' : zlen (sem_packcrcs en p) = zlen (p_sizes p)).
    { unfold sem_packcrcs. destruct (any_true (p_digestdefined p) || en) eqn:Een.
      - unfold zlen. rewrite fill_crcs_length. specialize (Hddl eq_refl). unfold zlen in *. lia.
      - rewrite zlen_repeat. pose proof (zlen_nonneg (p_sizes p)). lia. }
    rewrite packed_count, zlen_map, (unpacksizes_ok lim fs Hwfs), Hdata.
    assert (Hcl : zlen (crc_opts (Header.s_digests sub) (s_digestsdefined sub)) = sumZ (s_nums sub)).
    { unfold zlen. rewrite crc_opts_length by (unfold zlen in *; lia). unfold zlen in *. lia. }
    rewrite Hcl.
    repeat (apply andb_true_iff; split); unfold zlen in *; lia.
  - cbn [sh_packcrcs sh_packsizes sh_folders sh_nums sh_sizes sh_crcs sh_files sh_emptyfile map forallb].
    rewrite Hdata. change (sumZ []) with 0 in *. change (zlen (@nil Z)) with 0.
    change (zlen (@nil (option Z))) with 0. change (zlen (@nil sfolder)) with 0.
    repeat (apply andb_true_iff; split); try reflexivity; lia.
Qed.

(* ---- the meaning of the semantic header is the intended member list ---- *)
Lemma go_slices fi : forall szs off cs, length szs = length cs ->
  (fix go (off : Z) (szs : list Z) (cs : list (option Z)) :=
     match szs with
     | [] => []
     | s :: sr => (fi, off, s, hd None cs) :: go (off + s) sr (tl cs)
     end) off szs cs = folder_slices fi off szs cs.
Proof.
  induction szs as [|s sr IH]; intros off cs Hl; [destruct cs; reflexivity|].
  destruct cs as [|c cr]; [discriminate|]. cbn [folder_slices hd tl]. f_equal. apply IH. cbn [length] in Hl. lia.
Qed.

Lemma streams_slices : forall nums fi sizes (crcs : list (option Z)),
  Forall (fun n => 0 <= n) nums -> zlen sizes = sumZ nums -> zlen crcs = sumZ nums ->
  s_streams_of fi nums sizes crcs = slices_of fi nums sizes crcs.
Proof.
  induction nums as [|n nr IH]; intros fi sizes crcs Hn Hs Hc; [reflexivity|].
  inversion Hn as [|? ? Hn0 Hnr]; subst. rewrite sumZ_cons in *. pose proof (sumZ_nonneg _ Hnr).
  cbn [s_streams_of slices_of]. cbv zeta. replace (Z.to_nat (Z.max n 0)) with (Z.to_nat n) by lia.
  rewrite go_slices by (rewrite !firstn_length; unfold zlen in *; lia).
  rewrite IH; [reflexivity|exact Hnr| | ]; rewrite zlen_skipn by (unfold zlen in *; lia); lia.
Qed.

Lemma folder_slices_length fi : forall szs off (cs : list (option Z)), length szs = length cs ->
  length (folder_slices fi off szs cs) = length szs.
Proof.
  induction szs as [|s sr IH]; intros off cs Hl; [reflexivity|].
  destruct cs as [|c cr]; [discriminate|]. cbn [folder_slices length]. rewrite IH; [reflexivity|cbn [length] in Hl; lia].
Qed.

Lemma slices_length : forall nums fi sizes (crcs : list (option Z)),
  Forall (fun n => 0 <= n) nums -> zlen sizes = sumZ nums -> zlen crcs = sumZ nums ->
  zlen (slices_of fi nums sizes crcs) = sumZ nums.
Proof.
  induction nums as [|n nr IH]; intros fi sizes crcs Hn Hs Hc; [reflexivity|].
  inversion Hn as [|? ? Hn0 Hnr]; subst. rewrite sumZ_cons in *. pose proof (sumZ_nonneg _ Hnr).
  cbn [slices_of]. cbv zeta. rewrite zlen_app.
  rewrite IH; [|exact Hnr| | ]; try (rewrite zlen_skipn by (unfold zlen in *; lia); lia).
  unfold zlen at 1. rewrite folder_slices_length by (rewrite !firstn_length; unfold zlen in *; lia).
  rewrite firstn_length. unfold zlen in *. lia.
Qed.

Lemma flat_opt_norm (o : option (option Z)) : flat_opt (Some (flat_opt o)) = flat_opt o.
Proof. destruct o as [[v|]|]; reflexivity. Qed.

Lemma plans_entries cd ad : forall files ef R,
  zlen ef = count_true (map e_emptystream files) -> length R = length (filter is_data files) ->
  s_plans (map (norm_file cd ad) files) ef R = entries_of files ef R.
Proof.
  induction files as [|e fs IH]; intros ef R Hef HR; [reflexivity|].
  cbn [map s_plans entries_of]. cbn [norm_file e_emptystream e_name e_mtime e_attr]. rewrite !flat_opt_norm.
  cbn [map filter] in *. rewrite count_true_cons in Hef. unfold is_data at 1 in HR.
  destruct (e_emptystream e) eqn:Ee; cbn [negb] in HR.
  - destruct ef as [|b er]; [rewrite zlen_nil in Hef; pose proof (count_true_bounds (map e_emptystream fs)); lia|].
    cbn [hd tl]. f_equal. apply IH; [rewrite zlen_cons in Hef; lia|exact HR].
  - destruct R as [|[[[fi off] sz] c] sr]; [discriminate|]. f_equal. apply IH; [lia|cbn [length] in HR; lia].
Qed.

Theorem written_meaning lim en pos h bs :
  wf_written lim h -> write_header en pos h = Ok bs -> spec_plans (sem_of en h) = plans_of h.
Proof.
  unfold wf_written, wf_written_b, write_header. destruct h as [st fl ef].
  cbn [h_streams h_files h_emptyfiles files_of nums_of].
  intros Hwf Hw. apply andb_true_iff in Hwf as [Hwf Hcount]. apply andb_true_iff in Hwf as [Hws Hwfl].
  bind_inv Hw a Ha. clear Hw.
  unfold files_of, nums_of in Hcount. cbn [h_streams h_files h_emptyfiles] in Hcount.
  unfold spec_plans, plans_of, slices_written, sem_of, files_of. cbn [h_streams h_files h_emptyfiles].
  set (files := match fl with Some f => f | None => [] end) in *.
  assert (Hef : zlen ef = count_true (map e_emptystream files)).
  { unfold files. destruct fl as [f|].
    - unfold wfw_files in Hwfl. apply andb_true_iff in Hwfl as [_ Hef]. lia.
    - destruct ef; [reflexivity|discriminate]. }
  destruct st as [[pk fo so]|].
  - cbn [si_pack si_folders si_sub] in *.
    destruct pk as [p|]; [|discriminate]. destruct fo as [fs|]; [|discriminate]. destruct so as [sub|]; [|discriminate].
    apply andb_true_iff in Hws as [Hws Hwsub].
    unfold write_streams in Ha. cbn [si_pack si_folders si_sub] in Ha.
    bind_inv Ha pa Hpa. bind_inv Ha pb Hpb. bind_inv Ha pc Hpc. clear Ha.
    pose proof (write_substreams_nonneg sub pc Hpc) as Hnn.
    unfold wfw_sub in Hwsub. destruct (s_sizes sub) as [sz|] eqn:Esz; [|rewrite !andb_false_r in Hwsub; discriminate].
    apply andb_true_iff in Hwsub as [Hw1 Hsz]. apply andb_true_iff in Hw1 as [Hw1 Hdg].
    apply andb_true_iff in Hw1 as [Hw1 Hdd]. apply andb_true_iff in Hw1 as [Hlen Hlim].
    apply andb_true_iff in Hsz as [Hpos Hsz].
    pose proof (wf_sub_sizes_length _ fs sz Hnn Hsz) as Hszl.
    assert (Hcl : zlen (crc_opts (Header.s_digests sub) (s_digestsdefined sub)) = sumZ (s_nums sub)).
    { unfold zlen. rewrite crc_opts_length by (unfold zlen in *; lia). unfold zlen in *. lia. }
    cbn [sh_files sh_emptyfile sh_nums sh_sizes sh_crcs].
    rewrite (streams_slices _ 0 sz _ Hnn Hszl Hcl).
    apply plans_entries; [exact Hef|].
    pose proof (slices_length _ 0 sz _ Hnn Hszl Hcl). unfold zlen in *. lia.
  - cbn [sh_files sh_emptyfile sh_nums sh_sizes sh_crcs s_streams_of].
    apply plans_entries; [exact Hef|]. change (sumZ []) with 0 in Hcount. unfold zlen in Hcount. cbn [length]. lia.
Qed.

(* ================================================================== *)
(* C07: writer conformance                                             *)
(* ================================================================== *)
Theorem writer_conforms : forall lim en pos h bs,
  wf_written lim h -> write_header en pos h = Ok bs ->
  exists sh, s_header lim bs = Ok sh /\ s_valid sh = true /\ spec_plans sh = plans_of h.
Proof.
  intros lim en pos h bs Hwf Hw. exists (sem_of en h). split; [|split].
  - eapply writer_conforms_sem; eassumption.
  - eapply written_valid; eassumption.
  - eapply written_meaning; eassumption.
Qed.

(* ================================================================== *)
(* Examples: the hypotheses are satisfiable; the clauses are needed    *)
(* ================================================================== *)
(* an encrypted two-folder archive: folder 0 = LZMA2 -> 7zAES (two coders, chained) holding two members,
   folder 1 = COPY holding one; a directory and an empty file; names with a backslash, a BMP and an
   astral-plane character; partially defined mtime and attribute vectors; pack CRCs (encrypted mode) *)
Definition exw_aes := mkCoder [6; 241; 7; 1] 1 1 (Some [19; 0; 1; 2; 3; 4]).
Definition exw_lzma2 := mkCoder [33] 1 1 (Some [24]).
Definition exw_copy := mkCoder [0] 1 1 None.
Definition ex_written : header :=
  mkHeader
    (Some (mkStreams
       (Some (mkPack 0 2 [48; 30] [true; true] [305419896; 7]))
       (Some [mkFolder [exw_lzma2; exw_aes] [(1, 0)] [0] [48; 300] false None;
              mkFolder [exw_copy] [] [0] [30] false None])
       (Some (mkSub [2; 1] (Some [100; 200; 30]) [true; true; false] [1; 4294967295; 99]))))
    (Some [mkFile false (Some [97; 92; 98]) None None (Some (Some 132223104000000000)) (Some (Some 32));
           mkFile true (Some [100]) None None None (Some (Some 16));
           mkFile false (Some [98; 8364; 128512]) None None (Some None) (Some None);
           mkFile true (Some [101]) None None (Some (Some 1)) None;
           mkFile false (Some [99]) (Some (Some 5)) None (Some (Some 0)) (Some (Some 2147483648))])
    [false; true].

Example ex_written_wf : wf_written 1000 ex_written.
Proof. vm_compute. reflexivity. Qed.

Example ex_written_plans :
  map pl_kind (plans_of ex_written) = [0; 2; 0; 1; 0] /\
  map pl_folder (plans_of ex_written) = [0; -1; 0; -1; 1] /\
  map pl_offset (plans_of ex_written) = [0; 0; 100; 0; 0] /\
  map pl_size (plans_of ex_written) = [100; 0; 200; 0; 30] /\
  map pl_crc (plans_of ex_written) = [Some 1; None; Some 4294967295; None; None] /\
  map pl_mtime (plans_of ex_written) = [Some 132223104000000000; None; None; Some 1; Some 0].
Proof. vm_compute. repeat split; reflexivity. Qed.

(* through the theorem, for both digest modes and every position *)
Example ex_written_conforms en pos bs :
  write_header en pos ex_written = Ok bs ->
  exists sh, s_header 1000 bs = Ok sh /\ s_valid sh = true /\ spec_plans sh = plans_of ex_written.
Proof. apply writer_conforms. exact ex_written_wf. Qed.

Example ex_written_writes : exists bs, write_header true 32 ex_written = Ok bs /\ s_header 1000 bs = Ok (sem_of true ex_written).
Proof. eexists. split; [vm_compute; reflexivity|]. vm_compute. reflexivity. Qed.

(* a session that never compressed anything: directories only, no MainStreamsInfo *)
Definition ex_dirs_only : header :=
  mkHeader None (Some [mkFile true (Some [100]) None None None (Some (Some 16))]) [false].
Example ex_dirs_only_wf : wf_written 10 ex_dirs_only /\ map pl_kind (plans_of ex_dirs_only) = [2].
Proof. split; vm_compute; reflexivity. Qed.

(* WW-FILES-NAMES is needed, and py7zr's sessions CAN violate it (writestr(data, "a\0b") is accepted):
   a NUL inside a name is written as the terminator 00 00, so the NAME record no longer holds
   exactly one terminated string per entry; the strict reader rejects the header *)
Definition q_nul_name : header :=
  mkHeader (Some (mkStreams (Some (mkPack 0 1 [5] [] []))
                            (Some [mkFolder [exw_copy] [] [0] [5] false None])
                            (Some (mkSub [1] (Some [5]) [true] [907060870]))))
           (Some [mkFile false (Some [97; 0; 98]) None None None None]) [].
Example nul_in_name_refuted :
  exists bs, write_header false 32 q_nul_name = Ok bs /\ s_header 1000 bs = Err EBad7z /\
             ~ wf_written 1000 q_nul_name.
Proof. eexists. split; [vm_compute; reflexivity|]. split; [vm_compute; reflexivity|]. vm_compute. discriminate. Qed.

(* WW-SUB-SIZES is needed: the last size of a folder is never stored, a reader recomputes it from the
   folder's unpack size; if the session's sizes do not add up the archive means something else *)
Definition q_sizes_sum : header :=
  mkHeader (Some (mkStreams (Some (mkPack 0 1 [40] [] []))
                            (Some [mkFolder [exw_lzma2] [] [0] [250] false None])
                            (Some (mkSub [2] (Some [100; 200]) [true; true] [1; 2]))))
           (Some [mkFile false (Some [97]) None None None None; mkFile false (Some [98]) None None None None]) [].
Example sizes_sum_needed :
  exists bs sh, write_header false 32 q_sizes_sum = Ok bs /\ s_header 1000 bs = Ok sh /\
                map pl_size (spec_plans sh) = [100; 150] /\ map pl_size (plans_of q_sizes_sum) = [100; 200].
Proof. eexists. eexists. split; [vm_compute; reflexivity|]. split; [vm_compute; reflexivity|]. split; reflexivity. Qed.

(* WW-DATA-COUNT is needed: an entry with a stream but no sub-stream gives a structurally invalid archive *)
Definition q_data_count : header :=
  mkHeader (Some (mkStreams (Some (mkPack 0 1 [40] [] []))
                            (Some [mkFolder [exw_lzma2] [] [0] [100] false None])
                            (Some (mkSub [1] (Some [100]) [true] [1]))))
           (Some [mkFile false (Some [97]) None None None None; mkFile false (Some [98]) None None None None]) [].
Example data_count_needed :
  exists bs sh, write_header false 32 q_data_count = Ok bs /\ s_header 1000 bs = Ok sh /\ s_valid sh = false.
Proof. eexists. eexists. split; [vm_compute; reflexivity|]. split; [vm_compute; reflexivity|]. reflexivity. Qed.

(* WW-CODER (method id of 1..15 bytes) is needed: a 16-byte id is written with id size 0 *)
Definition q_idlen : header :=
  mkHeader (Some (mkStreams (Some (mkPack 0 1 [5] [] []))
                            (Some [mkFolder [mkCoder [1;2;3;4;5;6;7;8;9;10;11;12;13;14;15;16] 1 1 None] [] [0] [5] false None])
                            (Some (mkSub [1] (Some [5]) [true] [1]))))
           (Some [mkFile false (Some [97]) None None None None]) [].
Example idlen_needed :
  exists bs sh, write_header false 32 q_idlen = Ok bs /\ s_header 1000 bs = Ok sh /\
                map (fun f => map c_method (sf_coders f)) (sh_folders sh) = [[[]]].
Proof. eexists. eexists. split; [vm_compute; reflexivity|]. split; [vm_compute; reflexivity|]. reflexivity. Qed.

(* the size fields on an example: five entries, partially defined vectors, an astral-plane name;
   the last entry has a creation time, so the CREATION_TIME record is written (and no LAST_ACCESS_TIME);
   records 14, 15, 25 (kDummy), 17, 18, 20, 21 with content lengths 1, 1, 1, 31, 11, 27, 15 *)
Example property_sizes_ex :
  write_files 33 (files_of ex_written) [false; true] =
  Ok ([5; 5] ++ enc_record (14, [80]) ++ enc_record (15, [64]) ++ enc_record (25, [0]) ++
      enc_record (17, [0; 97; 0; 92; 0; 98; 0; 0; 0; 100; 0; 0; 0; 98; 0; 172; 32; 61; 216; 0; 222; 0; 0; 101; 0; 0; 0; 99; 0; 0; 0]) ++
      enc_record (18, [0; 8; 0; 5; 0; 0; 0; 0; 0; 0; 0]) ++
      enc_record (20, [0; 152; 0; 0; 0; 5; 105; 54; 192; 213; 1; 1; 0; 0; 0; 0; 0; 0; 0; 0; 0; 0; 0; 0; 0; 0; 0]) ++
      enc_record (21, [0; 200; 0; 32; 0; 0; 0; 16; 0; 0; 0; 0; 0; 0; 128]) ++ [0]).
Proof. vm_compute. reflexivity. Qed.

Print Assumptions writer_conforms.
Print Assumptions writer_conforms_sem.
Print Assumptions property_sizes_exact.
Print Assumptions s_files_wr.
Print Assumptions s_substreams_wr.
