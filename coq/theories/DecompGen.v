(* DecompGen.v -- SevenZipDecompressor._decompress / _read_data / decompress as generated from py7zr/compressor.py
   (gen/DecompChain.v) are Decomp.v's chain_run / read_data / decompress, for every state, input, max_length and read
   schedule element; the stage decoders are the same abstract dstep on both sides.  self.digest / self._delivered (not in
   Decomp.v's state) are described separately. *)
From P7 Require Import Prelude PyPrims PyStr PyRe Decomp.
From P7 Require CrcGen.
From P7gen Require HelpersCrc DecompChain.
From Coq Require Import Lia ZArith List ZifyBool ZifyNat.
Import ListNotations.
Open Scope Z_scope.

(* ------------------------------------------------------------------ the slices of PyPrims.v are Decomp.v's *)
Lemma py_clamp_norm n k : 0 <= n -> py_clamp n k = Decomp.py_norm n k.
Proof. intros Hn. unfold py_clamp, Decomp.py_norm. destruct (k <? 0) eqn:E; lia. Qed.

Lemma py_len_zlen (l : bytes) : py_len l = Decomp.zlen l.
Proof. reflexivity. Qed.

Lemma slice_both (l : bytes) a b : PyPrims.py_slice l (Some a) (Some b) = Decomp.py_slice l a b.
Proof.
  unfold PyPrims.py_slice, Decomp.py_slice. cbv zeta. rewrite !py_clamp_norm by (unfold py_len; lia).
  change (py_len l) with (Decomp.zlen l).
  destruct (Decomp.py_norm (Decomp.zlen l) b <=? Decomp.py_norm (Decomp.zlen l) a) eqn:E; [|reflexivity].
  replace (Z.to_nat (Decomp.py_norm (Decomp.zlen l) b - Decomp.py_norm (Decomp.zlen l) a)) with O by lia. reflexivity.
Qed.
Lemma slice_from (l : bytes) a : PyPrims.py_slice l (Some a) None = Decomp.py_from l a.
Proof.
  unfold PyPrims.py_slice, Decomp.py_from, Decomp.py_slice. cbv zeta. rewrite py_clamp_norm by (unfold py_len; lia).
  change (py_len l) with (Decomp.zlen l).
  assert (Hn : Decomp.py_norm (Decomp.zlen l) (Decomp.zlen l) = Decomp.zlen l) by (unfold Decomp.py_norm, Decomp.zlen; destruct (Z.of_nat (length l) <? 0) eqn:?; lia).
  rewrite Hn.
  destruct (Decomp.zlen l <=? Decomp.py_norm (Decomp.zlen l) a) eqn:E; [|reflexivity].
  replace (Z.to_nat (Decomp.zlen l - Decomp.py_norm (Decomp.zlen l) a)) with O by lia. reflexivity.
Qed.
Lemma slice_to (l : bytes) b : PyPrims.py_slice l None (Some b) = Decomp.py_to l b.
Proof.
  unfold PyPrims.py_slice, Decomp.py_to, Decomp.py_slice. cbv zeta. rewrite py_clamp_norm by (unfold py_len; lia).
  change (py_len l) with (Decomp.zlen l).
  assert (Hn : Decomp.py_norm (Decomp.zlen l) 0 = 0) by (unfold Decomp.py_norm, Decomp.zlen; change (0 <? 0) with false; lia).
  rewrite Hn, Z.sub_0_r.
  destruct (Decomp.py_norm (Decomp.zlen l) b <=? 0) eqn:E; [|reflexivity].
  replace (Z.to_nat (Decomp.py_norm (Decomp.zlen l) b)) with O by lia. reflexivity.
Qed.

Lemma read_short_fp avail n k : py_read_short avail n k = Decomp.fp_read avail n k.
Proof. reflexivity. Qed.

(* ------------------------------------------------------------------ list update / index in the middle *)
Lemma list_set_mid {A} (pre : list A) x r y : list_set (pre ++ x :: r) (length pre) y = pre ++ y :: r.
Proof. induction pre as [|a pre IH]; cbn [app length list_set]; [reflexivity|]. now rewrite IH. Qed.
Lemma py_setitem_mid {A} (pre : list A) x r y : py_setitem (pre ++ x :: r) (Z.of_nat (length pre)) y = Ok (pre ++ y :: r).
Proof.
  unfold py_setitem, py_len. rewrite app_length. cbn [length].
  destruct (Z.of_nat (length pre) <? 0) eqn:E; [lia|].
  destruct ((Z.of_nat (length pre) <? 0) || (Z.of_nat (length pre + S (length r)) <=? Z.of_nat (length pre))) eqn:E2; [lia|].
  rewrite Nat2Z.id, list_set_mid. reflexivity.
Qed.
Lemma py_index_mid {A} (pre : list A) x r : py_index (pre ++ x :: r) (Z.of_nat (length pre)) = Ok x.
Proof.
  unfold py_index, py_len. rewrite app_length. cbn [length].
  destruct (Z.of_nat (length pre) <? 0) eqn:E; [lia|].
  destruct ((Z.of_nat (length pre) <? 0) || (Z.of_nat (length pre + S (length r)) <=? Z.of_nat (length pre))) eqn:E2; [lia|].
  rewrite Nat2Z.id, nth_error_app2, Nat.sub_diag by lia. reflexivity.
Qed.
Lemma py_index_end {A} (pre : list A) : py_index pre (Z.of_nat (length pre)) = Err EOther.
Proof.
  unfold py_index, py_len. destruct (Z.of_nat (length pre) <? 0) eqn:E; [lia|].
  destruct ((Z.of_nat (length pre) <? 0) || (Z.of_nat (length pre) <=? Z.of_nat (length pre))) eqn:E2; [reflexivity|lia].
Qed.

Lemma py_index_mid_k {A} (pre : list A) x r k : length pre = k -> py_index (pre ++ x :: r) (Z.of_nat k) = Ok x.
Proof. intros <-. apply py_index_mid. Qed.
Lemma py_setitem_mid_k {A} (pre : list A) x r y k : length pre = k -> py_setitem (pre ++ x :: r) (Z.of_nat k) y = Ok (pre ++ y :: r).
Proof. intros <-. apply py_setitem_mid. Qed.
Lemma py_index_end_k {A} (pre : list A) k : length pre = k -> py_index pre (Z.of_nat k) = Err EOther.
Proof. intros <-. apply py_index_end. Qed.

Arguments DecompChain.SevenZipDecompressor_chain {stage} _.
Arguments DecompChain.SevenZipDecompressor__unpacked {stage} _.
Arguments DecompChain.SevenZipDecompressor__unpacksizes {stage} _.
Arguments DecompChain.SevenZipDecompressor_consumed {stage} _.
Arguments DecompChain.SevenZipDecompressor_input_size {stage} _.
Arguments DecompChain.SevenZipDecompressor_block_size {stage} _.
Arguments DecompChain.SevenZipDecompressor__unused {stage} _.
Arguments DecompChain.SevenZipDecompressor__buf {stage} _.
Arguments DecompChain.SevenZipDecompressor__pos {stage} _.
Arguments DecompChain.SevenZipDecompressor_digest {stage} _.
Arguments DecompChain.SevenZipDecompressor__delivered {stage} _.
Arguments DecompChain.mkSevenZipDecompressor {stage} _ _ _ _ _ _ _ _ _ _ _.

Section Gen.
Variable stage : Type.
Variable dstep : stage -> bytes -> Z -> stage * bytes.
Variable zcrc32 : bytes -> Z -> Z.

Notation SZD := (DecompChain.SevenZipDecompressor stage).
Notation chain_run := (@Decomp.chain_run stage dstep).

(* ------------------------------------------------------------------ _decompress: the loop over self.chain *)
Section Loop.
Variables (ml : Z) (us : list Z).
Variable body : Z * stage -> bytes * list Z * list stage * option bytes -> res ((bytes * list Z * list stage * option bytes) * bool).
Hypothesis Hb : forall i d data up chain rv, body (i, d) (data, up, chain, rv) =
  do t1 <- py_index up i; do t2 <- py_index us i;
  if t1 <? t2 then
    let fed := 0 <? py_len data in
    let '(t3s, t3) := dstep d data ml in
    do chain <- py_setitem chain i t3s;
    do t6j <- (if i <? py_len chain - 1
               then do t4 <- py_index us i; do t5 <- py_index up i; Ok (PyPrims.py_slice t3 None (Some (t4 - t5)))
               else Ok t3);
    do t7 <- py_index up i;
    do up <- py_setitem up i (t7 + py_len t6j);
    if fed && (py_len t6j =? 0) && (i <? py_len chain - 1) then Ok ((t6j, up, chain, Some []), true)
    else Ok ((t6j, up, chain, rv), false)
  else if py_len data =? 0 then Ok (([], up, chain, rv), false) else Err EEof.

Definition rv_val (dat : bytes) (rv : option bytes) : bytes := match rv with Some r => r | None => dat end.

Lemma gen_chain_loop : forall (suffix cpre : list stage) (upre usuf uspre ussuf : list Z) (data : bytes),
  length upre = length cpre -> length uspre = length cpre -> us = uspre ++ ussuf ->
  match chain_run suffix usuf ussuf data ml with
  | Ok (ss', up', out) =>
      exists dat rv, for_m (enumerate_from (Z.of_nat (length cpre)) suffix) body (data, upre ++ usuf, cpre ++ suffix, None)
                     = Ok (dat, upre ++ up', cpre ++ ss', rv) /\ out = rv_val dat rv
  | Err e => for_m (enumerate_from (Z.of_nat (length cpre)) suffix) body (data, upre ++ usuf, cpre ++ suffix, None) = Err e
  end.
Proof.
  induction suffix as [|s ss IH]; intros cpre upre usuf uspre ussuf data Hu Hs Hus.
  - cbn [Decomp.chain_run enumerate_from for_m]. exists data, None. split; reflexivity.
  - cbn [Decomp.chain_run enumerate_from for_m]. rewrite Hb.
    destruct usuf as [|u usuf'].
    { rewrite app_nil_r, (py_index_end_k upre _ Hu). cbn [bind]. reflexivity. }
    rewrite (py_index_mid_k upre u usuf' _ Hu). cbn [bind]. rewrite Hus.
    destruct ussuf as [|z ussuf'].
    { rewrite app_nil_r, (py_index_end_k uspre _ Hs). cbn [bind]. reflexivity. }
    rewrite (py_index_mid_k uspre z ussuf' _ Hs). cbn [bind].
    destruct (u <? z) eqn:Euz.
    + cbv zeta. destruct (dstep s data ml) as [s' out0] eqn:Ed.
      rewrite py_setitem_mid. cbn [bind].
      assert (Hlen : py_len (cpre ++ s' :: ss) - 1 = Z.of_nat (length cpre) + Z.of_nat (length ss)).
      { unfold py_len. rewrite app_length. cbn [length]. lia. }
      rewrite Hlen.
      assert (Hlast : (Z.of_nat (length cpre) <? Z.of_nat (length cpre) + Z.of_nat (length ss)) = match ss with [] => false | _ :: _ => true end).
      { destruct ss; cbn [length]; lia. }
      rewrite Hlast.
      set (out := Decomp.trim_out ss out0 (z - u)).
      assert (Ht : (if match ss with [] => false | _ :: _ => true end
                    then Ok (PyPrims.py_slice out0 None (Some (z - u))) else Ok out0) = Ok out).
      { unfold out, Decomp.trim_out. destruct ss; [reflexivity|]. now rewrite slice_to. }
      rewrite Ht. cbn [bind]. rewrite (py_setitem_mid_k upre u usuf' _ _ Hu). cbn [bind].
      change (py_len out) with (Decomp.zlen out). change (py_len data) with (Z.of_nat (length data)).
      assert (Hstop : (0 <? Z.of_nat (length data)) && (Decomp.zlen out =? 0) && match ss with [] => false | _ :: _ => true end
                      = Decomp.stop_here ss data out) by reflexivity.
      rewrite Hstop. destruct (Decomp.stop_here ss data out).
      * exists out, (Some []). split; [reflexivity|reflexivity].
      * specialize (IH (cpre ++ [s']) (upre ++ [u + Decomp.zlen out]) usuf' (uspre ++ [z]) ussuf' out).
        rewrite !app_length in IH. cbn [length] in IH.
        specialize (IH ltac:(lia) ltac:(lia) ltac:(rewrite <- app_assoc; exact Hus)).
        replace (Z.of_nat (length cpre) + 1) with (Z.of_nat (length cpre + 1)) by lia.
        rewrite <- !app_assoc in IH. cbn [app] in IH.
        destruct (chain_run ss usuf' ussuf' out ml) as [[[ss'' up''] d]|e]; cbn [bind].
        -- destruct IH as (dat & rv & Hf & Hv). exists dat, rv. rewrite <- !app_assoc in Hf. cbn [app] in Hf. split; [exact Hf|exact Hv].
        -- exact IH.
    + change (py_len data) with (Decomp.zlen data). destruct (Decomp.zlen data =? 0) eqn:Ez; [|reflexivity].
      specialize (IH (cpre ++ [s]) (upre ++ [u]) usuf' (uspre ++ [z]) ussuf' []).
      rewrite !app_length in IH. cbn [length] in IH.
      specialize (IH ltac:(lia) ltac:(lia) ltac:(rewrite <- app_assoc; exact Hus)).
      replace (Z.of_nat (length cpre) + 1) with (Z.of_nat (length cpre + 1)) by lia.
      rewrite <- !app_assoc in IH. cbn [app] in IH.
      destruct (chain_run ss usuf' ussuf' [] ml) as [[[ss'' up''] d]|e]; cbn [bind].
      -- destruct IH as (dat & rv & Hf & Hv). exists dat, rv. rewrite <- !app_assoc in Hf. cbn [app] in Hf. split; [exact Hf|exact Hv].
      -- exact IH.
Qed.
End Loop.

(* ------------------------------------------------------------------ objects and model states *)
Definition st_of (o : SZD) (fp : bytes) : Decomp.dstate stage :=
  Decomp.mkD (DecompChain.SevenZipDecompressor_chain o) (DecompChain.SevenZipDecompressor__unpacked o)
             (DecompChain.SevenZipDecompressor__unpacksizes o) (DecompChain.SevenZipDecompressor_consumed o)
             (DecompChain.SevenZipDecompressor_input_size o) (DecompChain.SevenZipDecompressor_block_size o)
             (DecompChain.SevenZipDecompressor__unused o) (DecompChain.SevenZipDecompressor__buf o)
             (DecompChain.SevenZipDecompressor__pos o) fp.
(* the object a model state stands for, given the two attributes Decomp.v does not keep *)
Definition of_st (st : Decomp.dstate stage) (digest delivered : Z) : SZD :=
  DecompChain.mkSevenZipDecompressor (Decomp.stages st) (Decomp.unpacked st) (Decomp.unpacksizes st) (Decomp.consumed st)
    (Decomp.input_size st) (Decomp.block_size st) (Decomp.unused st) (Decomp.buf st) (Decomp.pos st) digest delivered.
Lemma of_st_of o fp : of_st (st_of o fp) (DecompChain.SevenZipDecompressor_digest o) (DecompChain.SevenZipDecompressor__delivered o) = o.
Proof. destruct o; reflexivity. Qed.
Lemma st_of_of st dg dl : st_of (of_st st dg dl) (Decomp.fp_rest st) = st.
Proof. destruct st; reflexivity. Qed.

(* ------------------------------------------------------------------ _decompress = chain_run (Decomp.run_chain) *)
Theorem gen_decompress_chain (self : SZD) (fp data : bytes) (ml : Z) :
  DecompChain.SevenZipDecompressor_decompress_chain stage dstep self data ml
  = (do r <- Decomp.run_chain dstep (st_of self fp) data ml;
     let '(st', out) := r in
     Ok (of_st st' (DecompChain.SevenZipDecompressor_digest self) (DecompChain.SevenZipDecompressor__delivered self), out)).
Proof.
  destruct self as [ch up us co isz bsz un bf ps dg dl].
  unfold DecompChain.SevenZipDecompressor_decompress_chain, Decomp.run_chain, st_of. cbv zeta.
  cbn [DecompChain.SevenZipDecompressor_chain DecompChain.SevenZipDecompressor__unpacked DecompChain.SevenZipDecompressor__unpacksizes
       DecompChain.SevenZipDecompressor_consumed DecompChain.SevenZipDecompressor_input_size DecompChain.SevenZipDecompressor_block_size
       DecompChain.SevenZipDecompressor__unused DecompChain.SevenZipDecompressor__buf DecompChain.SevenZipDecompressor__pos
       DecompChain.SevenZipDecompressor_digest DecompChain.SevenZipDecompressor__delivered
       Decomp.stages Decomp.unpacked Decomp.unpacksizes Decomp.consumed Decomp.input_size Decomp.block_size Decomp.unused Decomp.buf
       Decomp.pos Decomp.fp_rest].
  unfold py_enumerate. change (enumerate_from 0 ch) with (enumerate_from (Z.of_nat (@length stage [])) ch).
  match goal with |- context[for_m _ ?b _] =>
    pose proof (gen_chain_loop ml us b ltac:(intros; reflexivity) ch [] [] up [] us data eq_refl eq_refl eq_refl) as HL end.
  cbn [app] in HL.
  destruct (chain_run ch up us data ml) as [[[ss' up'] out]|e]; cbn [bind].
  - destruct HL as (dat & rv & Hf & Hv).
    match goal with |- context[for_m ?xs ?b ?init] => replace (for_m xs b init) with (Ok (dat, up', ss', rv) : res (bytes * list Z * list stage * option bytes)) by (symmetry; exact Hf) end.
    cbn [bind]. subst out. unfold of_st.
    cbn [Decomp.stages Decomp.unpacked Decomp.unpacksizes Decomp.consumed Decomp.input_size Decomp.block_size Decomp.unused Decomp.buf Decomp.pos].
    destruct rv; reflexivity.
  - match goal with |- context[for_m ?xs ?b ?init] => replace (for_m xs b init) with (Err e : res (bytes * list Z * list stage * option bytes)) by (symmetry; exact HL) end.
    reflexivity.
Qed.

(* ------------------------------------------------------------------ _read_data *)
Theorem gen_read_data (self : SZD) (fp : bytes) (rd : nat) :
  DecompChain.SevenZipDecompressor_read_data stage self fp rd
  = (let '(st1, data) := Decomp.read_data (st_of self fp) rd in
     Ok ((of_st st1 (DecompChain.SevenZipDecompressor_digest self) (DecompChain.SevenZipDecompressor__delivered self), data),
         Decomp.fp_rest st1)).
Proof.
  destruct self as [ch up us co isz bsz un bf ps dg dl].
  unfold DecompChain.SevenZipDecompressor_read_data, Decomp.read_data, st_of. cbv zeta.
  cbn [DecompChain.SevenZipDecompressor_chain DecompChain.SevenZipDecompressor__unpacked DecompChain.SevenZipDecompressor__unpacksizes
       DecompChain.SevenZipDecompressor_consumed DecompChain.SevenZipDecompressor_input_size DecompChain.SevenZipDecompressor_block_size
       DecompChain.SevenZipDecompressor__unused DecompChain.SevenZipDecompressor__buf DecompChain.SevenZipDecompressor__pos
       DecompChain.SevenZipDecompressor_digest DecompChain.SevenZipDecompressor__delivered
       Decomp.stages Decomp.unpacked Decomp.unpacksizes Decomp.consumed Decomp.input_size Decomp.block_size Decomp.unused Decomp.buf
       Decomp.pos Decomp.fp_rest].
  change (py_len un) with (Decomp.zlen un). rewrite Z.gtb_ltb.
  destruct (0 <? Z.min (isz - co - Decomp.zlen un) (bsz - Decomp.zlen un)); cbn [bind]; [|reflexivity].
  rewrite read_short_fp. destruct (Decomp.fp_read fp _ rd) as [data rest]. reflexivity.
Qed.

(* ------------------------------------------------------------------ decompress *)
Lemma Ok_inj' {A} (a b : A) : Ok a = Ok b -> a = b.
Proof. congruence. Qed.

Ltac szd_cbn :=
  cbn [DecompChain.SevenZipDecompressor_chain DecompChain.SevenZipDecompressor__unpacked DecompChain.SevenZipDecompressor__unpacksizes
       DecompChain.SevenZipDecompressor_consumed DecompChain.SevenZipDecompressor_input_size DecompChain.SevenZipDecompressor_block_size
       DecompChain.SevenZipDecompressor__unused DecompChain.SevenZipDecompressor__buf DecompChain.SevenZipDecompressor__pos
       DecompChain.SevenZipDecompressor_digest DecompChain.SevenZipDecompressor__delivered
       Decomp.stages Decomp.unpacked Decomp.unpacksizes Decomp.consumed Decomp.input_size Decomp.block_size Decomp.unused Decomp.buf
       Decomp.pos Decomp.fp_rest of_st st_of Decomp.set_buf bind].

Lemma run_chain_keeps (st st2 : Decomp.dstate stage) d ml out : Decomp.run_chain dstep st d ml = Ok (st2, out) ->
  Decomp.buf st2 = Decomp.buf st /\ Decomp.pos st2 = Decomp.pos st /\ Decomp.fp_rest st2 = Decomp.fp_rest st /\
  Decomp.unused st2 = Decomp.unused st.
Proof.
  unfold Decomp.run_chain. destruct (chain_run _ _ _ d ml) as [[[ss up] o]|e]; cbn [bind]; [|discriminate].
  intros H. apply Ok_inj' in H. assert (st2 = Decomp.mkD ss up (Decomp.unpacksizes st) (Decomp.consumed st) (Decomp.input_size st)
    (Decomp.block_size st) (Decomp.unused st) (Decomp.buf st) (Decomp.pos st) (Decomp.fp_rest st)) as -> by congruence.
  repeat split.
Qed.

Theorem gen_decompress (self : SZD) (fp : bytes) (fuel : nat) (ml : Z) (rd : nat) :
  DecompChain.SevenZipDecompressor_decompress stage dstep zcrc32 self fp fuel ml rd
  = (do r <- Decomp.decompress dstep (st_of self fp) ml rd;
     let '(st', out) := r in
     do dg <- HelpersCrc.calculate_crc32 zcrc32 fuel out (DecompChain.SevenZipDecompressor_digest self) 1048576;
     Ok ((of_st st' dg (DecompChain.SevenZipDecompressor__delivered self + py_len out), out), Decomp.fp_rest st')).
Proof.
  destruct self as [ch up us co isz bsz un bf ps dg dl].
  unfold DecompChain.SevenZipDecompressor_decompress, Decomp.decompress. cbv zeta. szd_cbn.
  destruct (ml <? 0) eqn:Eml.
  - rewrite gen_read_data. unfold st_of, of_st. szd_cbn.
    destruct (Decomp.read_data (Decomp.mkD ch up us co isz bsz un bf ps fp) rd) as [st1 data] eqn:Er. szd_cbn.
    rewrite (gen_decompress_chain _ (Decomp.fp_rest st1)). unfold st_of, of_st. szd_cbn.
    assert (H1 : Decomp.mkD (Decomp.stages st1) (Decomp.unpacked st1) (Decomp.unpacksizes st1) (Decomp.consumed st1) (Decomp.input_size st1)
                            (Decomp.block_size st1) (Decomp.unused st1) (Decomp.buf st1) (Decomp.pos st1) (Decomp.fp_rest st1) = st1) by (destruct st1; reflexivity).
    rewrite H1.
    destruct (Decomp.run_chain dstep st1 (Decomp.unused st1 ++ data) ml) as [[st2 out]|e] eqn:Erc; szd_cbn; [|reflexivity].
    destruct (run_chain_keeps _ _ _ _ _ Erc) as (Kb & Kp & Kf & Ku). rewrite Kb, Kp, Kf.
    rewrite slice_from. destruct (HelpersCrc.calculate_crc32 _ _ _ _ _); reflexivity.
  - change (py_len bf) with (Decomp.zlen bf). rewrite Z.geb_leb.
    destruct (ml <=? Decomp.zlen bf - ps) eqn:Ecur; szd_cbn.
    + rewrite slice_both. destruct (HelpersCrc.calculate_crc32 _ _ _ _ _); reflexivity.
    + rewrite gen_read_data. unfold st_of, of_st. szd_cbn.
      destruct (Decomp.read_data (Decomp.mkD ch up us co isz bsz un bf ps fp) rd) as [st1 data] eqn:Er. szd_cbn.
      assert (H1 : Decomp.mkD (Decomp.stages st1) (Decomp.unpacked st1) (Decomp.unpacksizes st1) (Decomp.consumed st1) (Decomp.input_size st1)
                              (Decomp.block_size st1) (Decomp.unused st1) (Decomp.buf st1) (Decomp.pos st1) (Decomp.fp_rest st1) = st1) by (destruct st1; reflexivity).
      change (py_len (Decomp.unused st1)) with (Decomp.zlen (Decomp.unused st1)). rewrite Z.gtb_ltb.
      destruct (0 <? Decomp.zlen (Decomp.unused st1)); szd_cbn.
      * rewrite (gen_decompress_chain _ (Decomp.fp_rest st1)). unfold st_of, of_st. szd_cbn. rewrite H1.
        destruct (Decomp.run_chain dstep st1 (Decomp.unused st1 ++ data) ml) as [[st2 tmp]|e] eqn:Erc; szd_cbn; [|reflexivity].
        destruct (run_chain_keeps _ _ _ _ _ Erc) as (Kb & Kp & Kf & Ku). rewrite ?Kb, ?Kp, ?Kf, ?Ku.
        change (py_len tmp) with (Decomp.zlen tmp).
        destruct (Decomp.zlen bf - ps + Decomp.zlen tmp <=? ml); szd_cbn.
        -- rewrite ?Kb, ?Kp, ?Kf, ?Ku, ?slice_from, ?slice_to. destruct (HelpersCrc.calculate_crc32 _ _ _ _ _); reflexivity.
        -- rewrite ?Kb, ?Kp, ?Kf, ?Ku, ?slice_from, ?slice_to. destruct (HelpersCrc.calculate_crc32 _ _ _ _ _); reflexivity.
      * rewrite (gen_decompress_chain _ (Decomp.fp_rest st1)). unfold st_of, of_st. szd_cbn. rewrite H1.
        destruct (Decomp.run_chain dstep st1 data ml) as [[st2 tmp]|e] eqn:Erc; szd_cbn; [|reflexivity].
        destruct (run_chain_keeps _ _ _ _ _ Erc) as (Kb & Kp & Kf & Ku). rewrite ?Kb, ?Kp, ?Kf, ?Ku.
        change (py_len tmp) with (Decomp.zlen tmp).
        destruct (Decomp.zlen bf - ps + Decomp.zlen tmp <=? ml); szd_cbn.
        -- rewrite ?Kb, ?Kp, ?Kf, ?Ku, ?slice_from, ?slice_to. destruct (HelpersCrc.calculate_crc32 _ _ _ _ _); reflexivity.
        -- rewrite ?Kb, ?Kp, ?Kf, ?Ku, ?slice_from, ?slice_to. destruct (HelpersCrc.calculate_crc32 _ _ _ _ _); reflexivity.
Qed.
End Gen.

(* ------------------------------------------------------------------ with a zlib.crc32 that satisfies the two laws of Crc32.crc32_update:
   decompress never fails because of the digest, and the digest is the running CRC of everything returned *)
Section GenCrc.
Variable stage : Type.
Variable dstep : stage -> bytes -> Z -> stage * bytes.
Variable zcrc32 : bytes -> Z -> Z.
Hypothesis zcrc32_range : forall d v, 0 <= v < 2 ^ 32 -> 0 <= zcrc32 d v < 2 ^ 32.
Hypothesis zcrc32_app : forall a b v, 0 <= v < 2 ^ 32 -> zcrc32 (a ++ b) v = zcrc32 b (zcrc32 a v).

Theorem gen_decompress_is_model (self : DecompChain.SevenZipDecompressor stage) (fp : bytes) (fuel : nat) (ml : Z) (rd : nat) st' out :
  0 <= DecompChain.SevenZipDecompressor_digest self < 2 ^ 32 ->
  Decomp.decompress dstep (st_of stage self fp) ml rd = Ok (st', out) -> (length out <= fuel)%nat ->
  DecompChain.SevenZipDecompressor_decompress stage dstep zcrc32 self fp fuel ml rd
  = Ok ((of_st stage st' (zcrc32 out (DecompChain.SevenZipDecompressor_digest self))
                (DecompChain.SevenZipDecompressor__delivered self + py_len out), out), Decomp.fp_rest st').
Proof.
  intros Hd Hm Hf. rewrite gen_decompress, Hm. cbn [bind].
  rewrite (CrcGen.gen_calculate_crc32 zcrc32 zcrc32_range zcrc32_app) by (try lia; exact Hd). reflexivity.
Qed.

Theorem gen_decompress_err (self : DecompChain.SevenZipDecompressor stage) (fp : bytes) (fuel : nat) (ml : Z) (rd : nat) e :
  Decomp.decompress dstep (st_of stage self fp) ml rd = Err e ->
  DecompChain.SevenZipDecompressor_decompress stage dstep zcrc32 self fp fuel ml rd = Err e.
Proof. intros Hm. rewrite gen_decompress, Hm. reflexivity. Qed.
End GenCrc.

(* ------------------------------------------------------------------ theorems over Decomp.v carried to the generated method *)
Section Transfer.
Variable stage : Type.
Variable dstep : stage -> bytes -> Z -> stage * bytes.
Variable zcrc32 : bytes -> Z -> Z.

Lemma gen_decompress_ok_inv (self o' : DecompChain.SevenZipDecompressor stage) fp fp' fuel ml rd out :
  DecompChain.SevenZipDecompressor_decompress stage dstep zcrc32 self fp fuel ml rd = Ok ((o', out), fp') ->
  Decomp.decompress dstep (st_of stage self fp) ml rd = Ok (st_of stage o' fp', out).
Proof.
  rewrite gen_decompress. destruct (Decomp.decompress dstep (st_of stage self fp) ml rd) as [[st' out']|e]; cbn [bind]; [|discriminate].
  destruct (HelpersCrc.calculate_crc32 _ _ _ _ _) as [dg|e]; cbn [bind]; [|discriminate].
  intros H. assert (o' = of_st stage st' dg (DecompChain.SevenZipDecompressor__delivered self + py_len out') /\ out = out' /\
                    fp' = Decomp.fp_rest st') as (-> & -> & ->) by (repeat split; congruence).
  now rewrite st_of_of.
Qed.

(* C01_decompress_len over the code as translated: each result honours max_length *)
Theorem gen_decompress_len (self o' : DecompChain.SevenZipDecompressor stage) fp fp' fuel ml rd out :
  0 <= DecompChain.SevenZipDecompressor__pos self <= Decomp.zlen (DecompChain.SevenZipDecompressor__buf self) ->
  DecompChain.SevenZipDecompressor__unused self = [] -> 0 <= ml ->
  DecompChain.SevenZipDecompressor_decompress stage dstep zcrc32 self fp fuel ml rd = Ok ((o', out), fp') ->
  Decomp.zlen out <= ml.
Proof.
  intros Hp Hu Hml H. apply gen_decompress_ok_inv in H.
  exact (Decomp.decompress_len stage dstep (st_of stage self fp) (st_of stage o' fp') ml rd out Hp Hu Hml H).
Qed.
End Transfer.
