(* FolderGen.v -- Folder._read / write and UnpackInfo._read / write as generated from py7zr/archiveinfo.py
   (gen/ArchiveinfoRecords.v) are Header.v's parse_folder / write_folder / parse_unpackinfo / write_unpackinfo. *)
From P7 Require Import Prelude PyPrims PyStr PyRe PyTac Number NumberGen BoolVec BoolVecGen Header HeaderPrims HeaderGenPrims PackInfoGen.
From P7gen Require Import ArchiveinfoPrims ArchiveinfoRecords.
From Coq Require Import ZifyBool ZifyNat.
Open Scope Z_scope.
Ltac zlia := first [lia | exfalso; lia].

(* ------------------------------------------------------------------ read_crcs = rd_crcs *)
Fixpoint words (m : nat) (bs : bytes) : list Z :=
  match m with O => [] | S m' => le_value (firstn 4 bs) :: words m' (skipn 4 bs) end.

Lemma py_slice_range {A} (l : list A) a b : 0 <= a <= b ->
  py_slice l (Some a) (Some b) = firstn (Z.to_nat (b - a)) (skipn (Z.to_nat a) l).
Proof.
  intros H. unfold py_slice, py_clamp, py_len. set (n := Z.of_nat (length l)).
  destruct (a <? 0) eqn:Ea; [zlia|]. destruct (b <? 0) eqn:Eb; [zlia|].
  destruct (Z.min b n <=? Z.min a n) eqn:E.
  - symmetry. destruct (Z_le_gt_dec n a) as [Hna|Hna].
    + rewrite skipn_all2 by (subst n; lia). now rewrite firstn_nil.
    + assert (b = a) by zlia. subst b. replace (Z.to_nat (a - a)) with O by zlia. reflexivity.
  - destruct (Z.le_ge_cases b n) as [Hbn|Hbn].
    + rewrite (Z.min_l b n), (Z.min_l a n) by zlia. reflexivity.
    + rewrite (Z.min_r b n), (Z.min_l a n) by zlia.
      rewrite (firstn_all2 (n := Z.to_nat (b - a))) by (rewrite skipn_length; subst n; lia).
      apply firstn_all2. rewrite skipn_length. subst n. lia.
Qed.


Lemma gen_crc_words_loop (data : bytes) (body : Z -> list Z -> res (list Z * bool)) :
  (forall i acc, body i acc = do t <- py_unpack_L (py_slice data (Some (i * 4)) (Some (i * 4 + 4))); Ok (acc ++ [fst (t, tt)], false)) ->
  forall (m k : nat) acc, (4 * k <= length data)%nat ->
  for_m (range_from (Z.of_nat k) m) body acc
  = if (4 * (k + m) <=? length data)%nat then Ok (acc ++ words m (skipn (4 * k) data)) else Err EOther.
Proof.
  intros Hbody. induction m as [|m IH]; intros k acc Hk.
  - cbn [range_from for_m words]. replace (4 * (k + 0) <=? length data)%nat with true by zlia. now rewrite app_nil_r.
  - cbn [range_from for_m]. rewrite Hbody, py_slice_range by zlia.
    replace (Z.to_nat (Z.of_nat k * 4 + 4 - Z.of_nat k * 4)) with 4%nat by zlia.
    replace (Z.to_nat (Z.of_nat k * 4)) with (4 * k)%nat by zlia.
    unfold py_unpack_L, py_unpack_n. rewrite firstn_length, skipn_length.
    destruct (Nat.leb_spec (4 * (k + S m)) (length data)) as [Hle|Hgt].
    + replace (Nat.min 4 (length data - 4 * k) =? 4)%nat with true by zlia. cbn [bind fst].
      replace (Z.of_nat k + 1) with (Z.of_nat (S k)) by zlia. rewrite IH by zlia.
      replace (4 * (S k + m) <=? length data)%nat with true by zlia.
      cbn [words]. rewrite <- app_assoc. cbn [app]. f_equal. f_equal. f_equal. f_equal.
      rewrite skipn_add. f_equal. lia.
    + destruct (Nat.min 4 (length data - 4 * k) =? 4)%nat eqn:E4; [|reflexivity]. cbn [bind fst].
      replace (Z.of_nat k + 1) with (Z.of_nat (S k)) by zlia. rewrite IH by zlia.
      replace (4 * (S k + m) <=? length data)%nat with false by zlia. reflexivity.
Qed.

Lemma rd_rep_words : forall (m f : nat) bs, (4 * m <= length bs)%nat -> (m < f)%nat ->
  rd_rep f (Z.of_nat m) (rd_fixed 4) bs = Ok (words m bs, skipn (4 * m) bs).
Proof.
  induction m as [|m IH]; intros f bs Hl Hf.
  - rewrite rd_rep_nonpos by reflexivity. reflexivity.
  - destruct f as [|f]; [zlia|]. cbn [rd_rep]. destruct (Z.of_nat (S m) <=? 0) eqn:E; [zlia|].
    unfold rd_fixed at 1. replace (length bs <? 4)%nat with false by zlia. cbn [bind].
    replace (Z.of_nat (S m) - 1) with (Z.of_nat m) by zlia.
    rewrite IH by (try rewrite skipn_length; lia). cbn [bind words]. rewrite skipn_add. f_equal. f_equal. f_equal. lia.
Qed.

Lemma words_firstn : forall (m : nat) bs, (4 * m <= length bs)%nat -> words m (firstn (4 * m) bs) = words m bs.
Proof.
  induction m as [|m IH]; intros bs H; [reflexivity|]. cbn [words].
  replace (4 * S m)%nat with (4 + 4 * m)%nat by zlia. f_equal.
  - f_equal. rewrite firstn_firstn. f_equal; lia.
  - rewrite <- (IH (skipn 4 bs)) by (rewrite skipn_length; lia). f_equal.
    rewrite firstn_skipn_comm. reflexivity.
Qed.

Lemma gen_read_crcs_nat bs (m : nat) : read_crcs bs (Z.of_nat m) = rd_crcs (Z.of_nat m) bs.
Proof.
  unfold read_crcs, rd_crcs. rewrite rd_read_nat by zlia. cbv zeta.
  unfold py_range. rewrite Z.sub_0_r, Nat2Z.id. change 0 with (Z.of_nat 0).
  match goal with |- context[for_m _ ?b _] =>
    rewrite (gen_crc_words_loop (firstn (Z.to_nat (4 * Z.of_nat m)) bs) b ltac:(intros; reflexivity) m 0%nat [] ltac:(cbn; lia)) end.
  cbn [skipn plus app]. rewrite firstn_length.
  replace (Z.to_nat (4 * Z.of_nat m)) with (4 * m)%nat by lia.
  destruct m as [|m].
  - cbn [words Nat.mul plus Nat.min Nat.leb bind skipn]. unfold dropZ.
    replace (Z.to_nat (Z.min (Z.max (4 * Z.of_nat 0) 0) (zlen bs))) with O by (unfold zlen; lia). reflexivity.
  - destruct (Z.of_nat (S m) <=? Z.of_nat 0) eqn:E0; [lia|]. unfold zlen.
    destruct (Z.of_nat (length bs) <? 4 * Z.of_nat (S m)) eqn:El.
    + replace (4 * S m <=? Nat.min (4 * S m) (length bs))%nat with false by lia. reflexivity.
    + replace (4 * S m <=? Nat.min (4 * S m) (length bs))%nat with true by lia. cbn [bind].
      change (4 * 0)%nat with 0%nat. cbn [skipn]. unfold rd_many. rewrite rd_rep_words by lia. rewrite words_firstn by lia. reflexivity.
Qed.

Theorem gen_read_crcs_rd_crcs bs count : 0 <= count -> read_crcs bs count = rd_crcs count bs.
Proof. intros Hc. rewrite <- (Z2Nat.id count Hc). apply gen_read_crcs_nat. Qed.

(* ------------------------------------------------------------------ conversions: generated records -> model records *)
Definition coder_of (c : Coder) : coder :=
  Header.mkCoder (Coder_method c) (Coder_numinstreams c) (Coder_numoutstreams c) (Coder_properties c).
Definition coder_gen (c : coder) : Coder := mkCoder (c_method c) (c_nin c) (c_nout c) (c_props c).
Definition bond_of (b : Bond) : Z * Z := (Bond_incoder b, Bond_outcoder b).
Definition bond_gen (p : Z * Z) : Bond := mkBond (fst p) (snd p).
Definition folder_of (f : Folder) : folder :=
  Header.mkFolder (map coder_of (Folder_coders f)) (map bond_of (Folder_bindpairs f)) (Folder_packed_indices f)
                  (Folder_unpacksizes f) (Folder_digestdefined f) (Folder_crc f).

Lemma coder_of_gen c : coder_of (coder_gen c) = c.
Proof. destruct c; reflexivity. Qed.
Lemma bond_of_gen p : bond_of (bond_gen p) = p.
Proof. destruct p; reflexivity. Qed.
Lemma map_coder_of_gen l : map coder_of (map coder_gen l) = l.
Proof. rewrite map_map. rewrite <- (map_id l) at 2. apply map_ext. apply coder_of_gen. Qed.
Lemma map_bond_of_gen l : map bond_of (map bond_gen l) = l.
Proof. rewrite map_map. rewrite <- (map_id l) at 2. apply map_ext. apply bond_of_gen. Qed.

(* ------------------------------------------------------------------ parse_coder: what it leaves *)
Lemma parse_coder_suffix b t c r : parse_coder (b :: t) = Ok (c, r) -> suffix r t.
Proof.
  unfold parse_coder, rd_byte, rd_bytes. cbn [bind].
    destruct (0 <? Z.land b 15); cbn [bind].
    - destruct (negb (Z.land b 16 =? 0)); cbn [bind].
      + destruct (rd_number (dropZ (Z.land b 15) t)) as [[a r1]|e] eqn:E1; cbn [bind]; [|discriminate].
        destruct (rd_number r1) as [[a2 r2]|e] eqn:E2; cbn [bind]; [|discriminate].
        destruct (negb (Z.land b 32 =? 0)); cbn [bind].
        * destruct (rd_number r2) as [[a3 r3]|e] eqn:E3; cbn [bind]; [|discriminate].
          intros H. assert (r = dropZ a3 r3) by congruence. subst r.
          eapply suffix_trans; [apply suffix_dropZ|]. eapply suffix_trans; [eapply rd_number_suffix; eassumption|].
          eapply suffix_trans; [eapply rd_number_suffix; eassumption|]. eapply suffix_trans; [eapply rd_number_suffix; eassumption|].
          apply suffix_dropZ.
        * intros H. assert (r = r2) by congruence. subst r.
          eapply suffix_trans; [eapply rd_number_suffix; eassumption|]. eapply suffix_trans; [eapply rd_number_suffix; eassumption|].
          apply suffix_dropZ.
      + destruct (negb (Z.land b 32 =? 0)); cbn [bind].
        * destruct (rd_number (dropZ (Z.land b 15) t)) as [[a3 r3]|e] eqn:E3; cbn [bind]; [|discriminate].
          intros H. assert (r = dropZ a3 r3) by congruence. subst r.
          eapply suffix_trans; [apply suffix_dropZ|]. eapply suffix_trans; [eapply rd_number_suffix; eassumption|]. apply suffix_dropZ.
        * intros H. assert (r = dropZ (Z.land b 15) t) by congruence. subst r. apply suffix_dropZ.
    - destruct (negb (Z.land b 16 =? 0)); cbn [bind].
      + destruct (rd_number t) as [[a r1]|e] eqn:E1; cbn [bind]; [|discriminate].
        destruct (rd_number r1) as [[a2 r2]|e] eqn:E2; cbn [bind]; [|discriminate].
        destruct (negb (Z.land b 32 =? 0)); cbn [bind].
        * destruct (rd_number r2) as [[a3 r3]|e] eqn:E3; cbn [bind]; [|discriminate].
          intros H. assert (r = dropZ a3 r3) by congruence. subst r.
          eapply suffix_trans; [apply suffix_dropZ|]. eapply suffix_trans; [eapply rd_number_suffix; eassumption|].
          eapply suffix_trans; [eapply rd_number_suffix; eassumption|]. eapply rd_number_suffix; eassumption.
        * intros H. assert (r = r2) by congruence. subst r.
          eapply suffix_trans; [eapply rd_number_suffix; eassumption|]. eapply rd_number_suffix; eassumption.
      + destruct (negb (Z.land b 32 =? 0)); cbn [bind].
        * destruct (rd_number t) as [[a3 r3]|e] eqn:E3; cbn [bind]; [|discriminate].
          intros H. assert (r = dropZ a3 r3) by congruence. subst r.
          eapply suffix_trans; [apply suffix_dropZ|]. eapply rd_number_suffix; eassumption.
        * intros H. assert (r = t) by congruence. subst r. apply suffix_refl.
Qed.

Lemma parse_coder_inv bs c r : wf_bytes bs = true -> parse_coder bs = Ok (c, r) ->
  wf_bytes r = true /\ (length r < length bs)%nat.
Proof.
  intros Hw. destruct bs as [|b t]; [discriminate|]. intros H. pose proof (parse_coder_suffix _ _ _ _ H) as Hs.
  cbn [wf_bytes forallb] in Hw. apply andb_true_iff in Hw as [_ Hw].
  split; [eapply suffix_wf; eassumption|]. apply suffix_len in Hs. cbn [length]. lia.
Qed.

Lemma land_pow2_eqb x k : 0 <= k -> (Z.land x (2 ^ k) =? 2 ^ k) = negb (Z.land x (2 ^ k) =? 0).
Proof.
  intros Hk. rewrite land_pow2_testbit by exact Hk.
  assert (H2 : 0 < 2 ^ k) by (apply Z.pow_pos_nonneg; lia).
  destruct (Z.testbit x k) eqn:Eb.
  - replace (Z.land x (2 ^ k)) with (2 ^ k); [now rewrite Z.eqb_refl|].
    apply Z.bits_inj'. intros n Hn. rewrite Z.land_spec, Z.pow2_bits_eqb by lia.
    destruct (Z.eqb_spec k n) as [->|Hne]; [now rewrite Eb | now rewrite andb_false_r].
  - replace (Z.land x (2 ^ k)) with 0; [destruct (Z.eqb_spec 0 (2 ^ k)); [lia|reflexivity]|].
    symmetry. apply Z.bits_inj'. intros n Hn. rewrite Z.land_spec, Z.bits_0, Z.pow2_bits_eqb by lia.
    destruct (Z.eqb_spec k n) as [->|Hne]; [now rewrite Eb | now rewrite andb_false_r].
Qed.

Lemma sumZ_acc l : forall a, fold_left Z.add l a = a + sumZ l.
Proof.
  unfold sumZ. induction l as [|y l IH]; intros a; cbn [fold_left]; [lia|].
  rewrite (IH (a + y)), (IH (0 + y)). lia.
Qed.
Lemma sumZ_cons x l : sumZ (x :: l) = x + sumZ l.
Proof. unfold sumZ at 1. cbn [fold_left]. rewrite sumZ_acc. lia. Qed.

Lemma fold_coders l : forall tin tout (cs : list Coder),
  fold_left (fun (s : Z * Z * list Coder) (c : coder) => let '(a, b, l) := s in (a + c_nin c, b + c_nout c, l ++ [coder_gen c])) l (tin, tout, cs)
  = (tin + sumZ (map c_nin l), tout + sumZ (map c_nout l), cs ++ map coder_gen l).
Proof.
  induction l as [|c l IH]; intros tin tout cs; cbn [fold_left map].
  - unfold sumZ. cbn. now rewrite !Z.add_0_r, app_nil_r.
  - rewrite IH, !sumZ_cons, <- app_assoc. cbn [app]. f_equal. f_equal; lia.
Qed.

Lemma rd_bond_inv bs p r : wf_bytes bs = true -> rd_bond bs = Ok (p, r) -> wf_bytes r = true /\ (length r < length bs)%nat.
Proof.
  intros Hw. unfold rd_bond. destruct (rd_number bs) as [[a r1]|e] eqn:E1; cbn [bind]; [|discriminate].
  destruct (rd_number r1) as [[b r2]|e] eqn:E2; cbn [bind]; [|discriminate]. intros H. assert (r = r2) by congruence. subst r.
  pose proof (rd_number_wf _ _ _ Hw E1) as Hw1. pose proof (rd_number_progress _ _ _ E1). pose proof (rd_number_progress _ _ _ E2).
  split; [eapply rd_number_wf; eassumption | lia].
Qed.

Lemma for_m_filter (p : Z -> bool) (body : Z -> list Z -> res (list Z * bool)) :
  (forall i acc, body i acc = if p i then Ok (acc ++ [i], false) else Ok (acc, false)) ->
  forall xs acc, for_m xs body acc = Ok (acc ++ filter p xs).
Proof.
  intros Hb xs. induction xs as [|x xs IH]; intros acc; cbn [for_m filter]; [now rewrite app_nil_r|].
  rewrite Hb. destruct (p x); rewrite IH; [rewrite <- app_assoc|]; reflexivity.
Qed.

Lemma for_m_map {A B} (g : A -> B) (body : A -> list B -> res (list B * bool)) :
  (forall x acc, body x acc = Ok (acc ++ [g x], false)) ->
  forall xs acc, for_m xs body acc = Ok (acc ++ map g xs).
Proof.
  intros Hb xs. induction xs as [|x xs IH]; intros acc; cbn [for_m map]; [now rewrite app_nil_r|].
  rewrite Hb, IH, <- app_assoc. reflexivity.
Qed.

Lemma in_ints_bonds bonds i : py_in_ints i (map Bond_incoder (map bond_gen bonds)) = find_in_bond bonds i.
Proof.
  unfold py_in_ints, find_in_bond. induction bonds as [|[a b] l IH]; [reflexivity|].
  cbn [map existsb bond_gen Bond_incoder fst]. rewrite IH, (Z.eqb_sym i a). reflexivity.
Qed.

Definition folder_gen (f : folder) : Folder :=
  mkFolder (f_unpacksizes f) (map coder_gen (f_coders f)) (map bond_gen (f_bonds f)) (f_packed f) false (f_digestdefined f) (f_crc f).
Lemma folder_of_gen f : folder_of (folder_gen f) = f.
Proof.
  destruct f as [cs bo pk us dd crc]. unfold folder_of, folder_gen.
  cbn [Folder_unpacksizes Folder_coders Folder_bindpairs Folder_packed_indices Folder_digestdefined Folder_crc
       f_unpacksizes f_coders f_bonds f_packed f_digestdefined f_crc].
  now rewrite map_coder_of_gen, map_bond_of_gen.
Qed.

(* exact form: the object Folder.retrieve builds is the image of the model's folder (solid = False) *)
Theorem gen_Folder_retrieve_exact_or lim bs : wf_bytes bs = true ->
  parse_folder lim bs = Err EFuel \/
  Folder_retrieve bs = (do (f, r) <- parse_folder lim bs; Ok (folder_gen f, r)).
Proof.
  intros Hw. unfold Folder_retrieve, Folder_read, Folder_init, parse_folder.
  cbn [Folder_unpacksizes Folder_coders Folder_bindpairs Folder_packed_indices Folder_solid Folder_digestdefined Folder_crc].
  cbv zeta. rewrite gen_read_uint64_rd_number by exact Hw.
  destruct (rd_number bs) as [[nc bs1]|e] eqn:E1; cbn [bind]; [|right; reflexivity].
  pose proof (rd_number_wf _ _ _ Hw E1) as Hw1.
  (* the coder loop *)
  match goal with |- context[for_m (py_range 0 nc) ?b (0, 0, [], bs1)] => set (cb := b) end.
  assert (Hcb : forall (x : Z) (s : Z * Z * list Coder) b, wf_bytes b = true ->
            cb x (s, b) = match parse_coder b with
                          | Ok (c, r) => Ok ((let '(ti, to, l) := s in (ti + c_nin c, to + c_nout c, l ++ [coder_gen c]), r), false)
                          | Err e => Err e end).
  { intros x [[ti to] l] b Hb. unfold cb, parse_coder, read_byte, rd_byte, rd_bytes. rewrite rd_read_nat by lia.
    destruct b as [|b0 t]; [reflexivity|]. change (Z.to_nat 1) with 1%nat. cbn [firstn skipn py_ord bind].
    cbn [wf_bytes forallb] in Hb. apply andb_true_iff in Hb as [_ Ht].
    change 16 with (2 ^ 4). change 32 with (2 ^ 5). rewrite !land_pow2_eqb by lia.
    destruct (0 <? Z.land b0 15) eqn:Em.
    - rewrite gen_rd_read_bytes by lia. cbn [bind].
      assert (Hwd : wf_bytes (dropZ (Z.land b0 15) t) = true) by (eapply suffix_wf; [apply suffix_dropZ | exact Ht]).
      destruct (negb (Z.land b0 (2 ^ 4) =? 0)).
      + rewrite gen_read_uint64_rd_number by exact Hwd.
        destruct (rd_number (dropZ (Z.land b0 15) t)) as [[a r1]|e] eqn:Ea; cbn [bind]; [|reflexivity].
        pose proof (rd_number_wf _ _ _ Hwd Ea) as Hw1'. rewrite gen_read_uint64_rd_number by exact Hw1'.
        destruct (rd_number r1) as [[a2 r2]|e] eqn:Eb; cbn [bind]; [|reflexivity].
        pose proof (rd_number_wf _ _ _ Hw1' Eb) as Hw2'.
        destruct (negb (Z.land b0 (2 ^ 5) =? 0)); cbn [bind]; [|reflexivity].
        rewrite gen_read_uint64_rd_number by exact Hw2'.
        destruct (rd_number r2) as [[a3 r3]|e] eqn:Ec; cbn [bind]; [|reflexivity].
        rewrite gen_rd_read_bytes by (eapply rd_number_nonneg; eassumption). reflexivity.
      + cbn [bind]. destruct (negb (Z.land b0 (2 ^ 5) =? 0)); cbn [bind]; [|reflexivity].
        rewrite gen_read_uint64_rd_number by exact Hwd.
        destruct (rd_number (dropZ (Z.land b0 15) t)) as [[a3 r3]|e] eqn:Ec; cbn [bind]; [|reflexivity].
        rewrite gen_rd_read_bytes by (eapply rd_number_nonneg; eassumption). reflexivity.
    - cbn [bind]. destruct (negb (Z.land b0 (2 ^ 4) =? 0)).
      + rewrite gen_read_uint64_rd_number by exact Ht.
        destruct (rd_number t) as [[a r1]|e] eqn:Ea; cbn [bind]; [|reflexivity].
        pose proof (rd_number_wf _ _ _ Ht Ea) as Hw1'. rewrite gen_read_uint64_rd_number by exact Hw1'.
        destruct (rd_number r1) as [[a2 r2]|e] eqn:Eb; cbn [bind]; [|reflexivity].
        pose proof (rd_number_wf _ _ _ Hw1' Eb) as Hw2'.
        destruct (negb (Z.land b0 (2 ^ 5) =? 0)); cbn [bind]; [|reflexivity].
        rewrite gen_read_uint64_rd_number by exact Hw2'.
        destruct (rd_number r2) as [[a3 r3]|e] eqn:Ec; cbn [bind]; [|reflexivity].
        rewrite gen_rd_read_bytes by (eapply rd_number_nonneg; eassumption). reflexivity.
      + cbn [bind]. destruct (negb (Z.land b0 (2 ^ 5) =? 0)); cbn [bind]; [|reflexivity].
        rewrite gen_read_uint64_rd_number by exact Ht.
        destruct (rd_number t) as [[a3 r3]|e] eqn:Ec; cbn [bind]; [|reflexivity].
        rewrite gen_rd_read_bytes by (eapply rd_number_nonneg; eassumption). reflexivity. }
  rewrite (gen_fold_many parse_coder (fun (s : Z * Z * list Coder) c => let '(ti, to, l) := s in (ti + c_nin c, to + c_nout c, l ++ [coder_gen c]))
             (fun b => wf_bytes b = true) cb Hcb parse_coder_inv nc (0, 0, []) bs1 Hw1).
  change (rd_many nc parse_coder bs1) with (rd_rep (S (length bs1)) nc parse_coder bs1).
  destruct (rd_rep (S (length bs1)) nc parse_coder bs1) as [[coders bs2]|e] eqn:Ec; cbn [bind]; [|right; reflexivity].
  destruct (rd_rep_inv parse_coder (fun b => wf_bytes b = true) parse_coder_inv _ _ _ _ _ Hw1 Ec) as (Hw2 & _ & _).
  rewrite fold_coders. rewrite !Z.add_0_l. cbn [app].
  set (tin := sumZ (map c_nin coders)). set (tout := sumZ (map c_nout coders)).
  (* the bind-pair loop *)
  match goal with |- context[for_m (py_range 0 (tout - 1)) ?b ([], bs2)] => set (bb := b) end.
  assert (Hbb : forall (x : Z) (s : list Bond) b, wf_bytes b = true ->
            bb x (s, b) = match rd_bond b with Ok (p, r) => Ok ((s ++ [bond_gen p], r), false) | Err e => Err e end).
  { intros x s b Hb. unfold bb, rd_bond. rewrite gen_read_uint64_rd_number by exact Hb.
    destruct (rd_number b) as [[a r1]|e] eqn:Ea; cbn [bind]; [|reflexivity].
    rewrite gen_read_uint64_rd_number by (eapply rd_number_wf; eassumption).
    destruct (rd_number r1) as [[a2 r2]|e]; reflexivity. }
  rewrite (gen_fold_many rd_bond (fun (s : list Bond) p => s ++ [bond_gen p]) (fun b => wf_bytes b = true) bb Hbb rd_bond_inv
             (tout - 1) [] bs2 Hw2).
  change (rd_many (tout - 1) rd_bond bs2) with (rd_rep (S (length bs2)) (tout - 1) rd_bond bs2).
  destruct (rd_rep (S (length bs2)) (tout - 1) rd_bond bs2) as [[bonds bs3]|e] eqn:Eb; cbn [bind]; [|right; reflexivity].
  destruct (rd_rep_inv rd_bond (fun b => wf_bytes b = true) rd_bond_inv _ _ _ _ _ Hw2 Eb) as (Hw3 & _ & _).
  rewrite fold_left_snoc_map. cbn [app].
  destruct (tin - (tout - 1) =? 1) eqn:Ep.
  - destruct (lim <? tin) eqn:El; [left; reflexivity|]. right.
    rewrite (for_m_map Bond_incoder) by (intros; reflexivity). cbn [bind app].
    rewrite (for_m_filter (fun i => negb (py_in_ints i (map Bond_incoder (map bond_gen bonds))))) by (intros; reflexivity).
    cbn [bind app]. unfold folder_gen. cbn [f_unpacksizes f_coders f_bonds f_packed f_digestdefined f_crc].
    do 3 f_equal. apply filter_ext. intros i. now rewrite in_ints_bonds.
  - right.
    rewrite (gen_read_many read_uint64 rd_number (fun b => wf_bytes b = true) gen_read_uint64_rd_number rdnum_inv _ bs3 Hw3).
    destruct (rd_many (tin - (tout - 1)) rd_number bs3) as [[packed bs4]|e]; cbn [bind]; reflexivity.
Qed.

Theorem gen_Folder_retrieve_eq_model lim bs : wf_bytes bs = true -> parse_folder lim bs <> Err EFuel ->
  (do (o, r) <- Folder_retrieve bs; Ok (folder_of o, r)) = parse_folder lim bs.
Proof.
  intros Hw Hne. destruct (gen_Folder_retrieve_exact_or lim bs Hw) as [H|H]; [contradiction|]. rewrite H.
  destruct (parse_folder lim bs) as [[f r]|e]; cbn [bind]; [|reflexivity]. now rewrite folder_of_gen.
Qed.

(* ------------------------------------------------------------------ Folder.write = write_folder *)
Lemma gen_write_loop_body {X} (w : X -> res bytes) (body : X -> bytes -> res (bytes * bool)) :
  (forall x out, body x out = do b <- w x; Ok (out ++ b, false)) ->
  forall xs out, for_m xs body out = (do b <- wr_list w xs; Ok (out ++ b)).
Proof.
  intros Hb xs. induction xs as [|x xs IH]; intros out; cbn [for_m wr_list bind]; [now rewrite app_nil_r|].
  rewrite Hb. destruct (w x) as [a|e]; cbn [bind]; [|reflexivity].
  rewrite IH. destruct (wr_list w xs) as [b|e]; cbn [bind]; [|reflexivity]. now rewrite app_assoc.
Qed.

Lemma wr_list_map {X Y} (g : X -> Y) (w : Y -> res bytes) xs : wr_list (fun x => w (g x)) xs = wr_list w (map g xs).
Proof. induction xs as [|x xs IH]; cbn [wr_list map]; [reflexivity|]. now rewrite IH. Qed.

Lemma map_snd_enumerate {X} (l : list X) : map snd (py_enumerate l) = l.
Proof.
  unfold py_enumerate. generalize 0. induction l as [|x l IH]; intros i; cbn [enumerate_from map snd]; [reflexivity|].
  now rewrite IH.
Qed.

Lemma lor_flag k a b : 0 <= k < 16 -> (a = 0 \/ a = 16) -> (b = 0 \/ b = 32) -> Z.lor (Z.lor k a) b = k + a + b.
Proof.
  intros Hk Ha Hb.
  assert (Hc : k = 0 \/ k = 1 \/ k = 2 \/ k = 3 \/ k = 4 \/ k = 5 \/ k = 6 \/ k = 7 \/ k = 8 \/ k = 9 \/ k = 10 \/ k = 11
               \/ k = 12 \/ k = 13 \/ k = 14 \/ k = 15) by lia.
  destruct Ha as [-> | ->]; destruct Hb as [-> | ->];
    repeat (destruct Hc as [-> | Hc]; [reflexivity|]); subst; reflexivity.
Qed.

Lemma land15_range x : 0 <= Z.land x 15 < 16.
Proof.
  change 15 with (Z.ones 4). rewrite Z.land_ones by lia. apply Z.mod_pos_bound. reflexivity.
Qed.

Lemma gen_slice_to_takeZ {A} (l : list A) k : 0 <= k -> py_slice l None (Some k) = takeZ k l.
Proof.
  intros Hk. rewrite takeZ_firstn by exact Hk. unfold py_slice, py_clamp, py_len.
  destruct (k <? 0) eqn:E; [zlia|].
  destruct (Z.min k (Z.of_nat (length l)) <=? 0) eqn:E2.
  - assert (Hz : k = 0 \/ length l = O) by zlia. destruct Hz as [-> | Hz]; [reflexivity|].
    destruct l; [now rewrite firstn_nil | discriminate].
  - rewrite Z.sub_0_r. change (Z.to_nat 0) with O. cbn [skipn].
    destruct (Z.le_ge_cases k (Z.of_nat (length l))) as [Hle|Hge].
    + now rewrite Z.min_l by zlia.
    + rewrite Z.min_r by zlia. rewrite Nat2Z.id, firstn_all. symmetry. apply firstn_all2. zlia.
Qed.

Lemma gen_write_bytes x : write_bytes x = Ok x.
Proof. reflexivity. Qed.

Lemma gen_coder_write_step (c : Coder) (out : bytes) (i : Z) :
  (fun '((i, c) : Z * Coder) (out : bytes) =>
      let id := (Coder_method c) in
      let id_size := (Z.land (py_len id) 15) in
      do t2 <- Folder_is_simple c;
      do t3j <- (if (negb t2) then let iscomplex := 16 in Ok iscomplex else let iscomplex := 0 in Ok iscomplex);
      let iscomplex := t3j in
      do t4j <- (if (py_is_some (Coder_properties c)) then let hasattributes := 32 in Ok hasattributes
                 else let hasattributes := 0 in Ok hasattributes);
      let hasattributes := t4j in
      do t5 <- py_pack_B (Z.lor (Z.lor id_size iscomplex) hasattributes);
      let flag := t5 in
      do t6 <- write_byte flag;
      let out := out ++ t6 in
      do t7 <- write_bytes (py_slice id None (Some id_size));
      let out := out ++ t7 in
      do t8 <- Folder_is_simple c;
      do t11j <- (if (negb t8) then
          do t9 <- write_uint64 (Coder_numinstreams c);
          let out := out ++ t9 in
          do t10 <- write_uint64 (Coder_numoutstreams c);
          let out := out ++ t10 in
          Ok out
        else
          Ok out);
      let out := t11j in
      if (py_is_some (Coder_properties c)) then
        do t12 <- py_unwrap (Coder_properties c);
        do t13 <- write_uint64 (py_len t12);
        let out := out ++ t13 in
        do t14 <- py_unwrap (Coder_properties c);
        do t15 <- write_bytes t14;
        let out := out ++ t15 in
      Ok (out, false)
      else
      Ok (out, false)) (i, c) out
  = (do b <- write_coder (coder_of c); Ok (out ++ b, false)).
Proof.
  destruct c as [method nin nout props]. unfold write_coder, coder_of, Folder_is_simple, is_simple.
  cbn [Coder_method Coder_numinstreams Coder_numoutstreams Coder_properties c_method c_nin c_nout c_props bind]. cbv zeta.
  change (py_len method) with (zlen method).
  pose proof (land15_range (zlen method)) as Hr. set (k := Z.land (zlen method) 15) in *.
  rewrite gen_slice_to_takeZ by lia.
  destruct ((nin =? 1) && (nout =? 1)) eqn:Es; destruct props as [p|]; cbn [negb bind py_is_some py_unwrap];
    rewrite lor_flag by (auto; lia); rewrite py_pack_B_ok by lia; cbn [bind];
    rewrite gen_write_byte; cbn [bind];
    try match goal with p : bytes |- context[py_len ?q] => change (py_len q) with (zlen q) end;
    repeat first [ rewrite gen_write_bytes | rewrite gen_write_uint64_wr_number | progress cbn [bind]
                 | match goal with |- context[bind (wr_number ?x) _] => destruct (wr_number x); cbn [bind]; [|reflexivity] end ];
    f_equal; f_equal; repeat (rewrite <- ?app_assoc; cbn [app]); rewrite ?Z.add_0_r, ?app_nil_r; reflexivity.
Qed.

Theorem gen_Folder_write_eq_model (self : Folder) : Folder_write self = write_folder (folder_of self).
Proof.
  destruct self as [us coders bonds packed solid dd crc]. unfold Folder_write, write_folder, folder_of.
  cbn [Folder_unpacksizes Folder_coders Folder_bindpairs Folder_packed_indices Folder_solid Folder_digestdefined Folder_crc
       f_coders f_bonds f_packed]. cbv zeta. cbn [app].
  rewrite gen_write_uint64_wr_number. change (py_len coders) with (zlen coders). rewrite zlen_map.
  destruct (wr_number (zlen coders)) as [n|e]; cbn [bind]; [|reflexivity].
  match goal with |- context[for_m (py_enumerate coders) ?b n] =>
    assert (Hcw : forall x out, b x out = do r <- write_coder (coder_of (snd x)); Ok (out ++ r, false));
    [intros [i c] out; cbn [snd]; exact (gen_coder_write_step c out i) | rewrite (gen_write_loop_body (fun x : Z * Coder => write_coder (coder_of (snd x))) b Hcw)] end.
  rewrite (wr_list_map (fun x : Z * Coder => coder_of (snd x)) write_coder), <- (map_map snd coder_of), map_snd_enumerate.
  destruct (wr_list write_coder (map coder_of coders)) as [cs|e]; cbn [bind]; [|reflexivity].
  match goal with |- context[for_m bonds ?bd _] =>
    rewrite (gen_write_loop_body (fun x : Bond => do a <- wr_number (fst (bond_of x)); do b <- wr_number (snd (bond_of x)); Ok (a ++ b)) bd) end.
  2: { intros [a b] out. cbn [Bond_incoder Bond_outcoder bond_of fst snd]. rewrite !gen_write_uint64_wr_number.
       destruct (wr_number a); cbn [bind]; [|reflexivity]. destruct (wr_number b); cbn [bind]; [|reflexivity]. now rewrite app_assoc. }
  rewrite (wr_list_map bond_of (fun p => do a <- wr_number (fst p); do b <- wr_number (snd p); Ok (a ++ b))).
  destruct (wr_list _ (map bond_of bonds)) as [bo|e]; cbn [bind]; [|reflexivity].
  rewrite (for_m_map Coder_numinstreams) by (intros; reflexivity). cbn [bind app].
  rewrite (for_m_map Coder_numoutstreams) by (intros; reflexivity). cbn [bind app].
  change py_sum with sumZ. rewrite !map_map. cbn [coder_of c_nin c_nout].
  destruct (0 <? sumZ (map Coder_numinstreams coders) - sumZ (map Coder_numoutstreams coders)).
  - rewrite (gen_write_loop write_uint64 wr_number gen_write_uint64_wr_number).
    destruct (wr_list wr_number packed) as [pk|e]; cbn [bind]; [|reflexivity].
    f_equal. repeat (rewrite <- ?app_assoc; cbn [app]). reflexivity.
  - cbn [bind]. f_equal. repeat (rewrite <- ?app_assoc; cbn [app]). rewrite ?app_nil_r. reflexivity.
Qed.

(* ------------------------------------------------------------------ parse_folder: what it leaves *)
Lemma rd_rep_suffix {A} (rd : reader A) :
  (forall bs v r, rd bs = Ok (v, r) -> suffix r bs) ->
  forall f n bs l r, rd_rep f n rd bs = Ok (l, r) -> suffix r bs.
Proof.
  intros Hs. induction f as [|f IH]; intros n bs l r; cbn [rd_rep].
  - destruct (n <=? 0); [|discriminate]. intros H. assert (r = bs) by congruence. subst. apply suffix_refl.
  - destruct (n <=? 0). { intros H. assert (r = bs) by congruence. subst. apply suffix_refl. }
    destruct (rd bs) as [[x r1]|e] eqn:Er; cbn [bind]; [|discriminate].
    destruct (rd_rep f (n - 1) rd r1) as [[xs r2]|e] eqn:En; cbn [bind]; [|discriminate].
    intros H. assert (r = r2) by congruence. subst. eapply suffix_trans; [eapply IH; eassumption | eapply Hs; eassumption].
Qed.

Lemma parse_coder_suffix' bs c r : parse_coder bs = Ok (c, r) -> suffix r bs.
Proof. destruct bs as [|b t]; [discriminate|]. intros H. apply suffix_cons. eapply parse_coder_suffix; eassumption. Qed.

Lemma rd_bond_suffix bs p r : rd_bond bs = Ok (p, r) -> suffix r bs.
Proof.
  unfold rd_bond. destruct (rd_number bs) as [[a r1]|e] eqn:E1; cbn [bind]; [|discriminate].
  destruct (rd_number r1) as [[b r2]|e] eqn:E2; cbn [bind]; [|discriminate]. intros H. assert (r = r2) by congruence. subst.
  eapply suffix_trans; eapply rd_number_suffix; eassumption.
Qed.

Lemma parse_folder_inv lim bs f r : wf_bytes bs = true -> parse_folder lim bs = Ok (f, r) ->
  wf_bytes r = true /\ (length r < length bs)%nat /\ f_unpacksizes f = [].
Proof.
  intros Hw. unfold parse_folder, rd_many.
  destruct (rd_number bs) as [[nc bs1]|e] eqn:E1; cbn [bind]; [|discriminate].
  destruct (rd_rep _ nc parse_coder bs1) as [[cs bs2]|e] eqn:E2; cbn [bind]; [|discriminate].
  destruct (rd_rep _ _ rd_bond bs2) as [[bo bs3]|e] eqn:E3; cbn [bind]; [|discriminate].
  pose proof (rd_number_progress _ _ _ E1) as Hp1. pose proof (rd_number_suffix _ _ _ E1) as S1.
  pose proof (rd_rep_suffix parse_coder parse_coder_suffix' _ _ _ _ _ E2) as S2.
  pose proof (rd_rep_suffix rd_bond rd_bond_suffix _ _ _ _ _ E3) as S3.
  assert (S13 : suffix bs3 bs1) by (eapply suffix_trans; eassumption).
  destruct (_ =? 1).
  - destruct (lim <? _); [discriminate|]. intros H. assert (Hr : r = bs3) by congruence. subst r.
    assert (Hf : f_unpacksizes f = []) by (inversion H; reflexivity).
    split; [eapply suffix_wf; [eapply suffix_trans; eassumption | exact Hw]|]. split; [apply suffix_len in S13; lia | exact Hf].
  - destruct (rd_rep _ _ rd_number bs3) as [[pk bs4]|e] eqn:E4; cbn [bind]; [|discriminate].
    pose proof (rd_rep_suffix rd_number rd_number_suffix _ _ _ _ _ E4) as S4.
    intros H. assert (Hr : r = bs4) by congruence. subst r.
    assert (Hf : f_unpacksizes f = []) by (inversion H; reflexivity).
    assert (S14 : suffix bs4 bs1) by (eapply suffix_trans; eassumption).
    split; [eapply suffix_wf; [eapply suffix_trans; eassumption | exact Hw]|]. split; [apply suffix_len in S14; lia | exact Hf].
Qed.

(* ------------------------------------------------------------------ the coders-unpack-size loops *)
Definition outs (c : Coder) : nat := Z.to_nat (Coder_numoutstreams c).
Definition set_us (f : Folder) (us : list Z) : Folder :=
  mkFolder us (Folder_coders f) (Folder_bindpairs f) (Folder_packed_indices f) (Folder_solid f) (Folder_digestdefined f) (Folder_crc f).

(* for c in folder.coders: for _ in range(c["numoutstreams"]): folder.unpacksizes.append(read_uint64(file)) *)
Lemma gen_outs_loop (body : Coder -> list Z * bytes -> res ((list Z * bytes) * bool)) :
  (forall c us inp, body c (us, inp) =
     do t4s <- for_m (py_range 0 (Coder_numoutstreams c)) (fun _ '(us, inp) =>
                 do t3r <- read_uint64 inp; let '(t3, inp) := t3r in Ok ((us ++ [t3], inp), false)) (us, inp);
     let '(us, inp) := t4s in Ok ((us, inp), false)) ->
  forall (cs : list Coder) us bs, wf_bytes bs = true ->
  for_m cs body (us, bs) = (do (l, r) <- rd_n (fold_right (fun c k => (outs c + k)%nat) 0%nat cs) rd_number bs; Ok (us ++ l, r)).
Proof.
  intros Hb cs. induction cs as [|c cs IH]; intros us bs Hw.
  - cbn [for_m fold_right rd_n bind]. now rewrite app_nil_r.
  - cbn [for_m fold_right]. rewrite Hb.
    rewrite (gen_fold_loop_n rd_number (fun (a : list Z) v => a ++ [v]) (fun b => wf_bytes b = true)).
    2: { intros x s b Hwb. rewrite gen_read_uint64_rd_number by exact Hwb. destruct (rd_number b) as [[v r]|e]; reflexivity. }
    2: { exact rdnum_inv. }
    2: { exact Hw. }
    rewrite py_range_length, Z.sub_0_r. fold (outs c). rewrite rd_n_app.
    destruct (rd_n (outs c) rd_number bs) as [[l1 r1]|e] eqn:E1; cbn [bind]; [|reflexivity].
    destruct (rd_n_inv rd_number (fun b => wf_bytes b = true) rdnum_inv _ _ _ _ Hw E1) as [Hw1 _].
    rewrite fold_left_snoc_map, map_id, (IH _ _ Hw1).
    destruct (rd_n _ rd_number r1) as [[l2 r2]|e]; cbn [bind]; [|reflexivity]. now rewrite app_assoc.
Qed.

Lemma to_nat_sum_max (g : coder -> Z) (l : list coder) :
  Z.to_nat (sumZ (map (fun c => Z.max (g c) 0) l)) = fold_right (fun c k => (Z.to_nat (g c) + k)%nat) 0%nat l.
Proof.
  induction l as [|c l IH]; [reflexivity|]. cbn [map fold_right]. rewrite sumZ_cons, <- IH.
  assert (0 <= sumZ (map (fun c0 => Z.max (g c0) 0) l)).
  { clear IH. induction l as [|x l IHl]; [unfold sumZ; cbn; lia|]. cbn [map]. rewrite sumZ_cons. lia. }
  lia.
Qed.

Lemma outs_count (cs : list coder) :
  fold_right (fun c k => (outs c + k)%nat) 0%nat (map coder_gen cs) = Z.to_nat (sumZ (map (fun c => Z.max (c_nout c) 0) cs)).
Proof.
  rewrite (to_nat_sum_max c_nout). induction cs as [|c cs IH]; [reflexivity|]. cbn [map fold_right]. now rewrite IH.
Qed.

(* for folder in self.folders: <the coder loops> : the model's rd_unpacksizes (on folders that have no sizes yet) *)
Lemma gen_us_loop (body : Folder -> list Folder * bytes -> res ((list Folder * bytes) * bool))
      (ib : Coder -> list Z * bytes -> res ((list Z * bytes) * bool)) :
  (forall c us inp, ib c (us, inp) =
     do t4s <- for_m (py_range 0 (Coder_numoutstreams c)) (fun _ '(us, inp) =>
                 do t3r <- read_uint64 inp; let '(t3, inp) := t3r in Ok ((us ++ [t3], inp), false)) (us, inp);
     let '(us, inp) := t4s in Ok ((us, inp), false)) ->
  (forall folder acc inp, body folder (acc, inp) =
     do t5s <- for_m (Folder_coders folder) ib (Folder_unpacksizes folder, inp);
     let '(us, inp) := t5s in Ok ((acc ++ [set_us folder us], inp), false)) ->
  forall (fs : list folder) acc bs, wf_bytes bs = true -> Forall (fun f => f_unpacksizes f = []) fs ->
  for_m (map folder_gen fs) body (acc, bs) = (do (fs', r) <- rd_unpacksizes fs bs; Ok (acc ++ map folder_gen fs', r)).
Proof.
  intros Hib Hb fs. induction fs as [|f fs IH]; intros acc bs Hw Hall.
  - cbn [map for_m rd_unpacksizes bind]. now rewrite app_nil_r.
  - inversion Hall as [|? ? Hf Hrest]; subst. cbn [map for_m rd_unpacksizes]. rewrite Hb.
    rewrite (gen_outs_loop ib Hib _ _ _ Hw). unfold folder_gen at 1 2. cbn [Folder_coders Folder_unpacksizes].
    rewrite outs_count, Hf. cbn [app].
    rewrite (rd_many_rd_n rd_number (fun b => wf_bytes b = true) rdnum_inv _ _ Hw).
    destruct (rd_n _ rd_number bs) as [[sz r1]|e] eqn:E1; cbn [bind]; [|reflexivity].
    destruct (rd_n_inv rd_number (fun b => wf_bytes b = true) rdnum_inv _ _ _ _ Hw E1) as [Hw1 _].
    rewrite (IH _ _ Hw1 Hrest).
    destruct (rd_unpacksizes fs r1) as [[fs' r2]|e]; cbn [bind]; [|reflexivity].
    rewrite <- app_assoc. cbn [app map]. reflexivity.
Qed.

(* for idx, folder in enumerate(self.folders): folder.digestdefined = defined[idx]; folder.crc = next(crcs) if defined[idx] else None *)
Definition set_crc (f : Folder) (d : bool) (crc : option Z) : Folder :=
  mkFolder (Folder_unpacksizes f) (Folder_coders f) (Folder_bindpairs f) (Folder_packed_indices f) (Folder_solid f) d crc.

Fixpoint crcs_left (fs : list folder) (defined : list bool) (crcs : list Z) : list Z :=
  match fs, defined with
  | _ :: r, true :: ds => match crcs with _ :: cs => crcs_left r ds cs | [] => [] end
  | _ :: r, false :: ds => crcs_left r ds crcs
  | _, _ => crcs
  end.

Lemma py_index_skipn {A} (l : list A) k :
  py_index l (Z.of_nat k) = match skipn k l with d :: _ => Ok d | [] => Err EOther end.
Proof.
  destruct (Nat.ltb_spec k (length l)) as [Hlt|Hge].
  - destruct (skipn k l) as [|d t] eqn:Es.
    { apply (f_equal (@length A)) in Es. rewrite skipn_length in Es. cbn in Es. lia. }
    unfold py_index, py_len. destruct (Z.of_nat k <? 0) eqn:E0; [lia|].
    destruct ((Z.of_nat k <? 0) || (Z.of_nat (length l) <=? Z.of_nat k)) eqn:E1; [lia|]. rewrite Nat2Z.id.
    rewrite <- (firstn_skipn k l), Es, nth_error_app2 by (rewrite firstn_length; lia).
    rewrite firstn_length. replace (k - Nat.min k (length l))%nat with O by lia. reflexivity.
  - rewrite skipn_all2 by lia. now apply py_index_out.
Qed.

Lemma gen_setcrc_loop (defined : list bool) (body : Z * Folder -> list Folder * list Z -> res ((list Folder * list Z) * bool)) :
  (forall idx folder acc crcs, body (idx, folder) (acc, crcs) =
     do t10 <- py_index defined idx;
     do t11 <- py_index defined idx;
     do t13j <- (if t11 then (do t12n <- py_next crcs; let '(t12, crcs) := t12n in Ok (Some t12, crcs)) else Ok (None, crcs));
     let '(crc, crcs) := t13j in Ok ((acc ++ [set_crc folder t10 crc], crcs), false)) ->
  forall (fs : list folder) (k : nat) acc crcs,
  for_m (enumerate_from (Z.of_nat k) (map folder_gen fs)) body (acc, crcs)
  = (do fs' <- set_folder_crcs fs (skipn k defined) crcs; Ok (acc ++ map folder_gen fs', crcs_left fs (skipn k defined) crcs)).
Proof.
  intros Hb fs. induction fs as [|f fs IH]; intros k acc crcs.
  - cbn [map enumerate_from for_m set_folder_crcs bind crcs_left]. now rewrite app_nil_r.
  - cbn [map enumerate_from for_m set_folder_crcs crcs_left]. rewrite Hb, py_index_skipn.
    replace (Z.of_nat k + 1) with (Z.of_nat (S k)) by lia.
    destruct (skipn k defined) as [|d ds] eqn:Es; cbn [bind]; [reflexivity|].
    assert (Hs : skipn (S k) defined = ds).
    { replace (S k) with (k + 1)%nat by lia. rewrite <- skipn_add, Es. reflexivity. }
    destruct d.
    + destruct crcs as [|c cs]; cbn [py_next bind]; [reflexivity|].
      rewrite IH, Hs. destruct (set_folder_crcs fs ds cs) as [fs'|e]; cbn [bind]; [|reflexivity].
      rewrite <- app_assoc. cbn [app map]. reflexivity.
    + cbn [bind]. rewrite IH, Hs. destruct (set_folder_crcs fs ds crcs) as [fs'|e]; cbn [bind]; [|reflexivity].
      rewrite <- app_assoc. cbn [app map]. reflexivity.
Qed.

Lemma match_pid_11 {A} (pid : option Z) (a b : A) :
  match pid with Some 11 => a | _ => b end = match pid with Some p => if p =? 11 then a else b | None => b end.
Proof. solve_match_const. Qed.
Lemma match_pid_12 {A} (pid : option Z) (a b : A) :
  match pid with Some 12 => a | _ => b end = match pid with Some p => if p =? 12 then a else b | None => b end.
Proof. solve_match_const. Qed.

Lemma gen_read_byte bs : read_byte bs = rd_byte bs.
Proof. destruct bs as [|b t]; reflexivity. Qed.

Lemma rd_byte_wf bs v r : wf_bytes bs = true -> rd_byte bs = Ok (v, r) -> wf_bytes r = true.
Proof.
  destruct bs as [|b t]; [discriminate|]. cbn [rd_byte wf_bytes forallb]. intros Hw H. assert (r = t) by congruence. subst.
  apply andb_true_iff in Hw. apply Hw.
Qed.

Lemma parse_folder_inv2 lim : forall bs f r, wf_bytes bs = true -> parse_folder lim bs = Ok (f, r) ->
  wf_bytes r = true /\ (length r < length bs)%nat.
Proof. intros bs f r Hw H. destruct (parse_folder_inv lim bs f r Hw H) as (A & B & _). auto. Qed.

Lemma rd_n_folders_nil lim : forall k bs l r, wf_bytes bs = true -> rd_n k (parse_folder lim) bs = Ok (l, r) ->
  Forall (fun f => f_unpacksizes f = []) l.
Proof.
  induction k as [|k IH]; intros bs l r Hw; cbn [rd_n].
  - intros H. assert (l = []) by congruence. subst. constructor.
  - destruct (parse_folder lim bs) as [[f r1]|e] eqn:Ef; cbn [bind]; [|discriminate].
    destruct (rd_n k (parse_folder lim) r1) as [[fs r2]|e] eqn:En; cbn [bind]; [|discriminate].
    intros H. assert (l = f :: fs) by congruence. subst.
    destruct (parse_folder_inv lim bs f r1 Hw Ef) as (Hw1 & _ & Hn). constructor; [exact Hn | eapply IH; eassumption].
Qed.

Lemma rd_unpacksizes_suffix : forall fs bs fs' r, rd_unpacksizes fs bs = Ok (fs', r) -> suffix r bs.
Proof.
  induction fs as [|f fs IH]; intros bs fs' r; cbn [rd_unpacksizes].
  - intros H. assert (r = bs) by congruence. subst. apply suffix_refl.
  - unfold rd_many. destruct (rd_rep _ _ rd_number bs) as [[sz r1]|e] eqn:E1; cbn [bind]; [|discriminate].
    destruct (rd_unpacksizes fs r1) as [[fs2 r2]|e] eqn:E2; cbn [bind]; [|discriminate].
    intros H. assert (r = r2) by congruence. subst.
    eapply suffix_trans; [eapply IH; eassumption | eapply (rd_rep_suffix rd_number rd_number_suffix); eassumption].
Qed.

Lemma map_folder_of_gen l : map folder_of (map folder_gen l) = l.
Proof. rewrite map_map. rewrite <- (map_id l) at 2. apply map_ext. apply folder_of_gen. Qed.

Lemma gen_unpack_tail nf (gfs : list folder) (pid : option Z) (inp : bytes) :
  res_same
    (do (o, r) <-
       (do (t9, inp) <-
          (if negb (bytes_eqb (pid_bytes pid) [0]) then do _ <- py_ord (pid_bytes pid); Err EBad7z
           else Ok (mkUnpackInfo nf (map folder_gen gfs) None, inp));
        Ok (mkUnpackInfo (UnpackInfo_numfolders t9) (UnpackInfo_folders t9) (UnpackInfo_datastreamidx t9), inp));
     Ok (map folder_of (UnpackInfo_folders o), r))
    (match pid with Some 0 => Ok (gfs, inp) | _ => Err EBad7z end).
Proof.
  rewrite pid_bytes_eqb, match_pid_0. destruct pid as [p|]; [|exact I].
  destruct (p =? 0); cbn [negb bind pid_bytes py_ord UnpackInfo_folders res_same]; [|exact I].
  now rewrite map_folder_of_gen.
Qed.

Theorem gen_UnpackInfo_retrieve_model_or lim bs : wf_bytes bs = true ->
  parse_unpackinfo lim bs = Err EFuel \/
  res_same (do (o, r) <- UnpackInfo_retrieve bs; Ok (map folder_of (UnpackInfo_folders o), r)) (parse_unpackinfo lim bs).
Proof.
  intros Hw. unfold UnpackInfo_retrieve, UnpackInfo_read, UnpackInfo_init, UnpackInfo_retrieve_coders_info, parse_unpackinfo.
  cbn [UnpackInfo_numfolders UnpackInfo_folders UnpackInfo_datastreamidx]. cbv zeta.
  destruct (gen_pid bs) as (pid & bs1 & Hp1 & Hp2 & Hp3 & _). rewrite Hp1, Hp2. cbn [bind]. specialize (Hp3 Hw).
  rewrite pid_bytes_eqb, match_pid_11.
  destruct pid as [p|]; [destruct (p =? 11) eqn:E11|]; cbn [negb bind]; try (right; exact I).
  rewrite gen_read_uint64_rd_number by exact Hp3.
  destruct (rd_number bs1) as [[nf bs2]|e] eqn:E2; cbn [bind]; [|right; exact I].
  pose proof (rd_number_wf _ _ _ Hp3 E2) as Hw2. rewrite gen_read_byte.
  destruct (rd_byte bs2) as [[ext bs3]|e] eqn:E3; cbn [bind]; [|right; exact I].
  pose proof (rd_byte_wf _ _ _ Hw2 E3) as Hw3.
  destruct (ext =? 0) eqn:Eext; cbn [negb bind]; [|right; exact I].
  (* the folders *)
  match goal with |- context[for_m (py_range 0 nf) ?b ([], bs3)] => set (fb := b) end.
  assert (Hfb : forall (x : Z) (s : list Folder) b, wf_bytes b = true -> parse_folder lim b = Err EFuel \/
            fb x (s, b) = match parse_folder lim b with Ok (f, r) => Ok ((s ++ [folder_gen f], r), false) | Err e => Err e end).
  { intros x s b Hb. destruct (gen_Folder_retrieve_exact_or lim b Hb) as [Hf|He]; [left; exact Hf|right].
    unfold fb. rewrite He. destruct (parse_folder lim b) as [[f r]|e]; reflexivity. }
  rewrite (rd_many_rd_n (parse_folder lim) (fun b => wf_bytes b = true) (parse_folder_inv2 lim) nf bs3 Hw3).
  destruct (gen_fold_loop_or (parse_folder lim) (fun (s : list Folder) f => s ++ [folder_gen f]) (fun b => wf_bytes b = true) fb
              Hfb (parse_folder_inv2 lim) (py_range 0 nf) [] bs3 Hw3) as [Hf|Hl];
    rewrite py_range_length, Z.sub_0_r in *; [left; now rewrite Hf|].
  rewrite Hl. clear Hl.
  destruct (rd_n (Z.to_nat nf) (parse_folder lim) bs3) as [[fs bs4]|e] eqn:Efs; cbn [bind]; [|right; exact I].
  destruct (rd_n_inv (parse_folder lim) (fun b => wf_bytes b = true) (parse_folder_inv2 lim) _ _ _ _ Hw3 Efs) as [Hw4 _].
  pose proof (rd_n_folders_nil lim _ _ _ _ Hw3 Efs) as Hnil.
  rewrite fold_left_snoc_map. cbn [app].
  destruct (gen_pid bs4) as (pid2 & bs5 & Hq1 & Hq2 & Hq3 & _). rewrite Hq1, Hq2. cbn [bind]. specialize (Hq3 Hw4).
  rewrite pid_bytes_eqb, match_pid_12.
  destruct pid2 as [q|]; [destruct (q =? 12) eqn:E12|]; cbn [negb bind]; try (right; exact I).
  (* unpack sizes *)
  match goal with |- context[for_m (map folder_gen fs) ?b ([], bs5)] =>
    match b with context[for_m (Folder_coders _) ?ib0 _] =>
      rewrite (gen_us_loop b ib0 ltac:(intros; reflexivity) ltac:(intros; reflexivity) fs [] bs5 Hq3 Hnil) end end.
  destruct (rd_unpacksizes fs bs5) as [[fs1 bs6]|e] eqn:Eus; cbn [bind app]; [|right; exact I].
  assert (Hw6 : wf_bytes bs6 = true) by (eapply suffix_wf; [eapply rd_unpacksizes_suffix; eassumption | exact Hq3]).
  destruct (gen_pid bs6) as (pid3 & bs7 & Hr1 & Hr2 & Hr3 & _). rewrite Hr1, Hr2. cbn [bind]. specialize (Hr3 Hw6).
  rewrite pid_bytes_eqb, match_pid_10.
  destruct pid3 as [r0|]; [destruct (r0 =? 10) eqn:E10|].
  2: { right. cbn [bind]. exact (gen_unpack_tail nf fs1 (Some r0) bs7). }
  2: { right. cbn [bind]. exact (gen_unpack_tail nf fs1 None bs7). }
  destruct (rd_boolean lim nf true bs7) as [[dd bs8]|e] eqn:Eb.
  2: { destruct e; try (right; rewrite (gen_read_boolean_rd_boolean lim nf true bs7 Hr3) by (rewrite Eb; discriminate);
                        rewrite Eb; exact I).
       left. reflexivity. }
  right. rewrite (gen_read_boolean_rd_boolean lim nf true bs7 Hr3) by (rewrite Eb; discriminate). rewrite Eb. cbn [bind].
  change (py_count_true dd) with (count_true dd).
  rewrite gen_read_crcs_rd_crcs by (pose proof (count_true_bounds dd); lia).
  destruct (rd_crcs (count_true dd) bs8) as [[crcs bs9]|e]; cbn [bind]; [|exact I].
  unfold py_enumerate. change 0 with (Z.of_nat 0).
  match goal with |- context[for_m (enumerate_from _ _) ?b _] =>
    rewrite (gen_setcrc_loop dd b ltac:(intros; reflexivity) fs1 0%nat [] crcs) end.
  cbn [skipn]. destruct (set_folder_crcs fs1 dd crcs) as [fs2|e]; cbn [bind app]; [|exact I].
  destruct (gen_pid bs9) as (pid4 & bs10 & Hs1 & Hs2 & _). rewrite Hs1, Hs2. cbn [bind].
  exact (gen_unpack_tail nf fs2 pid4 bs10).
Qed.

(* the UnpackInfo object keeps numfolders as read; and, as an equation, when the model accepts *)
Corollary gen_UnpackInfo_retrieve_eq_model lim bs fs r : wf_bytes bs = true -> parse_unpackinfo lim bs = Ok (fs, r) ->
  (do (o, r) <- UnpackInfo_retrieve bs; Ok (map folder_of (UnpackInfo_folders o), r)) = Ok (fs, r).
Proof.
  intros Hw H. destruct (gen_UnpackInfo_retrieve_model_or lim bs Hw) as [Hf|Hs]; [congruence|].
  rewrite H in Hs. destruct (do (o, r0) <- UnpackInfo_retrieve bs; Ok (map folder_of (UnpackInfo_folders o), r0)) as [x|e];
    cbn [res_same] in Hs; [congruence | contradiction].
Qed.

(* ------------------------------------------------------------------ UnpackInfo.write (with_crcs = False: the main streams) *)
Lemma wr_list_ext' {X} (f g : X -> res bytes) l : (forall x, f x = g x) -> wr_list f l = wr_list g l.
Proof. intros H. induction l as [|x l IH]; cbn [wr_list]; [reflexivity|]. now rewrite H, IH. Qed.

Theorem gen_UnpackInfo_write_eq_model (self : UnpackInfo) :
  UnpackInfo_write self false =
  if UnpackInfo_numfolders self =? zlen (UnpackInfo_folders self) then write_unpackinfo (map folder_of (UnpackInfo_folders self))
  else Err EOther.
Proof.
  destruct self as [nf folders dsi]. unfold UnpackInfo_write, write_unpackinfo.
  cbn [UnpackInfo_numfolders UnpackInfo_folders UnpackInfo_datastreamidx]. cbv zeta. change (py_len folders) with (zlen folders).
  destruct (nf =? zlen folders) eqn:En; [|reflexivity]. assert (nf = zlen folders) by lia. subst nf. rewrite zlen_map.
  rewrite gen_write_uint64_wr_number. destruct (wr_number (zlen folders)) as [n|e]; cbn [bind]; [|reflexivity].
  rewrite !gen_write_byte. cbn [bind].
  match goal with |- context[for_m folders ?b _] =>
    rewrite (gen_write_loop_body (fun f => write_folder (folder_of f)) b) by (intros f out; now rewrite gen_Folder_write_eq_model) end.
  rewrite (wr_list_map folder_of write_folder).
  destruct (wr_list write_folder (map folder_of folders)) as [body|e]; cbn [bind]; [|reflexivity].
  match goal with |- context[for_m folders ?b _] =>
    rewrite (gen_write_loop_body (fun f => wr_list wr_number (f_unpacksizes (folder_of f))) b) end.
  2: { intros f out. rewrite (gen_write_loop write_uint64 wr_number gen_write_uint64_wr_number).
       unfold folder_of. cbn [f_unpacksizes]. destruct (wr_list wr_number (Folder_unpacksizes f)); reflexivity. }
  rewrite (wr_list_map folder_of (fun f => wr_list wr_number (f_unpacksizes f))).
  destruct (wr_list _ (map folder_of folders)) as [us|e]; cbn [bind]; [|reflexivity].
  f_equal. repeat (rewrite <- ?app_assoc; cbn [app]). reflexivity.
Qed.

Print Assumptions gen_Folder_retrieve_eq_model.
Print Assumptions gen_Folder_write_eq_model.
Print Assumptions gen_UnpackInfo_retrieve_model_or.
Print Assumptions gen_UnpackInfo_write_eq_model.
