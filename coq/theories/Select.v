(* Select.v -- model of selective extraction (property C09).

   Mirrors, line by line, of py7zr/py7zr.py:
     SevenZipFile.extract        (targets normalised with helpers.remove_trailing_slash)
     SevenZipFile._extract       (the name filter: exact membership, or, with recursive=True,
                                  membership or `f.filename.startswith(target + "/")`; registration
                                  of the outputs under `f.id`; directories are never registered)
     SevenZipFile._real_get_contents  (`folder.files = ArchiveFileList(offset=file_id)` and the
                                  numbering of the members of a folder's file list: see
                                  folder_files below)
     Worker.extract              (no folder / one folder / several folders: empty-stream
                                  entries first, then folder by folder, folders without a
                                  registered member skipped)
     Worker._extract_single      (fold over the members with a cursor into the decoded
                                  stream; unselected predecessors queued in just_check and
                                  decoded-and-discarded by _check before the next selected
                                  one; trailing unselected members not decoded at all).
   `Worker.decompress` is represented by "the next `size` bytes of the folder's decoded stream":
   that is Decomp.worker_next (out = firstn size (skipn (length acc) D)), with cursor = length acc.

   Definitions only (all computable, extracted); the proofs are in SelectProofs.v. *)
From P7 Require Import Prelude.
From Coq Require Import Arith.
Local Open Scope nat_scope.

(* ---- strings (names are lists of code points; '/' = 47, '.' = 46) ---------------------- *)
Definition str := list Z.

Fixpoint str_eqb (a b : str) : bool :=
  match a, b with
  | [], [] => true
  | x :: a', y :: b' => (x =? y)%Z && str_eqb a' b'
  | _, _ => false
  end.

(* s.startswith(t) *)
Fixpoint startswith (s t : str) {struct t} : bool :=
  match t with
  | [] => true
  | y :: t' => match s with
               | [] => false
               | x :: s' => (x =? y)%Z && startswith s' t'
               end
  end.

Definition mem (s : str) (l : list str) : bool := existsb (str_eqb s) l.

(* helpers.remove_trailing_slash: if path.endswith("/"): return path[:-1] *)
Definition remove_trailing_slash (s : str) : str :=
  match rev s with
  | c :: r => if (c =? 47)%Z then rev r else s
  | [] => s
  end.

Definition targets_norm (T : list str) : list str := map remove_trailing_slash T.

(* the decision of _extract for one member (targets given; `set(targets)` only matters through
   membership): recursive False -> `f.filename in targets`; recursive True ->
   `f.filename in targets or any(f.filename.startswith(target + "/") for target in targets)`
   (py7zr since `fix: recursive extraction matched targets by string prefix`) *)
Definition sel (T : list str) (recursive : bool) (n : str) : bool :=
  let T' := targets_norm T in
  if recursive then mem n T' || existsb (fun t => startswith n (t ++ [47%Z])) T' else mem n T'.

(* what the property asks for: the named members and, with recursive, the members beneath a
   named directory (path prefix, i.e. string prefix followed by '/') *)
Definition spec_sel (T : list str) (recursive : bool) (n : str) : bool :=
  let T' := targets_norm T in
  mem n T' || (recursive && existsb (fun t => startswith n (t ++ [47%Z])) T').

(* ---- archives --------------------------------------------------------------------------- *)
Inductive kind :=
| KData (folder : nat) (content : bytes)   (* has a sub-stream in folder `folder` *)
| KEmpty                                   (* empty-stream entry that is a file *)
| KDir.                                    (* empty-stream entry with the directory attribute *)

Record entry := mkEntry { ename : str; ekind : kind }.
Definition archive := list entry.

Definition is_data (e : entry) : bool := match ekind e with KData _ _ => true | _ => false end.
Definition is_dir (e : entry) : bool := match ekind e with KDir => true | _ => false end.
Definition econtent (e : entry) : bytes := match ekind e with KData _ c => c | _ => [] end.
Definition esize (e : entry) : nat := length (econtent e).
Definition in_folder (k : nat) (e : entry) : bool :=
  match ekind e with KData f _ => f =? k | _ => false end.

Fixpoint enum_from {A} (i : nat) (l : list A) : list (nat * A) :=
  match l with [] => [] | x :: l' => (i, x) :: enum_from (S i) l' end.
Definition enumerate {A} (l : list A) : list (nat * A) := enum_from 0 l.

(* self.files: every entry with its header index as id *)
Definition all_files (a : archive) : list (nat * entry) := enumerate a.
(* [f for f in self.files if f.emptystream] *)
Definition empties (a : archive) : list (nat * entry) :=
  filter (fun m => negb (is_data (snd m))) (all_files a).
(* the data members of folder k with the header index they are stored under *)
Definition folder_members (a : archive) (k : nat) : list (nat * entry) :=
  filter (fun m => in_folder k (snd m)) (all_files a).
(* folders[k].files as iterated by the worker.
   stored = true (py7zr since `fix: use each member's own index as its id in multi-folder
   extraction`): ArchiveFileList keeps the header index of every appended member
   (`folder.files.append(file_info, file_id)`, __getitem__ uses self.ids[index]).
   stored = false (py7zr before that repair, kept so that a regression is recognised and
   explained): ArchiveFileList(offset = header index of the folder's first data member);
   __getitem__(index) = ArchiveFile(index + offset, ...).
   The harness observes which of the two numberings the implementation has (ids of
   folders[k].files on a probe archive) and runs the model with that flag; every theorem is
   stated for both. *)
Definition folder_files (stored : bool) (a : archive) (k : nat) : list (nat * entry) :=
  if stored then folder_members a k else
  match folder_members a k with
  | [] => []
  | (off, _) :: _ => map (fun jm => (off + fst jm, snd (snd jm))) (enumerate (folder_members a k))
  end.
(* the folder's decoded stream *)
Definition folder_stream (a : archive) (k : nat) : bytes :=
  flat_map (fun m => econtent (snd m)) (folder_members a k).
(* header.main_streams.unpackinfo.numfolders (0 = no main_streams) *)
Definition numfolders (a : archive) : nat :=
  list_max (map (fun e => match ekind e with KData f _ => S f | _ => 0 end) a).

(* ---- _extract: registration --------------------------------------------------------------
   worker.register_filelike(f.id, None) for unselected members; directories are never
   registered (created by _extract itself / ignored with a factory); everything else is
   registered with its output name.  target_filepath.get(id, None): *)
Definition reg_of (a : archive) (p : str -> bool) (id : nat) : option str :=
  match nth_error a id with
  | Some e => if p (ename e) && negb (is_dir e) then Some (ename e) else None
  | None => None
  end.

(* ---- Worker._extract_single ------------------------------------------------------------- *)
Record wstate := mkW { w_cur : nat; w_pend : list nat; w_out : list (str * bytes) }.

(* _check: decode-and-discard every queued member *)
Definition check_skip (cur : nat) (pend : list nat) : nat := fold_left Nat.add pend cur.

Definition wstep (reg : nat -> option str) (stream : bytes) (st : wstate) (m : nat * entry) : wstate :=
  let e := snd m in
  match reg (fst m) with
  | None => if is_data e then mkW (w_cur st) (w_pend st ++ [esize e]) (w_out st) else st
  | Some out =>
      let cur := check_skip (w_cur st) (w_pend st) in
      if is_data e
      then mkW (cur + esize e) [] (w_out st ++ [(out, firstn (esize e) (skipn cur stream))])
      else mkW cur [] (w_out st ++ [(out, [])])
  end.

Definition extract_single (reg : nat -> option str) (stream : bytes) (ms : list (nat * entry))
  : list (str * bytes) :=
  w_out (fold_left (wstep reg stream) ms (mkW 0 [] [])).

Definition is_some {A} (o : option A) : bool := match o with Some _ => true | None => false end.

(* ---- Worker.extract (skip_notarget=True; sequential order; the threaded variant runs the
   same per-folder calls concurrently) *)
Definition worker (stored : bool) (a : archive) (reg : nat -> option str) : list (str * bytes) :=
  let nf := numfolders a in
  if nf =? 0 then extract_single reg [] (empties a)
  else if nf =? 1 then extract_single reg (folder_stream a 0) (all_files a)
  else extract_single reg [] (empties a) ++
       flat_map (fun k =>
                   let fs := folder_files stored a k in
                   if existsb (fun m => is_some (reg (fst m))) fs
                   then extract_single reg (folder_stream a k) fs
                   else [])
                (seq 0 nf).

(* ---- paths (pathlib parts of a relative POSIX path) -------------------------------------- *)
Fixpoint split_slash (s : str) (cur : str) : list str :=
  match s with
  | [] => [rev cur]
  | c :: s' => if (c =? 47)%Z then rev cur :: split_slash s' [] else split_slash s' (c :: cur)
  end.
Definition comps (s : str) : list str :=
  filter (fun c => negb (str_eqb c []) && negb (str_eqb c [46%Z])) (split_slash s []).
Definition path := list str.
(* Path.mkdir(parents=True, exist_ok=True): the path and all its ancestors below the root *)
Definition mkdir_p (p : path) : list path := map (fun k => firstn k p) (seq 1 (length p)).

(* ---- the whole call ---------------------------------------------------------------------- *)
Record result := mkR { delivered : list (str * bytes); mkdirs : list path }.

(* to_dir = true: extraction into a (fresh) directory; false: into a WriterFactory.
   mkdirs: the `mkdir(parents=True)` calls: the selected directory entries (target_dirs; the
   code sorts them, immaterial for the set of directories made), then
   `fileish.parent.mkdir(parents=True, exist_ok=True)` per delivered member. *)
Definition run (stored to_dir : bool) (a : archive) (p : str -> bool) : result :=
  let d := worker stored a (reg_of a p) in
  mkR d (if to_dir
         then map (fun e => comps (ename e)) (filter (fun e => p (ename e) && is_dir e) a)
              ++ map (fun x => removelast (comps (fst x))) d
         else []).

Definition impl_extract (stored to_dir : bool) (a : archive) (T : list str) (recursive : bool) : result :=
  run stored to_dir a (sel T recursive).
(* extractall (and extract(targets=None)): no filter *)
Definition impl_extract_all (stored to_dir : bool) (a : archive) : result := run stored to_dir a (fun _ => true).

Definition dirs_created (r : result) : list path := flat_map mkdir_p (mkdirs r).

(* ---- the specification side ---------------------------------------------------------------
   every non-directory member once, under its own name with its own bytes, in the order the
   worker visits the members *)
Definition payload (m : nat * entry) : list (str * bytes) :=
  if is_dir (snd m) then [] else [(ename (snd m), econtent (snd m))].
Definition canon (ms : list (nat * entry)) : list (str * bytes) := flat_map payload ms.
Definition worker_order (a : archive) : list (nat * entry) :=
  let nf := numfolders a in
  if nf =? 0 then empties a
  else if nf =? 1 then all_files a
  else empties a ++ flat_map (folder_members a) (seq 0 nf).
Definition all_members (a : archive) : list (str * bytes) := canon (worker_order a).

Definition spec_run (to_dir : bool) (a : archive) (p : str -> bool) : result :=
  let d := filter (fun x => p (fst x)) (all_members a) in
  mkR d (if to_dir
         then map (fun e => comps (ename e)) (filter (fun e => p (ename e) && is_dir e) a)
              ++ map (fun x => removelast (comps (fst x))) d
         else []).

(* ---- side conditions ---------------------------------------------------------------------- *)
Definition names (a : archive) : list str := map ename a.

Fixpoint nodupb (l : list str) : bool :=
  match l with [] => true | x :: l' => negb (mem x l') && nodupb l' end.

(* a sane relative name: at least one component, none empty, "." or ".." *)
Definition name_ok (n : str) : bool :=
  let cs := split_slash n [] in
  forallb (fun c => negb (str_eqb c []) && negb (str_eqb c [46%Z]) && negb (str_eqb c [46%Z; 46%Z])) cs.

(* the folder indices of the data members, in header order, are 0,..,0,1,..,1,2,.. *)
Fixpoint folders_ok (expect : nat) (first : bool) (l : list nat) : bool :=
  match l with
  | [] => true
  | f :: l' => if f =? expect then folders_ok expect false l'
               else if negb first && (f =? S expect) then folders_ok (S expect) false l'
               else false
  end.
Definition data_folders (a : archive) : list nat :=
  flat_map (fun e => match ekind e with KData f _ => [f] | _ => [] end) a.

Definition wf_archiveb (a : archive) : bool :=
  nodupb (names a) && forallb name_ok (names a) && folders_ok 0 true (data_folders a).
Definition wf_archive (a : archive) : Prop := wf_archiveb a = true.

(* no member name is a proper string prefix of another except along '/' boundaries (the side
   condition of the property; no theorem needs it since recursive matching goes along '/') *)
Definition prefix_ok (n t : str) : bool :=
  negb (startswith n t) || str_eqb n t || startswith n (t ++ [47%Z]).
Definition prefix_free_namesb (a : archive) : bool :=
  forallb (fun t => forallb (fun n => prefix_ok n t) (names a)) (names a).
Definition prefix_free_names (a : archive) : Prop := prefix_free_namesb a = true.
(* the numbering of every folder's file list agrees with the header: the j-th data member of a
   folder is stored at header index offset+j, i.e. no empty-stream entry lies between two data
   members of one folder (only relevant with more than one folder) *)
Fixpoint nat_list_eqb (l l' : list nat) : bool :=
  match l, l' with
  | [], [] => true
  | x :: r, y :: r' => (x =? y) && nat_list_eqb r r'
  | _, _ => false
  end.
Definition ids_consistentb (stored : bool) (a : archive) : bool :=
  (numfolders a <=? 1) ||
  forallb (fun k => nat_list_eqb (map fst (folder_files stored a k)) (map fst (folder_members a k)))
          (seq 0 (numfolders a)).
Definition ids_consistent (stored : bool) (a : archive) : Prop := ids_consistentb stored a = true.

(* ---- dispatcher (FN 180-199) -------------------------------------------------------------- *)
Local Open Scope Z_scope.

Definition of_str (t : tree) : str := of_bytes t.
Definition of_kind (t : tree) : kind :=
  let tag := of_TI (tnth t 0) in
  if tag =? 0 then KData (Z.to_nat (of_TI (tnth t 1))) (of_bytes (tnth t 2))
  else if tag =? 1 then KEmpty else KDir.
Definition of_entry (t : tree) : entry := mkEntry (of_str (tnth t 0)) (of_kind (tnth t 1)).
Definition of_archive (t : tree) : archive := map of_entry (of_TL t).
Definition of_targets (t : tree) : list str := map of_str (of_TL t).

Definition t_nat (n : nat) : tree := TI (Z.of_nat n).
Definition t_pair (x : str * bytes) : tree := TL [t_bytes (fst x); t_bytes (snd x)].
Definition t_path (p : path) : tree := TL (map t_bytes p).
Definition t_result (r : result) : tree :=
  TL [TL (map t_pair (delivered r)); TL (map t_path (mkdirs r)); TL (map t_path (dirs_created r))].

(* targets argument: () = None (extract everything), (T) = the collection T *)
Definition pred_of (t : tree) (recursive : bool) : str -> bool :=
  match of_TL t with
  | [] => fun _ => true
  | x :: _ => sel (of_targets x) recursive
  end.
Definition spec_pred_of (t : tree) (recursive : bool) : str -> bool :=
  match of_TL t with
  | [] => fun _ => true
  | x :: _ => spec_sel (of_targets x) recursive
  end.

Definition select_dispatch (fn : Z) (a : tree) : tree :=
  match fn with
  (* FN 180 sel_impl_extract : (to_dir archive opt_targets recursive stored) -> (delivered mkdirs dirs) *)
  | 180 => t_result (run (of_bool (tnth a 4)) (of_bool (tnth a 0)) (of_archive (tnth a 1))
                         (pred_of (tnth a 2) (of_bool (tnth a 3))))
  (* FN 181 sel_spec_extract : (to_dir archive opt_targets recursive) -> (delivered mkdirs dirs) *)
  | 181 => t_result (spec_run (of_bool (tnth a 0)) (of_archive (tnth a 1))
                              (spec_pred_of (tnth a 2) (of_bool (tnth a 3))))
  (* FN 182 sel_selected : (targets recursive name) -> (impl_bool spec_bool) *)
  | 182 => TL [t_bool (sel (of_targets (tnth a 0)) (of_bool (tnth a 1)) (of_str (tnth a 2)));
               t_bool (spec_sel (of_targets (tnth a 0)) (of_bool (tnth a 1)) (of_str (tnth a 2)))]
  (* FN 183 sel_remove_trailing_slash : str -> str *)
  | 183 => t_bytes (remove_trailing_slash (of_str a))
  (* FN 184 sel_folder_ids : (archive stored) -> (numfolders ((assigned_id real_id)...)...) *)
  | 184 => let ar := of_archive (tnth a 0) in
           let stored := of_bool (tnth a 1) in
           TL [t_nat (numfolders ar);
               TL (map (fun k => TL (map (fun mm => TL [t_nat (fst (fst mm)); t_nat (fst (snd mm))])
                                         (combine (folder_files stored ar k) (folder_members ar k))))
                       (seq 0 (numfolders ar)))]
  (* FN 185 sel_conditions : (archive stored) -> (wf prefix_free ids_consistent) *)
  | 185 => let ar := of_archive (tnth a 0) in
           TL [t_bool (wf_archiveb ar); t_bool (prefix_free_namesb ar);
               t_bool (ids_consistentb (of_bool (tnth a 1)) ar)]
  (* FN 186 sel_comps : str -> path *)
  | 186 => t_path (comps (of_str a))
  | _ => TL [TI (-2)]
  end.
