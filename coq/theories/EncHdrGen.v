(* EncHdrGen.v -- UnpackInfo.write(file, with_crcs=True) and HeaderStreamsInfo.write as generated from py7zr/archiveinfo.py
   (gen/ArchiveinfoRecords.v) are Enc.v's write_unpackinfo_crcs and the descriptor of an encoded header (C20's layout). *)
From P7 Require Import Prelude PyPrims PyStr PyRe Number NumberGen Header HeaderPrims HeaderGenPrims PackInfoGen FolderGen Enc.
From P7gen Require Import ArchiveinfoPrims ArchiveinfoRecords.
From Coq Require Import ZifyBool ZifyNat.
Open Scope Z_scope.

Definition crc_def_g (f : Folder) : bool := Folder_digestdefined f && py_is_some (Folder_crc f).
Lemma crc_def_model f : crc_def_g f = folder_crc_defined (folder_of f).
Proof. unfold crc_def_g, folder_crc_defined, folder_of. cbn [f_digestdefined f_crc]. destruct (Folder_crc f); reflexivity. Qed.

Lemma wr_list_app' {A} (f : A -> res bytes) l1 l2 :
  wr_list f (l1 ++ l2) = (do a <- wr_list f l1; do b <- wr_list f l2; Ok (a ++ b)).
Proof.
  induction l1 as [|x l1 IH]; cbn [app wr_list bind].
  - destruct (wr_list f l2); reflexivity.
  - destruct (f x) as [a|e]; cbn [bind]; [|reflexivity]. rewrite IH.
    destruct (wr_list f l1) as [a1|e]; cbn [bind]; [|reflexivity].
    destruct (wr_list f l2) as [b|e]; cbn [bind]; [|reflexivity]. now rewrite app_assoc.
Qed.

Lemma gen_crc_collect (body : Folder * bool -> list Z -> res (list Z * bool)) :
  (forall f d acc, body (f, d) acc = if d then do t13 <- py_unwrap (Folder_crc f); Ok (acc ++ [t13], false) else Ok (acc, false)) ->
  forall fs acc,
  (do l <- for_m (combine fs (map crc_def_g fs)) body acc; wr_list (wr_fixed 4) l)
  = (do a <- wr_list (wr_fixed 4) acc;
     do x <- wr_list (fun f => if folder_crc_defined f then wr_fixed 4 (match f_crc f with Some c => c | None => 0 end) else Ok [])
                     (map folder_of fs);
     Ok (a ++ x)).
Proof.
  intros Hb. induction fs as [|f fs IH]; intros acc; cbn [map combine for_m wr_list bind].
  - destruct (wr_list (wr_fixed 4) acc); cbn [bind]; [now rewrite app_nil_r | reflexivity].
  - rewrite Hb, <- crc_def_model. unfold crc_def_g at 1 3. change (f_crc (folder_of f)) with (Folder_crc f).
    destruct (Folder_digestdefined f); cbn [andb].
    + destruct (Folder_crc f) as [c|]; cbn [py_is_some py_unwrap bind].
      * rewrite IH. rewrite (wr_list_app' (wr_fixed 4) acc [c]). cbn [wr_list].
        destruct (wr_list (wr_fixed 4) acc) as [a|e]; cbn [bind]; [|reflexivity].
        destruct (wr_fixed 4 c) as [b|e]; cbn [bind]; [|reflexivity].
        destruct (wr_list _ (map folder_of fs)) as [x|e]; cbn [bind]; [|reflexivity].
        rewrite app_nil_r, <- app_assoc. reflexivity.
      * rewrite IH. destruct (wr_list (wr_fixed 4) acc) as [a|e]; cbn [bind]; [|reflexivity].
        destruct (wr_list _ (map folder_of fs)) as [x|e]; cbn [bind]; reflexivity.
    + rewrite IH. destruct (wr_list (wr_fixed 4) acc) as [a|e]; cbn [bind]; [|reflexivity].
      destruct (wr_list _ (map folder_of fs)) as [x|e]; cbn [bind]; reflexivity.
Qed.

Theorem gen_UnpackInfo_write_crcs_eq_model (self : UnpackInfo) :
  UnpackInfo_write self true =
  if UnpackInfo_numfolders self =? zlen (UnpackInfo_folders self)
  then write_unpackinfo_crcs (map folder_of (UnpackInfo_folders self)) else Err EOther.
Proof.
  destruct self as [nf folders dsi]. unfold UnpackInfo_write, write_unpackinfo_crcs.
  cbn [UnpackInfo_numfolders UnpackInfo_folders UnpackInfo_datastreamidx]. cbv zeta. change (py_len folders) with (zlen folders).
  destruct (nf =? zlen folders) eqn:En; [|reflexivity]. assert (nf = zlen folders) by lia. subst nf. rewrite zlen_map.
  rewrite gen_write_uint64_wr_number. destruct (wr_number (zlen folders)) as [n|e]; cbn [bind]; [|reflexivity].
  rewrite !gen_write_byte. cbn [bind].
  match goal with |- context[for_m folders ?b _] =>
    rewrite (gen_write_loop_body (fun f => write_folder (folder_of f)) b) by (intros f out; now rewrite gen_Folder_write_eq_model) end.
  rewrite (wr_list_map folder_of write_folder).
  destruct (wr_list write_folder (map folder_of folders)) as [body|e]; cbn [bind]; [|reflexivity].
  match goal with |- context[for_m folders ?b _] =>
    rewrite (gen_write_loop_body (fun f => wr_list wr_number (f_unpacksizes (folder_of f))) b) end.
  2: { intros f out. rewrite (gen_write_loop write_uint64 wr_number gen_write_uint64_wr_number).
       unfold folder_of. cbn [f_unpacksizes]. destruct (wr_list wr_number (Folder_unpacksizes f)); reflexivity. }
  rewrite (wr_list_map folder_of (fun f => wr_list wr_number (f_unpacksizes f))).
  destruct (wr_list _ (map folder_of folders)) as [us|e]; cbn [bind]; [|reflexivity].
  rewrite (for_m_map crc_def_g) by (intros; reflexivity). cbn [bind app].
  rewrite HeaderGenPrims.py_any_any_true. cbn [orb].
  assert (Hd : map crc_def_g folders = map folder_crc_defined (map folder_of folders)).
  { rewrite map_map. apply map_ext. apply crc_def_model. }
  rewrite <- Hd.
  destruct (any_true (map crc_def_g folders)); cbn [bind].
  - rewrite gen_write_boolean_wr_boolean. cbn [bind].
    match goal with |- context[for_m (combine folders _) ?b _] =>
      pose proof (gen_crc_collect b ltac:(intros; reflexivity) folders []) as Hc end.
    cbn [wr_list bind app] in Hc.
    match goal with |- context[for_m (combine folders _) ?b _] => destruct (for_m (combine folders (map crc_def_g folders)) b []) as [l|e] end;
      cbn [bind] in Hc |- *.
    + rewrite gen_write_crcs_wr_list, Hc.
      destruct (wr_list _ (map folder_of folders)) as [x|e]; cbn [bind]; [|reflexivity].
      f_equal. repeat (rewrite <- ?app_assoc; cbn [app]). reflexivity.
    + destruct (wr_list _ (map folder_of folders)) as [x|e']; cbn [bind] in Hc |- *; [discriminate | congruence].
  - f_equal. repeat (rewrite <- ?app_assoc; cbn [app]). reflexivity.
Qed.

(* ------------------------------------------------------------------ HeaderStreamsInfo.write *)
Theorem gen_HeaderStreamsInfo_write (self : HeaderStreamsInfo) :
  (do (o, out) <- HeaderStreamsInfo_write self; Ok out)
  = match HeaderStreamsInfo_packinfo self with
    | Some p =>
        do a <- write_packinfo (PackInfo_enable_digests p) (pack_of p);
        match HeaderStreamsInfo_unpackinfo self with
        | Some u =>
            do b <- (if UnpackInfo_numfolders u =? zlen (UnpackInfo_folders u)
                     then write_unpackinfo_crcs (map folder_of (UnpackInfo_folders u)) else Err EOther);
            Ok ([23] ++ a ++ b ++ [0])
        | None => Err EOther
        end
    | None => Err EOther
    end.
Proof.
  destruct self as [po uo so]. unfold HeaderStreamsInfo_write.
  cbn [HeaderStreamsInfo_packinfo HeaderStreamsInfo_unpackinfo HeaderStreamsInfo_substreamsinfo]. cbv zeta.
  rewrite !gen_write_byte. cbn [bind].
  destruct po as [p|]; cbn [py_unwrap bind]; [|reflexivity].
  pose proof (gen_PackInfo_write_eq_model p) as Hp.
  destruct (PackInfo_write p) as [[o b]|e]; cbn [bind] in Hp |- *; rewrite <- Hp; cbn [bind].
  2: reflexivity.
  destruct uo as [u|]; cbn [py_unwrap bind]; [|reflexivity].
  rewrite gen_UnpackInfo_write_crcs_eq_model.
  destruct (UnpackInfo_numfolders u =? zlen (UnpackInfo_folders u)); cbn [bind]; [|reflexivity].
  destruct (write_unpackinfo_crcs (map folder_of (UnpackInfo_folders u))) as [c|e]; cbn [bind]; [|reflexivity].
  f_equal. cbn [app]. rewrite <- ?app_assoc. reflexivity.
Qed.

(* the object Header._encode_header builds: one packed stream without CRC in PackInfo (enable_digests False), one folder whose
   CRC is the CRC-32 of the plain header: Enc.hdr_descriptor *)
Corollary gen_HeaderStreamsInfo_write_descriptor (p : PackInfo) (g : Folder) (so : option SubstreamsInfo)
          packpos hpacksize hrawlen hpcrc hrawcrc (hcoders : list coder) :
  PackInfo_enable_digests p = false ->
  pack_of p = mkPack packpos 1 [hpacksize] [] [hpcrc] ->
  folder_of g = Header.mkFolder hcoders (mk_bonds (zlen hcoders)) [] [hrawlen] true (Some hrawcrc) ->
  (do (o, out) <- HeaderStreamsInfo_write (mkHeaderStreamsInfo (Some p) (Some (mkUnpackInfo 1 [g] None)) so); Ok out)
  = hdr_descriptor packpos hcoders hpacksize hrawlen hpcrc hrawcrc.
Proof.
  intros He Hp Hg. rewrite gen_HeaderStreamsInfo_write.
  cbn [HeaderStreamsInfo_packinfo HeaderStreamsInfo_unpackinfo UnpackInfo_numfolders UnpackInfo_folders map].
  unfold hdr_descriptor. rewrite He, Hp, Hg. change (1 =? zlen [g]) with true. cbv iota. reflexivity.
Qed.
