(* PyTac.v -- a small symbolic executor for the code tools/translate.py emits:
   rewriting lemmas for the PyPrims primitives (side conditions by lia) and a
   tactic evaluating closed arithmetic sub-terms with vm_compute.  Arithmetic is
   declared `simpl never` so that cbn only unfolds the control structure. *)
From P7 Require Import Prelude PyPrims.
From Coq Require Import ZifyBool.
Ltac Zify.zify_post_hook ::= Z.to_euclidean_division_equations.

Global Arguments Z.modulo : simpl never.
Global Arguments Z.div : simpl never.
Global Arguments Z.pow : simpl never.
Global Arguments Z.mul : simpl never.
Global Arguments Z.add : simpl never.
Global Arguments Z.sub : simpl never.
Global Arguments Z.opp : simpl never.
Global Arguments Z.leb : simpl never.
Global Arguments Z.ltb : simpl never.
Global Arguments Z.eqb : simpl never.
Global Arguments Z.lor : simpl never.
Global Arguments Z.land : simpl never.
Global Arguments Z.lxor : simpl never.
Global Arguments Z.shiftl : simpl never.
Global Arguments Z.shiftr : simpl never.
Global Arguments Z.to_nat : simpl never.
Global Arguments Z.of_nat : simpl never.
Global Arguments Z.max : simpl never.
Global Arguments Z.min : simpl never.

Ltac gpos p := match p with xH => idtac | xO ?q => gpos q | xI ?q => gpos q end.
Ltac gZ z := match z with Z0 => idtac | Zpos ?p => gpos p | Zneg ?p => gpos p end.
Ltac gnat n := match n with O => idtac | S ?m => gnat m end.
Ltac cev2 f a b := gZ a; gZ b; let r := eval vm_compute in (f a b) in change (f a b) with r.
Ltac cev_step :=
  match goal with
  | |- context[Z.add ?a ?b] => cev2 Z.add a b
  | |- context[Z.sub ?a ?b] => cev2 Z.sub a b
  | |- context[Z.mul ?a ?b] => cev2 Z.mul a b
  | |- context[Z.div ?a ?b] => cev2 Z.div a b
  | |- context[Z.modulo ?a ?b] => cev2 Z.modulo a b
  | |- context[Z.pow ?a ?b] => cev2 Z.pow a b
  | |- context[Z.ltb ?a ?b] => cev2 Z.ltb a b
  | |- context[Z.leb ?a ?b] => cev2 Z.leb a b
  | |- context[Z.eqb ?a ?b] => cev2 Z.eqb a b
  | |- context[Z.lor ?a ?b] => cev2 Z.lor a b
  | |- context[Z.land ?a ?b] => cev2 Z.land a b
  | |- context[Z.shiftl ?a ?b] => cev2 Z.shiftl a b
  | |- context[Z.shiftr ?a ?b] => cev2 Z.shiftr a b
  | |- context[py_shr ?a ?b] => cev2 py_shr a b
  | |- context[py_shl ?a ?b] => cev2 py_shl a b
  | |- context[py_clamp ?a ?b] => cev2 py_clamp a b
  | |- context[Z.max ?a ?b] => cev2 Z.max a b
  | |- context[Z.min ?a ?b] => cev2 Z.min a b
  | |- context[Z.opp ?a] => gZ a; let r := eval vm_compute in (Z.opp a) in change (Z.opp a) with r
  | |- context[Z.to_nat ?a] => gZ a; let r := eval vm_compute in (Z.to_nat a) in change (Z.to_nat a) with r
  | |- context[Z.of_nat ?a] => gnat a; let r := eval vm_compute in (Z.of_nat a) in change (Z.of_nat a) with r
  end.
Ltac cev := repeat cev_step.
(* evaluate py_slice / py_len on lists whose spine is explicit *)
Ltac pyseq := unfold py_slice, py_len; cbn [length]; cev; cbv iota; cbn [firstn skipn app]; cev.


(* ---- primitive lemmas ---- *)
Lemma py_to_bytes_le_ok v n :
  0 <= n -> 0 <= v < 256 ^ n -> py_to_bytes_le v n = Ok (le_bytes (Z.to_nat n) v).
Proof.
  intros Hn Hv. unfold py_to_bytes_le.
  destruct (n <? 0) eqn:E; [lia|].
  destruct ((v <? 0) || (256 ^ n <=? v)) eqn:E2; [lia|reflexivity].
Qed.

Lemma py_pack_B_ok v : 0 <= v < 256 -> py_pack_B v = Ok [v].
Proof.
  intros H. unfold py_pack_B. rewrite py_to_bytes_le_ok by (cev; lia).
  cev. cbn [le_bytes]. f_equal. f_equal. lia.
Qed.

Lemma py_shl_ok a n : 0 <= n -> py_shl a n = Ok (Z.shiftl a n).
Proof. intros H. unfold py_shl. destruct (n <? 0) eqn:E; [lia|reflexivity]. Qed.
Lemma py_shr_ok a n : 0 <= n -> py_shr a n = Ok (Z.shiftr a n).
Proof. intros H. unfold py_shr. destruct (n <? 0) eqn:E; [lia|reflexivity]. Qed.

Lemma py_index_last {A} (l : list A) (d : A) : l <> [] -> py_index l (-1) = Ok (last l d).
Proof.
  intros Hl. unfold py_index, py_len.
  destruct l as [|x l]; [congruence|].
  change ((-1) <? 0) with true. cbv iota.
  assert (Hlen: (-1 + Z.of_nat (length (x :: l))) = Z.of_nat (length l)) by (cbn [length]; lia).
  rewrite Hlen.
  destruct ((Z.of_nat (length l) <? 0) || (Z.of_nat (length (x :: l)) <=? Z.of_nat (length l))) eqn:E.
  { cbn [length] in E. lia. }
  rewrite Nat2Z.id.
  clear E Hlen Hl. revert x. induction l as [|y l IH]; intros x; [reflexivity|].
  cbn [length nth_error]. rewrite IH. reflexivity.
Qed.

Lemma for_m_pure {X S} (xs : list X) (body : X -> S -> res (S * bool)) (f : X -> S -> S) s :
  (forall x s, body x s = Ok (f x s, false)) ->
  for_m xs body s = Ok (fold_left (fun s x => f x s) xs s).
Proof.
  intros H. revert s. induction xs as [|x xs IH]; intros s; [reflexivity|].
  cbn [for_m fold_left]. rewrite H. apply IH.
Qed.

Lemma py_unpack_n_ok n bs : length bs = n -> py_unpack_n n bs = Ok (le_value bs).
Proof. intros H. unfold py_unpack_n. rewrite H, Nat.eqb_refl. reflexivity. Qed.

Lemma lor_mask a m k : 0 <= k -> 0 <= a < 2^k -> m mod 2^k = 0 -> Z.lor a m = a + m.
Proof.
  intros Hk Ha Hm. assert (Hl: Z.land a m = 0);
    [|rewrite Z.add_nocarry_lxor by exact Hl; symmetry; apply Z.lxor_lor; exact Hl].
  apply Z.bits_inj'. intros n Hn. rewrite Z.land_spec, Z.bits_0.
  destruct (Z.ltb_spec n k) as [Hlt|Hge].
  - assert (Hmm: m = 2^k * (m / 2^k)) by (apply Z.div_exact; lia).
    rewrite Hmm, Z.mul_comm, Z.mul_pow2_bits_low by lia. apply andb_false_r.
  - destruct (Z.eqb_spec a 0) as [->|Hne]; [now rewrite Z.bits_0|].
    rewrite (Z.bits_above_log2 a n); [reflexivity|lia|].
    assert (Z.log2 a < k) by (apply Z.log2_lt_pow2; lia). lia.
Qed.

Lemma bit_length_bytes v k lo hi :
  0 < k -> lo = 256^(k-1) -> hi = 256^k -> lo <= v < hi -> (py_bit_length v + 7) / 8 = k.
Proof.
  intros Hk -> -> [Hlo Hhi]. unfold py_bit_length.
  assert (0 < 256^(k-1)) by (apply Z.pow_pos_nonneg; lia).
  destruct (v =? 0) eqn:E; [lia|].
  rewrite Z.abs_eq by lia.
  assert (H1: 8*(k-1) <= Z.log2 v).
  { apply Z.log2_le_pow2; [lia|]. replace (2^(8*(k-1))) with (256^(k-1)); [lia|].
    rewrite Z.pow_mul_r by lia. reflexivity. }
  assert (H2: Z.log2 v < 8*k).
  { apply Z.log2_lt_pow2; [lia|]. replace (2^(8*k)) with (256^k); [lia|].
    rewrite Z.pow_mul_r by lia. reflexivity. }
  lia.
Qed.
