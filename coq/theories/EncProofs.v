(* EncProofs.v -- proofs about the model in Enc.v (property C11). *)
From P7 Require Import Prelude PyPrims Number Crc32 Header Aes Enc.
From Coq Require Import ZifyBool.
Ltac Zify.zify_post_hook ::= Z.to_euclidean_division_equations.
Open Scope Z_scope.

(* ====================================================================== *)
(* 0. small list facts                                                     *)
(* ====================================================================== *)
Lemma range_from_app (a : Z) (m n : nat) :
  range_from a (m + n) = range_from a m ++ range_from (a + Z.of_nat m) n.
Proof.
  revert a. induction m as [|m IH]; intros a.
  - cbn [range_from Nat.add app]. f_equal. lia.
  - cbn [Nat.add range_from app]. rewrite IH. do 3 f_equal. lia.
Qed.

Lemma range_from_shift (s a : Z) (n : nat) :
  map (fun i => s + i) (range_from a n) = range_from (s + a) n.
Proof.
  revert a. induction n as [|n IH]; intros a; cbn [range_from map]; [reflexivity|].
  rewrite IH. do 2 f_equal. lia.
Qed.

Lemma range_from_In (a : Z) (n : nat) (x : Z) :
  In x (range_from a n) <-> a <= x < a + Z.of_nat n.
Proof.
  revert a. induction n as [|n IH]; intros a; cbn [range_from In].
  - lia.
  - rewrite IH. lia.
Qed.

Lemma range0_In (n x : Z) : In x (range0 n) <-> 0 <= x < n.
Proof. unfold range0. rewrite range_from_In. lia. Qed.

Lemma concat_map_app {A} (f : A -> bytes) (a b : list A) :
  concat (map f (a ++ b)) = concat (map f a) ++ concat (map f b).
Proof. rewrite map_app, concat_app. reflexivity. Qed.

(* ====================================================================== *)
(* 1. Key derivation: the staged form is the per-round form                *)
(* ====================================================================== *)
Lemma pow2_nat (c : Z) (Hc : 0 <= c) : exists n, Z.to_nat (2 ^ c) = S n.
Proof.
  assert (0 < 2 ^ c) by (apply Z.pow_pos_nonneg; lia).
  exists (Z.to_nat (2 ^ c) - 1)%nat. lia.
Qed.

Section KDFProofs.
Variable H : Type.
Variable hinit : H.
Variable hupdate : H -> bytes -> H.
Variable hdigest : H -> bytes.
Hypothesis hupdate_app : forall (h : H) (a b : bytes), hupdate (hupdate h a) b = hupdate h (a ++ b).

(* the message: blocks of rounds a, a+1, ..., a+n-1 *)
Definition kdf_msg (sp : bytes) (a : Z) (n : nat) : bytes := concat (map (kdf_block sp) (range_from a n)).

Lemma kdf_msg_app sp a m n : kdf_msg sp a (m + n) = kdf_msg sp a m ++ kdf_msg sp (a + Z.of_nat m) n.
Proof. unfold kdf_msg. rewrite range_from_app. apply concat_map_app. Qed.

Lemma kdf_stage_msg sp rounds s : kdf_stage sp rounds s = kdf_msg sp s (Z.to_nat rounds).
Proof.
  unfold kdf_stage, kdf_msg, range0.
  f_equal. rewrite <- (map_map (fun i => s + i) (kdf_block sp)), range_from_shift.
  do 2 f_equal. lia.
Qed.

Lemma key1_fold_gen sp : forall (l : list Z) (h : H) (x : bytes),
  fold_left (fun h r => hupdate h (kdf_block sp r)) l (hupdate h x) =
  hupdate h (x ++ concat (map (kdf_block sp) l)).
Proof.
  induction l as [|r l IH]; intros h x; cbn [fold_left map concat].
  - now rewrite app_nil_r.
  - rewrite hupdate_app, IH, app_assoc. reflexivity.
Qed.

Lemma key1_fold sp (n : nat) :
  fold_left (fun h r => hupdate h (kdf_block sp r)) (range_from 0 (S n)) hinit =
  hupdate hinit (kdf_msg sp 0 (S n)).
Proof.
  cbn [range_from fold_left]. rewrite key1_fold_gen. unfold kdf_msg. reflexivity.
Qed.

Lemma key3_fold_gen sp (rounds : Z) (Hr : 0 <= rounds) : forall (l : list Z) (h : H) (x : bytes) (s : Z),
  fold_left (fun (st : H * Z) (_ : Z) => (hupdate (fst st) (kdf_stage sp rounds (snd st)), snd st + rounds))
            l (hupdate h x, s) =
  (hupdate h (x ++ kdf_msg sp s (length l * Z.to_nat rounds)), s + Z.of_nat (length l) * rounds).
Proof.
  induction l as [|a l IH]; intros h x s; cbn [fold_left fst snd length].
  - unfold kdf_msg. cbn. rewrite app_nil_r. f_equal. lia.
  - rewrite hupdate_app, IH. f_equal.
    + f_equal. rewrite <- app_assoc. f_equal.
      rewrite kdf_stage_msg. cbn [Nat.mul]. rewrite kdf_msg_app. do 2 f_equal. lia.
    + lia.
Qed.

Lemma key3_fold sp (rounds : Z) (Hr : 0 <= rounds) (k : nat) :
  fst (fold_left (fun (st : H * Z) (_ : Z) => (hupdate (fst st) (kdf_stage sp rounds (snd st)), snd st + rounds))
                 (range_from 0 (S k)) (hinit, 0)) =
  hupdate hinit (kdf_msg sp 0 (S k * Z.to_nat rounds)).
Proof.
  cbn [range_from fold_left fst snd]. rewrite key3_fold_gen by exact Hr. cbn [fst].
  f_equal. rewrite range_from_length, kdf_stage_msg. cbn [Nat.mul].
  rewrite kdf_msg_app. do 2 f_equal. lia.
Qed.

(* the staged derivation hashes the very same message, for EVERY cycles value *)
Theorem kdf_staging (pw : bytes) (cycles : Z) (salt : bytes) :
  key3 H hinit hupdate hdigest pw cycles salt = key1 H hinit hupdate hdigest pw cycles salt.
Proof.
  unfold key3, key1.
  destruct (63 <? cycles) eqn:E1; [reflexivity|].
  destruct (cycles =? 63) eqn:E2; [reflexivity|].
  destruct (cycles <? 0) eqn:E3; [reflexivity|].
  do 2 f_equal. unfold range0.
  destruct (pow2_nat cycles ltac:(lia)) as [n Hn]. rewrite Hn, key1_fold.
  destruct (6 <? cycles) eqn:E4.
  - destruct (pow2_nat (cycles - 6) ltac:(lia)) as [k Hk]. rewrite Hk.
    rewrite key3_fold by (apply Z.pow_nonneg; lia).
    do 2 f_equal. rewrite <- Hk, <- Hn, <- Z2Nat.inj_mul by (apply Z.pow_nonneg; lia).
    replace (2 ^ (cycles - 6) * 2 ^ 6) with (2 ^ cycles); [reflexivity|].
    rewrite <- Z.pow_add_r by lia. f_equal. lia.
  - change (Z.to_nat 1) with 1%nat.
    rewrite (key3_fold _ (2 ^ cycles) ltac:(apply Z.pow_nonneg; lia) 0).
    rewrite Nat.mul_1_l, Hn. reflexivity.
Qed.

(* what is hashed, explicitly: salt ++ password ++ LE64(round) for round = 0 .. 2^cycles - 1 *)
Theorem key1_message (pw : bytes) (cycles : Z) (salt : bytes) (Hc : 0 <= cycles < 63) :
  key1 H hinit hupdate hdigest pw cycles salt =
  Ok (firstn 32 (hdigest (hupdate hinit (kdf_msg (salt ++ pw) 0 (Z.to_nat (2 ^ cycles)))))).
Proof.
  unfold key1.
  destruct (63 <? cycles) eqn:E1; [lia|].
  destruct (cycles =? 63) eqn:E2; [lia|].
  destruct (cycles <? 0) eqn:E3; [lia|].
  unfold range0. destruct (pow2_nat cycles ltac:(lia)) as [n Hn]. rewrite Hn, key1_fold. reflexivity.
Qed.

(* cycles = 0x3F: no hashing at all, the key is salt ++ password zero-padded *)
Theorem kdf_cycles_3f (pw salt : bytes) :
  key3 H hinit hupdate hdigest pw 63 salt = Ok (firstn 32 (salt ++ pw ++ zeros 32)) /\
  key1 H hinit hupdate hdigest pw 63 salt = Ok (firstn 32 (salt ++ pw ++ zeros 32)).
Proof. split; reflexivity. Qed.

Theorem kdf_rejects (pw salt : bytes) (cycles : Z) (Hc : cycles < 0 \/ 63 < cycles) :
  key3 H hinit hupdate hdigest pw cycles salt = Err EOther.
Proof.
  unfold key3. destruct (63 <? cycles) eqn:E1; [reflexivity|].
  destruct (cycles =? 63) eqn:E2; [lia|]. destruct (cycles <? 0) eqn:E3; [reflexivity|lia].
Qed.
End KDFProofs.

(* the free hash satisfies the Section hypothesis: the contract is satisfiable *)
Lemma fh_update_app (h a b : bytes) : fh_update (fh_update h a) b = fh_update h (a ++ b).
Proof. unfold fh_update. rewrite !rev_append_rev, rev_app_distr, app_assoc. reflexivity. Qed.

Lemma fh_digest_spec (a : bytes) : fh_digest (fh_update [] a) = a.
Proof. unfold fh_digest, fh_update. rewrite !rev_append_rev, !app_nil_r. apply rev_involutive. Qed.

(* the transcript function of the dispatcher is key1 / key3 over the free hash, untruncated *)
Lemma kdf_transcript_is_message (which : Z) (pw : bytes) (cycles : Z) (salt : bytes) (Hc : 0 <= cycles < 63) :
  kdf_transcript which pw cycles salt = Ok (kdf_msg (salt ++ pw) 0 (Z.to_nat (2 ^ cycles))).
Proof.
  unfold kdf_transcript.
  destruct (63 <? cycles) eqn:E1; [lia|].
  destruct (cycles =? 63) eqn:E2; [lia|].
  destruct (cycles <? 0) eqn:E3; [lia|].
  destruct (pow2_nat cycles ltac:(lia)) as [n Hn].
  destruct (which =? 1) eqn:Ew.
  - unfold range0. rewrite Hn.
    rewrite (key1_fold bytes [] fh_update fh_update_app). now rewrite fh_digest_spec.
  - f_equal. unfold range0.
    destruct (6 <? cycles) eqn:E4.
    + destruct (pow2_nat (cycles - 6) ltac:(lia)) as [k Hk]. rewrite Hk.
      rewrite (key3_fold bytes [] fh_update fh_digest fh_update_app) by (apply Z.pow_nonneg; lia).
      rewrite fh_digest_spec. f_equal.
      rewrite <- Hk, <- Z2Nat.inj_mul by (apply Z.pow_nonneg; lia).
      replace (2 ^ (cycles - 6) * 2 ^ 6) with (2 ^ cycles); [reflexivity|].
    rewrite <- Z.pow_add_r by lia. f_equal. lia.
    + change (Z.to_nat 1) with 1%nat.
      rewrite (key3_fold bytes [] fh_update fh_digest fh_update_app _ (2 ^ cycles) ltac:(apply Z.pow_nonneg; lia) 0).
      rewrite fh_digest_spec. now rewrite Nat.mul_1_l.
Qed.

Example kdf_example :
  key3 bytes [] fh_update fh_digest [97; 0] 1 [7] = Ok [7; 97; 0; 0;0;0;0;0;0;0;0; 7; 97; 0; 1;0;0;0;0;0;0;0].
Proof. vm_compute. reflexivity. Qed.

(* ====================================================================== *)
(* 2. 7zAES coder properties: what the writer stores is what the reader    *)
(*    derives the key and the IV from                                      *)
(* ====================================================================== *)
Lemma blen_zlen (l : bytes) : blen l = zlen l.
Proof. reflexivity. Qed.

Lemma takeZ_app_exact {A} (a b : list A) : takeZ (zlen a) (a ++ b) = a.
Proof.
  unfold takeZ, zlen. rewrite app_length.
  replace (Z.to_nat (Z.min (Z.max (Z.of_nat (length a)) 0) (Z.of_nat (length a + length b)))) with (length a) by lia.
  rewrite firstn_app, Nat.sub_diag, firstn_all. cbn. apply app_nil_r.
Qed.

Lemma dropZ_app_exact {A} (a b : list A) : dropZ (zlen a) (a ++ b) = b.
Proof.
  unfold dropZ, zlen. rewrite app_length.
  replace (Z.to_nat (Z.min (Z.max (Z.of_nat (length a)) 0) (Z.of_nat (length a + length b)))) with (length a) by lia.
  rewrite skipn_app, Nat.sub_diag, skipn_all. reflexivity.
Qed.

Lemma takeZ_all {A} (a : list A) : takeZ (zlen a) a = a.
Proof. rewrite <- (app_nil_r a) at 2. apply takeZ_app_exact. Qed.

(* the two leading bytes, decoded again: a finite check over every (cycles, |salt|, |iv|) *)
Definition props_head (cycles sl il : Z) : Z * Z :=
  let sf := if 0 <? sl then 1 else 0 in
  (cycles + Z.shiftl 1 6 + Z.shiftl sf 7, Z.land (il - 1) 15 + Z.land (Z.shiftl (sl - sf) 4) 240).

Definition props_head_ok (cycles sl il : Z) : bool :=
  let '(fb, sb) := props_head cycles sl il in
  (0 <=? fb) && (fb <? 256) && (0 <=? sb) && (sb <? 256) &&
  (Z.land fb 63 =? cycles) && negb (Z.land fb 192 =? 0) &&
  (Z.land (Z.shiftr fb 7) 1 + Z.shiftr sb 4 =? sl) &&
  (Z.land (Z.shiftr fb 6) 1 + Z.land sb 15 =? il).

Lemma props_head_all :
  forallb (fun c => forallb (fun sl => forallb (fun il => props_head_ok c sl il) (range_from 1 16))
                            (range0 17)) (range0 64) = true.
Proof. vm_compute. reflexivity. Qed.

Lemma props_head_ok_all (c sl il : Z) (Hc : 0 <= c <= 63) (Hs : 0 <= sl <= 16) (Hi : 1 <= il <= 16) :
  props_head_ok c sl il = true.
Proof.
  pose proof props_head_all as H.
  rewrite forallb_forall in H. specialize (H c ltac:(apply range0_In; lia)).
  rewrite forallb_forall in H. specialize (H sl ltac:(apply range0_In; lia)).
  rewrite forallb_forall in H. apply H. apply range_from_In. lia.
Qed.

Theorem aes_props_roundtrip (cycles : Z) (salt iv : bytes)
  (Hc : 0 <= cycles <= 24) (Hs : blen salt <= 16) (Hi : 1 <= blen iv <= 16) :
  exists p, aes_encode_props cycles salt iv = Ok p /\
            blen p = 2 + blen salt + blen iv /\
            aes_parse_props p = Ok (cycles, salt, iv ++ zeros (16 - blen iv)).
Proof.
  pose proof (blen_nonneg salt) as Hs0.
  pose proof (props_head_ok_all cycles (blen salt) (blen iv) ltac:(lia) ltac:(lia) Hi) as Hok.
  unfold props_head_ok, props_head in Hok.
  set (sf := if 0 <? blen salt then 1 else 0) in *.
  set (fb := cycles + Z.shiftl 1 6 + Z.shiftl sf 7) in *.
  set (sb := Z.land (blen iv - 1) 15 + Z.land (Z.shiftl (blen salt - sf) 4) 240) in *.
  repeat (apply andb_prop in Hok; destruct Hok as [Hok ?]).
  apply Z.leb_le in Hok. apply Z.ltb_lt in H5. apply Z.leb_le in H4. apply Z.ltb_lt in H3.
  apply Z.eqb_eq in H2. apply Z.eqb_eq in H0. apply Z.eqb_eq in H.
  exists ([fb; sb] ++ salt ++ iv). split; [|split].
  - unfold aes_encode_props. fold sf. fold fb. fold sb. clearbody fb sb. clear H H0 H1 H2.
    unfold py_to_bytes_le.
    replace (1 <? 0) with false by reflexivity.
    replace ((fb <? 0) || (256 ^ 1 <=? fb)) with false by lia.
    replace ((sb <? 0) || (256 ^ 1 <=? sb)) with false by lia.
    change (Z.to_nat 1) with 1%nat. cbn [bind le_bytes app].
    replace (fb mod 256) with fb by lia. replace (sb mod 256) with sb by lia. reflexivity.
  - rewrite !blen_app. change (blen [fb; sb]) with 2. lia.
  - clearbody fb sb. unfold aes_parse_props. cbn [app].
    replace (Z.land fb 192 =? 0) with false by (destruct (Z.land fb 192 =? 0); [discriminate|reflexivity]).
    cbn [negb].
    rewrite H0, H.
    replace (blen (fb :: sb :: salt ++ iv) =? 2 + blen salt + blen iv) with true
      by (change (fb :: sb :: salt ++ iv) with ([fb; sb] ++ salt ++ iv); rewrite !blen_app; change (blen [fb; sb]) with 2; lia).
    cbn [negb].
    rewrite H2. clear H H0 H1 H2.
    replace (24 <? cycles) with false by lia.
    change (dropZ 2 (fb :: sb :: salt ++ iv)) with (dropZ (zlen [fb; sb]) ([fb; sb] ++ salt ++ iv)).
    rewrite dropZ_app_exact, blen_zlen, takeZ_app_exact.
    replace (2 + zlen salt) with (zlen ([fb; sb] ++ salt)) by (unfold zlen; rewrite app_length; change (length [fb; sb]) with 2%nat; lia).
    change (fb :: sb :: salt ++ iv) with ([fb; sb] ++ salt ++ iv).
    rewrite app_assoc, dropZ_app_exact, blen_zlen, takeZ_all.
    destruct (zlen iv <? 16) eqn:E.
    + reflexivity.
    + replace (16 - zlen iv) with 0 by (unfold blen, zlen in *; lia).
      cbn. now rewrite app_nil_r.
Qed.

(* out of the reader's range: rejected (AssertionError), never silently clamped *)
Theorem aes_props_cycles_rejected (cycles : Z) (salt iv : bytes)
  (Hc : 24 < cycles <= 63) (Hs : blen salt <= 16) (Hi : 1 <= blen iv <= 16) :
  exists p, aes_encode_props cycles salt iv = Ok p /\ aes_parse_props p = Err EOther.
Proof.
  pose proof (blen_nonneg salt) as Hs0.
  pose proof (props_head_ok_all cycles (blen salt) (blen iv) ltac:(lia) ltac:(lia) Hi) as Hok.
  unfold props_head_ok, props_head in Hok.
  set (sf := if 0 <? blen salt then 1 else 0) in *.
  set (fb := cycles + Z.shiftl 1 6 + Z.shiftl sf 7) in *.
  set (sb := Z.land (blen iv - 1) 15 + Z.land (Z.shiftl (blen salt - sf) 4) 240) in *.
  repeat (apply andb_prop in Hok; destruct Hok as [Hok ?]).
  apply Z.leb_le in Hok. apply Z.ltb_lt in H5. apply Z.leb_le in H4. apply Z.ltb_lt in H3.
  apply Z.eqb_eq in H2. apply Z.eqb_eq in H0. apply Z.eqb_eq in H.
  exists ([fb; sb] ++ salt ++ iv). split.
  - unfold aes_encode_props. fold sf. fold fb. fold sb. clearbody fb sb. clear H H0 H1 H2.
    unfold py_to_bytes_le.
    replace (1 <? 0) with false by reflexivity.
    replace ((fb <? 0) || (256 ^ 1 <=? fb)) with false by lia.
    replace ((sb <? 0) || (256 ^ 1 <=? sb)) with false by lia.
    change (Z.to_nat 1) with 1%nat. cbn [bind le_bytes app].
    replace (fb mod 256) with fb by lia. replace (sb mod 256) with sb by lia. reflexivity.
  - clearbody fb sb. unfold aes_parse_props. cbn [app].
    replace (Z.land fb 192 =? 0) with false by (destruct (Z.land fb 192 =? 0); [discriminate|reflexivity]).
    cbn [negb].
    rewrite H0, H.
    replace (blen (fb :: sb :: salt ++ iv) =? 2 + blen salt + blen iv) with true
      by (change (fb :: sb :: salt ++ iv) with ([fb; sb] ++ salt ++ iv); rewrite !blen_app; change (blen [fb; sb]) with 2; lia).
    cbn [negb].
    rewrite H2. clear H H0 H1 H2.
    replace (24 <? cycles) with true by lia. reflexivity.
Qed.

(* the writer's coder: cycles 19, no salt, the 16 bytes it drew *)
Corollary aes_coder_stores_iv (iv : bytes) (Hiv : length iv = 16%nat) :
  exists p, aes_coder iv = Ok (mkCoder AES_METHOD 1 1 (Some p)) /\ aes_parse_props p = Ok (19, [], iv).
Proof.
  destruct (aes_props_roundtrip 19 [] iv ltac:(lia) ltac:(cbn; lia) ltac:(unfold blen; rewrite Hiv; lia))
    as (p & Hp & _ & Hq).
  exists p. unfold aes_coder, WRITER_CYCLES. rewrite Hp. cbn [bind]. split; [reflexivity|].
  rewrite Hq. unfold blen. rewrite Hiv. cbn. now rewrite app_nil_r.
Qed.

Example aes_props_example :
  aes_encode_props 19 [] (map Z.of_nat (seq 1 16)) = Ok ([83; 15] ++ map Z.of_nat (seq 1 16)) /\
  aes_parse_props ([83; 15] ++ map Z.of_nat (seq 1 16)) = Ok (19, [], map Z.of_nat (seq 1 16)) /\
  aes_parse_props [19] = Err EUnsupported.
Proof. vm_compute. repeat split. Qed.

(* ====================================================================== *)
(* 3. The writer: packed stream = CBC(iv, pad16(what the stages in front   *)
(*    of AES produce)), whatever the chunking                              *)
(* ====================================================================== *)
Lemma compress_all_snoc (Eb : bytes -> bytes) : forall (l : list bytes) (st : cstate) (d : bytes),
  compress_all Eb st (l ++ [d]) =
  (let (st1, o) := compress_all Eb st l in
   let (st2, o') := aes_compress Eb st1 d in (st2, o ++ o')).
Proof.
  induction l as [|x l IH]; intros st d; cbn [app compress_all].
  - destruct (aes_compress Eb st d) as [st2 o']. now rewrite app_nil_r.
  - destruct (aes_compress Eb st x) as [st1 o1]. rewrite IH.
    destruct (compress_all Eb st1 l) as [st2 o2].
    destruct (aes_compress Eb st2 d) as [st3 o3]. now rewrite app_assoc.
Qed.

Section SessionProofs.
Variable Eb : bytes -> bytes.
Variable C : Type.
Variable c_step : C -> bytes -> C * bytes.
Variable c_flush : C -> bytes.
Variable hdr_lzma : bytes -> bytes.

Notation run_stages := (run_stages C c_step).
Notation flush_stages := (flush_stages C c_step c_flush).
Notation sz_block := (sz_block Eb C c_step).
Notation sz_blocks := (sz_blocks Eb C c_step).
Notation sz_flush := (sz_flush Eb C c_step c_flush).
Notation pre_blocks := (pre_blocks C c_step).
Notation pre_run := (pre_run C c_step c_flush).
Notation chain_init := (chain_init C).

Lemma sz_blocks_spec : forall (blocks : list bytes) (ch : chain C),
  sz_blocks ch blocks =
  (let '(cs2, usz2, mids) := pre_blocks (ch_pre C ch) (ch_usz_pre C ch) blocks in
   let (a2, out) := compress_all Eb (ch_aes C ch) mids in
   (mkChain C cs2 a2 usz2 (ch_usz_aes C ch + blen (concat mids)), out)).
Proof.
  induction blocks as [|d rest IH]; intros ch.
  - destruct ch as [p a u ua]. cbn. now rewrite Z.add_0_r.
  - cbn [Enc.sz_blocks Enc.pre_blocks]. unfold Enc.sz_block.
    destruct (run_stages (ch_pre C ch) d) as [[cs1 szs] mid].
    destruct (aes_compress Eb (ch_aes C ch) mid) as [a1 o1] eqn:Ea.
    rewrite IH. cbn [ch_pre ch_aes ch_usz_pre ch_usz_aes].
    destruct (pre_blocks cs1 (zip_add (ch_usz_pre C ch) szs) rest) as [[cs2 usz2] mids].
    cbn [compress_all]. rewrite Ea.
    destruct (compress_all Eb a1 mids) as [a2 o2].
    cbn [concat]. rewrite blen_app. do 2 f_equal. lia.
Qed.

(* the central fact: whatever block size cuts the members, whatever pieces the stages in front of
   AES hand over, the bytes written are the CBC encryption of pad16 of their concatenation *)
Theorem chain_run_spec (cs : list C) (iv : bytes) (blocks : list bytes) :
  let (ch1, o1) := sz_blocks (chain_init cs iv) blocks in
  let (ch2, o2) := sz_flush ch1 in
  o1 ++ o2 = fst (cbc_enc Eb iv (pad16 (snd (pre_run cs blocks)))) /\
  ch_usz_pre C ch2 = fst (pre_run cs blocks) /\
  ch_usz_aes C ch2 = blen (snd (pre_run cs blocks)).
Proof.
  rewrite sz_blocks_spec. unfold Enc.chain_init, Enc.pre_run. cbn [ch_pre ch_aes ch_usz_pre ch_usz_aes].
  destruct (pre_blocks cs (repeat 0 (length cs)) blocks) as [[cs1 usz1] mids].
  pose proof (compress_run_gen Eb mids (cinit iv) ltac:(cbn; lia)) as Hrun.
  pose proof (compress_all_residue_init Eb iv mids) as Hres.
  destruct (compress_all Eb (cinit iv) mids) as [a1 o1] eqn:Ec. cbn [fst snd] in Hrun, Hres.
  unfold Enc.sz_flush. cbn [ch_pre ch_aes ch_usz_pre ch_usz_aes].
  destruct (flush_stages cs1 None) as [incs d].
  destruct d as [[|x xs]|].
  - (* stages flushed b"": falsy *)
    destruct (aes_flush Eb a1) as [a2 o2] eqn:Ef. cbn [fst snd opt_bytes ch_usz_pre ch_usz_aes] in *.
    rewrite app_nil_r. cbn [cinit cbuf ccst app] in Hrun. split; [rewrite ?Ef in Hrun; exact Hrun|]. split; [reflexivity|]. lia.
  - (* flushed data goes through compress() then flush() *)
    pose proof (compress_run_gen Eb (mids ++ [x :: xs]) (cinit iv) ltac:(cbn; lia)) as Hrun2.
    rewrite compress_all_snoc, Ec in Hrun2.
    destruct (aes_compress Eb a1 (x :: xs)) as [a2 o2].
    destruct (aes_flush Eb a2) as [a3 o3] eqn:Ef. cbn [fst snd opt_bytes ch_usz_pre ch_usz_aes] in *.
    cbn [cinit cbuf ccst app] in Hrun2. rewrite concat_app in Hrun2. cbn [concat] in Hrun2.
    rewrite app_nil_r in Hrun2. rewrite <- app_assoc in Hrun2.
    split; [rewrite Ef in Hrun2; exact Hrun2|]. split; [reflexivity|]. rewrite blen_app. lia.
  - destruct (aes_flush Eb a1) as [a2 o2] eqn:Ef. cbn [fst snd opt_bytes ch_usz_pre ch_usz_aes] in *.
    rewrite app_nil_r. cbn [cinit cbuf ccst app] in Hrun. split; [rewrite ?Ef in Hrun; exact Hrun|]. split; [reflexivity|]. lia.
Qed.

(* no stage in front of AES (chain [AES]; also the encrypted header): the stream is the input *)
Lemma pre_blocks_nil : forall (blocks : list bytes) (usz : list Z),
  pre_blocks [] usz blocks = ([], usz, blocks).
Proof.
  induction blocks as [|d rest IH]; intros usz; cbn [Enc.pre_blocks Enc.run_stages]; [reflexivity|].
  rewrite IH. destruct usz; reflexivity.
Qed.

Lemma pre_run_nil (blocks : list bytes) : pre_run [] blocks = ([], concat blocks).
Proof.
  unfold Enc.pre_run. cbn [length repeat]. rewrite pre_blocks_nil. cbn. now rewrite app_nil_r.
Qed.

(* fd.read(block_size) loses nothing *)
Lemma takeZ_dropZ {A} (n : Z) (l : list A) : takeZ n l ++ dropZ n l = l.
Proof. unfold takeZ, dropZ. apply firstn_skipn. Qed.

Lemma dropZ_length (n : Z) (d : bytes) (Hn : 1 <= n) (Hd : d <> []) : (length (dropZ n d) < length d)%nat.
Proof.
  unfold dropZ, zlen. rewrite skipn_length. destruct d as [|x d]; [congruence|]. cbn [length]. lia.
Qed.

Lemma concat_chunks_fuel (bs : Z) (Hbs : 1 <= bs) : forall (fuel : nat) (d : bytes),
  (length d <= fuel)%nat -> concat (chunks_fuel fuel bs d) = d.
Proof.
  induction fuel as [|f IH]; intros d Hf.
  - destruct d; [reflexivity | cbn in Hf; lia].
  - destruct d as [|x d]; [reflexivity|].
    cbn [chunks_fuel concat]. rewrite IH.
    + apply takeZ_dropZ.
    + pose proof (dropZ_length bs (x :: d) Hbs ltac:(discriminate)). lia.
Qed.

Lemma concat_chunks_of (bs : Z) (Hbs : 1 <= bs) (d : bytes) : concat (chunks_of bs d) = d.
Proof. apply concat_chunks_fuel; [exact Hbs | lia]. Qed.

Lemma concat_session_blocks (bs : Z) (Hbs : 1 <= bs) (ms : list member) :
  concat (session_blocks bs ms) = concat (map m_data ms).
Proof.
  unfold session_blocks. induction ms as [|m ms IH]; [reflexivity|].
  cbn [flat_map map concat]. rewrite concat_app, IH, concat_chunks_of by exact Hbs. reflexivity.
Qed.

(* chain [AES] alone: the ciphertext is the only protection, and it covers exactly the contents *)
Theorem aes_only_stream (bs : Z) (Hbs : 1 <= bs) (ms : list member) :
  pre_stream C c_step c_flush bs [] ms = concat (map m_data ms).
Proof. unfold pre_stream. rewrite pre_run_nil. cbn [snd]. apply concat_session_blocks. exact Hbs. Qed.

(* ---------------------------------------------------------------------- *)
(* the whole session                                                       *)
(* ---------------------------------------------------------------------- *)
Theorem write_archive_spec (mode : Z) (mm : list bool) (pre_coders : list coder) (hcoder : coder) (bs : Z)
        (Hbs : 1 <= bs) (cs : list C) (r : rng) (p0 : nat) (ms : list member) :
  write_archive Eb C c_step c_flush hdr_lzma mode mm pre_coders hcoder bs cs r p0 ms =
  (do m <- session_meta C c_step c_flush mm pre_coders bs cs (draw16 r (draw_pos p0 0)) ms;
   archive_of Eb hdr_lzma mode hcoder m
              (fst (cbc_enc Eb (draw16 r (draw_pos p0 0)) (pad16 (pre_stream C c_step c_flush bs cs ms)))) r p0).
Proof.
  unfold write_archive, session_meta, session_packed, pre_stream, archive_of.
  set (iv := draw16 r (draw_pos p0 0)).
  pose proof (chain_run_spec cs iv (session_blocks bs ms)) as Hrun.
  destruct (sz_blocks (chain_init cs iv) (session_blocks bs ms)) as [ch1 o1].
  destruct (sz_flush ch1) as [ch2 o2]. destruct Hrun as (Hout & Hpre & Haes).
  unfold session_usz. rewrite Hpre, Haes, Hout.
  destruct (pre_run cs (session_blocks bs ms)) as [uszpre stream]. cbn [fst snd].
  destruct (unpacksizes_prop mm (uszpre ++ [blen stream])) as [us|e]; cbn [bind]; [|reflexivity].
  set (packed := fst (cbc_enc Eb iv (pad16 stream))).
  destruct (mk_header _ (blen packed) (crc32 packed)) as [h|e]; cbn [bind]; [|reflexivity].
  destruct (mode =? 0); [reflexivity|].
  destruct (mode =? 1); [reflexivity|].
  destruct (write_header true 0 h) as [hraw|e]; cbn [bind]; [|reflexivity].
  destruct (aes_coder (draw16 r (draw_pos p0 1))) as [hc|e]; cbn [bind]; [|reflexivity].
  pose proof (chain_run_spec [] (draw16 r (draw_pos p0 1)) (chunks_of bs hraw)) as Hh.
  destruct (sz_blocks (chain_init [] (draw16 r (draw_pos p0 1))) (chunks_of bs hraw)) as [hch1 ho1].
  destruct (sz_flush hch1) as [hch2 ho2]. destruct Hh as (Hhout & _ & _).
  rewrite Hhout, pre_run_nil. cbn [snd]. rewrite concat_chunks_of by exact Hbs. reflexivity.
Qed.

End SessionProofs.

(* ====================================================================== *)
(* 4. Non-interference: contents only through the ciphertext, names only   *)
(*    through the header ciphertext                                        *)
(* ====================================================================== *)
Section Flow.
Variable Eb : bytes -> bytes.
Variable C : Type.
Variable c_step : C -> bytes -> C * bytes.
Variable c_flush : C -> bytes.
Variable hdr_lzma : bytes -> bytes.

(* two sessions (any members, any coder states) with equal metadata and equal main ciphertext
   produce the same archive: nothing else of the contents reaches the file *)
Theorem content_only_through_cipher (mode : Z) (mm : list bool) (pre_coders : list coder) (hcoder : coder)
        (bs : Z) (Hbs : 1 <= bs) (cs cs' : list C) (r : rng) (p0 : nat) (ms ms' : list member)
  (Hmeta : session_meta C c_step c_flush mm pre_coders bs cs (draw16 r (draw_pos p0 0)) ms =
           session_meta C c_step c_flush mm pre_coders bs cs' (draw16 r (draw_pos p0 0)) ms')
  (Hcipher : fst (cbc_enc Eb (draw16 r (draw_pos p0 0)) (pad16 (pre_stream C c_step c_flush bs cs ms))) =
             fst (cbc_enc Eb (draw16 r (draw_pos p0 0)) (pad16 (pre_stream C c_step c_flush bs cs' ms')))) :
  write_archive Eb C c_step c_flush hdr_lzma mode mm pre_coders hcoder bs cs r p0 ms =
  write_archive Eb C c_step c_flush hdr_lzma mode mm pre_coders hcoder bs cs' r p0 ms'.
Proof. rewrite !write_archive_spec by exact Hbs. rewrite Hmeta, Hcipher. reflexivity. Qed.

(* the layout of an archive with an encrypted header: everything around the two ciphertexts is a
   function of the packed size, the header coder (its IV), the header ciphertext, and the LENGTH and the
   CRC-32 of the raw header (the CRC record that lets the reader reject a wrong password) *)
Lemma assemble2_plain_parts (h : header) (packed : bytes) (hcs : list coder) (hp : bytes) :
  assemble 2 h packed hcs hp =
  (do hraw <- write_header true 0 h;
   do sd <- plain_parts (blen packed) hcs hp (blen hraw) (crc32 hraw);
   Ok (fst sd ++ packed ++ hp ++ snd sd)).
Proof.
  unfold assemble, plain_parts. change (2 =? 0) with false. cbv iota.
  destruct (write_header true 0 h) as [hraw|e]; cbn [bind]; [|reflexivity].
  destruct (hdr_descriptor (blen packed) hcs (blen hp) (blen hraw) (crc32 hp) (crc32 hraw)) as [desc|e]; cbn [bind]; [|reflexivity].
  destruct (sig_header (blen packed + blen hp) (blen desc) (crc32 desc)) as [sg|e]; cbn [bind]; reflexivity.
Qed.

Theorem names_only_through_cipher (h h' : header) (packed : bytes) (hcs : list coder) (hp : bytes) (r1 r2 : bytes)
  (H1 : write_header true 0 h = Ok r1) (H2 : write_header true 0 h' = Ok r2)
  (Hlen : blen r1 = blen r2) (Hcrc : crc32 r1 = crc32 r2) :
  assemble 2 h packed hcs hp = assemble 2 h' packed hcs hp.
Proof. rewrite !assemble2_plain_parts, H1, H2. cbn [bind]. now rewrite Hlen, Hcrc. Qed.

(* session level: with header encryption two metadata records (e.g. different NAMES, times, CRCs)
   whose raw headers have the same length, the same CRC-32 and the same ciphertext give the same archive *)
Theorem names_only_through_header_cipher (hcoder : coder) (m m' : meta) (packed : bytes) (r : rng) (p0 : nat)
        (hraw hraw' : bytes)
  (H1 : header_raw m packed = Ok hraw) (H2 : header_raw m' packed = Ok hraw')
  (Hlen : blen hraw = blen hraw') (Hcrc : crc32 hraw = crc32 hraw')
  (Hc : fst (cbc_enc Eb (draw16 r (draw_pos p0 1)) (pad16 hraw)) =
        fst (cbc_enc Eb (draw16 r (draw_pos p0 1)) (pad16 hraw'))) :
  archive_of Eb hdr_lzma 2 hcoder m packed r p0 = archive_of Eb hdr_lzma 2 hcoder m' packed r p0.
Proof.
  unfold archive_of, header_raw in *. change (2 =? 0) with false. change (2 =? 1) with false. cbv iota.
  destruct (mk_header m (blen packed) (crc32 packed)) as [h|e]; cbn [bind] in *; [|discriminate].
  destruct (mk_header m' (blen packed) (crc32 packed)) as [h'|e]; cbn [bind] in *; [|discriminate].
  rewrite H1, H2. cbn [bind].
  destruct (aes_coder (draw16 r (draw_pos p0 1))) as [hc|e]; cbn [bind]; [|reflexivity].
  rewrite Hc, (names_only_through_cipher h h' packed [hc] _ hraw hraw' H1 H2 Hlen Hcrc). reflexivity.
Qed.

(* what the metadata record is made of: no content byte, but the CRC-32 of every plaintext *)
Lemma session_meta_fields (mm : list bool) (pre_coders : list coder) (bs : Z) (cs : list C) (iv : bytes)
      (ms : list member) (m : meta)
  (H : session_meta C c_step c_flush mm pre_coders bs cs iv ms = Ok m) :
  mt_names m = map m_name ms /\ mt_mtimes m = map m_mtime ms /\ mt_attrs m = map m_attr ms /\
  mt_sizes m = map (fun x => blen (m_data x)) ms /\ mt_crcs m = map (fun x => crc32 (m_data x)) ms /\
  mt_pre_coders m = pre_coders /\ mt_iv m = iv.
Proof.
  unfold session_meta in H.
  destruct (pre_run C c_step c_flush cs (session_blocks bs ms)) as [u s].
  destruct (unpacksizes_prop mm (u ++ [blen s])) as [us|e]; cbn [bind] in H; [|discriminate].
  injection H as <-. cbn. repeat split.
Qed.
End Flow.

(* ====================================================================== *)
(* 5. IVs: every AESCompressor construction reads its own slice of the RNG *)
(* ====================================================================== *)
Lemma draw16_length (r : rng) (p : nat) : length (draw16 r p) = 16%nat.
Proof. unfold draw16. now rewrite map_length, seq_length. Qed.

Lemma draw16_nth (r : rng) (p a : nat) (Ha : (a < 16)%nat) : nth a (draw16 r p) 0 = r (p + a)%nat.
Proof.
  unfold draw16. rewrite (nth_indep _ 0 (r 0%nat)) by (rewrite map_length, seq_length; exact Ha).
  rewrite map_nth, seq_nth by exact Ha. reflexivity.
Qed.

(* the IV is the slice, nothing else: two RNG streams giving the same IV agree on the slice *)
Theorem iv_is_the_slice (r r' : rng) (p : nat) (H : draw16 r p = draw16 r' p) :
  forall a, (a < 16)%nat -> r (p + a)%nat = r' (p + a)%nat.
Proof. intros a Ha. rewrite <- !draw16_nth by exact Ha. now rewrite H. Qed.

(* distinct constructions read disjoint slices *)
Theorem iv_fresh (p0 i j a b : nat) (Hij : i <> j) (Ha : (a < 16)%nat) (Hb : (b < 16)%nat) :
  (draw_pos p0 i + a)%nat <> (draw_pos p0 j + b)%nat.
Proof. unfold draw_pos. lia. Qed.

(* a later session continues where the previous one stopped *)
Lemma draw_pos_add (p0 k j : nat) : draw_pos (draw_pos p0 k) j = draw_pos p0 (k + j).
Proof. unfold draw_pos. lia. Qed.

Section IvSession.
Variable Eb : bytes -> bytes.
Variable C : Type.
Variable c_step : C -> bytes -> C * bytes.
Variable c_flush : C -> bytes.
Variable hdr_lzma : bytes -> bytes.

(* a session consumes one slice per AESCompressor it constructs: the folder's, and the header's
   when the header is encrypted; it stores exactly those slices as IVs (write_archive_spec: the folder
   coder is aes_coder (draw16 r (draw_pos p0 0)), the header coder aes_coder (draw16 r (draw_pos p0 1))) *)
Theorem write_archive_rng_position (mode : Z) (mm : list bool) (pre_coders : list coder) (hcoder : coder) (bs : Z)
        (cs : list C) (r : rng) (p0 : nat) (ms : list member) (a : bytes) (p1 : nat)
  (H : write_archive Eb C c_step c_flush hdr_lzma mode mm pre_coders hcoder bs cs r p0 ms = Ok (a, p1)) :
  p1 = draw_pos p0 (if (mode =? 0) || (mode =? 1) then 1 else 2).
Proof.
  unfold write_archive in H.
  destruct (session_packed Eb C c_step c_flush bs cs (draw16 r (draw_pos p0 0)) ms) as [ch packed].
  destruct (unpacksizes_prop mm (session_usz C ch)) as [us|e]; cbn [bind] in H; [|discriminate].
  destruct (mk_header _ (blen packed) (crc32 packed)) as [h|e]; cbn [bind] in H; [|discriminate].
  destruct (mode =? 0).
  - destruct (assemble 0 h packed [] []); cbn [bind] in H; [|discriminate]. now injection H as _ <-.
  - destruct (mode =? 1).
    + destruct (write_header true 0 h); cbn [bind] in H; [|discriminate].
      destruct (assemble 1 h packed [hcoder] _); cbn [bind] in H; [|discriminate]. now injection H as _ <-.
    + destruct (write_header true 0 h) as [hraw|]; cbn [bind] in H; [|discriminate].
      destruct (aes_coder _); cbn [bind] in H; [|discriminate].
      destruct (sz_blocks Eb C c_step _ _) as [ch1 o1]. destruct (sz_flush Eb C c_step c_flush ch1) as [ch2 o2].
      destruct (assemble 2 h packed _ _); cbn [bind] in H; [|discriminate]. now injection H as _ <-.
Qed.
End IvSession.

(* ====================================================================== *)
(* 6. Decisions on the reading side                                        *)
(* ====================================================================== *)
Definition known_methods (methods : list bytes) : bool :=
  forallb (fun m => match find_method m with Some _ => true | None => false end) methods.

(* AES coder present, no password: PasswordRequired, decided from the coder list alone --
   sz_decompressor_precheck has no decoder and no packed byte among its arguments *)
Theorem no_password_refused (methods : list bytes)
  (Hn : zlen methods <= 4) (Hk : known_methods methods = true) (Ha : needs_password methods = true) :
  sz_decompressor_precheck methods false = Err EPassword.
Proof.
  unfold sz_decompressor_precheck. fold (known_methods methods).
  replace (4 <? zlen methods) with false by lia. rewrite Hk, Ha. reflexivity.
Qed.

Theorem no_password_never_accepted (methods : list bytes) (Ha : needs_password methods = true) :
  sz_decompressor_precheck methods false <> Ok tt.
Proof.
  unfold sz_decompressor_precheck. destruct (4 <? zlen methods); [discriminate|].
  destruct (negb _); [discriminate|]. rewrite Ha. discriminate.
Qed.

Example no_password_example :
  sz_decompressor_precheck [AES_METHOD; [33]] false = Err EPassword /\
  sz_decompressor_precheck [AES_METHOD; [33]] true = Ok tt /\
  sz_decompressor_precheck [[33]] false = Ok tt.
Proof. vm_compute. repeat split. Qed.

(* ---- members are delivered only with their stored CRC ---- *)
Lemma extract_members_crc : forall (sizes crcs : list Z) (stream : bytes) (gs : list bytes),
  extract_members stream sizes crcs = Ok gs ->
  Forall2 (fun g c => crc32 g = c) gs (firstn (length gs) crcs).
Proof.
  induction sizes as [|n ns IH]; intros crcs stream gs H.
  - cbn in H. injection H as <-. constructor.
  - destruct crcs as [|c cs]; cbn [extract_members] in H.
    + injection H as <-. constructor.
    + destruct (blen stream <? n); [discriminate|].
      destruct (crc32 (takeZ n stream) =? c) eqn:E; [|discriminate].
      destruct (extract_members (dropZ n stream) ns cs) as [rest|e] eqn:Er; cbn [bind] in H; [|discriminate].
      injection H as <-. cbn [length firstn]. constructor; [now apply Z.eqb_eq | now apply IH with (stream := dropZ n stream)].
Qed.

Lemma extract_members_length : forall (sizes crcs : list Z) (stream : bytes) (gs : list bytes),
  extract_members stream sizes crcs = Ok gs -> length gs = Nat.min (length sizes) (length crcs).
Proof.
  induction sizes as [|n ns IH]; intros crcs stream gs H.
  - cbn in H. now injection H as <-.
  - destruct crcs as [|c cs]; cbn [extract_members] in H.
    + now injection H as <-.
    + destruct (blen stream <? n); [discriminate|].
      destruct (crc32 (takeZ n stream) =? c); [|discriminate].
      destruct (extract_members (dropZ n stream) ns cs) as [rest|e] eqn:Er; cbn [bind] in H; [|discriminate].
      injection H as <-. cbn [length Nat.min]. f_equal. now apply IH with (stream := dropZ n stream).
Qed.

Lemma forall2_differs : forall (gs os : list bytes),
  Forall2 (fun g o => crc32 g = crc32 o) gs os -> gs <> os ->
  exists g o, In (g, o) (combine gs os) /\ g <> o /\ crc32 g = crc32 o.
Proof.
  induction 1 as [|g o gs os Hgo HF IH]; intros Hne; [congruence|].
  destruct (list_eq_dec Z.eq_dec g o) as [->|Hd].
  - destruct IH as (g' & o' & Hin & Hd & Hc); [congruence|].
    exists g', o'. cbn [combine In]. auto.
  - exists g, o. cbn [combine In]. auto.
Qed.

(* whatever key is used: what is delivered has the stored CRCs; bytes that differ from the
   originals can only be delivered on a CRC-32 collision *)
Theorem delivered_different_is_collision (stream : bytes) (sizes : list Z) (origs gs : list bytes)
  (Hlen : length sizes = length origs)
  (H : extract_members stream sizes (map crc32 origs) = Ok gs) (Hne : gs <> origs) :
  exists g o, In (g, o) (combine gs origs) /\ g <> o /\ crc32 g = crc32 o.
Proof.
  pose proof (extract_members_crc _ _ _ _ H) as HF.
  pose proof (extract_members_length _ _ _ _ H) as HL.
  rewrite map_length, Hlen, Nat.min_id in HL.
  rewrite firstn_all2 in HF by (rewrite map_length; lia).
  apply forall2_differs; [|exact Hne].
  clear -HF. remember (map crc32 origs) as cs eqn:Ecs. revert origs Ecs.
  induction HF as [|g c gs cs Hg HF IH]; intros origs Ecs.
  - destruct origs; [constructor|discriminate].
  - destruct origs as [|o os]; [discriminate|]. injection Ecs as -> ->. constructor; [exact Hg | now apply IH].
Qed.

(* chains [AES] and [Copy, AES]: the decrypted stream is as long as the ciphertext, so the loop of
   Worker.decompress always gets its bytes: the outcome is CrcError or CRC-consistent members, never a hang *)
Definition total (sizes : list Z) : Z := fold_right Z.add 0 sizes.

Lemma blen_takeZ (n : Z) (l : bytes) (Hn : 0 <= n <= blen l) : blen (takeZ n l) = n.
Proof. unfold takeZ, zlen, blen in *. rewrite firstn_length. lia. Qed.
Lemma blen_dropZ (n : Z) (l : bytes) (Hn : 0 <= n <= blen l) : blen (dropZ n l) = blen l - n.
Proof. unfold dropZ, zlen, blen in *. rewrite skipn_length. lia. Qed.

Lemma extract_members_no_hang : forall (sizes crcs : list Z) (stream : bytes) (e : err)
  (Hpos : Forall (fun n => 0 <= n) sizes) (Htot : total sizes <= blen stream),
  extract_members stream sizes crcs = Err e -> e = ECrc.
Proof.
  induction sizes as [|n ns IH]; intros crcs stream e Hpos Htot H; [discriminate|].
  inversion Hpos as [|? ? Hn Hns]; subst. cbn [total fold_right] in Htot. fold (total ns) in Htot.
  assert (0 <= total ns) by (clear -Hns; induction Hns; cbn; [lia|fold (total l); lia]).
  destruct crcs as [|c cs]; cbn [extract_members] in H; [discriminate|].
  replace (blen stream <? n) with false in H by lia.
  destruct (crc32 (takeZ n stream) =? c); [|now injection H as <-].
  destruct (extract_members (dropZ n stream) ns cs) as [rest|e'] eqn:Er; cbn [bind] in H; [discriminate|].
  injection H as <-. apply (IH cs (dropZ n stream)); [exact Hns | rewrite blen_dropZ by lia; lia | exact Er].
Qed.

Theorem wrong_password_error_or_collision (Db' : bytes -> bytes)
  (Db_len : forall x : bytes, length x = 16%nat -> length (Db' x) = 16%nat)
  (iv packed : bytes) (Hiv : length iv = 16%nat) (Hal : blen packed mod 16 = 0)
  (sizes crcs : list Z) (Hpos : Forall (fun n => 0 <= n) sizes) (Htot : total sizes <= blen packed) :
  match read_aes_folder Db' iv packed sizes crcs with
  | Ok gs => Forall2 (fun g c => crc32 g = c) gs (firstn (length gs) crcs)
  | Err e => e = ECrc
  end.
Proof.
  unfold read_aes_folder.
  destruct (extract_members _ sizes crcs) as [gs|e] eqn:E.
  - exact (extract_members_crc _ _ _ _ E).
  - apply (extract_members_no_hang sizes crcs (fst (cbc_dec Db' iv packed)) e Hpos); [|exact E].
    destruct (cbc_dec_length Db' Db_len iv packed Hiv) as [Hl _]. rewrite Hl. lia.
Qed.

(* any chain behind AES, any key: an error (CrcError; Bad7zFile when the decoder runs dry before the declared
   size; or the decoder's own error), or members with the stored CRCs.  Never anything else: in particular the
   call returns (no Err EFuel) as long as the decoder itself does *)
Lemma extract_members_err : forall (sizes crcs : list Z) (s : bytes) (e : err),
  extract_members s sizes crcs = Err e -> e = ECrc \/ e = EBad7z.
Proof.
  induction sizes as [|n ns IH]; intros crcs s e E; [discriminate|].
  destruct crcs as [|c cs]; cbn [extract_members] in E; [discriminate|].
  destruct (blen s <? n); [injection E as <-; auto|].
  destruct (crc32 (takeZ n s) =? c); [|injection E as <-; auto].
  destruct (extract_members (dropZ n s) ns cs) as [rest|e'] eqn:Er; cbn [bind] in E; [discriminate|].
  injection E as <-. exact (IH _ _ _ Er).
Qed.

Theorem wrong_password_any_chain (Db' : bytes -> bytes) (Dz : bytes -> res bytes) (iv packed : bytes)
        (sizes crcs : list Z) :
  match read_chain_folder Db' Dz iv packed sizes crcs with
  | Ok gs => Forall2 (fun g c => crc32 g = c) gs (firstn (length gs) crcs)
  | Err e => e = ECrc \/ e = EBad7z \/ Dz (fst (cbc_dec Db' iv packed)) = Err e
  end.
Proof.
  unfold read_chain_folder. destruct (Dz _) as [s|e]; cbn [bind]; [|auto].
  destruct (extract_members s sizes crcs) as [gs|e] eqn:E.
  - exact (extract_members_crc _ _ _ _ E).
  - destruct (extract_members_err _ _ _ _ E); auto.
Qed.

Theorem wrong_password_partial (Db' : bytes -> bytes) (Dz : bytes -> res bytes) (iv packed : bytes)
        (sizes crcs : list Z) (gs : list bytes)
  (H : read_chain_folder Db' Dz iv packed sizes crcs = Ok gs) :
  Forall2 (fun g c => crc32 g = c) gs (firstn (length gs) crcs).
Proof.
  unfold read_chain_folder in H. destruct (Dz _) as [s|e]; cbn [bind] in H; [|discriminate].
  exact (extract_members_crc _ _ _ _ H).
Qed.

(* a decoder that finds an early end of stream in the garbage (returns less than the declared size): the call
   ends with Bad7zFile.  (Before repair 2499498 of /repo this very case made Worker.decompress spin for ever;
   the harness found it with wrong passwords on deflate+aes and lzma2+aes archives.) *)
Example wrong_password_decoder_runs_dry :
  read_chain_folder toyD (fun _ => Ok []) ex_iv (ex_plain 32) [24] [0] = Err EBad7z.
Proof. vm_compute. reflexivity. Qed.

(* the right key delivers the originals *)
Lemma extract_members_concat : forall (datas : list bytes) (tail : bytes),
  extract_members (concat datas ++ tail) (map blen datas) (map crc32 datas) = Ok datas.
Proof.
  induction datas as [|d ds IH]; intros tail; [reflexivity|].
  cbn [concat map extract_members]. rewrite <- app_assoc.
  replace (blen (d ++ concat ds ++ tail) <? blen d) with false
    by (rewrite blen_app; pose proof (blen_nonneg (concat ds ++ tail)); lia).
  rewrite blen_zlen, takeZ_app_exact, dropZ_app_exact, Z.eqb_refl, IH. reflexivity.
Qed.

Theorem right_password_delivers_original (Eb Db : bytes -> bytes)
  (Db_Eb : forall x : bytes, length x = 16%nat -> Db (Eb x) = x)
  (Eb_len : forall x : bytes, length x = 16%nat -> length (Eb x) = 16%nat)
  (iv : bytes) (Hiv : length iv = 16%nat) (datas : list bytes) :
  read_aes_folder Db iv (fst (cbc_enc Eb iv (pad16 (concat datas)))) (map blen datas) (map crc32 datas) = Ok datas.
Proof.
  unfold read_aes_folder. rewrite (cbc_dec_enc Eb Db Db_Eb Eb_len iv _ Hiv (pad16_aligned _)).
  unfold pad16. apply extract_members_concat.
Qed.

(* ---- the encrypted header under a wrong key ---- *)
Lemma decoded_header_first_byte (lim b : Z) (r : bytes) (Hb : b <> 1) : decoded_header lim (b :: r) = Err EOther.
Proof. unfold decoded_header. destruct b as [|p|p]; try reflexivity. destruct p; try reflexivity. congruence. Qed.

Lemma decoded_header_empty (lim : Z) : decoded_header lim [] = Err EOther.
Proof. reflexivity. Qed.

Lemma decoded_header_ok_iff (lim : Z) (buf : bytes) (h : header) :
  decoded_header lim buf = Ok h <-> exists r rest, buf = 1 :: r /\ parse_header_body lim r = Ok (h, rest).
Proof.
  split.
  - intros H. destruct buf as [|b r]; [discriminate|].
    destruct (Z.eq_dec b 1) as [->|Hb]; [|rewrite decoded_header_first_byte in H by exact Hb; discriminate].
    cbn [decoded_header] in H. destruct (parse_header_body lim r) as [[h' rest]|e] eqn:Ep; cbn [bind] in H; [|discriminate].
    injection H as <-. exists r, rest. split; [reflexivity | exact Ep].
  - intros (r & rest & -> & Hp). cbn [decoded_header]. rewrite Hp. reflexivity.
Qed.

(* THE acceptance condition under any key.  With the CRC record (what py7zr writes): the decrypted bytes, cut to
   the stored unpack size, have the stored CRC-32, begin with 01 and parse as a header body.  Without it (a
   foreign archive): only the last two. *)
Theorem encrypted_header_wrong_pw_accept_condition (Db' : bytes -> bytes) (lim : Z) (ivh hp : bytes) (n : Z)
        (fcrc : option Z) (h : header) :
  open_encrypted_header Db' lim ivh hp n fcrc = Ok h <->
  (match fcrc with Some c => crc32 (takeZ n (fst (cbc_dec Db' ivh hp))) = c | None => True end) /\
  exists r rest, takeZ n (fst (cbc_dec Db' ivh hp)) = 1 :: r /\ parse_header_body lim r = Ok (h, rest).
Proof.
  unfold open_encrypted_header, checked_header. set (buf := takeZ n (fst (cbc_dec Db' ivh hp))). clearbody buf.
  destruct fcrc as [c|].
  - destruct (crc32 buf =? c) eqn:E.
    + rewrite decoded_header_ok_iff. apply Z.eqb_eq in E. tauto.
    + apply Z.eqb_neq in E. split; [discriminate | tauto].
  - rewrite decoded_header_ok_iff. tauto.
Qed.

(* what py7zr writes carries the CRC of the plain header: under ANY key the header opens only if the decrypted
   bytes have that CRC -- a wrong key is rejected with Bad7zFile unless the garbage collides in CRC-32 *)
Theorem encrypted_header_wrong_pw_error_or_collision (Db' : bytes -> bytes) (lim : Z) (ivh hp hraw : bytes) :
  match open_encrypted_header Db' lim ivh hp (blen hraw) (Some (crc32 hraw)) with
  | Ok _ => crc32 (takeZ (blen hraw) (fst (cbc_dec Db' ivh hp))) = crc32 hraw
  | Err e => crc32 (takeZ (blen hraw) (fst (cbc_dec Db' ivh hp))) <> crc32 hraw -> e = EBad7z
  end.
Proof.
  unfold open_encrypted_header, checked_header.
  destruct (crc32 (takeZ (blen hraw) (fst (cbc_dec Db' ivh hp))) =? crc32 hraw) eqn:E.
  - apply Z.eqb_eq in E. destruct (decoded_header _ _); [exact E | intros Hne; congruence].
  - reflexivity.
Qed.

(* the right key opens what the writer wrote (header of any length, CRC record present) *)
Theorem encrypted_header_right_key (Eb Db : bytes -> bytes)
  (Db_Eb : forall x : bytes, length x = 16%nat -> Db (Eb x) = x)
  (Eb_len : forall x : bytes, length x = 16%nat -> length (Eb x) = 16%nat)
  (lim : Z) (ivh : bytes) (Hiv : length ivh = 16%nat) (hraw : bytes) :
  open_encrypted_header Db lim ivh (fst (cbc_enc Eb ivh (pad16 hraw))) (blen hraw) (Some (crc32 hraw)) =
  decoded_header lim hraw.
Proof.
  unfold open_encrypted_header, checked_header.
  rewrite (cbc_dec_enc Eb Db Db_Eb Eb_len ivh _ Hiv (pad16_aligned _)).
  unfold pad16. rewrite blen_zlen, takeZ_app_exact, Z.eqb_refl. reflexivity.
Qed.

(* garbage that begins 01 00 IS a header: that of an empty archive, whatever follows *)
Theorem encrypted_header_accepts_01_00 (lim : Z) (rest : bytes) :
  decoded_header lim (1 :: 0 :: rest) = Ok (mkHeader None None []).
Proof. reflexivity. Qed.

(* first decrypted byte <> 01 and no CRC record: TypeError; with a CRC record the CRC is compared first *)
Theorem encrypted_header_wrong_pw_partial (Db' : bytes -> bytes) (lim : Z) (ivh hp : bytes) (n b : Z) (r : bytes)
        (fcrc : option Z)
  (Hbuf : takeZ n (fst (cbc_dec Db' ivh hp)) = b :: r) (Hb : b <> 1) :
  exists e, open_encrypted_header Db' lim ivh hp n fcrc = Err e /\ (e = EOther \/ e = EBad7z).
Proof.
  unfold open_encrypted_header, checked_header. rewrite Hbuf. destruct fcrc as [c|].
  - destruct (crc32 (b :: r) =? c).
    + exists EOther. split; [now apply decoded_header_first_byte | now left].
    + exists EBad7z. split; [reflexivity | now right].
  - exists EOther. split; [now apply decoded_header_first_byte | now left].
Qed.

(* a concrete instance: header of a one-member archive, encrypted under key K, opened under K' <> K *)
Definition ex_meta : meta :=
  mkMeta [[115; 101; 99; 114; 101; 116]] [133000000000000000] [32] [24] [305419896] [24] [] ex_iv.
Definition ex_hraw : bytes := match header_raw ex_meta (ex_plain 32) with Ok b => b | Err _ => [] end.
Definition ex_K : bytes := map Z.of_nat (seq 7 32).
Definition ex_K' : bytes := 7 :: 12 :: map Z.of_nat (seq 9 30).    (* differs from ex_K in one byte: 8 xor 4 *)
Definition ex_hcipher : bytes := fst (cbc_enc (toyK ex_K) ex_iv (pad16 ex_hraw)).

(* as py7zr writes it (CRC record): the wrong key is rejected, the right key opens it *)
Example encrypted_header_wrong_key_rejected :
  ex_K <> ex_K' /\
  (exists h, open_encrypted_header (toyK ex_K) 4096 ex_iv ex_hcipher (blen ex_hraw) (Some (crc32 ex_hraw)) = Ok h /\
             h_files h <> None) /\
  open_encrypted_header (toyK ex_K') 4096 ex_iv ex_hcipher (blen ex_hraw) (Some (crc32 ex_hraw)) = Err EBad7z.
Proof.
  split; [vm_compute; congruence|]. split.
  - eexists. split; [vm_compute; reflexivity | discriminate].
  - vm_compute. reflexivity.
Qed.

(* a FOREIGN archive whose encoded header carries no CRC record: "a wrong password fails with an error" is
   refuted -- the same ciphertext opens under K' as an EMPTY archive *)
Theorem encrypted_header_without_crc_refuted :
  ex_K <> ex_K' /\
  (exists h, open_encrypted_header (toyK ex_K) 4096 ex_iv ex_hcipher (blen ex_hraw) None = Ok h /\
             h_files h <> None) /\
  open_encrypted_header (toyK ex_K') 4096 ex_iv ex_hcipher (blen ex_hraw) None = Ok (mkHeader None None []).
Proof.
  split; [vm_compute; congruence|]. split.
  - eexists. split; [vm_compute; reflexivity | discriminate].
  - vm_compute. reflexivity.
Qed.

(* ====================================================================== *)
(* 7. Instances: the Section variables are satisfiable; a full run         *)
(* ====================================================================== *)
Definition ex_members : list member :=
  [mkMember [115; 101; 99; 114; 101; 116; 46; 116; 120; 116] 133000000000000000 32 (ex_plain 40);
   mkMember [98; 46; 98; 105; 110] 133000000000000001 32 (map Z.of_nat (seq 60 24))].
Definition ex_rng : rng := fun i => Z.of_nat (i * 7 + 3) mod 256.

(* the step model and the layout model agree on a concrete run, block size 16, [Copy, AES], header encrypted *)
Example write_archive_example :
  exists a, write_archive (toyK ex_K) unit copy_step copy_flush (fun x => x) 2 [false; false]
                          [mkCoder [0] 1 1 None] (mkCoder [0] 1 1 None) 16 [tt] ex_rng 0 ex_members = Ok (a, 32%nat)
            /\ (100 < blen a).
Proof. eexists. split; [vm_compute; reflexivity | vm_compute; reflexivity]. Qed.

Example aes_only_example :
  pre_stream unit copy_step copy_flush 16 [] ex_members = concat (map m_data ex_members) /\
  pre_stream unit copy_step copy_flush 16 [tt] ex_members = concat (map m_data ex_members).
Proof. split; vm_compute; reflexivity. Qed.

Example right_password_example :
  read_aes_folder (toyK ex_K) ex_iv
    (fst (cbc_enc (toyK ex_K) ex_iv (pad16 (concat (map m_data ex_members)))))
    (map (fun m => blen (m_data m)) ex_members) (map (fun m => crc32 (m_data m)) ex_members)
  = Ok (map m_data ex_members) /\
  read_aes_folder (toyK ex_K') ex_iv
    (fst (cbc_enc (toyK ex_K) ex_iv (pad16 (concat (map m_data ex_members)))))
    (map (fun m => blen (m_data m)) ex_members) (map (fun m => crc32 (m_data m)) ex_members)
  = Err ECrc.
Proof. split; vm_compute; reflexivity. Qed.

Example iv_fresh_example :
  draw16 ex_rng (draw_pos 0 0) <> draw16 ex_rng (draw_pos 0 1) /\ draw_pos (draw_pos 0 2) 1 = draw_pos 0 3.
Proof. split; [vm_compute; congruence | reflexivity]. Qed.

(* two different member names of equal length: with header encryption the bytes around the header
   ciphertext differ ONLY through the CRC-32 of the plain header *)
Definition ex_meta' : meta :=
  mkMeta [[112; 117; 98; 108; 105; 99]] [133000000000000000] [32] [24] [305419896] [24] [] ex_iv.

Example names_example :
  mt_names ex_meta <> mt_names ex_meta' /\
  (exists r1 r2, header_raw ex_meta (ex_plain 32) = Ok r1 /\ header_raw ex_meta' (ex_plain 32) = Ok r2 /\
     r1 <> r2 /\ blen r1 = blen r2 /\
     forall hcs hp c, plain_parts 32 hcs hp (blen r1) c = plain_parts 32 hcs hp (blen r2) c).
Proof.
  split; [vm_compute; congruence|].
  destruct (header_raw ex_meta (ex_plain 32)) as [r1|] eqn:E1; [|vm_compute in E1; discriminate].
  destruct (header_raw ex_meta' (ex_plain 32)) as [r2|] eqn:E2; [|vm_compute in E2; discriminate].
  exists r1, r2.
  assert (Hlen : blen r1 = blen r2).
  { vm_compute in E1, E2. injection E1 as <-. injection E2 as <-. reflexivity. }
  assert (Hne : r1 <> r2).
  { vm_compute in E1, E2. injection E1 as <-. injection E2 as <-. congruence. }
  repeat split; try assumption; try reflexivity.
  intros hcs hp c. now rewrite Hlen.
Qed.
