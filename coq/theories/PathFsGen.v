(* PathFsGen.v -- the lexical path checks generated from py7zr/helpers.py (gen/HelpersPath2.v: is_relative_to,
   get_sanitized_output_path, is_path_valid; gen/HelpersPath.v: canonical_path) are the functions of FS.v that the
   extraction model (ExtractFS.v) and the theorems of C03 use.

   The generated code works on pathlib paths the way CPython 3.12 stores them (Path.v: the raw segments); FS.v works on
   parsed paths (root kind, parts).  [fs_of] parses; every pathlib operation the helpers use commutes with it. *)
From P7 Require Import Prelude PyPrims PyStr Path PathProofs PathGen PyPath.
From P7 Require FS FSProofs HelpersGen.
From P7gen Require HelpersPath HelpersPath2.
Open Scope Z_scope.

(* ------------------------------------------------------------------ parse_str in normal form *)
Definition lead (s : str) : nat := FS.leading 47 s.
Definition root_of (n : nat) : str :=
  match n with O => [] | S O => [47] | S (S O) => [47; 47] | _ => [47] end.

Lemma comps_slash r : comps (47 :: r) = comps r.
Proof. unfold comps. cbn [split]. rewrite Z.eqb_refl. reflexivity. Qed.

Lemma comps_nil : comps [] = [].
Proof. reflexivity. Qed.

Lemma parse_str_nf s : parse_str s = (root_of (lead s), comps s).
Proof.
  unfold parse_str, lead. destruct s as [|c0 r0]; [reflexivity|]. cbn [isnil splitroot FS.leading].
  destruct (c0 =? 47) eqn:E0; [|reflexivity]. apply Z.eqb_eq in E0. subst c0. rewrite comps_slash.
  destruct r0 as [|c1 r1]; [reflexivity|]. cbn [FS.leading].
  destruct (c1 =? 47) eqn:E1; [|reflexivity]. apply Z.eqb_eq in E1. subst c1. rewrite comps_slash.
  destruct r1 as [|c2 r2]; [reflexivity|]. cbn [FS.leading].
  destruct (c2 =? 47) eqn:E2; [|reflexivity]. apply Z.eqb_eq in E2. subst c2.
  cbn [root_of]. fold (comps (47 :: 47 :: r2)). rewrite !comps_slash. reflexivity.
Qed.

(* ------------------------------------------------------------------ one step of posixpath.join, parsed *)
Lemma split_app_slash_gen q b : split (q ++ 47 :: b) = split q ++ split b.
Proof.
  induction q as [|c r IH]; [reflexivity|].
  cbn [app split]. destruct (c =? 47); [rewrite IH; reflexivity|].
  rewrite IH. destruct (split_cons_shape r) as (h & t & ->). reflexivity.
Qed.

Lemma comps_app_slash q b : comps (q ++ 47 :: b) = comps q ++ comps b.
Proof. unfold comps. rewrite split_app_slash_gen, filter_app. reflexivity. Qed.

Lemma endswith_slash_snoc path : endswith_slash path = true -> exists q, path = q ++ [47].
Proof.
  induction path as [|c r IH]; [discriminate|]. cbn [endswith_slash]. destruct r as [|c' r'].
  - intros H. apply Z.eqb_eq in H. subst c. exists []. reflexivity.
  - intros H. destruct (IH H) as (q & Hq). exists (c :: q). rewrite Hq. reflexivity.
Qed.

Lemma lead_app_noend a b : a <> [] -> endswith_slash a = false -> lead (a ++ b) = lead a.
Proof.
  unfold lead. induction a as [|c r IH]; [congruence|]. intros _ He. cbn [app FS.leading].
  destruct (c =? 47) eqn:Ec; [|reflexivity]. f_equal. destruct r as [|c' r'].
  - cbn [endswith_slash] in He. congruence.
  - apply IH; [discriminate | exact He].
Qed.

Lemma lead_app_end a b : endswith_slash a = true -> startswith_slash b = false -> lead (a ++ b) = lead a.
Proof.
  unfold lead. induction a as [|c r IH]; [discriminate|]. intros He Hb. cbn [app FS.leading].
  destruct (c =? 47) eqn:Ec; [|reflexivity]. f_equal. destruct r as [|c' r'].
  - cbn [app FS.leading]. destruct b as [|x b']; [reflexivity|]. cbn [startswith_slash] in Hb. cbn [FS.leading].
    rewrite Hb. reflexivity.
  - apply IH; [exact He | exact Hb].
Qed.

Lemma comps_app_end a b : endswith_slash a = true -> comps (a ++ b) = comps a ++ comps b.
Proof.
  intros He. destruct (endswith_slash_snoc a He) as (q & ->). rewrite <- app_assoc. cbn [app].
  rewrite !comps_app_slash. change (comps []) with (@nil str). rewrite app_nil_r. reflexivity.
Qed.

Definition pstep (acc : str * list str) (b : str) : str * list str :=
  if startswith_slash b then parse_str b else (fst acc, snd acc ++ comps b).

Lemma parse_join1 path b : parse_str (posix_join1 path b) = pstep (parse_str path) b.
Proof.
  unfold posix_join1, pstep. destruct (startswith_slash b) eqn:Hb; [reflexivity|].
  rewrite !parse_str_nf. cbn [fst snd].
  destruct path as [|p0 pr] eqn:Hp.
  - cbn [isnil orb app]. assert (Hl : lead b = O).
    { unfold lead. destruct b as [|x b']; [reflexivity|]. cbn [startswith_slash] in Hb. cbn [FS.leading].
      rewrite Hb. reflexivity. }
    rewrite Hl. reflexivity.
  - rewrite <- Hp. assert (Hne : path <> []) by (subst path; discriminate).
    replace (isnil path) with false by (subst path; reflexivity). cbn [orb].
    destruct (endswith_slash path) eqn:He.
    + rewrite lead_app_end by assumption. rewrite comps_app_end by assumption. reflexivity.
    + rewrite lead_app_noend by assumption. rewrite comps_app_slash. reflexivity.
Qed.

Lemma raw_path_fold p : raw_path p = fold_left posix_join1 p [].
Proof.
  destruct p as [|a ps]; [reflexivity|]. cbn [raw_path fold_left].
  assert (H1 : posix_join1 [] a = a).
  { unfold posix_join1. destruct (startswith_slash a); reflexivity. }
  rewrite H1. destruct ps; reflexivity.
Qed.

Lemma pp_parse_snoc p s : pp_parse (p ++ [s]) = pstep (pp_parse p) s.
Proof. unfold pp_parse. rewrite !raw_path_fold, fold_left_app. cbn [fold_left]. apply parse_join1. Qed.

Lemma pp_parse_nil : pp_parse [] = ([], []).
Proof. reflexivity. Qed.

Lemma pp_parse_fold p : pp_parse p = fold_left pstep p ([], []).
Proof.
  induction p as [|s p IH] using rev_ind; [reflexivity|].
  rewrite pp_parse_snoc, fold_left_app, IH. reflexivity.
Qed.

Lemma pstep_root_abs acc b : startswith_slash b = true -> isnil (fst (pstep acc b)) = false.
Proof.
  intros Hb. unfold pstep. rewrite Hb. pose proof (startswith_slash_root b) as H. rewrite Hb in H.
  destruct (isnil (fst (parse_str b))); [discriminate | reflexivity].
Qed.

Lemma pp_parse_app p q :
  pp_parse (p ++ q) =
  if isnil (fst (pp_parse q)) then (fst (pp_parse p), snd (pp_parse p) ++ snd (pp_parse q)) else pp_parse q.
Proof.
  induction q as [|s q IH] using rev_ind.
  - rewrite app_nil_r, pp_parse_nil. cbn [fst snd isnil]. rewrite app_nil_r. destruct (pp_parse p); reflexivity.
  - rewrite app_assoc, !pp_parse_snoc, IH. unfold pstep. destruct (startswith_slash s) eqn:Hs.
    + pose proof (startswith_slash_root s) as H. rewrite Hs in H. destruct (isnil (fst (parse_str s))); [discriminate|].
      reflexivity.
    + cbn [fst snd]. destruct (isnil (fst (pp_parse q))); cbn [fst snd]; [rewrite <- app_assoc|]; reflexivity.
Qed.

Lemma comps_good_single c : good_comp c = true -> comps c = [c].
Proof.
  intros Hg. unfold comps. rewrite (split_single c (good_slashfree c Hg)). cbn [filter].
  rewrite (good_keep c Hg). reflexivity.
Qed.

Lemma pstep_goods cs : Forall (fun c => good_comp c = true) cs ->
  forall A, fold_left pstep cs A = (fst A, snd A ++ cs).
Proof.
  induction cs as [|c cs IH]; intros Hall A; cbn [fold_left].
  - rewrite app_nil_r. destruct A; reflexivity.
  - inversion Hall as [|? ? Hc Hcs]; subst. rewrite (IH Hcs). unfold pstep.
    rewrite (startswith_slash_good c Hc), (comps_good_single c Hc). cbn [fst snd]. rewrite <- app_assoc. reflexivity.
Qed.

Lemma pp_abs_root p : pp_is_absolute p = negb (isnil (fst (pp_parse p))).
Proof.
  unfold pp_is_absolute. induction p as [|s p IH] using rev_ind; [reflexivity|].
  rewrite existsb_app, pp_parse_snoc, IH. cbn [existsb]. rewrite orb_false_r. unfold pstep.
  destruct (startswith_slash s) eqn:Hs.
  - rewrite orb_true_r. rewrite <- (startswith_slash_root s). symmetry. exact Hs.
  - rewrite orb_false_r. reflexivity.
Qed.

(* ------------------------------------------------------------------ the parsed path FS.v works on *)
Definition fs_of (p : ppath) : FS.ppath :=
  FS.mkP (Z.of_nat (length (fst (pp_parse p)))) (snd (pp_parse p)).

Definition goods (cs : list str) : Prop := Forall (fun c => good_comp c = true) cs.

Lemma pp_root_shape p : fst (pp_parse p) = [] \/ fst (pp_parse p) = [47] \/ fst (pp_parse p) = [47; 47].
Proof. unfold pp_parse. pose proof (parse_shape (raw_path p)) as H. destruct (parse_str (raw_path p)). exact (proj1 H). Qed.

Lemma pp_tail_goods p : goods (snd (pp_parse p)).
Proof. unfold pp_parse. pose proof (parse_shape (raw_path p)) as H. destruct (parse_str (raw_path p)). exact (proj2 H). Qed.

Lemma fs_str_eqb a b : FS.str_eqb a b = str_eqb a b.
Proof. reflexivity. Qed.

Lemma fs_prefixb a b : FS.prefixb a b = prefixb a b.
Proof. reflexivity. Qed.

Lemma fs_keep_comp c : FS.keep_comp c = keep_comp c.
Proof. unfold FS.keep_comp, keep_comp, FS.DOT, s_dot. rewrite !fs_str_eqb. destruct c; reflexivity. Qed.

Lemma split_on_acc s : forall cur,
  FS.split_on 47 s cur = match split s with h :: t => (rev cur ++ h) :: t | [] => [] end.
Proof.
  induction s as [|c s IH]; intros cur; cbn [FS.split_on split].
  - rewrite app_nil_r. reflexivity.
  - destruct (c =? 47).
    + rewrite IH. cbn [rev app]. rewrite app_nil_r. destruct (split_cons_shape s) as (h & t & ->). reflexivity.
    + rewrite IH. destruct (split_cons_shape s) as (h & t & ->). cbn [rev]. rewrite <- app_assoc. reflexivity.
Qed.

Lemma fs_pparse_parts s : FS.pparts (FS.pparse s) = comps s.
Proof.
  unfold FS.pparse, comps. cbn [FS.pparts]. unfold FS.SLASH. rewrite split_on_acc. cbn [rev app].
  destruct (split_cons_shape s) as (h & t & ->). apply filter_ext. exact fs_keep_comp.
Qed.

(* pathlib.Path(s) *)
Theorem fs_of_single s : fs_of [s] = FS.pparse s.
Proof.
  unfold fs_of, pp_parse. cbn [raw_path]. rewrite parse_str_nf. cbn [fst snd].
  rewrite <- fs_pparse_parts. unfold FS.pparse. cbn [FS.pparts]. f_equal. unfold lead, FS.SLASH.
  destruct (FS.leading 47 s) as [|[|[|n]]]; reflexivity.
Qed.

Lemma fs_of_proot_abs p : FS.p_is_abs (fs_of p) = negb (isnil (fst (pp_parse p))).
Proof.
  unfold FS.p_is_abs, fs_of. cbn [FS.proot]. destruct (pp_root_shape p) as [-> | [-> | ->]]; reflexivity.
Qed.

(* Path.is_absolute() *)
Theorem fs_of_is_absolute p : pp_is_absolute p = FS.p_is_abs (fs_of p).
Proof. rewrite pp_abs_root, fs_of_proot_abs. reflexivity. Qed.

(* a.joinpath(s) for a str s *)
Theorem fs_of_joinpath p s : fs_of (pp_joinpath p s) = FS.pjoin (fs_of p) s.
Proof.
  unfold pp_joinpath, fs_of at 1. rewrite pp_parse_snoc. unfold pstep, FS.pjoin.
  destruct s as [|c r].
  - cbn [startswith_slash fst snd]. change (comps []) with (@nil str). rewrite app_nil_r. reflexivity.
  - cbn [startswith_slash]. unfold FS.SLASH. destruct (c =? 47) eqn:Ec.
    + rewrite <- fs_of_single. reflexivity.
    + cbn [fst snd]. rewrite fs_pparse_parts. reflexivity.
Qed.

(* a.joinpath(b) for a path b *)
Theorem fs_of_joinpath_p p q : fs_of (pp_joinpath_p p q) = FS.pjoinp (fs_of p) (fs_of q).
Proof.
  unfold pp_joinpath_p, FS.pjoinp. rewrite fs_of_proot_abs. unfold fs_of at 1. rewrite pp_parse_app.
  destruct (isnil (fst (pp_parse q))); reflexivity.
Qed.

(* ------------------------------------------------------------------ canonical_path *)
Lemma fs_canon_go_cons st p ps : FS.canon_go st (p :: ps) = FS.canon_go (canon_step st p) ps.
Proof.
  cbn [FS.canon_go]. unfold canon_step, FS.is_dotdot, FS.dotdot, FS.SLASH, s_dotdot, s_slash.
  change FS.str_eqb with str_eqb. destruct st as [|top st'].
  - cbn [isnil]. rewrite orb_true_r. reflexivity.
  - cbn [isnil]. rewrite orb_false_r. destruct (str_eqb p [46; 46]); cbn [negb]; [|reflexivity].
    destruct (str_eqb top [46; 46]); [reflexivity|]. destruct (str_eqb top [47]); reflexivity.
Qed.

Lemma fs_canon_go ps : forall st, FS.canon_go st ps = rev (fold_left canon_step ps st).
Proof.
  induction ps as [|p ps IH]; intros st; [reflexivity|]. rewrite fs_canon_go_cons. cbn [fold_left]. apply IH.
Qed.

Lemma fs_items p : FS.items (fs_of p) = pp_parts p.
Proof.
  unfold FS.items, fs_of, pp_parts, FS.root_item. cbn [FS.proot FS.pparts].
  destruct (pp_root_shape p) as [H | [H | H]]; destruct (pp_parse p) as [root tail]; cbn [fst snd] in *; subst root; reflexivity.
Qed.

(* the shape of a stack of canonical_path (bottom first): components, possibly behind a root *)
Definition is_root (x : str) : Prop := x = [47] \/ x = [47; 47].
Definition okl (l : list str) : Prop :=
  goods l \/ exists r cs, l = r :: cs /\ is_root r /\ goods cs.

Lemma okl_snoc l c : okl l -> good_comp c = true -> okl (l ++ [c]).
Proof.
  intros [H | (r & cs & -> & Hr & Hcs)] Hc.
  - left. apply Forall_app. split; [exact H | constructor; [exact Hc | constructor]].
  - right. exists r, (cs ++ [c]). split; [reflexivity|]. split; [exact Hr|].
    apply Forall_app. split; [exact Hcs | constructor; [exact Hc | constructor]].
Qed.

Lemma okl_unsnoc l x : okl (l ++ [x]) -> okl l.
Proof.
  intros [H | (r & cs & He & Hr & Hcs)].
  - left. apply Forall_app in H. tauto.
  - destruct l as [|y l'].
    + left. constructor.
    + cbn [app] in He. inversion He; subst. right. exists r, l'. split; [reflexivity|]. split; [exact Hr|].
      apply Forall_app in Hcs. tauto.
Qed.

Lemma canon_step_okl st c : okl (rev st) -> good_comp c = true -> okl (rev (canon_step st c)).
Proof.
  intros Hst Hc. unfold canon_step. destruct (negb (str_eqb c s_dotdot) || isnil st).
  - cbn [rev]. apply okl_snoc; assumption.
  - destruct st as [|top rest]; [cbn [rev]; apply okl_snoc; assumption|].
    destruct (str_eqb top s_dotdot); [cbn [rev]; apply okl_snoc; assumption|].
    destruct (str_eqb top s_slash); [exact Hst|]. cbn [rev] in Hst. exact (okl_unsnoc _ _ Hst).
Qed.

Lemma canon_fold_okl cs : goods cs -> forall st, okl (rev st) -> okl (rev (fold_left canon_step cs st)).
Proof.
  induction cs as [|c cs IH]; intros Hall st Hst; cbn [fold_left]; [exact Hst|].
  inversion Hall as [|? ? Hc Hcs]; subst. apply IH; [exact Hcs|]. apply canon_step_okl; assumption.
Qed.

Lemma canonical_okl p : okl (canonical_path p).
Proof.
  unfold canonical_path, pp_parts. pose proof (pp_root_shape p) as Hr. pose proof (pp_tail_goods p) as Ht.
  destruct (pp_parse p) as [root tail]. cbn [fst snd] in *.
  destruct Hr as [-> | Hr].
  - cbn [isnil]. apply canon_fold_okl; [exact Ht|]. left. constructor.
  - replace (isnil root) with false by (destruct Hr as [-> | ->]; reflexivity). cbn [fold_left].
    apply canon_fold_okl; [exact Ht|]. unfold canon_step. cbn [isnil]. rewrite orb_true_r. cbn [rev app].
    right. exists root, []. split; [reflexivity|]. split; [exact Hr | constructor].
Qed.

(* pathlib.Path( *stack ) for such a stack *)
Lemma fs_of_okl l : okl l -> fs_of l = FS.of_items l.
Proof.
  intros Hl. unfold fs_of. rewrite pp_parse_fold. destruct Hl as [H | (r & cs & -> & Hr & Hcs)].
  - rewrite (pstep_goods l H). cbn [fst snd length app]. unfold FS.of_items. destruct l as [|x l']; [reflexivity|].
    inversion H as [|? ? Hx _]; subst. unfold FS.SLASH. rewrite !fs_str_eqb.
    change [47] with s_slash. rewrite (good_not_slash x Hx).
    assert (H2 : str_eqb x [47; 47] = false).
    { destruct (good_head x Hx) as (y & t & -> & Hy). cbn [str_eqb]. rewrite Hy. reflexivity. }
    change (FS.str_eqb x (47 :: s_slash)) with (str_eqb x [47; 47]). rewrite H2. reflexivity.
  - cbn [fold_left]. rewrite (pstep_goods cs Hcs). unfold pstep.
    destruct Hr as [-> | ->]; cbn [startswith_slash]; rewrite Z.eqb_refl, parse_str_nf; cbn [fst snd]; reflexivity.
Qed.

Theorem fs_of_canonical p : fs_of (canonical_path p) = FS.canonical_path (fs_of p).
Proof.
  rewrite (fs_of_okl _ (canonical_okl p)). unfold FS.canonical_path. rewrite fs_items, fs_canon_go. reflexivity.
Qed.

(* ------------------------------------------------------------------ is_relative_to, relative_to *)
Lemma fs_of_pp_is_relative_to a b :
  pp_is_relative_to a b =
  (FS.proot (fs_of a) =? FS.proot (fs_of b)) && FS.prefixb (FS.pparts (fs_of b)) (FS.pparts (fs_of a)).
Proof.
  unfold pp_is_relative_to, fs_of. cbn [FS.proot FS.pparts]. rewrite fs_prefixb.
  pose proof (pp_root_shape a) as Ha. pose proof (pp_root_shape b) as Hb.
  destruct (pp_parse a) as [r1 t1], (pp_parse b) as [r2 t2]. cbn [fst snd] in *. f_equal.
  destruct Ha as [-> | [-> | ->]], Hb as [-> | [-> | ->]]; reflexivity.
Qed.

Theorem gen_is_relative_to my other :
  HelpersPath2.is_relative_to my other = Ok (FS.is_relative_to (fs_of my) (fs_of other)).
Proof.
  unfold HelpersPath2.is_relative_to. rewrite gen_canonical_path_model. cbn [bind].
  unfold FS.is_relative_to. rewrite <- fs_of_canonical, <- fs_of_pp_is_relative_to.
  destruct (pp_is_relative_to my (canonical_path other)); reflexivity.
Qed.

Lemma goods_skipn n cs : goods cs -> goods (skipn n cs).
Proof.
  revert cs. induction n as [|n IH]; intros cs H; [exact H|]. destruct cs as [|c cs]; [exact H|].
  inversion H; subst. apply IH. assumption.
Qed.

Lemma fs_of_goods cs : goods cs -> fs_of cs = FS.mkP 0 cs.
Proof. intros H. unfold fs_of. rewrite pp_parse_fold, (pstep_goods cs H). reflexivity. Qed.

(* my.relative_to(other): ValueError exactly when other is not my or one of its parents *)
Theorem fs_of_relative_to my other :
  pp_relative_to my other =
  if pp_is_relative_to my other then Ok (skipn (length (snd (pp_parse other))) (snd (pp_parse my)) : ppath) else Err EOther.
Proof. reflexivity. Qed.

Lemma fs_of_relative_to_ok my other t : pp_relative_to my other = Ok t -> fs_of t = FS.relative_to (fs_of my) (fs_of other).
Proof.
  unfold pp_relative_to. destruct (pp_is_relative_to my other); [|discriminate]. intros H. inversion H; subst t. clear H.
  rewrite fs_of_goods by (apply goods_skipn, pp_tail_goods). reflexivity.
Qed.

(* ------------------------------------------------------------------ is_path_valid *)
(* cwd0 = pathlib.Path.cwd(): an absolute path; [cwd] are its parts behind "/" *)
Theorem gen_is_path_valid target parent cwd0 cwd : fs_of cwd0 = FS.mkP 1 cwd ->
  HelpersPath2.is_path_valid target parent cwd0 =
  Ok (FS.is_path_valid (fs_of target) cwd (option_map fs_of parent)).
Proof.
  intros Hcwd. unfold HelpersPath2.is_path_valid, FS.is_path_valid. destruct parent as [parent|]; cbn [option_map].
  - rewrite fs_of_is_absolute. destruct (FS.p_is_abs (fs_of parent));
      rewrite gen_canonical_path_model; cbn [bind]; rewrite gen_is_relative_to; cbn [bind];
      rewrite fs_of_canonical; [reflexivity|]. rewrite fs_of_joinpath_p, Hcwd. reflexivity.
  - rewrite !gen_canonical_path_model. cbn [bind]. rewrite gen_canonical_path_model. cbn [bind].
    rewrite gen_is_relative_to. cbn [bind]. rewrite !fs_of_canonical, fs_of_joinpath_p, fs_of_canonical, Hcwd.
    reflexivity.
Qed.

(* the current directory as os.getcwd() returns it: "/" + "/".join(cwd) *)
Lemma fs_of_cwd cwd : goods cwd -> fs_of [47 :: join_slash cwd] = FS.mkP 1 cwd.
Proof. intros H. unfold fs_of, pp_parse. cbn [raw_path]. rewrite (parse_root_good cwd H). reflexivity. Qed.

(* ------------------------------------------------------------------ get_sanitized_output_path *)
Lemma gen_lstrip_fs s : py_lstrip s [47] = FS.lstrip 47 s.
Proof.
  induction s as [|c r IH]; [reflexivity|]. cbn [py_lstrip FS.lstrip existsb]. rewrite orb_false_r.
  destruct (c =? 47); [exact IH | reflexivity].
Qed.

Lemma fs_lstrip_id s : py_startswith s [47] = false -> FS.lstrip 47 s = s.
Proof.
  rewrite gen_startswith_slash. destruct s as [|c r]; [reflexivity|]. cbn [startswith_slash FS.lstrip].
  intros ->. reflexivity.
Qed.

Lemma fs_canonical_cwd_idem cwd : let c := FS.canonical_path (FS.mkP 1 cwd) in FS.canonical_path c = c.
Proof.
  intros c. pose proof (FSProofs.canon_root_kept (FS.mkP 1 cwd) eq_refl) as H1. fold c in H1.
  pose proof (FSProofs.canon_root1 (FS.mkP 1 cwd) H1) as H2. fold c in H2.
  destruct c as [r ps]. cbn [FS.proot FS.pparts] in *. subst r. apply FSProofs.canon_id. exact H2.
Qed.

(* the outcome of the generated function against FS.v's: Bad7zFile <-> None, and the returned path parses to the model's *)
Definition sanitized_agree (g : res ppath) (m : option FS.ppath) : Prop :=
  match g with
  | Ok p => m = Some (fs_of p)
  | Err e => e = EBad7z /\ m = None
  end.

Lemma sanitized_body_none f cwd0 cwd : fs_of cwd0 = FS.mkP 1 cwd ->
  sanitized_agree
    (do t1 <- HelpersPath.canonical_path cwd0;
     do t2 <- HelpersPath.remove_relative_path_marker f;
     do t3 <- HelpersPath.canonical_path (pp_joinpath t1 t2);
     do t4 <- HelpersPath2.is_relative_to t3 t1;
     if t4 then do t5 <- pp_relative_to t3 t1; Ok t5 else Err EBad7z)
    (let c := FS.canonical_path (FS.mkP 1 cwd) in
     let target := FS.canonical_path (FS.pjoin c (FS.remove_relative_path_marker f)) in
     if FS.is_relative_to target c then Some (FS.relative_to target c) else None).
Proof.
  intros Hcwd. rewrite gen_canonical_path_model. cbn [bind]. rewrite HelpersGen.gen_remove_relative_path_marker_fs. cbn [bind].
  rewrite gen_canonical_path_model. cbn [bind]. rewrite gen_is_relative_to. cbn [bind].
  set (c0 := canonical_path cwd0). set (t0 := canonical_path (pp_joinpath c0 (FS.remove_relative_path_marker f))).
  assert (Hc : fs_of c0 = FS.canonical_path (FS.mkP 1 cwd)) by (unfold c0; rewrite fs_of_canonical, Hcwd; reflexivity).
  assert (Ht : fs_of t0 = FS.canonical_path (FS.pjoin (FS.canonical_path (FS.mkP 1 cwd)) (FS.remove_relative_path_marker f)))
    by (unfold t0; rewrite fs_of_canonical, fs_of_joinpath, Hc; reflexivity).
  cbv zeta. rewrite <- Ht, <- Hc.
  destruct (FS.is_relative_to (fs_of t0) (fs_of c0)) eqn:E; [|split; reflexivity].
  assert (Hr : pp_is_relative_to t0 c0 = true).
  { rewrite fs_of_pp_is_relative_to. unfold FS.is_relative_to in E. rewrite Hc in E |- *.
    rewrite (fs_canonical_cwd_idem cwd) in E. exact E. }
  destruct (pp_relative_to t0 c0) as [t5|e] eqn:E5.
  - cbn [bind sanitized_agree]. rewrite (fs_of_relative_to_ok _ _ _ E5). reflexivity.
  - unfold pp_relative_to in E5. rewrite Hr in E5. discriminate.
Qed.

Lemma sanitized_body_some f path :
  sanitized_agree
    (do t6 <- HelpersPath.remove_relative_path_marker f;
     do t7 <- HelpersPath.canonical_path (pp_joinpath path t6);
     do t8 <- HelpersPath2.is_relative_to t7 path;
     if t8 then Ok t7 else Err EBad7z)
    (let outfile := FS.canonical_path (FS.pjoin (fs_of path) (FS.remove_relative_path_marker f)) in
     if FS.is_relative_to outfile (fs_of path) then Some outfile else None).
Proof.
  rewrite HelpersGen.gen_remove_relative_path_marker_fs. cbn [bind]. rewrite gen_canonical_path_model. cbn [bind].
  rewrite gen_is_relative_to. cbn [bind]. rewrite fs_of_canonical, fs_of_joinpath. cbv zeta.
  destruct (FS.is_relative_to _ (fs_of path)); [|split; reflexivity].
  cbn [sanitized_agree]. rewrite fs_of_canonical, fs_of_joinpath. reflexivity.
Qed.

Theorem gen_get_sanitized_output_path fname path cwd0 cwd : fs_of cwd0 = FS.mkP 1 cwd ->
  sanitized_agree (HelpersPath2.get_sanitized_output_path fname path cwd0)
                  (FS.get_sanitized_output_path fname cwd (option_map fs_of path)).
Proof.
  intros Hcwd. unfold HelpersPath2.get_sanitized_output_path, FS.get_sanitized_output_path, FS.SLASH.
  destruct (py_startswith fname [47]) eqn:Hs.
  - cbv zeta. rewrite gen_lstrip_fs. destruct path as [path|]; cbn [option_map].
    + exact (sanitized_body_some (FS.lstrip 47 fname) path).
    + exact (sanitized_body_none (FS.lstrip 47 fname) cwd0 cwd Hcwd).
  - cbv zeta. rewrite (fs_lstrip_id fname Hs). destruct path as [path|]; cbn [option_map].
    + exact (sanitized_body_some fname path).
    + exact (sanitized_body_none fname cwd0 cwd Hcwd).
Qed.

(* corollaries in the vocabulary of the callers *)
Corollary gen_get_sanitized_output_path_ok fname path cwd0 cwd p : fs_of cwd0 = FS.mkP 1 cwd ->
  HelpersPath2.get_sanitized_output_path fname path cwd0 = Ok p ->
  FS.get_sanitized_output_path fname cwd (option_map fs_of path) = Some (fs_of p).
Proof. intros Hc H. pose proof (gen_get_sanitized_output_path fname path cwd0 cwd Hc) as G. rewrite H in G. exact G. Qed.

Corollary gen_get_sanitized_output_path_err fname path cwd0 cwd e : fs_of cwd0 = FS.mkP 1 cwd ->
  HelpersPath2.get_sanitized_output_path fname path cwd0 = Err e ->
  e = EBad7z /\ FS.get_sanitized_output_path fname cwd (option_map fs_of path) = None.
Proof. intros Hc H. pose proof (gen_get_sanitized_output_path fname path cwd0 cwd Hc) as G. rewrite H in G. exact G. Qed.

Theorem gen_canonical_path_fs p :
  HelpersPath.canonical_path p = Ok (canonical_path p) /\ fs_of (canonical_path p) = FS.canonical_path (fs_of p).
Proof. split; [apply gen_canonical_path_model | apply fs_of_canonical]. Qed.

(* ------------------------------------------------------------------ FSProofs.v's theorems about the sanitiser, for the generated one *)
Theorem gen_sanitized_lexically_inside nm cwd0 cwd b o : fs_of cwd0 = FS.mkP 1 cwd ->
  HelpersPath2.get_sanitized_output_path nm (Some b) cwd0 = Ok o ->
  FS.proot (fs_of o) = FS.proot (FS.canonical_path (fs_of b)) /\
  FS.prefixb (FS.pparts (FS.canonical_path (fs_of b))) (FS.pparts (fs_of o)) = true.
Proof.
  intros Hc H. apply (FSProofs.sanitized_lexically_inside nm cwd (fs_of b) (fs_of o)).
  exact (gen_get_sanitized_output_path_ok nm (Some b) cwd0 cwd o Hc H).
Qed.

Theorem gen_sanitized_canonical_inside nm cwd0 cwd b o : fs_of cwd0 = FS.mkP 1 cwd ->
  FS.proot (fs_of b) = 1 -> FSProofs.nodd (FS.pparts (fs_of b)) ->
  HelpersPath2.get_sanitized_output_path nm (Some b) cwd0 = Ok o ->
  FS.proot (fs_of o) = 1 /\ FSProofs.nodd (FS.pparts (fs_of o)) /\ FS.prefixb (FS.pparts (fs_of b)) (FS.pparts (fs_of o)) = true.
Proof.
  intros Hc Hb Hn H. apply (FSProofs.sanitized_canonical_inside nm cwd (fs_of b) (fs_of o) Hb Hn).
  exact (gen_get_sanitized_output_path_ok nm (Some b) cwd0 cwd o Hc H).
Qed.

Theorem gen_sanitized_none_inside nm cwd0 cwd o : fs_of cwd0 = FS.mkP 1 cwd -> FSProofs.nodd cwd ->
  HelpersPath2.get_sanitized_output_path nm None cwd0 = Ok o ->
  FS.proot (fs_of o) = 0 /\ FSProofs.nodd (FS.pparts (fs_of o)).
Proof.
  intros Hc Hn H. apply (FSProofs.sanitized_none_inside nm cwd (fs_of o) Hn).
  exact (gen_get_sanitized_output_path_ok nm None cwd0 cwd o Hc H).
Qed.

Theorem gen_sanitized_refusal_is_bad7z nm path cwd0 cwd e : fs_of cwd0 = FS.mkP 1 cwd ->
  HelpersPath2.get_sanitized_output_path nm path cwd0 = Err e -> e = EBad7z.
Proof. intros Hc H. exact (proj1 (gen_get_sanitized_output_path_err nm path cwd0 cwd e Hc H)). Qed.

(* ------------------------------------------------------------------ is_real_path_inside *)
(* The generated function takes what os.path.realpath(target) answered (real0) and real_root, two str.  FS.v works on real
   paths as lists of names; [render r] is the str of the real path r: "/" for the root, else "/" + "/".join(r).  For names
   that are not empty and contain no "/", the comparison of the strs ("equal, or begins with root.rstrip('/') + '/'") is the
   component-wise prefix test FS.real_inside makes. *)
Definition flat (cs : list str) : str := concat (map (cons 47) cs).
Definition render (r : list str) : str := match r with [] => [47] | _ => flat r end.
Definition name_ok (c : str) : Prop := c <> [] /\ slashfree c = true.
Definition hd47 (X : str) : bool := match X with [] => true | x :: _ => x =? 47 end.

Lemma hd47_flat cs : hd47 (flat cs) = true.
Proof. destruct cs; reflexivity. Qed.
Lemma hd47_flat_slash cs : hd47 (flat cs ++ [47]) = true.
Proof. destruct cs; reflexivity. Qed.

Lemma eq_split : forall d c X Y, slashfree d = true -> slashfree c = true -> hd47 X = true -> hd47 Y = true ->
  py_str_eqb (d ++ X) (c ++ Y) = py_str_eqb d c && py_str_eqb X Y.
Proof.
  induction d as [|x d IH]; intros [|y c] X Y Hd Hc HX HY; cbn [app py_str_eqb].
  - reflexivity.
  - cbn [slashfree forallb] in Hc. apply andb_true_iff in Hc as [Hy _]. apply negb_true_iff in Hy.
    destruct X as [|x0 X]; [reflexivity|]. cbn [hd47] in HX. apply Z.eqb_eq in HX. subst x0. cbn [py_str_eqb].
    rewrite Z.eqb_sym, Hy. reflexivity.
  - cbn [slashfree forallb] in Hd. apply andb_true_iff in Hd as [Hx _]. apply negb_true_iff in Hx.
    destruct Y as [|y0 Y]; [reflexivity|]. cbn [hd47] in HY. apply Z.eqb_eq in HY. subst y0. cbn [py_str_eqb].
    rewrite Hx. reflexivity.
  - cbn [slashfree forallb] in Hd, Hc. apply andb_true_iff in Hd as [_ Hd]. apply andb_true_iff in Hc as [_ Hc].
    rewrite (IH c X Y Hd Hc HX HY), andb_assoc. reflexivity.
Qed.

Lemma prefix_split : forall d c X Y, slashfree d = true -> slashfree c = true -> hd47 X = true -> hd47 Y = true -> Y <> [] ->
  py_prefixb (c ++ Y) (d ++ X) = py_str_eqb d c && py_prefixb Y X.
Proof.
  induction d as [|x d IH]; intros [|y c] X Y Hd Hc HX HY HYn; cbn [app py_str_eqb].
  - reflexivity.
  - cbn [slashfree forallb] in Hc. apply andb_true_iff in Hc as [Hy _]. apply negb_true_iff in Hy.
    destruct X as [|x0 X]; [reflexivity|]. cbn [hd47] in HX. apply Z.eqb_eq in HX. subst x0. cbn [py_prefixb].
    rewrite Hy. reflexivity.
  - cbn [slashfree forallb] in Hd. apply andb_true_iff in Hd as [Hx _]. apply negb_true_iff in Hx.
    destruct Y as [|y0 Y]; [congruence|]. cbn [hd47] in HY. apply Z.eqb_eq in HY. subst y0. cbn [py_prefixb].
    rewrite Z.eqb_sym, Hx. reflexivity.
  - cbn [slashfree forallb] in Hd, Hc. apply andb_true_iff in Hd as [_ Hd]. apply andb_true_iff in Hc as [_ Hc].
    cbn [py_prefixb]. rewrite (IH c X Y Hd Hc HX HY HYn), andb_assoc, (Z.eqb_sym y x). reflexivity.
Qed.

Lemma py_str_eqb_fs a : forall b, py_str_eqb a b = FS.str_eqb b a.
Proof.
  induction a as [|x a IH]; intros [|y b]; cbn [py_str_eqb FS.str_eqb]; try reflexivity.
  rewrite IH, (Z.eqb_sym x y). reflexivity.
Qed.

Lemma flat_prefix : forall root r, Forall name_ok root -> Forall name_ok r ->
  py_str_eqb (flat r) (flat root) || py_prefixb (flat root ++ [47]) (flat r) = FS.prefixb root r.
Proof.
  induction root as [|c cs IH]; intros [|d ds] Hroot Hr.
  - reflexivity.
  - reflexivity.
  - reflexivity.
  - inversion Hroot as [|? ? [_ Hc] Hcs]; subst. inversion Hr as [|? ? [_ Hd] Hds]; subst.
    unfold flat. cbn [map concat]. fold (flat cs). fold (flat ds). cbn [app py_str_eqb py_prefixb FS.prefixb].
    rewrite Z.eqb_refl. cbn [andb]. rewrite <- app_assoc.
    rewrite (eq_split d c (flat ds) (flat cs) Hd Hc (hd47_flat ds) (hd47_flat cs)).
    rewrite (prefix_split d c (flat ds) (flat cs ++ [47]) Hd Hc (hd47_flat ds) (hd47_flat_slash cs)) by (destruct (flat cs); discriminate).
    rewrite <- andb_orb_distrib_r, (IH ds Hcs Hds), py_str_eqb_fs. reflexivity.
Qed.

Lemma flat_last : forall root, Forall name_ok root -> root <> [] -> exists s x, flat root = s ++ [x] /\ (x =? 47) = false.
Proof.
  induction root as [|c cs IH]; intros Hall Hne; [congruence|].
  inversion Hall as [|? ? [Hcn Hc] Hcs]; subst. destruct cs as [|c2 rest].
  - destruct (exists_last Hcn) as (c' & x & ->). exists (47 :: c'), x. split.
    + unfold flat. cbn [map concat]. rewrite app_nil_r. reflexivity.
    + unfold slashfree in Hc. rewrite forallb_app in Hc. apply andb_true_iff in Hc as [_ Hx]. cbn [forallb] in Hx.
      rewrite andb_true_r in Hx. apply negb_true_iff in Hx. exact Hx.
  - destruct (IH Hcs ltac:(discriminate)) as (s & x & Hs & Hx). exists ((47 :: c) ++ s), x. split; [|exact Hx].
    unfold flat in *. cbn [map concat] in *. rewrite Hs, app_assoc. reflexivity.
Qed.

Lemma rstrip_flat root : Forall name_ok root -> root <> [] -> py_rstrip (flat root) [47] = flat root.
Proof.
  intros Hall Hne. destruct (flat_last root Hall Hne) as (s & x & -> & Hx).
  unfold py_rstrip. rewrite rev_app_distr. cbn [rev app py_lstrip existsb]. rewrite Hx. cbn [orb].
  cbn [rev]. rewrite rev_involutive. reflexivity.
Qed.

Theorem gen_is_real_path_inside (r root : list str) : Forall name_ok r -> Forall name_ok root ->
  HelpersPath2.is_real_path_inside (render r) (render root) = Ok (FS.prefixb root r).
Proof.
  intros Hr Hroot. unfold HelpersPath2.is_real_path_inside, py_posix_normcase. cbv zeta. f_equal.
  destruct root as [|c cs].
  - cbn [render FS.prefixb]. change (py_rstrip [47] [47]) with (@nil Z). cbn [app].
    destruct r as [|d ds]; [reflexivity|]. unfold render, flat, py_startswith. cbn [map concat app py_prefixb].
    rewrite Z.eqb_refl. apply orb_true_r.
  - assert (Hne : c :: cs <> []) by discriminate. change (render (c :: cs)) with (flat (c :: cs)).
    rewrite (rstrip_flat _ Hroot Hne). unfold py_startswith.
    destruct r as [|d ds].
    + inversion Hroot as [|? ? [Hcn _] _]; subst. destruct c as [|y c']; [congruence|]. reflexivity.
    + change (render (d :: ds)) with (flat (d :: ds)). apply flat_prefix; assumption.
Qed.

(* with FS.v's os.path.realpath: the verdict of check_real_path_inside in the extraction model *)
Corollary gen_is_real_path_inside_fs f cwd p (r root : list str) : FS.py_realpath f cwd p = Some r ->
  Forall name_ok r -> Forall name_ok root ->
  HelpersPath2.is_real_path_inside (render r) (render root) = Ok (FS.real_inside f cwd root p).
Proof. intros Hp Hr Hroot. unfold FS.real_inside. rewrite Hp. apply gen_is_real_path_inside; assumption. Qed.
