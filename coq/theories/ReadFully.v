(* ReadFully.v -- hand model of py7zr.helpers.read_fully over a file whose read() may return fewer
   bytes than asked for without being at the end (raw streams, multi-volume files at a volume
   boundary), and the theorem that makes it a sound primitive for every read schedule:

       read_fully(fp, size, blocksize) = the next `size` bytes of the file (fewer only at its end),
       and the file position has advanced by exactly that many bytes,

   for every contents, every position, every size, every block size >= 1 and every schedule of
   short reads in which a read() that is not at the end returns at least one byte.  The translator
   (tools/translate.py) and the header/decompressor models treat `read_fully(file, n)` as "the next
   n bytes"; before this file that was only a differential test (tools/harness/prims.py).  The
   model itself is run against the Python on the same schedules (GenDispatch FN 1088).

   Python (py7zr/helpers.py):
       chunks = []; remaining = size
       while remaining > 0:
           chunk = fp.read(min(remaining, blocksize))
           if not chunk: break
           chunks.append(chunk); remaining -= len(chunk)
       return b"".join(chunks)                                                                   *)
From Coq Require Import ZArith List Lia Arith.
From P7 Require Import Prelude.
Import ListNotations.
Local Open Scope nat_scope.

(* one read(n) of a file at `pos`; `cap` = the most this particular call is willing to return *)
Definition file_read (data : bytes) (pos n : nat) (cap : option nat) : bytes :=
  firstn (match cap with Some c => Nat.min n c | None => n end) (skipn pos data).

(* the while loop; None = out of fuel (excluded by the theorem: size+1 iterations always suffice) *)
Fixpoint rf_loop (fuel : nat) (data : bytes) (pos remaining bs : nat) (caps : list nat) (acc : bytes)
  : option (bytes * nat) :=
  match fuel with
  | O => None
  | S f =>
    if Nat.eqb remaining 0 then Some (acc, pos) else
    let chunk := file_read data pos (Nat.min remaining bs) (hd_error caps) in
    match chunk with
    | [] => Some (acc, pos)
    | _ :: _ => rf_loop f data (pos + length chunk) (remaining - length chunk) bs (tl caps) (acc ++ chunk)
    end
  end.

Definition read_fully (fuel : nat) (data : bytes) (pos size bs : nat) (caps : list nat) : option (bytes * nat) :=
  rf_loop fuel data pos size bs caps [].

(* the specification the rest of the development uses *)
Definition next_bytes (data : bytes) (pos size : nat) : bytes * nat :=
  (firstn size (skipn pos data), pos + Nat.min size (length data - pos)).

Lemma firstn_split {A} : forall k a (l : list A), k <= a ->
  firstn a l = firstn k l ++ firstn (a - length (firstn k l)) (skipn (length (firstn k l)) l).
Proof.
  induction k as [|k IH]; intros a l Hk.
  - cbn [firstn length skipn app]. now rewrite Nat.sub_0_r.
  - destruct l as [|x l].
    + cbn [firstn length skipn app]. now rewrite !firstn_nil.
    + destruct a as [|a]; [lia|]. cbn [firstn length skipn app Nat.sub]. f_equal. apply IH. lia.
Qed.

Lemma skipn_add {A} : forall a b (l : list A), skipn (a + b) l = skipn b (skipn a l).
Proof.
  induction a as [|a IH]; intros b l; [reflexivity|].
  destruct l as [|x l]; cbn [Nat.add skipn]; [now destruct b|apply IH].
Qed.

Lemma rf_loop_spec : forall data bs, 1 <= bs ->
  forall fuel remaining pos caps acc, remaining < fuel -> Forall (fun c => 1 <= c) caps ->
  rf_loop fuel data pos remaining bs caps acc
  = Some (acc ++ firstn remaining (skipn pos data), pos + Nat.min remaining (length data - pos)).
Proof.
  intros data bs Hbs. induction fuel as [|f IH]; intros remaining pos caps acc Hf Hc; [lia|].
  cbn [rf_loop]. destruct (Nat.eqb_spec remaining 0) as [E|E].
  - subst remaining. cbn [firstn Nat.min]. now rewrite app_nil_r, Nat.add_0_r.
  - set (k := match hd_error caps with Some c => Nat.min (Nat.min remaining bs) c | None => Nat.min remaining bs end).
    assert (Hk : 1 <= k <= remaining).
    { unfold k. destruct caps as [|c cs]; cbn [hd_error]; [lia|]. inversion Hc; subst. lia. }
    unfold file_read. fold k.
    destruct (firstn k (skipn pos data)) as [|x xs] eqn:Ech.
    + assert (Hl : length (skipn pos data) = 0).
      { pose proof (firstn_length k (skipn pos data)) as Hfl. rewrite Ech in Hfl. cbn [length] in Hfl. lia. }
      pose proof (skipn_length pos data) as Hsl. rewrite Hl in Hsl.
      destruct (skipn pos data) eqn:Es; [|discriminate Hl].
      rewrite firstn_nil, app_nil_r. do 2 f_equal. lia.
    + rewrite <- Ech. set (ch := firstn k (skipn pos data)).
      assert (Hm : length ch = Nat.min k (length data - pos)).
      { unfold ch. rewrite firstn_length, skipn_length. reflexivity. }
      assert (Hm1 : 1 <= length ch). { unfold ch. rewrite Ech. cbn [length]. lia. }
      rewrite IH; [|lia|destruct caps; [constructor|inversion Hc; assumption]].
      rewrite <- app_assoc. f_equal. f_equal; [f_equal|lia].
      rewrite skipn_add. unfold ch.
      symmetry. apply firstn_split. lia.
Qed.

(* THE THEOREM: any schedule of short reads, any block size >= 1 *)
Theorem read_fully_spec : forall data pos size bs caps,
  1 <= bs -> Forall (fun c => 1 <= c) caps ->
  read_fully (S size) data pos size bs caps = Some (next_bytes data pos size).
Proof.
  intros. unfold read_fully, next_bytes. rewrite rf_loop_spec by (assumption || lia). reflexivity.
Qed.

(* corollaries used in prose: the result does not depend on the schedule or the block size, *)
Corollary read_fully_schedule_independent : forall data pos size bs bs' caps caps',
  1 <= bs -> 1 <= bs' -> Forall (fun c => 1 <= c) caps -> Forall (fun c => 1 <= c) caps' ->
  read_fully (S size) data pos size bs caps = read_fully (S size) data pos size bs' caps'.
Proof. intros. now rewrite !read_fully_spec. Qed.

(* it is short only at the end of the file, *)
Corollary read_fully_length : forall data pos size bs caps r p,
  1 <= bs -> Forall (fun c => 1 <= c) caps ->
  read_fully (S size) data pos size bs caps = Some (r, p) ->
  length r = Nat.min size (length data - pos) /\ p = pos + length r.
Proof.
  intros data pos size bs caps r p Hb Hc H. rewrite read_fully_spec in H by assumption.
  unfold next_bytes in H. inversion H; subst. rewrite firstn_length, skipn_length. split; reflexivity.
Qed.

(* and two consecutive calls deliver what one call of the summed size delivers (the header reader's
   read(6); read(26) over a dribbling file = the first 32 bytes) *)
Corollary read_fully_compose : forall data pos n m,
  fst (next_bytes data pos n) ++ fst (next_bytes data (snd (next_bytes data pos n)) m)
  = fst (next_bytes data pos (n + m)).
Proof.
  intros. unfold next_bytes. cbn [fst snd].
  destruct (Nat.le_gt_cases n (length data - pos)) as [Hn|Hn].
  - rewrite Nat.min_l by assumption. rewrite skipn_add.
    rewrite (firstn_split n (n + m) (skipn pos data)) by lia.
    rewrite firstn_length, skipn_length, Nat.min_l by assumption.
    now replace (n + m - n) with m by lia.
  - assert (Hs : length (skipn pos data) < n) by (rewrite skipn_length; lia).
    rewrite (firstn_all2 (n:=n)) by lia. rewrite (firstn_all2 (n:=n + m)) by lia.
    rewrite Nat.min_r by lia.
    rewrite (skipn_all2 (n:=pos + (length data - pos))) by lia. now rewrite firstn_nil, app_nil_r.
Qed.

(* ---- what the loop ASKS the file for.  helpers.read_fully is also the guard against a header that
   declares a huge size on a tiny file (C05: seeded change C05-9 dropped the `min`): no read() asks
   for more than one block, nor for more than is still missing, whatever the file answers. ---- *)
Fixpoint rf_requests (fuel : nat) (data : bytes) (pos remaining bs : nat) (caps : list nat) : list nat :=
  match fuel with
  | O => []
  | S f =>
    if Nat.eqb remaining 0 then [] else
    let req := Nat.min remaining bs in
    let chunk := file_read data pos req (hd_error caps) in
    req :: match chunk with
           | [] => []
           | _ :: _ => rf_requests f data (pos + length chunk) (remaining - length chunk) bs (tl caps)
           end
  end.

Theorem rf_requests_bounded : forall bs, 1 <= bs ->
  forall fuel data pos remaining caps,
    Forall (fun r => 1 <= r /\ r <= bs /\ r <= remaining) (rf_requests fuel data pos remaining bs caps).
Proof.
  intros bs Hbs. induction fuel as [|f IH]; intros data pos remaining caps; [constructor|].
  cbn [rf_requests]. destruct (Nat.eqb_spec remaining 0) as [E|E]; [constructor|].
  constructor; [lia|].
  destruct (file_read data pos (Nat.min remaining bs) (hd_error caps)) as [|x xs]; [constructor|].
  eapply Forall_impl; [|apply IH]. cbv beta. intros r Hr. lia.
Qed.

(* no schedule, however hostile (zero-length answers included), makes the loop run more than
   `remaining` rounds that receive data, so the number of read() calls is at most size + 1 *)
Theorem rf_requests_count : forall fuel data pos remaining bs caps,
  length (rf_requests fuel data pos remaining bs caps) <= S remaining.
Proof.
  induction fuel as [|f IH]; intros data pos remaining bs caps; cbn [rf_requests length]; [lia|].
  destruct (Nat.eqb_spec remaining 0) as [E|E]; cbn [length]; [lia|].
  destruct (file_read data pos (Nat.min remaining bs) (hd_error caps)) as [|x xs] eqn:Ech; cbn [length]; [lia|].
  specialize (IH data (pos + S (length xs)) (remaining - S (length xs)) bs (tl caps)). lia.
Qed.

Example rf_requests_example :
  rf_requests 8 [1;2;3;4;5;6;7;8;9;10]%Z 2 7 4 [3;1;2] = [4; 4; 3; 1].
Proof. reflexivity. Qed.

(* the hypotheses are satisfiable and the loop really runs: a 10-byte file dribbling 3,1,2,... bytes *)
Example read_fully_example :
  read_fully 8 [1;2;3;4;5;6;7;8;9;10]%Z 2 7 4 [3;1;2] = Some ([3;4;5;6;7;8;9]%Z, 9)
  /\ read_fully 21 [1;2;3]%Z 1 20 4 [1] = Some ([2;3]%Z, 3).
Proof. split; reflexivity. Qed.

(* what a read() that returns b"" before the end does (cap 0, e.g. a non-blocking stream): the loop
   stops there -- the result is a proper prefix.  This is why the hypothesis `1 <= c` is needed and
   is the behaviour of the Python too. *)
Example read_fully_zero_cap_refuted :
  read_fully 8 [1;2;3;4;5]%Z 0 5 4 [2;0] = Some ([1;2]%Z, 2).
Proof. reflexivity. Qed.
