(* Events.v -- model of the progress-event machinery of py7zr extraction (property C18).

   What is modelled (py7zr/py7zr.py; line numbers of /repo at commit 52ec04e, they move with unrelated fixes):
   - SevenZipFile._extract            l.559-565 a reporter left by an earlier extraction of the session is sent the
                                      sentinel and joined before the new reporter thread is started;
                                      l.587  q.put(("pre",..)) before any worker runs,
                                      l.657  q.put(("post",..)) after Worker.extract returned (all workers joined);
   - Worker.extract (1302-1377)       which lists of members are walked by which thread:
                                      no streams: the empty-stream members on the calling thread;
                                      one folder: ALL members of the archive on the calling thread;
                                      several folders: the empty-stream members first (calling thread), then one
                                      walk per folder that has at least one registered target -- sequentially when
                                      not `parallel` (password / file object given), one thread per folder otherwise;
   - Worker._extract_single (1407-1484) per member f of the walked list: "s" (name, compressed), then -- only when f
                                      has a registered target and is not an empty stream -- Worker.decompress WITH q,
                                      then "e" (name, str(f.uncompressed)).  Members without a target get s and e too;
                                      _check() (1486) decompresses them WITHOUT q: no "u";
   - Worker.decompress (1496-1544)    the update loop (1525-1540), with the clock as an input;
   - SevenZipFile.reporter (1072-1095) and close() (1187-1191): FIFO consumer, None sentinel, join() without timeout.

   The queue is FIFO; an interleaving of the worker threads is a list of worker indices (who enqueues next).
   Events carry the member id as a ghost field so that theorems can speak about "the events of member i";
   the real events carry only what the harness's ev_erase keeps (kind, name, byte count).

   NOT modelled: the member-numbering of ArchiveFileList (offset + index) -- the model takes "has a registered target"
   per member as data; exceptions inside workers (the quantifier of C18 ranges over intact archives).
   stdlib only; no axioms. *)
From P7 Require Import Prelude.
Open Scope Z_scope.

Definition name := list Z.   (* code points of the member name *)

Inductive event :=
| Pre | Post
| Start (id : Z) (nm : name) (csize : Z)
| Update (id : Z) (n : Z)
| End (id : Z) (nm : name) (size : Z).

Record member := mkMember {
  m_id : Z;               (* position in the archive's file list (ghost: identifies the member) *)
  m_name : name;
  m_csize : Z;            (* f.compressed or 0: second argument of report_start *)
  m_size : Z;             (* f.uncompressed (0 for empty streams) *)
  m_empty : bool;         (* f.emptystream *)
  m_target : bool;        (* target_filepath.get(f.id) is not None *)
  m_chunks : list (Z * Z) (* input of the decompress loop: per iteration (len(tmp), clock advance since the
                             previous reading of time.time(), unit 1/1024 s) *)
}.

(* ---------------------------------------------------------------- Worker.decompress, the "u" events *)
(* state: out_remaining, decompressed_bytes, time since previous_update_at *)
Fixpoint dec_loop (rem acc since : Z) (chunks : list (Z * Z)) : list Z * Z :=
  match chunks with
  | [] => ([], rem)
  | (n, dt) :: rest =>
      if rem <=? 0 then ([], rem)                          (* while out_remaining > 0 *)
      else
        let rem' := if 0 <? n then rem - n else rem in     (* if len(tmp) > 0: out_remaining -= len(tmp) *)
        let delta := since + dt in                         (* time.time() - previous_update_at *)
        let acc' := acc + n in                             (* decompressed_bytes += len(tmp) *)
        if (rem' <=? 0) || (1024 <=? delta) then           (* out_remaining <= 0 or time_delta >= 1 *)
          if rem' <=? 0 then ([acc'], rem')                (* put; ...; break *)
          else let '(us, r) := dec_loop rem' 0 0 rest in (acc' :: us, r)   (* previous_update_at += delta; bytes = 0 *)
        else dec_loop rem' acc' delta rest
  end.

Definition dec_updates (size : Z) (chunks : list (Z * Z)) : list Z := fst (dec_loop size 0 0 chunks).
Definition dec_final (size : Z) (chunks : list (Z * Z)) : Z := snd (dec_loop size 0 0 chunks).

(* the decoder returns between 0 and max_length <= out_remaining bytes per call and the schedule is long enough
   to finish: what a decoder honouring max_length on an intact stream does *)
Fixpoint chunks_ok (rem : Z) (chunks : list (Z * Z)) : bool :=
  if rem <=? 0 then true
  else match chunks with
       | [] => false
       | (n, _) :: rest => (0 <=? n) && (n <=? rem) && chunks_ok (rem - n) rest
       end.

Definition zsum (l : list Z) : Z := fold_right Z.add 0 l.

(* ---------------------------------------------------------------- Worker._extract_single *)
Definition delivered (m : member) : bool := m_target m && negb (m_empty m).
Definition member_updates (m : member) : list Z :=
  if delivered m then dec_updates (m_size m) (m_chunks m) else [].
Definition member_events (m : member) : list event :=
  Start (m_id m) (m_name m) (m_csize m)
  :: map (Update (m_id m)) (member_updates m) ++ [End (m_id m) (m_name m) (m_size m)].
Definition worker_events (fs : list member) : list event := flat_map member_events fs.

(* ---------------------------------------------------------------- Worker.extract: who walks what *)
Inductive mode := NoStreams | Single | MultiSeq | MultiPar.
Record shape := mkShape {
  s_mode : mode;
  s_files : list member;            (* all members in archive order *)
  s_folders : list (list member)    (* folders[i].files: the non-empty-stream members per folder (Multi* only) *)
}.

Definition empties (sh : shape) : list member := filter m_empty (s_files sh).
Definition selected (fo : list member) : bool := existsb m_target fo.   (* any(target_filepath.get(f.id) ...) *)
Definition sel_folders (sh : shape) : list (list member) := filter selected (s_folders sh).

(* events enqueued by the calling thread between "pre" and the start of the folder threads *)
Definition main_events (sh : shape) : list event :=
  match s_mode sh with
  | NoStreams => worker_events (empties sh)
  | Single => worker_events (s_files sh)
  | MultiSeq => worker_events (empties sh) ++ flat_map worker_events (sel_folders sh)
  | MultiPar => worker_events (empties sh)
  end.
(* the programs of the concurrently running workers *)
Definition workers (sh : shape) : list (list event) :=
  match s_mode sh with
  | MultiPar => map worker_events (sel_folders sh)
  | _ => []
  end.
(* the members that the extraction walks ("processes") *)
Definition processed (sh : shape) : list member :=
  match s_mode sh with
  | NoStreams => empties sh
  | Single => s_files sh
  | MultiSeq | MultiPar => empties sh ++ concat (sel_folders sh)
  end.

(* ---------------------------------------------------------------- FIFO merge under a schedule *)
Fixpoint upd {A} (i : nat) (x : A) (l : list A) : list A :=
  match l, i with
  | [], _ => []
  | _ :: t, O => x :: t
  | h :: t, S i' => h :: upd i' x t
  end.

(* sched: who enqueues next; a step of a worker that has nothing left to enqueue is a no-op *)
Fixpoint run {A} (sched : list nat) (ws : list (list A)) : list A * list (list A) :=
  match sched with
  | [] => ([], ws)
  | i :: s =>
      match nth i ws [] with
      | [] => run s ws
      | e :: r => let '(o, ws') := run s (upd i r ws) in (e :: o, ws')
      end
  end.

Definition is_nil {A} (l : list A) : bool := match l with [] => true | _ => false end.
Definition complete_ws {A} (sched : list nat) (ws : list (list A)) : bool := forallb is_nil (snd (run sched ws)).
Definition complete (sh : shape) (sched : list nat) : bool := complete_ws sched (workers sh).

(* the queue contents of one extraction *)
Definition emitted (sh : shape) (sched : list nat) : list event :=
  Pre :: (main_events sh ++ fst (run sched (workers sh))) ++ [Post].

(* mp=True: the folder workers are processes; their q is a copy; what they put never reaches the reporter *)
Definition emitted_mp (sh : shape) : list event := Pre :: main_events sh ++ [Post].

(* ---------------------------------------------------------------- well-formedness *)
Definition ev_id (e : event) : option Z :=
  match e with Pre | Post => None | Start i _ _ | Update i _ | End i _ _ => Some i end.
Definition of_id (i : Z) (e : event) : bool := match ev_id e with Some j => j =? i | None => false end.
Definition proj (i : Z) (evs : list event) : list event := filter (of_id i) evs.
Definition is_prepost (e : event) : bool := match e with Pre | Post => true | _ => false end.
Definition is_startend (e : event) : bool := match e with Start _ _ _ | End _ _ _ => true | _ => false end.
Definition upd_val (e : event) : Z := match e with Update _ n => n | _ => 0 end.
Definition upd_vals (evs : list event) : list Z :=
  flat_map (fun e => match e with Update _ n => [n] | _ => [] end) evs.
Definition upd_total (evs : list event) : Z := zsum (map upd_val evs).

Definition canonical (m : member) (us : list Z) : list event :=
  Start (m_id m) (m_name m) (m_csize m) :: map (Update (m_id m)) us ++ [End (m_id m) (m_name m) (m_size m)].

(* Pre first, Post last and nowhere else; every event in between belongs to a processed member; the events of a
   processed member are, in this order: its Start, its updates, its End (name and size as payload); the updates of a
   delivered member sum to its size; a member that is not delivered has none *)
Definition wellformed (ms : list member) (evs : list event) : Prop :=
  exists mid, evs = Pre :: mid ++ [Post] /\
    (forall e, In e mid -> is_prepost e = false) /\
    (forall e, In e mid -> exists m, In m ms /\ ev_id e = Some (m_id m)) /\
    (forall m, In m ms -> exists us, proj (m_id m) mid = canonical m us /\
        (delivered m = true -> zsum us = m_size m) /\ (delivered m = false -> us = [])).

(* the same as a decision procedure (run by the harness on recorded sequences) *)
Fixpoint list_eqb {A} (eqb : A -> A -> bool) (a b : list A) : bool :=
  match a, b with
  | [], [] => true
  | x :: a', y :: b' => eqb x y && list_eqb eqb a' b'
  | _, _ => false
  end.
Definition event_eqb (a b : event) : bool :=
  match a, b with
  | Pre, Pre | Post, Post => true
  | Start i n c, Start i' n' c' => (i =? i') && list_eqb Z.eqb n n' && (c =? c')
  | Update i n, Update i' n' => (i =? i') && (n =? n')
  | End i n s, End i' n' s' => (i =? i') && list_eqb Z.eqb n n' && (s =? s')
  | _, _ => false
  end.

Definition member_okb (mid : list event) (m : member) : bool :=
  let p := proj (m_id m) mid in
  let us := upd_vals p in
  list_eqb event_eqb p (canonical m us) && (if delivered m then zsum us =? m_size m else is_nil us).

Definition wellformedb (ms : list member) (evs : list event) : bool :=
  match evs with
  | Pre :: t =>
      match rev t with
      | Post :: rmid =>
          let mid := rev rmid in
          forallb (fun e => negb (is_prepost e)) mid &&
          forallb (fun e => existsb (fun m => match ev_id e with Some i => i =? m_id m | None => false end) ms) mid &&
          forallb (member_okb mid) ms
      | _ => false
      end
  | _ => false
  end.

(* ---------------------------------------------------------------- reporter and close() *)
(* the reporter thread: dequeue in order, call the handler, stop at the sentinel None *)
Fixpoint reporter (q : list (option event)) : list event * bool :=
  match q with
  | [] => ([], false)                      (* still blocked in q.get: alive *)
  | None :: _ => ([], true)                (* break: the thread ends *)
  | Some e :: r => let '(d, fin) := reporter r in (e :: d, fin)
  end.

(* timed single-consumer FIFO: item k arrives at time a_k and its handler runs for c_k (unit 1/1024 s); the
   consumer is idle from `free` on.  Completion times of the handler calls. *)
Fixpoint completions (free : Z) (items : list (Z * Z)) : list Z :=
  match items with
  | [] => []
  | (a, c) :: r => let d := Z.max free a + c in d :: completions d r
  end.
Definition last_completion (free : Z) (items : list (Z * Z)) : Z := last (completions free items) free.

(* close() at time tc: put the sentinel behind everything queued, join() (no timeout).  Returns (time close()
   returns, handler calls completed by then, handler calls completed later) *)
Definition close_model (free : Z) (items : list (Z * Z)) (tc : Z) : Z * Z * Z :=
  let cs := completions free items in
  let tret := Z.max (last_completion free items) tc in     (* the reporter dequeues the sentinel and ends *)
  (tret, Z.of_nat (length (filter (fun d => d <=? tret) cs)), Z.of_nat (length (filter (fun d => tret <? d) cs))).

(* several extractions in one session: _extract puts the sentinel for the previous reporter and joins it before it
   starts the next one, so the consumers of the queue never overlap: reporter k handles the items up to the k-th
   sentinel, reporter k+1 starts on what is behind it *)
Fixpoint reporter_rest (q : list (option event)) : list event * bool * list (option event) :=
  match q with
  | [] => ([], false, [])
  | None :: r => ([], true, r)
  | Some e :: r => let '(d, fin, rest) := reporter_rest r in (e :: d, fin, rest)
  end.
(* the accounts received by the successive callbacks of a session *)
Fixpoint accounts (fuel : nat) (q : list (option event)) : list (list event) :=
  match fuel, q with
  | O, _ | _, [] => []
  | S f, _ => let '(d, fin, rest) := reporter_rest q in d :: (if fin then accounts f rest else [])
  end.

(* ---------------------------------------------------------------- tree protocol *)
Definition of_pair (t : tree) : Z * Z := (of_TI (tnth t 0), of_TI (tnth t 1)).
Definition of_member (t : tree) : member :=
  mkMember (of_TI (tnth t 0)) (of_bytes (tnth t 1)) (of_TI (tnth t 2)) (of_TI (tnth t 3))
           (of_bool (tnth t 4)) (of_bool (tnth t 5)) (map of_pair (of_TL (tnth t 6))).
Definition of_mode (t : tree) : mode :=
  let z := of_TI t in if z =? 0 then NoStreams else if z =? 1 then Single else if z =? 2 then MultiSeq else MultiPar.
Definition of_shape (t : tree) : shape :=
  mkShape (of_mode (tnth t 0)) (map of_member (of_TL (tnth t 1)))
          (map (fun f => map of_member (of_TL f)) (of_TL (tnth t 2))).
Definition of_sched (t : tree) : list nat := map (fun x => Z.to_nat (of_TI x)) (of_TL t).
Definition t_event (e : event) : tree :=
  match e with
  | Pre => TL [TI 0]
  | Post => TL [TI 1]
  | Start i n c => TL [TI 2; TI i; t_bytes n; TI c]
  | Update i n => TL [TI 3; TI i; TI n]
  | End i n s => TL [TI 4; TI i; t_bytes n; TI s]
  end.
Definition of_event (t : tree) : event :=
  let k := of_TI (tnth t 0) in
  if k =? 0 then Pre else if k =? 1 then Post
  else if k =? 2 then Start (of_TI (tnth t 1)) (of_bytes (tnth t 2)) (of_TI (tnth t 3))
  else if k =? 3 then Update (of_TI (tnth t 1)) (of_TI (tnth t 2))
  else End (of_TI (tnth t 1)) (of_bytes (tnth t 2)) (of_TI (tnth t 3)).
Definition t_events (l : list event) : tree := TL (map t_event l).

Definition events_dispatch (fn : Z) (a : tree) : tree :=
  match fn with
  (* FN 260 ev_emitted : (shape sched) -> (complete events) *)
  | 260 => let sh := of_shape (tnth a 0) in let sc := of_sched (tnth a 1) in
           TL [t_bool (complete sh sc); t_events (emitted sh sc)]
  (* FN 261 ev_workers : shape -> (main_events (worker_events ...)) *)
  | 261 => let sh := of_shape a in TL [t_events (main_events sh); TL (map t_events (workers sh))]
  (* FN 262 ev_wellformedb : (members events) -> bool *)
  | 262 => t_bool (wellformedb (map of_member (of_TL (tnth a 0))) (map of_event (of_TL (tnth a 1))))
  (* FN 263 ev_dec_loop : (size chunks) -> (updates final_remaining) *)
  | 263 => let '(us, r) := dec_loop (of_TI (tnth a 0)) 0 0 (map of_pair (of_TL (tnth a 1))) in
           TL [TL (map TI us); TI r]
  (* FN 264 ev_close : (free items tc) -> (t_return n_before n_after) *)
  | 264 => let '(t, nb, na) := close_model (of_TI (tnth a 0)) (map of_pair (of_TL (tnth a 1))) (of_TI (tnth a 2)) in
           TL [TI t; TI nb; TI na]
  (* FN 265 ev_emitted_mp : shape -> events *)
  | 265 => t_events (emitted_mp (of_shape a))
  (* FN 266 ev_processed : shape -> ids of the processed members *)
  | 266 => TL (map (fun m => TI (m_id m)) (processed (of_shape a)))
  (* FN 267 ev_reporter : (queue as list of () | (event)) -> (delivered terminated) *)
  | 267 => let '(d, fin) := reporter (map (of_opt of_event) (of_TL a)) in TL [t_events d; t_bool fin]
  (* FN 268 ev_chunks_ok : (size chunks) -> bool *)
  | 268 => t_bool (chunks_ok (of_TI (tnth a 0)) (map of_pair (of_TL (tnth a 1))))
  (* FN 269 ev_accounts : (queue as list of () | (event)) -> (account ...) *)
  | 269 => let q := map (of_opt of_event) (of_TL a) in TL (map t_events (accounts (S (length q)) q))
  | _ => TL [TI (-2)]
  end.
