(* ModeProofs.v -- C02, attribute coding: what _make_file_info writes for an entry of kind k with stat mode
   st_mode is decoded by ArchiveFile as an entry of kind k with permission bits S_IMODE(st_mode), for EVERY
   integer st_mode (the word depends on st_mode only through its 12 low bits, and all 4096 values of those are
   checked by computation inside Coq). *)
From P7 Require Import Prelude Mode.
From Coq Require Import ZifyBool.
Open Scope Z_scope.

(* 0 .. 2^k - 1 *)
Fixpoint below_pow2 (k : nat) : list Z :=
  match k with
  | O => [0]
  | S k' => let l := below_pow2 k' in l ++ map (fun x => x + 2 ^ Z.of_nat k') l
  end.

Lemma below_pow2_In : forall k i, 0 <= i < 2 ^ Z.of_nat k -> In i (below_pow2 k).
Proof.
  induction k as [| k IH]; intros i Hi.
  - simpl in *. left. lia.
  - cbn [below_pow2]. apply in_or_app.
    replace (Z.of_nat (S k)) with (Z.of_nat k + 1) in Hi by lia.
    rewrite Z.pow_add_r in Hi by lia. change (2 ^ 1) with 2 in Hi.
    destruct (Z_lt_dec i (2 ^ Z.of_nat k)) as [Hlt | Hge].
    + left. apply IH. lia.
    + right. apply in_map_iff. exists (i - 2 ^ Z.of_nat k). split; [lia | apply IH; lia].
Qed.

Lemma S_IMODE_range : forall m, 0 <= S_IMODE m < 2 ^ Z.of_nat 12.
Proof.
  intros m. unfold S_IMODE. change 4095 with (Z.ones 12).
  rewrite Z.land_ones by lia. change (Z.of_nat 12) with 12. apply Z.mod_pos_bound. lia.
Qed.

Definition optZ_eqb (a b : option Z) : bool :=
  match a, b with Some x, Some y => x =? y | None, None => true | _, _ => false end.
Definition optk_eqb (a b : option kind) : bool :=
  match a, b with Some x, Some y => kind_eqb x y | None, None => true | _, _ => false end.

Lemma optZ_eqb_eq : forall a b, optZ_eqb a b = true -> a = b.
Proof. intros [x|] [y|] H; simpl in H; try discriminate; try reflexivity. f_equal. lia. Qed.
Lemma optk_eqb_eq : forall a b, optk_eqb a b = true -> a = b.
Proof. intros [[]|] [[]|] H; simpl in H; try discriminate; reflexivity. Qed.

(* everything the round trip needs, for permission bits i and kind k *)
Definition attr_ok (k : kind) (i : Z) : bool :=
  let a := attributes_of k i in
  optZ_eqb (posix_mode (Some a)) (Some i)
  && optk_eqb (entry_kind (Some a)) (Some k)
  && Bool.eqb (attr_is_directory (Some a)) (kind_eqb k KDir)
  && Bool.eqb (is_symlink (Some a)) (kind_eqb k KLink)
  && negb (is_junction (Some a)) && negb (is_socket (Some a)) && negb (is_readonly (Some a))
  && optZ_eqb (st_fmt (Some a)) (Some (match k with KFile => 0 | KDir => S_IFDIR | KLink => S_IFLNK end))
  && (0 <=? a) && (a <? 2 ^ 32)
  (* the st_mode words the walk hands over: S_IFREG/S_IFDIR/S_IFLNK or-ed with the permission bits *)
  && (S_IMODE (Z.lor S_IFREG i) =? i) && (S_IMODE (Z.lor S_IFDIR i) =? i) && (S_IMODE (Z.lor S_IFLNK i) =? i)
  && (S_IMODE i =? i).

Lemma attr_ok_all : forallb (fun i => attr_ok KFile i && attr_ok KDir i && attr_ok KLink i) (below_pow2 12) = true.
Proof. vm_compute. reflexivity. Qed.

Lemma attr_ok_imode : forall k i, 0 <= i < 4096 -> attr_ok k i = true.
Proof.
  intros k i Hi.
  pose proof attr_ok_all as H. rewrite forallb_forall in H.
  specialize (H i (below_pow2_In 12 i Hi)).
  apply andb_prop in H. destruct H as [H H3]. apply andb_prop in H. destruct H as [H1 H2].
  destruct k; assumption.
Qed.

Lemma attributes_imode : forall k m, attributes_of k m = attributes_of k (S_IMODE m).
Proof.
  intros k m.
  assert (E : S_IMODE (S_IMODE m) = S_IMODE m).
  { pose proof (S_IMODE_range m) as Hr. pose proof (attr_ok_imode KFile (S_IMODE m) Hr) as H.
    unfold attr_ok in H. repeat (apply andb_prop in H; destruct H as [H ?]). lia. }
  destruct k; unfold attributes_of; rewrite E; reflexivity.
Qed.

Ltac split_ok H := unfold attr_ok in H; cbv zeta in H;
  repeat (let H' := fresh "Hk" in apply andb_prop in H; destruct H as [H H']).

(* ---- the theorems *)
Theorem mode_roundtrip : forall (k : kind) (st_mode : Z),
  let a := attributes_of k st_mode in
  posix_mode (Some a) = Some (S_IMODE st_mode)
  /\ entry_kind (Some a) = Some k
  /\ attr_is_directory (Some a) = kind_eqb k KDir
  /\ is_symlink (Some a) = kind_eqb k KLink
  /\ is_junction (Some a) = false /\ is_socket (Some a) = false /\ is_readonly (Some a) = false
  /\ 0 <= a < 2 ^ 32.
Proof.
  intros k m a. subst a. rewrite (attributes_imode k m).
  pose proof (attr_ok_imode k (S_IMODE m) (S_IMODE_range m)) as H. split_ok H.
  repeat split.
  - apply optZ_eqb_eq; assumption.
  - apply optk_eqb_eq; assumption.
  - apply Bool.eqb_prop; assumption.
  - apply Bool.eqb_prop; assumption.
  - destruct (is_junction _); [discriminate | reflexivity].
  - destruct (is_socket _); [discriminate | reflexivity].
  - destruct (is_readonly _); [discriminate | reflexivity].
  - lia.
  - lia.
Qed.

(* the bound stated as in the task: every value of st_mode & 0xFFFF, i.e. every S_IFMT pattern too *)
Corollary mode_roundtrip_16 : forall k st_mode, 0 <= st_mode < 65536 ->
  posix_mode (Some (attributes_of k st_mode)) = Some (Z.land st_mode 4095)
  /\ entry_kind (Some (attributes_of k st_mode)) = Some k.
Proof. intros k m _. pose proof (mode_roundtrip k m) as H. cbv zeta in H. unfold S_IMODE in H. tauto. Qed.

(* the st_mode the walk forms from a node's permission bits keeps them *)
Lemma imode_of_walk : forall i, 0 <= i < 4096 ->
  S_IMODE (Z.lor S_IFREG i) = i /\ S_IMODE (Z.lor S_IFDIR i) = i /\ S_IMODE (Z.lor S_IFLNK i) = i.
Proof.
  intros i Hi. pose proof (attr_ok_imode KFile i Hi) as H. split_ok H. lia.
Qed.

(* which branch of _make_file_info is taken decides the kind exactly as the type bits of lstat/stat say *)
Theorem classify_kind : forall deref lmode smode k m,
  classify deref lmode smode = Some (k, m) ->
  match k with
  | KLink => S_ISLNK lmode = true /\ deref = false /\ m = lmode
  | KDir => S_ISDIR smode = true /\ (S_ISLNK lmode = true -> deref = true)
  | KFile => S_ISDIR smode = false /\ (S_ISLNK lmode = true -> deref = true)
  end.
Proof.
  intros deref lmode smode k m H. unfold classify in H.
  destruct (S_ISLNK lmode) eqn:?.
  - destruct deref eqn:?.
    + destruct (S_ISDIR smode) eqn:?; inversion H; subst; auto.
    + inversion H; subst. auto.
  - destruct (S_ISDIR smode) eqn:?.
    + inversion H; subst. split; [reflexivity | discriminate].
    + destruct (S_ISREG smode) eqn:?; [| discriminate]. inversion H; subst. split; [reflexivity | discriminate].
Qed.

Example mode_roundtrip_example :
  attributes_of KDir 16877 = 1106083856            (* 0o40755 -> 0x41ED8010 *)
  /\ attributes_of KLink 41471 = 2717877280        (* 0o120777 -> 0xA1FF8420 *)
  /\ attributes_of KFile 35309 = 166559776         (* 0o104755 (setuid) -> 0x09ED8020 *)
  /\ posix_mode (Some 166559776) = Some 2541.
Proof. vm_compute. repeat split; reflexivity. Qed.
