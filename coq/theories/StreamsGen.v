(* StreamsGen.v -- StreamsInfo.read / retrieve / write as generated from py7zr/archiveinfo.py
   (gen/ArchiveinfoRecords.v) are Header.v's parse_streams / write_streams, on all inputs. *)
From P7 Require Import Prelude PyPrims PyStr PyRe PyTac Number NumberGen BoolVec BoolVecGen Header HeaderPrims HeaderGenPrims PackInfoGen
  FolderGen SubstreamsGen.
From P7 Require CostProofs.
From P7gen Require Import ArchiveinfoPrims ArchiveinfoRecords.
From Coq Require Import ZifyBool ZifyNat.
Open Scope Z_scope.

(* ------------------------------------------------------------------ UnpackInfo._read once more, keeping numfolders:
   the object's numfolders is the number read from the file (the model only keeps the folders) *)
Definition nf_of (bs : bytes) : Z :=
  match bs with _ :: t => match rd_number t with Ok (n, _) => n | Err _ => 0 end | [] => 0 end.

Lemma gen_unpack_tail_nf nf (gfs : list folder) (pid : option Z) (inp : bytes) :
  res_same
    (do (o, r) <-
       (do (t9, inp) <-
          (if negb (bytes_eqb (pid_bytes pid) [0]) then do _ <- py_ord (pid_bytes pid); Err EBad7z
           else Ok (mkUnpackInfo nf (map folder_gen gfs) None, inp));
        Ok (mkUnpackInfo (UnpackInfo_numfolders t9) (UnpackInfo_folders t9) (UnpackInfo_datastreamidx t9), inp));
     Ok ((UnpackInfo_numfolders o, map folder_of (UnpackInfo_folders o)), r))
    (do (fs, r) <- (match pid with Some 0 => Ok (gfs, inp) | _ => Err EBad7z end); Ok ((nf, fs), r)).
Proof.
  rewrite pid_bytes_eqb, match_pid_0. destruct pid as [p|]; [|exact I].
  destruct (p =? 0); cbn [negb bind pid_bytes py_ord UnpackInfo_folders UnpackInfo_numfolders res_same]; [|exact I].
  now rewrite map_folder_of_gen.
Qed.

Theorem gen_UnpackInfo_retrieve_nf_or lim bs : wf_bytes bs = true ->
  parse_unpackinfo lim bs = Err EFuel \/
  res_same (do (o, r) <- UnpackInfo_retrieve bs; Ok ((UnpackInfo_numfolders o, map folder_of (UnpackInfo_folders o)), r))
           (do (fs, r) <- parse_unpackinfo lim bs; Ok ((nf_of bs, fs), r)).
Proof.
  intros Hw. unfold UnpackInfo_retrieve, UnpackInfo_read, UnpackInfo_init, UnpackInfo_retrieve_coders_info, parse_unpackinfo.
  cbn [UnpackInfo_numfolders UnpackInfo_folders UnpackInfo_datastreamidx]. cbv zeta.
  destruct (gen_pid bs) as (pid & bs1 & Hp1 & Hp2 & Hp3 & _). rewrite Hp1, Hp2. cbn [bind]. specialize (Hp3 Hw).
  rewrite pid_bytes_eqb, match_pid_11.
  destruct pid as [p|]; [destruct (p =? 11) eqn:E11|]; cbn [negb bind]; try (right; exact I).
  rewrite gen_read_uint64_rd_number by exact Hp3.
  destruct (rd_number bs1) as [[nf bs2]|e] eqn:E2; cbn [bind]; [|right; exact I].
  assert (Hnf : nf_of bs = nf).
  { destruct bs as [|x t]; cbn [rd_pid] in Hp1; [discriminate|]. assert (t = bs1) by congruence. subst t. unfold nf_of. now rewrite E2. }
  rewrite Hnf. clear Hnf.
  pose proof (rd_number_wf _ _ _ Hp3 E2) as Hw2. rewrite gen_read_byte.
  destruct (rd_byte bs2) as [[ext bs3]|e] eqn:E3; cbn [bind]; [|right; exact I].
  pose proof (rd_byte_wf _ _ _ Hw2 E3) as Hw3.
  destruct (ext =? 0) eqn:Eext; cbn [negb bind]; [|right; exact I].
  (* the folders *)
  match goal with |- context[for_m (py_range 0 nf) ?b ([], bs3)] => set (fb := b) end.
  assert (Hfb : forall (x : Z) (s : list Folder) b, wf_bytes b = true -> parse_folder lim b = Err EFuel \/
            fb x (s, b) = match parse_folder lim b with Ok (f, r) => Ok ((s ++ [folder_gen f], r), false) | Err e => Err e end).
  { intros x s b Hb. destruct (gen_Folder_retrieve_exact_or lim b Hb) as [Hf|He]; [left; exact Hf|right].
    unfold fb. rewrite He. destruct (parse_folder lim b) as [[f r]|e]; reflexivity. }
  rewrite (rd_many_rd_n (parse_folder lim) (fun b => wf_bytes b = true) (parse_folder_inv2 lim) nf bs3 Hw3).
  destruct (gen_fold_loop_or (parse_folder lim) (fun (s : list Folder) f => s ++ [folder_gen f]) (fun b => wf_bytes b = true) fb
              Hfb (parse_folder_inv2 lim) (py_range 0 nf) [] bs3 Hw3) as [Hf|Hl];
    rewrite py_range_length, Z.sub_0_r in *; [left; now rewrite Hf|].
  rewrite Hl. clear Hl.
  destruct (rd_n (Z.to_nat nf) (parse_folder lim) bs3) as [[fs bs4]|e] eqn:Efs; cbn [bind]; [|right; exact I].
  destruct (rd_n_inv (parse_folder lim) (fun b => wf_bytes b = true) (parse_folder_inv2 lim) _ _ _ _ Hw3 Efs) as [Hw4 _].
  pose proof (rd_n_folders_nil lim _ _ _ _ Hw3 Efs) as Hnil.
  rewrite fold_left_snoc_map. cbn [app].
  destruct (gen_pid bs4) as (pid2 & bs5 & Hq1 & Hq2 & Hq3 & _). rewrite Hq1, Hq2. cbn [bind]. specialize (Hq3 Hw4).
  rewrite pid_bytes_eqb, match_pid_12.
  destruct pid2 as [q|]; [destruct (q =? 12) eqn:E12|]; cbn [negb bind]; try (right; exact I).
  (* unpack sizes *)
  match goal with |- context[for_m (map folder_gen fs) ?b ([], bs5)] =>
    match b with context[for_m (Folder_coders _) ?ib0 _] =>
      rewrite (gen_us_loop b ib0 ltac:(intros; reflexivity) ltac:(intros; reflexivity) fs [] bs5 Hq3 Hnil) end end.
  destruct (rd_unpacksizes fs bs5) as [[fs1 bs6]|e] eqn:Eus; cbn [bind app]; [|right; exact I].
  assert (Hw6 : wf_bytes bs6 = true) by (eapply suffix_wf; [eapply rd_unpacksizes_suffix; eassumption | exact Hq3]).
  destruct (gen_pid bs6) as (pid3 & bs7 & Hr1 & Hr2 & Hr3 & _). rewrite Hr1, Hr2. cbn [bind]. specialize (Hr3 Hw6).
  rewrite pid_bytes_eqb, match_pid_10.
  destruct pid3 as [r0|]; [destruct (r0 =? 10) eqn:E10|].
  2: { right. cbn [bind]. exact (gen_unpack_tail_nf nf fs1 (Some r0) bs7). }
  2: { right. cbn [bind]. exact (gen_unpack_tail_nf nf fs1 None bs7). }
  destruct (rd_boolean lim nf true bs7) as [[dd bs8]|e] eqn:Eb.
  2: { destruct e; try (right; rewrite (gen_read_boolean_rd_boolean lim nf true bs7 Hr3) by (rewrite Eb; discriminate);
                        rewrite Eb; exact I).
       left. reflexivity. }
  right. rewrite (gen_read_boolean_rd_boolean lim nf true bs7 Hr3) by (rewrite Eb; discriminate). rewrite Eb. cbn [bind].
  change (py_count_true dd) with (count_true dd).
  rewrite gen_read_crcs_rd_crcs by (pose proof (count_true_bounds dd); lia).
  destruct (rd_crcs (count_true dd) bs8) as [[crcs bs9]|e]; cbn [bind]; [|exact I].
  unfold py_enumerate. change 0 with (Z.of_nat 0).
  match goal with |- context[for_m (enumerate_from _ _) ?b _] =>
    rewrite (gen_setcrc_loop dd b ltac:(intros; reflexivity) fs1 0%nat [] crcs) end.
  cbn [skipn]. destruct (set_folder_crcs fs1 dd crcs) as [fs2|e]; cbn [bind app]; [|exact I].
  destruct (gen_pid bs9) as (pid4 & bs10 & Hs1 & Hs2 & _). rewrite Hs1, Hs2. cbn [bind].
  exact (gen_unpack_tail_nf nf fs2 pid4 bs10).
Qed.


(* ------------------------------------------------------------------ the model's folder list has the announced length *)
Lemma rd_unpacksizes_length : forall fs bs fs' r, rd_unpacksizes fs bs = Ok (fs', r) -> length fs' = length fs.
Proof.
  induction fs as [|f fs IH]; intros bs fs' r; cbn [rd_unpacksizes].
  - intros H. now assert (fs' = []) as -> by congruence.
  - destruct (rd_many _ rd_number bs) as [[sz b1]|e]; cbn [bind]; [|discriminate].
    destruct (rd_unpacksizes fs b1) as [[r' b2]|e] eqn:E; cbn [bind]; [|discriminate].
    intros H. assert (fs' = Header.mkFolder (f_coders f) (f_bonds f) (f_packed f) sz (f_digestdefined f) (f_crc f) :: r') as -> by congruence.
    cbn [length]. f_equal. eapply IH; eassumption.
Qed.

Lemma set_folder_crcs_length : forall fs dd crcs fs', set_folder_crcs fs dd crcs = Ok fs' -> length fs' = length fs.
Proof.
  induction fs as [|f fs IH]; intros dd crcs fs'; cbn [set_folder_crcs].
  - intros H. now assert (fs' = []) as -> by congruence.
  - destruct dd as [|[|] ds]; [discriminate| |].
    + destruct crcs as [|c cs]; [discriminate|]. destruct (set_folder_crcs fs ds cs) as [r'|e] eqn:E; cbn [bind]; [|discriminate].
      intros H. apply Ok_inj in H. subst fs'. cbn [length]. f_equal. eapply IH; eassumption.
    + destruct (set_folder_crcs fs ds crcs) as [r'|e] eqn:E; cbn [bind]; [|discriminate].
      intros H. apply Ok_inj in H. subst fs'. cbn [length]. f_equal. eapply IH; eassumption.
Qed.

Lemma rd_crcs_wf count bs vals r : wf_bytes bs = true -> rd_crcs count bs = Ok (vals, r) -> wf_bytes r = true.
Proof.
  intros Hw. unfold rd_crcs. destruct (count <=? 0).
  - intros H. assert (r = dropZ (4 * count) bs) as -> by congruence. eapply suffix_wf; [apply suffix_dropZ | exact Hw].
  - destruct (zlen bs <? 4 * count); [discriminate|]. unfold rd_many. intros H.
    refine (proj1 (rd_rep_inv (rd_fixed 4) (fun b => wf_bytes b = true) _ _ _ _ _ _ Hw H)).
    intros b x r0 Hb Hr. split; [eapply rd_fixed_wf; eassumption | eapply rd_fixed_progress; [|exact Hr]; lia].
Qed.

Lemma parse_unpackinfo_inv lim bs fs r : wf_bytes bs = true -> parse_unpackinfo lim bs = Ok (fs, r) ->
  zlen fs = nf_of bs /\ wf_bytes r = true.
Proof.
  intros Hw. unfold parse_unpackinfo.
  destruct (gen_pid' bs Hw) as (pid & bs1 & Hp1 & _ & Hw1). rewrite Hp1. cbn [bind].
  rewrite match_pid_11. destruct pid as [p|]; [destruct (p =? 11)|]; try discriminate.
  assert (Hbs : bs = p :: bs1). { destruct bs as [|x t]; cbn [rd_pid] in Hp1; [discriminate|]. congruence. }
  subst bs. change (nf_of (p :: bs1)) with (match rd_number bs1 with Ok (n, _) => n | Err _ => 0 end).
  destruct (rd_number bs1) as [[nf bs2]|e] eqn:E2; cbn [bind]; [|discriminate].
  pose proof (rd_number_wf _ _ _ Hw1 E2) as Hw2. pose proof (rd_number_nonneg _ _ _ Hw1 E2) as Hnf.
  destruct (rd_byte bs2) as [[ext bs3]|e] eqn:E3; cbn [bind]; [|discriminate].
  pose proof (rd_byte_wf _ _ _ Hw2 E3) as Hw3.
  destruct (negb (ext =? 0)); [discriminate|].
  unfold rd_many at 1.
  destruct (rd_rep (S (length bs3)) nf (parse_folder lim) bs3) as [[fs0 bs4]|e] eqn:E4; cbn [bind]; [|discriminate].
  destruct (rd_rep_inv (parse_folder lim) (fun b => wf_bytes b = true) (parse_folder_inv2 lim) _ _ _ _ _ Hw3 E4) as (Hw4 & _ & Hl0).
  destruct (gen_pid' bs4 Hw4) as (pid2 & bs5 & Hq1 & _ & Hw5). rewrite Hq1. cbn [bind].
  rewrite match_pid_12. destruct pid2 as [q|]; [destruct (q =? 12)|]; try discriminate.
  destruct (rd_unpacksizes fs0 bs5) as [[fs1 bs6]|e] eqn:E5; cbn [bind]; [|discriminate].
  pose proof (rd_unpacksizes_length _ _ _ _ E5) as Hl1.
  assert (Hw6 : wf_bytes bs6 = true) by (eapply suffix_wf; [eapply rd_unpacksizes_suffix; eassumption | exact Hw5]).
  destruct (gen_pid' bs6 Hw6) as (pid3 & bs7 & Hr1 & _ & Hw7). rewrite Hr1. cbn [bind].
  rewrite match_pid_10.
  assert (Hfin : forall fs2 pid4 bs8, length fs2 = length fs1 -> wf_bytes bs8 = true ->
            match pid4 with Some 0 => Ok (fs2, bs8) | _ => Err EBad7z end = Ok (fs, r) -> zlen fs = nf /\ wf_bytes r = true).
  { intros fs2 pid4 bs8 Hl2 Hw8. destruct pid4 as [[| |]|]; try discriminate. intros H.
    assert (fs = fs2 /\ r = bs8) as [-> ->] by (split; congruence). split; [|exact Hw8]. unfold zlen in *. lia. }
  destruct pid3 as [r0|]; [destruct (r0 =? 10)|]; cbn [bind].
  2: apply (Hfin fs1 (Some r0) bs7); [reflexivity | exact Hw7].
  2: apply (Hfin fs1 None bs7); [reflexivity | exact Hw7].
  destruct (rd_boolean lim nf true bs7) as [[dd bs8]|e] eqn:Eb; cbn [bind]; [|discriminate].
  pose proof (rd_boolean_wf _ _ _ _ _ _ Hw7 Eb) as Hw8.
  destruct (rd_crcs (count_true dd) bs8) as [[crcs bs9]|e] eqn:Ec; cbn [bind]; [|discriminate].
  pose proof (rd_crcs_wf _ _ _ _ Hw8 Ec) as Hw9.
  destruct (set_folder_crcs fs1 dd crcs) as [fs2|e] eqn:Es; cbn [bind]; [|discriminate].
  destruct (gen_pid' bs9 Hw9) as (pid4 & bs10 & Hs1 & _ & Hw10). rewrite Hs1. cbn [bind].
  apply (Hfin fs2 pid4 bs10); [eapply set_folder_crcs_length; eassumption | exact Hw10].
Qed.

(* what the generated reader returns when it returns: numfolders = len(folders), the model accepted with the same folders,
   and the rest is a byte string *)
Lemma gen_UnpackInfo_retrieve_ok lim bs u r : wf_bytes bs = true -> parse_unpackinfo lim bs <> Err EFuel ->
  UnpackInfo_retrieve bs = Ok (u, r) ->
  parse_unpackinfo lim bs = Ok (map folder_of (UnpackInfo_folders u), r) /\
  UnpackInfo_numfolders u = zlen (UnpackInfo_folders u) /\ wf_bytes r = true.
Proof.
  intros Hw Hne Hu. destruct (gen_UnpackInfo_retrieve_nf_or lim bs Hw) as [Hf|Hs]; [contradiction|].
  rewrite Hu in Hs. cbn [bind] in Hs.
  destruct (parse_unpackinfo lim bs) as [[fs r']|e] eqn:Ep; cbn [bind res_same] in Hs; [|contradiction].
  assert (UnpackInfo_numfolders u = nf_of bs /\ map folder_of (UnpackInfo_folders u) = fs /\ r = r') as (H1 & H2 & H3)
    by (repeat split; congruence).
  subst r'. destruct (parse_unpackinfo_inv lim bs fs r Hw Ep) as [Hz Hwr].
  split; [now rewrite H2|]. split; [|exact Hwr]. rewrite H1, <- Hz, <- H2. unfold zlen. now rewrite map_length.
Qed.

(* ------------------------------------------------------------------ StreamsInfo.read / retrieve = parse_streams *)
Definition streams_of (o : StreamsInfo) : streamsinfo :=
  mkStreams (option_map pack_of (StreamsInfo_packinfo o))
            (option_map (fun u => map folder_of (UnpackInfo_folders u)) (StreamsInfo_unpackinfo o))
            (option_map sub_of (StreamsInfo_substreamsinfo o)).

Definition res_rel {A B} (R : A -> B -> Prop) (a : res A) (b : res B) : Prop :=
  match a, b with Ok x, Ok y => R x y | Err _, Err _ => True | _, _ => False end.

Lemma match_pid_6 {A} (pid : option Z) (a b : A) :
  match pid with Some 6 => a | _ => b end = match pid with Some p => if p =? 6 then a else b | None => b end.
Proof. solve_match_const. Qed.
Lemma match_pid_7 {A} (pid : option Z) (a b : A) :
  match pid with Some 7 => a | _ => b end = match pid with Some p => if p =? 7 then a else b | None => b end.
Proof. solve_match_const. Qed.
Lemma match_pid_8 {A} (pid : option Z) (a b : A) :
  match pid with Some 8 => a | _ => b end = match pid with Some p => if p =? 8 then a else b | None => b end.
Proof. solve_match_const. Qed.

Theorem gen_StreamsInfo_retrieve_model_or lim bs : wf_bytes bs = true ->
  parse_streams lim bs = Err EFuel \/
  res_same (do (o, r) <- StreamsInfo_retrieve bs; Ok (streams_of o, r)) (parse_streams lim bs).
Proof.
  intros Hw. unfold StreamsInfo_retrieve, StreamsInfo_read, StreamsInfo_init, parse_streams.
  cbn [StreamsInfo_packinfo StreamsInfo_unpackinfo StreamsInfo_substreamsinfo]. cbv zeta.
  destruct (gen_pid' bs Hw) as (pid & bs1 & Hp1 & Hp2 & Hw1). rewrite Hp1, Hp2. cbn [bind].
  (* PackInfo *)
  match goal with |- _ \/ res_same _ (bind ?M _) =>
    match goal with |- context[bind (if bytes_eqb (pid_bytes pid) [6] then ?A else ?B)] =>
    assert (H1 : M = Err EFuel \/
       res_rel (fun '(po, pidb, r) '(p, pid2, r') =>
                  p = option_map pack_of po /\ pidb = pid_bytes pid2 /\ r' = r /\ wf_bytes r = true)
               (if bytes_eqb (pid_bytes pid) [6] then A else B) M) end end.
  { rewrite pid_bytes_eqb, !match_pid_6. destruct pid as [p|]; [destruct (p =? 6)|].
    2,3: right; cbn [res_rel option_map]; auto.
    destruct (gen_PackInfo_retrieve_eq_model_or lim bs1 Hw1) as [Hf|He]; [left; now rewrite Hf|]. right.
    rewrite <- He. destruct (PackInfo_retrieve bs1) as [[po r1]|e] eqn:Ep; cbn [bind res_rel]; [|exact I].
    assert (Hwr : wf_bytes r1 = true).
    { cbn [bind] in He. symmetry in He. exact (CostProofs.parse_packinfo_wfp lim _ _ _ He Hw1). }
    destruct (gen_pid' r1 Hwr) as (pid2 & r2 & Hq1 & Hq2 & Hw2). rewrite Hq1, Hq2. cbn [bind res_rel option_map]. auto. }
  destruct H1 as [H1|H1]; [left; now rewrite H1|].
  match goal with |- _ \/ res_same _ (bind ?M _) => destruct M as [[[pk pid2] bs2]|e1] end;
    match goal with |- context[bind (if bytes_eqb (pid_bytes pid) [6] then ?A else ?B)] =>
      destruct (if bytes_eqb (pid_bytes pid) [6] then A else B) as [[[po pidb] r2]|e1'] end;
    cbn [res_rel] in H1; try contradiction; cbn [bind]; [|right; exact I].
  destruct H1 as (-> & -> & -> & Hw2). clear Hp1 Hp2.
  (* UnpackInfo *)
  match goal with |- _ \/ res_same _ (bind ?M _) =>
    match goal with |- context[bind (if bytes_eqb (pid_bytes pid2) [7] then ?A else ?B)] =>
    assert (H2 : M = Err EFuel \/
       res_rel (fun '(uo, pidb, r) '(f, pid3, r') =>
                  f = option_map (fun u => map folder_of (UnpackInfo_folders u)) uo /\
                  (forall u, uo = Some u -> UnpackInfo_numfolders u = zlen (UnpackInfo_folders u)) /\
                  pidb = pid_bytes pid3 /\ r' = r /\ wf_bytes r = true)
               (if bytes_eqb (pid_bytes pid2) [7] then A else B) M) end end.
  { rewrite pid_bytes_eqb, !match_pid_7. destruct pid2 as [p|]; [destruct (p =? 7)|].
    2,3: right; cbn [res_rel option_map]; repeat split; auto; discriminate.
    destruct (parse_unpackinfo lim r2) as [[fs r3]|e] eqn:Eu.
    2: { destruct e; try (right; destruct (gen_UnpackInfo_retrieve_model_or lim r2 Hw2) as [Hf|Hs]; [congruence|];
                          rewrite Eu in Hs; destruct (UnpackInfo_retrieve r2) as [[u r3]|e']; cbn [bind res_same] in Hs;
                          [contradiction | cbn [bind res_rel]; exact I]).
         left. reflexivity. }
    right. destruct (gen_UnpackInfo_retrieve_model_or lim r2 Hw2) as [Hf|Hs]; [congruence|].
    destruct (UnpackInfo_retrieve r2) as [[u r3']|e'] eqn:Eg; rewrite Eu in Hs; cbn [bind res_same] in Hs; [|contradiction].
    destruct (gen_UnpackInfo_retrieve_ok lim r2 u r3' Hw2 ltac:(rewrite Eu; discriminate) Eg) as (Hm & Hnf & Hwr).
    assert (fs = map folder_of (UnpackInfo_folders u) /\ r3 = r3') as [-> ->] by (split; congruence).
    cbn [bind]. destruct (gen_pid' r3' Hwr) as (pid3 & r4 & Hq1 & Hq2 & Hw4). rewrite Hq1, Hq2. cbn [bind res_rel option_map].
    repeat split; auto. intros u' Hu'. assert (u' = u) by congruence. subst u'. exact Hnf. }
  destruct H2 as [H2|H2]; [left; now rewrite H2|].
  match goal with |- _ \/ res_same _ (bind ?M _) => destruct M as [[[fo pid3] bs3]|e2] end;
    match goal with |- context[bind (if bytes_eqb (pid_bytes pid2) [7] then ?A else ?B)] =>
      destruct (if bytes_eqb (pid_bytes pid2) [7] then A else B) as [[[uo pidb] r3]|e2'] end;
    cbn [res_rel] in H2; try contradiction; cbn [bind]; [|right; exact I].
  destruct H2 as (-> & Hnf & -> & -> & Hw3).
  (* SubstreamsInfo *)
  match goal with |- _ \/ res_same _ (bind ?M _) =>
    match goal with |- context[bind (if bytes_eqb (pid_bytes pid3) [8] then ?A else ?B)] =>
    assert (H3 : M = Err EFuel \/
       res_rel (fun '(so, pidb, r) '(s, pid4, r') => s = option_map sub_of so /\ pidb = pid_bytes pid4 /\ r' = r)
               (if bytes_eqb (pid_bytes pid3) [8] then A else B) M) end end.
  { rewrite pid_bytes_eqb, !match_pid_8. destruct pid3 as [p|]; [destruct (p =? 8)|].
    2,3: right; cbn [res_rel option_map]; auto.
    destruct uo as [u|]; cbn [py_is_some negb bind option_map py_unwrap]; [|right; exact I].
    rewrite (Hnf u eq_refl).
    destruct (gen_SubstreamsInfo_retrieve_model_or lim r3 (UnpackInfo_folders u) Hw3) as [Hf|He]; [left; now rewrite Hf|]. right.
    rewrite <- He. destruct (SubstreamsInfo_retrieve r3 _ _) as [[so r4]|e]; cbn [bind res_rel]; [|exact I].
    destruct (gen_pid r4) as (pid4 & r5 & Hq1 & Hq2 & _). rewrite Hq1, Hq2. cbn [bind res_rel option_map]. auto. }
  destruct H3 as [H3|H3]; [left; now rewrite H3|]. right.
  match goal with |- res_same _ (bind ?M _) => destruct M as [[[so pid4] bs4]|e3] end;
    match goal with |- context[bind (if bytes_eqb (pid_bytes pid3) [8] then ?A else ?B)] =>
      destruct (if bytes_eqb (pid_bytes pid3) [8] then A else B) as [[[sg pidb] r4]|e3'] end;
    cbn [res_rel] in H3; try contradiction; cbn [bind]; [|exact I].
  destruct H3 as (-> & -> & ->).
  rewrite pid_bytes_eqb, match_pid_0. destruct pid4 as [p|]; [destruct (p =? 0)|]; cbn [negb bind res_same]; try exact I.
  reflexivity.
Qed.

Theorem gen_StreamsInfo_retrieve_eq_model lim bs s r : wf_bytes bs = true -> parse_streams lim bs = Ok (s, r) ->
  (do (o, r) <- StreamsInfo_retrieve bs; Ok (streams_of o, r)) = Ok (s, r).
Proof.
  intros Hw H. destruct (gen_StreamsInfo_retrieve_model_or lim bs Hw) as [Hf|Hs]; [congruence|].
  rewrite H in Hs. destruct (do (o, r0) <- StreamsInfo_retrieve bs; Ok (streams_of o, r0)) as [x|e];
    cbn [res_same] in Hs; [congruence | contradiction].
Qed.

(* ------------------------------------------------------------------ StreamsInfo.write = write_streams *)
Definition streams_digests (self : StreamsInfo) : bool :=
  match StreamsInfo_packinfo self with Some p => PackInfo_enable_digests p | None => false end.

Theorem gen_StreamsInfo_write_eq_model (self : StreamsInfo) :
  (forall u, StreamsInfo_unpackinfo self = Some u -> UnpackInfo_numfolders u = zlen (UnpackInfo_folders u)) ->
  (do (o, out) <- StreamsInfo_write self; Ok out) = write_streams (streams_digests self) (streams_of self).
Proof.
  destruct self as [po uo so]. unfold StreamsInfo_write, write_streams, streams_of, streams_digests.
  cbn [StreamsInfo_packinfo StreamsInfo_unpackinfo StreamsInfo_substreamsinfo si_pack si_folders si_sub]. cbv zeta.
  intros Hnf. rewrite !gen_write_byte. cbn [bind].
  assert (Htail : forall (out0 a : bytes) (po' : option PackInfo),
    (do x <- (do t9j <- (if py_is_some uo then do t7 <- py_unwrap uo; do t8 <- UnpackInfo_write t7 false; Ok (out0 ++ t8) else Ok out0);
              do t12j <- (if py_is_some so then do t10 <- py_unwrap so; do t11 <- SubstreamsInfo_write t10; Ok (t9j ++ t11)
                          else Ok t9j);
              Ok (mkStreamsInfo po' uo so, t12j ++ [0])); let '(o, out) := x in Ok out)
    = (do b <- match option_map (fun u => map folder_of (UnpackInfo_folders u)) uo with Some f => write_unpackinfo f | None => Ok [] end;
       do c <- match option_map sub_of so with Some x => write_substreams x | None => Ok [] end;
       Ok (out0 ++ b ++ c ++ [0]))).
  { intros out0 a po'.
    destruct uo as [u|]; cbn [py_is_some py_unwrap bind option_map].
    + rewrite gen_UnpackInfo_write_eq_model, (Hnf u eq_refl), Z.eqb_refl.
      destruct (write_unpackinfo (map folder_of (UnpackInfo_folders u))) as [b|e]; cbn [bind]; [|reflexivity].
      destruct so as [s|]; cbn [py_is_some py_unwrap bind option_map].
      * rewrite gen_SubstreamsInfo_write_eq_model. destruct (write_substreams (sub_of s)) as [c|e]; cbn [bind]; [|reflexivity].
        f_equal. rewrite <- ?app_assoc. reflexivity.
      * f_equal. cbn [app]. rewrite <- ?app_assoc. reflexivity.
    + destruct so as [s|]; cbn [py_is_some py_unwrap bind option_map].
      * rewrite gen_SubstreamsInfo_write_eq_model. destruct (write_substreams (sub_of s)) as [c|e]; cbn [bind]; [|reflexivity].
        f_equal. cbn [app]. rewrite <- ?app_assoc. reflexivity.
      * f_equal. }
  destruct po as [p|]; cbn [py_is_some py_unwrap bind option_map].
  - pose proof (gen_PackInfo_write_eq_model p) as Hp.
    destruct (PackInfo_write p) as [[o b]|e]; cbn [bind] in Hp |- *; rewrite <- Hp; cbn [bind]; [|reflexivity].
    etransitivity; [exact (Htail (([] ++ [4]) ++ b) b (Some o))|].
    destruct (match option_map _ uo with Some f => write_unpackinfo f | None => Ok [] end) as [b'|e]; cbn [bind]; [|reflexivity].
    destruct (match option_map sub_of so with Some x => write_substreams x | None => Ok [] end) as [c|e]; cbn [bind]; [|reflexivity].
    f_equal; cbn [app]; rewrite <- ?app_assoc; reflexivity.
  - etransitivity; [exact (Htail ([] ++ [4]) [] None)|].
    destruct (match option_map _ uo with Some f => write_unpackinfo f | None => Ok [] end) as [b'|e]; cbn [bind]; [|reflexivity].
    destruct (match option_map sub_of so with Some x => write_substreams x | None => Ok [] end) as [c|e]; cbn [bind]; reflexivity.
Qed.
