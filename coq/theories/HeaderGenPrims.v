(* HeaderGenPrims.v -- the primitive readers / writers generated from py7zr/archiveinfo.py
   (gen/ArchiveinfoPrims.v, gen/ArchiveinfoRecords.v) are the primitives of the hand model Header.v,
   on ALL inputs (short input and out-of-range values included); and the loop lemmas that turn the
   for_m loops the translator emits into Header.v's rd_many / wr_list. *)
From P7 Require Import Prelude PyPrims PyStr PyTac Number NumberGen BoolVec BoolVecGen Header HeaderPrims.
From P7gen Require Import ArchiveinfoPrims ArchiveinfoRecords.
From Coq Require Import ZifyBool ZifyNat.
Ltac Zify.zify_post_hook ::= Z.to_euclidean_division_equations.
Open Scope Z_scope.

(* ------------------------------------------------------------------ read_uint64 = rd_number *)
Lemma wf_bytes_skipn n bs : wf_bytes bs = true -> wf_bytes (skipn n bs) = true.
Proof.
  revert bs; induction n as [|n IH]; intros bs H; [exact H|].
  destruct bs as [|b r]; [exact H|]. cbn [skipn]. apply IH.
  cbn [wf_bytes forallb] in H. apply andb_true_iff in H. apply H.
Qed.

Theorem gen_read_uint64_rd_number bs : wf_bytes bs = true -> read_uint64 bs = rd_number bs.
Proof.
  intros Hw. destruct bs as [|b r]; [reflexivity|].
  cbn [wf_bytes forallb] in Hw. apply andb_true_iff in Hw as [Hb _]. unfold is_byte in Hb.
  unfold read_uint64, rd_number. rewrite rd_read_nat by lia. cev. cbn [firstn skipn py_ord bind].
  destruct (b =? 255) eqn:E255.
  - unfold read_real_uint64, rd_fixed. rewrite rd_read_nat by lia. cev.
    unfold py_unpack_Q, py_unpack_n. rewrite firstn_length.
    destruct (length r <? 8)%nat eqn:El.
    + apply Nat.ltb_lt in El. replace (Nat.min 8 (length r) =? 8)%nat with false by lia. reflexivity.
    + apply Nat.ltb_ge in El. replace (Nat.min 8 (length r) =? 8)%nat with true by lia. reflexivity.
  - cbn [for_m].
    destruct (b <=? 127) eqn:E0.
    { cbv iota. cbn [bind]. cev. cbv iota.
      assert (Hl : leading_ones b = 0%nat) by (unfold leading_ones; split_ifs; reflexivity).
      rewrite Hl. rewrite (land_ones_lit b 127 7) by (reflexivity || lia).
      num_consts 0%nat. cbn [firstn skipn le_value]. apply ok_pair_eq. lia. }
    cev. destruct (b <=? 191) eqn:E1; [rd_fin b 1%nat 63 6|].
    cev. destruct (b <=? 223) eqn:E2; [rd_fin b 2%nat 31 5|].
    cev. destruct (b <=? 239) eqn:E3; [rd_fin b 3%nat 15 4|].
    cev. destruct (b <=? 247) eqn:E4; [rd_fin b 4%nat 7 3|].
    cev. destruct (b <=? 251) eqn:E5; [rd_fin b 5%nat 3 2|].
    cev. destruct (b <=? 253) eqn:E6; [rd_fin b 6%nat 1 1|].
    cev. destruct (b <=? 254) eqn:E7; [rd_fin b 7%nat 0 0|].
    lia.
Qed.

(* what a reader leaves is a suffix of its input, so byte-ness is kept *)
Lemma rd_number_rest bs v r : rd_number bs = Ok (v, r) -> exists n, r = skipn n bs.
Proof.
  unfold rd_number, rd_fixed. destruct bs as [|b t]; [discriminate|].
  destruct (b =? 255).
  - destruct (length t <? 8)%nat; [discriminate|]. intros H.
    assert (Hr : r = skipn 8 t) by congruence. exists 9%nat. exact Hr.
  - intros H. assert (Hr : r = skipn (leading_ones b) t) by congruence. exists (S (leading_ones b)). exact Hr.
Qed.

Lemma rd_number_progress bs v r : rd_number bs = Ok (v, r) -> (length r < length bs)%nat.
Proof.
  unfold rd_number, rd_fixed. destruct bs as [|b t]; [discriminate|].
  destruct (b =? 255).
  - destruct (length t <? 8)%nat eqn:E; [discriminate|]. intros H.
    assert (Hr : r = skipn 8 t) by congruence. subst r. cbn [length]. rewrite skipn_length. lia.
  - intros H. assert (Hr : r = skipn (leading_ones b) t) by congruence. subst r. cbn [length]. rewrite skipn_length. lia.
Qed.

Lemma rd_number_wf bs v r : wf_bytes bs = true -> rd_number bs = Ok (v, r) -> wf_bytes r = true.
Proof. intros Hw H. apply rd_number_rest in H as [n ->]. now apply wf_bytes_skipn. Qed.

(* ------------------------------------------------------------------ write_uint64 = wr_number, fixed-width fields *)
Theorem gen_write_uint64_wr_number v : write_uint64 v = wr_number v.
Proof.
  unfold wr_number. destruct ((v <? 0) || (2 ^ 64 <=? v)) eqn:E.
  - apply gen_write_uint64_rejects. lia.
  - apply gen_write_uint64_eq. lia.
Qed.

Theorem gen_write_uint32_wr_fixed v : write_uint32 v = wr_fixed 4 v.
Proof.
  unfold write_uint32, wr_fixed, py_pack_L, py_to_bytes_le. cev. cbv iota.
  change (256 ^ Z.of_nat 4) with 4294967296.
  destruct ((v <? 0) || (4294967296 <=? v)); reflexivity.
Qed.

Theorem gen_write_real_uint64_wr_fixed v : write_real_uint64 v = wr_fixed 8 v.
Proof.
  unfold write_real_uint64, wr_fixed, py_pack_Q, py_to_bytes_le. cev. cbv iota.
  change (256 ^ Z.of_nat 8) with 18446744073709551616.
  destruct ((v <? 0) || (18446744073709551616 <=? v)); reflexivity.
Qed.

(* read_uint32 / read_real_uint64 return (value, the bytes read) *)
Theorem gen_read_uint32_rd_fixed bs :
  read_uint32 bs = (do (v, r) <- rd_fixed 4 bs; Ok ((v, firstn 4 bs), r)).
Proof.
  unfold read_uint32, rd_fixed. rewrite rd_read_nat by lia. cev.
  unfold py_unpack_L, py_unpack_n. rewrite firstn_length.
  destruct (length bs <? 4)%nat eqn:El.
  - apply Nat.ltb_lt in El. replace (Nat.min 4 (length bs) =? 4)%nat with false by lia. reflexivity.
  - apply Nat.ltb_ge in El. replace (Nat.min 4 (length bs) =? 4)%nat with true by lia. reflexivity.
Qed.

Theorem gen_read_real_uint64_rd_fixed bs :
  read_real_uint64 bs = (do (v, r) <- rd_fixed 8 bs; Ok ((v, firstn 8 bs), r)).
Proof.
  unfold read_real_uint64, rd_fixed. rewrite rd_read_nat by lia. cev.
  unfold py_unpack_Q, py_unpack_n. rewrite firstn_length.
  destruct (length bs <? 8)%nat eqn:El.
  - apply Nat.ltb_lt in El. replace (Nat.min 8 (length bs) =? 8)%nat with false by lia. reflexivity.
  - apply Nat.ltb_ge in El. replace (Nat.min 8 (length bs) =? 8)%nat with true by lia. reflexivity.
Qed.

Lemma rd_fixed_progress n bs v r : (0 < n)%nat -> rd_fixed n bs = Ok (v, r) -> (length r < length bs)%nat.
Proof.
  intros Hn. unfold rd_fixed. destruct (length bs <? n)%nat eqn:E; [discriminate|].
  intros H. assert (Hr : r = skipn n bs) by congruence. subst r. rewrite skipn_length. lia.
Qed.
Lemma rd_fixed_wf n bs v r : wf_bytes bs = true -> rd_fixed n bs = Ok (v, r) -> wf_bytes r = true.
Proof.
  intros Hw. unfold rd_fixed. destruct (length bs <? n)%nat; [discriminate|].
  intros H. assert (Hr : r = skipn n bs) by congruence. subst r. now apply wf_bytes_skipn.
Qed.

(* ------------------------------------------------------------------ bit fields: the two hand models agree *)
Lemma nbytes_8 n : nbytes (8 + n) = S (nbytes n).
Proof. unfold nbytes. lia. Qed.

Lemma byte_at_shift b0 b1 b2 b3 b4 b5 b6 b7 l k :
  byte_at (b0 :: b1 :: b2 :: b3 :: b4 :: b5 :: b6 :: b7 :: l) (S k) = byte_at l k.
Proof.
  unfold byte_at. f_equal. apply map_ext_in. intros j Hj. f_equal.
  replace (8 * S k + j)%nat with (S (S (S (S (S (S (S (S (8 * k + j))))))))) by lia. reflexivity.
Qed.

Lemma bits_enc_chunk b0 b1 b2 b3 b4 b5 b6 b7 l :
  bits_enc (b0 :: b1 :: b2 :: b3 :: b4 :: b5 :: b6 :: b7 :: l) =
  (2 * (2 * (2 * (2 * (2 * (2 * (2 * (2 * 0 + bv b0) + bv b1) + bv b2) + bv b3) + bv b4) + bv b5) + bv b6) + bv b7)
    :: bits_enc l.
Proof.
  unfold bits_enc. change (length (b0 :: b1 :: b2 :: b3 :: b4 :: b5 :: b6 :: b7 :: l)) with (8 + length l)%nat.
  rewrite nbytes_8. unfold bits_enc_n. cbn [seq map]. f_equal.
  - destruct b0, b1, b2, b3, b4, b5, b6, b7; reflexivity.
  - rewrite <- seq_shift, map_map. apply map_ext. intros k. apply byte_at_shift.
Qed.

Theorem bits_enc_wr_bits l : bits_enc l = wr_bits l.
Proof.
  induction l using list8_ind.
  - do 8 (destruct l as [|? l]; [repeat match goal with b : bool |- _ => destruct b end; reflexivity|]).
    cbn [length] in H. lia.
  - rewrite bits_enc_chunk, wr_bits_chunk, IHl. reflexivity.
Qed.

Theorem gen_write_boolean_wr_boolean l c : write_boolean l c = Ok (wr_boolean l c).
Proof.
  rewrite gen_write_boolean_eq. unfold boolvec_enc, wr_boolean, all_true. rewrite bits_enc_wr_bits. reflexivity.
Qed.

(* ------------------------------------------------------------------ read_boolean = rd_boolean *)
Lemma for_m_app {X St} (xs ys : list X) (body : X -> St -> res (St * bool)) s :
  (forall x st st' b, body x st = Ok (st', b) -> b = false) ->
  for_m (xs ++ ys) body s = (do s' <- for_m xs body s; for_m ys body s').
Proof.
  intros Hnb. revert s. induction xs as [|x xs IH]; intros s; [reflexivity|].
  cbn [app for_m]. destruct (body x s) as [[s' b]|e] eqn:E; [|reflexivity].
  rewrite (Hnb _ _ _ _ E). apply IH.
Qed.

(* a body that ignores the loop variable only sees how many iterations there are *)
Lemma for_m_ignore {X Y St} (xs : list X) (ys : list Y) (f : St -> res (St * bool)) s :
  length xs = length ys -> for_m xs (fun _ => f) s = for_m ys (fun _ => f) s.
Proof.
  revert ys s. induction xs as [|x xs IH]; intros [|y ys] s H; try discriminate; [reflexivity|].
  cbn [for_m]. destruct (f s) as [[s' [|]]|e]; try reflexivity. apply IH. now injection H.
Qed.

Definition rb_step1 : rb_state -> res (rb_state * bool) := rb_body 0.
Lemma rb_body_step i : rb_body i = rb_step1.
Proof. reflexivity. Qed.

Lemma rb_never_breaks x st st' b : rb_body x st = Ok (st', b) -> b = false.
Proof.
  destruct st as [[[result mask] b0] inp]. unfold rb_body.
  destruct (mask =? 0).
  - destruct (rd_read inp 1) as [t2 inp']. destruct (py_ord t2); cbn [bind]; intros H; congruence.
  - intros H; congruence.
Qed.

(* one byte: k <= 8 iterations starting on a byte boundary *)
Lemma rb_block (k : nat) (xs : list Z) result b0 b r : length xs = k -> (1 <= k <= 8)%nat -> is_byte b = true ->
  exists mask, for_m xs rb_body (result, 0, b0, b :: r) = Ok (result ++ bits_of_byte b k, mask, b, r)
               /\ (k = 8%nat -> mask = 0).
Proof.
  intros Hl Hk Hb.
  rewrite (for_m_ignore xs (repeat tt k) rb_step1) by (rewrite repeat_length; exact Hl).
  assert (Ht : forall j, 0 <= j -> negb (Z.land b (2 ^ j) =? 0) = Z.testbit b j) by (intros; now apply land_pow2_testbit).
  pose proof (Ht 7 ltac:(lia)) as H7; pose proof (Ht 6 ltac:(lia)) as H6; pose proof (Ht 5 ltac:(lia)) as H5;
  pose proof (Ht 4 ltac:(lia)) as H4; pose proof (Ht 3 ltac:(lia)) as H3; pose proof (Ht 2 ltac:(lia)) as H2;
  pose proof (Ht 1 ltac:(lia)) as H1; pose proof (Ht 0 ltac:(lia)) as H0.
  change (2 ^ 7) with 128 in H7; change (2 ^ 6) with 64 in H6; change (2 ^ 5) with 32 in H5; change (2 ^ 4) with 16 in H4;
  change (2 ^ 3) with 8 in H3; change (2 ^ 2) with 4 in H2; change (2 ^ 1) with 2 in H1; change (2 ^ 0) with 1 in H0.
  destruct k as [|k]; [lia|].
  do 8 (destruct k as [|k]; [eexists; split;
        [repeat (progress (cbn [repeat for_m rb_step1 rb_body bind firstn skipn py_ord]; unfold rd_read; cev; cbv iota));
         rewrite ?H7, ?H6, ?H5, ?H4, ?H3, ?H2, ?H1, ?H0; cbn [bits_of_byte app]; cev;
         rewrite <- ?app_assoc; cbn [app]; reflexivity
        | intros; first [reflexivity | lia]]|]).
  lia.
Qed.

Definition rb_proj (s : res rb_state) : res (list bool * bytes) :=
  do st <- s; let '(result, mask, b, inp) := st in Ok (result, inp).

Lemma firstn_skipn_len {A} (l : list A) k : (k <= length l)%nat -> length (firstn k l) = k /\ length (skipn k l) = (length l - k)%nat.
Proof. intros H. rewrite firstn_length, skipn_length. lia. Qed.

Lemma rb_loop_all : forall (f n : nat) (xs : list Z) result b0 bs,
  length xs = n -> (length bs < f)%nat -> wf_bytes bs = true ->
  rb_proj (for_m xs rb_body (result, 0, b0, bs)) = (do (l, r) <- rd_bits_fuel f (Z.of_nat n) bs; Ok (result ++ l, r)).
Proof.
  induction f as [|f IH]; intros n xs result b0 bs Hl Hf Hw; [lia|].
  destruct n as [|n].
  - destruct xs; [|discriminate]. cbn [for_m rb_proj bind rd_bits_fuel]. change (Z.of_nat 0 <=? 0) with true.
    cbv iota. cbn [bind]. now rewrite app_nil_r.
  - cbn [rd_bits_fuel]. destruct (Z.of_nat (S n) <=? 0) eqn:E0; [lia|].
    destruct bs as [|b r].
    + destruct xs as [|x xs]; [discriminate|]. reflexivity.
    + cbn [wf_bytes forallb] in Hw. apply andb_true_iff in Hw as [Hb Hw]. cbn [length] in Hf.
      destruct (Z.of_nat (S n) <? 8) eqn:E8.
      * destruct (rb_block (S n) xs result b0 b r Hl ltac:(lia) Hb) as [mask [Hm _]].
        rewrite Hm. cbn [rb_proj bind]. now rewrite Nat2Z.id.
      * assert (Hx : xs = firstn 8 xs ++ skipn 8 xs) by (symmetry; apply firstn_skipn).
        destruct (firstn_skipn_len xs 8 ltac:(lia)) as [H8 Hrest].
        rewrite Hx, for_m_app by apply rb_never_breaks.
        destruct (rb_block 8 (firstn 8 xs) result b0 b r H8 ltac:(lia) Hb) as [mask [Hm Hz]].
        rewrite Hm, (Hz eq_refl). cbn [bind].
        rewrite (IH (S n - 8)%nat (skipn 8 xs) (result ++ bits_of_byte b 8) b r) by (try assumption; lia).
        replace (Z.of_nat (S n - 8)) with (Z.of_nat (S n) - 8) by lia.
        destruct (rd_bits_fuel f (Z.of_nat (S n) - 8) r) as [[l r']|e]; cbn [bind]; [|reflexivity].
        now rewrite app_assoc.
Qed.

Lemma gen_rb_loop count bs : wf_bytes bs = true ->
  rb_proj (for_m (py_range 0 count) rb_body ([], 0, 0, bs)) = rd_bits count bs.
Proof.
  intros Hw. unfold rd_bits.
  destruct (Z.leb_spec count 0) as [Hc|Hc].
  - unfold py_range. replace (Z.to_nat (count - 0)) with O by lia. cbn [range_from for_m rb_proj bind].
    destruct bs; cbn [rd_bits_fuel length]; destruct (count <=? 0) eqn:E; try lia; reflexivity.
  - rewrite (rb_loop_all (S (length bs)) (Z.to_nat count)) by (try assumption; try lia; unfold py_range; rewrite range_from_length; lia).
    rewrite Z2Nat.id by lia. destruct (rd_bits_fuel (S (length bs)) count bs) as [[l r]|e]; reflexivity.
Qed.

Lemma rd_bits_no_fuel count bs : rd_bits count bs <> Err EFuel.
Proof.
  unfold rd_bits. generalize (S (length bs)) as f. revert count bs.
  intros count bs f. revert count bs. induction f as [|f IH]; intros count bs; cbn [rd_bits_fuel].
  - destruct (count <=? 0); discriminate.
  - destruct (count <=? 0); [discriminate|]. destruct bs as [|b r]; [discriminate|].
    destruct (count <? 8); [discriminate|]. specialize (IH (count - 8) r).
    destruct (rd_bits_fuel f (count - 8) r) as [[l r']|e]; cbn [bind]; [discriminate|]. congruence.
Qed.

Theorem gen_read_boolean_rd_boolean lim count c bs : wf_bytes bs = true ->
  rd_boolean lim count c bs <> Err EFuel -> read_boolean bs count c = rd_boolean lim count c bs.
Proof.
  intros Hw Hne. unfold read_boolean, rd_boolean in *. destruct c.
  - destruct bs as [|b r].
    + unfold rd_read. cev. cbv iota. cbn [firstn skipn bytes_eqb negb].
      destruct (lim <? count); [congruence | reflexivity].
    + unfold rd_read. cev. cbv iota. cbn [firstn skipn bytes_eqb]. rewrite andb_true_r.
      cbn [wf_bytes forallb] in Hw. apply andb_true_iff in Hw as [_ Hw].
      destruct b as [|p|p]; cbn [Z.eqb negb]; cbv iota.
      * pose proof (gen_rb_loop count r Hw) as Hl. unfold rb_proj in Hl. cbv zeta. exact Hl.
      * destruct (lim <? count); [congruence | reflexivity].
      * destruct (lim <? count); [congruence | reflexivity].
  - pose proof (gen_rb_loop count bs Hw) as Hl. unfold rb_proj in Hl. cbv zeta. exact Hl.
Qed.

Lemma rd_bits_rest : forall f count bs l r, rd_bits_fuel f count bs = Ok (l, r) -> exists n, r = skipn n bs.
Proof.
  induction f as [|f IH]; intros count bs l r; cbn [rd_bits_fuel].
  - destruct (count <=? 0); [|discriminate]. intros H. exists 0%nat. cbn [skipn]. congruence.
  - destruct (count <=? 0). { intros H. exists 0%nat. cbn [skipn]. congruence. }
    destruct bs as [|b t]; [discriminate|]. destruct (count <? 8).
    + intros H. exists 1%nat. cbn [skipn]. congruence.
    + destruct (rd_bits_fuel f (count - 8) t) as [[l' r']|e] eqn:E; cbn [bind]; [|discriminate].
      intros H. destruct (IH _ _ _ _ E) as [n Hn]. exists (S n). cbn [skipn]. congruence.
Qed.

Lemma rd_boolean_wf lim count c bs l r : wf_bytes bs = true -> rd_boolean lim count c bs = Ok (l, r) -> wf_bytes r = true.
Proof.
  intros Hw. unfold rd_boolean, rd_bits. destruct c.
  - destruct bs as [|b t].
    + destruct (lim <? count); [discriminate|]. intros H. assert (r = []) by congruence. subst. reflexivity.
    + cbn [wf_bytes forallb] in Hw. apply andb_true_iff in Hw as [_ Hw].
      destruct b as [|p|p].
      * intros H. apply rd_bits_rest in H as [n ->]. now apply wf_bytes_skipn.
      * destruct (lim <? count); [discriminate|]. intros H. assert (r = t) by congruence. now subst.
      * destruct (lim <? count); [discriminate|]. intros H. assert (r = t) by congruence. now subst.
  - intros H. apply rd_bits_rest in H as [n ->]. now apply wf_bytes_skipn.
Qed.

(* ------------------------------------------------------------------ loops emitted by the translator *)
(* [g(file) for _ in xs]: n-fold repetition of a reader that consumes input whenever it succeeds *)
Lemma gen_read_loop {A} (g rd : reader A) (P : bytes -> Prop) :
  (forall bs, P bs -> g bs = rd bs) ->
  (forall bs x r, P bs -> rd bs = Ok (x, r) -> P r /\ (length r < length bs)%nat) ->
  forall (xs : list Z) acc bs f, P bs -> (length bs < f)%nat ->
  for_m xs (fun _ '(acc, inp) => do t <- g inp; let '(v, inp) := t in Ok ((acc ++ [v], inp), false)) (acc, bs)
  = (do (l, r) <- rd_rep f (Z.of_nat (length xs)) rd bs; Ok (acc ++ l, r)).
Proof.
  intros Hg Hp xs. induction xs as [|x xs IH]; intros acc bs f HP Hf.
  - cbn [for_m length]. destruct f as [|f]; [lia|]. cbn [rd_rep]. change (Z.of_nat 0 <=? 0) with true. cbv iota.
    cbn [bind]. now rewrite app_nil_r.
  - destruct f as [|f]; [lia|]. cbn [for_m rd_rep length]. destruct (Z.of_nat (S (length xs)) <=? 0) eqn:E0; [lia|].
    rewrite (Hg bs HP). destruct (rd bs) as [[v r]|e] eqn:Er; cbn [bind]; [|reflexivity].
    destruct (Hp _ _ _ HP Er) as [HPr Hlen].
    rewrite (IH (acc ++ [v]) r f HPr ltac:(lia)).
    replace (Z.of_nat (S (length xs)) - 1) with (Z.of_nat (length xs)) by lia.
    destruct (rd_rep f (Z.of_nat (length xs)) rd r) as [[l r']|e]; cbn [bind]; [|reflexivity].
    now rewrite <- app_assoc.
Qed.

Lemma rd_rep_nonpos {A} f n (rd : reader A) bs : n <= 0 -> rd_rep f n rd bs = Ok ([], bs).
Proof. intros H. destruct f; cbn [rd_rep]; destruct (n <=? 0) eqn:E; try lia; reflexivity. Qed.

Lemma gen_read_many {A} (g rd : reader A) (P : bytes -> Prop) :
  (forall bs, P bs -> g bs = rd bs) ->
  (forall bs x r, P bs -> rd bs = Ok (x, r) -> P r /\ (length r < length bs)%nat) ->
  forall n bs, P bs ->
  for_m (py_range 0 n) (fun _ '(acc, inp) => do t <- g inp; let '(v, inp) := t in Ok ((acc ++ [v], inp), false)) ([], bs)
  = rd_many n rd bs.
Proof.
  intros Hg Hp n bs HP. rewrite (gen_read_loop g rd P Hg Hp _ _ _ (S (length bs)) HP ltac:(lia)).
  unfold rd_many, py_range. rewrite range_from_length.
  destruct (Z.leb_spec n 0) as [Hn|Hn].
  - replace (Z.to_nat (n - 0)) with O by lia. rewrite !rd_rep_nonpos by lia. reflexivity.
  - rewrite Z2Nat.id by lia. rewrite Z.sub_0_r.
    destruct (rd_rep (S (length bs)) n rd bs) as [[l r]|e]; reflexivity.
Qed.

(* rd_many of progressing readers: the rest is wf / shorter *)
Lemma rd_rep_inv {A} (rd : reader A) (P : bytes -> Prop) :
  (forall bs x r, P bs -> rd bs = Ok (x, r) -> P r /\ (length r < length bs)%nat) ->
  forall f n bs l r, P bs -> rd_rep f n rd bs = Ok (l, r) -> P r /\ (length r <= length bs)%nat /\ zlen l = Z.max n 0.
Proof.
  intros Hp. induction f as [|f IH]; intros n bs l r HP; cbn [rd_rep].
  - destruct (n <=? 0) eqn:E; [|discriminate]. intros H. assert (l = [] /\ r = bs) as [-> ->] by (split; congruence).
    unfold zlen. cbn [length]. repeat split; [assumption | lia | lia].
  - destruct (n <=? 0) eqn:E.
    { intros H. assert (l = [] /\ r = bs) as [-> ->] by (split; congruence).
      unfold zlen. cbn [length]. repeat split; [assumption | lia | lia]. }
    destruct (rd bs) as [[x r1]|e] eqn:Er; cbn [bind]; [|discriminate].
    destruct (Hp _ _ _ HP Er) as [HP1 Hl1].
    destruct (rd_rep f (n - 1) rd r1) as [[xs r2]|e] eqn:Err; cbn [bind]; [|discriminate].
    intros H. assert (l = x :: xs /\ r = r2) as [-> ->] by (split; congruence).
    destruct (IH _ _ _ _ HP1 Err) as (HP2 & Hl2 & Hz).
    repeat split; [assumption | lia |]. unfold zlen in *. cbn [length]. lia.
Qed.

(* for x in l: write(file, x) *)
Lemma gen_write_loop {A} (W w : A -> res bytes) :
  (forall x, W x = w x) ->
  forall (l : list A) out,
  for_m l (fun x out => do t <- W x; let out := out ++ t in Ok (out, false)) out
  = (do b <- wr_list w l; Ok (out ++ b)).
Proof.
  intros HW l. induction l as [|x l IH]; intros out.
  - cbn [for_m wr_list bind]. now rewrite app_nil_r.
  - cbn [for_m wr_list]. rewrite HW. destruct (w x) as [a|e]; cbn [bind]; [|reflexivity].
    rewrite IH. destruct (wr_list w l) as [b|e]; cbn [bind]; [|reflexivity]. now rewrite app_assoc.
Qed.

(* reduce(or_, l, init) *)
Lemma py_any_any_true l init : py_any init l = init || any_true l.
Proof.
  unfold py_any, any_true. revert init. induction l as [|b l IH]; intros init; cbn [fold_left existsb].
  - now rewrite orb_false_r.
  - rewrite IH. now rewrite orb_assoc.
Qed.

(* `match pid with Some k => a | _ => b end` on a property id read from the file *)
Ltac solve_match_const :=
  intros; match goal with p : option Z |- _ => destruct p as [[|q|q]|] end; try reflexivity;
  repeat (match goal with q : positive |- _ => destruct q as [q|q|] end; try reflexivity).
Lemma match_pid_0 {A} (pid : option Z) (a b : A) :
  match pid with Some 0 => a | _ => b end = match pid with Some p => if p =? 0 then a else b | None => b end.
Proof. solve_match_const. Qed.
Lemma match_pid_9 {A} (pid : option Z) (a b : A) :
  match pid with Some 9 => a | _ => b end = match pid with Some p => if p =? 9 then a else b | None => b end.
Proof. solve_match_const. Qed.
Lemma match_pid_10 {A} (pid : option Z) (a b : A) :
  match pid with Some 10 => a | _ => b end = match pid with Some p => if p =? 10 then a else b | None => b end.
Proof. solve_match_const. Qed.

(* pid = file.read(1) and the comparisons pid == PROPERTY.X *)
Lemma gen_rd_pid bs : rd_read bs 1 = (match bs with [] => [] | b :: _ => [b] end, match bs with [] => [] | _ :: r => r end).
Proof. destruct bs; reflexivity. Qed.

(* the general form: a loop whose body is "read one item with rd, update the rest of the state with it" *)
Lemma gen_fold_loop {A St X} (rd : reader A) (upd : St -> A -> St) (P : bytes -> Prop)
      (body : X -> St * bytes -> res ((St * bytes) * bool)) :
  (forall x s bs, P bs -> body x (s, bs) = match rd bs with Ok (v, r) => Ok ((upd s v, r), false) | Err e => Err e end) ->
  (forall bs v r, P bs -> rd bs = Ok (v, r) -> P r /\ (length r < length bs)%nat) ->
  forall (xs : list X) s bs f, P bs -> (length bs < f)%nat ->
  for_m xs body (s, bs) = (do (l, r) <- rd_rep f (Z.of_nat (length xs)) rd bs; Ok (fold_left upd l s, r)).
Proof.
  intros Hb Hp xs. induction xs as [|x xs IH]; intros s bs f HP Hf.
  - cbn [for_m length]. rewrite rd_rep_nonpos by reflexivity. reflexivity.
  - destruct f as [|f]; [lia|]. cbn [for_m rd_rep length]. destruct (Z.of_nat (S (length xs)) <=? 0) eqn:E0; [lia|].
    rewrite (Hb x s bs HP). destruct (rd bs) as [[v r]|e] eqn:Er; cbn [bind]; [|reflexivity].
    destruct (Hp _ _ _ HP Er) as [HPr Hlen].
    rewrite (IH (upd s v) r f HPr ltac:(lia)).
    replace (Z.of_nat (S (length xs)) - 1) with (Z.of_nat (length xs)) by lia.
    destruct (rd_rep f (Z.of_nat (length xs)) rd r) as [[l r']|e]; reflexivity.
Qed.

Lemma gen_fold_many {A St} (rd : reader A) (upd : St -> A -> St) (P : bytes -> Prop)
      (body : Z -> St * bytes -> res ((St * bytes) * bool)) :
  (forall x s bs, P bs -> body x (s, bs) = match rd bs with Ok (v, r) => Ok ((upd s v, r), false) | Err e => Err e end) ->
  (forall bs v r, P bs -> rd bs = Ok (v, r) -> P r /\ (length r < length bs)%nat) ->
  forall n s bs, P bs ->
  for_m (py_range 0 n) body (s, bs) = (do (l, r) <- rd_many n rd bs; Ok (fold_left upd l s, r)).
Proof.
  intros Hb Hp n s bs HP. rewrite (gen_fold_loop rd upd P body Hb Hp _ _ _ (S (length bs)) HP ltac:(lia)).
  unfold rd_many, py_range. rewrite range_from_length.
  destruct (Z.leb_spec n 0) as [Hn|Hn].
  - replace (Z.to_nat (n - 0)) with O by lia. rewrite !rd_rep_nonpos by lia. reflexivity.
  - rewrite Z2Nat.id by lia. rewrite Z.sub_0_r. reflexivity.
Qed.

Lemma fold_left_snoc_map {A B} (conv : A -> B) (l : list A) acc :
  fold_left (fun a v => a ++ [conv v]) l acc = acc ++ map conv l.
Proof.
  revert acc. induction l as [|x l IH]; intros acc; cbn [fold_left map]; [now rewrite app_nil_r|].
  rewrite IH, <- app_assoc. reflexivity.
Qed.

(* results equal up to the class of the error *)
Definition res_same {A} (a b : res A) : Prop :=
  match a, b with Ok x, Ok y => x = y | Err _, Err _ => True | _, _ => False end.
Lemma res_same_refl {A} (a : res A) : res_same a a.
Proof. destruct a; cbn; auto. Qed.
Lemma res_same_eq {A} (a b : res A) : a = b -> res_same a b.
Proof. intros ->. apply res_same_refl. Qed.

Lemma rd_number_nonneg bs v r : wf_bytes bs = true -> rd_number bs = Ok (v, r) -> 0 <= v.
Proof.
  intros Hw. unfold rd_number, rd_fixed. destruct bs as [|b t]; [discriminate|].
  cbn [wf_bytes forallb] in Hw. apply andb_true_iff in Hw as [Hb Hw]. unfold is_byte in Hb.
  assert (Hwf : forall k l, wf_bytes l = true -> wf_bytes (firstn k l) = true).
  { induction k as [|k IHk]; intros l Hl; [reflexivity|]. destruct l as [|x l]; [reflexivity|].
    cbn [firstn wf_bytes forallb] in *. apply andb_true_iff in Hl as [H1 H2]. rewrite H1. exact (IHk l H2). }
  assert (Hle : forall k, 0 <= le_value (firstn k t)).
  { intros k. apply le_value_bound. now apply Hwf. }
  destruct (b =? 255).
  - destruct (length t <? 8)%nat; [discriminate|]. intros H. assert (v = le_value (firstn 8 t)) by congruence. subst. apply Hle.
  - intros H. injection H as <- _. specialize (Hle (leading_ones b)).
    assert (0 <= (if (leading_ones b <? 7)%nat then b mod 2 ^ (7 - Z.of_nat (leading_ones b)) else 0)).
    { destruct (leading_ones b <? 7)%nat eqn:E7; [|lia]. apply Z.mod_pos_bound. apply Z.pow_pos_nonneg; lia. }
    assert (0 <= 256 ^ Z.of_nat (leading_ones b)) by (apply Z.pow_nonneg; lia).
    apply Z.add_nonneg_nonneg; [apply Z.mul_nonneg_nonneg|]; assumption.
Qed.

(* ------------------------------------------------------------------ what readers leave: suffixes of the input *)
Definition suffix (r bs : bytes) : Prop := exists n, r = skipn n bs.
Lemma skipn_add {A} (l : list A) : forall a b, skipn a (skipn b l) = skipn (b + a) l.
Proof.
  intros a b. revert l. induction b as [|b IH]; intros l; [reflexivity|].
  destruct l as [|x l]; [now rewrite !skipn_nil|]. cbn [skipn plus]. apply IH.
Qed.
Lemma suffix_refl bs : suffix bs bs.
Proof. exists 0%nat. reflexivity. Qed.
Lemma suffix_trans a b c : suffix a b -> suffix b c -> suffix a c.
Proof. intros [n ->] [m ->]. exists (m + n)%nat. apply skipn_add. Qed.
Lemma suffix_wf r bs : suffix r bs -> wf_bytes bs = true -> wf_bytes r = true.
Proof. intros [n ->]. apply wf_bytes_skipn. Qed.
Lemma suffix_len r bs : suffix r bs -> (length r <= length bs)%nat.
Proof. intros [n ->]. rewrite skipn_length. lia. Qed.
Lemma suffix_cons b r t : suffix r t -> suffix r (b :: t).
Proof. intros [n ->]. exists (S n). reflexivity. Qed.
Lemma suffix_dropZ n bs : suffix (dropZ n bs) bs.
Proof. unfold dropZ. eexists. reflexivity. Qed.
Lemma rd_number_suffix bs v r : rd_number bs = Ok (v, r) -> suffix r bs.
Proof. intros H. apply rd_number_rest in H as [n ->]. exists n. reflexivity. Qed.

Lemma takeZ_firstn {A} (l : list A) n : 0 <= n -> takeZ n l = firstn (Z.to_nat n) l.
Proof.
  intros Hn. unfold takeZ, zlen. destruct (Z.le_ge_cases n (Z.of_nat (length l))).
  - f_equal. lia.
  - replace (Z.to_nat (Z.min (Z.max n 0) (Z.of_nat (length l)))) with (length l) by lia.
    rewrite firstn_all. symmetry. apply firstn_all2. lia.
Qed.
Lemma dropZ_skipn {A} (l : list A) n : 0 <= n -> dropZ n l = skipn (Z.to_nat n) l.
Proof.
  intros Hn. unfold dropZ, zlen. destruct (Z.le_ge_cases n (Z.of_nat (length l))).
  - f_equal. lia.
  - replace (Z.to_nat (Z.min (Z.max n 0) (Z.of_nat (length l)))) with (length l) by lia.
    rewrite skipn_all. symmetry. apply skipn_all2. lia.
Qed.
Lemma gen_rd_read_bytes bs n : 0 <= n -> rd_read bs n = (takeZ n bs, dropZ n bs).
Proof. intros Hn. rewrite rd_read_nat, takeZ_firstn, dropZ_skipn by lia. reflexivity. Qed.

Theorem gen_write_crcs_wr_list crcs : write_crcs crcs = wr_list (wr_fixed 4) crcs.
Proof.
  unfold write_crcs. rewrite (gen_write_loop write_uint32 (wr_fixed 4) gen_write_uint32_wr_fixed).
  destruct (wr_list (wr_fixed 4) crcs); reflexivity.
Qed.

(* ------------------------------------------------------------------ fuel-free repetition *)
Fixpoint rd_n {A} (k : nat) (rd : reader A) : reader (list A) := fun bs =>
  match k with
  | O => Ok ([], bs)
  | S k' => do (x, r) <- rd bs; do (xs, r') <- rd_n k' rd r; Ok (x :: xs, r')
  end.

Lemma rd_rep_rd_n {A} (rd : reader A) (P : bytes -> Prop) :
  (forall bs v r, P bs -> rd bs = Ok (v, r) -> P r /\ (length r < length bs)%nat) ->
  forall f n bs, P bs -> (length bs < f)%nat -> rd_rep f n rd bs = rd_n (Z.to_nat n) rd bs.
Proof.
  intros Hp. induction f as [|f IH]; intros n bs HP Hf; [lia|]. cbn [rd_rep].
  destruct (n <=? 0) eqn:E0.
  - replace (Z.to_nat n) with O by lia. reflexivity.
  - replace (Z.to_nat n) with (S (Z.to_nat (n - 1))) by lia. cbn [rd_n].
    destruct (rd bs) as [[x r]|e] eqn:Er; cbn [bind]; [|reflexivity].
    destruct (Hp _ _ _ HP Er) as [HPr Hl]. now rewrite IH by (try assumption; lia).
Qed.

Lemma rd_many_rd_n {A} (rd : reader A) (P : bytes -> Prop) :
  (forall bs v r, P bs -> rd bs = Ok (v, r) -> P r /\ (length r < length bs)%nat) ->
  forall n bs, P bs -> rd_many n rd bs = rd_n (Z.to_nat n) rd bs.
Proof. intros Hp n bs HP. unfold rd_many. apply (rd_rep_rd_n rd P Hp); [exact HP | lia]. Qed.

Lemma rd_n_app {A} (rd : reader A) a : forall b bs,
  rd_n (a + b) rd bs = (do (l1, r1) <- rd_n a rd bs; do (l2, r2) <- rd_n b rd r1; Ok (l1 ++ l2, r2)).
Proof.
  induction a as [|a IH]; intros b bs; cbn [plus rd_n bind].
  - destruct (rd_n b rd bs) as [[l r]|e]; reflexivity.
  - destruct (rd bs) as [[x r]|e]; cbn [bind]; [|reflexivity]. rewrite IH.
    destruct (rd_n a rd r) as [[l1 r1]|e]; cbn [bind]; [|reflexivity].
    destruct (rd_n b rd r1) as [[l2 r2]|e]; reflexivity.
Qed.

Lemma rd_n_inv {A} (rd : reader A) (P : bytes -> Prop) :
  (forall bs v r, P bs -> rd bs = Ok (v, r) -> P r /\ (length r < length bs)%nat) ->
  forall k bs l r, P bs -> rd_n k rd bs = Ok (l, r) -> P r /\ length l = k.
Proof.
  intros Hp. induction k as [|k IH]; intros bs l r HP; cbn [rd_n].
  - intros H. assert (l = [] /\ r = bs) as [-> ->] by (split; congruence). auto.
  - destruct (rd bs) as [[x r1]|e] eqn:Er; cbn [bind]; [|discriminate].
    destruct (rd_n k rd r1) as [[xs r2]|e] eqn:En; cbn [bind]; [|discriminate].
    intros H. assert (l = x :: xs /\ r = r2) as [-> ->] by (split; congruence).
    destruct (Hp _ _ _ HP Er) as [HP1 _]. destruct (IH _ _ _ HP1 En) as [HP2 Hl]. cbn [length]. auto.
Qed.

(* a loop whose body reads one item (with a reader that may hit the model's resource guard) and updates the state *)
Lemma gen_fold_loop_or {A St X} (rd : reader A) (upd : St -> A -> St) (P : bytes -> Prop)
      (body : X -> St * bytes -> res ((St * bytes) * bool)) :
  (forall x s bs, P bs -> rd bs = Err EFuel \/
                          body x (s, bs) = match rd bs with Ok (v, r) => Ok ((upd s v, r), false) | Err e => Err e end) ->
  (forall bs v r, P bs -> rd bs = Ok (v, r) -> P r /\ (length r < length bs)%nat) ->
  forall (xs : list X) s bs, P bs ->
  rd_n (length xs) rd bs = Err EFuel \/
  for_m xs body (s, bs) = (do (l, r) <- rd_n (length xs) rd bs; Ok (fold_left upd l s, r)).
Proof.
  intros Hb Hp xs. induction xs as [|x xs IH]; intros s bs HP.
  - right. reflexivity.
  - cbn [for_m rd_n length]. destruct (Hb x s bs HP) as [Hf|Hs]; [left; now rewrite Hf|].
    rewrite Hs. destruct (rd bs) as [[v r]|e] eqn:Er; cbn [bind]; [|right; reflexivity].
    destruct (Hp _ _ _ HP Er) as [HPr _]. destruct (IH (upd s v) r HPr) as [Hf|Hi].
    + left. now rewrite Hf.
    + right. rewrite Hi. destruct (rd_n (length xs) rd r) as [[l r']|e]; reflexivity.
Qed.

Lemma gen_fold_loop_n {A St X} (rd : reader A) (upd : St -> A -> St) (P : bytes -> Prop)
      (body : X -> St * bytes -> res ((St * bytes) * bool)) :
  (forall x s bs, P bs -> body x (s, bs) = match rd bs with Ok (v, r) => Ok ((upd s v, r), false) | Err e => Err e end) ->
  (forall bs v r, P bs -> rd bs = Ok (v, r) -> P r /\ (length r < length bs)%nat) ->
  forall (xs : list X) s bs, P bs ->
  for_m xs body (s, bs) = (do (l, r) <- rd_n (length xs) rd bs; Ok (fold_left upd l s, r)).
Proof.
  intros Hb Hp xs. induction xs as [|x xs IH]; intros s bs HP; [reflexivity|].
  cbn [for_m rd_n length]. rewrite (Hb x s bs HP). destruct (rd bs) as [[v r]|e] eqn:Er; cbn [bind]; [|reflexivity].
  destruct (Hp _ _ _ HP Er) as [HPr _]. rewrite (IH (upd s v) r HPr).
  destruct (rd_n (length xs) rd r) as [[l r']|e]; reflexivity.
Qed.

Lemma py_range_length a b : length (py_range a b) = Z.to_nat (b - a).
Proof. unfold py_range. apply range_from_length. Qed.
