(* SubstreamsGen.v -- SubstreamsInfo._read / retrieve / _inherit_folder_digests / default / write and the Folder methods they
   call (get_unpack_size, _find_out_bin_pair), as generated from py7zr/archiveinfo.py (gen/ArchiveinfoRecords.v), are
   Header.v's parse_substreams / default_digests / write_substreams / folder_unpack_size. *)
From P7 Require Import Prelude PyPrims PyStr PyRe PyTac Number NumberGen BoolVec BoolVecGen Header HeaderPrims HeaderGenPrims
  PackInfoGen FolderGen.
From P7gen Require Import ArchiveinfoPrims ArchiveinfoRecords.
From Coq Require Import ZifyBool ZifyNat.
Open Scope Z_scope.
Ltac zlia := first [lia | exfalso; lia].

Definition sub_of (o : SubstreamsInfo) : substreams :=
  mkSub (SubstreamsInfo_num_unpackstreams_folders o) (SubstreamsInfo_unpacksizes o) (SubstreamsInfo_digestsdefined o)
        (SubstreamsInfo_digests o).

(* ------------------------------------------------------------------ Folder._find_out_bin_pair, get_unpack_size *)
Lemma gen_find_out_loop (index : Z) (body : Z * Bond -> option Z -> res (option Z * bool)) :
  (forall idx bond rv, body (idx, bond) rv = if Bond_outcoder bond =? index then Ok (Some idx, true) else Ok (rv, false)) ->
  forall (bs : list Bond) (k : Z), 0 <= k ->
  exists r, for_m (enumerate_from k bs) body None = Ok r /\
            (match r with Some i => 0 <= i | None => True end) /\
            (match r with Some _ => true | None => false end) = existsb (fun p => snd p =? index) (map bond_of bs).
Proof.
  intros Hb bs. induction bs as [|b bs IH]; intros k Hk.
  - exists None. repeat split.
  - cbn [enumerate_from for_m map existsb bond_of snd]. rewrite Hb.
    destruct (Bond_outcoder b =? index) eqn:E.
    + exists (Some k). repeat split; assumption.
    + destruct (IH (k + 1) ltac:(lia)) as (r & H1 & H2 & H3). exists r. auto.
Qed.

Lemma gen_find_out_bin_pair (g : Folder) (index : Z) :
  exists r, Folder_find_out_bin_pair g index = Ok r /\ (r <? 0) = negb (find_out_bond (f_bonds (folder_of g)) index).
Proof.
  unfold Folder_find_out_bin_pair. cbv zeta.
  match goal with |- context[for_m _ ?b _] =>
    destruct (gen_find_out_loop index b ltac:(intros; reflexivity) (Folder_bindpairs g) 0 ltac:(lia)) as (r & H1 & H2 & H3) end.
  unfold py_enumerate. rewrite H1. cbn [bind]. unfold find_out_bond, folder_of. cbn [f_bonds].
  destruct r as [i|].
  - exists i. split; [reflexivity|]. rewrite <- H3. cbn. lia.
  - exists (-1). split; [reflexivity|]. rewrite <- H3. reflexivity.
Qed.

Lemma range_from_snoc : forall n a, range_from a (S n) = range_from a n ++ [a + Z.of_nat n].
Proof.
  induction n as [|n IH]; intros a; [cbn; f_equal; lia|].
  change (range_from a (S (S n))) with (a :: range_from (a + 1) (S n)). rewrite IH. cbn [range_from app]. do 3 f_equal. lia.
Qed.

Lemma range_down_rev_gen : forall n a, range_down_from (a + Z.of_nat n - 1) n = rev (range_from a n).
Proof.
  induction n as [|n IH]; intros a; [reflexivity|].
  rewrite range_from_snoc, rev_app_distr. cbn [rev app range_down_from].
  replace (a + Z.of_nat (S n) - 1) with (a + Z.of_nat n) by lia. f_equal.
  replace (a + Z.of_nat n - 1) with (a + Z.of_nat n - 1) by lia. apply IH.
Qed.

Lemma range_down_rev (n : nat) : range_down_from (Z.of_nat n - 1) n = rev (range_from 0 n).
Proof. pose proof (range_down_rev_gen n 0) as H. now rewrite Z.add_0_l in H. Qed.

Lemma gen_unpack_size_loop (g : Folder) (body : Z -> option Z -> res (option Z * bool)) :
  (forall i rv, body i rv = do t1 <- Folder_find_out_bin_pair g i;
                           if t1 <? 0 then (do t2 <- py_index (Folder_unpacksizes g) i; Ok (Some t2, true)) else Ok (rv, false)) ->
  forall (xs : list Z),
  for_m xs body None = match find (fun i => negb (find_out_bond (f_bonds (folder_of g)) i)) xs with
                       | Some i => do v <- py_index (Folder_unpacksizes g) i; Ok (Some v)
                       | None => Ok None end.
Proof.
  intros Hb xs. induction xs as [|x xs IH]; [reflexivity|]. cbn [for_m find]. rewrite Hb.
  destruct (gen_find_out_bin_pair g x) as (r & H1 & H2). rewrite H1. cbn [bind]. rewrite H2.
  destruct (negb (find_out_bond (f_bonds (folder_of g)) x)).
  - destruct (py_index (Folder_unpacksizes g) x); reflexivity.
  - exact IH.
Qed.

Theorem gen_get_unpack_size (g : Folder) : Folder_get_unpack_size g = folder_unpack_size (folder_of g).
Proof.
  unfold Folder_get_unpack_size, folder_unpack_size. cbv zeta.
  assert (Hg : mkFolder (Folder_unpacksizes g) (Folder_coders g) (Folder_bindpairs g) (Folder_packed_indices g) (Folder_solid g)
                        (Folder_digestdefined g) (Folder_crc g) = g) by (destruct g; reflexivity).
  rewrite Hg.
  match goal with |- context[for_m _ ?b _] => rewrite (gen_unpack_size_loop g b ltac:(intros; reflexivity)) end.
  unfold py_range_down, py_range, py_len. change (f_unpacksizes (folder_of g)) with (Folder_unpacksizes g). unfold zlen.
  replace (Z.to_nat (Z.of_nat (length (Folder_unpacksizes g)) - 1 - -1)) with (length (Folder_unpacksizes g)) by lia.
  rewrite Z.sub_0_r, Nat2Z.id, range_down_rev.
  destruct (find _ (rev (range_from 0 (length (Folder_unpacksizes g))))) as [i|].
  - destruct (py_index (Folder_unpacksizes g) i); reflexivity.
  - cbn [bind]. destruct (py_index (Folder_unpacksizes g) (-1)); reflexivity.
Qed.

(* ------------------------------------------------------------------ _inherit_folder_digests / default = default_digests *)
Lemma skipn_cons_nth {A} (l : list A) k : (k < length l)%nat -> exists x, skipn k l = x :: skipn (S k) l.
Proof.
  revert k. induction l as [|y l IH]; intros k Hk; [cbn in Hk; lia|].
  destruct k as [|k]; [exists y; reflexivity|]. cbn [length] in Hk. destruct (IH k ltac:(lia)) as [x Hx]. exists x. exact Hx.
Qed.

Lemma gen_inherit_loop (nums : list Z) (gfs : list Folder) (body : Z -> list bool * list Z -> res ((list bool * list Z) * bool)) :
  (forall i dd dg, body i (dd, dg) =
      do t1 <- py_index nums i;
      do t3 <- (if (t1 =? 1) then do t2 <- py_index gfs i; Ok (Folder_digestdefined t2) else Ok false);
      do t5 <- (if t3 then do t4 <- py_index gfs i; Ok (py_is_some (Folder_crc t4)) else Ok false);
      if t5 then (do t6 <- py_index gfs i; do t7 <- py_unwrap (Folder_crc t6); Ok ((dd ++ [true], dg ++ [t7]), false))
      else Ok ((dd ++ repeat false (Z.to_nat t1), dg ++ repeat 0 (Z.to_nat t1)), false)) ->
  length nums = length gfs ->
  forall (m k : nat) dd dg, (k + m = length nums)%nat ->
  for_m (range_from (Z.of_nat k) m) body (dd, dg)
  = Ok (dd ++ fst (default_digests (skipn k nums) (map folder_of (skipn k gfs))),
        dg ++ snd (default_digests (skipn k nums) (map folder_of (skipn k gfs)))).
Proof.
  intros Hb Hlen. induction m as [|m IH]; intros k dd dg Hk.
  - cbn [range_from for_m]. rewrite !skipn_all2 by lia. cbn [map default_digests fst snd]. now rewrite !app_nil_r.
  - cbn [range_from for_m]. rewrite Hb, !py_index_skipn.
    destruct (skipn_cons_nth nums k ltac:(lia)) as [n Hn]. destruct (skipn_cons_nth gfs k ltac:(lia)) as [g Hg].
    rewrite Hn, Hg. cbn [bind map default_digests].
    replace (Z.of_nat k + 1) with (Z.of_nat (S k)) by lia.
    change (f_digestdefined (folder_of g)) with (Folder_digestdefined g); change (f_crc (folder_of g)) with (Folder_crc g).
    destruct (default_digests (skipn (S k) nums) (map folder_of (skipn (S k) gfs))) as [d0 g0] eqn:Ed.
    destruct (n =? 1) eqn:En; cbn [bind andb].
    + destruct (Folder_digestdefined g) eqn:Edd; cbn [bind].
      * destruct (Folder_crc g) as [c|] eqn:Ec; cbn [py_is_some bind py_unwrap].
        -- rewrite (IH (S k) _ _ ltac:(lia)), Ed. cbn [fst snd]. now rewrite <- !app_assoc.
        -- rewrite (IH (S k) _ _ ltac:(lia)), Ed. cbn [fst snd]. now rewrite <- !app_assoc.
      * rewrite (IH (S k) _ _ ltac:(lia)), Ed. cbn [fst snd]. now rewrite <- !app_assoc.
    + rewrite (IH (S k) _ _ ltac:(lia)), Ed. cbn [fst snd]. now rewrite <- !app_assoc.
Qed.

Theorem gen_inherit_folder_digests (self : SubstreamsInfo) (nf : Z) (gfs : list Folder) :
  nf = zlen (SubstreamsInfo_num_unpackstreams_folders self) ->
  length (SubstreamsInfo_num_unpackstreams_folders self) = length gfs ->
  SubstreamsInfo_inherit_folder_digests self nf gfs
  = let '(d, g) := default_digests (SubstreamsInfo_num_unpackstreams_folders self) (map folder_of gfs) in
    Ok (mkSubstreamsInfo (SubstreamsInfo_digests self ++ g) (SubstreamsInfo_digestsdefined self ++ d)
                         (SubstreamsInfo_unpacksizes self) (SubstreamsInfo_num_unpackstreams_folders self)).
Proof.
  intros Hnf Hlen. unfold SubstreamsInfo_inherit_folder_digests. cbv zeta.
  unfold py_range. rewrite Z.sub_0_r, Hnf. unfold zlen. rewrite Nat2Z.id. change 0 with (Z.of_nat 0).
  match goal with |- context[for_m _ ?b _] =>
    rewrite (gen_inherit_loop _ gfs b ltac:(intros; reflexivity) Hlen (length (SubstreamsInfo_num_unpackstreams_folders self)) 0%nat
               _ _ ltac:(lia)) end.
  cbn [skipn bind]. destruct (default_digests _ _) as [d g]. reflexivity.
Qed.

Theorem gen_SubstreamsInfo_default (gfs : list Folder) :
  SubstreamsInfo_default gfs
  = let '(d, g) := default_digests (repeat 1 (length gfs)) (map folder_of gfs) in
    Ok (mkSubstreamsInfo g d None (repeat 1 (length gfs))).
Proof.
  unfold SubstreamsInfo_default, SubstreamsInfo_init. cbv zeta.
  cbn [SubstreamsInfo_digests SubstreamsInfo_digestsdefined SubstreamsInfo_unpacksizes SubstreamsInfo_num_unpackstreams_folders].
  unfold py_len. rewrite Nat2Z.id.
  rewrite gen_inherit_folder_digests;
    cbn [SubstreamsInfo_digests SubstreamsInfo_digestsdefined SubstreamsInfo_unpacksizes SubstreamsInfo_num_unpackstreams_folders];
    [| unfold zlen; now rewrite repeat_length | now rewrite repeat_length].
  destruct (default_digests _ _) as [d g]. reflexivity.
Qed.

(* ------------------------------------------------------------------ SubstreamsInfo.write = write_substreams *)
Lemma fold_or_existsb {A} (p : A -> bool) (l : list A) : forall b,
  fold_left (fun x y => x || p y) l b = b || existsb p l.
Proof.
  induction l as [|x l IH]; intros b; cbn [fold_left existsb]; [now rewrite orb_false_r|].
  rewrite IH. now rewrite orb_assoc.
Qed.

Lemma py_any_any_true l : py_any false l = any_true l.
Proof.
  unfold py_any, any_true. exact (fold_or_existsb (fun b : bool => b) l false).
Qed.

Lemma for_m_zip_filter (body : Z * bool -> list Z -> res (list Z * bool)) :
  (forall c d acc, body (c, d) acc = if d then Ok (acc ++ [c], false) else Ok (acc, false)) ->
  forall xs acc, for_m xs body acc = Ok (acc ++ map fst (filter (fun p => snd p) xs)).
Proof.
  intros Hb xs. induction xs as [|[c d] xs IH]; intros acc; cbn [for_m filter map]; [now rewrite app_nil_r|].
  rewrite Hb. cbn [snd]. destruct d; rewrite IH; [cbn [map fst]; rewrite <- app_assoc|]; reflexivity.
Qed.

Lemma wr_list_number_err l e : wr_list wr_number l = Err e -> e = EOther.
Proof.
  induction l as [|x l IH]; cbn [wr_list]; [discriminate|].
  unfold wr_number at 1. destruct ((x <? 0) || (2 ^ 64 <=? x)); cbn [bind]; [congruence|].
  destruct (wr_list wr_number l) as [b|e']; cbn [bind]; [discriminate|]. intros H. apply IH. congruence.
Qed.

Lemma gen_subsizes_inner (sz : list Z) (num : Z) (ibody : Z -> Z * bytes -> res ((Z * bytes) * bool)) :
  (forall j idx out, ibody j (idx, out) =
     do t10j <- (if negb ((j + 1) =? num) then
                   do t7 <- py_unwrap (Some sz); do t8 <- py_index t7 idx; do t9 <- write_uint64 t8; Ok (out ++ t9)
                 else Ok out);
     Ok ((idx + 1, t10j), false)) ->
  forall (m : nat) j (idx : nat) out, (m <> 0%nat -> j + Z.of_nat m = num) ->
  for_m (range_from j m) ibody (Z.of_nat idx, out)
  = if (length (skipn idx sz) <? m - 1)%nat then Err EOther
    else do a <- wr_list wr_number (firstn (m - 1) (skipn idx sz)); Ok ((Z.of_nat (idx + m), out ++ a)).
Proof.
  intros Hb. induction m as [|m IH]; intros j idx out Hj.
  - cbn [range_from for_m Nat.sub Nat.ltb Nat.leb firstn wr_list bind]. now rewrite app_nil_r, Nat.add_0_r.
  - cbn [range_from for_m]. rewrite Hb. specialize (Hj ltac:(discriminate)).
    destruct m as [|m'].
    + replace (j + 1 =? num) with true by (symmetry; apply Z.eqb_eq; lia). cbn [negb bind for_m range_from].
      cbn [Nat.sub Nat.ltb Nat.leb firstn wr_list bind]. rewrite app_nil_r. do 3 f_equal. lia.
    + replace (j + 1 =? num) with false by (symmetry; apply Z.eqb_neq; lia). cbn [negb py_unwrap bind].
      rewrite py_index_skipn.
      replace (S (S m') - 1)%nat with (S m') by lia.
      destruct (skipn idx sz) as [|x rest] eqn:Es; cbn [bind]; [reflexivity|].
      assert (Hrest : rest = skipn (S idx) sz).
      { replace (S idx) with (idx + 1)%nat by lia. rewrite <- skipn_add, Es. reflexivity. }
      rewrite gen_write_uint64_wr_number. cbn [firstn wr_list length].
      destruct (wr_number x) as [b|e] eqn:Ew; cbn [bind].
      * replace (Z.of_nat idx + 1) with (Z.of_nat (S idx)) by lia.
        rewrite IH by (intros; lia). rewrite <- Hrest.
        replace (S m' - 1)%nat with m' by lia.
        change (S (length rest) <? S m')%nat with (length rest <? m')%nat.
        destruct (length rest <? m')%nat; [reflexivity|].
        destruct (wr_list wr_number (firstn m' rest)) as [b'|e]; cbn [bind]; [|reflexivity].
        rewrite <- app_assoc. do 3 f_equal. lia.
      * assert (e = EOther).
        { unfold wr_number in Ew. destruct ((x <? 0) || (2 ^ 64 <=? x)); congruence. }
        subst e. destruct (S (length rest) <? S m')%nat; reflexivity.
Qed.

Lemma gen_subsizes_outer (sz : list Z) (obody : Z * Z -> Z * bytes -> res ((Z * bytes) * bool)) :
  (forall i num idx out, obody (i, num) (idx, out) =
     do t11s <- for_m (py_range 0 num) (fun j '(idx, out) =>
        do t10j <- (if negb ((j + 1) =? num) then
                      do t7 <- py_unwrap (Some sz); do t8 <- py_index t7 idx; do t9 <- write_uint64 t8;
                      let out := out ++ t9 in Ok out
                    else Ok out);
        let out := t10j in let idx := idx + 1 in Ok ((idx, out), false)) (idx, out);
     let '(idx, out) := t11s in Ok ((idx, out), false)) ->
  forall (l : list (Z * Z)) (idx : nat) out,
  (do r <- for_m l obody (Z.of_nat idx, out); Ok (snd r))
  = (do x <- wr_sub_sizes (map snd l) (skipn idx sz); Ok (out ++ x)).
Proof.
  intros Hb. induction l as [|[i num] l IH]; intros idx out.
  - cbn [for_m map wr_sub_sizes bind snd]. now rewrite app_nil_r.
  - cbn [for_m map snd wr_sub_sizes]. rewrite Hb. unfold py_range. rewrite Z.sub_0_r.
    rewrite (gen_subsizes_inner sz num); [|intros; reflexivity|intros; lia].
    replace (Z.to_nat (Z.max num 0)) with (Z.to_nat num) by lia.
    destruct (length (skipn idx sz) <? Z.to_nat num - 1)%nat; cbn [bind]; [reflexivity|].
    destruct (wr_list wr_number (firstn (Z.to_nat num - 1) (skipn idx sz))) as [a|e]; cbn [bind]; [|reflexivity].
    rewrite IH, skipn_add.
    destruct (wr_sub_sizes (map snd l) (skipn (idx + Z.to_nat num) sz)) as [b|e]; cbn [bind]; [|reflexivity].
    now rewrite app_assoc.
Qed.

Theorem gen_SubstreamsInfo_write_eq_model (self : SubstreamsInfo) :
  SubstreamsInfo_write self = write_substreams (sub_of self).
Proof.
  destruct self as [dg dd sizes nums]. unfold SubstreamsInfo_write, write_substreams, sub_of.
  cbn [SubstreamsInfo_digests SubstreamsInfo_digestsdefined SubstreamsInfo_unpacksizes SubstreamsInfo_num_unpackstreams_folders
       s_nums s_sizes s_digestsdefined s_digests]. cbv zeta.
  unfold py_len. destruct nums as [|n0 nr] eqn:En; [reflexivity|]. rewrite <- En.
  replace (Z.of_nat (length nums) =? 0) with false by (symmetry; apply Z.eqb_neq; subst nums; cbn [length]; lia).
  replace (length nums =? 0)%nat with false by (symmetry; apply Nat.eqb_neq; subst nums; cbn [length]; lia).
  clear En n0 nr.
  rewrite !gen_write_byte. cbn [bind].
  rewrite (fold_or_existsb (fun y => negb (y =? 1)) nums false), (fold_or_existsb (fun y => 1 <? y) nums false).
  cbn [orb]. rewrite py_any_any_true.
  (* kNumUnpackStream *)
  assert (HA : forall out0 : bytes,
     (if existsb (fun y => negb (y =? 1)) nums then
        do t2 <- write_byte [13]; let out := out0 ++ t2 in
        do t4s <- for_m nums (fun n out => do t3 <- write_uint64 n; let out := out ++ t3 in Ok (out, false)) out;
        let out := t4s in Ok out
      else Ok out0)
     = do a <- (if existsb (fun y => negb (y =? 1)) nums then do x <- wr_list wr_number nums; Ok ([13] ++ x) else Ok []);
       Ok (out0 ++ a)).
  { intros out0. destruct (existsb _ nums); cbn [bind]; [|now rewrite app_nil_r].
    rewrite gen_write_byte. cbn [bind]. cbv zeta.
    rewrite (gen_write_loop write_uint64 wr_number gen_write_uint64_wr_number).
    destruct (wr_list wr_number nums) as [x|e]; cbn [bind]; [|reflexivity]. now rewrite <- app_assoc. }
  cbv zeta in HA. rewrite !gen_write_byte in HA. cbn [bind] in HA. rewrite HA. clear HA.
  destruct (if existsb (fun y => negb (y =? 1)) nums then _ else _) as [a|e]; cbn [bind]; [|reflexivity].
  (* kSize *)
  assert (HB : forall out0 : bytes,
     (if existsb (fun y => 1 <? y) nums then
        if match sizes with Some l => py_nonempty l | None => false end then
          do t6 <- write_byte [9]; let out := out0 ++ t6 in let idx := 0 in
          do t12s <- for_m (py_enumerate nums) (fun '(i, num) '(idx, out) =>
            do t11s <- for_m (py_range 0 num) (fun j '(idx, out) =>
                do t10j <- (if negb ((j + 1) =? num) then
                    do t7 <- py_unwrap sizes; do t8 <- py_index t7 idx; do t9 <- write_uint64 t8;
                    let out := out ++ t9 in Ok out
                  else Ok out);
                let out := t10j in let idx := idx + 1 in Ok ((idx, out), false)) (idx, out);
            let '(idx, out) := t11s in Ok ((idx, out), false)) (idx, out);
          let '(idx, out) := t12s in Ok out
        else Err EOther
      else Ok out0)
     = do b <- (if existsb (fun y => 1 <? y) nums then
                  match sizes with
                  | None | Some [] => Err EOther
                  | Some sz => do x <- wr_sub_sizes nums sz; Ok ([9] ++ x)
                  end
                else Ok []);
       Ok (out0 ++ b)).
  { intros out0. destruct (existsb _ nums); cbn [bind]; [|now rewrite app_nil_r].
    destruct sizes as [[|s0 sr]|]; cbn [py_nonempty bind]; [reflexivity| |reflexivity].
    rewrite gen_write_byte. cbn [bind]. cbv zeta.
    pose proof (gen_subsizes_outer (s0 :: sr)) as Ho.
    match goal with |- context[for_m (py_enumerate nums) ?b _] =>
      specialize (Ho b ltac:(intros; reflexivity) (py_enumerate nums) 0%nat (out0 ++ [9])) end.
    rewrite map_snd_enumerate in Ho. change (skipn 0 (s0 :: sr)) with (s0 :: sr) in Ho. change (Z.of_nat 0) with 0 in Ho.
    destruct (wr_sub_sizes nums (s0 :: sr)) as [x|e]; cbn [bind] in Ho |- *.
    - destruct (for_m (py_enumerate nums) _ _) as [[idx' o']|e]; cbn [bind snd] in Ho |- *; [|discriminate].
      injection Ho as ->. now rewrite <- app_assoc.
    - destruct (for_m (py_enumerate nums) _ _) as [[idx' o']|e']; cbn [bind snd] in Ho |- *; [discriminate|]. congruence. }
  cbv zeta in HB. rewrite !gen_write_byte in HB. cbn [bind] in HB. rewrite HB. clear HB.
  destruct (if existsb (fun y => 1 <? y) nums then _ else _) as [b|e]; cbn [bind]; [|reflexivity].
  (* kCRC *)
  destruct (any_true dd); cbn [bind].
  - rewrite gen_write_boolean_wr_boolean. cbn [bind].
    match goal with |- context[for_m (combine dg dd) ?bd _] =>
      rewrite (for_m_zip_filter bd ltac:(intros; reflexivity) (combine dg dd) []) end.
    cbn [bind app]. rewrite gen_write_crcs_wr_list.
    destruct (wr_list (wr_fixed 4) _) as [x|e]; cbn [bind]; [|reflexivity].
    f_equal. cbn [app]. rewrite <- ?app_assoc. cbn [app]. rewrite <- ?app_assoc. reflexivity.
  - f_equal. cbn [app]. rewrite <- ?app_assoc. reflexivity.
Qed.

(* ------------------------------------------------------------------ SubstreamsInfo._read: the SIZE loop *)
Lemma gen_sizes_inner (ibody : Z -> option (list Z) * Z * bytes -> res ((option (list Z) * Z * bytes) * bool)) :
  (forall j acc tot bs, ibody j (Some acc, tot, bs) =
     do t8r <- read_uint64 bs; let '(t8, inp) := t8r in
     do t9 <- py_unwrap (Some acc); Ok ((Some (t9 ++ [t8]), tot + t8, inp), false)) ->
  forall (xs : list Z) acc tot bs, wf_bytes bs = true ->
  for_m xs ibody (Some acc, tot, bs)
  = (do (l, r) <- rd_n (length xs) rd_number bs; Ok (Some (acc ++ l), tot + sumZ l, r)).
Proof.
  intros Hb. induction xs as [|x xs IH]; intros acc tot bs Hw.
  - cbn [for_m length rd_n bind]. rewrite app_nil_r. unfold sumZ. cbn [fold_left]. now rewrite Z.add_0_r.
  - cbn [for_m length rd_n]. rewrite Hb, gen_read_uint64_rd_number by exact Hw.
    destruct (rd_number bs) as [[v r]|e] eqn:Er; cbn [bind py_unwrap]; [|reflexivity].
    rewrite IH by (eapply rd_number_wf; eassumption).
    destruct (rd_n (length xs) rd_number r) as [[l r']|e]; cbn [bind]; [|reflexivity].
    rewrite sumZ_cons, <- app_assoc. cbn [app]. do 3 f_equal. lia.
Qed.

Lemma rd_sub_sizes_wf : forall nums fs bs sz r, wf_bytes bs = true -> rd_sub_sizes nums fs bs = Ok (sz, r) -> wf_bytes r = true.
Proof.
  induction nums as [|n nr IH]; intros fs bs sz r Hw; cbn [rd_sub_sizes].
  - intros H. now assert (r = bs) as -> by congruence.
  - unfold rd_many. destruct (rd_rep (S (length bs)) (n - 1) rd_number bs) as [[ex b1]|e] eqn:E1; cbn [bind]; [|discriminate].
    destruct (rd_rep_inv rd_number (fun b => wf_bytes b = true) rdnum_inv _ _ _ _ _ Hw E1) as (Hw1 & _ & _).
    destruct fs as [|f fr].
    + destruct (0 <? n); [discriminate|]. apply IH. exact Hw1.
    + destruct (0 <? n).
      * destruct (folder_unpack_size f); cbn [bind]; [|discriminate].
        destruct (rd_sub_sizes nr fr b1) as [[rest b2]|e] eqn:E2; cbn [bind]; [|discriminate].
        intros H. assert (r = b2) as -> by congruence. eapply IH; eassumption.
      * apply IH. exact Hw1.
Qed.

Lemma gen_sizes_outer (nums : list Z) (gfs : list Folder)
      (body : Z -> option (list Z) * bytes -> res ((option (list Z) * bytes) * bool)) :
  (forall i acc bs, body i (Some acc, bs) =
     do t7 <- py_index nums i;
     do t10s <- for_m (py_range 1 t7) (fun j '(self_unpacksizes, totalsize, inp) =>
         do t8r <- read_uint64 inp; let '(t8, inp) := t8r in
         do t9 <- py_unwrap self_unpacksizes;
         Ok ((Some (t9 ++ [t8]), totalsize + t8, inp), false)) (Some acc, 0, bs);
     let '(self_unpacksizes, totalsize, inp) := t10s in
     do t11 <- py_index nums i;
     if 0 <? t11 then
       do t12 <- py_index gfs i; do t13 <- Folder_get_unpack_size t12; do t14 <- py_unwrap self_unpacksizes;
       Ok ((Some (t14 ++ [t13 - totalsize]), inp), false)
     else Ok ((self_unpacksizes, inp), false)) ->
  length nums = length gfs ->
  forall (m k : nat) acc bs, (k + m = length nums)%nat -> wf_bytes bs = true ->
  for_m (range_from (Z.of_nat k) m) body (Some acc, bs)
  = (do (sz, r) <- rd_sub_sizes (skipn k nums) (map folder_of (skipn k gfs)) bs; Ok (Some (acc ++ sz), r)).
Proof.
  intros Hb Hlen. induction m as [|m IH]; intros k acc bs Hk Hw.
  - cbn [range_from for_m]. rewrite !skipn_all2 by lia. cbn [map rd_sub_sizes bind]. now rewrite app_nil_r.
  - cbn [range_from for_m]. rewrite Hb, !py_index_skipn.
    destruct (skipn_cons_nth nums k ltac:(lia)) as [n Hn]. destruct (skipn_cons_nth gfs k ltac:(lia)) as [g Hg].
    rewrite Hn, Hg. cbn [bind map rd_sub_sizes].
    rewrite gen_sizes_inner; [|intros; reflexivity|exact Hw].
    rewrite py_range_length.
    rewrite (rd_many_rd_n rd_number (fun b => wf_bytes b = true) rdnum_inv (n - 1) bs Hw).
    destruct (rd_n (Z.to_nat (n - 1)) rd_number bs) as [[ex b1]|e] eqn:E1; cbn [bind]; [|reflexivity].
    destruct (rd_n_inv rd_number (fun b => wf_bytes b = true) rdnum_inv _ _ _ _ Hw E1) as [Hw1 _].
    replace (Z.of_nat k + 1) with (Z.of_nat (S k)) by lia.
    destruct (0 <? n) eqn:E0; cbn [bind].
    + rewrite gen_get_unpack_size. destruct (folder_unpack_size (folder_of g)) as [t|e]; cbn [bind py_unwrap]; [|reflexivity].
      rewrite (IH (S k) _ b1 ltac:(lia) Hw1).
      destruct (rd_sub_sizes (skipn (S k) nums) (map folder_of (skipn (S k) gfs)) b1) as [[rest b2]|e]; cbn [bind]; [|reflexivity].
      rewrite Z.add_0_l, <- !app_assoc. reflexivity.
    + rewrite (IH (S k) _ b1 ltac:(lia) Hw1).
      destruct (rd_sub_sizes (skipn (S k) nums) (map folder_of (skipn (S k) gfs)) b1) as [[rest b2]|e]; cbn [bind]; [|reflexivity].
      (* no size at all for this folder: explicit is empty since n <= 0 *)
      assert (ex = []) as ->.
      { revert E1. replace (Z.to_nat (n - 1)) with O by lia. cbn [rd_n]. congruence. }
      now rewrite app_nil_r.
Qed.

(* ------------------------------------------------------------------ the digest counts *)
Lemma gen_counts_loop (nums : list Z) (gfs : list Folder) (body : Z -> Z * Z -> res ((Z * Z) * bool)) :
  (forall i tot nd, body i (tot, nd) =
     do t18 <- py_index nums i;
     do t20 <- (if negb (t18 =? 1) then Ok true else do t19 <- py_index gfs i; Ok (negb (Folder_digestdefined t19)));
     do t21j <- (if t20 then Ok (nd + t18) else Ok nd);
     Ok ((tot + t18, t21j), false)) ->
  length nums = length gfs ->
  forall (m k : nat) tot nd, (k + m = length nums)%nat ->
  for_m (range_from (Z.of_nat k) m) body (tot, nd)
  = (do (a, b) <- sub_digest_counts (skipn k nums) (map folder_of (skipn k gfs)); Ok (tot + b, nd + a)).
Proof.
  intros Hb Hlen. induction m as [|m IH]; intros k tot nd Hk.
  - cbn [range_from for_m]. rewrite !skipn_all2 by lia. cbn [map sub_digest_counts bind]. now rewrite !Z.add_0_r.
  - cbn [range_from for_m]. rewrite Hb, !py_index_skipn.
    destruct (skipn_cons_nth nums k ltac:(lia)) as [n Hn]. destruct (skipn_cons_nth gfs k ltac:(lia)) as [g Hg].
    rewrite Hn, Hg. cbn [bind map sub_digest_counts].
    replace (Z.of_nat k + 1) with (Z.of_nat (S k)) by lia.
    change (f_digestdefined (folder_of g)) with (Folder_digestdefined g).
    destruct (negb (n =? 1)); cbn [bind orb].
    + rewrite (IH (S k) _ _ ltac:(lia)).
      destruct (sub_digest_counts (skipn (S k) nums) (map folder_of (skipn (S k) gfs))) as [[a b]|e]; cbn [bind]; [|reflexivity].
      do 2 f_equal; lia.
    + destruct (negb (Folder_digestdefined g)); cbn [bind]; rewrite (IH (S k) _ _ ltac:(lia));
      destruct (sub_digest_counts (skipn (S k) nums) (map folder_of (skipn (S k) gfs))) as [[a b]|e]; cbn [bind]; try reflexivity;
      do 2 f_equal; lia.
Qed.

(* ------------------------------------------------------------------ the digest assignment *)
Lemma expand_crcs_length : forall d it e, expand_crcs d it = Ok e -> length e = length d.
Proof.
  induction d as [|b d IH]; intros it e; cbn [expand_crcs].
  - intros H. now assert (e = []) as -> by congruence.
  - destruct b.
    + destruct it as [|c cs]; [discriminate|]. destruct (expand_crcs d cs) as [r|] eqn:Er; cbn [bind]; [|discriminate].
      intros H. assert (e = c :: r) as -> by congruence. cbn [length]. f_equal. eapply IH; eassumption.
    + destruct (expand_crcs d it) as [r|] eqn:Er; cbn [bind]; [|discriminate].
      intros H. assert (e = 0 :: r) as -> by congruence. cbn [length]. f_equal. eapply IH; eassumption.
Qed.

Lemma expand_crcs_total : forall d it, length it = Z.to_nat (count_true d) -> exists e, expand_crcs d it = Ok e.
Proof.
  induction d as [|b d IH]; intros it Hl; cbn [expand_crcs]; [eauto|].
  rewrite count_true_cons in Hl. pose proof (count_true_bounds d). destruct b.
  - destruct it as [|c cs]; [cbn [length] in Hl; lia|]. destruct (IH cs) as [e He]; [cbn [length] in Hl; lia|].
    rewrite He. cbn [bind]. eauto.
  - destruct (IH it) as [e He]; [rewrite Hl; f_equal; lia|]. rewrite He. cbn [bind]. eauto.
Qed.

Section Assign.
Variables (defined : list bool) (expanded : list Z).

(* the iterator and the index agree with the aligned list of the model *)
Definition aligned (didx : nat) (it : list Z) : Prop :=
  expand_crcs (skipn didx defined) it = Ok (skipn didx expanded).

Lemma gen_assign_inner (ibody : Z -> list bool * list Z * Z * list Z -> res ((list bool * list Z * Z * list Z) * bool)) :
  (forall j add adg didx it, ibody j (add, adg, didx, it) =
     do t28 <- py_index defined didx;
     do t29 <- py_index defined didx;
     do t31j <- (if t29 then do t30n <- py_next it; let '(t30, crcs) := t30n in Ok (adg ++ [t30], crcs)
                 else Ok (adg ++ [0], it));
     let '(self_digests, crcs) := t31j in
     Ok ((add ++ [t28], self_digests, didx + 1, crcs), false)) ->
  forall (xs : list Z) (didx : nat) it add adg, aligned didx it ->
  ((length (skipn didx defined) < length xs)%nat -> for_m xs ibody (add, adg, Z.of_nat didx, it) = Err EOther) /\
  ((length xs <= length (skipn didx defined))%nat -> exists it',
     for_m xs ibody (add, adg, Z.of_nat didx, it)
     = Ok (add ++ firstn (length xs) (skipn didx defined), adg ++ firstn (length xs) (skipn didx expanded),
           Z.of_nat (didx + length xs), it') /\ aligned (didx + length xs) it').
Proof.
  intros Hb. induction xs as [|x xs IH]; intros didx it add adg Hal.
  - split; [cbn [length]; lia|]. intros _. exists it. cbn [for_m length firstn]. rewrite !app_nil_r, Nat.add_0_r. auto.
  - cbn [for_m length]. rewrite Hb, py_index_skipn. unfold aligned in Hal.
    destruct (skipn didx defined) as [|d rest] eqn:Es.
    { cbn [bind length]. split; [reflexivity | lia]. }
    assert (Hrest : rest = skipn (S didx) defined).
    { replace (S didx) with (didx + 1)%nat by lia. rewrite <- skipn_add, Es. reflexivity. }
    cbn [bind expand_crcs] in *.
    assert (Hstep : forall e0 it0, skipn didx expanded = e0 :: skipn (S didx) expanded ->
              expand_crcs rest it0 = Ok (skipn (S didx) expanded) -> aligned (S didx) it0).
    { intros e0 it0 _ H. unfold aligned. now rewrite <- Hrest. }
    assert (Hsk : forall e0 t, skipn didx expanded = e0 :: t -> t = skipn (S didx) expanded).
    { intros e0 t H. replace (S didx) with (didx + 1)%nat by lia. rewrite <- skipn_add, H. reflexivity. }
    replace (Z.of_nat didx + 1) with (Z.of_nat (S didx)) by lia.
    destruct d.
    + destruct it as [|c cs]; [discriminate|]. cbn [py_next bind].
      destruct (expand_crcs rest cs) as [r|] eqn:Er; cbn [bind] in Hal; [|discriminate].
      assert (He : skipn didx expanded = c :: r) by congruence.
      pose proof (Hsk _ _ He) as Hr. rewrite He. subst r.
      destruct (IH (S didx) cs (add ++ [true]) (adg ++ [c]) ltac:(unfold aligned; now rewrite <- Hrest)) as [I1 I2].
      rewrite <- Hrest in I1, I2. split.
      * intros Hlt. apply I1. cbn [length] in Hlt. lia.
      * intros Hle. destruct (I2 ltac:(cbn [length] in Hle; lia)) as [it' [Hf Ha]]. exists it'.
        rewrite Hf. cbn [firstn]. rewrite <- !app_assoc. cbn [app].
        replace (didx + S (length xs))%nat with (S didx + length xs)%nat by lia. auto.
    + cbn [bind]. destruct (expand_crcs rest it) as [r|] eqn:Er; cbn [bind] in Hal; [|discriminate].
      assert (He : skipn didx expanded = 0 :: r) by congruence.
      pose proof (Hsk _ _ He) as Hr. rewrite He. subst r.
      destruct (IH (S didx) it (add ++ [false]) (adg ++ [0]) ltac:(unfold aligned; now rewrite <- Hrest)) as [I1 I2].
      rewrite <- Hrest in I1, I2. split.
      * intros Hlt. apply I1. cbn [length] in Hlt. lia.
      * intros Hle. destruct (I2 ltac:(cbn [length] in Hle; lia)) as [it' [Hf Ha]]. exists it'.
        rewrite Hf. cbn [firstn]. rewrite <- !app_assoc. cbn [app].
        replace (didx + S (length xs))%nat with (S didx + length xs)%nat by lia. auto.
Qed.

Definition proj_dd (r : list bool * list Z * Z * list Z) : list bool * list Z := let '(a, b, _, _) := r in (a, b).

Lemma gen_assign_outer (lim : Z) (nums : list Z) (gfs : list Folder)
      (body : Z -> list bool * list Z * Z * list Z -> res ((list bool * list Z * Z * list Z) * bool)) :
  (forall i add adg didx it, body i (add, adg, didx, it) =
     do t25 <- py_index gfs i;
     do t26 <- py_index nums i;
     if (t26 =? 1) && Folder_digestdefined t25 && py_is_some (Folder_crc t25) then
       do t27 <- py_unwrap (Folder_crc t25); Ok ((add ++ [true], adg ++ [t27], didx, it), false)
     else
       do t32s <- for_m (py_range 0 t26) (fun j '(self_digestsdefined, self_digests, didx, crcs) =>
           do t28 <- py_index defined didx;
           do t29 <- py_index defined didx;
           do t31j <- (if t29 then do t30n <- py_next crcs; let '(t30, crcs) := t30n in Ok (self_digests ++ [t30], crcs)
                       else Ok (self_digests ++ [0], crcs));
           let '(self_digests, crcs) := t31j in
           Ok ((self_digestsdefined ++ [t28], self_digests, didx + 1, crcs), false)) (add, adg, didx, it);
       let '(self_digestsdefined, self_digests, didx, crcs) := t32s in
       Ok ((self_digestsdefined, self_digests, didx, crcs), false)) ->
  length nums = length gfs -> existsb (fun n => lim <? n) nums = false ->
  forall (m k : nat) (didx : nat) it add adg, (k + m = length nums)%nat -> aligned didx it ->
  (do r <- for_m (range_from (Z.of_nat k) m) body (add, adg, Z.of_nat didx, it); Ok (proj_dd r))
  = (do (d, g) <- sub_assign_digests lim (skipn k nums) (map folder_of (skipn k gfs)) (skipn didx defined) (skipn didx expanded);
     Ok (add ++ d, adg ++ g)).
Proof.
  intros Hb Hlen Hlim. induction m as [|m IH]; intros k didx it add adg Hk Hal.
  - cbn [range_from for_m]. rewrite !skipn_all2 by lia. cbn [map sub_assign_digests bind proj_dd]. now rewrite !app_nil_r.
  - cbn [range_from for_m]. rewrite Hb, !py_index_skipn.
    destruct (skipn_cons_nth nums k ltac:(lia)) as [n Hn]. destruct (skipn_cons_nth gfs k ltac:(lia)) as [g Hg].
    rewrite Hn, Hg. cbn [bind map sub_assign_digests].
    change (f_digestdefined (folder_of g)) with (Folder_digestdefined g); change (f_crc (folder_of g)) with (Folder_crc g).
    replace (Z.of_nat k + 1) with (Z.of_nat (S k)) by lia.
    assert (Hn_lim : (lim <? n) = false).
    { rewrite <- (firstn_skipn k nums), existsb_app, Hn in Hlim. cbn [existsb] in Hlim.
      apply orb_false_iff in Hlim as [_ Hlim]. apply orb_false_iff in Hlim as [Hlim _]. exact Hlim. }
    assert (Hel : length (skipn didx expanded) = length (skipn didx defined)) by (eapply expand_crcs_length; exact Hal).
    destruct ((n =? 1) && Folder_digestdefined g) eqn:Ec; [destruct (Folder_crc g) as [c|] eqn:Ecrc|];
      cbn [py_is_some andb py_unwrap bind].
    { rewrite (IH (S k) didx it _ _ ltac:(lia) Hal).
      destruct (sub_assign_digests lim _ _ _ _) as [[d g0]|e]; cbn [bind]; [|reflexivity].
      now rewrite <- !app_assoc. }
    all: rewrite Hn_lim; cbv zeta; replace (Z.to_nat (Z.max n 0)) with (Z.to_nat n) by lia;
      rewrite Hel, orb_diag;
      match goal with |- context[for_m (py_range 0 _) ?bd _] =>
        destruct (gen_assign_inner bd ltac:(intros; reflexivity) (py_range 0 n) didx it add adg Hal) as [I1 I2] end;
      rewrite py_range_length, Z.sub_0_r in I1, I2;
      destruct (Nat.ltb_spec (length (skipn didx defined)) (Z.to_nat n)) as [Hlt|Hge];
      [ rewrite (I1 Hlt); reflexivity
      | destruct (I2 Hge) as [it' [Hf Ha]]; rewrite Hf; cbn [bind];
        rewrite (IH (S k) (didx + Z.to_nat n)%nat it' _ _ ltac:(lia) Ha); rewrite !skipn_add;
        destruct (sub_assign_digests lim _ _ _ _) as [[d g0]|e]; cbn [bind]; [now rewrite <- !app_assoc | reflexivity] ].
Qed.
End Assign.

(* ------------------------------------------------------------------ SubstreamsInfo._read = parse_substreams *)
Lemma match_pid_13 {A} (pid : option Z) (a b : A) :
  match pid with Some 13 => a | _ => b end = match pid with Some p => if p =? 13 then a else b | None => b end.
Proof. solve_match_const. Qed.

Lemma gen_pid' b : wf_bytes b = true -> exists pid r, rd_pid b = Ok (pid, r) /\ rd_read b 1 = (pid_bytes pid, r) /\ wf_bytes r = true.
Proof. intros Hw. destruct (gen_pid b) as (pid & r & H1 & H2 & H3 & _). exists pid, r. auto. Qed.

Lemma sub_assign_len lim : forall nums fs defined crcs d g,
  sub_assign_digests lim nums fs defined crcs = Ok (d, g) -> length d = length g.
Proof.
  induction nums as [|n nr IH]; intros fs defined crcs d g; cbn [sub_assign_digests].
  - intros H. now assert (d = [] /\ g = []) as [-> ->] by (split; congruence).
  - destruct fs as [|f fr]; [discriminate|].
    destruct (if (n =? 1) && f_digestdefined f then f_crc f else None) as [c|].
    + destruct (sub_assign_digests lim nr fr defined crcs) as [[d0 g0]|e] eqn:E; cbn [bind]; [|discriminate].
      intros H. assert (d = true :: d0 /\ g = c :: g0) as [-> ->] by (split; congruence). cbn [length]. f_equal. eapply IH; eassumption.
    + destruct (lim <? n); [discriminate|]. cbv zeta.
      destruct ((length defined <? Z.to_nat (Z.max n 0))%nat || (length crcs <? Z.to_nat (Z.max n 0))%nat) eqn:El; [discriminate|].
      apply orb_false_iff in El as [El1 El2].
      destruct (sub_assign_digests lim nr fr _ _) as [[d0 g0]|e] eqn:E; cbn [bind]; [|discriminate].
      intros H. assert (d = firstn (Z.to_nat (Z.max n 0)) defined ++ d0 /\ g = firstn (Z.to_nat (Z.max n 0)) crcs ++ g0) as [-> ->]
        by (split; congruence).
      rewrite !app_length, !firstn_length. rewrite (IH _ _ _ _ _ E). lia.
Qed.

Lemma rd_crcs_length count bs vals r : rd_crcs count bs = Ok (vals, r) -> length vals = Z.to_nat count.
Proof.
  unfold rd_crcs. destruct (count <=? 0) eqn:E0.
  - intros H. assert (vals = []) as -> by congruence. cbn [length]. lia.
  - destruct (zlen bs <? 4 * count); [discriminate|]. unfold rd_many. intros H.
    destruct (rd_rep_inv (rd_fixed 4) (fun _ => True)
                ltac:(intros b x r0 _ Hr; split; [exact I | eapply rd_fixed_progress; [|exact Hr]; lia]) _ _ _ _ _ I H) as (_ & _ & Hl).
    unfold zlen in Hl. lia.
Qed.

Theorem gen_SubstreamsInfo_retrieve_model_or lim bs gfs : wf_bytes bs = true ->
  parse_substreams lim (map folder_of gfs) bs = Err EFuel \/
  (do (o, r) <- SubstreamsInfo_retrieve bs (zlen gfs) gfs; Ok (sub_of o, r)) = parse_substreams lim (map folder_of gfs) bs.
Proof.
  intros Hw. unfold SubstreamsInfo_retrieve, SubstreamsInfo_read, SubstreamsInfo_init, parse_substreams.
  cbn [SubstreamsInfo_digests SubstreamsInfo_digestsdefined SubstreamsInfo_unpacksizes SubstreamsInfo_num_unpackstreams_folders].
  cbv zeta. set (fs := map folder_of gfs).
  assert (Hfs : length fs = length gfs) by apply map_length.
  assert (Hnf : zlen fs = zlen gfs) by (unfold zlen; now rewrite Hfs).
  rewrite Hnf.
  destruct (gen_pid' bs Hw) as (pid & bs1 & Hp1 & Hp2 & Hw1). rewrite Hp1, Hp2. cbn [bind].
  (* kNumUnpackStream *)
  match goal with |- _ \/ _ = bind ?M _ =>
    match goal with |- context[bind (if bytes_eqb (pid_bytes pid) [13] then ?A else ?B)] =>
    assert (H1 : (if bytes_eqb (pid_bytes pid) [13] then A else B)
                 = (do x <- M; let '(nums, pid, r) := x in Ok (nums, pid_bytes pid, r))
                 /\ forall nums pid' r, M = Ok (nums, pid', r) -> wf_bytes r = true /\ length nums = length gfs) end end.
  { rewrite pid_bytes_eqb, !match_pid_13. destruct pid as [p|]; [destruct (p =? 13)|].
    2,3: split; [cbn [bind]; unfold zlen; rewrite Nat2Z.id, Hfs; reflexivity|];
         intros nums pid' r H; assert (nums = repeat 1 (length fs) /\ r = bs1) as [-> ->] by (split; congruence);
         rewrite repeat_length; auto.
    rewrite (gen_read_many read_uint64 rd_number (fun b => wf_bytes b = true) gen_read_uint64_rd_number rdnum_inv (zlen gfs) bs1 Hw1).
    unfold rd_many. destruct (rd_rep (S (length bs1)) (zlen gfs) rd_number bs1) as [[nums bs2]|e] eqn:E1; cbn [bind].
    2: split; [reflexivity | discriminate].
    destruct (rd_rep_inv rd_number (fun b => wf_bytes b = true) rdnum_inv _ _ _ _ _ Hw1 E1) as (Hw2 & _ & Hl).
    destruct (gen_pid' bs2 Hw2) as (pid2 & bs3 & Hq1 & Hq2 & Hw3). rewrite Hq1, Hq2. cbn [bind]. split; [reflexivity|].
    intros nums' pid' r H. assert (nums' = nums /\ r = bs3) as [-> ->] by (split; congruence).
    split; [exact Hw3|]. unfold zlen in Hl. lia. }
  destruct H1 as [H1 H1f]. rewrite H1. clear H1.
  match goal with |- _ \/ _ = bind ?M _ => destruct M as [[[nums pid2] bs2]|e] eqn:E1 end; cbn [bind]; [|right; reflexivity].
  destruct (H1f _ _ _ eq_refl) as [Hw2 Hlen]. clear H1f E1.
  destruct (existsb (fun n => lim <? n) nums) eqn:Elim; [left; reflexivity|].
  (* kSize *)
  match goal with |- _ \/ _ = bind ?M _ =>
    match goal with |- context[bind (if bytes_eqb (pid_bytes pid2) [9] then ?A else ?B)] =>
    assert (H2 : (if bytes_eqb (pid_bytes pid2) [9] then A else B)
                 = (do x <- M; let '(sz, pid, r) := x in Ok (sz, pid_bytes pid, r))
                 /\ forall sz pid' r, M = Ok (sz, pid', r) -> wf_bytes r = true) end end.
  { rewrite pid_bytes_eqb, !match_pid_9. destruct pid2 as [p|]; [destruct (p =? 9)|].
    2,3: split; [reflexivity|]; intros sz pid' r H; assert (r = bs2) as -> by congruence; exact Hw2.
    unfold py_len. unfold py_range at 1. rewrite Z.sub_0_r, Nat2Z.id. change 0 with (Z.of_nat 0) at 1.
    rewrite (gen_sizes_outer nums gfs); [|intros; reflexivity|exact Hlen|lia|exact Hw2].
    subst fs. cbn [skipn].
    destruct (rd_sub_sizes nums (map folder_of gfs) bs2) as [[sz bs3]|e] eqn:E2; cbn [bind app]; [|split; [reflexivity|discriminate]].
    pose proof (rd_sub_sizes_wf _ _ _ _ _ Hw2 E2) as Hw3.
    destruct (gen_pid' bs3 Hw3) as (pid3 & bs4 & Hq1 & Hq2 & Hw4). rewrite Hq1, Hq2. cbn [bind]. split; [reflexivity|].
    intros sz' pid' r H. assert (r = bs4) as -> by congruence. exact Hw4. }
  destruct H2 as [H2 H2f]. rewrite H2. clear H2.
  match goal with |- _ \/ _ = bind ?M _ => destruct M as [[[sizes pid3] bs3]|e] eqn:E2 end; cbn [bind]; [|right; reflexivity].
  pose proof (H2f _ _ _ eq_refl) as Hw3. clear H2f E2.
  (* the number of digests *)
  unfold py_range at 1. rewrite Z.sub_0_r. unfold zlen at 1. rewrite Nat2Z.id. change 0 with (Z.of_nat 0) at 1.
  rewrite (gen_counts_loop nums gfs); [|intros; reflexivity|exact Hlen|lia].
  cbn [skipn]. fold fs.
  destruct (sub_digest_counts nums fs) as [[ndig ntotal]|e]; cbn [bind]; [|right; reflexivity].
  rewrite !Z.add_0_l.
  (* kCRC *)
  match goal with |- _ \/ _ = bind ?M _ =>
    match goal with |- context[bind (if bytes_eqb (pid_bytes pid3) [10] then ?A else ?B)] =>
    assert (H3 : M = Err EFuel \/
                 ((if bytes_eqb (pid_bytes pid3) [10] then A else B)
                  = (do x <- M; let '(dd, dg, pid, r) := x in Ok (pid_bytes pid, r, dd, dg))
                  /\ forall dd dg pid' r, M = Ok (dd, dg, pid', r) -> length dd = length dg)) end end.
  { rewrite pid_bytes_eqb, !match_pid_10. destruct pid3 as [p|]; [destruct (p =? 10)|].
    2,3: right; split; [reflexivity|]; intros dd dg pid' r H; assert (dd = [] /\ dg = []) as [-> ->] by (split; congruence); reflexivity.
    destruct (rd_boolean lim ndig true bs3) as [[defined bs4]|e] eqn:Eb.
    2: { destruct e; try (right; rewrite (gen_read_boolean_rd_boolean lim ndig true bs3 Hw3) by (rewrite Eb; discriminate);
                          rewrite Eb; split; [reflexivity|discriminate]).
         left. reflexivity. }
    right. rewrite (gen_read_boolean_rd_boolean lim ndig true bs3 Hw3) by (rewrite Eb; discriminate). rewrite Eb. cbn [bind].
    change (py_count_true defined) with (count_true defined).
    rewrite gen_read_crcs_rd_crcs by (pose proof (count_true_bounds defined); lia).
    destruct (rd_crcs (count_true defined) bs4) as [[vals bs5]|e] eqn:Ev; cbn [bind]; [|split; [reflexivity|discriminate]].
    destruct (expand_crcs_total defined vals (rd_crcs_length _ _ _ _ Ev)) as [ex Hex]. rewrite Hex. cbn [bind].
    unfold py_range at 1. rewrite Z.sub_0_r. unfold zlen at 1. rewrite Nat2Z.id, <- Hlen.
    match goal with |- context[for_m (range_from 0 (length nums)) ?bd _] =>
      pose proof (gen_assign_outer defined ex lim nums gfs bd ltac:(intros; reflexivity) Hlen Elim (length nums) 0%nat 0%nat vals [] []
                    ltac:(lia) Hex) as Ho end.
    cbn [skipn app] in Ho. change (Z.of_nat 0) with 0 in Ho. fold fs in Ho.
    destruct (sub_assign_digests lim nums fs defined ex) as [[d g]|e] eqn:Ea; cbn [bind] in Ho |- *.
    - destruct (for_m (range_from 0 (length nums)) _ _) as [[[[a b] c] d']|e']; cbn [bind proj_dd] in Ho |- *; [|discriminate].
      assert (a = d /\ b = g) as [-> ->] by (split; congruence).
      destruct (gen_pid bs5) as (pid4 & bs6 & Hr1 & Hr2 & _). rewrite Hr1, Hr2. cbn [bind]. split; [reflexivity|].
      intros dd dg pid' r H. assert (dd = d /\ dg = g) as [-> ->] by (split; congruence). eapply sub_assign_len; exact Ea.
    - destruct (for_m (range_from 0 (length nums)) _ _) as [[[[a b] c] d']|e']; cbn [bind proj_dd] in Ho |- *; [discriminate|].
      split; [congruence | discriminate]. }
  destruct H3 as [H3|[H3 H3f]].
  { left. rewrite H3. reflexivity. }
  rewrite H3. clear H3.
  match goal with |- _ \/ _ = bind ?M _ => destruct M as [[[[dd dg] pid4] bs4]|e] eqn:E3 end; cbn [bind]; [|right; reflexivity].
  pose proof (H3f _ _ _ _ eq_refl) as Hdl. clear H3f E3.
  rewrite pid_bytes_eqb. destruct pid4 as [[|q|q]|]; cbn [Z.eqb negb bind]; try (right; reflexivity).
  destruct dd as [|d0 dd]; cbn [length Nat.eqb py_nonempty negb].
  2: right; reflexivity.
  destruct dg as [|g0 dg]; [|discriminate Hdl].
  destruct (lim <? ntotal); [left; reflexivity|]. right.
  rewrite gen_inherit_folder_digests;
    cbn [SubstreamsInfo_digests SubstreamsInfo_digestsdefined SubstreamsInfo_unpacksizes SubstreamsInfo_num_unpackstreams_folders];
    [|unfold zlen; now rewrite Hlen|exact Hlen].
  fold fs. destruct (default_digests nums fs) as [d' g']. reflexivity.
Qed.

Theorem gen_SubstreamsInfo_retrieve_eq_model lim bs gfs : wf_bytes bs = true ->
  parse_substreams lim (map folder_of gfs) bs <> Err EFuel ->
  (do (o, r) <- SubstreamsInfo_retrieve bs (zlen gfs) gfs; Ok (sub_of o, r)) = parse_substreams lim (map folder_of gfs) bs.
Proof. intros Hw Hne. destruct (gen_SubstreamsInfo_retrieve_model_or lim bs gfs Hw) as [H|H]; [contradiction | exact H]. Qed.

