(* EventsProofs.v -- proofs about the model in Events.v (property C18). stdlib only; no axioms. *)
From P7 Require Import Prelude Events.
From Coq Require Import ZifyBool Permutation.
Open Scope Z_scope.

(* ================================================================ small list facts *)
Lemma zsum_app : forall a b, zsum (a ++ b) = zsum a + zsum b.
Proof. induction a as [|x a IH]; intros b; simpl; [reflexivity|]. rewrite IH. lia. Qed.

Lemma NoDup_app_inv {A} : forall (a b : list A), NoDup (a ++ b) ->
  NoDup a /\ NoDup b /\ (forall x, In x a -> ~ In x b).
Proof.
  induction a as [|h a IH]; intros b Hnd; simpl in *.
  - repeat split; [constructor|assumption|intros x []].
  - inversion Hnd as [|? ? Hni Hnd']; subst. destruct (IH b Hnd') as (Ha & Hb & Hd).
    repeat split.
    + constructor; [|assumption]. intro Hin. apply Hni. apply in_or_app. now left.
    + assumption.
    + intros x [->|Hin] Hb'; [apply Hni; apply in_or_app; now right | exact (Hd x Hin Hb')].
Qed.

Lemma filter_nil_all {A} (P : A -> bool) : forall l, (forall e, In e l -> P e = false) -> filter P l = [].
Proof.
  induction l as [|h l IH]; intros H; simpl; [reflexivity|].
  rewrite (H h (or_introl eq_refl)). apply IH. intros e He. apply H. now right.
Qed.

Lemma filter_all_id {A} (P : A -> bool) : forall l, (forall e, In e l -> P e = true) -> filter P l = l.
Proof.
  induction l as [|h l IH]; intros H; simpl; [reflexivity|].
  rewrite (H h (or_introl eq_refl)). f_equal. apply IH. intros e He. apply H. now right.
Qed.

Lemma filter_filter_sub {A} (P Q : A -> bool) : (forall e, P e = true -> Q e = true) ->
  forall l, filter P (filter Q l) = filter P l.
Proof.
  intros Hsub. induction l as [|h l IH]; simpl; [reflexivity|].
  destruct (Q h) eqn:Hq; simpl.
  - destruct (P h); [f_equal|]; exact IH.
  - destruct (P h) eqn:Hp; [|exact IH]. rewrite (Hsub h Hp) in Hq. discriminate.
Qed.

Lemma filter_and {A} (P Q : A -> bool) : forall l,
  filter (fun e => P e && Q e) l = filter Q (filter P l).
Proof.
  induction l as [|h l IH]; simpl; [reflexivity|].
  destruct (P h); simpl; [destruct (Q h); [f_equal|]; exact IH | exact IH].
Qed.

Lemma flat_map_concat {A B} (f : A -> list B) : forall l, flat_map f (concat l) = flat_map (flat_map f) l.
Proof. induction l as [|h l IH]; simpl; [reflexivity|]. rewrite flat_map_app, IH. reflexivity. Qed.

Lemma nth_In_concat {A} : forall (l : list (list A)) j x, In x (nth j l []) -> In x (concat l).
Proof.
  induction l as [|h l IH]; intros j x H.
  - destruct j; simpl in H; contradiction.
  - simpl. apply in_or_app. destruct j; simpl in H; [now left | right; exact (IH j x H)].
Qed.

Lemma last_cons_def {A} : forall (l : list A) x d, last (x :: l) d = last l x.
Proof. induction l as [|h l IH]; intros x d; [reflexivity|]. change (last (x :: h :: l) d) with (last (h :: l) d).
  rewrite (IH h d), (IH h x). reflexivity. Qed.

Lemma forallb_nil_nth {A} : forall (l : list (list A)) i, forallb is_nil l = true -> nth i l [] = [].
Proof.
  induction l as [|h l IH]; intros i H; [destruct i; reflexivity|].
  simpl in H. apply andb_true_iff in H. destruct H as [Hh Hl]. destruct i; simpl.
  - destruct h; [reflexivity|discriminate].
  - exact (IH i Hl).
Qed.

Lemma forallb_nil_concat {A} : forall (l : list (list A)), forallb is_nil l = true -> concat l = [].
Proof.
  induction l as [|h l IH]; intros H; [reflexivity|]. simpl in H. apply andb_true_iff in H. destruct H as [Hh Hl].
  destruct h; [|discriminate]. simpl. exact (IH Hl).
Qed.

(* ================================================================ Worker.decompress: the update loop *)
Lemma dec_loop_respecting : forall chunks rem acc since, 0 < rem -> chunks_ok rem chunks = true ->
  zsum (fst (dec_loop rem acc since chunks)) = acc + rem /\ snd (dec_loop rem acc since chunks) = 0.
Proof.
  induction chunks as [|[n dt] rest IH]; intros rem acc since Hrem Hok.
  - simpl in Hok. destruct (rem <=? 0) eqn:E; [lia|discriminate].
  - simpl in Hok. destruct (rem <=? 0) eqn:E; [lia|].
    apply andb_true_iff in Hok. destruct Hok as [Hn Hrest]. apply andb_true_iff in Hn. destruct Hn as [Hn0 Hn1].
    simpl. rewrite E.
    assert (Hrem' : (if 0 <? n then rem - n else rem) = rem - n) by (destruct (0 <? n) eqn:?; lia).
    rewrite Hrem'.
    destruct ((rem - n <=? 0) || (1024 <=? since + dt)) eqn:Eput.
    + destruct (rem - n <=? 0) eqn:Efin.
      * simpl. split; lia.
      * destruct (dec_loop (rem - n) 0 0 rest) as [us r] eqn:Erec.
        assert (Hpos : 0 < rem - n) by lia.
        destruct (IH (rem - n) 0 0 Hpos Hrest) as [Hs Hr]. rewrite Erec in Hs, Hr. simpl in *. split; lia.
    + apply orb_false_iff in Eput. destruct Eput as [Efin _].
      assert (Hpos : 0 < rem - n) by lia.
      destruct (IH (rem - n) (acc + n) (since + dt) Hpos Hrest) as [Hs Hr]. split; lia.
Qed.

(* without assuming that the decoder honours max_length: whenever the loop ends, the updates sum to what was decoded *)
Lemma dec_loop_general : forall chunks rem acc since, 0 < rem -> Forall (fun c => 0 <= fst c) chunks ->
  snd (dec_loop rem acc since chunks) <= 0 ->
  zsum (fst (dec_loop rem acc since chunks)) = acc + rem - snd (dec_loop rem acc since chunks).
Proof.
  induction chunks as [|[n dt] rest IH]; intros rem acc since Hrem Hnn Hend.
  - simpl in *. lia.
  - inversion Hnn as [|? ? Hn Hrest]; subst. simpl in Hn. simpl in *.
    destruct (rem <=? 0) eqn:E; [lia|].
    assert (Hrem' : (if 0 <? n then rem - n else rem) = rem - n) by (destruct (0 <? n) eqn:?; lia).
    rewrite Hrem' in *.
    destruct ((rem - n <=? 0) || (1024 <=? since + dt)) eqn:Eput.
    + destruct (rem - n <=? 0) eqn:Efin.
      * simpl. lia.
      * destruct (dec_loop (rem - n) 0 0 rest) as [us r] eqn:Erec. simpl in *.
        assert (Hpos : 0 < rem - n) by lia.
        specialize (IH (rem - n) 0 0 Hpos Hrest). rewrite Erec in IH. simpl in IH. specialize (IH Hend). lia.
    + apply orb_false_iff in Eput. destruct Eput as [Efin _].
      assert (Hpos : 0 < rem - n) by lia.
      specialize (IH (rem - n) (acc + n) (since + dt) Hpos Hrest Hend). lia.
Qed.

(* for every clock (the dt components are unconstrained): the updates of a member sum to its size *)
Theorem updates_sum : forall size chunks, 0 <= size -> chunks_ok size chunks = true ->
  zsum (dec_updates size chunks) = size /\ dec_final size chunks = 0.
Proof.
  intros size chunks Hsz Hok. unfold dec_updates, dec_final.
  destruct (Z.eq_dec size 0) as [->|Hne].
  - destruct chunks as [|[n dt] rest]; simpl; split; reflexivity.
  - assert (Hpos : 0 < size) by lia. destruct (dec_loop_respecting chunks size 0 0 Hpos Hok). split; lia.
Qed.

Theorem updates_sum_general : forall size chunks, 0 < size -> Forall (fun c => 0 <= fst c) chunks ->
  dec_final size chunks <= 0 -> zsum (dec_updates size chunks) = size - dec_final size chunks.
Proof. intros size chunks H1 H2 H3. unfold dec_updates, dec_final in *. rewrite (dec_loop_general chunks size 0 0 H1 H2 H3). lia. Qed.

(* ================================================================ the FIFO merge *)
Lemma nth_upd_split {A} : forall (ws : list (list A)) k e r, nth k ws [] = e :: r ->
  exists l1 l2, ws = l1 ++ (e :: r) :: l2 /\ upd k r ws = l1 ++ r :: l2 /\ length l1 = k.
Proof.
  induction ws as [|w ws IH]; intros k e r H.
  - destruct k; discriminate.
  - destruct k as [|k]; simpl in H.
    + subst w. exists [], ws. repeat split.
    + destruct (IH k e r H) as (l1 & l2 & E1 & E2 & E3). exists (w :: l1), l2. simpl. rewrite <- E1, E2, E3. repeat split.
Qed.

Lemma nth_upd_eq {A} : forall (l : list A) k x d, (k < length l)%nat -> nth k (upd k x l) d = x.
Proof. induction l as [|h l IH]; intros k x d H; simpl in H; [lia|]. destruct k; simpl; [reflexivity|]. apply IH. lia. Qed.

Lemma nth_upd_neq {A} : forall (l : list A) k j x d, j <> k -> nth j (upd k x l) d = nth j l d.
Proof.
  induction l as [|h l IH]; intros k j x d H; [destruct k; reflexivity|].
  destruct k, j; simpl; try reflexivity; try congruence. apply IH. congruence.
Qed.

Lemma nth_cons_lt {A} : forall (l : list (list A)) k e r, nth k l [] = e :: r -> (k < length l)%nat.
Proof.
  intros l k e r H. destruct (Nat.lt_ge_cases k (length l)) as [Hlt|Hge]; [assumption|].
  rewrite (nth_overflow l [] Hge) in H. discriminate.
Qed.

Lemma run_nil {A} : forall sched, @run A sched [] = ([], []).
Proof. induction sched as [|i s IH]; simpl; [reflexivity|]. destruct i; exact IH. Qed.

(* nothing is lost, nothing invented *)
Lemma run_perm {A} : forall sched (ws : list (list A)),
  Permutation (fst (run sched ws) ++ concat (snd (run sched ws))) (concat ws).
Proof.
  induction sched as [|i s IH]; intros ws; simpl; [apply Permutation_refl|].
  destruct (nth i ws []) as [|e r] eqn:En; [apply IH|].
  destruct (nth_upd_split ws i e r En) as (l1 & l2 & E1 & E2 & _).
  specialize (IH (upd i r ws)). destruct (run s (upd i r ws)) as [o ws'] eqn:Er. simpl in *.
  rewrite E2 in IH. rewrite E1. rewrite concat_app in *. simpl in *.
  apply Permutation_trans with (e :: concat l1 ++ r ++ concat l2); [constructor; exact IH|].
  apply Permutation_trans with (concat l1 ++ e :: r ++ concat l2); [apply Permutation_middle|apply Permutation_refl].
Qed.

(* per-worker program order is preserved: what worker i has enqueued so far followed by what it still has to
   enqueue is its program *)
Lemma run_owner {A} (own : A -> nat) : forall sched (ws : list (list A)),
  (forall j e, In e (nth j ws []) -> own e = j) ->
  forall i, filter (fun e => Nat.eqb (own e) i) (fst (run sched ws)) ++ nth i (snd (run sched ws)) [] = nth i ws [].
Proof.
  induction sched as [|k s IH]; intros ws Hown i; simpl; [reflexivity|].
  destruct (nth k ws []) as [|e r] eqn:En; [apply IH; assumption|].
  pose proof (nth_cons_lt ws k e r En) as Hlt.
  assert (Hown' : forall j e', In e' (nth j (upd k r ws) []) -> own e' = j).
  { intros j e' Hin. destruct (Nat.eq_dec j k) as [->|Hjk].
    - rewrite nth_upd_eq in Hin by assumption. apply Hown. rewrite En. now right.
    - rewrite nth_upd_neq in Hin by assumption. now apply Hown. }
  specialize (IH (upd k r ws) Hown' i).
  destruct (run s (upd k r ws)) as [o ws'] eqn:Er. simpl in *.
  assert (Hoe : own e = k) by (apply Hown; rewrite En; now left).
  destruct (Nat.eq_dec k i) as [->|Hki].
  - rewrite Hoe, Nat.eqb_refl. simpl. rewrite IH, nth_upd_eq by assumption. symmetry; assumption.
  - rewrite Hoe. apply Nat.eqb_neq in Hki. rewrite Hki. rewrite IH. apply nth_upd_neq.
    apply Nat.eqb_neq in Hki. congruence.
Qed.

Lemma run_complete_owner {A} (own : A -> nat) : forall sched (ws : list (list A)),
  (forall j e, In e (nth j ws []) -> own e = j) -> complete_ws sched ws = true ->
  forall i, filter (fun e => Nat.eqb (own e) i) (fst (run sched ws)) = nth i ws [].
Proof.
  intros sched ws Hown Hc i. rewrite <- (run_owner own sched ws Hown i).
  unfold complete_ws in Hc. rewrite (forallb_nil_nth _ i Hc), app_nil_r. reflexivity.
Qed.

Lemma run_complete_perm {A} : forall sched (ws : list (list A)), complete_ws sched ws = true ->
  Permutation (fst (run sched ws)) (concat ws).
Proof.
  intros sched ws Hc. pose proof (run_perm sched ws) as H. unfold complete_ws in Hc.
  rewrite (forallb_nil_concat _ Hc), app_nil_r in H. exact H.
Qed.

(* ================================================================ events of members and workers *)
Lemma member_events_canonical : forall m, member_events m = canonical m (member_updates m).
Proof. reflexivity. Qed.

Lemma member_events_id : forall m e, In e (member_events m) -> ev_id e = Some (m_id m) /\ is_prepost e = false.
Proof.
  intros m e H. unfold member_events in H. destruct H as [<-|H]; [split; reflexivity|].
  apply in_app_or in H. destruct H as [H|[<-|[]]]; [|split; reflexivity].
  apply in_map_iff in H. destruct H as (u & <- & _). split; reflexivity.
Qed.

Lemma worker_events_In : forall fs e, In e (worker_events fs) -> exists m, In m fs /\ In e (member_events m).
Proof. intros fs e H. apply in_flat_map in H. exact H. Qed.

Lemma of_id_true : forall i e, of_id i e = true <-> ev_id e = Some i.
Proof.
  intros i e. unfold of_id. destruct (ev_id e) as [j|]; split; intro H; try discriminate.
  - apply Z.eqb_eq in H. now subst. - injection H as ->. apply Z.eqb_refl.
Qed.

Lemma proj_member_same : forall m, proj (m_id m) (member_events m) = member_events m.
Proof.
  intros m. unfold proj. apply filter_all_id. intros e He.
  apply of_id_true. exact (proj1 (member_events_id m e He)).
Qed.

Lemma proj_member_other : forall m i, m_id m <> i -> proj i (member_events m) = [].
Proof.
  intros m i Hne. apply filter_nil_all. intros e He. destruct (of_id i e) eqn:E; [|reflexivity].
  apply of_id_true in E. rewrite (proj1 (member_events_id m e He)) in E. congruence.
Qed.

Lemma proj_worker_notin : forall fs i, ~ In i (map m_id fs) -> proj i (worker_events fs) = [].
Proof.
  intros fs i Hni. apply filter_nil_all. intros e He. destruct (of_id i e) eqn:E; [|reflexivity].
  apply of_id_true in E. destruct (worker_events_In fs e He) as (m & Hm & Hem).
  rewrite (proj1 (member_events_id m e Hem)) in E. injection E as <-. exfalso. apply Hni. now apply in_map.
Qed.

Lemma proj_worker_events : forall fs m, NoDup (map m_id fs) -> In m fs ->
  proj (m_id m) (worker_events fs) = member_events m.
Proof.
  induction fs as [|a t IH]; intros m Hnd Hin; [contradiction|].
  simpl in Hnd. inversion Hnd as [|? ? Hni Hnd']; subst.
  change (worker_events (a :: t)) with (member_events a ++ worker_events t). unfold proj. rewrite filter_app.
  destruct Hin as [->|Hin].
  - fold (proj (m_id m) (member_events m)). rewrite proj_member_same.
    fold (proj (m_id m) (worker_events t)). rewrite (proj_worker_notin t _ Hni). apply app_nil_r.
  - fold (proj (m_id m) (member_events a)). rewrite proj_member_other.
    + simpl. exact (IH m Hnd' Hin).
    + intro E. apply Hni. rewrite E. now apply in_map.
Qed.

Lemma worker_events_app : forall a b, worker_events (a ++ b) = worker_events a ++ worker_events b.
Proof. intros. unfold worker_events. apply flat_map_app. Qed.

Lemma worker_events_concat : forall l, worker_events (concat l) = flat_map worker_events l.
Proof. intros. unfold worker_events. apply flat_map_concat. Qed.

Lemma concat_map_worker : forall l, concat (map worker_events l) = worker_events (concat l).
Proof. intros. rewrite worker_events_concat. symmetry. apply flat_map_concat_map. Qed.

(* ================================================================ well-formedness of every interleaving *)
Definition member_ok (m : member) : bool :=
  (0 <=? m_size m) && (if delivered m then chunks_ok (m_size m) (m_chunks m) else true).
Definition shape_ok (sh : shape) : Prop :=
  NoDup (map m_id (processed sh)) /\ forall m, In m (processed sh) -> member_ok m = true.

Lemma member_updates_ok : forall m, member_ok m = true ->
  (delivered m = true -> zsum (member_updates m) = m_size m) /\ (delivered m = false -> member_updates m = []).
Proof.
  intros m Hok. unfold member_ok in Hok. apply andb_true_iff in Hok. destruct Hok as [Hsz Hch].
  unfold member_updates. destruct (delivered m); split; intro H; try discriminate; try reflexivity.
  apply updates_sum; [lia|assumption].
Qed.

Lemma wellformed_intro : forall ms mid,
  (forall m, In m ms -> member_ok m = true) ->
  (forall e, In e mid -> In e (worker_events ms)) ->
  (forall m, In m ms -> proj (m_id m) mid = member_events m) ->
  wellformed ms (Pre :: mid ++ [Post]).
Proof.
  intros ms mid Hok Hsub Hproj. exists mid. split; [reflexivity|]. split; [|split].
  - intros e He. destruct (worker_events_In ms e (Hsub e He)) as (m & _ & Hem). exact (proj2 (member_events_id m e Hem)).
  - intros e He. destruct (worker_events_In ms e (Hsub e He)) as (m & Hm & Hem). exists m. split; [assumption|].
    exact (proj1 (member_events_id m e Hem)).
  - intros m Hm. exists (member_updates m). split; [rewrite (Hproj m Hm); reflexivity|].
    exact (member_updates_ok m (Hok m Hm)).
Qed.

Lemma wellformed_sequential : forall ms, NoDup (map m_id ms) -> (forall m, In m ms -> member_ok m = true) ->
  wellformed ms (Pre :: worker_events ms ++ [Post]).
Proof.
  intros ms Hnd Hok. apply wellformed_intro; [assumption|tauto|].
  intros m Hm. exact (proj_worker_events ms m Hnd Hm).
Qed.

(* which folder worker owns a member id (proof device) *)
Fixpoint find_owner (fos : list (list member)) (i : Z) : nat :=
  match fos with
  | [] => O
  | fo :: r => if existsb (fun m => m_id m =? i) fo then O else S (find_owner r i)
  end.

Lemma find_owner_spec : forall fos j m, NoDup (map m_id (concat fos)) -> In m (nth j fos []) ->
  find_owner fos (m_id m) = j.
Proof.
  induction fos as [|fo r IH]; intros j m Hnd Hin; [destruct j; contradiction|].
  simpl in Hnd. rewrite map_app in Hnd. destruct (NoDup_app_inv _ _ Hnd) as (_ & Hr & Hdis).
  simpl. destruct j as [|j]; simpl in Hin.
  - assert (E : existsb (fun m0 => m_id m0 =? m_id m) fo = true).
    { apply existsb_exists. exists m. split; [assumption|apply Z.eqb_refl]. }
    rewrite E. reflexivity.
  - destruct (existsb (fun m0 => m_id m0 =? m_id m) fo) eqn:E.
    + apply existsb_exists in E. destruct E as (m0 & Hm0 & Heq). apply Z.eqb_eq in Heq. exfalso.
      apply (Hdis (m_id m)); [rewrite <- Heq; now apply in_map|].
      apply in_map. exact (nth_In_concat r j m Hin).
    + f_equal. exact (IH j m Hr Hin).
Qed.

Lemma NoDup_concat_nth : forall (fos : list (list member)) j, NoDup (map m_id (concat fos)) ->
  NoDup (map m_id (nth j fos [])).
Proof.
  induction fos as [|fo r IH]; intros j Hnd; [destruct j; constructor|].
  simpl in Hnd. rewrite map_app in Hnd. destruct (NoDup_app_inv _ _ Hnd) as (Hfo & Hr & _).
  destruct j; simpl; [assumption|exact (IH j Hr)].
Qed.

Lemma In_concat_nth {A} : forall (l : list (list A)) x, In x (concat l) -> exists j, In x (nth j l []).
Proof.
  induction l as [|h l IH]; intros x H; [contradiction|]. simpl in H. apply in_app_or in H. destruct H as [H|H].
  - exists O. exact H. - destruct (IH x H) as (j & Hj). exists (S j). exact Hj.
Qed.

Lemma nth_map_worker : forall l j, nth j (map worker_events l) [] = worker_events (nth j l []).
Proof. intros l j. change (@nil event) with (worker_events []). apply map_nth. Qed.

Lemma wellformed_parallel : forall em sel sched,
  NoDup (map m_id (em ++ concat sel)) -> (forall m, In m (em ++ concat sel) -> member_ok m = true) ->
  complete_ws sched (map worker_events sel) = true ->
  wellformed (em ++ concat sel) (Pre :: (worker_events em ++ fst (run sched (map worker_events sel))) ++ [Post]).
Proof.
  intros em sel sched Hnd Hok Hc.
  rewrite map_app in Hnd. destruct (NoDup_app_inv _ _ Hnd) as (Hndem & Hsel & Hdis).
  set (out := fst (run sched (map worker_events sel))).
  assert (Hout : forall e, In e out -> In e (worker_events (concat sel))).
  { intros e He. rewrite <- concat_map_worker.
    exact (Permutation_in e (run_complete_perm sched _ Hc) He). }
  set (own := fun e => match ev_id e with Some i => find_owner sel i | None => O end).
  assert (Hown : forall j e, In e (nth j (map worker_events sel) []) -> own e = j).
  { intros j e He. rewrite nth_map_worker in He. destruct (worker_events_In _ e He) as (m & Hm & Hem).
    unfold own. rewrite (proj1 (member_events_id m e Hem)). exact (find_owner_spec sel j m Hsel Hm). }
  apply wellformed_intro; [assumption| |].
  - intros e He. rewrite worker_events_app. apply in_or_app. apply in_app_or in He.
    destruct He as [He|He]; [now left|right; exact (Hout e He)].
  - intros m Hm. unfold proj. rewrite filter_app. apply in_app_or in Hm. destruct Hm as [Hm|Hm].
    + fold (proj (m_id m) (worker_events em)). rewrite (proj_worker_events em m Hndem Hm).
      rewrite (filter_nil_all (of_id (m_id m)) out); [apply app_nil_r|].
      intros e He. destruct (of_id (m_id m) e) eqn:E; [|reflexivity]. apply of_id_true in E.
      destruct (worker_events_In _ e (Hout e He)) as (m' & Hm' & Hem').
      rewrite (proj1 (member_events_id m' e Hem')) in E. injection E as E. exfalso.
      apply (Hdis (m_id m)); [now apply in_map|rewrite <- E; now apply in_map].
    + fold (proj (m_id m) (worker_events em)). rewrite proj_worker_notin.
      2:{ intro Hi. apply (Hdis _ Hi). now apply in_map. }
      simpl. destruct (In_concat_nth sel m Hm) as (j & Hj).
      rewrite <- (filter_filter_sub (of_id (m_id m)) (fun e => Nat.eqb (own e) j)).
      * unfold out. rewrite (run_complete_owner own sched _ Hown Hc j), nth_map_worker.
        exact (proj_worker_events _ m (NoDup_concat_nth sel j Hsel) Hj).
      * intros e E. apply of_id_true in E. unfold own. rewrite E. apply Nat.eqb_eq.
        exact (find_owner_spec sel j m Hsel Hj).
Qed.

Theorem events_wellformed : forall sh sched, shape_ok sh -> complete sh sched = true ->
  wellformed (processed sh) (emitted sh sched).
Proof.
  intros sh sched [Hnd Hok] Hc. unfold emitted, complete, processed, main_events, workers in *.
  destruct (s_mode sh).
  - rewrite run_nil, app_nil_r. now apply wellformed_sequential.
  - rewrite run_nil, app_nil_r. now apply wellformed_sequential.
  - rewrite run_nil, app_nil_r. rewrite <- worker_events_concat, <- worker_events_app. now apply wellformed_sequential.
  - now apply wellformed_parallel.
Qed.

(* ================================================================ readable consequences *)
(* exactly one Start, exactly one End, Start first, both with the member's name *)
Theorem one_start_then_one_end : forall ms evs, wellformed ms evs -> forall m, In m ms ->
  filter (fun e => of_id (m_id m) e && is_startend e) evs
  = [Start (m_id m) (m_name m) (m_csize m); End (m_id m) (m_name m) (m_size m)].
Proof.
  intros ms evs (mid & -> & _ & _ & Hm) m Hin. destruct (Hm m Hin) as (us & Hp & _).
  simpl. rewrite filter_app. simpl. rewrite app_nil_r, filter_and. fold (proj (m_id m) mid). rewrite Hp.
  unfold canonical. simpl. rewrite filter_app. simpl.
  rewrite (filter_nil_all is_startend); [reflexivity|].
  intros e He. apply in_map_iff in He. destruct He as (u & <- & _). reflexivity.
Qed.

Lemma wellformed_event_member : forall ms evs, wellformed ms evs -> forall e, In e evs -> is_prepost e = false ->
  exists m us, In m ms /\ ev_id e = Some (m_id m) /\ In e (canonical m us) /\
               (delivered m = true -> zsum us = m_size m) /\ (delivered m = false -> us = []).
Proof.
  intros ms evs (mid & -> & _ & Hmem & Hm) e He Hpp.
  assert (Hmid : In e mid).
  { destruct He as [<-|He]; [discriminate|]. apply in_app_or in He. destruct He as [He|[<-|[]]]; [assumption|discriminate]. }
  destruct (Hmem e Hmid) as (m & Hin & Hid). destruct (Hm m Hin) as (us & Hp & Hd).
  exists m, us. repeat split; try assumption; try apply Hd.
  rewrite <- Hp. apply filter_In. split; [assumption|]. now apply of_id_true.
Qed.

(* the End event carries the member's name and uncompressed size (str(f.uncompressed)), the Start event its name *)
Theorem start_end_payload : forall ms evs, wellformed ms evs ->
  (forall i nm s, In (End i nm s) evs -> exists m, In m ms /\ i = m_id m /\ nm = m_name m /\ s = m_size m) /\
  (forall i nm c, In (Start i nm c) evs -> exists m, In m ms /\ i = m_id m /\ nm = m_name m /\ c = m_csize m) /\
  (forall i n, In (Update i n) evs -> exists m, In m ms /\ i = m_id m /\ delivered m = true).
Proof.
  intros ms evs Hwf. split; [|split].
  - intros i nm s He. destruct (wellformed_event_member ms evs Hwf _ He eq_refl) as (m & us & Hin & _ & Hc & _).
    exists m. split; [assumption|]. destruct Hc as [Hc|Hc]; [discriminate|].
    apply in_app_or in Hc. destruct Hc as [Hc|[Hc|[]]].
    + apply in_map_iff in Hc. destruct Hc as (u & Hu & _). discriminate.
    + injection Hc as -> -> ->. repeat split.
  - intros i nm c He. destruct (wellformed_event_member ms evs Hwf _ He eq_refl) as (m & us & Hin & _ & Hc & _).
    exists m. split; [assumption|]. destruct Hc as [Hc|Hc].
    + injection Hc as -> -> ->. repeat split.
    + apply in_app_or in Hc. destruct Hc as [Hc|[Hc|[]]]; [|discriminate].
      apply in_map_iff in Hc. destruct Hc as (u & Hu & _). discriminate.
  - intros i n He. destruct (wellformed_event_member ms evs Hwf _ He eq_refl) as (m & us & Hin & _ & Hc & _ & Hnd).
    exists m. split; [assumption|]. destruct Hc as [Hc|Hc]; [discriminate|].
    apply in_app_or in Hc. destruct Hc as [Hc|[Hc|[]]]; [|discriminate].
    apply in_map_iff in Hc. destruct Hc as (u & Hu & Hinu). injection Hu as -> ->. split; [reflexivity|].
    destruct (delivered m); [reflexivity|]. rewrite (Hnd eq_refl) in Hinu. contradiction.
Qed.

(* the update events of the whole extraction sum to the sizes of the delivered members *)
Lemma upd_total_app : forall a b, upd_total (a ++ b) = upd_total a + upd_total b.
Proof. intros. unfold upd_total. rewrite map_app. apply zsum_app. Qed.

Lemma upd_total_perm : forall a b, Permutation a b -> upd_total a = upd_total b.
Proof. intros a b H. unfold upd_total. induction H; simpl; lia. Qed.

Lemma upd_total_updates : forall i us, upd_total (map (Update i) us) = zsum us.
Proof. intros i us. unfold upd_total. induction us as [|u us IH]; simpl; [reflexivity|]. simpl in IH. lia. Qed.

Definition delivered_bytes (ms : list member) : Z := zsum (map m_size (filter delivered ms)).

Lemma upd_total_worker : forall ms, (forall m, In m ms -> member_ok m = true) ->
  upd_total (worker_events ms) = delivered_bytes ms.
Proof.
  induction ms as [|m ms IH]; intros Hok; [reflexivity|].
  change (worker_events (m :: ms)) with (member_events m ++ worker_events ms).
  rewrite upd_total_app, IH by (intros; apply Hok; now right).
  unfold member_events. change (upd_total (?s :: ?l)) with (upd_val s + upd_total l). simpl upd_val.
  rewrite upd_total_app, upd_total_updates. unfold delivered_bytes. simpl filter.
  destruct (member_updates_ok m (Hok m (or_introl eq_refl))) as [Hd Hn].
  destruct (delivered m) eqn:E.
  - rewrite (Hd eq_refl). simpl. unfold upd_total. simpl. lia.
  - rewrite (Hn eq_refl). unfold upd_total. simpl. lia.
Qed.

Theorem updates_total : forall sh sched, shape_ok sh -> complete sh sched = true ->
  upd_total (emitted sh sched) = delivered_bytes (processed sh).
Proof.
  intros sh sched [_ Hok] Hc. rewrite <- (upd_total_worker _ Hok).
  unfold emitted, complete, processed, main_events, workers in *.
  change (upd_total (Pre :: ?l)) with (0 + upd_total l). rewrite upd_total_app.
  change (upd_total [Post]) with 0.
  destruct (s_mode sh).
  - rewrite run_nil, app_nil_r. lia.
  - rewrite run_nil, app_nil_r. lia.
  - rewrite run_nil, app_nil_r, <- worker_events_concat, <- worker_events_app. lia.
  - rewrite upd_total_app, worker_events_app, upd_total_app.
    rewrite (upd_total_perm _ _ (run_complete_perm sched _ Hc)), concat_map_worker. lia.
Qed.

(* ================================================================ the decision procedure is exact *)
Lemma list_eqb_eq {A} (eqb : A -> A -> bool) : (forall x y, eqb x y = true <-> x = y) ->
  forall a b, list_eqb eqb a b = true <-> a = b.
Proof.
  intros Heq. induction a as [|x a IH]; intros [|y b]; simpl; split; intro H; try discriminate; try reflexivity.
  - apply andb_true_iff in H. destruct H as [H1 H2]. apply Heq in H1. apply IH in H2. now subst.
  - injection H as -> ->. apply andb_true_iff. split; [now apply Heq|now apply IH].
Qed.

Lemma event_eqb_eq : forall a b, event_eqb a b = true <-> a = b.
Proof.
  pose proof (list_eqb_eq Z.eqb Z.eqb_eq) as HL.
  intros [| |i n c|i n|i n s] [| |i' n' c'|i' n'|i' n' s']; simpl; split; intro H;
    try discriminate; try reflexivity.
  - apply andb_true_iff in H. destruct H as [H H3]. apply andb_true_iff in H. destruct H as [H1 H2].
    apply Z.eqb_eq in H1, H3. apply HL in H2. now subst.
  - injection H as -> -> ->. rewrite !Z.eqb_refl. rewrite (proj2 (HL n' n') eq_refl). reflexivity.
  - apply andb_true_iff in H. destruct H as [H1 H2]. apply Z.eqb_eq in H1, H2. now subst.
  - injection H as -> ->. rewrite !Z.eqb_refl. reflexivity.
  - apply andb_true_iff in H. destruct H as [H H3]. apply andb_true_iff in H. destruct H as [H1 H2].
    apply Z.eqb_eq in H1, H3. apply HL in H2. now subst.
  - injection H as -> -> ->. rewrite !Z.eqb_refl. rewrite (proj2 (HL n' n') eq_refl). reflexivity.
Qed.

Lemma upd_vals_canonical : forall m us, upd_vals (canonical m us) = us.
Proof.
  intros m us. unfold canonical, upd_vals. simpl. rewrite flat_map_app. simpl. rewrite app_nil_r.
  induction us as [|u us IH]; simpl; [reflexivity|]. now rewrite IH.
Qed.

Lemma is_nil_eq {A} : forall (l : list A), is_nil l = true <-> l = [].
Proof. intros [|x l]; simpl; split; intro H; try reflexivity; discriminate. Qed.

Theorem wellformedb_iff : forall ms evs, wellformedb ms evs = true <-> wellformed ms evs.
Proof.
  intros ms evs. split.
  - intro H. unfold wellformedb in H. destruct evs as [|[| | | |] t]; try discriminate.
    destruct (rev t) as [|[| | | |] rmid] eqn:Er; try discriminate.
    assert (Et : t = rev rmid ++ [Post]) by (rewrite <- (rev_involutive t), Er; reflexivity).
    apply andb_true_iff in H. destruct H as [H H3]. apply andb_true_iff in H. destruct H as [H1 H2].
    exists (rev rmid). split; [now rewrite Et|]. split; [|split].
    + intros e He. rewrite forallb_forall in H1. specialize (H1 e He). now apply negb_true_iff in H1.
    + intros e He. rewrite forallb_forall in H2. specialize (H2 e He). apply existsb_exists in H2.
      destruct H2 as (m & Hm & Hid). exists m. split; [assumption|]. destruct (ev_id e); [|discriminate].
      apply Z.eqb_eq in Hid. now subst.
    + intros m Hm. rewrite forallb_forall in H3. specialize (H3 m Hm). unfold member_okb in H3.
      apply andb_true_iff in H3. destruct H3 as [Hp Hs]. apply (list_eqb_eq event_eqb event_eqb_eq) in Hp.
      exists (upd_vals (proj (m_id m) (rev rmid))). split; [assumption|].
      destruct (delivered m); split; intro Hd; try discriminate.
      * now apply Z.eqb_eq. * now apply is_nil_eq.
  - intros (mid & -> & H1 & H2 & H3). unfold wellformedb. rewrite rev_app_distr. simpl. rewrite rev_involutive.
    apply andb_true_iff. split; [apply andb_true_iff; split|].
    + apply forallb_forall. intros e He. now rewrite (H1 e He).
    + apply forallb_forall. intros e He. destruct (H2 e He) as (m & Hm & Hid). apply existsb_exists.
      exists m. split; [assumption|]. rewrite Hid. apply Z.eqb_refl.
    + apply forallb_forall. intros m Hm. destruct (H3 m Hm) as (us & Hp & Hd & Hn). unfold member_okb.
      rewrite Hp, upd_vals_canonical. apply andb_true_iff. split.
      * now apply (list_eqb_eq event_eqb event_eqb_eq).
      * destruct (delivered m); [apply Z.eqb_eq; now apply Hd|apply is_nil_eq; now apply Hn].
Qed.

(* ================================================================ reporter and close() *)
Theorem reporter_fifo : forall evs rest, reporter (map Some evs ++ None :: rest) = (evs, true).
Proof. induction evs as [|e evs IH]; intros rest; simpl; [reflexivity|]. now rewrite IH. Qed.

Theorem reporter_alive : forall evs, reporter (map Some evs) = (evs, false).
Proof. induction evs as [|e evs IH]; simpl; [reflexivity|]. now rewrite IH. Qed.

(* if the reporter thread has ended it has handled exactly the items in front of the first sentinel, in order *)
Theorem reporter_terminated : forall q d, reporter q = (d, true) -> exists rest, q = map Some d ++ None :: rest.
Proof.
  induction q as [|[e|] q IH]; intros d H; simpl in H.
  - discriminate.
  - destruct (reporter q) as [d' fin] eqn:E. injection H as <- ->. destruct (IH d' eq_refl) as (rest & ->).
    exists rest. reflexivity.
  - injection H as <-. exists q. reflexivity.
Qed.

Definition costs_nonneg (items : list (Z * Z)) : Prop := Forall (fun it => 0 <= snd it) items.

Lemma last_completion_ge : forall items free, costs_nonneg items -> free <= last (completions free items) free.
Proof.
  induction items as [|[a c] r IH]; intros free Hc; simpl completions; [simpl; lia|].
  inversion Hc as [|? ? Hc0 Hcr]; subst. simpl in Hc0. rewrite last_cons_def.
  specialize (IH (Z.max free a + c) Hcr). lia.
Qed.

Lemma completions_le_last : forall items free, costs_nonneg items ->
  Forall (fun d => d <= last (completions free items) free) (completions free items).
Proof.
  induction items as [|[a c] r IH]; intros free Hc; simpl completions; [constructor|].
  inversion Hc as [|? ? Hc0 Hcr]; subst. rewrite last_cons_def. constructor.
  - exact (last_completion_ge r _ Hcr). - exact (IH _ Hcr).
Qed.

Lemma filter_all_length {A} (P : A -> bool) : forall l, Forall (fun x => P x = true) l -> length (filter P l) = length l.
Proof. induction l as [|h l IH]; intros H; [reflexivity|]. inversion H; subst. simpl. rewrite H2. simpl. f_equal. now apply IH. Qed.

Lemma filter_none_length {A} (P : A -> bool) : forall l, Forall (fun x => P x = false) l -> length (filter P l) = O.
Proof. induction l as [|h l IH]; intros H; [reflexivity|]. inversion H; subst. simpl. rewrite H2. now apply IH. Qed.

Lemma completions_length : forall items free, length (completions free items) = length items.
Proof. induction items as [|[a c] r IH]; intros free; simpl; [reflexivity|]. now rewrite IH. Qed.

(* close() returns only after every handler call of the session has completed, and none comes later: unconditional,
   however much handler time is owed *)
Theorem all_before_close : forall free items tc tret nb na, costs_nonneg items ->
  close_model free items tc = (tret, nb, na) ->
  tc <= tret /\ Forall (fun d => d <= tret) (completions free items) /\ nb = Z.of_nat (length items) /\ na = 0.
Proof.
  intros free items tc tret nb na Hc H. unfold close_model, last_completion in H.
  injection H as H2 H3 H4.
  assert (Hall : Forall (fun d => d <= tret) (completions free items)).
  { subst tret. eapply Forall_impl; [|exact (completions_le_last items free Hc)]. simpl. intros; lia. }
  split; [lia|]. split; [assumption|]. split.
  - subst nb. rewrite filter_all_length, completions_length; [reflexivity|].
    eapply Forall_impl; [|exact Hall]. intros d Hd. cbv beta in Hd. apply Z.leb_le. lia.
  - subst na. rewrite filter_none_length; [reflexivity|].
    eapply Forall_impl; [|exact Hall]. intros d Hd. cbv beta in Hd. apply Z.ltb_ge. lia.
Qed.

Lemma last_completion_bound : forall items free T s, Forall (fun it => fst it <= T /\ 0 <= snd it) items ->
  free <= T + s -> 0 <= s -> last (completions free items) free <= T + s + zsum (map snd items).
Proof.
  induction items as [|[a c] r IH]; intros free T s H Hf Hs; simpl completions; [simpl; lia|].
  inversion H as [|? ? [Ha Hc0] Hr]; subst. simpl in Ha, Hc0. rewrite last_cons_def.
  specialize (IH (Z.max free a + c) T (s + c) Hr). simpl. lia.
Qed.

(* close() waits no longer than the handler time still owed when it is called *)
Theorem close_wait_bounded : forall free items tc,
  Forall (fun it => fst it <= tc /\ 0 <= snd it) items -> free <= tc ->
  fst (fst (close_model free items tc)) <= tc + zsum (map snd items).
Proof.
  intros free items tc H Hf. unfold close_model, last_completion. simpl.
  pose proof (last_completion_bound items free tc 0 H ltac:(lia) ltac:(lia)).
  assert (0 <= zsum (map snd items)).
  { clear -H. induction H as [|[a c] l [_ Hc] _ IH]; simpl in *; lia. }
  lia.
Qed.

(* ================================================================ several extractions in one session *)
Lemma reporter_rest_fifo : forall evs rest, reporter_rest (map Some evs ++ None :: rest) = (evs, true, rest).
Proof. induction evs as [|e evs IH]; intros rest; simpl; [reflexivity|]. now rewrite IH. Qed.

(* the first callback receives exactly the first extraction's events, the second callback exactly the second's *)
Theorem second_extraction_own_callback : forall ev1 ev2,
  reporter_rest (map Some ev1 ++ None :: map Some ev2 ++ [None]) = (ev1, true, map Some ev2 ++ [None]) /\
  reporter_rest (map Some ev2 ++ [None]) = (ev2, true, []) /\
  accounts 3 (map Some ev1 ++ None :: map Some ev2 ++ [None]) = [ev1; ev2].
Proof.
  intros ev1 ev2. split; [apply reporter_rest_fifo|]. split; [apply reporter_rest_fifo|].
  assert (Hne : forall evs (r : list (option event)), map Some evs ++ None :: r <> []) by (intros [|? ?] r; discriminate).
  unfold accounts; fold accounts.
  destruct (map Some ev1 ++ None :: map Some ev2 ++ [None]) eqn:E1; [exfalso; exact (Hne _ _ E1)|]. rewrite <- E1.
  rewrite reporter_rest_fifo.
  destruct (map Some ev2 ++ [None]) eqn:E2; [exfalso; exact (Hne _ _ E2)|]. rewrite <- E2.
  rewrite reporter_rest_fifo. reflexivity.
Qed.

(* ================================================================ limits *)
Definition ex_m (i : Z) (nm : name) (sz : Z) (tg : bool) : member := mkMember i nm 0 sz false tg [(sz, 0)].
Definition ex_shape : shape :=
  mkShape MultiPar
    [mkMember 0 [100] 0 0 true false []; ex_m 1 [97] 10 true; ex_m 2 [98] 20 false; ex_m 3 [99] 30 true; ex_m 4 [101] 5 false]
    [[ex_m 1 [97] 10 true; ex_m 2 [98] 20 false]; [ex_m 3 [99] 30 true]; [ex_m 4 [101] 5 false]].
Definition ex_sched : list nat := [1; 0; 0; 1; 0; 1; 0; 0]%nat.

Lemma shape_ok_dec : forall sh,
  list_eqb Z.eqb (nodup Z.eq_dec (map m_id (processed sh))) (map m_id (processed sh)) = true ->
  forallb member_ok (processed sh) = true -> shape_ok sh.
Proof.
  intros sh H1 H2. split.
  - apply (list_eqb_eq Z.eqb Z.eqb_eq) in H1. rewrite <- H1. apply NoDup_nodup.
  - now apply forallb_forall.
Qed.

Lemma ex_shape_ok : shape_ok ex_shape.
Proof. apply shape_ok_dec; vm_compute; reflexivity. Qed.

(* mp=True: the folder workers' events never reach the reporter; the members they extract get no Start and no End *)
Theorem events_lost_mp_refuted : exists sh, shape_ok sh /\ ~ wellformed (processed sh) (emitted_mp sh).
Proof.
  exists ex_shape. split; [exact ex_shape_ok|]. intro H. apply wellformedb_iff in H. vm_compute in H. discriminate.
Qed.

(* what survives with mp=True: pre, the empty-stream pass, post *)
Theorem events_mp_partial : forall sh, shape_ok sh -> s_mode sh = MultiPar -> wellformed (empties sh) (emitted_mp sh).
Proof.
  intros sh [Hnd Hok] Hm. unfold emitted_mp, main_events, processed in *. rewrite Hm in *.
  rewrite map_app in Hnd. destruct (NoDup_app_inv _ _ Hnd) as (Hem & _ & _).
  apply wellformed_sequential; [assumption|]. intros m H. apply Hok. apply in_or_app. now left.
Qed.

