(* SigGen.v -- SignatureHeader.calccrc / write / _write_skeleton as generated from py7zr/archiveinfo.py
   (gen/ArchiveinfoSig.v, over helpers.calculate_crc32 of gen/HelpersCrc.v with zlib.crc32 := Crc32.crc32_update) are the
   signature header of the hand models: Enc.sig_header (C20), Trace.start_crc / sig_fields / skeleton32 (C09). *)
From P7 Require Import Prelude PyPrims PyStr PyRe Number NumberGen Crc32 Header HeaderPrims HeaderGenPrims PackInfoGen FolderGen CrcGen Trace Enc.
From P7gen Require Import ArchiveinfoPrims ArchiveinfoRecords.
From P7gen Require HelpersCrc ArchiveinfoSig.
From Coq Require Import ZifyBool ZifyNat.
Open Scope Z_scope.

Definition zcrc : bytes -> Z -> Z := fun d v => crc32_update v d.
Notation SigHdr := ArchiveinfoSig.SignatureHeader.
Notation mkSig := ArchiveinfoSig.mkSignatureHeader.

Lemma wr_fixed_len n v b : wr_fixed n v = Ok b -> length b = n.
Proof.
  unfold wr_fixed. destruct ((v <? 0) || (256 ^ Z.of_nat n <=? v)); [discriminate|]. intros H. apply Ok_inj in H. subst b.
  clear. revert v. induction n as [|n IH]; intros v; cbn [le_bytes length]; [reflexivity|]. now rewrite IH.
Qed.

(* write_byte asserts that it is given one byte *)
Lemma gen_write_byte_one x : length x = 1%nat -> write_byte x = Ok x.
Proof. intros H. destruct x as [|b [|c r]]; try discriminate. reflexivity. Qed.

(* calccrc: the two fields are stored, the start header CRC is the CRC-32 of the 20 bytes ofs(8) size(8) crc(4) *)
Theorem gen_sig_calccrc (self : SigHdr) fuel size hcrc : (20 <= fuel)%nat ->
  ArchiveinfoSig.SignatureHeader_calccrc zcrc self fuel size hcrc
  = (do a <- wr_fixed 8 (ArchiveinfoSig.SignatureHeader_nextheaderofs self); do b <- wr_fixed 8 size; do c <- wr_fixed 4 hcrc;
     Ok (mkSig (ArchiveinfoSig.SignatureHeader_version self) (crc32 (a ++ b ++ c))
               (ArchiveinfoSig.SignatureHeader_nextheaderofs self) size hcrc)).
Proof.
  intros Hf. unfold ArchiveinfoSig.SignatureHeader_calccrc. cbv zeta.
  rewrite gen_write_real_uint64_wr_fixed. destruct (wr_fixed 8 _) as [a|e] eqn:Ea; cbn [bind]; [|reflexivity].
  rewrite gen_write_real_uint64_wr_fixed. destruct (wr_fixed 8 size) as [b|e] eqn:Eb; cbn [bind]; [|reflexivity].
  rewrite gen_write_uint32_wr_fixed. destruct (wr_fixed 4 hcrc) as [c|e] eqn:Ec; cbn [bind]; [|reflexivity].
  unfold zcrc. rewrite gen_calculate_crc32_is_crc32; [| cbn; lia | lia |].
  - cbn [bind app]. rewrite <- app_assoc. reflexivity.
  - rewrite !app_length, (wr_fixed_len _ _ _ Ea), (wr_fixed_len _ _ _ Eb), (wr_fixed_len _ _ _ Ec). cbn [length]. lia.
Qed.

(* write: the four asserts, then 6 + 1 + 1 + 4 + 8 + 8 + 4 bytes from offset 0 (file.seek(0, 0) comes first) *)
Theorem gen_sig_write (self : SigHdr) :
  length (fst (ArchiveinfoSig.SignatureHeader_version self)) = 1%nat ->
  length (snd (ArchiveinfoSig.SignatureHeader_version self)) = 1%nat ->
  ArchiveinfoSig.SignatureHeader_write self
  = let crc := ArchiveinfoSig.SignatureHeader_startheadercrc self in
    let ofs := ArchiveinfoSig.SignatureHeader_nextheaderofs self in
    let size := ArchiveinfoSig.SignatureHeader_nextheadersize self in
    let hcrc := ArchiveinfoSig.SignatureHeader_nextheadercrc self in
    if (0 <=? crc) && (0 <=? hcrc) && (0 <=? ofs) && (0 <? size) then
      do a <- wr_fixed 4 crc; do b <- wr_fixed 8 ofs; do c <- wr_fixed 8 size; do d <- wr_fixed 4 hcrc;
      Ok (MAGIC ++ fst (ArchiveinfoSig.SignatureHeader_version self) ++ snd (ArchiveinfoSig.SignatureHeader_version self)
          ++ a ++ b ++ c ++ d)
    else Err EOther.
Proof.
  intros Hv0 Hv1. unfold ArchiveinfoSig.SignatureHeader_write. cbv zeta.
  destruct (0 <=? ArchiveinfoSig.SignatureHeader_startheadercrc self); cbn [andb]; [|reflexivity].
  destruct (0 <=? ArchiveinfoSig.SignatureHeader_nextheadercrc self); cbn [andb]; [|reflexivity].
  destruct (0 <=? ArchiveinfoSig.SignatureHeader_nextheaderofs self); cbn [andb]; [|reflexivity].
  destruct (0 <? ArchiveinfoSig.SignatureHeader_nextheadersize self); [|reflexivity].
  rewrite !gen_write_bytes, (gen_write_byte_one _ Hv0), (gen_write_byte_one _ Hv1). cbn [bind].
  rewrite gen_write_uint32_wr_fixed. destruct (wr_fixed 4 _) as [a|e]; cbn [bind]; [|reflexivity].
  rewrite gen_write_real_uint64_wr_fixed. destruct (wr_fixed 8 _) as [b|e]; cbn [bind]; [|reflexivity].
  rewrite gen_write_real_uint64_wr_fixed. destruct (wr_fixed 8 _) as [c|e]; cbn [bind]; [|reflexivity].
  rewrite gen_write_uint32_wr_fixed. destruct (wr_fixed 4 _) as [d|e]; cbn [bind]; [|reflexivity].
  f_equal. cbn [app]. rewrite <- ?app_assoc. reflexivity.
Qed.

Theorem gen_sig_write_skeleton (self : SigHdr) :
  length (fst (ArchiveinfoSig.SignatureHeader_version self)) = 1%nat ->
  length (snd (ArchiveinfoSig.SignatureHeader_version self)) = 1%nat ->
  ArchiveinfoSig.SignatureHeader_write_skeleton self
  = Ok (MAGIC ++ fst (ArchiveinfoSig.SignatureHeader_version self) ++ snd (ArchiveinfoSig.SignatureHeader_version self)
        ++ sig_fields 1 2 3 4).
Proof.
  intros Hv0 Hv1. unfold ArchiveinfoSig.SignatureHeader_write_skeleton. cbv zeta.
  rewrite !gen_write_bytes, (gen_write_byte_one _ Hv0), (gen_write_byte_one _ Hv1). cbn [bind].
  rewrite !gen_write_uint32_wr_fixed, !gen_write_real_uint64_wr_fixed.
  change (wr_fixed 4 1) with (Ok (le_bytes 4 1)). change (wr_fixed 8 2) with (Ok (le_bytes 8 2)).
  change (wr_fixed 8 3) with (Ok (le_bytes 8 3)). change (wr_fixed 4 4) with (Ok (le_bytes 4 4)). cbn [bind].
  unfold sig_fields. f_equal. rewrite <- ?app_assoc. reflexivity.
Qed.

(* a new archive: SignatureHeader() -- version 0.4 -- gets nextheaderofs, then calccrc(size, crc), then write: Enc.sig_header
   (C20's layout) and Trace's final signature writes (C09) *)
Definition sig_new (ofs : Z) : SigHdr := mkSig ([0], [4]) (-1) ofs (-1) (-1).

Theorem gen_sig_calccrc_write ofs size hcrc fuel : (20 <= fuel)%nat -> 0 <= ofs -> 0 < size -> 0 <= hcrc ->
  (do o <- ArchiveinfoSig.SignatureHeader_calccrc zcrc (sig_new ofs) fuel size hcrc; ArchiveinfoSig.SignatureHeader_write o)
  = sig_header ofs size hcrc.
Proof.
  intros Hf Ho Hs Hc. rewrite gen_sig_calccrc by exact Hf. unfold sig_header, le_res, sig_new.
  cbn [ArchiveinfoSig.SignatureHeader_nextheaderofs ArchiveinfoSig.SignatureHeader_version].
  destruct (wr_fixed 8 ofs) as [a|e] eqn:Ea; cbn [bind]; [|reflexivity].
  destruct (wr_fixed 8 size) as [b|e] eqn:Eb; cbn [bind]; [|reflexivity].
  destruct (wr_fixed 4 hcrc) as [c|e] eqn:Ec; cbn [bind]; [|reflexivity].
  rewrite gen_sig_write by reflexivity.
  cbn [ArchiveinfoSig.SignatureHeader_startheadercrc ArchiveinfoSig.SignatureHeader_nextheaderofs
       ArchiveinfoSig.SignatureHeader_nextheadersize ArchiveinfoSig.SignatureHeader_nextheadercrc
       ArchiveinfoSig.SignatureHeader_version fst snd]. cbv zeta.
  assert (Hcrc : 0 <= crc32 (a ++ b ++ c)) by (unfold crc32; apply crc32_update_range; cbn; lia).
  replace ((0 <=? crc32 (a ++ b ++ c)) && (0 <=? hcrc) && (0 <=? ofs) && (0 <? size)) with true by lia.
  destruct (wr_fixed 4 (crc32 (a ++ b ++ c))) as [s|e]; cbn [bind]; [|reflexivity].
  rewrite Ea, Eb, Ec. cbn [bind]. f_equal; cbn [app]; rewrite <- ?app_assoc; reflexivity.
Qed.

(* the same bytes, as Trace.v names them: magic, version, sig_fields (start_crc ..) .. *)
Corollary gen_sig_calccrc_write_trace ofs size hcrc fuel : (20 <= fuel)%nat ->
  0 <= ofs < 2 ^ 64 -> 0 < size < 2 ^ 64 -> 0 <= hcrc < 2 ^ 32 ->
  (do o <- ArchiveinfoSig.SignatureHeader_calccrc zcrc (sig_new ofs) fuel size hcrc; ArchiveinfoSig.SignatureHeader_write o)
  = Ok (MAGIC ++ [0; 4] ++ sig_fields (start_crc ofs size hcrc) ofs size hcrc).
Proof.
  intros Hf Ho Hs Hc. rewrite gen_sig_calccrc_write by lia. unfold sig_header, le_res, sig_fields, start_crc, start_fields, wr_fixed.
  replace ((ofs <? 0) || (256 ^ Z.of_nat 8 <=? ofs)) with false by (change (256 ^ Z.of_nat 8) with (2 ^ 64); lia).
  replace ((size <? 0) || (256 ^ Z.of_nat 8 <=? size)) with false by (change (256 ^ Z.of_nat 8) with (2 ^ 64); lia).
  replace ((hcrc <? 0) || (256 ^ Z.of_nat 4 <=? hcrc)) with false by (change (256 ^ Z.of_nat 4) with (2 ^ 32); lia).
  cbn [bind].
  set (X := le_bytes 8 ofs ++ le_bytes 8 size ++ le_bytes 4 hcrc).
  assert (Hr : 0 <= crc32 X < 2 ^ 32) by (unfold crc32; apply crc32_update_range; cbn; lia).
  generalize dependent (crc32 X). intros v Hr.
  replace ((v <? 0) || (256 ^ Z.of_nat 4 <=? v)) with false by (change (256 ^ Z.of_nat 4) with (2 ^ 32); lia).
  cbn [bind]. reflexivity.
Qed.

(* ------------------------------------------------------------------ SignatureHeader._read / retrieve on the whole file image
   (after _check_7zfile): Trace.v's fields, Bad7zFile when the start header CRC does not match *)
Lemma crc_chain fuel d1 d2 d3 : (length d1 <= fuel)%nat -> (length d2 <= fuel)%nat -> (length d3 <= fuel)%nat ->
  (do t6 <- HelpersCrc.calculate_crc32 zcrc fuel d1 0 1048576;
   do t8 <- HelpersCrc.calculate_crc32 zcrc fuel d2 t6 1048576;
   HelpersCrc.calculate_crc32 zcrc fuel d3 t8 1048576) = Ok (crc32 (d1 ++ d2 ++ d3)).
Proof.
  intros H1 H2 H3. unfold zcrc.
  rewrite gen_calculate_crc32_is_crc32 by (try lia; cbn; lia). cbn [bind].
  pose proof (crc32_update_range 0 d1 ltac:(cbn; lia)) as R1.
  rewrite gen_calculate_crc32_is_crc32 by (try lia; exact R1). cbn [bind].
  pose proof (crc32_update_range (crc32_update 0 d1) d2 R1) as R2.
  rewrite gen_calculate_crc32_is_crc32 by (try lia; exact R2).
  unfold crc32. rewrite !crc32_update_app by (try exact R1; cbn; lia). reflexivity.
Qed.

Lemma rd_read_app (a b : bytes) n : 0 <= n -> length a = Z.to_nat n -> rd_read (a ++ b) n = (a, b).
Proof.
  intros Hn Hl. rewrite rd_read_nat by exact Hn. rewrite <- Hl, firstn_app, skipn_app, firstn_all, skipn_all, Nat.sub_diag.
  cbn [firstn skipn app]. now rewrite app_nil_r.
Qed.
Lemma rd_fixed_app n (a b : bytes) : length a = n -> rd_fixed n (a ++ b) = Ok (le_value a, b).
Proof.
  intros Hl. unfold rd_fixed. rewrite app_length. replace (length a + length b <? n)%nat with false by lia.
  rewrite <- Hl, firstn_app, skipn_app, firstn_all, skipn_all, Nat.sub_diag. cbn [firstn skipn app]. now rewrite app_nil_r.
Qed.

Lemma gen_sig_retrieve_parts (m : bytes) (v0 v1 : Z) (c4 o8 s8 h4 tl : bytes) fuel :
  length m = 6%nat -> length c4 = 4%nat -> length o8 = 8%nat -> length s8 = 8%nat -> length h4 = 4%nat -> (8 <= fuel)%nat ->
  ArchiveinfoSig.SignatureHeader_retrieve zcrc (m ++ ([v0; v1] ++ c4 ++ o8 ++ s8 ++ h4) ++ tl) fuel
  = if crc32 (o8 ++ s8 ++ h4) =? le_value c4
    then Ok (mkSig ([v0], [v1]) (le_value c4) (le_value o8) (le_value s8) (le_value h4), [])
    else Err EBad7z.
Proof.
  intros Hm Hc Ho Hs Hh Hf.
  unfold ArchiveinfoSig.SignatureHeader_retrieve, ArchiveinfoSig.SignatureHeader_read, ArchiveinfoSig.SignatureHeader_init. cbv zeta.
  change (py_len [55; 122; 188; 175; 39; 28]) with 6. change (6 <? 0) with false. change (26 <? 0) with false. cbn [bind].
  rewrite (rd_read_app m _ 6) by (try lia; rewrite Hm; reflexivity). cbn [snd].
  rewrite (rd_read_app _ tl 26) by (try lia; rewrite !app_length, Hc, Ho, Hs, Hh; reflexivity). cbv iota beta.
  change ([v0; v1] ++ c4 ++ o8 ++ s8 ++ h4) with ([v0] ++ [v1] ++ c4 ++ o8 ++ s8 ++ h4).
  rewrite (rd_read_app [v0] _ 1) by (try lia; reflexivity). cbv iota beta.
  rewrite (rd_read_app [v1] _ 1) by (try lia; reflexivity). cbv iota beta.
  rewrite gen_read_uint32_rd_fixed, (rd_fixed_app 4 c4) by exact Hc. cbn [bind]. cbv iota beta.
  rewrite gen_read_real_uint64_rd_fixed, (rd_fixed_app 8 o8) by exact Ho. cbn [bind]. cbv iota beta.
  assert (F1 : firstn 8 (o8 ++ s8 ++ h4) = o8) by (rewrite <- Ho, firstn_app, firstn_all, Nat.sub_diag; cbn [firstn]; now rewrite app_nil_r).
  rewrite F1.
  assert (F2 : firstn 8 (s8 ++ h4) = s8) by (rewrite <- Hs, firstn_app, firstn_all, Nat.sub_diag; cbn [firstn]; now rewrite app_nil_r).
  assert (F3 : firstn 4 h4 = h4) by (rewrite <- Hh; apply firstn_all).
  pose proof (crc_chain fuel o8 s8 h4 ltac:(lia) ltac:(lia) ltac:(lia)) as Hcrc.
  destruct (HelpersCrc.calculate_crc32 zcrc fuel o8 0 1048576) as [t6|e]; cbn [bind] in Hcrc |- *; [|discriminate].
  rewrite gen_read_real_uint64_rd_fixed, (rd_fixed_app 8 s8) by exact Hs. cbn [bind]. cbv iota beta. rewrite F2.
  destruct (HelpersCrc.calculate_crc32 zcrc fuel s8 t6 1048576) as [t8|e]; cbn [bind] in Hcrc |- *; [|discriminate].
  rewrite <- (app_nil_r h4) at 1. rewrite gen_read_uint32_rd_fixed, (rd_fixed_app 4 h4 []) by exact Hh. cbn [bind]. cbv iota beta.
  rewrite app_nil_r, F3, Hcrc. cbn [bind].
  destruct (crc32 (o8 ++ s8 ++ h4) =? le_value c4); reflexivity.
Qed.

Theorem gen_sig_retrieve (img : bytes) fuel : (8 <= fuel)%nat -> (32 <= length img)%nat ->
  ArchiveinfoSig.SignatureHeader_retrieve zcrc img fuel
  = if crc32 (slice img 12 20) =? le_value (slice img 8 4)
    then Ok (mkSig ([nth 6 img 0], [nth 7 img 0]) (le_value (slice img 8 4)) (sig_ofs img) (sig_size img) (sig_hcrc img), [])
    else Err EBad7z.
Proof.
  intros Hf Hl.
  assert (Himg : img = firstn 32 img ++ skipn 32 img) by (symmetry; apply firstn_skipn).
  assert (Hl32 : length (firstn 32 img) = 32%nat) by (rewrite firstn_length; lia).
  destruct (firstn 32 img) as [|b0 l] eqn:E; [discriminate|].
  do 31 (destruct l as [|? l]; [discriminate|]). destruct l; [|discriminate].
  rewrite Himg. set (tl := skipn 32 img). clearbody tl. clear - Hf.
  etransitivity;
    [exact (gen_sig_retrieve_parts [b0; z; z0; z1; z2; z3] z4 z5 [z6; z7; z8; z9] [z10; z11; z12; z13; z14; z15; z16; z17]
              [z18; z19; z20; z21; z22; z23; z24; z25] [z26; z27; z28; z29] tl fuel eq_refl eq_refl eq_refl eq_refl eq_refl Hf)|].
  unfold slice, sig_ofs, sig_size, sig_hcrc, slice. rewrite !dropZ_skipn, !takeZ_firstn by lia. reflexivity.
Qed.
