(* ParProofs.v -- proofs about the model Par.v (property C13). stdlib only, no axioms. *)
From P7 Require Import Prelude Par.
From Coq Require Import Arith PeanoNat Lia DecimalNat.
Local Open Scope nat_scope.

(* ------------------------------------------------------------------ lists *)
Lemma set_nth_length {A} : forall (l : list A) i x, length (set_nth i x l) = length l.
Proof. induction l as [|y r IH]; intros [|i] x; simpl; auto. Qed.

Lemma nth_error_set_nth_eq {A} : forall (l : list A) i x, i < length l -> nth_error (set_nth i x l) i = Some x.
Proof.
  induction l as [|y r IH]; intros [|i] x Hlt; simpl in *; try lia; auto.
  apply IH; lia.
Qed.

Lemma nth_error_set_nth_neq {A} : forall (l : list A) i j x, i <> j -> nth_error (set_nth i x l) j = nth_error l j.
Proof.
  induction l as [|y r IH]; intros [|i] [|j] x Hne; simpl; auto; try congruence.
Qed.

Lemma NoDup_app_snoc {A} : forall (l : list A) x, NoDup l -> ~ In x l -> NoDup (l ++ [x]).
Proof.
  induction l as [|y r IH]; intros x Hnd Hni; simpl.
  - constructor; auto.
  - inversion Hnd as [|y' r' Hy Hr]; subst. constructor.
    + intros Hin. apply in_app_or in Hin. destruct Hin as [Hin|[Heq|[]]]; auto. subst. apply Hni. left. reflexivity.
    + apply IH; auto. intros H. apply Hni. right. exact H.
Qed.

Lemma run_app : forall a b s, run (a ++ b) s = run b (run a s).
Proof. intros a b s. unfold run. apply fold_left_app. Qed.

Lemma run_cons : forall i r s, run (i :: r) s = run r (step i s).
Proof. reflexivity. Qed.

(* ------------------------------------------------------------------ eff / first_fail / lrun *)
Lemma eff_cons_nofail : forall a r, (forall e, a <> AFail e) -> eff (a :: r) = a :: eff r.
Proof. intros [o|o bs|e] r Hnf; simpl; auto. exfalso; apply (Hnf e); reflexivity. Qed.

Lemma eff_head : forall a r, exists t, eff (a :: r) = a :: t.
Proof. intros [o|o bs|e] r; simpl; eauto. Qed.

Lemma eff_incl : forall w a, In a (eff w) -> In a w.
Proof.
  induction w as [|b r IH]; intros a Hin; simpl in *; auto.
  destruct b as [o|o bs|e]; simpl in Hin; destruct Hin as [Heq|Hin]; auto; try contradiction.
Qed.

Lemma first_fail_eff : forall w e, In (AFail e) (eff w) <-> first_fail w = Some e.
Proof.
  induction w as [|b r IH]; intros e; simpl.
  - split; [contradiction | discriminate].
  - destruct b as [o|o bs|e']; simpl.
    + rewrite <- IH. split; [intros [Hd|Hin]; [discriminate|auto] | auto].
    + rewrite <- IH. split; [intros [Hd|Hin]; [discriminate|auto] | auto].
    + split; [intros [Heq|[]]; congruence | intros Heq; left; congruence].
Qed.

Lemma eff_nofail : forall w, first_fail w = None -> eff w = w.
Proof.
  induction w as [|b r IH]; intros Hnf; simpl in *; auto.
  destruct b as [o|o bs|e]; try discriminate; rewrite IH; auto.
Qed.

Lemma fp_app : forall a b, fp (a ++ b) = fp a ++ fp b.
Proof. intros a b. unfold fp. apply flat_map_app. Qed.

Lemma afp_in_fp : forall w a o, In a w -> In o (afp a) -> In o (fp w).
Proof. intros w a o Ha Ho. unfold fp. apply in_flat_map. eauto. Qed.

Lemma lrun_app : forall a b m p, lrun (a ++ b) m p = lrun b (fst (lrun a m p)) (snd (lrun a m p)).
Proof. induction a as [|x r IH]; intros b m p; simpl; auto. Qed.

Lemma lrun_snoc : forall d a m p,
  lrun (d ++ [a]) m p = (aout a (fst (lrun d m p)) (snd (lrun d m p)), apos a (snd (lrun d m p))).
Proof. intros d a m p. rewrite lrun_app. reflexivity. Qed.

Lemma upd_same : forall m o v, upd m o v o = v.
Proof. intros m o v. unfold upd. rewrite Nat.eqb_refl. reflexivity. Qed.

Lemma upd_other : forall m o v x, x <> o -> upd m o v x = m x.
Proof. intros m o v x Hne. unfold upd. destruct (Nat.eqb x o) eqn:E; auto. apply Nat.eqb_eq in E. contradiction. Qed.

(* an action touches only the outputs of its footprint ... *)
Lemma aout_other : forall a m p o, ~ In o (afp a) -> aout a m p o = m o.
Proof.
  intros [o1|o1 bs|e] m p o Hni; simpl in *; auto; apply upd_other; intros ->; apply Hni; auto.
Qed.

(* ... and what it leaves there depends on nothing but what was there (and the worker's own position) *)
Lemma aout_local : forall a m m' p o, m o = m' o -> aout a m p o = aout a m' p o.
Proof.
  intros [o1|o1 bs|e] m m' p o Heq; simpl; auto.
  - unfold upd. destruct (Nat.eqb o o1); auto.
  - unfold upd. destruct (Nat.eqb o o1) eqn:E; auto. apply Nat.eqb_eq in E. subst o1.
    unfold cur. rewrite Heq. reflexivity.
Qed.

Lemma aout_keeps : forall a m p o, exists_out m o = true -> exists_out (aout a m p) o = true.
Proof.
  intros [o1|o1 bs|e] m p o Hex; simpl; auto; unfold exists_out, upd in *; destruct (Nat.eqb o o1); auto.
Qed.

Lemma aout_creates : forall a m p o, In o (afp a) -> exists_out (aout a m p) o = true.
Proof.
  intros [o1|o1 bs|e] m p o Hin; simpl in *; try contradiction;
    destruct Hin as [<-|[]]; unfold exists_out; rewrite upd_same; reflexivity.
Qed.

Lemma lrun_keeps : forall acts m p o, exists_out m o = true -> exists_out (fst (lrun acts m p)) o = true.
Proof. induction acts as [|a r IH]; intros m p o Hex; simpl; auto. apply IH. apply aout_keeps. exact Hex. Qed.

Lemma lrun_creates : forall acts m p o, In o (fp acts) -> exists_out (fst (lrun acts m p)) o = true.
Proof.
  induction acts as [|a r IH]; intros m p o Hin; simpl in *; [contradiction|].
  apply in_app_or in Hin. destruct Hin as [Hin|Hin].
  - apply lrun_keeps. apply aout_creates. exact Hin.
  - apply IH. exact Hin.
Qed.

Lemma lrun_other : forall acts m p o, ~ In o (fp acts) -> fst (lrun acts m p) o = m o.
Proof.
  induction acts as [|a r IH]; intros m p o Hni; simpl in *; auto.
  rewrite IH by (intros Hin; apply Hni; apply in_or_app; auto).
  apply aout_other. intros Hin; apply Hni; apply in_or_app; auto.
Qed.

(* ------------------------------------------------------------------ one step *)
Lemma step_none : forall i s, nth_error (s_ws s) i = None -> step i s = s.
Proof. intros i s H. unfold step. rewrite H. reflexivity. Qed.

Lemma step_done : forall i s w, nth_error (s_ws s) i = Some w -> w_rem w = [] -> step i s = s.
Proof. intros i s w H Hr. unfold step. rewrite H, Hr. reflexivity. Qed.

Lemma step_act : forall i s w a rest, nth_error (s_ws s) i = Some w -> w_rem w = a :: rest ->
  step i s = mkS (aout a (s_out s) (w_pos w))
                 (match a with AFail e => s_chan s ++ [(i, e)] | _ => s_chan s end)
                 (set_nth i (mkW (w_done w ++ [a]) (apos a (w_pos w))
                                 (match a with AFail _ => [] | _ => rest end)) (s_ws s)).
Proof. intros i s w a rest H Hr. unfold step. rewrite H, Hr. reflexivity. Qed.

Lemma step_length : forall i s, length (s_ws (step i s)) = length (s_ws s).
Proof.
  intros i s. destruct (nth_error (s_ws s) i) as [w|] eqn:E; [|rewrite step_none; auto].
  destruct (w_rem w) as [|a rest] eqn:Er; [rewrite (step_done i s w); auto|].
  rewrite (step_act i s w a rest E Er). simpl. apply set_nth_length.
Qed.

Lemma step_other_w : forall i j s, i <> j -> nth_error (s_ws (step i s)) j = nth_error (s_ws s) j.
Proof.
  intros i j s Hne. destruct (nth_error (s_ws s) i) as [w|] eqn:E; [|rewrite step_none; auto].
  destruct (w_rem w) as [|a rest] eqn:Er; [rewrite (step_done i s w); auto|].
  rewrite (step_act i s w a rest E Er). simpl. apply nth_error_set_nth_neq. exact Hne.
Qed.

Lemma step_self_w : forall i s w, nth_error (s_ws s) i = Some w ->
  exists w', nth_error (s_ws (step i s)) i = Some w' /\ length (w_rem w') <= length (w_rem w) - 1.
Proof.
  intros i s w E. destruct (w_rem w) as [|a rest] eqn:Er.
  - rewrite (step_done i s w E Er). exists w. rewrite Er. simpl. auto.
  - rewrite (step_act i s w a rest E Er). simpl.
    eexists. split.
    + apply nth_error_set_nth_eq. apply nth_error_Some. congruence.
    + simpl. destruct a; simpl; lia.
Qed.

Lemma run_length : forall sched s, length (s_ws (run sched s)) = length (s_ws s).
Proof.
  induction sched as [|i r IH]; intros s; [reflexivity|].
  rewrite run_cons, IH. apply step_length.
Qed.

Lemma run_not_in : forall sched s j, ~ In j sched -> nth_error (s_ws (run sched s)) j = nth_error (s_ws s) j.
Proof.
  induction sched as [|i r IH]; intros s j Hni; auto.
  rewrite run_cons, IH by (intros H; apply Hni; right; exact H).
  apply step_other_w. intros ->. apply Hni. left. reflexivity.
Qed.

Lemma run_rem_bound : forall sched s i w, nth_error (s_ws s) i = Some w ->
  exists w', nth_error (s_ws (run sched s)) i = Some w' /\
             length (w_rem w') <= length (w_rem w) - count_occ Nat.eq_dec sched i.
Proof.
  induction sched as [|j r IH]; intros s i w E.
  - exists w. simpl. split; auto. lia.
  - rewrite run_cons. simpl. destruct (Nat.eq_dec j i) as [->|Hne].
    + destruct (step_self_w i s w E) as (w1 & E1 & Hl1).
      destruct (IH (step i s) i w1 E1) as (w2 & E2 & Hl2).
      exists w2. split; auto. lia.
    + assert (E1 : nth_error (s_ws (step j s)) i = Some w) by (rewrite step_other_w; auto).
      destruct (IH (step j s) i w E1) as (w2 & E2 & Hl2). exists w2. split; auto.
Qed.

(* ------------------------------------------------------------------ the sequential schedule is complete *)
Lemma count_seq_from_lt : forall ws k j, j < k -> count_occ Nat.eq_dec (seq_from k ws) j = 0.
Proof.
  induction ws as [|w r IH]; intros k j Hlt; simpl; auto.
  rewrite count_occ_app, count_occ_repeat_neq by lia. rewrite IH by lia. reflexivity.
Qed.

Lemma count_seq_from : forall ws k i w, nth_error ws i = Some w ->
  count_occ Nat.eq_dec (seq_from k ws) (k + i) = length w.
Proof.
  induction ws as [|w0 r IH]; intros k i w E; [destruct i; discriminate|].
  simpl. rewrite count_occ_app. destruct i as [|i]; simpl in E.
  - inversion E; subst w0. rewrite Nat.add_0_r, count_occ_repeat_eq by reflexivity.
    rewrite count_seq_from_lt by lia. lia.
  - rewrite count_occ_repeat_neq by lia. replace (k + S i) with (S k + i) by lia.
    rewrite (IH (S k) i w E). reflexivity.
Qed.

Lemma init_nth : forall o0 ws i w, nth_error ws i = Some w ->
  nth_error (s_ws (init o0 ws)) i = Some (mkW [] 0 w).
Proof. intros o0 ws i w E. unfold init; cbn [s_ws]. rewrite nth_error_map, E. reflexivity. Qed.

Lemma finished_spec : forall s, finished s = true <-> forall i w, nth_error (s_ws s) i = Some w -> w_rem w = [].
Proof.
  intros s. unfold finished. rewrite forallb_forall. split.
  - intros H i w E. apply nth_error_In in E. specialize (H w E). destruct (w_rem w); auto; discriminate.
  - intros H w Hin. apply In_nth_error in Hin. destruct Hin as (i & E). rewrite (H i w E). reflexivity.
Qed.

Lemma enough_steps_finish : forall sched o0 ws,
  (forall i w, nth_error ws i = Some w -> length w <= count_occ Nat.eq_dec sched i) ->
  complete sched o0 ws.
Proof.
  intros sched o0 ws Hcnt. unfold complete. apply finished_spec. intros i w' E'.
  assert (Hlen : i < length ws).
  { assert (H : i < length (s_ws (run sched (init o0 ws)))) by (apply nth_error_Some; congruence).
    rewrite run_length in H. simpl in H. rewrite map_length in H. exact H. }
  destruct (nth_error ws i) as [w|] eqn:E; [|apply nth_error_None in E; lia].
  destruct (run_rem_bound sched (init o0 ws) i _ (init_nth o0 ws i w E)) as (w2 & E2 & Hl).
  rewrite E' in E2. inversion E2; subst w2. simpl in Hl. specialize (Hcnt i w E).
  destruct (w_rem w'); auto. simpl in Hl. lia.
Qed.

Lemma sequential_complete : forall o0 ws, complete (seq_sched ws) o0 ws.
Proof.
  intros o0 ws. apply enough_steps_finish. intros i w E. unfold seq_sched.
  pose proof (count_seq_from ws 0 i w E) as H. simpl in H. rewrite H. lia.
Qed.

(* ------------------------------------------------------------------ control invariant (no disjointness needed) *)
Definition InvW (ws : list worker) (s : st) : Prop :=
  length (s_ws s) = length ws /\
  (forall i w wi, nth_error ws i = Some w -> nth_error (s_ws s) i = Some wi ->
                  eff w = w_done wi ++ eff (w_rem wi)) /\
  (forall i e, In (i, e) (s_chan s) <-> exists wi, nth_error (s_ws s) i = Some wi /\ In (AFail e) (w_done wi)).

Lemma InvW_init : forall o0 ws, InvW ws (init o0 ws).
Proof.
  intros o0 ws. unfold InvW. simpl. split; [apply map_length|]. split.
  - intros i w wi E Ei. rewrite nth_error_map, E in Ei. inversion Ei; subst wi. reflexivity.
  - intros i e. split; [contradiction|]. intros (wi & Ei & Hin).
    rewrite nth_error_map in Ei. destruct (nth_error ws i); inversion Ei; subst wi. contradiction.
Qed.

Lemma InvW_step : forall ws s i, InvW ws s -> InvW ws (step i s).
Proof.
  intros ws s i (Hlen & Hdec & Hch).
  destruct (nth_error (s_ws s) i) as [w|] eqn:E; [|rewrite step_none; unfold InvW; auto].
  destruct (w_rem w) as [|a rest] eqn:Er; [rewrite (step_done i s w); unfold InvW; auto|].
  assert (Hi : i < length (s_ws s)) by (apply nth_error_Some; congruence).
  rewrite (step_act i s w a rest E Er). unfold InvW. simpl. split; [rewrite set_nth_length; exact Hlen|]. split.
  - intros j wj wj' Ej Ej'. destruct (Nat.eq_dec i j) as [<-|Hne].
    + rewrite nth_error_set_nth_eq in Ej' by exact Hi. inversion Ej'; subst wj'. simpl.
      rewrite (Hdec i wj w Ej E), Er, <- app_assoc. f_equal.
      destruct a as [o|o bs|e]; reflexivity.
    + rewrite nth_error_set_nth_neq in Ej' by exact Hne. apply (Hdec j wj wj' Ej Ej').
  - intros j e. split.
    + intros Hin.
      assert (Hcase : In (j, e) (s_chan s) \/ (a = AFail e /\ j = i)).
      { destruct a as [o|o bs|e']; auto. apply in_app_or in Hin. destruct Hin as [Hin|[Heq|[]]]; auto.
        inversion Heq; subst. auto. }
      destruct Hcase as [Hold|[-> ->]].
      * apply Hch in Hold. destruct Hold as (wj & Ej & Hd). destruct (Nat.eq_dec i j) as [<-|Hne].
        -- rewrite E in Ej. inversion Ej; subst wj. eexists. split; [apply nth_error_set_nth_eq; exact Hi|].
           simpl. apply in_or_app. auto.
        -- exists wj. split; [rewrite nth_error_set_nth_neq; auto | exact Hd].
      * eexists. split; [apply nth_error_set_nth_eq; exact Hi|]. simpl. apply in_or_app. right. left. reflexivity.
    + intros (wj & Ej & Hd). destruct (Nat.eq_dec i j) as [<-|Hne].
      * rewrite nth_error_set_nth_eq in Ej by exact Hi. inversion Ej; subst wj. simpl in Hd.
        apply in_app_or in Hd. destruct Hd as [Hd|[Heq|[]]].
        -- assert (Hold : In (i, e) (s_chan s)) by (apply Hch; eauto).
           destruct a; auto. apply in_or_app; auto.
        -- subst a. apply in_or_app. right. left. reflexivity.
      * rewrite nth_error_set_nth_neq in Ej by exact Hne.
        assert (Hold : In (j, e) (s_chan s)) by (apply Hch; eauto).
        destruct a; auto. apply in_or_app; auto.
Qed.

Lemma InvW_run : forall ws sched s, InvW ws s -> InvW ws (run sched s).
Proof.
  intros ws sched. induction sched as [|i r IH]; intros s H; auto.
  rewrite run_cons. apply IH. apply InvW_step. exact H.
Qed.

(* at the end every worker has performed exactly eff w *)
Lemma finished_done : forall ws s i w, InvW ws s -> finished s = true -> nth_error ws i = Some w ->
  exists wi, nth_error (s_ws s) i = Some wi /\ w_done wi = eff w /\ w_rem wi = [].
Proof.
  intros ws s i w (Hlen & Hdec & Hch) Hfin E.
  assert (Hi : i < length (s_ws s)) by (rewrite Hlen; apply nth_error_Some; congruence).
  destruct (nth_error (s_ws s) i) as [wi|] eqn:Ei; [|apply nth_error_None in Ei; lia].
  exists wi. pose proof (proj1 (finished_spec s) Hfin i wi Ei) as Hr.
  split; auto. split; auto. rewrite (Hdec i w wi E Ei), Hr. simpl. rewrite app_nil_r. reflexivity.
Qed.

(* whatever is on the channel was put there by a worker whose folder fails, and is that folder's error *)
Lemma chan_sound : forall ws s i e, InvW ws s -> In (i, e) (s_chan s) ->
  exists w, nth_error ws i = Some w /\ first_fail w = Some e.
Proof.
  intros ws s i e (Hlen & Hdec & Hch) Hin. apply Hch in Hin. destruct Hin as (wi & Ei & Hd).
  assert (Hi : i < length ws) by (rewrite <- Hlen; apply nth_error_Some; congruence).
  destruct (nth_error ws i) as [w|] eqn:E; [|apply nth_error_None in E; lia].
  exists w. split; auto. apply first_fail_eff. rewrite (Hdec i w wi E Ei). apply in_or_app. auto.
Qed.

(* ------------------------------------------------------------------ output invariant (needs disjointness) *)
Definition InvO (o0 : outmap) (ws : list worker) (s : st) : Prop :=
  (forall i w wi, nth_error ws i = Some w -> nth_error (s_ws s) i = Some wi ->
      w_pos wi = snd (lrun (w_done wi) o0 0) /\
      forall o, In o (fp w) -> s_out s o = fst (lrun (w_done wi) o0 0) o) /\
  (forall o, ~ In o (targets ws) -> s_out s o = o0 o).

Lemma InvO_init : forall o0 ws, InvO o0 ws (init o0 ws).
Proof.
  intros o0 ws. split.
  - intros i w wi E Ei. simpl in Ei. rewrite nth_error_map, E in Ei. inversion Ei; subst wi. simpl. auto.
  - intros o Hni. reflexivity.
Qed.

Lemma fp_in_targets : forall ws i w o, nth_error ws i = Some w -> In o (fp w) -> In o (targets ws).
Proof. intros ws i w o E Hin. unfold targets. apply in_flat_map. exists w. split; auto. eapply nth_error_In; eauto. Qed.

Lemma InvO_step : forall o0 ws s i, disjoint ws -> InvW ws s -> InvO o0 ws s -> InvO o0 ws (step i s).
Proof.
  intros o0 ws s i Hdis HW (Hloc & Hrest).
  destruct (nth_error (s_ws s) i) as [w|] eqn:E; [|rewrite step_none; unfold InvO; auto].
  destruct (w_rem w) as [|a rest] eqn:Er; [rewrite (step_done i s w); unfold InvO; auto|].
  assert (Hi : i < length (s_ws s)) by (apply nth_error_Some; congruence).
  destruct HW as (Hlen & Hdec & Hch).
  destruct (nth_error ws i) as [w0|] eqn:E0; [|apply nth_error_None in E0; lia].
  (* the action belongs to worker i's own list, so its footprint is inside fp w0 *)
  assert (Hain : In a w0).
  { apply eff_incl. rewrite (Hdec i w0 w E0 E), Er. destruct (eff_head a rest) as (t & ->).
    apply in_or_app. right. left. reflexivity. }
  destruct (Hloc i w0 w E0 E) as (Hpos & Hout).
  rewrite (step_act i s w a rest E Er). split; simpl.
  - intros j wj wj' Ej Ej'. destruct (Nat.eq_dec i j) as [<-|Hne].
    + rewrite nth_error_set_nth_eq in Ej' by exact Hi. inversion Ej'; subst wj'. simpl.
      rewrite E0 in Ej. inversion Ej; subst wj. rewrite lrun_snoc. simpl. rewrite <- Hpos. split; auto.
      intros o Ho. apply aout_local. apply Hout. exact Ho.
    + rewrite nth_error_set_nth_neq in Ej' by exact Hne.
      destruct (Hloc j wj wj' Ej Ej') as (Hpj & Hoj). split; auto.
      intros o Ho. rewrite aout_other; auto.
      intros Hin. apply (Hdis i j w0 wj o Hne E0 Ej); auto. eapply afp_in_fp; eauto.
  - intros o Hni. rewrite aout_other; auto.
    intros Hin. apply Hni. eapply fp_in_targets; eauto. eapply afp_in_fp; eauto.
Qed.

Lemma Inv_run : forall o0 ws sched s, disjoint ws -> InvW ws s -> InvO o0 ws s ->
  InvW ws (run sched s) /\ InvO o0 ws (run sched s).
Proof.
  intros o0 ws sched. induction sched as [|i r IH]; intros s Hdis HW HO; auto.
  rewrite run_cons. apply IH; auto. apply InvW_step; auto. apply InvO_step; auto.
Qed.

(* the outputs at the end of ANY complete schedule, in closed form *)
Lemma finished_outs : forall o0 ws sched, disjoint ws -> complete sched o0 ws ->
  (forall i w o, nth_error ws i = Some w -> In o (fp w) ->
      s_out (run sched (init o0 ws)) o = fst (lrun (eff w) o0 0) o) /\
  (forall o, ~ In o (targets ws) -> s_out (run sched (init o0 ws)) o = o0 o).
Proof.
  intros o0 ws sched Hdis Hfin.
  destruct (Inv_run o0 ws sched (init o0 ws) Hdis (InvW_init o0 ws) (InvO_init o0 ws)) as (HW & HO).
  split; [|apply HO].
  intros i w o E Ho. destruct (finished_done ws _ i w HW Hfin E) as (wi & Ei & Hd & Hr).
  destruct HO as (Hloc & _). destruct (Hloc i w wi E Ei) as (_ & Hout). rewrite Hout, Hd; auto.
Qed.

Theorem schedule_independent_thm : forall o0 ws sched, disjoint ws -> complete sched o0 ws ->
  forall o, s_out (run sched (init o0 ws)) o = s_out (sequential o0 ws) o.
Proof.
  intros o0 ws sched Hdis Hfin o.
  destruct (finished_outs o0 ws sched Hdis Hfin) as (H1 & H2).
  destruct (finished_outs o0 ws (seq_sched ws) Hdis (sequential_complete o0 ws)) as (S1 & S2).
  unfold sequential. destruct (in_dec Nat.eq_dec o (targets ws)) as [Hin|Hni].
  - unfold targets in Hin. apply in_flat_map in Hin. destruct Hin as (w & Hw & Ho).
    apply In_nth_error in Hw. destruct Hw as (i & E). rewrite (H1 i w o E Ho), (S1 i w o E Ho). reflexivity.
  - rewrite H2, S2; auto.
Qed.

(* two steps of different workers commute as far as outputs and worker states go (the channel is the
   one thing whose content depends on the order) *)
Lemma step_commute : forall ws s i j, disjoint ws -> InvW ws s -> i <> j ->
  (forall o, s_out (step i (step j s)) o = s_out (step j (step i s)) o) /\
  s_ws (step i (step j s)) = s_ws (step j (step i s)).
Proof.
  intros ws s i j Hdis (Hlen & Hdec & Hch) Hne.
  destruct (nth_error (s_ws s) i) as [wi|] eqn:Ei.
  2:{ rewrite (step_none i s Ei). rewrite step_none; auto. rewrite step_other_w; auto. }
  destruct (nth_error (s_ws s) j) as [wj|] eqn:Ej.
  2:{ rewrite (step_none j s Ej). rewrite (step_none j (step i s)); auto. rewrite step_other_w; auto. }
  destruct (w_rem wi) as [|a ra] eqn:Eri.
  { rewrite (step_done i s wi Ei Eri). rewrite (step_done i (step j s) wi); auto. rewrite step_other_w; auto. }
  destruct (w_rem wj) as [|b rb] eqn:Erj.
  { rewrite (step_done j s wj Ej Erj). rewrite (step_done j (step i s) wj); auto. rewrite step_other_w; auto. }
  assert (Hi : i < length ws) by (rewrite <- Hlen; apply nth_error_Some; congruence).
  assert (Hj : j < length ws) by (rewrite <- Hlen; apply nth_error_Some; congruence).
  destruct (nth_error ws i) as [w0i|] eqn:E0i; [|apply nth_error_None in E0i; lia].
  destruct (nth_error ws j) as [w0j|] eqn:E0j; [|apply nth_error_None in E0j; lia].
  assert (Hai : In a w0i).
  { apply eff_incl. rewrite (Hdec i w0i wi E0i Ei), Eri. destruct (eff_head a ra) as (t & ->).
    apply in_or_app. right. left. reflexivity. }
  assert (Hbj : In b w0j).
  { apply eff_incl. rewrite (Hdec j w0j wj E0j Ej), Erj. destruct (eff_head b rb) as (t & ->).
    apply in_or_app. right. left. reflexivity. }
  assert (Eij : nth_error (s_ws (step j s)) i = Some wi) by (rewrite step_other_w; auto).
  assert (Eji : nth_error (s_ws (step i s)) j = Some wj) by (rewrite step_other_w; auto).
  rewrite (step_act i (step j s) wi a ra Eij Eri), (step_act j (step i s) wj b rb Eji Erj).
  rewrite (step_act j s wj b rb Ej Erj), (step_act i s wi a ra Ei Eri). simpl. split.
  - intros o. destruct (in_dec Nat.eq_dec o (afp a)) as [Hoa|Hoa].
    + assert (Hob : ~ In o (afp b)).
      { intros Hob. apply (Hdis i j w0i w0j o Hne E0i E0j); eapply afp_in_fp; eauto. }
      rewrite (aout_other b _ _ o Hob). apply aout_local. apply aout_other. exact Hob.
    + rewrite (aout_other a _ _ o Hoa). symmetry. rewrite aout_local with (m' := s_out s); auto.
      apply aout_other. exact Hoa.
  - clear - Hne. revert i j Hne. generalize (s_ws s) as l.
    induction l as [|y r IH]; intros [|i] [|j] Hne; simpl; auto; try congruence.
    f_equal. apply IH. congruence.
Qed.

(* ------------------------------------------------------------------ errors: threads *)
Theorem error_reaches_caller_threads_thm : forall o0 ws sched i w e,
  nth_error ws i = Some w -> first_fail w = Some e -> complete sched o0 ws ->
  exists j wj ej, result_of (s_chan (run sched (init o0 ws))) = Err ej /\
                  nth_error ws j = Some wj /\ first_fail wj = Some ej.
Proof.
  intros o0 ws sched i w e E Hf Hfin.
  pose proof (InvW_run ws sched _ (InvW_init o0 ws)) as HW.
  destruct (finished_done ws _ i w HW Hfin E) as (wi & Ei & Hd & Hr).
  assert (Hin : In (i, e) (s_chan (run sched (init o0 ws)))).
  { destruct HW as (_ & _ & Hch). apply Hch. exists wi. split; auto. rewrite Hd. apply first_fail_eff. exact Hf. }
  destruct (s_chan (run sched (init o0 ws))) as [|[j ej] t] eqn:Ec; [contradiction|].
  destruct (chan_sound ws _ j ej HW) as (wj & Ej & Hfj); [rewrite Ec; left; reflexivity|].
  exists j, wj, ej. simpl. auto.
Qed.

(* exactly one folder fails: the caller gets that folder's error whatever the schedule *)
Theorem single_failure_identity_thm : forall o0 ws sched k w e,
  nth_error ws k = Some w -> first_fail w = Some e ->
  (forall j wj, j <> k -> nth_error ws j = Some wj -> first_fail wj = None) ->
  complete sched o0 ws ->
  result_of (s_chan (run sched (init o0 ws))) = Err e.
Proof.
  intros o0 ws sched k w e E Hf Hothers Hfin.
  destruct (error_reaches_caller_threads_thm o0 ws sched k w e E Hf Hfin) as (j & wj & ej & Hres & Ej & Hfj).
  destruct (Nat.eq_dec j k) as [->|Hne].
  - rewrite E in Ej. inversion Ej; subst wj. rewrite Hf in Hfj. inversion Hfj; subst ej. exact Hres.
  - rewrite (Hothers j wj Hne Ej) in Hfj. discriminate.
Qed.

(* no folder fails: nothing is ever queued, under any schedule, complete or not *)
Theorem no_failure_no_error_thm : forall o0 ws sched,
  (forall w, In w ws -> first_fail w = None) -> s_chan (run sched (init o0 ws)) = [].
Proof.
  intros o0 ws sched Hnf.
  pose proof (InvW_run ws sched _ (InvW_init o0 ws)) as HW.
  destruct (s_chan (run sched (init o0 ws))) as [|[j ej] t] eqn:Ec; auto.
  destruct (chan_sound ws _ j ej HW) as (wj & Ej & Hfj); [rewrite Ec; left; reflexivity|].
  apply nth_error_In in Ej. rewrite (Hnf wj Ej) in Hfj. discriminate.
Qed.

Theorem threads_ok_iff_thm : forall o0 ws sched, complete sched o0 ws ->
  (result_of (s_chan (run sched (init o0 ws))) = Ok tt <-> forall w, In w ws -> first_fail w = None).
Proof.
  intros o0 ws sched Hfin. split.
  - intros Hok w Hin. destruct (first_fail w) as [e|] eqn:Hf; auto.
    apply In_nth_error in Hin. destruct Hin as (i & E).
    destruct (error_reaches_caller_threads_thm o0 ws sched i w e E Hf Hfin) as (j & wj & ej & Hres & _).
    rewrite Hres in Hok. discriminate.
  - intros Hnf. rewrite no_failure_no_error_thm; auto.
Qed.

(* ------------------------------------------------------------------ the sequential path *)
Lemma seq_abort_from_all : forall r i s,
  (forall sched', s_chan (run sched' s) = []) -> seq_abort_from i r s = run (seq_from i r) s.
Proof.
  induction r as [|w r IH]; intros i s Hq; [reflexivity|].
  simpl. rewrite run_app. rewrite (Hq (repeat i (length w))). apply IH.
  intros sched'. rewrite <- run_app. apply Hq.
Qed.

Theorem sequential_path_agrees_thm : forall o0 ws,
  (forall w, In w ws -> first_fail w = None) -> seq_abort o0 ws = sequential o0 ws.
Proof.
  intros o0 ws Hnf. unfold seq_abort, sequential, seq_sched. apply seq_abort_from_all.
  intros sched'. apply no_failure_no_error_thm. exact Hnf.
Qed.

Lemma seq_abort_from_stop : forall pre i s w post,
  (forall sched', (forall x, In x sched' -> i <= x < i + length pre) -> s_chan (run sched' s) = []) ->
  s_chan (run (seq_from i (pre ++ [w])) s) <> [] ->
  seq_abort_from i (pre ++ w :: post) s = run (seq_from i (pre ++ [w])) s.
Proof.
  induction pre as [|p pre IH]; intros i s w post Hq Hne.
  - simpl in *. rewrite app_nil_r in *. destruct (s_chan (run (repeat i (length w)) s)); [contradiction|reflexivity].
  - simpl. rewrite run_app.
    assert (Hq0 : s_chan (run (repeat i (length p)) s) = []).
    { apply Hq. intros x Hx. apply repeat_spec in Hx. subst x. simpl. lia. }
    rewrite Hq0. apply IH.
    + intros sched' Hr. rewrite <- run_app. apply Hq. intros x Hx. apply in_app_or in Hx.
      destruct Hx as [Hx|Hx]; [apply repeat_spec in Hx; subst x; simpl; lia|].
      specialize (Hr x Hx). simpl. lia.
    + rewrite <- run_app. exact Hne.
Qed.

Lemma seq_from_range : forall ws k x, In x (seq_from k ws) -> k <= x < k + length ws.
Proof.
  induction ws as [|w r IH]; intros k x Hin; simpl in *; [contradiction|].
  apply in_app_or in Hin. destruct Hin as [Hin|Hin].
  - apply repeat_spec in Hin. lia.
  - apply IH in Hin. lia.
Qed.

(* a damaged folder on the sequential path: its error is raised, what comes before is complete, what
   comes after is not touched *)
Theorem sequential_path_on_error_thm : forall o0 pre w post e,
  disjoint (pre ++ w :: post) ->
  (forall p, In p pre -> first_fail p = None) -> first_fail w = Some e ->
  let s := seq_abort o0 (pre ++ w :: post) in
  result_of (s_chan s) = Err e /\
  (forall wj o, In wj (pre ++ [w]) -> In o (fp wj) -> s_out s o = fst (lrun (eff wj) o0 0) o) /\
  (forall wj o, In wj post -> In o (fp wj) -> s_out s o = o0 o).
Proof.
  intros o0 pre w post e Hdis Hpre Hf.
  set (ws := pre ++ w :: post).
  set (sched := seq_from 0 (pre ++ [w])).
  assert (Hnth : forall j wj, nth_error (pre ++ [w]) j = Some wj -> nth_error ws j = Some wj).
  { intros j wj Ej. assert (Hj : j < length (pre ++ [w])) by (apply nth_error_Some; congruence).
    unfold ws. rewrite app_length in Hj. simpl in Hj.
    destruct (Nat.lt_ge_cases j (length pre)) as [Hlt|Hge].
    - rewrite nth_error_app1 in * by exact Hlt. exact Ej.
    - assert (j = length pre) by lia. subst j. rewrite nth_error_app2 in * by lia.
      rewrite Nat.sub_diag in *. exact Ej. }
  assert (Hk : nth_error ws (length pre) = Some w).
  { unfold ws. rewrite nth_error_app2 by lia. rewrite Nat.sub_diag. reflexivity. }
  destruct (Inv_run o0 ws sched (init o0 ws) Hdis (InvW_init o0 ws) (InvO_init o0 ws)) as (HW & HO).
  (* workers 0..k have ended in the state reached by sched *)
  assert (Hdone : forall j wj, nth_error (pre ++ [w]) j = Some wj ->
            exists wi, nth_error (s_ws (run sched (init o0 ws))) j = Some wi /\ w_done wi = eff wj).
  { intros j wj Ej. pose proof (Hnth j wj Ej) as Ej'.
    destruct (run_rem_bound sched (init o0 ws) j _ (init_nth o0 ws j wj Ej')) as (wi & Ei & Hl).
    pose proof (count_seq_from (pre ++ [w]) 0 j wj Ej) as Hc. simpl in Hc, Hl. fold sched in Hc.
    exists wi. split; auto. destruct HW as (_ & Hdec & _).
    rewrite (Hdec j wj wi Ej' Ei). destruct (w_rem wi); [simpl; rewrite app_nil_r; reflexivity | simpl in Hl; lia]. }
  (* workers after k have not moved *)
  assert (Hidle : forall j, length pre < j -> nth_error (s_ws (run sched (init o0 ws))) j = nth_error (s_ws (init o0 ws)) j).
  { intros j Hj. apply run_not_in. intros Hin. apply seq_from_range in Hin. rewrite app_length in Hin. simpl in Hin. lia. }
  assert (Hstop : seq_abort o0 ws = run sched (init o0 ws)).
  { unfold seq_abort, ws, sched. apply seq_abort_from_stop.
    - intros sched' Hr. fold ws.
      pose proof (InvW_run ws sched' _ (InvW_init o0 ws)) as HW'.
      destruct (s_chan (run sched' (init o0 ws))) as [|[j ej] t] eqn:Ec; auto. exfalso.
      assert (Hin : In (j, ej) (s_chan (run sched' (init o0 ws)))) by (rewrite Ec; left; reflexivity).
      destruct (chan_sound ws _ j ej HW' Hin) as (wj & Ej & Hfj).
      destruct HW' as (_ & _ & Hch). apply Hch in Hin. destruct Hin as (wi & Ei & Hd).
      destruct (in_dec Nat.eq_dec j sched') as [Hjs|Hjs].
      + specialize (Hr j Hjs). simpl in Hr. unfold ws in Ej. rewrite nth_error_app1 in Ej by lia.
        apply nth_error_In in Ej. rewrite (Hpre wj Ej) in Hfj. discriminate.
      + rewrite run_not_in in Ei by exact Hjs. rewrite (init_nth o0 ws j wj Ej) in Ei.
        inversion Ei; subst wi. contradiction.
    - fold ws. fold sched. destruct (Hdone (length pre) w) as (wi & Ei & Hd).
      { rewrite nth_error_app2 by lia. rewrite Nat.sub_diag. reflexivity. }
      destruct HW as (_ & _ & Hch).
      assert (Hin : In (length pre, e) (s_chan (run sched (init o0 ws)))).
      { apply Hch. exists wi. split; auto. rewrite Hd. apply first_fail_eff. exact Hf. }
      intros Hnil. rewrite Hnil in Hin. contradiction. }
  fold ws. rewrite Hstop. split; [|split].
  - (* the first queued error is worker k's *)
    destruct (Hdone (length pre) w) as (wk & Ek & Hdk).
    { rewrite nth_error_app2 by lia. rewrite Nat.sub_diag. reflexivity. }
    assert (Hin : In (length pre, e) (s_chan (run sched (init o0 ws)))).
    { destruct HW as (_ & _ & Hch). apply Hch. exists wk. split; auto. rewrite Hdk. apply first_fail_eff. exact Hf. }
    destruct (s_chan (run sched (init o0 ws))) as [|[j ej] t] eqn:Ec; [contradiction|].
    assert (Hin' : In (j, ej) (s_chan (run sched (init o0 ws)))) by (rewrite Ec; left; reflexivity).
    destruct (chan_sound ws _ j ej HW Hin') as (wj & Ej & Hfj).
    destruct HW as (_ & _ & Hch). apply Hch in Hin'. destruct Hin' as (wi & Ei & Hd).
    destruct (Nat.lt_trichotomy j (length pre)) as [Hlt|[Heq|Hgt]].
    + unfold ws in Ej. rewrite nth_error_app1 in Ej by lia. apply nth_error_In in Ej.
      rewrite (Hpre wj Ej) in Hfj. discriminate.
    + subst j. rewrite Hk in Ej. inversion Ej; subst wj. rewrite Hf in Hfj. inversion Hfj. reflexivity.
    + rewrite (Hidle j Hgt), (init_nth o0 ws j wj Ej) in Ei. inversion Ei; subst wi. contradiction.
  - intros wj o Hwj Ho. apply In_nth_error in Hwj. destruct Hwj as (j & Ej).
    destruct (Hdone j wj Ej) as (wi & Ei & Hd). destruct HO as (Hloc & _).
    destruct (Hloc j wj wi (Hnth j wj Ej) Ei) as (_ & Hout). rewrite Hout, Hd; auto.
  - intros wj o Hwj Ho. apply In_nth_error in Hwj. destruct Hwj as (j & Ej).
    assert (Ej' : nth_error ws (length pre + S j) = Some wj).
    { unfold ws. rewrite nth_error_app2 by lia. replace (length pre + S j - length pre) with (S j) by lia. exact Ej. }
    destruct HO as (Hloc & _).
    destruct (Hloc (length pre + S j) wj (mkW [] 0 wj) Ej') as (_ & Hout).
    { rewrite Hidle by lia. apply init_nth. exact Ej'. }
    rewrite Hout; auto.
Qed.

(* ------------------------------------------------------------------ two objects at once *)
Lemma chan_of_in : forall lo hi ch i e, In (i, e) (chan_of lo hi ch) <-> In (i, e) ch /\ lo <= i < hi.
Proof.
  intros lo hi ch i e. unfold chan_of. rewrite filter_In. simpl.
  rewrite Bool.andb_true_iff, Nat.leb_le, Nat.ltb_lt. tauto.
Qed.

Lemma disjoint_app_l : forall wa wb, disjoint (wa ++ wb) -> disjoint wa.
Proof.
  intros wa wb H i j wi wj o Hne Ei Ej. apply (H i j wi wj o Hne).
  - rewrite nth_error_app1; auto. apply nth_error_Some. congruence.
  - rewrite nth_error_app1; auto. apply nth_error_Some. congruence.
Qed.

(* object A's outputs and A's result are those of A extracting alone, whatever B's workers do and
   however the workers of both are interleaved *)
Theorem independent_objects_thm : forall o0 wa wb sched,
  disjoint (wa ++ wb) -> complete sched o0 (wa ++ wb) ->
  let s := run sched (init o0 (wa ++ wb)) in
  (forall o, In o (targets wa) -> s_out s o = s_out (sequential o0 wa) o) /\
  (result_of (chan_of 0 (length wa) (s_chan s)) = Ok tt <-> forall w, In w wa -> first_fail w = None) /\
  (forall e, result_of (chan_of 0 (length wa) (s_chan s)) = Err e -> exists w, In w wa /\ first_fail w = Some e).
Proof.
  intros o0 wa wb sched Hdis Hfin s.
  destruct (finished_outs o0 (wa ++ wb) sched Hdis Hfin) as (H1 & _).
  destruct (finished_outs o0 wa (seq_sched wa) (disjoint_app_l wa wb Hdis) (sequential_complete o0 wa)) as (S1 & _).
  pose proof (InvW_run (wa ++ wb) sched _ (InvW_init o0 (wa ++ wb))) as HW. fold s in HW.
  assert (Hsound : forall j ej, In (j, ej) (chan_of 0 (length wa) (s_chan s)) -> exists w, In w wa /\ first_fail w = Some ej).
  { intros j ej Hin. apply chan_of_in in Hin. destruct Hin as (Hin & Hr).
    destruct (chan_sound _ s j ej HW Hin) as (w & Ej & Hfj). rewrite nth_error_app1 in Ej by lia.
    exists w. split; auto. eapply nth_error_In; eauto. }
  split; [|split].
  - intros o Hin. unfold targets in Hin. apply in_flat_map in Hin. destruct Hin as (w & Hw & Ho).
    apply In_nth_error in Hw. destruct Hw as (i & E). unfold sequential. rewrite (S1 i w o E Ho).
    apply (H1 i w o); auto. rewrite nth_error_app1; auto. apply nth_error_Some. congruence.
  - split.
    + intros Hok w Hw. destruct (first_fail w) as [e|] eqn:Hf; auto. exfalso.
      apply In_nth_error in Hw. destruct Hw as (i & E).
      assert (E' : nth_error (wa ++ wb) i = Some w) by (rewrite nth_error_app1; auto; apply nth_error_Some; congruence).
      destruct (finished_done _ s i w HW Hfin E') as (wi & Ei & Hd & _).
      assert (Hin : In (i, e) (chan_of 0 (length wa) (s_chan s))).
      { apply chan_of_in. split.
        - destruct HW as (_ & _ & Hch). apply Hch. exists wi. split; auto. rewrite Hd. apply first_fail_eff. exact Hf.
        - split; [lia|]. apply nth_error_Some. congruence. }
      destruct (chan_of 0 (length wa) (s_chan s)) as [|[j ej] t]; [contradiction|discriminate].
    + intros Hnf. destruct (chan_of 0 (length wa) (s_chan s)) as [|[j ej] t] eqn:Ec; auto. exfalso.
      destruct (Hsound j ej) as (w & Hw & Hfw); [left; reflexivity|]. rewrite (Hnf w Hw) in Hfw. discriminate.
  - intros e Hres. destruct (chan_of 0 (length wa) (s_chan s)) as [|[j ej] t] eqn:Ec; [discriminate|].
    simpl in Hres. inversion Hres; subst ej. apply (Hsound j e). left. reflexivity.
Qed.

(* ------------------------------------------------------------------ output names *)
Lemma uint_bytes_inj : forall u v, uint_bytes u = uint_bytes v -> u = v.
Proof.
  induction u as [|u IH|u IH|u IH|u IH|u IH|u IH|u IH|u IH|u IH|u IH]; intros v H;
    destruct v; simpl in H; try discriminate; try reflexivity;
    inversion H as [H']; f_equal; apply IH; exact H'.
Qed.

Lemma dec_inj : forall a b, dec a = dec b -> a = b.
Proof.
  intros a b H. apply uint_bytes_inj in H.
  rewrite <- (DecimalNat.Unsigned.of_to a), <- (DecimalNat.Unsigned.of_to b), H. reflexivity.
Qed.

Lemma cand_inj : forall n a b, cand n a = cand n b -> a = b.
Proof. intros n a b H. unfold cand in H. apply app_inv_head in H. apply app_inv_head in H. apply dec_inj. exact H. Qed.

Lemma cand_not_self : forall n c, cand n c <> n.
Proof.
  intros n c H. apply (f_equal (@length Z)) in H. unfold cand in H. rewrite !app_length in H. simpl in H. lia.
Qed.

Definition keys (d : fdict) : list bytes := map fst d.

Lemma fget_none : forall d n, fget d n = None <-> ~ In n (keys d).
Proof.
  induction d as [|[k v] r IH]; intros n; simpl.
  - tauto.
  - destruct (bytes_eq_dec k n) as [->|Hne].
    + split; [discriminate | intros H; exfalso; apply H; auto].
    + rewrite IH. split; [intros H [Hk|Hin]; auto | intros H Hin; apply H; auto].
Qed.

Lemma keys_fset_in : forall d n v, In n (keys d) -> keys (fset d n v) = keys d.
Proof.
  induction d as [|[k w] r IH]; intros n v Hin; simpl in *; [contradiction|].
  destruct (bytes_eq_dec k n) as [->|Hne]; simpl; auto.
  f_equal. apply IH. destruct Hin; [contradiction | auto].
Qed.

Lemma keys_fset_new : forall d n v, ~ In n (keys d) -> keys (fset d n v) = keys d ++ [n].
Proof.
  induction d as [|[k w] r IH]; intros n v Hni; simpl in *; auto.
  destruct (bytes_eq_dec k n) as [->|Hne]; [exfalso; apply Hni; auto|].
  simpl. f_equal. apply IH. intros H; apply Hni; auto.
Qed.

Lemma fget_fset_same : forall d n v, fget (fset d n v) n = Some v.
Proof.
  induction d as [|[k w] r IH]; intros n v; simpl.
  - destruct (bytes_eq_dec n n); congruence.
  - destruct (bytes_eq_dec k n) as [->|Hne]; simpl.
    + destruct (bytes_eq_dec n n); congruence.
    + destruct (bytes_eq_dec k n); [contradiction | apply IH].
Qed.

(* the loop never changes the set of keys, and what it returns is not one of them: the candidates tested are
   pairwise different (decimal printing is injective), so |fnames|+1 tests cannot all hit *)
Lemma rename_loop_gen : forall fuel d n out tested,
  (out = n \/ In n (keys d)) ->
  NoDup tested -> incl tested (keys d) -> ~ In out tested ->
  (forall c, cnt d n <= c -> ~ In (cand n c) tested /\ out <> cand n c) ->
  length (keys d) < length tested + fuel ->
  keys (snd (rename_loop fuel d n out)) = keys d /\ ~ In (fst (rename_loop fuel d n out)) (keys d).
Proof.
  induction fuel as [|f IH]; intros d n out tested Hn Hnd Hincl Hout Hfut Hlen.
  - exfalso. pose proof (NoDup_incl_length Hnd Hincl). lia.
  - simpl. destruct (fget d out) as [v|] eqn:E.
    + assert (Hin : In out (keys d)).
      { destruct (in_dec bytes_eq_dec out (keys d)) as [H|H]; auto. apply fget_none in H. congruence. }
      assert (Hnk : In n (keys d)) by (destruct Hn as [->|H]; auto).
      pose proof (keys_fset_in d n (S (cnt d n)) Hnk) as Hk.
      assert (Hc : cnt (fset d n (S (cnt d n))) n = S (cnt d n)).
      { unfold cnt at 1. rewrite fget_fset_same. reflexivity. }
      destruct (IH (fset d n (S (cnt d n))) n (cand n (cnt d n)) (out :: tested)) as (K1 & K2).
      * right. rewrite Hk. exact Hnk.
      * constructor; auto.
      * rewrite Hk. intros x [<-|Hx]; auto.
      * intros [Heq|Hx].
        -- destruct (Hfut (cnt d n) (le_n _)) as (_ & H). auto.
        -- destruct (Hfut (cnt d n) (le_n _)) as (H & _). auto.
      * intros c Hle. rewrite Hc in Hle. destruct (Hfut c) as (H1 & H2); [lia|]. split.
        -- intros [Heq|Hx]; auto.
        -- intros Heq. apply cand_inj in Heq. lia.
      * rewrite Hk. simpl. lia.
      * rewrite Hk in K1, K2. auto.
    + simpl. split; auto. apply fget_none. exact E.
Qed.

Lemma rename_loop_fresh : forall d n,
  keys (snd (rename_loop (S (length d)) d n n)) = keys d /\
  ~ In (fst (rename_loop (S (length d)) d n n)) (keys d).
Proof.
  intros d n. apply (rename_loop_gen (S (length d)) d n n []); auto.
  - constructor.
  - intros x [].
  - intros c _. split; auto. intros H. symmetry in H. apply (cand_not_self n c H).
  - unfold keys. rewrite map_length. simpl. lia.
Qed.

Lemma outnames_from_fresh : forall names d, NoDup (keys d) ->
  NoDup (outnames_from d names) /\ forall o, In o (outnames_from d names) -> ~ In o (keys d).
Proof.
  induction names as [|n r IH]; intros d Hnd; simpl.
  - split; [constructor | intros o []].
  - destruct (rename_loop_fresh d n) as (Hk & Hfresh).
    set (od := rename_loop (S (length d)) d n n) in *.
    assert (Hk2 : keys (fset (snd od) (fst od) 0) = keys d ++ [fst od]).
    { rewrite keys_fset_new; rewrite Hk; auto. }
    destruct (IH (fset (snd od) (fst od) 0)) as (Hnd' & Hout').
    { rewrite Hk2. apply NoDup_app_snoc; auto. }
    split.
    + constructor; auto. intros Hin. apply (Hout' _ Hin). rewrite Hk2. apply in_or_app. right. left. reflexivity.
    + intros o [<-|Hin]; auto. intros Hd. apply (Hout' _ Hin). rewrite Hk2. apply in_or_app. auto.
Qed.

(* every member gets an output name of its own, whatever the member names are *)
Theorem outnames_nodup_thm : forall names, NoDup (outnames names).
Proof. intros names. apply (outnames_from_fresh names []). constructor. Qed.

Lemma outnames_from_id : forall names d,
  (forall n, In n names -> ~ In n (keys d)) -> NoDup names -> outnames_from d names = names.
Proof.
  induction names as [|n r IH]; intros d Hfresh Hnd; [reflexivity|].
  inversion Hnd as [|n' r' Hnotin Hnd']; subst.
  assert (E : fget d n = None) by (apply fget_none; apply Hfresh; left; reflexivity).
  simpl. rewrite E. simpl. f_equal. apply IH; auto.
  intros m Hm. rewrite keys_fset_new by (apply Hfresh; left; reflexivity).
  intros Hin. apply in_app_or in Hin. destruct Hin as [Hin|[Heq|[]]].
  - apply (Hfresh m); [right; exact Hm | exact Hin].
  - subst m. contradiction.
Qed.

(* pairwise distinct member names are kept as they are *)
Theorem outnames_distinct_thm : forall names, NoDup names -> outnames names = names /\ NoDup (outnames names).
Proof.
  intros names Hnd. assert (H : outnames names = names) by (apply outnames_from_id; auto).
  split; auto. rewrite H. exact Hnd.
Qed.

(* ------------------------------------------------------------------ deciding disjointness *)
Lemma disjoint_from_sound : forall ws seen, disjoint_from seen ws = true ->
  (forall i w o, nth_error ws i = Some w -> In o (fp w) -> ~ In o seen) /\ disjoint ws.
Proof.
  induction ws as [|w r IH]; intros seen H.
  - split; [intros [|i] ? ? E; discriminate | intros [|i] j ? ? ? ? E; discriminate].
  - simpl in H. apply Bool.andb_true_iff in H. destruct H as (Hw & Hr).
    destruct (IH _ Hr) as (Hseen & Hdis). rewrite forallb_forall in Hw.
    assert (Hw' : forall o, In o (fp w) -> ~ In o seen).
    { intros o Ho Hin. specialize (Hw o Ho). apply Bool.negb_true_iff in Hw.
      assert (Hex : existsb (Nat.eqb o) seen = true) by (apply existsb_exists; exists o; split; auto; apply Nat.eqb_refl).
      congruence. }
    split.
    + intros [|i] w' o E Ho; simpl in E.
      * inversion E; subst w'. auto.
      * intros Hin. apply (Hseen i w' o E Ho). apply in_or_app. auto.
    + intros [|i] [|j] wi wj o Hne Ei Ej Hoi Hoj; simpl in Ei, Ej; try congruence.
      * inversion Ei; subst wi. apply (Hseen j wj o Ej Hoj). apply in_or_app. auto.
      * inversion Ej; subst wj. apply (Hseen i wi o Ei Hoi). apply in_or_app. auto.
      * apply (Hdis i j wi wj o); auto.
Qed.

Lemma disjointb_sound : forall ws, disjointb ws = true -> disjoint ws.
Proof. intros ws H. apply (disjoint_from_sound ws [] H). Qed.

(* ------------------------------------------------------------------ the whole call *)
Lemma step_keeps : forall i s o, exists_out (s_out s) o = true -> exists_out (s_out (step i s)) o = true.
Proof.
  intros i s o Hex. destruct (nth_error (s_ws s) i) as [w|] eqn:E; [|rewrite step_none; auto].
  destruct (w_rem w) as [|a rest] eqn:Er; [rewrite (step_done i s w); auto|].
  rewrite (step_act i s w a rest E Er). simpl. apply aout_keeps. exact Hex.
Qed.

Lemma run_keeps : forall sched s o, exists_out (s_out s) o = true -> exists_out (s_out (run sched s)) o = true.
Proof.
  induction sched as [|i r IH]; intros s o Hex; auto. rewrite run_cons. apply IH. apply step_keeps. exact Hex.
Qed.

Lemma post_pass_ok_intact : forall t o0 pre ws sched,
  disjoint ws -> first_fail pre = None -> (forall w, In w ws -> first_fail w = None) ->
  complete sched (fst (lrun (eff pre) o0 0)) ws ->
  post_pass t (fp pre ++ targets ws) (s_out (run sched (init (fst (lrun (eff pre) o0 0)) ws))) = Ok tt.
Proof.
  intros t o0 pre ws sched Hdis Hpre Hnf Hfin. destruct t; [|reflexivity]. simpl.
  set (o1 := fst (lrun (eff pre) o0 0)) in *.
  assert (Hall : forallb (exists_out (s_out (run sched (init o1 ws)))) (fp pre ++ targets ws) = true).
  { apply forallb_forall. intros o Hin. apply in_app_or in Hin. destruct Hin as [Hin|Hin].
    - apply run_keeps. simpl. unfold o1. rewrite (eff_nofail pre Hpre). apply lrun_creates. exact Hin.
    - destruct (finished_outs o1 ws sched Hdis Hfin) as (H1 & _).
      unfold targets in Hin. apply in_flat_map in Hin. destruct Hin as (w & Hw & Ho).
      pose proof (Hnf w Hw) as Hfw. apply In_nth_error in Hw. destruct Hw as (i & E).
      unfold exists_out. rewrite (H1 i w o E Ho). rewrite (eff_nofail w Hfw).
      apply (lrun_creates w o1 0 o Ho). }
  rewrite Hall. reflexivity.
Qed.

(* intact archive: every path returns normally; threads under any complete schedule and the sequential
   path leave the same outputs, and so do processes when the outputs are files *)
Theorem extract_intact_agree_thm : forall t sched o0 pre ws,
  disjoint ws -> first_fail pre = None -> (forall w, In w ws -> first_fail w = None) ->
  complete sched (fst (lrun (eff pre) o0 0)) ws ->
  snd (extract MThreads t sched o0 pre ws) = Ok tt /\
  snd (extract MSeq t sched o0 pre ws) = Ok tt /\
  snd (extract MProcs t sched o0 pre ws) = Ok tt /\
  (forall o, fst (extract MThreads t sched o0 pre ws) o = fst (extract MSeq t sched o0 pre ws) o) /\
  (forall o, fst (extract MProcs TFile sched o0 pre ws) o = fst (extract MSeq TFile sched o0 pre ws) o).
Proof.
  intros t sched o0 pre ws Hdis Hpre Hnf Hfin. unfold extract. rewrite Hpre. cbv zeta. cbn [fst snd].
  rewrite (sequential_path_agrees_thm _ ws Hnf). unfold sequential.
  rewrite (no_failure_no_error_thm _ ws sched Hnf), (no_failure_no_error_thm _ ws (seq_sched ws) Hnf).
  cbn [result_of after].
  rewrite (post_pass_ok_intact t o0 pre ws sched Hdis Hpre Hnf Hfin).
  rewrite (post_pass_ok_intact t o0 pre ws (seq_sched ws) Hdis Hpre Hnf (sequential_complete _ ws)).
  repeat split; intros o; apply (schedule_independent_thm _ ws sched Hdis Hfin o).
Qed.

(* one damaged folder: threads and the sequential path raise the same error; they agree on the outputs
   of the folders up to the damaged one; the later folders are extracted by the threads, untouched by the
   sequential path *)
Theorem damaged_threads_vs_sequential_thm : forall o0 pre w post e sched,
  disjoint (pre ++ w :: post) ->
  (forall p, In p pre -> first_fail p = None) -> first_fail w = Some e ->
  (forall p, In p post -> first_fail p = None) ->
  complete sched o0 (pre ++ w :: post) ->
  let ws := pre ++ w :: post in
  let sp := run sched (init o0 ws) in
  let ss := seq_abort o0 ws in
  result_of (s_chan sp) = Err e /\ result_of (s_chan ss) = Err e /\
  (forall wj o, In wj (pre ++ [w]) -> In o (fp wj) -> s_out sp o = s_out ss o) /\
  (forall wj o, In wj post -> In o (fp wj) -> s_out sp o = fst (lrun wj o0 0) o /\ s_out ss o = o0 o).
Proof.
  intros o0 pre w post e sched Hdis Hpre Hf Hpost Hfin ws sp ss.
  destruct (sequential_path_on_error_thm o0 pre w post e Hdis Hpre Hf) as (Hr & Hbefore & Hafter).
  destruct (finished_outs o0 ws sched Hdis Hfin) as (H1 & _).
  assert (Hk : nth_error ws (length pre) = Some w).
  { unfold ws. rewrite nth_error_app2 by lia. rewrite Nat.sub_diag. reflexivity. }
  split; [|split; [exact Hr|split]].
  - apply (single_failure_identity_thm o0 ws sched (length pre) w e Hk Hf); auto.
    intros j wj Hne Ej. unfold ws in Ej.
    destruct (Nat.lt_ge_cases j (length pre)) as [Hlt|Hge].
    + rewrite nth_error_app1 in Ej by exact Hlt. apply Hpre. eapply nth_error_In; eauto.
    + rewrite nth_error_app2 in Ej by exact Hge.
      destruct (j - length pre) as [|d] eqn:Ed; [lia|]. simpl in Ej. apply Hpost. eapply nth_error_In; eauto.
  - intros wj o Hwj Ho. fold ws in Hbefore. unfold ss. rewrite (Hbefore wj o Hwj Ho).
    assert (Hin : In wj ws).
    { unfold ws. apply in_app_or in Hwj. apply in_or_app. destruct Hwj as [H|[H|[]]]; [left; auto | right; left; auto]. }
    apply In_nth_error in Hin. destruct Hin as (j & Ej). apply (H1 j wj o Ej Ho).
  - intros wj o Hwj Ho. split.
    + assert (Hin : In wj ws) by (unfold ws; apply in_or_app; right; right; exact Hwj).
      apply In_nth_error in Hin. destruct Hin as (j & Ej). unfold sp. rewrite (H1 j wj o Ej Ho).
      rewrite (eff_nofail wj (Hpost wj Hwj)). reflexivity.
    + apply (Hafter wj o Hwj Ho).
Qed.

Lemma forallb_false_ex {A} : forall (f : A -> bool) l, forallb f l = false -> exists x, In x l /\ f x = false.
Proof.
  induction l as [|x l IH]; simpl; intros H; [discriminate|].
  destruct (f x) eqn:E; simpl in H.
  - destruct (IH H) as (y & Hy & Hf). exists y. auto.
  - exists x. auto.
Qed.

(* processes: the only error the caller can get is the empty-member pass's own or the post-pass's
   FileNotFoundError; never the worker's *)
Theorem processes_partial_thm : forall t sched o0 pre ws e,
  snd (extract MProcs t sched o0 pre ws) = Err e ->
  first_fail pre = Some e \/
  (first_fail pre = None /\ t = TFile /\ e = EOther /\
   exists o, In o (fp pre ++ targets ws) /\
             exists_out (s_out (run sched (init (fst (lrun (eff pre) o0 0)) ws))) o = false).
Proof.
  intros t sched o0 pre ws e H. unfold extract in H. destruct (first_fail pre) as [e'|] eqn:Hp.
  - simpl in H. inversion H. auto.
  - right. simpl in H. destruct t; simpl in H; [|discriminate].
    destruct (forallb _ _) eqn:Hall in H; [discriminate|]. inversion H; subst e.
    repeat split; auto.
    apply forallb_false_ex. exact Hall.
Qed.

Theorem processes_file_outputs_thm : forall sched o0 pre ws o,
  fst (extract MProcs TFile sched o0 pre ws) o = fst (extract MThreads TFile sched o0 pre ws) o.
Proof. intros. unfold extract. destruct (first_fail pre); reflexivity. Qed.

Theorem processes_mem_outputs_lost_thm : forall sched o0 pre ws o,
  fst (extract MProcs TMem sched o0 pre ws) o = fst (lrun (eff pre) o0 0) o.
Proof. intros. unfold extract. destruct (first_fail pre); reflexivity. Qed.

(* after the proposed repair processes behave as threads do *)
Theorem processes_repaired_as_threads_thm : forall t sched o0 pre ws,
  extract MProcsFixed t sched o0 pre ws = extract MThreads t sched o0 pre ws.
Proof. intros. unfold extract. destruct (first_fail pre); reflexivity. Qed.

Theorem pre_error_all_modes_thm : forall md t sched o0 pre ws e,
  first_fail pre = Some e -> snd (extract md t sched o0 pre ws) = Err e.
Proof. intros md t sched o0 pre ws e H. unfold extract. rewrite H. reflexivity. Qed.

Theorem select_mode_parallel_iff : forall mp pw by_name n,
  select_mode mp pw by_name n <> MSeq <-> (2 <= n /\ pw = false /\ by_name = true).
Proof.
  intros mp pw by_name n. unfold select_mode. destruct (Nat.leb n 1) eqn:E.
  - apply Nat.leb_le in E. split; [congruence | lia].
  - apply Nat.leb_gt in E. destruct pw, by_name, mp; simpl; split; intros H; try congruence; try lia;
      try (repeat split; auto; lia); destruct H as (_ & H1 & H2); congruence.
Qed.

Theorem select_mode_processes_iff : forall mp pw by_name n,
  select_mode mp pw by_name n = MProcs <-> (2 <= n /\ pw = false /\ by_name = true /\ mp = true).
Proof.
  intros mp pw by_name n. unfold select_mode. destruct (Nat.leb n 1) eqn:E.
  - apply Nat.leb_le in E. split; [congruence | lia].
  - apply Nat.leb_gt in E. destruct pw, by_name, mp; simpl; split; intros H; try congruence;
      try (repeat split; auto; lia); destruct H as (_ & H1 & H2 & H3); congruence.
Qed.

(* ------------------------------------------------------------------ witnesses *)
(* two folders, the first damaged in its only member (CRC mismatch after the data was written) *)
Definition w_damaged : list worker :=
  [[ACreate 0; AWrite 0 [65; 66]%Z; AFail ECrc]; [ACreate 1; AWrite 1 [67]%Z]].
(* interleaved, five steps, complete *)
Definition sched_damaged : list nat := [1; 0; 0; 1; 0].

Lemma w_damaged_ok : disjoint w_damaged /\ complete sched_damaged none_map w_damaged /\
  nth_error w_damaged 0 = Some [ACreate 0; AWrite 0 [65; 66]%Z; AFail ECrc] /\
  first_fail [ACreate 0; AWrite 0 [65; 66]%Z; AFail ECrc] = Some ECrc.
Proof. split; [apply disjointb_sound; reflexivity|]. split; [reflexivity|]. split; reflexivity. Qed.

Theorem error_lost_processes_refuted_thm :
  exists ws sched, disjoint ws /\ complete sched none_map ws /\
    (exists w, In w ws /\ first_fail w = Some ECrc) /\
    snd (extract MThreads TFile sched none_map [] ws) = Err ECrc /\
    snd (extract MSeq TFile sched none_map [] ws) = Err ECrc /\
    snd (extract MProcs TFile sched none_map [] ws) = Ok tt /\
    snd (extract MProcs TMem sched none_map [] ws) = Ok tt.
Proof.
  exists w_damaged, sched_damaged. split; [apply disjointb_sound; reflexivity|]. split; [reflexivity|].
  split; [eexists; split; [left; reflexivity|reflexivity]|]. repeat split.
Qed.

(* intact archive, factory target, processes: "success" and not one product *)
Definition w_intact : list worker :=
  [[ACreate 0; AWrite 0 [65; 66]%Z; AWrite 0 [67]%Z; ACreate 1; AWrite 1 [68]%Z]; [ACreate 2; AWrite 2 [69]%Z; AWrite 2 [70]%Z]].
Definition sched_intact : list nat := [1; 0; 0; 1; 0; 1; 0; 0].

Lemma w_intact_ok : disjoint w_intact /\ complete sched_intact none_map w_intact /\
  (forall w, In w w_intact -> first_fail w = None).
Proof.
  split; [apply disjointb_sound; reflexivity|]. split; [reflexivity|].
  intros w [<-|[<-|[]]]; reflexivity.
Qed.

Theorem mem_outputs_lost_processes_refuted_thm :
  exists ws sched, disjoint ws /\ complete sched none_map ws /\ (forall w, In w ws -> first_fail w = None) /\
    snd (extract MProcs TMem sched none_map [] ws) = Ok tt /\
    (forall o, fst (extract MProcs TMem sched none_map [] ws) o = None) /\
    fst (extract MThreads TMem sched none_map [] ws) 0 = Some [65; 66; 67]%Z /\
    fst (extract MThreads TMem sched none_map [] ws) 2 = Some [69; 70]%Z.
Proof.
  exists w_intact, sched_intact. destruct w_intact_ok as (H1 & H2 & H3). repeat split; auto.
Qed.

(* the post-pass turns a lost worker error into FileNotFoundError when the damaged member is not the
   last of its folder *)
Definition w_damaged_mid : list worker :=
  [[ACreate 0; AWrite 0 [65]%Z; AFail ECrc; ACreate 1; AWrite 1 [66]%Z]; [ACreate 2; AWrite 2 [67]%Z]].
Example processes_post_pass_error :
  snd (extract MProcs TFile (seq_sched w_damaged_mid) none_map [] w_damaged_mid) = Err EOther /\
  snd (extract MThreads TFile (seq_sched w_damaged_mid) none_map [] w_damaged_mid) = Err ECrc.
Proof. split; reflexivity. Qed.

(* two workers sharing an output (what the names a_0, a | a led to before commit 5112351; no archive leads
   there any more, see outnames_nodup_thm): not disjoint, and the result depends on the schedule: later wins /
   earlier wins / neither (a mixture).  Shows that `disjoint` cannot be dropped from schedule_independent_thm *)
Definition w_collide : list worker :=
  [[ACreate 0; AWrite 0 [65; 65; 65]%Z]; [ACreate 0; AWrite 0 [99]%Z]].
Theorem collision_race_refuted_thm :
  disjointb w_collide = false /\
  complete [0; 0; 1; 1] none_map w_collide /\ complete [1; 1; 0; 0] none_map w_collide /\
  complete [0; 1; 0; 1] none_map w_collide /\
  s_out (run [0; 0; 1; 1] (init none_map w_collide)) 0 = Some [99]%Z /\
  s_out (seq_abort none_map w_collide) 0 = Some [99]%Z /\
  s_out (run [1; 1; 0; 0] (init none_map w_collide)) 0 = Some [65; 65; 65]%Z /\
  s_out (run [0; 1; 0; 1] (init none_map w_collide)) 0 = Some [99; 65; 65]%Z.
Proof. repeat split. Qed.

Lemma w_collide_not_disjoint : ~ disjoint w_collide.
Proof.
  intros H. apply (H 0 1 [ACreate 0; AWrite 0 [65; 65; 65]%Z] [ACreate 0; AWrite 0 [99]%Z] 0); simpl; auto.
Qed.

(* names "a_0", "a", "a" (the witness of the collision before commit 5112351): the second "a" now skips a_0 *)
Example outnames_former_collision :
  outnames [[97; 95; 48]; [97]; [97]]%Z = [[97; 95; 48]; [97]; [97; 95; 49]]%Z /\
  outnames [[97]; [97]; [97; 95; 48]; [97]]%Z = [[97]; [97; 95; 48]; [97; 95; 48; 95; 48]; [97; 95; 49]]%Z.
Proof. split; reflexivity. Qed.

(* every output has one owner => the workers are disjoint (each member id belongs to exactly one folder, and
   by outnames_nodup_thm different members have different outputs) *)
Theorem disjoint_of_owner_thm : forall ws (owner : nat -> nat),
  (forall i w o, nth_error ws i = Some w -> In o (fp w) -> owner o = i) -> disjoint ws.
Proof.
  intros ws owner H i j wi wj o Hne Ei Ej Hi Hj.
  apply Hne. rewrite <- (H i wi o Ei Hi). apply (H j wj o Ej Hj).
Qed.

(* two damaged folders: which error is raised depends on the schedule (the sequential path raises the first) *)
Definition w_two_damaged : list worker := [[ACreate 0; AFail ECrc]; [ACreate 1; AFail EEof]].
Theorem error_identity_schedule_dependent_thm :
  disjoint w_two_damaged /\
  complete [0; 0; 1; 1] none_map w_two_damaged /\ complete [0; 1; 1; 0] none_map w_two_damaged /\
  result_of (s_chan (run [0; 0; 1; 1] (init none_map w_two_damaged))) = Err ECrc /\
  result_of (s_chan (run [0; 1; 1; 0] (init none_map w_two_damaged))) = Err EEof /\
  result_of (s_chan (seq_abort none_map w_two_damaged)) = Err ECrc.
Proof. split; [apply disjointb_sound; reflexivity|]. repeat split. Qed.

(* two objects on the same damaged archive, workers of both interleaved *)
Definition w_objB : list worker :=
  [[ACreate 2; AWrite 2 [65; 66]%Z; AFail ECrc]; [ACreate 3; AWrite 3 [67]%Z]].
Lemma two_objects_ok : disjoint (w_damaged ++ w_objB) /\
  complete [2; 0; 3; 1; 0; 2; 2; 0; 1; 3] none_map (w_damaged ++ w_objB).
Proof. split; [apply disjointb_sound; reflexivity | reflexivity]. Qed.

(* schedule independence without a hypothesis on footprints other than: every output has one owner *)
Theorem schedule_independent_owner_thm : forall o0 ws sched (owner : nat -> nat),
  (forall i w o, nth_error ws i = Some w -> In o (fp w) -> owner o = i) ->
  complete sched o0 ws ->
  forall o, s_out (run sched (init o0 ws)) o = s_out (sequential o0 ws) o.
Proof.
  intros o0 ws sched owner H Hfin. apply schedule_independent_thm; auto. eapply disjoint_of_owner_thm; eauto.
Qed.
