(* Dispatch.v -- the single entry point of the extracted model: decodes a request
   tree into arguments of a model function and encodes the result.  Function numbers
   are read by tools/harness/model.py from the "FN <n> <name>" comments below. *)
From P7 Require Import Prelude PyPrims Number Crc32 Header HeaderCodec.
From P7 Require Path ExtractFS Assign Select RSession WSession Par Events Trace Cli Mode Mem Enc Toy Damage Cost Listing Append.
Open Scope Z_scope.

Definition t_optpair {A} (f : A -> tree) (o : option (A * bytes)) : tree :=
  match o with Some (a, r) => TL [f a; t_bytes r] | None => TL [] end.

Definition base_dispatch (fn : Z) (a : tree) : tree :=
  match fn with
  (* FN 1 crc32_update : (v bytes) -> int *)
  | 1 => TI (crc32_update (of_TI (tnth a 0)) (of_bytes (tnth a 1)))
  (* FN 2 spec_number : bytes -> () | (v rest) *)
  | 2 => t_optpair TI (spec_number (of_bytes a))
  (* FN 3 number_enc : v -> bytes *)
  | 3 => t_bytes (number_enc (of_TI a))
  (* FN 10 parse_header : (lim bytes) -> res header *)
  | 10 => t_res t_header (parse_header (of_TI (tnth a 0)) (of_bytes (tnth a 1)))
  (* FN 11 write_header : (enable_digests pos header) -> res bytes *)
  | 11 => t_res t_bytes (write_header (of_bool (tnth a 0)) (of_TI (tnth a 1)) (of_header (tnth a 2)))
  (* FN 12 rd_number : bytes -> res (v rest) *)
  | 12 => t_res (fun '(v, r) => TL [TI v; t_bytes r]) (rd_number (of_bytes a))
  | _ => TL [TI (-2)]
  end.

(* number ranges owned by the model files *)
Definition dispatch (fn : Z) (a : tree) : tree :=
  if fn <? 100 then base_dispatch fn a
  else if fn <? 120 then Path.path_dispatch fn a
  else if fn <? 160 then ExtractFS.fs_dispatch fn a
  else if fn <? 180 then Assign.assign_dispatch fn a
  else if fn <? 200 then Select.select_dispatch fn a
  else if fn <? 220 then RSession.rsession_dispatch fn a
  else if fn <? 240 then WSession.wsession_dispatch fn a
  else if fn <? 260 then Par.par_dispatch fn a
  else if fn <? 280 then Events.events_dispatch fn a
  else if fn <? 300 then Trace.trace_dispatch fn a
  else if fn <? 320 then Cli.cli_dispatch fn a
  else if fn <? 340 then Mode.mode_dispatch fn a
  else if fn <? 360 then Mem.mem_dispatch fn a
  else if fn <? 380 then Enc.enc_dispatch fn a
  else if fn <? 400 then Toy.toy_dispatch fn a
  else if fn <? 420 then Damage.damage_dispatch fn a
  else if fn <? 440 then Cost.cost_dispatch fn a
  else if fn <? 460 then Listing.listing_dispatch fn a
  else if fn <? 480 then Append.append_dispatch fn a
  else TL [TI (-2)].
