(* Prelude.v -- shared vocabulary of every model in this development.
   stdlib only; no axioms. *)
From Coq Require Export ZArith List Bool Lia.
Export ListNotations.
Open Scope Z_scope.

Definition byte := Z.
Definition bytes := list Z.

Definition is_byte (b : Z) : bool := (0 <=? b) && (b <? 256).
Definition wf_bytes (bs : bytes) : bool := forallb is_byte bs.

Inductive err := EBad7z | ECrc | EPassword | EUnsupported | EEof | EOther | EFuel.
Inductive res (A : Type) := Ok (a : A) | Err (e : err).
Arguments Ok {A} a.
Arguments Err {A} e.

Definition bind {A B} (r : res A) (f : A -> res B) : res B :=
  match r with Ok a => f a | Err e => Err e end.
Notation "'do' x <- r ; k" := (bind r (fun x => k))
  (at level 200, x pattern, r at level 100, k at level 200, right associativity).

(* A reader consumes a prefix of a byte string and returns the suffix. *)
Definition reader (A : Type) := bytes -> res (A * bytes).

(* Protocol between the OCaml driver and the Gallina dispatchers. *)
Inductive tree := TI (z : Z) | TL (l : list tree).

Definition t_bytes (bs : bytes) : tree := TL (map TI bs).
Definition t_bool (b : bool) : tree := TI (if b then 1 else 0).
Definition t_err (e : err) : tree :=
  TI (match e with EBad7z => 1 | ECrc => 2 | EPassword => 3 | EUnsupported => 4
               | EEof => 5 | EOther => 6 | EFuel => 7 end).
Definition t_res {A} (f : A -> tree) (r : res A) : tree :=
  match r with Ok a => TL [TI 0; f a] | Err e => TL [TI 1; t_err e] end.
Definition t_opt {A} (f : A -> tree) (o : option A) : tree :=
  match o with Some a => TL [f a] | None => TL [] end.

Definition of_TI (t : tree) : Z := match t with TI z => z | TL _ => 0 end.
Definition of_TL (t : tree) : list tree := match t with TL l => l | TI _ => [] end.
Definition of_bytes (t : tree) : bytes := map of_TI (of_TL t).
Definition of_bool (t : tree) : bool := negb (of_TI t =? 0).
Definition of_opt {A} (f : tree -> A) (t : tree) : option A :=
  match of_TL t with x :: _ => Some (f x) | [] => None end.
Definition tnth (t : tree) (n : nat) : tree := nth n (of_TL t) (TL []).

Fixpoint repeatZ (x : Z) (n : nat) : bytes :=
  match n with O => [] | S n' => x :: repeatZ x n' end.

Lemma bind_ok {A B} (r : res A) (f : A -> res B) a : r = Ok a -> bind r f = f a.
Proof. intros ->; reflexivity. Qed.
