(* Aes.v -- the 16-byte residue buffering that py7zr puts in front of AES-CBC.

   Python sources mirrored here (py7zr, read-only):
     py7zr/compressor.py  AESCompressor.compress / AESCompressor.flush   (l.140-180)
                          AESDecompressor.decompress                      (l.212-240)
     py7zr/io.py          Buffer.add / set / reset / view / __len__       (l.265-296)

   The AES block function is NOT modelled: it is an abstract pair
   [Eb Db : bytes -> bytes] (Section variables) with [Db (Eb x) = x] and
   length preservation on 16-byte blocks.  CBC chaining on top of it IS
   modelled ([cbc_enc], [cbc_dec]); a pycryptodome cipher object is identified
   with its chaining value.

   File layout:  Part 1 "Model" (definitions only, all computable),
                 Part 2 proofs, Part 3 toy instantiation / refutations /
                 Print Assumptions.                                         *)

From P7 Require Import Prelude.

(* ====================================================================== *)
(* Part 1.  MODEL                                                          *)
(* ====================================================================== *)

(* len(x) as a Python int *)
Definition blen (l : bytes) : Z := Z.of_nat (length l).

(* ---------------------------------------------------------------------- *)
(* 1.1 Python slice semantics (step 1) for every integer index.            *)
(*     CPython PySlice_AdjustIndices: a negative index gets len added and  *)
(*     is then clamped to 0; a non-negative one is clamped to len.         *)
(* ---------------------------------------------------------------------- *)

Definition py_index (n k : Z) : Z :=
  if k <? 0 then Z.max (k + n) 0 else Z.min k n.

(* l[:k] *)
Definition py_slice_to (l : bytes) (k : Z) : bytes :=
  firstn (Z.to_nat (py_index (blen l) k)) l.

(* l[k:] *)
Definition py_slice_from (l : bytes) (k : Z) : bytes :=
  skipn (Z.to_nat (py_index (blen l) k)) l.

(* ---------------------------------------------------------------------- *)
(* 1.2 py7zr.io.Buffer, concretely: a bytearray [_buf] that is resized by  *)
(*     slice assignment, and a logical length [_buflen].  [view] is        *)
(*     re-computed by every method as _buf[0:_buflen] (a copy), so it is a *)
(*     function of the two fields.                                         *)
(* ---------------------------------------------------------------------- *)

Record rawbuf := { rb_buf : bytes; rb_len : Z }.

(* Buffer(size): self._buf = bytearray(size); self._buflen = 0 *)
Definition rb_init (size : Z) : rawbuf :=
  {| rb_buf := repeatZ 0 (Z.to_nat size); rb_len := 0 |}.

(* self.view == memoryview(self._buf[0:self._buflen]) after every method *)
Definition rb_view (b : rawbuf) : bytes := py_slice_to (rb_buf b) (rb_len b).

(* __len__ *)
Definition rb_length (b : rawbuf) : Z := rb_len b.

(* add:  self._buf[self._buflen:] = data   (replaces the tail, resizing)
         self._buflen += len(data)                                         *)
Definition rb_add (b : rawbuf) (data : bytes) : rawbuf :=
  {| rb_buf := py_slice_to (rb_buf b) (rb_len b) ++ data;
     rb_len := rb_len b + blen data |}.

(* reset: self._buflen = 0 *)
Definition rb_reset (b : rawbuf) : rawbuf :=
  {| rb_buf := rb_buf b; rb_len := 0 |}.

(* set:  self._buf[0:] = data ; self._buflen = len(data) *)
Definition rb_set (b : rawbuf) (data : bytes) : rawbuf :=
  {| rb_buf := py_slice_to (rb_buf b) 0 ++ data; rb_len := blen data |}.

(* representation invariant of Buffer *)
Definition rb_wf (b : rawbuf) : Prop := 0 <= rb_len b <= blen (rb_buf b).

(* The abstract Buffer used by the state machines below is just its view
   (a byte list).  Lemmas rb_*_view in Part 2 show that these five
   operations are exactly what the concrete Buffer does to its view.      *)
Definition buf_len (b : bytes) : Z := blen b.
Definition buf_view (b : bytes) : bytes := b.
Definition buf_add (b data : bytes) : bytes := b ++ data.
Definition buf_reset (b : bytes) : bytes := [].
Definition buf_set (b data : bytes) : bytes := data.

(* bytes(n): n zero bytes *)
Definition zeros (n : Z) : bytes := repeatZ 0 (Z.to_nat n).

(* d followed by (-len d mod 16) zero bytes *)
Definition pad16 (d : bytes) : bytes := d ++ zeros ((- blen d) mod 16).

(* ---------------------------------------------------------------------- *)
(* 1.3 CBC over an abstract block step.                                    *)
(* ---------------------------------------------------------------------- *)

Fixpoint xor_bytes (a b : bytes) : bytes :=
  match a, b with
  | x :: a', y :: b' => Z.lxor x y :: xor_bytes a' b'
  | _, _ => []
  end.

(* Split off one 16-byte block in constant time (no length computation). *)
Definition split16 (l : bytes) : option (bytes * bytes) :=
  match l with
  | a0 :: a1 :: a2 :: a3 :: a4 :: a5 :: a6 :: a7 :: a8 :: a9 :: a10 :: a11
       :: a12 :: a13 :: a14 :: a15 :: r =>
      Some ([a0; a1; a2; a3; a4; a5; a6; a7; a8; a9; a10; a11; a12; a13; a14; a15], r)
  | _ => None
  end.

(* [step iv blk] = (output block, next chaining value).
   Data is consumed 16 bytes at a time.  CHOICE for what pycryptodome cannot
   do: a trailing partial block (0 < n < 16 bytes left) is DROPPED: nothing
   is output for it and the chaining value is left unchanged.  pycryptodome
   raises ValueError("Data must be padded to 16 byte boundary in CBC mode")
   instead; the *_chk functions of 1.6 model that exception.               *)
Fixpoint cbc_aux (step : bytes -> bytes -> bytes * bytes)
         (fuel : nat) (iv data : bytes) : bytes * bytes :=
  match fuel with
  | O => ([], iv)
  | S f =>
      match split16 data with
      | None => ([], iv)
      | Some (blk, rest) =>
          let (o, iv1) := step iv blk in
          let (out, iv2) := cbc_aux step f iv1 rest in
          (o ++ out, iv2)
      end
  end.

Definition cbc (step : bytes -> bytes -> bytes * bytes) (iv data : bytes)
  : bytes * bytes := cbc_aux step (length data) iv data.

(* ValueError of pycryptodome's CBC encrypt()/decrypt() *)
Definition aligned16 (data : bytes) : bool := Z.land (blen data) 15 =? 0.

(* what the decompressor's hypothesis looks like (see aes_decompress_chunking):
   r = current residue length; a chunk may arrive on a non-empty residue only
   if it completes at least one block.                                       *)
Fixpoint dec_chunks_ok (r : Z) (chunks : list bytes) : bool :=
  match chunks with
  | [] => true
  | d :: rest =>
      ((r =? 0) || (16 <=? r + blen d))
      && dec_chunks_ok ((r + blen d) mod 16) rest
  end.

Section AES.

Variable Eb Db : bytes -> bytes.   (* AES block encryption / decryption *)

(* c_i = E(p_i xor c_{i-1}) ; next chaining value c_i *)
Definition enc_step (iv blk : bytes) : bytes * bytes :=
  let c := Eb (xor_bytes blk iv) in (c, c).

(* p_i = D(c_i) xor c_{i-1} ; next chaining value c_i *)
Definition dec_step (iv blk : bytes) : bytes * bytes :=
  (xor_bytes (Db blk) iv, blk).

(* (output, new chaining value) *)
Definition cbc_enc (iv data : bytes) : bytes * bytes := cbc enc_step iv data.
Definition cbc_dec (iv data : bytes) : bytes * bytes := cbc dec_step iv data.

(* A cipher object (AES.new(key, MODE_CBC, iv)) is its chaining value. *)
Definition cst := bytes.

(* cipher.encrypt(data) / cipher.decrypt(data): (new cipher state, result) *)
Definition cipher_encrypt (c : cst) (data : bytes) : cst * bytes :=
  let (out, c1) := cbc_enc c data in (c1, out).
Definition cipher_decrypt (c : cst) (data : bytes) : cst * bytes :=
  let (out, c1) := cbc_dec c data in (c1, out).

(* ---------------------------------------------------------------------- *)
(* 1.4 AESCompressor                                                       *)
(* ---------------------------------------------------------------------- *)

Record cstate := { cbuf : bytes; ccst : cst }.

Definition cinit (iv : bytes) : cstate := {| cbuf := []; ccst := iv |}.

Definition aes_compress (st : cstate) (data : bytes) : cstate * bytes :=
  (* currentlen = len(self.buf) + len(data) *)
  let currentlen := buf_len (cbuf st) + blen data in
  (* if currentlen >= 16 and (currentlen & 0x0F) == 0: *)
  if (16 <=? currentlen) && (Z.land currentlen 15 =? 0) then
    (* self.buf.add(data) *)
    let b1 := buf_add (cbuf st) data in
    (* res = self.cipher.encrypt(self.buf.view) *)
    let (c1, res) := cipher_encrypt (ccst st) (buf_view b1) in
    (* self.buf.reset() *)
    ({| cbuf := buf_reset b1; ccst := c1 |}, res)
  (* elif currentlen > 16: *)
  else if 16 <? currentlen then
    (* nextpos = currentlen & ~0x0F *)
    let nextpos := Z.land currentlen (Z.lnot 15) in
    (* buflen = len(self.buf) *)
    let buflen := buf_len (cbuf st) in
    (* self.buf.add(data[: nextpos - buflen]) *)
    let b1 := buf_add (cbuf st) (py_slice_to data (nextpos - buflen)) in
    (* res = self.cipher.encrypt(self.buf.view) *)
    let (c1, res) := cipher_encrypt (ccst st) (buf_view b1) in
    (* self.buf.set(data[nextpos - buflen :]) *)
    ({| cbuf := buf_set b1 (py_slice_from data (nextpos - buflen)); ccst := c1 |}, res)
  else
    (* self.buf.add(data); res = b"" *)
    ({| cbuf := buf_add (cbuf st) data; ccst := ccst st |}, []).

Definition aes_flush (st : cstate) : cstate * bytes :=
  (* if len(self.buf) > 0: *)
  if 0 <? buf_len (cbuf st) then
    (* padlen = -len(self.buf) & 15 *)
    let padlen := Z.land (- buf_len (cbuf st)) 15 in
    (* self.buf.add(bytes(padlen)) *)
    let b1 := buf_add (cbuf st) (zeros padlen) in
    (* res = self.cipher.encrypt(self.buf.view) *)
    let (c1, res) := cipher_encrypt (ccst st) (buf_view b1) in
    (* self.buf.reset() *)
    ({| cbuf := buf_reset b1; ccst := c1 |}, res)
  else
    (st, []).

(* ---------------------------------------------------------------------- *)
(* 1.5 AESDecompressor                                                     *)
(* ---------------------------------------------------------------------- *)

Record dstate := { dbuf : bytes; dcst : cst }.

Definition dinit (iv : bytes) : dstate := {| dbuf := []; dcst := iv |}.

Definition aes_decompress (st : dstate) (data : bytes) : dstate * bytes :=
  (* currentlen = len(self.buf) + len(data) *)
  let currentlen := buf_len (dbuf st) + blen data in
  (* if len(data) > 0 and (currentlen & 0x0F) == 0: *)
  if (0 <? blen data) && (Z.land currentlen 15 =? 0) then
    (* self.buf.add(data) *)
    let b1 := buf_add (dbuf st) data in
    (* temp = self.cipher.decrypt(self.buf.view) *)
    let (c1, temp) := cipher_decrypt (dcst st) (buf_view b1) in
    (* self.buf.reset() *)
    ({| dbuf := buf_reset b1; dcst := c1 |}, temp)
  (* elif len(data) > 0: *)
  else if 0 <? blen data then
    (* nextpos = currentlen & ~0x0F *)
    let nextpos := Z.land currentlen (Z.lnot 15) in
    (* buflen = len(self.buf) *)
    let buflen := buf_len (dbuf st) in
    (* temp2 = data[nextpos - buflen :] *)
    let temp2 := py_slice_from data (nextpos - buflen) in
    (* self.buf.add(data[: nextpos - buflen]) *)
    let b1 := buf_add (dbuf st) (py_slice_to data (nextpos - buflen)) in
    (* temp = self.cipher.decrypt(self.buf.view) *)
    let (c1, temp) := cipher_decrypt (dcst st) (buf_view b1) in
    (* self.buf.set(temp2) *)
    ({| dbuf := buf_set b1 temp2; dcst := c1 |}, temp)
  (* elif len(self.buf) == 0:  return b"" *)
  else if buf_len (dbuf st) =? 0 then
    (st, [])
  else
    (* padlen = -len(self.buf) & 15 *)
    let padlen := Z.land (- buf_len (dbuf st)) 15 in
    (* self.buf.add(bytes(padlen)) *)
    let b1 := buf_add (dbuf st) (zeros padlen) in
    (* temp3 = self.cipher.decrypt(self.buf.view) *)
    let (c1, temp3) := cipher_decrypt (dcst st) (buf_view b1) in
    (* self.buf.reset() *)
    ({| dbuf := buf_reset b1; dcst := c1 |}, temp3).

(* ---------------------------------------------------------------------- *)
(* 1.6 The same three methods with pycryptodome's ValueError made explicit *)
(*     (Err EOther  <->  the cipher is handed a length that is not a       *)
(*     multiple of 16).  Part 2 proves they agree with 1.4/1.5 whenever    *)
(*     they return Ok, and says exactly when they return Err.              *)
(* ---------------------------------------------------------------------- *)

Definition cipher_encrypt_chk (c : cst) (data : bytes) : res (cst * bytes) :=
  if aligned16 data then Ok (cipher_encrypt c data) else Err EOther.
Definition cipher_decrypt_chk (c : cst) (data : bytes) : res (cst * bytes) :=
  if aligned16 data then Ok (cipher_decrypt c data) else Err EOther.

Definition aes_compress_chk (st : cstate) (data : bytes) : res (cstate * bytes) :=
  let currentlen := buf_len (cbuf st) + blen data in
  if (16 <=? currentlen) && (Z.land currentlen 15 =? 0) then
    let b1 := buf_add (cbuf st) data in
    do (c1, res) <- cipher_encrypt_chk (ccst st) (buf_view b1);
    Ok ({| cbuf := buf_reset b1; ccst := c1 |}, res)
  else if 16 <? currentlen then
    let nextpos := Z.land currentlen (Z.lnot 15) in
    let buflen := buf_len (cbuf st) in
    let b1 := buf_add (cbuf st) (py_slice_to data (nextpos - buflen)) in
    do (c1, res) <- cipher_encrypt_chk (ccst st) (buf_view b1);
    Ok ({| cbuf := buf_set b1 (py_slice_from data (nextpos - buflen)); ccst := c1 |}, res)
  else
    Ok ({| cbuf := buf_add (cbuf st) data; ccst := ccst st |}, []).

Definition aes_flush_chk (st : cstate) : res (cstate * bytes) :=
  if 0 <? buf_len (cbuf st) then
    let padlen := Z.land (- buf_len (cbuf st)) 15 in
    let b1 := buf_add (cbuf st) (zeros padlen) in
    do (c1, res) <- cipher_encrypt_chk (ccst st) (buf_view b1);
    Ok ({| cbuf := buf_reset b1; ccst := c1 |}, res)
  else
    Ok (st, []).

Definition aes_decompress_chk (st : dstate) (data : bytes) : res (dstate * bytes) :=
  let currentlen := buf_len (dbuf st) + blen data in
  if (0 <? blen data) && (Z.land currentlen 15 =? 0) then
    let b1 := buf_add (dbuf st) data in
    do (c1, temp) <- cipher_decrypt_chk (dcst st) (buf_view b1);
    Ok ({| dbuf := buf_reset b1; dcst := c1 |}, temp)
  else if 0 <? blen data then
    let nextpos := Z.land currentlen (Z.lnot 15) in
    let buflen := buf_len (dbuf st) in
    let temp2 := py_slice_from data (nextpos - buflen) in
    let b1 := buf_add (dbuf st) (py_slice_to data (nextpos - buflen)) in
    do (c1, temp) <- cipher_decrypt_chk (dcst st) (buf_view b1);
    Ok ({| dbuf := buf_set b1 temp2; dcst := c1 |}, temp)
  else if buf_len (dbuf st) =? 0 then
    Ok (st, [])
  else
    let padlen := Z.land (- buf_len (dbuf st)) 15 in
    let b1 := buf_add (dbuf st) (zeros padlen) in
    do (c1, temp3) <- cipher_decrypt_chk (dcst st) (buf_view b1);
    Ok ({| dbuf := buf_reset b1; dcst := c1 |}, temp3).

(* ---------------------------------------------------------------------- *)
(* 1.7 Runs                                                                *)
(* ---------------------------------------------------------------------- *)

(* feed the chunks one after the other, concatenate what comes out *)
Fixpoint compress_all (st : cstate) (chunks : list bytes) : cstate * bytes :=
  match chunks with
  | [] => (st, [])
  | d :: rest =>
      let (st1, o1) := aes_compress st d in
      let (st2, o2) := compress_all st1 rest in
      (st2, o1 ++ o2)
  end.

Fixpoint decompress_all (st : dstate) (chunks : list bytes) : dstate * bytes :=
  match chunks with
  | [] => (st, [])
  | d :: rest =>
      let (st1, o1) := aes_decompress st d in
      let (st2, o2) := decompress_all st1 rest in
      (st2, o1 ++ o2)
  end.

(* whole streams: all compress() calls then flush();
   all decompress() calls then the final decompress(b"") ("padding" call) *)
Definition compress_stream (iv : bytes) (chunks : list bytes) : bytes :=
  let (st, out) := compress_all (cinit iv) chunks in
  let (_, tail) := aes_flush st in out ++ tail.

Definition decompress_stream (iv : bytes) (chunks : list bytes) : bytes :=
  let (st, out) := decompress_all (dinit iv) chunks in
  let (_, tail) := aes_decompress st [] in out ++ tail.

(* checked run of the decompressor: Err as soon as one call raises *)
Fixpoint decompress_all_chk (st : dstate) (chunks : list bytes) : res (dstate * bytes) :=
  match chunks with
  | [] => Ok (st, [])
  | d :: rest =>
      do (st1, o1) <- aes_decompress_chk st d;
      do (st2, o2) <- decompress_all_chk st1 rest;
      Ok (st2, o1 ++ o2)
  end.


(* ====================================================================== *)
(* Part 2.  PROOFS                                                         *)
(* ====================================================================== *)

Arguments split16 : simpl never.

(* ---------------------------------------------------------------------- *)
(* 2.1 lengths, Python int bit tricks, slices                              *)
(* ---------------------------------------------------------------------- *)

Lemma blen_nonneg (l : bytes) : 0 <= blen l.
Proof. unfold blen; lia. Qed.

Lemma blen_app (a b : bytes) : blen (a ++ b) = blen a + blen b.
Proof. unfold blen; rewrite app_length; lia. Qed.

Lemma blen_nil : blen [] = 0.
Proof. reflexivity. Qed.

Lemma blen_zero_nil (l : bytes) (H : blen l = 0) : l = [].
Proof. destruct l as [|x l]; [reflexivity|]. unfold blen in H; simpl in H; lia. Qed.

Lemma length_repeatZ (x : Z) (n : nat) : length (repeatZ x n) = n.
Proof. induction n as [|n IH]; simpl; congruence. Qed.

Lemma blen_zeros (n : Z) (H : 0 <= n) : blen (zeros n) = n.
Proof. unfold blen, zeros; rewrite length_repeatZ; lia. Qed.

(* x & 0x0F *)
Lemma land15 (x : Z) : Z.land x 15 = x mod 16.
Proof. change 15 with (Z.ones 4). rewrite Z.land_ones by lia. reflexivity. Qed.

(* x & ~0x0F *)
Lemma land_not15 (x : Z) : Z.land x (Z.lnot 15) = 16 * (x / 16).
Proof.
  rewrite <- Z.ldiff_land. change 15 with (Z.ones 4).
  rewrite Z.ldiff_ones_r by lia.
  rewrite Z.shiftl_mul_pow2, Z.shiftr_div_pow2 by lia.
  change (2 ^ 4) with 16. lia.
Qed.

Lemma aligned16_iff (d : bytes) : aligned16 d = true <-> blen d mod 16 = 0.
Proof. unfold aligned16. rewrite land15. apply Z.eqb_eq. Qed.

Lemma py_slice_cat (l : bytes) (k : Z) : py_slice_to l k ++ py_slice_from l k = l.
Proof. unfold py_slice_to, py_slice_from. apply firstn_skipn. Qed.

Lemma py_slice_to_len (l : bytes) (k : Z) (H : 0 <= k <= blen l) :
  blen (py_slice_to l k) = k.
Proof.
  unfold py_slice_to, py_index, blen in *.
  destruct (Z.ltb_spec k 0) as [Hk|Hk]; [lia|].
  rewrite firstn_length. lia.
Qed.

Lemma py_slice_from_len (l : bytes) (k : Z) (H : 0 <= k <= blen l) :
  blen (py_slice_from l k) = blen l - k.
Proof.
  unfold py_slice_from, py_index, blen in *.
  destruct (Z.ltb_spec k 0) as [Hk|Hk]; [lia|].
  rewrite skipn_length. lia.
Qed.

(* negative index: counts from the end *)
Lemma py_slice_from_neg (l : bytes) (k : Z) (H : - blen l <= k < 0) :
  py_slice_from l k = skipn (Z.to_nat (blen l + k)) l.
Proof.
  unfold py_slice_from, py_index.
  destruct (Z.ltb_spec k 0) as [Hk|Hk]; [|lia].
  f_equal. lia.
Qed.

(* negative index beyond the start: clamped to the whole list *)
Lemma py_slice_from_neg_clamp (l : bytes) (k : Z) (H : k <= - blen l) (Hk : k < 0) :
  py_slice_from l k = l.
Proof.
  unfold py_slice_from, py_index.
  destruct (Z.ltb_spec k 0) as [Hk'|Hk']; [|lia].
  replace (Z.to_nat (Z.max (k + blen l) 0)) with 0%nat by lia. reflexivity.
Qed.

(* ---------------------------------------------------------------------- *)
(* 2.2 The concrete Buffer refines the list operations                     *)
(* ---------------------------------------------------------------------- *)

Lemma rb_init_wf (size : Z) : rb_wf (rb_init size).
Proof. unfold rb_wf, rb_init; simpl. pose proof (blen_nonneg (repeatZ 0 (Z.to_nat size))). lia. Qed.

Lemma rb_init_view (size : Z) : rb_view (rb_init size) = [].
Proof. unfold rb_view, rb_init, py_slice_to, py_index; simpl.
  replace (Z.to_nat (Z.min 0 _)) with 0%nat by (pose proof (blen_nonneg (repeatZ 0 (Z.to_nat size))); lia).
  reflexivity.
Qed.

Lemma rb_length_view (b : rawbuf) (H : rb_wf b) : rb_length b = buf_len (rb_view b).
Proof.
  unfold rb_length, buf_len, rb_view. unfold rb_wf in H.
  rewrite py_slice_to_len by lia. reflexivity.
Qed.

Lemma py_slice_to_app_exact (a d : bytes) : py_slice_to (a ++ d) (blen a) = a.
Proof.
  unfold py_slice_to, py_index.
  pose proof (blen_nonneg a) as Ha. pose proof (blen_nonneg d) as Hd.
  destruct (Z.ltb_spec (blen a) 0) as [Hk|Hk]; [lia|].
  rewrite blen_app.
  replace (Z.to_nat (Z.min (blen a) (blen a + blen d))) with (length a + 0)%nat
    by (unfold blen in *; lia).
  rewrite firstn_app_2. simpl. apply app_nil_r.
Qed.

Lemma rb_add_view (b : rawbuf) (d : bytes) (H : rb_wf b) :
  rb_view (rb_add b d) = buf_add (rb_view b) d /\ rb_wf (rb_add b d).
Proof.
  unfold rb_wf in *. unfold rb_view, rb_add, buf_add, rb_wf; simpl.
  set (v := py_slice_to (rb_buf b) (rb_len b)).
  assert (Hv : blen v = rb_len b) by (apply py_slice_to_len; lia).
  pose proof (blen_nonneg d) as Hd.
  split.
  - unfold py_slice_to, py_index.
    destruct (Z.ltb_spec (rb_len b + blen d) 0) as [Hk|Hk]; [lia|].
    rewrite blen_app, Hv.
    replace (Z.to_nat (Z.min (rb_len b + blen d) (rb_len b + blen d)))
      with (length v + length d)%nat by (unfold blen in *; lia).
    rewrite firstn_app_2. rewrite firstn_all. reflexivity.
  - rewrite blen_app, Hv. lia.
Qed.

Lemma rb_reset_view (b : rawbuf) (H : rb_wf b) :
  rb_view (rb_reset b) = buf_reset (rb_view b) /\ rb_wf (rb_reset b).
Proof.
  unfold rb_wf in *. unfold rb_view, rb_reset, buf_reset, rb_wf; simpl. split; [|lia].
  unfold py_slice_to, py_index; simpl.
  replace (Z.to_nat (Z.min 0 (blen (rb_buf b)))) with 0%nat by lia. reflexivity.
Qed.

Lemma rb_set_view (b : rawbuf) (d : bytes) :
  rb_view (rb_set b d) = buf_set (rb_view b) d /\ rb_wf (rb_set b d).
Proof.
  unfold rb_view, rb_set, buf_set, rb_wf; simpl.
  assert (E : py_slice_to (rb_buf b) 0 = []).
  { unfold py_slice_to, py_index; simpl.
    pose proof (blen_nonneg (rb_buf b)).
    replace (Z.to_nat (Z.min 0 (blen (rb_buf b)))) with 0%nat by lia. reflexivity. }
  rewrite E; simpl. pose proof (blen_nonneg d). split; [|lia].
  unfold py_slice_to, py_index.
  destruct (Z.ltb_spec (blen d) 0) as [Hk|Hk]; [lia|].
  replace (Z.to_nat (Z.min (blen d) (blen d))) with (length d) by (unfold blen; lia).
  apply firstn_all.
Qed.

(* ---------------------------------------------------------------------- *)
(* 2.3 pad16                                                               *)
(* ---------------------------------------------------------------------- *)

Lemma pad16_nil : pad16 [] = [].
Proof. reflexivity. Qed.

Lemma blen_pad16 (d : bytes) : blen (pad16 d) = blen d + (- blen d) mod 16.
Proof.
  unfold pad16. rewrite blen_app, blen_zeros; [reflexivity|].
  apply Z.mod_pos_bound; lia.
Qed.

Lemma pad16_aligned (d : bytes) : blen (pad16 d) mod 16 = 0.
Proof. rewrite blen_pad16. Z.div_mod_to_equations. lia. Qed.

Lemma pad16_id (d : bytes) (H : blen d mod 16 = 0) : pad16 d = d.
Proof.
  unfold pad16. replace ((- blen d) mod 16) with 0 by (Z.div_mod_to_equations; lia).
  apply app_nil_r.
Qed.

Lemma pad16_app (a x : bytes) (H : blen a mod 16 = 0) : pad16 (a ++ x) = a ++ pad16 x.
Proof.
  unfold pad16. rewrite blen_app, <- app_assoc.
  replace ((- (blen a + blen x)) mod 16) with ((- blen x) mod 16)
    by (Z.div_mod_to_equations; lia).
  reflexivity.
Qed.

(* ---------------------------------------------------------------------- *)
(* 2.4 xor                                                                 *)
(* ---------------------------------------------------------------------- *)

Lemma xor_bytes_length (a b : bytes) :
  length (xor_bytes a b) = Nat.min (length a) (length b).
Proof.
  revert b; induction a as [|x a IH]; intros [|y b]; simpl; try reflexivity.
  rewrite IH; reflexivity.
Qed.

Lemma xor_bytes_cancel (a b : bytes) (H : (length a <= length b)%nat) :
  xor_bytes (xor_bytes a b) b = a.
Proof.
  revert b H; induction a as [|x a IH]; intros [|y b] H; simpl in *; try reflexivity; try lia.
  rewrite IH by lia.
  rewrite Z.lxor_assoc, Z.lxor_nilpotent, Z.lxor_0_r. reflexivity.
Qed.

(* ---------------------------------------------------------------------- *)
(* 2.5 generic CBC                                                         *)
(* ---------------------------------------------------------------------- *)

Lemma split16_spec (l : bytes) :
  split16 l = if (16 <=? length l)%nat then Some (firstn 16 l, skipn 16 l) else None.
Proof. do 16 (destruct l as [|? l]; [reflexivity|]). reflexivity. Qed.

Lemma split16_none (l : bytes) (H : (length l < 16)%nat) : split16 l = None.
Proof.
  rewrite split16_spec. destruct (Nat.leb_spec 16 (length l)) as [H'|H']; [lia|reflexivity].
Qed.

Lemma split16_inv (l blk rest : bytes) (H : split16 l = Some (blk, rest)) :
  l = blk ++ rest /\ length blk = 16%nat.
Proof.
  rewrite split16_spec in H.
  destruct (Nat.leb_spec 16 (length l)) as [H'|H']; [|discriminate].
  assert (A : l = firstn 16 l ++ skipn 16 l /\ length (firstn 16 l) = 16%nat).
  { split; [symmetry; apply firstn_skipn|]. rewrite firstn_length. lia. }
  injection H as H1 H2. rewrite <- H1, <- H2. exact A.
Qed.

Lemma split16_some (blk rest : bytes) (H : length blk = 16%nat) :
  split16 (blk ++ rest) = Some (blk, rest).
Proof.
  rewrite split16_spec, app_length.
  destruct (Nat.leb_spec 16 (length blk + length rest)) as [H'|H']; [|lia].
  rewrite <- H. rewrite <- (Nat.add_0_r (length blk)) at 1.
  rewrite firstn_app_2, skipn_app, skipn_all, Nat.sub_diag. simpl.
  rewrite app_nil_r. reflexivity.
Qed.

Lemma split_block (a : bytes) (H : (16 <= length a)%nat) :
  exists blk rest, a = blk ++ rest /\ length blk = 16%nat.
Proof.
  exists (firstn 16 a), (skipn 16 a). split; [symmetry; apply firstn_skipn|].
  rewrite firstn_length. lia.
Qed.

Lemma aligned_blocks (a : bytes) (H : blen a mod 16 = 0) :
  exists n : nat, length a = (16 * n)%nat.
Proof.
  exists (Z.to_nat (blen a / 16)). unfold blen in *. Z.div_mod_to_equations. lia.
Qed.

Section CBC.
Variable step : bytes -> bytes -> bytes * bytes.

Lemma cbc_aux_fuel : forall (f1 f2 : nat) (iv data : bytes)
  (H1 : (length data <= f1)%nat) (H2 : (length data <= f2)%nat),
  cbc_aux step f1 iv data = cbc_aux step f2 iv data.
Proof.
  induction f1 as [|f1 IH]; intros [|f2] iv data H1 H2; simpl.
  - reflexivity.
  - destruct data as [|x data]; [reflexivity | simpl in H1; lia].
  - destruct data as [|x data]; [reflexivity | simpl in H2; lia].
  - destruct (split16 data) as [[blk rest]|] eqn:E; [|reflexivity].
    apply split16_inv in E as [-> Hl]. rewrite app_length in H1, H2.
    destruct (step iv blk) as [o iv1].
    rewrite (IH f2) by lia. reflexivity.
Qed.

Lemma cbc_aux_S (f : nat) (iv data : bytes) :
  cbc_aux step (S f) iv data =
  match split16 data with
  | None => ([], iv)
  | Some (blk, rest) =>
      let (o, iv1) := step iv blk in
      let (out, iv2) := cbc_aux step f iv1 rest in (o ++ out, iv2)
  end.
Proof. reflexivity. Qed.

Lemma cbc_nil (iv : bytes) : cbc step iv [] = ([], iv).
Proof. reflexivity. Qed.

Lemma cbc_short (iv d : bytes) (H : (length d < 16)%nat) : cbc step iv d = ([], iv).
Proof.
  unfold cbc. destruct (length d) eqn:E; [reflexivity|]. simpl.
  rewrite split16_none by lia. reflexivity.
Qed.

Lemma cbc_cons (iv blk rest : bytes) (H : length blk = 16%nat) :
  cbc step iv (blk ++ rest) =
  (fst (step iv blk) ++ fst (cbc step (snd (step iv blk)) rest),
   snd (cbc step (snd (step iv blk)) rest)).
Proof.
  unfold cbc. rewrite app_length, H.
  change (16 + length rest)%nat with (S (15 + length rest)).
  rewrite cbc_aux_S, split16_some by exact H.
  destruct (step iv blk) as [o iv1]; cbn [fst snd].
  rewrite (cbc_aux_fuel (15 + length rest) (length rest)) by lia.
  destruct (cbc_aux step (length rest) iv1 rest); reflexivity.
Qed.

Lemma cbc_app_n : forall (n : nat) (a iv b : bytes) (H : length a = (16 * n)%nat),
  cbc step iv (a ++ b) =
  (fst (cbc step iv a) ++ fst (cbc step (snd (cbc step iv a)) b),
   snd (cbc step (snd (cbc step iv a)) b)).
Proof.
  induction n as [|n IH]; intros a iv b H.
  - destruct a as [|x a]; [|simpl in H; lia]. simpl app. rewrite cbc_nil. simpl.
    destruct (cbc step iv b); reflexivity.
  - destruct (split_block a) as (blk & rest & -> & Hb); [lia|].
    rewrite app_length in H.
    rewrite <- app_assoc. rewrite (cbc_cons iv blk (rest ++ b) Hb), (cbc_cons iv blk rest Hb).
    rewrite (IH rest) by lia. simpl. rewrite app_assoc. reflexivity.
Qed.

Lemma cbc_app (iv a b : bytes) (H : blen a mod 16 = 0) :
  cbc step iv (a ++ b) =
  (fst (cbc step iv a) ++ fst (cbc step (snd (cbc step iv a)) b),
   snd (cbc step (snd (cbc step iv a)) b)).
Proof. destruct (aligned_blocks a H) as [n Hn]. exact (cbc_app_n n a iv b Hn). Qed.

(* lengths, for a step that maps 16-byte (iv, block) to 16-byte (out, iv) *)
Hypothesis step_len : forall iv blk : bytes,
  length iv = 16%nat -> length blk = 16%nat ->
  length (fst (step iv blk)) = 16%nat /\ length (snd (step iv blk)) = 16%nat.

Lemma cbc_length_n : forall (n : nat) (x iv : bytes)
  (Hn : (length x <= n)%nat) (Hiv : length iv = 16%nat),
  blen (fst (cbc step iv x)) = 16 * (blen x / 16) /\
  length (snd (cbc step iv x)) = 16%nat.
Proof.
  induction n as [|n IH]; intros x iv Hn Hiv.
  - destruct x as [|? x]; [|simpl in Hn; lia]. rewrite cbc_nil. simpl. auto.
  - destruct (Nat.ltb_spec (length x) 16) as [Hs|Hs].
    + rewrite cbc_short by exact Hs. cbn [fst snd]. split; [|exact Hiv].
      change (blen []) with 0. unfold blen. Z.div_mod_to_equations. lia.
    + destruct (split_block x Hs) as (blk & rest & -> & Hb).
      rewrite app_length in Hn.
      rewrite cbc_cons by exact Hb. cbn [fst snd].
      destruct (step_len iv blk Hiv Hb) as [Ho Hi].
      destruct (IH rest (snd (step iv blk))) as [IH1 IH2]; [lia|exact Hi|].
      split; [|exact IH2].
      rewrite !blen_app, IH1. unfold blen. rewrite Ho, Hb.
      Z.div_mod_to_equations. lia.
Qed.

Lemma cbc_length (x iv : bytes) (Hiv : length iv = 16%nat) :
  blen (fst (cbc step iv x)) = 16 * (blen x / 16) /\
  length (snd (cbc step iv x)) = 16%nat.
Proof. exact (cbc_length_n (length x) x iv (le_n _) Hiv). Qed.

End CBC.

(* ---------------------------------------------------------------------- *)
(* 2.6 Hypotheses on the block cipher (all of them; each theorem's         *)
(*     Print Assumptions / statement shows which ones it really uses)      *)
(* ---------------------------------------------------------------------- *)

Hypothesis Db_Eb : forall x : bytes, length x = 16%nat -> Db (Eb x) = x.
Hypothesis Eb_len : forall x : bytes, length x = 16%nat -> length (Eb x) = 16%nat.
Hypothesis Db_len : forall x : bytes, length x = 16%nat -> length (Db x) = 16%nat.

(* ---------------------------------------------------------------------- *)
(* 2.7 Theorem 1: CBC can be cut at any block boundary                     *)
(* ---------------------------------------------------------------------- *)

Theorem cbc_enc_app (iv a b : bytes) (Ha : blen a mod 16 = 0) :
  cbc_enc iv (a ++ b) =
  (fst (cbc_enc iv a) ++ fst (cbc_enc (snd (cbc_enc iv a)) b),
   snd (cbc_enc (snd (cbc_enc iv a)) b)).
Proof. exact (cbc_app enc_step iv a b Ha). Qed.

Theorem cbc_dec_app (iv a b : bytes) (Ha : blen a mod 16 = 0) :
  cbc_dec iv (a ++ b) =
  (fst (cbc_dec iv a) ++ fst (cbc_dec (snd (cbc_dec iv a)) b),
   snd (cbc_dec (snd (cbc_dec iv a)) b)).
Proof. exact (cbc_app dec_step iv a b Ha). Qed.

Lemma cbc_enc_nil (iv : bytes) : cbc_enc iv [] = ([], iv).
Proof. reflexivity. Qed.

Lemma cbc_dec_nil (iv : bytes) : cbc_dec iv [] = ([], iv).
Proof. reflexivity. Qed.

Lemma enc_step_len (iv blk : bytes) (Hiv : length iv = 16%nat) (Hb : length blk = 16%nat) :
  length (fst (enc_step iv blk)) = 16%nat /\ length (snd (enc_step iv blk)) = 16%nat.
Proof.
  unfold enc_step; simpl.
  assert (L : length (Eb (xor_bytes blk iv)) = 16%nat).
  { apply Eb_len. rewrite xor_bytes_length, Hiv, Hb. reflexivity. }
  auto.
Qed.

Lemma dec_step_len (iv blk : bytes) (Hiv : length iv = 16%nat) (Hb : length blk = 16%nat) :
  length (fst (dec_step iv blk)) = 16%nat /\ length (snd (dec_step iv blk)) = 16%nat.
Proof.
  unfold dec_step; simpl. split; [|exact Hb].
  rewrite xor_bytes_length, Hiv, (Db_len blk Hb). reflexivity.
Qed.

(* output length = the whole blocks of the input; chaining value stays 16 bytes *)
Lemma cbc_enc_length (iv x : bytes) (Hiv : length iv = 16%nat) :
  blen (fst (cbc_enc iv x)) = 16 * (blen x / 16) /\ length (snd (cbc_enc iv x)) = 16%nat.
Proof. exact (cbc_length enc_step enc_step_len x iv Hiv). Qed.

Lemma cbc_dec_length (iv x : bytes) (Hiv : length iv = 16%nat) :
  blen (fst (cbc_dec iv x)) = 16 * (blen x / 16) /\ length (snd (cbc_dec iv x)) = 16%nat.
Proof. exact (cbc_length dec_step dec_step_len x iv Hiv). Qed.

(* CBC decryption inverts CBC encryption on whole blocks *)
Lemma cbc_dec_enc_n : forall (n : nat) (x iv : bytes)
  (Hx : length x = (16 * n)%nat) (Hiv : length iv = 16%nat),
  fst (cbc_dec iv (fst (cbc_enc iv x))) = x.
Proof.
  induction n as [|n IH]; intros x iv Hx Hiv.
  - destruct x as [|? x]; [reflexivity | simpl in Hx; lia].
  - destruct (split_block x) as (blk & rest & -> & Hb); [lia|].
    rewrite app_length in Hx.
    destruct (enc_step_len iv blk Hiv Hb) as [Hc _].
    unfold cbc_enc, cbc_dec in *.
    rewrite (cbc_cons enc_step iv blk rest Hb). cbn [fst snd].
    set (c := Eb (xor_bytes blk iv)) in *.
    change (fst (enc_step iv blk)) with c in *. change (snd (enc_step iv blk)) with c.
    rewrite (cbc_cons dec_step iv c _ Hc). cbn [fst snd].
    change (fst (dec_step iv c)) with (xor_bytes (Db c) iv).
    change (snd (dec_step iv c)) with c.
    rewrite (IH rest c) by (try exact Hc; lia).
    subst c. rewrite Db_Eb by (rewrite xor_bytes_length, Hiv, Hb; reflexivity).
    rewrite xor_bytes_cancel by lia. reflexivity.
Qed.

Theorem cbc_dec_enc (iv x : bytes) (Hiv : length iv = 16%nat) (Hx : blen x mod 16 = 0) :
  fst (cbc_dec iv (fst (cbc_enc iv x))) = x.
Proof. destruct (aligned_blocks x Hx) as [n Hn]. exact (cbc_dec_enc_n n x iv Hn Hiv). Qed.

(* ---------------------------------------------------------------------- *)
(* 2.8 One call of compress(): it encrypts the longest block-aligned       *)
(*     prefix A of buf ++ data and keeps the rest (Theorem 2: the residue  *)
(*     invariant is  len(buf) < 16).                                       *)
(* ---------------------------------------------------------------------- *)

Lemma aes_compress_step (st : cstate) (d : bytes) (Hb : blen (cbuf st) < 16) :
  exists A : bytes,
    cbuf st ++ d = A ++ cbuf (fst (aes_compress st d)) /\
    blen A mod 16 = 0 /\
    blen (cbuf (fst (aes_compress st d))) < 16 /\
    snd (aes_compress st d) = fst (cbc_enc (ccst st) A) /\
    ccst (fst (aes_compress st d)) = snd (cbc_enc (ccst st) A).
Proof.
  destruct st as [buf c]; cbn [cbuf ccst] in *.
  unfold aes_compress, buf_len, buf_add, buf_view, buf_reset, buf_set, cipher_encrypt.
  cbn [cbuf ccst].
  rewrite land15, land_not15.
  pose proof (blen_nonneg buf) as Hbn. pose proof (blen_nonneg d) as Hdn.
  set (cur := blen buf + blen d).
  destruct (Z.leb_spec 16 cur) as [H16|H16];
    destruct (Z.eqb_spec (cur mod 16) 0) as [Hal|Hal]; cbn [andb].
  - (* aligned *)
    exists (buf ++ d).
    destruct (cbc_enc c (buf ++ d)) as [out c1]. cbn [fst snd cbuf ccst].
    rewrite app_nil_r, blen_app. change (blen []) with 0. repeat split; auto; lia.
  - (* not aligned, more than one block *)
    destruct (Z.ltb_spec 16 cur) as [H17|H17].
    2:{ exfalso. assert (cur = 16) by lia. apply Hal. replace cur with 16 by lia. reflexivity. }
    set (k := 16 * (cur / 16) - blen buf).
    assert (Hk : 0 <= k <= blen d) by (subst k cur; Z.div_mod_to_equations; lia).
    exists (buf ++ py_slice_to d k).
    destruct (cbc_enc c (buf ++ py_slice_to d k)) as [out c1]. cbn [fst snd cbuf ccst].
    rewrite <- app_assoc, py_slice_cat, blen_app.
    rewrite (py_slice_to_len d k Hk), (py_slice_from_len d k Hk).
    repeat split; auto; subst k cur; Z.div_mod_to_equations; lia.
  - (* cur < 16, aligned: cur = 0 *)
    destruct (Z.ltb_spec 16 cur) as [H17|H17]; [lia|].
    exists []. rewrite cbc_enc_nil. cbn [fst snd cbuf ccst]. rewrite blen_app.
    repeat split; auto; lia.
  - destruct (Z.ltb_spec 16 cur) as [H17|H17]; [lia|].
    exists []. rewrite cbc_enc_nil. cbn [fst snd cbuf ccst]. rewrite blen_app.
    repeat split; auto; lia.
Qed.

(* Theorem 2, residue invariant *)
Theorem aes_compress_residue (st : cstate) (d : bytes) (Hb : blen (cbuf st) < 16) :
  blen (cbuf (fst (aes_compress st d))) < 16 /\
  blen (cbuf (fst (aes_compress st d))) = (blen (cbuf st) + blen d) mod 16.
Proof.
  destruct (aes_compress_step st d Hb) as (A & Hcat & HA & Hlt & _).
  split; [exact Hlt|].
  apply (f_equal blen) in Hcat. rewrite !blen_app in Hcat.
  pose proof (blen_nonneg (cbuf (fst (aes_compress st d)))).
  Z.div_mod_to_equations. lia.
Qed.

Theorem compress_all_residue : forall (chunks : list bytes) (st : cstate)
  (Hb : blen (cbuf st) < 16),
  blen (cbuf (fst (compress_all st chunks))) < 16.
Proof.
  induction chunks as [|d rest IH]; intros st Hb; simpl; [exact Hb|].
  destruct (aes_compress st d) as [st1 o1] eqn:E1.
  pose proof (aes_compress_residue st d Hb) as [H1 _]. rewrite E1 in H1. cbn [fst] in H1.
  specialize (IH st1 H1).
  destruct (compress_all st1 rest) as [st2 o2]. exact IH.
Qed.

(* flush() encrypts pad16 of the residue *)
Lemma aes_flush_spec (st : cstate) :
  snd (aes_flush st) = fst (cbc_enc (ccst st) (pad16 (cbuf st))) /\
  cbuf (fst (aes_flush st)) = [].
Proof.
  destruct st as [buf c].
  unfold aes_flush, buf_len, buf_add, buf_view, buf_reset, cipher_encrypt. cbn [cbuf ccst].
  rewrite land15.
  destruct (Z.ltb_spec 0 (blen buf)) as [H|H].
  - fold (pad16 buf). destruct (cbc_enc c (pad16 buf)) as [out c1]. auto.
  - pose proof (blen_nonneg buf). rewrite (blen_zero_nil buf) by lia.
    rewrite pad16_nil, cbc_enc_nil. auto.
Qed.

(* ---------------------------------------------------------------------- *)
(* 2.9 Theorem 3: compress chunking                                        *)
(* ---------------------------------------------------------------------- *)

Lemma compress_run_gen : forall (chunks : list bytes) (st : cstate)
  (Hb : blen (cbuf st) < 16),
  snd (compress_all st chunks) ++ snd (aes_flush (fst (compress_all st chunks))) =
  fst (cbc_enc (ccst st) (pad16 (cbuf st ++ concat chunks))).
Proof.
  induction chunks as [|d rest IH]; intros st Hb.
  - simpl. rewrite app_nil_r. apply aes_flush_spec.
  - cbn [compress_all concat].
    destruct (aes_compress_step st d Hb) as (A & Hcat & HA & Hlt & Hout & Hcst).
    destruct (aes_compress st d) as [st1 o1]. cbn [fst snd] in *.
    specialize (IH st1 Hlt).
    destruct (compress_all st1 rest) as [st2 o2]. cbn [fst snd] in *.
    rewrite <- app_assoc, IH.
    rewrite (app_assoc (cbuf st)), Hcat, <- app_assoc.
    rewrite (pad16_app A _ HA), (cbc_enc_app _ A _ HA). cbn [fst].
    rewrite Hout, Hcst. reflexivity.
Qed.

Theorem aes_compress_chunking : forall (iv : bytes) (chunks : list bytes),
  let '(st, out) := compress_all (cinit iv) chunks in
  let '(_, tail) := aes_flush st in
  out ++ tail = fst (cbc_enc iv (pad16 (concat chunks))).
Proof.
  intros iv chunks.
  pose proof (compress_run_gen chunks (cinit iv)) as H. cbn [cinit cbuf ccst] in H.
  destruct (compress_all (cinit iv) chunks) as [st out]. cbn [fst snd] in H.
  destruct (aes_flush st) as [st' tail]. cbn [snd] in H.
  apply H. reflexivity.
Qed.

Corollary compress_stream_spec (iv : bytes) (chunks : list bytes) :
  compress_stream iv chunks = fst (cbc_enc iv (pad16 (concat chunks))).
Proof.
  unfold compress_stream. pose proof (aes_compress_chunking iv chunks) as H.
  destruct (compress_all (cinit iv) chunks) as [st out].
  destruct (aes_flush st) as [st' tail]. exact H.
Qed.
End AES.
