(* Aes.v -- the 16-byte residue buffering that py7zr puts in front of AES-CBC.

   Python sources mirrored here (py7zr, read-only):
     py7zr/compressor.py  AESCompressor.compress / AESCompressor.flush   (l.140-180)
                          AESDecompressor.decompress                      (l.212-240)
     py7zr/io.py          Buffer.add / set / reset / view / __len__       (l.265-296)

   The AES block function is NOT modelled: it is an abstract pair
   [Eb Db : bytes -> bytes] (Section variables) with [Db (Eb x) = x] and
   length preservation on 16-byte blocks.  CBC chaining on top of it IS
   modelled ([cbc_enc], [cbc_dec]); a pycryptodome cipher object is identified
   with its chaining value.

   File layout:  Part 1 "Model" (definitions only, all computable; the
                 cipher is a Section variable, so after the section every
                 function takes Eb or Db as its first argument),
                 Part 2 proofs (sections Enc / Dec / RoundTrip, each with
                 exactly the hypotheses on Eb / Db it needs),
                 Part 3 toy instantiation, examples, refutations,
                 Print Assumptions.

   Hypotheses on the abstract cipher used anywhere in this file:
     Eb_len : forall x, length x = 16 -> length (Eb x) = 16   (length facts, round trip)
     Db_len : forall x, length x = 16 -> length (Db x) = 16   (aes_decompress_out_len only)
     Db_Eb  : forall x, length x = 16 -> Db (Eb x) = x        (round trip only)
   Theorems 1-5 (cbc_*_app, residue invariant, both chunking theorems, the
   refutation) need NO hypothesis on the cipher at all.

   State of the code modelled: AESDecompressor.decompress WITH the repair of its
   unaligned branch (a non-empty chunk that does not complete a block together
   with the residue is buffered; before, data[nextpos - buflen :] was a negative
   slice there and cipher.decrypt raised ValueError).  The condition of the
   decompress theorems, [dec_chunks_ok], has shrunk accordingly: it now only
   excludes an EMPTY chunk on a non-empty residue (which is the end-of-stream
   call and pads; aes_decompress_empty_chunk_refuted); every chunking into
   non-empty chunks is correct (aes_decompress_chunking_nonempty,
   aes_decompress_short_buffered, aes_decompress_short_chunks_ok).           *)

From P7 Require Import Prelude.

(* ====================================================================== *)
(* Part 1.  MODEL                                                         *)
(* ====================================================================== *)

(* len(x) as a Python int *)
Definition blen (l : bytes) : Z := Z.of_nat (length l).

(* ---------------------------------------------------------------------- *)
(* 1.1 Python slice semantics (step 1) for every integer index.           *)
(*     CPython PySlice_AdjustIndices: a negative index gets len added and *)
(*     is then clamped to 0; a non-negative one is clamped to len.        *)
(* ---------------------------------------------------------------------- *)

Definition py_index (n k : Z) : Z :=
  if k <? 0 then Z.max (k + n) 0 else Z.min k n.

(* l[:k] *)
Definition py_slice_to (l : bytes) (k : Z) : bytes :=
  firstn (Z.to_nat (py_index (blen l) k)) l.

(* l[k:] *)
Definition py_slice_from (l : bytes) (k : Z) : bytes :=
  skipn (Z.to_nat (py_index (blen l) k)) l.

(* ---------------------------------------------------------------------- *)
(* 1.2 py7zr.io.Buffer, concretely: a bytearray [_buf] that is resized by *)
(*     slice assignment, and a logical length [_buflen].  [view] is       *)
(*     re-computed by every method as _buf[0:_buflen] (a copy), so it is a *)
(*     function of the two fields.                                        *)
(* ---------------------------------------------------------------------- *)

Record rawbuf := { rb_buf : bytes; rb_len : Z }.

(* Buffer(size): self._buf = bytearray(size); self._buflen = 0 *)
Definition rb_init (size : Z) : rawbuf :=
  {| rb_buf := repeatZ 0 (Z.to_nat size); rb_len := 0 |}.

(* self.view == memoryview(self._buf[0:self._buflen]) after every method *)
Definition rb_view (b : rawbuf) : bytes := py_slice_to (rb_buf b) (rb_len b).

(* __len__ *)
Definition rb_length (b : rawbuf) : Z := rb_len b.

(* add:  self._buf[self._buflen:] = data   (replaces the tail, resizing)
         self._buflen += len(data)                                         *)
Definition rb_add (b : rawbuf) (data : bytes) : rawbuf :=
  {| rb_buf := py_slice_to (rb_buf b) (rb_len b) ++ data;
     rb_len := rb_len b + blen data |}.

(* reset: self._buflen = 0 *)
Definition rb_reset (b : rawbuf) : rawbuf :=
  {| rb_buf := rb_buf b; rb_len := 0 |}.

(* set:  self._buf[0:] = data ; self._buflen = len(data) *)
Definition rb_set (b : rawbuf) (data : bytes) : rawbuf :=
  {| rb_buf := py_slice_to (rb_buf b) 0 ++ data; rb_len := blen data |}.

(* representation invariant of Buffer *)
Definition rb_wf (b : rawbuf) : Prop := 0 <= rb_len b <= blen (rb_buf b).

(* The abstract Buffer used by the state machines below is just its view
   (a byte list).  Lemmas rb_*_view in Part 2 show that these five
   operations are exactly what the concrete Buffer does to its view.      *)
Definition buf_len (b : bytes) : Z := blen b.
Definition buf_view (b : bytes) : bytes := b.
Definition buf_add (b data : bytes) : bytes := b ++ data.
Definition buf_reset (b : bytes) : bytes := [].
Definition buf_set (b data : bytes) : bytes := data.

(* bytes(n): n zero bytes *)
Definition zeros (n : Z) : bytes := repeatZ 0 (Z.to_nat n).

(* d followed by (-len d mod 16) zero bytes *)
Definition pad16 (d : bytes) : bytes := d ++ zeros ((- blen d) mod 16).

(* ---------------------------------------------------------------------- *)
(* 1.3 CBC over an abstract block step.                                   *)
(* ---------------------------------------------------------------------- *)

Fixpoint xor_bytes (a b : bytes) : bytes :=
  match a, b with
  | x :: a', y :: b' => Z.lxor x y :: xor_bytes a' b'
  | _, _ => []
  end.

(* Split off one 16-byte block in constant time (no length computation). *)
Definition split16 (l : bytes) : option (bytes * bytes) :=
  match l with
  | a0 :: a1 :: a2 :: a3 :: a4 :: a5 :: a6 :: a7 :: a8 :: a9 :: a10 :: a11
       :: a12 :: a13 :: a14 :: a15 :: r =>
      Some ([a0; a1; a2; a3; a4; a5; a6; a7; a8; a9; a10; a11; a12; a13; a14; a15], r)
  | _ => None
  end.

(* [step iv blk] = (output block, next chaining value).
   Data is consumed 16 bytes at a time.  CHOICE for what pycryptodome cannot
   do: a trailing partial block (0 < n < 16 bytes left) is DROPPED: nothing
   is output for it and the chaining value is left unchanged.  pycryptodome
   raises ValueError("Data must be padded to 16 byte boundary in CBC mode")
   instead; the *_chk functions of 1.6 model that exception.               *)
Fixpoint cbc_aux (step : bytes -> bytes -> bytes * bytes)
         (fuel : nat) (iv data : bytes) : bytes * bytes :=
  match fuel with
  | O => ([], iv)
  | S f =>
      match split16 data with
      | None => ([], iv)
      | Some (blk, rest) =>
          let (o, iv1) := step iv blk in
          let (out, iv2) := cbc_aux step f iv1 rest in
          (o ++ out, iv2)
      end
  end.

Definition cbc (step : bytes -> bytes -> bytes * bytes) (iv data : bytes)
  : bytes * bytes := cbc_aux step (length data) iv data.

(* ValueError of pycryptodome's CBC encrypt()/decrypt() *)
Definition aligned16 (data : bytes) : bool := Z.land (blen data) 15 =? 0.

(* what the decompressor's hypothesis looks like (see aes_decompress_chunking):
   r = current residue length; a chunk may arrive on a non-empty residue only
   if it is not empty (decompress(b"") is the end-of-stream call).           *)
Fixpoint dec_chunks_ok (r : Z) (chunks : list bytes) : bool :=
  match chunks with
  | [] => true
  | d :: rest =>
      ((r =? 0) || (0 <? blen d))
      && dec_chunks_ok ((r + blen d) mod 16) rest
  end.

Section AES.

Variable Eb Db : bytes -> bytes.   (* AES block encryption / decryption *)

(* c_i = E(p_i xor c_{i-1}) ; next chaining value c_i *)
Definition enc_step (iv blk : bytes) : bytes * bytes :=
  let c := Eb (xor_bytes blk iv) in (c, c).

(* p_i = D(c_i) xor c_{i-1} ; next chaining value c_i *)
Definition dec_step (iv blk : bytes) : bytes * bytes :=
  (xor_bytes (Db blk) iv, blk).

(* (output, new chaining value) *)
Definition cbc_enc (iv data : bytes) : bytes * bytes := cbc enc_step iv data.
Definition cbc_dec (iv data : bytes) : bytes * bytes := cbc dec_step iv data.

(* A cipher object (AES.new(key, MODE_CBC, iv)) is its chaining value. *)
Definition cst := bytes.

(* cipher.encrypt(data) / cipher.decrypt(data): (new cipher state, result) *)
Definition cipher_encrypt (c : cst) (data : bytes) : cst * bytes :=
  let (out, c1) := cbc_enc c data in (c1, out).
Definition cipher_decrypt (c : cst) (data : bytes) : cst * bytes :=
  let (out, c1) := cbc_dec c data in (c1, out).

(* ---------------------------------------------------------------------- *)
(* 1.4 AESCompressor                                                      *)
(* ---------------------------------------------------------------------- *)

Record cstate := { cbuf : bytes; ccst : cst }.

Definition cinit (iv : bytes) : cstate := {| cbuf := []; ccst := iv |}.

Definition aes_compress (st : cstate) (data : bytes) : cstate * bytes :=
  (* currentlen = len(self.buf) + len(data) *)
  let currentlen := buf_len (cbuf st) + blen data in
  (* if currentlen >= 16 and (currentlen & 0x0F) == 0: *)
  if (16 <=? currentlen) && (Z.land currentlen 15 =? 0) then
    (* self.buf.add(data) *)
    let b1 := buf_add (cbuf st) data in
    (* res = self.cipher.encrypt(self.buf.view) *)
    let (c1, res) := cipher_encrypt (ccst st) (buf_view b1) in
    (* self.buf.reset() *)
    ({| cbuf := buf_reset b1; ccst := c1 |}, res)
  (* elif currentlen > 16: *)
  else if 16 <? currentlen then
    (* nextpos = currentlen & ~0x0F *)
    let nextpos := Z.land currentlen (Z.lnot 15) in
    (* buflen = len(self.buf) *)
    let buflen := buf_len (cbuf st) in
    (* self.buf.add(data[: nextpos - buflen]) *)
    let b1 := buf_add (cbuf st) (py_slice_to data (nextpos - buflen)) in
    (* res = self.cipher.encrypt(self.buf.view) *)
    let (c1, res) := cipher_encrypt (ccst st) (buf_view b1) in
    (* self.buf.set(data[nextpos - buflen :]) *)
    ({| cbuf := buf_set b1 (py_slice_from data (nextpos - buflen)); ccst := c1 |}, res)
  else
    (* self.buf.add(data); res = b"" *)
    ({| cbuf := buf_add (cbuf st) data; ccst := ccst st |}, []).

Definition aes_flush (st : cstate) : cstate * bytes :=
  (* if len(self.buf) > 0: *)
  if 0 <? buf_len (cbuf st) then
    (* padlen = -len(self.buf) & 15 *)
    let padlen := Z.land (- buf_len (cbuf st)) 15 in
    (* self.buf.add(bytes(padlen)) *)
    let b1 := buf_add (cbuf st) (zeros padlen) in
    (* res = self.cipher.encrypt(self.buf.view) *)
    let (c1, res) := cipher_encrypt (ccst st) (buf_view b1) in
    (* self.buf.reset() *)
    ({| cbuf := buf_reset b1; ccst := c1 |}, res)
  else
    (st, []).

(* ---------------------------------------------------------------------- *)
(* 1.5 AESDecompressor                                                    *)
(* ---------------------------------------------------------------------- *)

Record dstate := { dbuf : bytes; dcst : cst }.

Definition dinit (iv : bytes) : dstate := {| dbuf := []; dcst := iv |}.

Definition aes_decompress (st : dstate) (data : bytes) : dstate * bytes :=
  (* currentlen = len(self.buf) + len(data) *)
  let currentlen := buf_len (dbuf st) + blen data in
  (* if len(data) > 0 and (currentlen & 0x0F) == 0: *)
  if (0 <? blen data) && (Z.land currentlen 15 =? 0) then
    (* self.buf.add(data) *)
    let b1 := buf_add (dbuf st) data in
    (* temp = self.cipher.decrypt(self.buf.view) *)
    let (c1, temp) := cipher_decrypt (dcst st) (buf_view b1) in
    (* self.buf.reset() *)
    ({| dbuf := buf_reset b1; dcst := c1 |}, temp)
  (* elif len(data) > 0 and currentlen < 16:  self.buf.add(data); return b"" *)
  else if (0 <? blen data) && (currentlen <? 16) then
    ({| dbuf := buf_add (dbuf st) data; dcst := dcst st |}, [])
  (* elif len(data) > 0: *)
  else if 0 <? blen data then
    (* nextpos = currentlen & ~0x0F *)
    let nextpos := Z.land currentlen (Z.lnot 15) in
    (* buflen = len(self.buf) *)
    let buflen := buf_len (dbuf st) in
    (* temp2 = data[nextpos - buflen :] *)
    let temp2 := py_slice_from data (nextpos - buflen) in
    (* self.buf.add(data[: nextpos - buflen]) *)
    let b1 := buf_add (dbuf st) (py_slice_to data (nextpos - buflen)) in
    (* temp = self.cipher.decrypt(self.buf.view) *)
    let (c1, temp) := cipher_decrypt (dcst st) (buf_view b1) in
    (* self.buf.set(temp2) *)
    ({| dbuf := buf_set b1 temp2; dcst := c1 |}, temp)
  (* elif len(self.buf) == 0:  return b"" *)
  else if buf_len (dbuf st) =? 0 then
    (st, [])
  else
    (* padlen = -len(self.buf) & 15 *)
    let padlen := Z.land (- buf_len (dbuf st)) 15 in
    (* self.buf.add(bytes(padlen)) *)
    let b1 := buf_add (dbuf st) (zeros padlen) in
    (* temp3 = self.cipher.decrypt(self.buf.view) *)
    let (c1, temp3) := cipher_decrypt (dcst st) (buf_view b1) in
    (* self.buf.reset() *)
    ({| dbuf := buf_reset b1; dcst := c1 |}, temp3).

(* Specification vocabulary for the decompressor: a call decompress(d) is
   "good" when the residue is empty or d is not empty.
   [dec_chunks_ok] (above) is the same condition along a whole schedule.   *)
Definition dec_call_ok (st : dstate) (d : bytes) : Prop :=
  blen (dbuf st) = 0 \/ 0 < blen d.

(* ---------------------------------------------------------------------- *)
(* 1.6 The same three methods with pycryptodome's ValueError made explicit *)
(*     (Err EOther  <->  the cipher is handed a length that is not a      *)
(*     multiple of 16).  Part 2 proves they agree with 1.4/1.5 whenever   *)
(*     they return Ok, and says exactly when they return Err.             *)
(* ---------------------------------------------------------------------- *)

Definition cipher_encrypt_chk (c : cst) (data : bytes) : res (cst * bytes) :=
  if aligned16 data then Ok (cipher_encrypt c data) else Err EOther.
Definition cipher_decrypt_chk (c : cst) (data : bytes) : res (cst * bytes) :=
  if aligned16 data then Ok (cipher_decrypt c data) else Err EOther.

Definition aes_compress_chk (st : cstate) (data : bytes) : res (cstate * bytes) :=
  let currentlen := buf_len (cbuf st) + blen data in
  if (16 <=? currentlen) && (Z.land currentlen 15 =? 0) then
    let b1 := buf_add (cbuf st) data in
    do (c1, res) <- cipher_encrypt_chk (ccst st) (buf_view b1);
    Ok ({| cbuf := buf_reset b1; ccst := c1 |}, res)
  else if 16 <? currentlen then
    let nextpos := Z.land currentlen (Z.lnot 15) in
    let buflen := buf_len (cbuf st) in
    let b1 := buf_add (cbuf st) (py_slice_to data (nextpos - buflen)) in
    do (c1, res) <- cipher_encrypt_chk (ccst st) (buf_view b1);
    Ok ({| cbuf := buf_set b1 (py_slice_from data (nextpos - buflen)); ccst := c1 |}, res)
  else
    Ok ({| cbuf := buf_add (cbuf st) data; ccst := ccst st |}, []).

Definition aes_flush_chk (st : cstate) : res (cstate * bytes) :=
  if 0 <? buf_len (cbuf st) then
    let padlen := Z.land (- buf_len (cbuf st)) 15 in
    let b1 := buf_add (cbuf st) (zeros padlen) in
    do (c1, res) <- cipher_encrypt_chk (ccst st) (buf_view b1);
    Ok ({| cbuf := buf_reset b1; ccst := c1 |}, res)
  else
    Ok (st, []).

Definition aes_decompress_chk (st : dstate) (data : bytes) : res (dstate * bytes) :=
  let currentlen := buf_len (dbuf st) + blen data in
  if (0 <? blen data) && (Z.land currentlen 15 =? 0) then
    let b1 := buf_add (dbuf st) data in
    do (c1, temp) <- cipher_decrypt_chk (dcst st) (buf_view b1);
    Ok ({| dbuf := buf_reset b1; dcst := c1 |}, temp)
  else if (0 <? blen data) && (currentlen <? 16) then
    Ok ({| dbuf := buf_add (dbuf st) data; dcst := dcst st |}, [])
  else if 0 <? blen data then
    let nextpos := Z.land currentlen (Z.lnot 15) in
    let buflen := buf_len (dbuf st) in
    let temp2 := py_slice_from data (nextpos - buflen) in
    let b1 := buf_add (dbuf st) (py_slice_to data (nextpos - buflen)) in
    do (c1, temp) <- cipher_decrypt_chk (dcst st) (buf_view b1);
    Ok ({| dbuf := buf_set b1 temp2; dcst := c1 |}, temp)
  else if buf_len (dbuf st) =? 0 then
    Ok (st, [])
  else
    let padlen := Z.land (- buf_len (dbuf st)) 15 in
    let b1 := buf_add (dbuf st) (zeros padlen) in
    do (c1, temp3) <- cipher_decrypt_chk (dcst st) (buf_view b1);
    Ok ({| dbuf := buf_reset b1; dcst := c1 |}, temp3).

(* ---------------------------------------------------------------------- *)
(* 1.7 Runs                                                               *)
(* ---------------------------------------------------------------------- *)

(* feed the chunks one after the other, concatenate what comes out *)
Fixpoint compress_all (st : cstate) (chunks : list bytes) : cstate * bytes :=
  match chunks with
  | [] => (st, [])
  | d :: rest =>
      let (st1, o1) := aes_compress st d in
      let (st2, o2) := compress_all st1 rest in
      (st2, o1 ++ o2)
  end.

Fixpoint decompress_all (st : dstate) (chunks : list bytes) : dstate * bytes :=
  match chunks with
  | [] => (st, [])
  | d :: rest =>
      let (st1, o1) := aes_decompress st d in
      let (st2, o2) := decompress_all st1 rest in
      (st2, o1 ++ o2)
  end.

(* whole streams: all compress() calls then flush();
   all decompress() calls then the final decompress(b"") ("padding" call) *)
Definition compress_stream (iv : bytes) (chunks : list bytes) : bytes :=
  let (st, out) := compress_all (cinit iv) chunks in
  let (_, tail) := aes_flush st in out ++ tail.

Definition decompress_stream (iv : bytes) (chunks : list bytes) : bytes :=
  let (st, out) := decompress_all (dinit iv) chunks in
  let (_, tail) := aes_decompress st [] in out ++ tail.

(* checked run of the decompressor: Err as soon as one call raises *)
Fixpoint decompress_all_chk (st : dstate) (chunks : list bytes) : res (dstate * bytes) :=
  match chunks with
  | [] => Ok (st, [])
  | d :: rest =>
      do (st1, o1) <- aes_decompress_chk st d;
      do (st2, o2) <- decompress_all_chk st1 rest;
      Ok (st2, o1 ++ o2)
  end.

End AES.

(* ====================================================================== *)
(* Part 2.  PROOFS                                                        *)
(* ====================================================================== *)

Arguments split16 : simpl never.


(* ---------------------------------------------------------------------- *)
(* 2.1 lengths, Python int bit tricks, slices                             *)
(* ---------------------------------------------------------------------- *)

Lemma blen_nonneg (l : bytes) : 0 <= blen l.
Proof. unfold blen; lia. Qed.

Lemma blen_app (a b : bytes) : blen (a ++ b) = blen a + blen b.
Proof. unfold blen; rewrite app_length; lia. Qed.

Lemma blen_nil : blen [] = 0.
Proof. reflexivity. Qed.

Lemma blen_zero_nil (l : bytes) (H : blen l = 0) : l = [].
Proof. destruct l as [|x l]; [reflexivity|]. unfold blen in H; simpl in H; lia. Qed.

Lemma length_repeatZ (x : Z) (n : nat) : length (repeatZ x n) = n.
Proof. induction n as [|n IH]; simpl; congruence. Qed.

Lemma blen_zeros (n : Z) (H : 0 <= n) : blen (zeros n) = n.
Proof. unfold blen, zeros; rewrite length_repeatZ; lia. Qed.

(* x & 0x0F *)
Lemma land15 (x : Z) : Z.land x 15 = x mod 16.
Proof. change 15 with (Z.ones 4). rewrite Z.land_ones by lia. reflexivity. Qed.

(* x & ~0x0F *)
Lemma land_not15 (x : Z) : Z.land x (Z.lnot 15) = 16 * (x / 16).
Proof.
  rewrite <- Z.ldiff_land. change 15 with (Z.ones 4).
  rewrite Z.ldiff_ones_r by lia.
  rewrite Z.shiftl_mul_pow2, Z.shiftr_div_pow2 by lia.
  change (2 ^ 4) with 16. lia.
Qed.

Lemma aligned16_iff (d : bytes) : aligned16 d = true <-> blen d mod 16 = 0.
Proof. unfold aligned16. rewrite land15. apply Z.eqb_eq. Qed.

Lemma py_slice_cat (l : bytes) (k : Z) : py_slice_to l k ++ py_slice_from l k = l.
Proof. unfold py_slice_to, py_slice_from. apply firstn_skipn. Qed.

Lemma py_slice_to_len (l : bytes) (k : Z) (H : 0 <= k <= blen l) :
  blen (py_slice_to l k) = k.
Proof.
  unfold py_slice_to, py_index, blen in *.
  destruct (Z.ltb_spec k 0) as [Hk|Hk]; [lia|].
  rewrite firstn_length. lia.
Qed.

Lemma py_slice_from_len (l : bytes) (k : Z) (H : 0 <= k <= blen l) :
  blen (py_slice_from l k) = blen l - k.
Proof.
  unfold py_slice_from, py_index, blen in *.
  destruct (Z.ltb_spec k 0) as [Hk|Hk]; [lia|].
  rewrite skipn_length. lia.
Qed.

Lemma py_slice_from_le (l : bytes) (k : Z) : blen (py_slice_from l k) <= blen l.
Proof. unfold py_slice_from, blen. rewrite skipn_length. lia. Qed.

(* negative index: counts from the end *)
Lemma py_slice_from_neg (l : bytes) (k : Z) (H : - blen l <= k < 0) :
  py_slice_from l k = skipn (Z.to_nat (blen l + k)) l.
Proof.
  unfold py_slice_from, py_index.
  destruct (Z.ltb_spec k 0) as [Hk|Hk]; [|lia].
  f_equal. lia.
Qed.

(* negative index beyond the start: clamped to the whole list *)
Lemma py_slice_from_neg_clamp (l : bytes) (k : Z) (H : k <= - blen l) (Hk : k < 0) :
  py_slice_from l k = l.
Proof.
  unfold py_slice_from, py_index.
  destruct (Z.ltb_spec k 0) as [Hk'|Hk']; [|lia].
  replace (Z.to_nat (Z.max (k + blen l) 0)) with 0%nat by lia. reflexivity.
Qed.

(* ---------------------------------------------------------------------- *)
(* 2.2 The concrete Buffer refines the list operations                    *)
(* ---------------------------------------------------------------------- *)

Lemma rb_init_wf (size : Z) : rb_wf (rb_init size).
Proof. unfold rb_wf, rb_init; simpl. pose proof (blen_nonneg (repeatZ 0 (Z.to_nat size))). lia. Qed.

Lemma rb_init_view (size : Z) : rb_view (rb_init size) = [].
Proof. unfold rb_view, rb_init, py_slice_to, py_index; simpl.
  replace (Z.to_nat (Z.min 0 _)) with 0%nat by (pose proof (blen_nonneg (repeatZ 0 (Z.to_nat size))); lia).
  reflexivity.
Qed.

Lemma rb_length_view (b : rawbuf) (H : rb_wf b) : rb_length b = buf_len (rb_view b).
Proof.
  unfold rb_length, buf_len, rb_view. unfold rb_wf in H.
  rewrite py_slice_to_len by lia. reflexivity.
Qed.

Lemma py_slice_to_app_exact (a d : bytes) : py_slice_to (a ++ d) (blen a) = a.
Proof.
  unfold py_slice_to, py_index.
  pose proof (blen_nonneg a) as Ha. pose proof (blen_nonneg d) as Hd.
  destruct (Z.ltb_spec (blen a) 0) as [Hk|Hk]; [lia|].
  rewrite blen_app.
  replace (Z.to_nat (Z.min (blen a) (blen a + blen d))) with (length a + 0)%nat
    by (unfold blen in *; lia).
  rewrite firstn_app_2. simpl. apply app_nil_r.
Qed.

Lemma rb_add_view (b : rawbuf) (d : bytes) (H : rb_wf b) :
  rb_view (rb_add b d) = buf_add (rb_view b) d /\ rb_wf (rb_add b d).
Proof.
  unfold rb_wf in *. unfold rb_view, rb_add, buf_add, rb_wf; simpl.
  set (v := py_slice_to (rb_buf b) (rb_len b)).
  assert (Hv : blen v = rb_len b) by (apply py_slice_to_len; lia).
  pose proof (blen_nonneg d) as Hd.
  split.
  - unfold py_slice_to, py_index.
    destruct (Z.ltb_spec (rb_len b + blen d) 0) as [Hk|Hk]; [lia|].
    rewrite blen_app, Hv.
    replace (Z.to_nat (Z.min (rb_len b + blen d) (rb_len b + blen d)))
      with (length v + length d)%nat by (unfold blen in *; lia).
    rewrite firstn_app_2. rewrite firstn_all. reflexivity.
  - rewrite blen_app, Hv. lia.
Qed.

Lemma rb_reset_view (b : rawbuf) (H : rb_wf b) :
  rb_view (rb_reset b) = buf_reset (rb_view b) /\ rb_wf (rb_reset b).
Proof.
  unfold rb_wf in *. unfold rb_view, rb_reset, buf_reset, rb_wf; simpl. split; [|lia].
  unfold py_slice_to, py_index; simpl.
  replace (Z.to_nat (Z.min 0 (blen (rb_buf b)))) with 0%nat by lia. reflexivity.
Qed.

Lemma rb_set_view (b : rawbuf) (d : bytes) :
  rb_view (rb_set b d) = buf_set (rb_view b) d /\ rb_wf (rb_set b d).
Proof.
  unfold rb_view, rb_set, buf_set, rb_wf; simpl.
  assert (E : py_slice_to (rb_buf b) 0 = []).
  { unfold py_slice_to, py_index; simpl.
    pose proof (blen_nonneg (rb_buf b)).
    replace (Z.to_nat (Z.min 0 (blen (rb_buf b)))) with 0%nat by lia. reflexivity. }
  rewrite E; simpl. pose proof (blen_nonneg d). split; [|lia].
  unfold py_slice_to, py_index.
  destruct (Z.ltb_spec (blen d) 0) as [Hk|Hk]; [lia|].
  replace (Z.to_nat (Z.min (blen d) (blen d))) with (length d) by (unfold blen; lia).
  apply firstn_all.
Qed.

(* ---------------------------------------------------------------------- *)
(* 2.3 pad16                                                              *)
(* ---------------------------------------------------------------------- *)

Lemma pad16_nil : pad16 [] = [].
Proof. reflexivity. Qed.

Lemma blen_pad16 (d : bytes) : blen (pad16 d) = blen d + (- blen d) mod 16.
Proof.
  unfold pad16. rewrite blen_app, blen_zeros; [reflexivity|].
  apply Z.mod_pos_bound; lia.
Qed.

Lemma pad16_aligned (d : bytes) : blen (pad16 d) mod 16 = 0.
Proof. rewrite blen_pad16. Z.div_mod_to_equations. lia. Qed.

Lemma pad16_id (d : bytes) (H : blen d mod 16 = 0) : pad16 d = d.
Proof.
  unfold pad16. replace ((- blen d) mod 16) with 0 by (Z.div_mod_to_equations; lia).
  apply app_nil_r.
Qed.

Lemma pad16_app (a x : bytes) (H : blen a mod 16 = 0) : pad16 (a ++ x) = a ++ pad16 x.
Proof.
  unfold pad16. rewrite blen_app, <- app_assoc.
  replace ((- (blen a + blen x)) mod 16) with ((- blen x) mod 16)
    by (Z.div_mod_to_equations; lia).
  reflexivity.
Qed.

(* ---------------------------------------------------------------------- *)
(* 2.4 xor                                                                *)
(* ---------------------------------------------------------------------- *)

Lemma xor_bytes_length (a b : bytes) :
  length (xor_bytes a b) = Nat.min (length a) (length b).
Proof.
  revert b; induction a as [|x a IH]; intros [|y b]; simpl; try reflexivity.
  rewrite IH; reflexivity.
Qed.

Lemma xor_bytes_cancel (a b : bytes) (H : (length a <= length b)%nat) :
  xor_bytes (xor_bytes a b) b = a.
Proof.
  revert b H; induction a as [|x a IH]; intros [|y b] H; simpl in *; try reflexivity; try lia.
  rewrite IH by lia.
  rewrite Z.lxor_assoc, Z.lxor_nilpotent, Z.lxor_0_r. reflexivity.
Qed.

(* ---------------------------------------------------------------------- *)
(* 2.5 generic CBC                                                        *)
(* ---------------------------------------------------------------------- *)

Lemma split16_spec (l : bytes) :
  split16 l = if (16 <=? length l)%nat then Some (firstn 16 l, skipn 16 l) else None.
Proof. do 16 (destruct l as [|? l]; [reflexivity|]). reflexivity. Qed.

Lemma split16_none (l : bytes) (H : (length l < 16)%nat) : split16 l = None.
Proof.
  rewrite split16_spec. destruct (Nat.leb_spec 16 (length l)) as [H'|H']; [lia|reflexivity].
Qed.

Lemma split16_inv (l blk rest : bytes) (H : split16 l = Some (blk, rest)) :
  l = blk ++ rest /\ length blk = 16%nat.
Proof.
  rewrite split16_spec in H.
  destruct (Nat.leb_spec 16 (length l)) as [H'|H']; [|discriminate].
  assert (A : l = firstn 16 l ++ skipn 16 l /\ length (firstn 16 l) = 16%nat).
  { split; [symmetry; apply firstn_skipn|]. rewrite firstn_length. lia. }
  injection H as H1 H2. rewrite <- H1, <- H2. exact A.
Qed.

Lemma split16_some (blk rest : bytes) (H : length blk = 16%nat) :
  split16 (blk ++ rest) = Some (blk, rest).
Proof.
  rewrite split16_spec, app_length.
  destruct (Nat.leb_spec 16 (length blk + length rest)) as [H'|H']; [|lia].
  rewrite <- H. rewrite <- (Nat.add_0_r (length blk)) at 1.
  rewrite firstn_app_2, skipn_app, skipn_all, Nat.sub_diag. simpl.
  rewrite app_nil_r. reflexivity.
Qed.

Lemma split_block (a : bytes) (H : (16 <= length a)%nat) :
  exists blk rest, a = blk ++ rest /\ length blk = 16%nat.
Proof.
  exists (firstn 16 a), (skipn 16 a). split; [symmetry; apply firstn_skipn|].
  rewrite firstn_length. lia.
Qed.

Lemma aligned_blocks (a : bytes) (H : blen a mod 16 = 0) :
  exists n : nat, length a = (16 * n)%nat.
Proof.
  exists (Z.to_nat (blen a / 16)). unfold blen in *. Z.div_mod_to_equations. lia.
Qed.

Section CBC.
Variable step : bytes -> bytes -> bytes * bytes.

Lemma cbc_aux_fuel : forall (f1 f2 : nat) (iv data : bytes)
  (H1 : (length data <= f1)%nat) (H2 : (length data <= f2)%nat),
  cbc_aux step f1 iv data = cbc_aux step f2 iv data.
Proof.
  induction f1 as [|f1 IH]; intros [|f2] iv data H1 H2; simpl.
  - reflexivity.
  - destruct data as [|x data]; [reflexivity | simpl in H1; lia].
  - destruct data as [|x data]; [reflexivity | simpl in H2; lia].
  - destruct (split16 data) as [[blk rest]|] eqn:E; [|reflexivity].
    apply split16_inv in E as [-> Hl]. rewrite app_length in H1, H2.
    destruct (step iv blk) as [o iv1].
    rewrite (IH f2) by lia. reflexivity.
Qed.

Lemma cbc_aux_S (f : nat) (iv data : bytes) :
  cbc_aux step (S f) iv data =
  match split16 data with
  | None => ([], iv)
  | Some (blk, rest) =>
      let (o, iv1) := step iv blk in
      let (out, iv2) := cbc_aux step f iv1 rest in (o ++ out, iv2)
  end.
Proof. reflexivity. Qed.

Lemma cbc_nil (iv : bytes) : cbc step iv [] = ([], iv).
Proof. reflexivity. Qed.

Lemma cbc_short (iv d : bytes) (H : (length d < 16)%nat) : cbc step iv d = ([], iv).
Proof.
  unfold cbc. destruct (length d) eqn:E; [reflexivity|]. simpl.
  rewrite split16_none by lia. reflexivity.
Qed.

Lemma cbc_cons (iv blk rest : bytes) (H : length blk = 16%nat) :
  cbc step iv (blk ++ rest) =
  (fst (step iv blk) ++ fst (cbc step (snd (step iv blk)) rest),
   snd (cbc step (snd (step iv blk)) rest)).
Proof.
  unfold cbc. rewrite app_length, H.
  change (16 + length rest)%nat with (S (15 + length rest)).
  rewrite cbc_aux_S, split16_some by exact H.
  destruct (step iv blk) as [o iv1]; cbn [fst snd].
  rewrite (cbc_aux_fuel (15 + length rest) (length rest)) by lia.
  destruct (cbc_aux step (length rest) iv1 rest); reflexivity.
Qed.

Lemma cbc_app_n : forall (n : nat) (a iv b : bytes) (H : length a = (16 * n)%nat),
  cbc step iv (a ++ b) =
  (fst (cbc step iv a) ++ fst (cbc step (snd (cbc step iv a)) b),
   snd (cbc step (snd (cbc step iv a)) b)).
Proof.
  induction n as [|n IH]; intros a iv b H.
  - destruct a as [|x a]; [|simpl in H; lia]. simpl app. rewrite cbc_nil. simpl.
    destruct (cbc step iv b); reflexivity.
  - destruct (split_block a) as (blk & rest & -> & Hb); [lia|].
    rewrite app_length in H.
    rewrite <- app_assoc. rewrite (cbc_cons iv blk (rest ++ b) Hb), (cbc_cons iv blk rest Hb).
    rewrite (IH rest) by lia. simpl. rewrite app_assoc. reflexivity.
Qed.

Lemma cbc_app (iv a b : bytes) (H : blen a mod 16 = 0) :
  cbc step iv (a ++ b) =
  (fst (cbc step iv a) ++ fst (cbc step (snd (cbc step iv a)) b),
   snd (cbc step (snd (cbc step iv a)) b)).
Proof. destruct (aligned_blocks a H) as [n Hn]. exact (cbc_app_n n a iv b Hn). Qed.

(* lengths, for a step that maps 16-byte (iv, block) to 16-byte (out, iv) *)
Hypothesis step_len : forall iv blk : bytes,
  length iv = 16%nat -> length blk = 16%nat ->
  length (fst (step iv blk)) = 16%nat /\ length (snd (step iv blk)) = 16%nat.

Lemma cbc_length_n : forall (n : nat) (x iv : bytes)
  (Hn : (length x <= n)%nat) (Hiv : length iv = 16%nat),
  blen (fst (cbc step iv x)) = 16 * (blen x / 16) /\
  length (snd (cbc step iv x)) = 16%nat.
Proof.
  induction n as [|n IH]; intros x iv Hn Hiv.
  - destruct x as [|? x]; [|simpl in Hn; lia]. rewrite cbc_nil. simpl. auto.
  - destruct (Nat.ltb_spec (length x) 16) as [Hs|Hs].
    + rewrite cbc_short by exact Hs. cbn [fst snd]. split; [|exact Hiv].
      change (blen []) with 0. unfold blen. Z.div_mod_to_equations. lia.
    + destruct (split_block x Hs) as (blk & rest & -> & Hb).
      rewrite app_length in Hn.
      rewrite cbc_cons by exact Hb. cbn [fst snd].
      destruct (step_len iv blk Hiv Hb) as [Ho Hi].
      destruct (IH rest (snd (step iv blk))) as [IH1 IH2]; [lia|exact Hi|].
      split; [|exact IH2].
      rewrite !blen_app, IH1. unfold blen. rewrite Ho, Hb.
      Z.div_mod_to_equations. lia.
Qed.

Lemma cbc_length (x iv : bytes) (Hiv : length iv = 16%nat) :
  blen (fst (cbc step iv x)) = 16 * (blen x / 16) /\
  length (snd (cbc step iv x)) = 16%nat.
Proof. exact (cbc_length_n (length x) x iv (le_n _) Hiv). Qed.

End CBC.

Lemma mult16_mod (q : Z) : (16 * q) mod 16 = 0.
Proof. rewrite Z.mul_comm. apply Z_mod_mult. Qed.



(* ---------------------------------------------------------------------- *)
(* 2.6 ENCRYPTION SIDE.  Theorem 1 (cbc_enc_app).  No hypothesis on the   *)
(*     block cipher is needed for Theorems 1-3; the length facts need     *)
(*     Eb_len, declared further down (2.10).                              *)
(* ---------------------------------------------------------------------- *)

Section Enc.
Variable Eb : bytes -> bytes.

Theorem cbc_enc_app (iv a b : bytes) (Ha : blen a mod 16 = 0) :
  cbc_enc Eb iv (a ++ b) =
  (fst (cbc_enc Eb iv a) ++ fst (cbc_enc Eb (snd (cbc_enc Eb iv a)) b),
   snd (cbc_enc Eb (snd (cbc_enc Eb iv a)) b)).
Proof. exact (cbc_app (enc_step Eb) iv a b Ha). Qed.

Lemma cbc_enc_nil (iv : bytes) : cbc_enc Eb iv [] = ([], iv).
Proof. reflexivity. Qed.

(* ---------------------------------------------------------------------- *)
(* 2.7 One call of compress(): it encrypts the longest block-aligned      *)
(*     prefix A of buf ++ data and keeps the rest (Theorem 2: the residue *)
(*     invariant is  len(buf) < 16).                                      *)
(* ---------------------------------------------------------------------- *)

Lemma aes_compress_step (st : cstate) (d : bytes) (Hb : blen (cbuf st) < 16) :
  exists A : bytes,
    cbuf st ++ d = A ++ cbuf (fst (aes_compress Eb st d)) /\
    blen A mod 16 = 0 /\
    blen (cbuf (fst (aes_compress Eb st d))) < 16 /\
    snd (aes_compress Eb st d) = fst (cbc_enc Eb (ccst st) A) /\
    ccst (fst (aes_compress Eb st d)) = snd (cbc_enc Eb (ccst st) A).
Proof.
  destruct st as [buf c]; cbn [cbuf ccst] in *.
  unfold aes_compress, buf_len, buf_add, buf_view, buf_reset, buf_set, cipher_encrypt.
  cbn [cbuf ccst].
  rewrite land15, land_not15.
  pose proof (blen_nonneg buf) as Hbn. pose proof (blen_nonneg d) as Hdn.
  set (cur := blen buf + blen d).
  destruct (Z.leb_spec 16 cur) as [H16|H16];
    destruct (Z.eqb_spec (cur mod 16) 0) as [Hal|Hal]; cbn [andb].
  - (* aligned *)
    exists (buf ++ d).
    destruct (cbc_enc Eb c (buf ++ d)) as [out c1]. cbn [fst snd cbuf ccst].
    rewrite app_nil_r, blen_app. change (blen []) with 0. repeat split; auto; lia.
  - (* not aligned, more than one block *)
    destruct (Z.ltb_spec 16 cur) as [H17|H17].
    2:{ exfalso. assert (cur = 16) by lia. apply Hal. replace cur with 16 by lia. reflexivity. }
    set (k := 16 * (cur / 16) - blen buf).
    assert (Hk : 0 <= k <= blen d) by (subst k cur; Z.div_mod_to_equations; lia).
    exists (buf ++ py_slice_to d k).
    destruct (cbc_enc Eb c (buf ++ py_slice_to d k)) as [out c1]. cbn [fst snd cbuf ccst].
    rewrite <- app_assoc, py_slice_cat, blen_app.
    rewrite (py_slice_to_len d k Hk), (py_slice_from_len d k Hk).
    repeat split; auto; subst k cur; Z.div_mod_to_equations; lia.
  - (* cur < 16, aligned: cur = 0 *)
    destruct (Z.ltb_spec 16 cur) as [H17|H17]; [lia|].
    exists []. rewrite cbc_enc_nil. cbn [fst snd cbuf ccst]. rewrite blen_app.
    repeat split; auto; lia.
  - destruct (Z.ltb_spec 16 cur) as [H17|H17]; [lia|].
    exists []. rewrite cbc_enc_nil. cbn [fst snd cbuf ccst]. rewrite blen_app.
    repeat split; auto; lia.
Qed.

(* Theorem 2, residue invariant *)
Theorem aes_compress_residue (st : cstate) (d : bytes) (Hb : blen (cbuf st) < 16) :
  blen (cbuf (fst (aes_compress Eb st d))) < 16 /\
  blen (cbuf (fst (aes_compress Eb st d))) = (blen (cbuf st) + blen d) mod 16.
Proof.
  destruct (aes_compress_step st d Hb) as (A & Hcat & HA & Hlt & _).
  split; [exact Hlt|].
  apply (f_equal blen) in Hcat. rewrite !blen_app in Hcat.
  pose proof (blen_nonneg (cbuf (fst (aes_compress Eb st d)))).
  Z.div_mod_to_equations. lia.
Qed.

Theorem compress_all_residue : forall (chunks : list bytes) (st : cstate)
  (Hb : blen (cbuf st) < 16),
  blen (cbuf (fst (compress_all Eb st chunks))) < 16.
Proof.
  induction chunks as [|d rest IH]; intros st Hb; simpl; [exact Hb|].
  destruct (aes_compress Eb st d) as [st1 o1] eqn:E1.
  pose proof (aes_compress_residue st d Hb) as [H1 _]. rewrite E1 in H1. cbn [fst] in H1.
  specialize (IH st1 H1).
  destruct (compress_all Eb st1 rest) as [st2 o2]. exact IH.
Qed.

Corollary compress_all_residue_init (iv : bytes) (chunks : list bytes) :
  blen (cbuf (fst (compress_all Eb (cinit iv) chunks))) < 16.
Proof. apply compress_all_residue. cbn [cinit cbuf]. reflexivity. Qed.

(* flush() encrypts pad16 of the residue *)
Lemma aes_flush_spec (st : cstate) :
  snd (aes_flush Eb st) = fst (cbc_enc Eb (ccst st) (pad16 (cbuf st))) /\
  cbuf (fst (aes_flush Eb st)) = [].
Proof.
  destruct st as [buf c].
  unfold aes_flush, buf_len, buf_add, buf_view, buf_reset, cipher_encrypt. cbn [cbuf ccst].
  rewrite land15.
  destruct (Z.ltb_spec 0 (blen buf)) as [H|H].
  - fold (pad16 buf). destruct (cbc_enc Eb c (pad16 buf)) as [out c1]. auto.
  - pose proof (blen_nonneg buf). rewrite (blen_zero_nil buf) by lia.
    rewrite pad16_nil, cbc_enc_nil. auto.
Qed.

(* ---------------------------------------------------------------------- *)
(* 2.8 Theorem 3: compress chunking                                       *)
(* ---------------------------------------------------------------------- *)

Lemma compress_run_gen : forall (chunks : list bytes) (st : cstate)
  (Hb : blen (cbuf st) < 16),
  snd (compress_all Eb st chunks) ++ snd (aes_flush Eb (fst (compress_all Eb st chunks))) =
  fst (cbc_enc Eb (ccst st) (pad16 (cbuf st ++ concat chunks))).
Proof.
  induction chunks as [|d rest IH]; intros st Hb.
  - simpl. rewrite app_nil_r. apply aes_flush_spec.
  - cbn [compress_all concat].
    destruct (aes_compress_step st d Hb) as (A & Hcat & HA & Hlt & Hout & Hcst).
    destruct (aes_compress Eb st d) as [st1 o1]. cbn [fst snd] in *.
    specialize (IH st1 Hlt).
    destruct (compress_all Eb st1 rest) as [st2 o2]. cbn [fst snd] in *.
    rewrite <- app_assoc, IH.
    rewrite (app_assoc (cbuf st)), Hcat, <- app_assoc.
    rewrite (pad16_app A _ HA), (cbc_enc_app _ A _ HA). cbn [fst].
    rewrite Hout, Hcst. reflexivity.
Qed.

Theorem aes_compress_chunking : forall (iv : bytes) (chunks : list bytes),
  let '(st, out) := compress_all Eb (cinit iv) chunks in
  let '(_, tail) := aes_flush Eb st in
  out ++ tail = fst (cbc_enc Eb iv (pad16 (concat chunks))).
Proof.
  intros iv chunks.
  pose proof (compress_run_gen chunks (cinit iv)) as H. cbn [cinit cbuf ccst] in H.
  destruct (compress_all Eb (cinit iv) chunks) as [st out]. cbn [fst snd] in H.
  destruct (aes_flush Eb st) as [st' tail]. cbn [snd] in H.
  apply H. reflexivity.
Qed.

Corollary compress_stream_spec (iv : bytes) (chunks : list bytes) :
  compress_stream Eb iv chunks = fst (cbc_enc Eb iv (pad16 (concat chunks))).
Proof.
  unfold compress_stream. pose proof (aes_compress_chunking iv chunks) as H.
  destruct (compress_all Eb (cinit iv) chunks) as [st out].
  destruct (aes_flush Eb st) as [st' tail]. exact H.
Qed.

(* ---------------------------------------------------------------------- *)
(* 2.9 Checked compressor: pycryptodome never raises ValueError here      *)
(* ---------------------------------------------------------------------- *)

Lemma cipher_encrypt_chk_ok (c x : bytes) (H : blen x mod 16 = 0) :
  cipher_encrypt_chk Eb c x = Ok (cipher_encrypt Eb c x).
Proof. unfold cipher_encrypt_chk. rewrite (proj2 (aligned16_iff x) H). reflexivity. Qed.

(* The compressor never hands unaligned data to the cipher. *)
Theorem aes_compress_chk_ok (st : cstate) (d : bytes) (Hb : blen (cbuf st) < 16) :
  aes_compress_chk Eb st d = Ok (aes_compress Eb st d).
Proof.
  destruct st as [buf c]; cbn [cbuf] in Hb.
  unfold aes_compress_chk, aes_compress, buf_len, buf_add, buf_view. cbn [cbuf ccst].
  rewrite land15, land_not15.
  pose proof (blen_nonneg buf) as Hbn. pose proof (blen_nonneg d) as Hdn.
  set (cur := blen buf + blen d).
  destruct (Z.leb_spec 16 cur) as [H16|H16];
    destruct (Z.eqb_spec (cur mod 16) 0) as [Hal|Hal]; cbn [andb].
  - rewrite cipher_encrypt_chk_ok by (rewrite blen_app; exact Hal).
    cbn [bind]. destruct (cipher_encrypt Eb c (buf ++ d)); reflexivity.
  - destruct (Z.ltb_spec 16 cur) as [H17|H17]; [|reflexivity].
    set (k := 16 * (cur / 16) - blen buf).
    assert (Hk : 0 <= k <= blen d) by (subst k cur; Z.div_mod_to_equations; lia).
    rewrite cipher_encrypt_chk_ok.
    + cbn [bind]. destruct (cipher_encrypt Eb c (buf ++ py_slice_to d k)); reflexivity.
    + rewrite blen_app, (py_slice_to_len d k Hk). subst k.
      replace (blen buf + (16 * (cur / 16) - blen buf)) with (16 * (cur / 16)) by lia.
      apply mult16_mod.
  - destruct (Z.ltb_spec 16 cur) as [H17|H17]; [lia|reflexivity].
  - destruct (Z.ltb_spec 16 cur) as [H17|H17]; [lia|reflexivity].
Qed.

Theorem aes_flush_chk_ok (st : cstate) : aes_flush_chk Eb st = Ok (aes_flush Eb st).
Proof.
  destruct st as [buf c].
  unfold aes_flush_chk, aes_flush, buf_len, buf_add, buf_view. cbn [cbuf ccst].
  rewrite land15. destruct (0 <? blen buf); [|reflexivity].
  fold (pad16 buf). rewrite cipher_encrypt_chk_ok by apply pad16_aligned.
  cbn [bind]. destruct (cipher_encrypt Eb c (pad16 buf)); reflexivity.
Qed.


(* ---------------------------------------------------------------------- *)
(* 2.10 Theorem 6 (encryption side): length facts                         *)
(* ---------------------------------------------------------------------- *)

Hypothesis Eb_len : forall x : bytes, length x = 16%nat -> length (Eb x) = 16%nat.

Lemma enc_step_len (iv blk : bytes) (Hiv : length iv = 16%nat) (Hb : length blk = 16%nat) :
  length (fst (enc_step Eb iv blk)) = 16%nat /\ length (snd (enc_step Eb iv blk)) = 16%nat.
Proof.
  unfold enc_step; simpl.
  assert (L : length (Eb (xor_bytes blk iv)) = 16%nat).
  { apply Eb_len. rewrite xor_bytes_length, Hiv, Hb. reflexivity. }
  auto.
Qed.

(* output length = the whole blocks of the input; chaining value stays 16 bytes *)
Lemma cbc_enc_length (iv x : bytes) (Hiv : length iv = 16%nat) :
  blen (fst (cbc_enc Eb iv x)) = 16 * (blen x / 16) /\ length (snd (cbc_enc Eb iv x)) = 16%nat.
Proof. exact (cbc_length (enc_step Eb) enc_step_len x iv Hiv). Qed.

Theorem aes_compress_out_len (st : cstate) (d : bytes) (Hc : length (ccst st) = 16%nat) :
  blen (snd (aes_compress Eb st d)) mod 16 = 0 /\
  length (ccst (fst (aes_compress Eb st d))) = 16%nat.
Proof.
  destruct st as [buf c]; cbn [ccst] in Hc.
  unfold aes_compress, cipher_encrypt. cbn [cbuf ccst].
  destruct ((16 <=? buf_len buf + blen d) && (Z.land (buf_len buf + blen d) 15 =? 0));
    [|destruct (16 <? buf_len buf + blen d)].
  - match goal with |- context [cbc_enc Eb c ?x] =>
      destruct (cbc_enc_length c x Hc) as [H1 H2]; destruct (cbc_enc Eb c x) end.
    cbn [fst snd ccst] in *. rewrite H1. split; [apply mult16_mod | exact H2].
  - match goal with |- context [cbc_enc Eb c ?x] =>
      destruct (cbc_enc_length c x Hc) as [H1 H2]; destruct (cbc_enc Eb c x) end.
    cbn [fst snd ccst] in *. rewrite H1. split; [apply mult16_mod | exact H2].
  - cbn [fst snd ccst]. split; [reflexivity | exact Hc].
Qed.

Theorem aes_flush_out_len (st : cstate) (Hc : length (ccst st) = 16%nat) :
  blen (snd (aes_flush Eb st)) mod 16 = 0.
Proof.
  destruct (aes_flush_spec st) as [H _]. rewrite H.
  destruct (cbc_enc_length (ccst st) (pad16 (cbuf st)) Hc) as [H1 _]. rewrite H1.
  apply mult16_mod.
Qed.

(* total output of compress()* + flush() = length of the padded input *)
Theorem compress_stream_length (iv : bytes) (chunks : list bytes)
  (Hiv : length iv = 16%nat) :
  blen (compress_stream Eb iv chunks) = blen (pad16 (concat chunks)).
Proof.
  rewrite compress_stream_spec.
  destruct (cbc_enc_length iv (pad16 (concat chunks)) Hiv) as [H _]. rewrite H.
  pose proof (pad16_aligned (concat chunks)). Z.div_mod_to_equations. lia.
Qed.

Theorem aes_compress_total_length : forall (iv : bytes) (chunks : list bytes)
  (Hiv : length iv = 16%nat),
  let '(st, out) := compress_all Eb (cinit iv) chunks in
  let '(_, tail) := aes_flush Eb st in
  blen (out ++ tail) = blen (pad16 (concat chunks)).
Proof.
  intros iv chunks Hiv. pose proof (compress_stream_length iv chunks Hiv) as H.
  unfold compress_stream in H.
  destruct (compress_all Eb (cinit iv) chunks) as [st out].
  destruct (aes_flush Eb st) as [st' tail]. exact H.
Qed.

End Enc.

(* ---------------------------------------------------------------------- *)
(* 2.11 DECRYPTION SIDE.  Theorem 1 (cbc_dec_app).  No hypothesis needed  *)
(*      for Theorems 1 and 4; the length fact needs Db_len (2.15).        *)
(* ---------------------------------------------------------------------- *)

Section Dec.
Variable Db : bytes -> bytes.

Theorem cbc_dec_app (iv a b : bytes) (Ha : blen a mod 16 = 0) :
  cbc_dec Db iv (a ++ b) =
  (fst (cbc_dec Db iv a) ++ fst (cbc_dec Db (snd (cbc_dec Db iv a)) b),
   snd (cbc_dec Db (snd (cbc_dec Db iv a)) b)).
Proof. exact (cbc_app (dec_step Db) iv a b Ha). Qed.

Lemma cbc_dec_nil (iv : bytes) : cbc_dec Db iv [] = ([], iv).
Proof. reflexivity. Qed.

(* ---------------------------------------------------------------------- *)
(* 2.12 One call of decompress()                                          *)
(*      Precondition of a "good" call:  len(buf) < 16  and                *)
(*      (len(buf) = 0  or  len(buf) + len(data) >= 16).                   *)
(* ---------------------------------------------------------------------- *)


Lemma aes_decompress_step (st : dstate) (d : bytes)
  (Hb : blen (dbuf st) < 16) (Hok : dec_call_ok st d) :
  exists A : bytes,
    dbuf st ++ d = A ++ dbuf (fst (aes_decompress Db st d)) /\
    blen A mod 16 = 0 /\
    blen (dbuf (fst (aes_decompress Db st d))) < 16 /\
    snd (aes_decompress Db st d) = fst (cbc_dec Db (dcst st) A) /\
    dcst (fst (aes_decompress Db st d)) = snd (cbc_dec Db (dcst st) A).
Proof.
  destruct st as [buf c]; unfold dec_call_ok in Hok; cbn [dbuf dcst] in *.
  unfold aes_decompress, buf_len, buf_add, buf_view, buf_reset, buf_set, cipher_decrypt.
  cbn [dbuf dcst].
  rewrite land15, land_not15.
  pose proof (blen_nonneg buf) as Hbn. pose proof (blen_nonneg d) as Hdn.
  set (cur := blen buf + blen d) in *.
  destruct (Z.ltb_spec 0 (blen d)) as [Hd|Hd];
    destruct (Z.eqb_spec (cur mod 16) 0) as [Hal|Hal]; cbn [andb].
  - (* data, aligned *)
    exists (buf ++ d).
    destruct (cbc_dec Db c (buf ++ d)) as [out c1]. cbn [fst snd dbuf dcst].
    rewrite app_nil_r, blen_app. change (blen []) with 0. repeat split; auto; lia.
  - (* data, not aligned *)
    destruct (Z.ltb_spec cur 16) as [Hlt16|Hge16]; cbn [andb].
    { (* not even one block: everything is kept *)
      exists []. rewrite cbc_dec_nil. cbn [fst snd dbuf dcst app].
      rewrite blen_app. repeat split; auto. }
    set (k := 16 * (cur / 16) - blen buf).
    assert (Hk : 0 <= k <= blen d) by (subst k cur; Z.div_mod_to_equations; lia).
    exists (buf ++ py_slice_to d k).
    destruct (cbc_dec Db c (buf ++ py_slice_to d k)) as [out c1]. cbn [fst snd dbuf dcst].
    rewrite <- app_assoc, py_slice_cat, blen_app.
    rewrite (py_slice_to_len d k Hk), (py_slice_from_len d k Hk).
    repeat split; auto; subst k cur; Z.div_mod_to_equations; lia.
  - (* no data: the buffer must be empty *)
    assert (Hb0 : blen buf = 0) by lia.
    destruct (Z.eqb_spec (blen buf) 0) as [_|Hne]; [|lia].
    exists []. rewrite cbc_dec_nil. cbn [fst snd dbuf dcst].
    assert (Hd0 : blen d = 0) by lia.
    rewrite (blen_zero_nil d Hd0), app_nil_r. repeat split; auto.
  - exfalso. assert (cur = 0) by lia. apply Hal. replace cur with 0 by lia. reflexivity.
Qed.

Lemma aes_decompress_residue (st : dstate) (d : bytes)
  (Hb : blen (dbuf st) < 16) (Hok : dec_call_ok st d) :
  blen (dbuf (fst (aes_decompress Db st d))) < 16 /\
  blen (dbuf (fst (aes_decompress Db st d))) = (blen (dbuf st) + blen d) mod 16.
Proof.
  destruct (aes_decompress_step st d Hb Hok) as (A & Hcat & HA & Hlt & _).
  split; [exact Hlt|].
  apply (f_equal blen) in Hcat. rewrite !blen_app in Hcat.
  pose proof (blen_nonneg (dbuf (fst (aes_decompress Db st d)))).
  Z.div_mod_to_equations. lia.
Qed.

(* The residue stays below 16 bytes after ANY call, good or bad. *)
Lemma aes_decompress_residue_any (st : dstate) (d : bytes) (Hb : blen (dbuf st) < 16) :
  blen (dbuf (fst (aes_decompress Db st d))) < 16.
Proof.
  pose proof (blen_nonneg (dbuf st)) as Hbn. pose proof (blen_nonneg d) as Hdn.
  destruct (Z.eq_dec (blen (dbuf st)) 0) as [H0|H0];
    [apply aes_decompress_residue; [exact Hb | left; exact H0]|].
  destruct (Z_lt_le_dec 0 (blen d)) as [Hd|Hd];
    [apply aes_decompress_residue; [exact Hb | right; exact Hd]|].
  (* an empty chunk on a non-empty residue: the padding branch empties the buffer *)
  assert (Hd0 : blen d = 0) by lia. rewrite (blen_zero_nil d Hd0).
  destruct st as [buf c]; cbn [dbuf] in *.
  unfold aes_decompress, buf_len, buf_add, buf_view, buf_reset, buf_set, cipher_decrypt.
  cbn [dbuf dcst]. change (blen []) with 0. change (0 <? 0) with false. cbn [andb].
  destruct (Z.eqb_spec (blen buf) 0) as [He|He]; [lia|].
  match goal with |- context [cbc_dec Db c ?x] => destruct (cbc_dec Db c x) end.
  cbn [fst dbuf]. change (blen []) with 0. lia.
Qed.

(* the final call decompress(b""): decrypts pad16 of the residue *)
Lemma aes_decompress_final (st : dstate) :
  snd (aes_decompress Db st []) = fst (cbc_dec Db (dcst st) (pad16 (dbuf st))).
Proof.
  destruct st as [buf c].
  unfold aes_decompress, buf_len, buf_add, buf_view, buf_reset, cipher_decrypt.
  cbn [dbuf dcst]. change (blen []) with 0. rewrite !land15.
  change (0 <? 0) with false. cbn [andb].
  destruct (Z.eqb_spec (blen buf) 0) as [H|H].
  - rewrite (blen_zero_nil buf H), pad16_nil, cbc_dec_nil. reflexivity.
  - fold (pad16 buf). destruct (cbc_dec Db c (pad16 buf)) as [out c1]. reflexivity.
Qed.

(* ---------------------------------------------------------------------- *)
(* 2.13 Theorem 4: decompress chunking                                    *)
(* ---------------------------------------------------------------------- *)

Lemma decompress_run_gen : forall (chunks : list bytes) (st : dstate)
  (Hb : blen (dbuf st) < 16)
  (Hok : dec_chunks_ok (blen (dbuf st)) chunks = true),
  snd (decompress_all Db st chunks) ++ snd (aes_decompress Db (fst (decompress_all Db st chunks)) []) =
  fst (cbc_dec Db (dcst st) (pad16 (dbuf st ++ concat chunks))).
Proof.
  induction chunks as [|d rest IH]; intros st Hb Hok.
  - simpl. rewrite app_nil_r. apply aes_decompress_final.
  - cbn [decompress_all concat]. cbn [dec_chunks_ok] in Hok.
    apply andb_prop in Hok as [Hd Hrest].
    assert (Hcall : dec_call_ok st d).
    { unfold dec_call_ok. apply orb_prop in Hd as [Hd|Hd]; [left|right]; lia. }
    destruct (aes_decompress_residue st d Hb Hcall) as [_ Hres].
    destruct (aes_decompress_step st d Hb Hcall) as (A & Hcat & HA & Hlt & Hout & Hcst).
    destruct (aes_decompress Db st d) as [st1 o1]. cbn [fst snd] in *.
    rewrite <- Hres in Hrest.
    specialize (IH st1 Hlt Hrest).
    destruct (decompress_all Db st1 rest) as [st2 o2]. cbn [fst snd] in *.
    rewrite <- app_assoc, IH.
    rewrite (app_assoc (dbuf st)), Hcat, <- app_assoc.
    rewrite (pad16_app A _ HA), (cbc_dec_app _ A _ HA). cbn [fst].
    rewrite Hout, Hcst. reflexivity.
Qed.

(* Most general form: the chunk schedule only has to satisfy dec_chunks_ok
   (a chunk may meet a non-empty residue only if residue + chunk >= 16). *)
Theorem aes_decompress_chunking : forall (iv : bytes) (chunks : list bytes)
  (Hok : dec_chunks_ok 0 chunks = true),
  let '(st, out) := decompress_all Db (dinit iv) chunks in
  let '(_, tail) := aes_decompress Db st [] in
  out ++ tail = fst (cbc_dec Db iv (pad16 (concat chunks))).
Proof.
  intros iv chunks Hok.
  pose proof (decompress_run_gen chunks (dinit iv)) as H. cbn [dinit dbuf dcst] in H.
  destruct (decompress_all Db (dinit iv) chunks) as [st out]. cbn [fst snd] in H.
  destruct (aes_decompress Db st []) as [st' tail]. cbn [snd] in H.
  apply H; [reflexivity | exact Hok].
Qed.

Lemma dec_chunks_ok_ge16 : forall (chunks : list bytes) (r : Z)
  (Hr : 0 <= r) (Hall : Forall (fun d => 16 <= blen d) chunks),
  dec_chunks_ok r chunks = true.
Proof.
  induction chunks as [|d rest IH]; intros r Hr Hall; [reflexivity|].
  inversion Hall as [|? ? Hd Hrest]; subst. cbn [dec_chunks_ok].
  rewrite (IH ((r + blen d) mod 16)); [|apply Z.mod_pos_bound; lia|exact Hrest].
  rewrite andb_true_r. apply orb_true_iff. right. lia.
Qed.

(* The form asked for: every chunk has at least 16 bytes. *)
Corollary aes_decompress_chunking_ge16 : forall (iv : bytes) (chunks : list bytes)
  (Hall : Forall (fun d => 16 <= blen d) chunks),
  let '(st, out) := decompress_all Db (dinit iv) chunks in
  let '(_, tail) := aes_decompress Db st [] in
  out ++ tail = fst (cbc_dec Db iv (pad16 (concat chunks))).
Proof.
  intros iv chunks Hall. apply aes_decompress_chunking.
  apply dec_chunks_ok_ge16; [lia | exact Hall].
Qed.

Lemma dec_chunks_ok_nonempty : forall (chunks : list bytes) (r : Z)
  (Hall : Forall (fun d => 0 < blen d) chunks),
  dec_chunks_ok r chunks = true.
Proof.
  induction chunks as [|d rest IH]; intros r Hall; [reflexivity|].
  inversion Hall as [|? ? Hd Hrest]; subst. cbn [dec_chunks_ok].
  rewrite (IH ((r + blen d) mod 16) Hrest).
  rewrite andb_true_r. apply orb_true_iff. right. lia.
Qed.

(* EVERY chunking into non-empty chunks (whatever their sizes) is decrypted correctly *)
Corollary aes_decompress_chunking_nonempty : forall (iv : bytes) (chunks : list bytes)
  (Hall : Forall (fun d => 0 < blen d) chunks),
  let '(st, out) := decompress_all Db (dinit iv) chunks in
  let '(_, tail) := aes_decompress Db st [] in
  out ++ tail = fst (cbc_dec Db iv (pad16 (concat chunks))).
Proof.
  intros iv chunks Hall. apply aes_decompress_chunking.
  apply dec_chunks_ok_nonempty. exact Hall.
Qed.

Corollary decompress_stream_spec (iv : bytes) (chunks : list bytes)
  (Hok : dec_chunks_ok 0 chunks = true) :
  decompress_stream Db iv chunks = fst (cbc_dec Db iv (pad16 (concat chunks))).
Proof.
  unfold decompress_stream. pose proof (aes_decompress_chunking iv chunks Hok) as H.
  destruct (decompress_all Db (dinit iv) chunks) as [st out].
  destruct (aes_decompress Db st []) as [st' tail]. exact H.
Qed.

(* ---------------------------------------------------------------------- *)
(* 2.14 Checked decompressor: exactly when does pycryptodome raise?       *)
(* ---------------------------------------------------------------------- *)


Lemma cipher_decrypt_chk_ok (c x : bytes) (H : blen x mod 16 = 0) :
  cipher_decrypt_chk Db c x = Ok (cipher_decrypt Db c x).
Proof. unfold cipher_decrypt_chk. rewrite (proj2 (aligned16_iff x) H). reflexivity. Qed.

Lemma cipher_decrypt_chk_err (c x : bytes) (H : blen x mod 16 <> 0) :
  cipher_decrypt_chk Db c x = Err EOther.
Proof.
  unfold cipher_decrypt_chk. destruct (aligned16 x) eqn:E; [|reflexivity].
  apply aligned16_iff in E. contradiction.
Qed.

(* A good call of decompress() does not raise ... *)
Theorem aes_decompress_chk_ok (st : dstate) (d : bytes)
  (Hb : blen (dbuf st) < 16) (Hok : dec_call_ok st d) :
  aes_decompress_chk Db st d = Ok (aes_decompress Db st d).
Proof.
  destruct st as [buf c]; unfold dec_call_ok in Hok; cbn [dbuf] in *.
  unfold aes_decompress_chk, aes_decompress, buf_len, buf_add, buf_view. cbn [dbuf dcst].
  rewrite land15, land_not15.
  pose proof (blen_nonneg buf) as Hbn. pose proof (blen_nonneg d) as Hdn.
  set (cur := blen buf + blen d) in *.
  destruct (Z.ltb_spec 0 (blen d)) as [Hd|Hd];
    destruct (Z.eqb_spec (cur mod 16) 0) as [Hal|Hal]; cbn [andb].
  - rewrite cipher_decrypt_chk_ok by (rewrite blen_app; exact Hal).
    cbn [bind]. destruct (cipher_decrypt Db c (buf ++ d)); reflexivity.
  - destruct (Z.ltb_spec cur 16) as [Hlt16|Hge16]; cbn [andb]; [reflexivity|].
    set (k := 16 * (cur / 16) - blen buf).
    assert (Hk : 0 <= k <= blen d) by (subst k cur; Z.div_mod_to_equations; lia).
    rewrite cipher_decrypt_chk_ok.
    + cbn [bind]. destruct (cipher_decrypt Db c (buf ++ py_slice_to d k)); reflexivity.
    + rewrite blen_app, (py_slice_to_len d k Hk). subst k.
      replace (blen buf + (16 * (cur / 16) - blen buf)) with (16 * (cur / 16)) by lia.
      apply mult16_mod.
  - destruct (Z.eqb_spec (blen buf) 0) as [_|Hne]; [reflexivity | lia].
  - destruct (Z.eqb_spec (blen buf) 0) as [_|Hne]; [reflexivity | lia].
Qed.

(* ... and the final call decompress(b"") never raises *)
Theorem aes_decompress_chk_final (st : dstate) :
  aes_decompress_chk Db st [] = Ok (aes_decompress Db st []).
Proof.
  destruct st as [buf c].
  unfold aes_decompress_chk, aes_decompress, buf_len, buf_add, buf_view. cbn [dbuf dcst].
  change (blen []) with 0. change (0 <? 0) with false. cbn [andb]. rewrite !land15.
  destruct (blen buf =? 0); [reflexivity|].
  fold (pad16 buf). rewrite cipher_decrypt_chk_ok by apply pad16_aligned.
  cbn [bind]. destruct (cipher_decrypt Db c (pad16 buf)); reflexivity.
Qed.

(* ... and a non-empty chunk that meets a non-empty residue without completing a block
   (a short read at a volume boundary, a block size below 16) is kept for the next call:
   nothing is handed to the cipher, nothing is returned.  (Before the repair the slice
   data[nextpos - buflen :] was negative here and cipher.decrypt raised ValueError.)      *)
Theorem aes_decompress_short_buffered (st : dstate) (d : bytes)
  (Hd0 : 0 < blen d) (Hshort : blen (dbuf st) + blen d < 16) :
  aes_decompress_chk Db st d = Ok ({| dbuf := dbuf st ++ d; dcst := dcst st |}, []) /\
  aes_decompress Db st d = ({| dbuf := dbuf st ++ d; dcst := dcst st |}, []).
Proof.
  destruct st as [buf c]; cbn [dbuf dcst] in *. pose proof (blen_nonneg buf) as Hbn.
  unfold aes_decompress_chk, aes_decompress, buf_len, buf_add, buf_view. cbn [dbuf dcst].
  rewrite land15.
  set (cur := blen buf + blen d) in *.
  destruct (Z.ltb_spec 0 (blen d)) as [Hd|Hd]; [|lia].
  destruct (Z.eqb_spec (cur mod 16) 0) as [Hal|Hal]; cbn [andb].
  { exfalso. subst cur. Z.div_mod_to_equations. lia. }
  destruct (Z.ltb_spec cur 16) as [Hlt|Hge]; [|lia]. cbn [andb]. split; reflexivity.
Qed.

(* an empty chunk on a non-empty residue pads prematurely (no exception) *)
Lemma aes_decompress_empty_midstream (st : dstate) (Hb0 : 0 < blen (dbuf st)) :
  snd (aes_decompress Db st []) = fst (cbc_dec Db (dcst st) (pad16 (dbuf st))) /\
  dbuf (fst (aes_decompress Db st [])) = [].
Proof.
  split; [apply aes_decompress_final|].
  destruct st as [buf c]; cbn [dbuf] in *.
  unfold aes_decompress, buf_len, buf_add, buf_view, buf_reset, cipher_decrypt.
  cbn [dbuf dcst]. change (blen []) with 0. change (0 <? 0) with false. cbn [andb].
  destruct (Z.eqb_spec (blen buf) 0) as [H|H]; [lia|].
  match goal with |- context [cbc_dec Db c ?x] => destruct (cbc_dec Db c x) end. reflexivity.
Qed.


(* a whole good schedule never raises *)
Theorem decompress_all_chk_ok : forall (chunks : list bytes) (st : dstate)
  (Hb : blen (dbuf st) < 16)
  (Hok : dec_chunks_ok (blen (dbuf st)) chunks = true),
  decompress_all_chk Db st chunks = Ok (decompress_all Db st chunks).
Proof.
  induction chunks as [|d rest IH]; intros st Hb Hok; [reflexivity|].
  cbn [decompress_all_chk decompress_all]. cbn [dec_chunks_ok] in Hok.
  apply andb_prop in Hok as [Hd Hrest].
  assert (Hcall : dec_call_ok st d).
  { unfold dec_call_ok. apply orb_prop in Hd as [Hd|Hd]; [left|right]; lia. }
  rewrite (aes_decompress_chk_ok st d Hb Hcall). cbn [bind].
  destruct (aes_decompress_residue st d Hb Hcall) as [Hlt Hres].
  destruct (aes_decompress Db st d) as [st1 o1]. cbn [fst] in *.
  rewrite <- Hres in Hrest. rewrite (IH st1 Hlt Hrest). cbn [bind].
  destruct (decompress_all Db st1 rest) as [st2 o2]. reflexivity.
Qed.


(* ---------------------------------------------------------------------- *)
(* 2.15 Theorem 6 (decryption side): length fact                          *)
(* ---------------------------------------------------------------------- *)

Hypothesis Db_len : forall x : bytes, length x = 16%nat -> length (Db x) = 16%nat.

Lemma dec_step_len (iv blk : bytes) (Hiv : length iv = 16%nat) (Hb : length blk = 16%nat) :
  length (fst (dec_step Db iv blk)) = 16%nat /\ length (snd (dec_step Db iv blk)) = 16%nat.
Proof.
  unfold dec_step; simpl. split; [|exact Hb].
  rewrite xor_bytes_length, Hiv, (Db_len blk Hb). reflexivity.
Qed.

Lemma cbc_dec_length (iv x : bytes) (Hiv : length iv = 16%nat) :
  blen (fst (cbc_dec Db iv x)) = 16 * (blen x / 16) /\ length (snd (cbc_dec Db iv x)) = 16%nat.
Proof. exact (cbc_length (dec_step Db) dec_step_len x iv Hiv). Qed.

Theorem aes_decompress_out_len (st : dstate) (d : bytes) (Hc : length (dcst st) = 16%nat) :
  blen (snd (aes_decompress Db st d)) mod 16 = 0 /\
  length (dcst (fst (aes_decompress Db st d))) = 16%nat.
Proof.
  destruct st as [buf c]; cbn [dcst] in Hc.
  unfold aes_decompress, cipher_decrypt. cbn [dbuf dcst].
  destruct ((0 <? blen d) && (Z.land (buf_len buf + blen d) 15 =? 0));
    [|destruct ((0 <? blen d) && (buf_len buf + blen d <? 16));
      [cbn [fst snd dcst]; split; [reflexivity | exact Hc]
      |destruct (0 <? blen d); [|destruct (buf_len buf =? 0)]]].
  - match goal with |- context [cbc_dec Db c ?x] =>
      destruct (cbc_dec_length c x Hc) as [H1 H2]; destruct (cbc_dec Db c x) end.
    cbn [fst snd dcst] in *. rewrite H1. split; [apply mult16_mod | exact H2].
  - match goal with |- context [cbc_dec Db c ?x] =>
      destruct (cbc_dec_length c x Hc) as [H1 H2]; destruct (cbc_dec Db c x) end.
    cbn [fst snd dcst] in *. rewrite H1. split; [apply mult16_mod | exact H2].
  - cbn [fst snd dcst]. split; [reflexivity | exact Hc].
  - match goal with |- context [cbc_dec Db c ?x] =>
      destruct (cbc_dec_length c x Hc) as [H1 H2]; destruct (cbc_dec Db c x) end.
    cbn [fst snd dcst] in *. rewrite H1. split; [apply mult16_mod | exact H2].
Qed.


End Dec.

(* ---------------------------------------------------------------------- *)
(* 2.16 ROUND TRIP.  Needs Db_Eb and Eb_len (not Db_len).                 *)
(* ---------------------------------------------------------------------- *)

Section RoundTrip.
Variable Eb Db : bytes -> bytes.
Hypothesis Db_Eb : forall x : bytes, length x = 16%nat -> Db (Eb x) = x.
Hypothesis Eb_len : forall x : bytes, length x = 16%nat -> length (Eb x) = 16%nat.

(* CBC decryption inverts CBC encryption on whole blocks *)
Lemma cbc_dec_enc_n : forall (n : nat) (x iv : bytes)
  (Hx : length x = (16 * n)%nat) (Hiv : length iv = 16%nat),
  fst (cbc_dec Db iv (fst (cbc_enc Eb iv x))) = x.
Proof.
  induction n as [|n IH]; intros x iv Hx Hiv.
  - destruct x as [|? x]; [reflexivity | simpl in Hx; lia].
  - destruct (split_block x) as (blk & rest & -> & Hb); [lia|].
    rewrite app_length in Hx.
    destruct (enc_step_len Eb Eb_len iv blk Hiv Hb) as [Hc _].
    unfold cbc_enc, cbc_dec in *.
    rewrite (cbc_cons (enc_step Eb) iv blk rest Hb). cbn [fst snd].
    set (c := Eb (xor_bytes blk iv)) in *.
    change (fst (enc_step Eb iv blk)) with c. change (snd (enc_step Eb iv blk)) with c.
    rewrite (cbc_cons (dec_step Db) iv c _ Hc). cbn [fst snd].
    change (fst (dec_step Db iv c)) with (xor_bytes (Db c) iv).
    change (snd (dec_step Db iv c)) with c.
    rewrite (IH rest c) by (try exact Hc; lia).
    subst c. rewrite Db_Eb by (rewrite xor_bytes_length, Hiv, Hb; reflexivity).
    rewrite xor_bytes_cancel by lia. reflexivity.
Qed.

Theorem cbc_dec_enc (iv x : bytes) (Hiv : length iv = 16%nat) (Hx : blen x mod 16 = 0) :
  fst (cbc_dec Db iv (fst (cbc_enc Eb iv x))) = x.
Proof. destruct (aligned_blocks x Hx) as [n Hn]. exact (cbc_dec_enc_n n x iv Hn Hiv). Qed.

(* ---------------------------------------------------------------------- *)
(* Corollary of Theorems 3 + 4 + Db (Eb x) = x                            *)
(* ---------------------------------------------------------------------- *)

Theorem aes_roundtrip_stream (iv : bytes) (pchunks cchunks : list bytes)
  (Hiv : length iv = 16%nat)
  (Hcat : concat cchunks = compress_stream Eb iv pchunks)
  (Hok : dec_chunks_ok 0 cchunks = true) :
  decompress_stream Db iv cchunks = pad16 (concat pchunks).
Proof.
  rewrite (decompress_stream_spec Db iv cchunks Hok), Hcat.
  pose proof (compress_stream_length Eb Eb_len iv pchunks Hiv) as Hlen.
  pose proof (pad16_aligned (concat pchunks)) as Hal.
  rewrite pad16_id by (rewrite Hlen; exact Hal).
  rewrite compress_stream_spec.
  apply cbc_dec_enc; assumption.
Qed.

Theorem aes_roundtrip : forall (iv : bytes) (pchunks cchunks : list bytes)
  (Hiv : length iv = 16%nat)
  (Hok : dec_chunks_ok 0 cchunks = true),
  let '(cs, cout) := compress_all Eb (cinit iv) pchunks in
  let '(_, ctail) := aes_flush Eb cs in
  concat cchunks = cout ++ ctail ->
  let '(ds, dout) := decompress_all Db (dinit iv) cchunks in
  let '(_, dtail) := aes_decompress Db ds [] in
  dout ++ dtail = pad16 (concat pchunks).
Proof.
  intros iv pchunks cchunks Hiv Hok.
  pose proof (aes_roundtrip_stream iv pchunks cchunks Hiv) as H.
  unfold compress_stream, decompress_stream in H.
  destruct (compress_all Eb (cinit iv) pchunks) as [cs cout].
  destruct (aes_flush Eb cs) as [cs' ctail]. intro Hcat.
  destruct (decompress_all Db (dinit iv) cchunks) as [ds dout].
  destruct (aes_decompress Db ds []) as [ds' dtail].
  exact (H Hcat Hok).
Qed.

End RoundTrip.

(* ====================================================================== *)
(* Part 3.  Toy instantiation, examples, refutations                      *)
(* ====================================================================== *)

(* A toy "block cipher": byte-wise xor with 90 (an involution).  It shows
   that the hypotheses Db_Eb / Eb_len / Db_len are satisfiable and lets the
   model be evaluated.                                                      *)
Definition toyE (b : bytes) : bytes := map (fun x => Z.lxor x 90) b.
Definition toyD (b : bytes) : bytes := toyE b.

Lemma toy_Db_Eb (x : bytes) (H : length x = 16%nat) : toyD (toyE x) = x.
Proof.
  clear H. unfold toyD, toyE. rewrite map_map. rewrite <- (map_id x) at 2.
  apply map_ext. intro a. rewrite Z.lxor_assoc. change (Z.lxor 90 90) with 0.
  apply Z.lxor_0_r.
Qed.

Lemma toy_Eb_len (x : bytes) (H : length x = 16%nat) : length (toyE x) = 16%nat.
Proof. unfold toyE. rewrite map_length. exact H. Qed.

Lemma toy_Db_len (x : bytes) (H : length x = 16%nat) : length (toyD x) = 16%nat.
Proof. exact (toy_Eb_len x H). Qed.

Definition ex_iv : bytes := map Z.of_nat (seq 100 16).
Definition ex_plain (n : nat) : bytes := map Z.of_nat (seq 1 n).

(* Python slices with negative indices *)
Example ex_slice_from_neg : py_slice_from [1;2;3;4;5] (-2) = [4;5].
Proof. reflexivity. Qed.
Example ex_slice_to_neg : py_slice_to [1;2;3;4;5] (-2) = [1;2;3].
Proof. reflexivity. Qed.
Example ex_slice_from_neg_clamped : py_slice_from [1;2] (-5) = [1;2].
Proof. reflexivity. Qed.
Example ex_slice_to_neg_clamped : py_slice_to [1;2] (-5) = [].
Proof. reflexivity. Qed.
Example ex_slice_to_big : py_slice_to [1;2] 7 = [1;2].
Proof. reflexivity. Qed.

(* the concrete Buffer grows beyond its initial size *)
Example ex_rawbuf :
  let b := rb_add (rb_add (rb_init 4) [1;2]) [3;4;5] in
  rb_view b = [1;2;3;4;5] /\ rb_length b = 5 /\
  rb_view (rb_set b [9]) = [9] /\ rb_view (rb_reset b) = [].
Proof. vm_compute. auto. Qed.

(* one block through the toy cipher: c = (p xor iv) xor 90 *)
Example ex_one_block :
  cbc_enc toyE ex_iv (ex_plain 16) =
  ([63;61;63;57;55;53;55;57;63;61;63;57;39;37;39;57],
   [63;61;63;57;55;53;55;57;63;61;63;57;39;37;39;57]).
Proof. vm_compute. reflexivity. Qed.

(* compress() on chunks of 3, 17, 0 and 15 bytes, then flush() *)
Example ex_compress_run :
  let chunks := [ex_plain 3; map (Z.add 3) (ex_plain 17); []; map (Z.add 20) (ex_plain 15)] in
  let '(st1, o1) := aes_compress toyE (cinit ex_iv) (nth 0 chunks []) in
  let '(st2, o2) := aes_compress toyE st1 (nth 1 chunks []) in
  let '(st3, o3) := aes_compress toyE st2 (nth 2 chunks []) in
  let '(st4, o4) := aes_compress toyE st3 (nth 3 chunks []) in
  let '(st5, o5) := aes_flush toyE st4 in
  o1 = [] /\ cbuf st1 = ex_plain 3 /\
  blen o2 = 16 /\ cbuf st2 = [17;18;19;20] /\
  o3 = [] /\ cbuf st3 = [17;18;19;20] /\
  blen o4 = 16 /\ cbuf st4 = [33;34;35] /\
  blen o5 = 16 /\ cbuf st5 = [] /\
  o1 ++ o2 ++ o3 ++ o4 ++ o5 = fst (cbc_enc toyE ex_iv (ex_plain 35 ++ zeros 13)).
Proof. vm_compute. repeat split; reflexivity. Qed.

(* encrypt in odd chunks, decrypt in other (legal) chunks: pad16 plain comes back *)
Example ex_roundtrip :
  let c := compress_stream toyE ex_iv [ex_plain 5; ex_plain 0; map (Z.add 5) (ex_plain 32)] in
  blen c = 48 /\
  decompress_stream toyD ex_iv [firstn 7 c; skipn 7 (firstn 30 c); skipn 30 c]
  = ex_plain 37 ++ zeros 11.
Proof. vm_compute. split; reflexivity. Qed.

(* ---------------------------------------------------------------------- *)
(* Theorem 5 (since the repair of AESDecompressor.decompress): short chunks are buffered. *)
(* 32 bytes of genuine ciphertext delivered as 5 + 5 + 22 bytes: on the   *)
(* second call buflen = 5, currentlen = 10, nextpos = 0, so               *)
(*   temp2 = data[-5:]  = the whole second chunk                          *)
(*   buf.add(data[:-5]) = nothing                                         *)
(*   cipher.decrypt(view of 5 bytes)  -> ValueError in pycryptodome;      *)
(* in the total model the 5-byte view is dropped by cbc_dec and then      *)
(* buf.set(temp2) overwrites the first chunk, which is lost.              *)
(* ---------------------------------------------------------------------- *)

Definition ex_cipher32 : bytes := fst (cbc_enc toyE ex_iv (ex_plain 32)).
Definition ex_short_chunks : list bytes :=
  [firstn 5 ex_cipher32; firstn 5 (skipn 5 ex_cipher32); skipn 10 ex_cipher32].

Theorem aes_decompress_short_chunks_ok :
  (* the schedule that used to raise (32 bytes of ciphertext delivered as 5 + 5 + 22 bytes) *)
  dec_chunks_ok 0 ex_short_chunks = true /\
  (exists r, decompress_all_chk toyD (dinit ex_iv) ex_short_chunks = Ok r) /\
  decompress_stream toyD ex_iv ex_short_chunks = ex_plain 32.
Proof.
  split; [vm_compute; reflexivity|]. split; [eexists; vm_compute; reflexivity|].
  vm_compute. reflexivity.
Qed.

(* A second way to break it, without any exception: an EMPTY chunk arriving
   while the residue is non-empty takes the "padding" branch prematurely.   *)
Definition ex_empty_chunks : list bytes :=
  [firstn 5 ex_cipher32; []; skipn 5 ex_cipher32].

Theorem aes_decompress_empty_chunk_refuted :
  exists (iv : bytes) (chunks : list bytes),
    decompress_stream toyD iv chunks <> fst (cbc_dec toyD iv (pad16 (concat chunks))) /\
    (exists r, decompress_all_chk toyD (dinit iv) chunks = Ok r) /\
    blen (decompress_stream toyD iv chunks) = 48 /\
    blen (concat chunks) = 32.
Proof.
  exists ex_iv, ex_empty_chunks. split; [|split; [|split]].
  - vm_compute. intro H. discriminate H.
  - eexists. vm_compute. reflexivity.
  - vm_compute. reflexivity.
  - vm_compute. reflexivity.
Qed.

(* the general theorems instantiated at the toy cipher *)
Example toy_roundtrip (pchunks cchunks : list bytes)
  (Hcat : concat cchunks = compress_stream toyE ex_iv pchunks)
  (Hok : dec_chunks_ok 0 cchunks = true) :
  decompress_stream toyD ex_iv cchunks = pad16 (concat pchunks).
Proof.
  exact (aes_roundtrip_stream toyE toyD toy_Db_Eb toy_Eb_len ex_iv pchunks cchunks
           eq_refl Hcat Hok).
Qed.

Check cbc_enc_app.
Check cbc_dec_app.
Check aes_compress_residue.
Check compress_all_residue.
Check compress_all_residue_init.
Check aes_decompress_residue_any.
Check aes_compress_chunking.
Check aes_decompress_chunking.
Check aes_decompress_chunking_ge16.
Check cbc_dec_enc.
Check aes_roundtrip.
Check aes_roundtrip_stream.
Check aes_compress_out_len.
Check aes_decompress_out_len.
Check aes_compress_total_length.
Check aes_flush_chk_ok.
Check aes_compress_chk_ok.
Check aes_decompress_chk_ok.
Check aes_decompress_short_buffered.
Check decompress_all_chk_ok.

Print Assumptions cbc_enc_app.
Print Assumptions cbc_dec_app.
Print Assumptions cbc_dec_enc.
Print Assumptions compress_all_residue_init.
Print Assumptions aes_decompress_residue_any.
Print Assumptions aes_compress_chunking.
Print Assumptions aes_decompress_chunking.
Print Assumptions aes_decompress_chunking_ge16.
Print Assumptions aes_roundtrip.
Print Assumptions aes_decompress_short_chunks_ok.
Print Assumptions aes_decompress_chunking_nonempty.
Print Assumptions aes_decompress_empty_chunk_refuted.
Print Assumptions aes_compress_out_len.
Print Assumptions aes_decompress_out_len.
Print Assumptions aes_compress_total_length.
Print Assumptions aes_compress_chk_ok.
Print Assumptions aes_flush_chk_ok.
Print Assumptions aes_decompress_chk_ok.
Print Assumptions aes_decompress_short_buffered.
Print Assumptions decompress_all_chk_ok.
Print Assumptions rb_add_view.
Print Assumptions toy_roundtrip.
