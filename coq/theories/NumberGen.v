(* NumberGen.v -- ties between the generated archiveinfo primitives
   (gen/ArchiveinfoPrims.v, produced by tools/translate.py) and the NUMBER spec. *)
From P7 Require Import Prelude PyPrims PyTac Number.
From P7gen Require Import ArchiveinfoPrims.
From Coq Require Import ZifyBool.
Ltac Zify.zify_post_hook ::= Z.to_euclidean_division_equations.
Open Scope Z_scope.

(* ---------- write_uint64 ---------- *)

Ltac wr_head v bl lo hi :=
  unfold write_uint64;
  destruct (v <? 128) eqn:?E1; [lia|];
  destruct (72057594037927935 <? v) eqn:?E2; [lia|];
  rewrite (bit_length_bytes v bl lo hi) by (reflexivity || lia);
  cbn zeta;
  rewrite py_to_bytes_le_ok by (cev; lia); cev; cbn [bind le_bytes];
  rewrite (py_index_last _ 0) by discriminate; cbn [last bind];
  cev; cbn [bind].

(* run the (closed-bound) or-loop *)
Ltac wr_loop :=
  unfold py_range; cev; cbn [range_from for_m]; repeat (progress (cev; cbn [bind])).

(* rewrite the spec side once the size class n is known *)
Ltac set_extra v n :=
  let H := fresh "Hn" in
  assert (H : number_extra v = n) by (unfold number_extra; split_ifs; reflexivity);
  rewrite number_enc_unfold, H; unfold number_first; num_consts n; cbn [le_bytes].

Lemma cons_eq {A} (a b : A) l l' : a = b -> l = l' -> a :: l = b :: l'.
Proof. intros -> ->; reflexivity. Qed.
Ltac list_eq :=
  match goal with
  | |- Ok _ = Ok _ => f_equal; list_eq
  | |- _ :: _ = _ :: _ => apply cons_eq; [lia | list_eq]
  | |- ?a = ?a => reflexivity
  end.

(* byte_length bl, branch "high byte fits": n = bl - 1 extra bytes; m = prefix, j = free bits *)
Ltac wr_small v bl lo hi n m j :=
  wr_head v bl lo hi;
  match goal with |- context[if ?c then _ else _] => destruct c eqn:?E3 end; [|lia];
  wr_loop; rewrite <- ?Z.lor_assoc; cev; rewrite (lor_mask _ m j) by (cev; lia);
  rewrite py_pack_B_ok by lia; cbn [bind]; pyseq;
  set_extra v n; list_eq.
Ltac wr_big v bl lo hi n :=
  wr_head v bl lo hi;
  match goal with |- context[if ?c then _ else _] => destruct c eqn:?E3 end; [lia|];
  wr_loop; rewrite py_pack_B_ok by lia; cbn [bind app];
  set_extra v n; list_eq.

Lemma wr_c0 v : 0 <= v < 2^7 -> write_uint64 v = Ok (number_enc v).
Proof.
  intros Hv. unfold write_uint64. destruct (v <? 128) eqn:E1; [|lia].
  rewrite py_pack_B_ok by lia. cbn [bind app]. set_extra v 0%nat. list_eq.
Qed.
Lemma wr_c1 v : 2^7 <= v < 2^8 -> write_uint64 v = Ok (number_enc v).
Proof. intros Hv. wr_big v 1 1 256 1%nat. Qed.
Lemma wr_c1b v : 2^8 <= v < 2^14 -> write_uint64 v = Ok (number_enc v).
Proof. intros Hv. wr_small v 2 256 65536 1%nat 128 6. Qed.
Lemma wr_c2 v : 2^14 <= v < 2^16 -> write_uint64 v = Ok (number_enc v).
Proof. intros Hv. wr_big v 2 256 65536 2%nat. Qed.
Lemma wr_c2b v : 2^16 <= v < 2^21 -> write_uint64 v = Ok (number_enc v).
Proof. intros Hv. wr_small v 3 65536 16777216 2%nat 192 5. Qed.
Lemma wr_c3 v : 2^21 <= v < 2^24 -> write_uint64 v = Ok (number_enc v).
Proof. intros Hv. wr_big v 3 65536 16777216 3%nat. Qed.
Lemma wr_c3b v : 2^24 <= v < 2^28 -> write_uint64 v = Ok (number_enc v).
Proof. intros Hv. wr_small v 4 16777216 4294967296 3%nat 224 4. Qed.
Lemma wr_c4 v : 2^28 <= v < 2^32 -> write_uint64 v = Ok (number_enc v).
Proof. intros Hv. wr_big v 4 16777216 4294967296 4%nat. Qed.
Lemma wr_c4b v : 2^32 <= v < 2^35 -> write_uint64 v = Ok (number_enc v).
Proof. intros Hv. wr_small v 5 4294967296 1099511627776 4%nat 240 3. Qed.
Lemma wr_c5 v : 2^35 <= v < 2^40 -> write_uint64 v = Ok (number_enc v).
Proof. intros Hv. wr_big v 5 4294967296 1099511627776 5%nat. Qed.
Lemma wr_c5b v : 2^40 <= v < 2^42 -> write_uint64 v = Ok (number_enc v).
Proof. intros Hv. wr_small v 6 1099511627776 281474976710656 5%nat 248 2. Qed.
Lemma wr_c6 v : 2^42 <= v < 2^48 -> write_uint64 v = Ok (number_enc v).
Proof. intros Hv. wr_big v 6 1099511627776 281474976710656 6%nat. Qed.
Lemma wr_c6b v : 2^48 <= v < 2^49 -> write_uint64 v = Ok (number_enc v).
Proof. intros Hv. wr_small v 7 281474976710656 72057594037927936 6%nat 252 1. Qed.
Lemma wr_c7 v : 2^49 <= v < 2^56 -> write_uint64 v = Ok (number_enc v).
Proof. intros Hv. wr_big v 7 281474976710656 72057594037927936 7%nat. Qed.
Lemma wr_c8 v : 2^56 <= v < 2^64 -> write_uint64 v = Ok (number_enc v).
Proof.
  intros Hv. unfold write_uint64. destruct (v <? 128) eqn:E1; [lia|].
  destruct (72057594037927935 <? v) eqn:E2; [|lia].
  rewrite py_to_bytes_le_ok by (cev; lia). cev. cbn [bind app le_bytes].
  set_extra v 8%nat. list_eq.
Qed.

Theorem gen_write_uint64_eq v : 0 <= v < 2^64 -> write_uint64 v = Ok (number_enc v).
Proof.
  intros Hv.
  destruct (Z.ltb_spec v (2^7)); [apply wr_c0; lia|].
  destruct (Z.ltb_spec v (2^8)); [apply wr_c1; lia|].
  destruct (Z.ltb_spec v (2^14)); [apply wr_c1b; lia|].
  destruct (Z.ltb_spec v (2^16)); [apply wr_c2; lia|].
  destruct (Z.ltb_spec v (2^21)); [apply wr_c2b; lia|].
  destruct (Z.ltb_spec v (2^24)); [apply wr_c3; lia|].
  destruct (Z.ltb_spec v (2^28)); [apply wr_c3b; lia|].
  destruct (Z.ltb_spec v (2^32)); [apply wr_c4; lia|].
  destruct (Z.ltb_spec v (2^35)); [apply wr_c4b; lia|].
  destruct (Z.ltb_spec v (2^40)); [apply wr_c5; lia|].
  destruct (Z.ltb_spec v (2^42)); [apply wr_c5b; lia|].
  destruct (Z.ltb_spec v (2^48)); [apply wr_c6; lia|].
  destruct (Z.ltb_spec v (2^49)); [apply wr_c6b; lia|].
  destruct (Z.ltb_spec v (2^56)); [apply wr_c7; lia|].
  apply wr_c8; lia.
Qed.

(* Python raises struct.error (negative) / OverflowError (>= 2^64) *)
Theorem gen_write_uint64_rejects v : v < 0 \/ 2^64 <= v -> write_uint64 v = Err EOther.
Proof.
  intros [Hv|Hv]; unfold write_uint64.
  - destruct (v <? 128) eqn:E1; [|lia].
    unfold py_pack_B, py_to_bytes_le. cev. cbv iota.
    destruct ((v <? 0) || (256 <=? v)) eqn:E2; [reflexivity|lia].
  - destruct (v <? 128) eqn:E1; [lia|].
    destruct (72057594037927935 <? v) eqn:E2; [|lia].
    unfold py_to_bytes_le. cev. cbv iota.
    destruct ((v <? 0) || (18446744073709551616 <=? v)) eqn:E3; [reflexivity|lia].
Qed.

(* ---------- read_uint64 ---------- *)

Lemma land_ones_lit b m j : 0 <= j -> m = Z.ones j -> Z.land b m = b mod 2 ^ j.
Proof. intros Hj ->. apply Z.land_ones. exact Hj. Qed.

Lemma ok_pair_eq {A} (a b : Z) (s : A) : a = b -> Ok (a, s) = Ok (b, s).
Proof. intros ->; reflexivity. Qed.

Lemma rd_read_nat (inp : bytes) (n : Z) :
  0 <= n -> rd_read inp n = (firstn (Z.to_nat n) inp, skipn (Z.to_nat n) inp).
Proof. intros Hn. unfold rd_read. destruct (n <? 0) eqn:E; [lia|reflexivity]. Qed.

(* leave the table loop with vlen = n > 0; mask - 1 = m = 2^j - 1 *)
Ltac rd_fin b n m j :=
  cbv iota; cbn [bind]; cev; cbv iota;
  let Hl := fresh "Hl" in
  assert (Hl : leading_ones b = n) by (unfold leading_ones; split_ifs; reflexivity);
  rewrite Hl in *;
  rewrite rd_read_nat by lia; cev;
  unfold py_from_bytes_le;
  rewrite py_shl_ok by lia; cbn [bind];
  rewrite Z.shiftl_mul_pow2 by lia;
  rewrite (land_ones_lit b m j) by (reflexivity || lia);
  num_consts n; apply ok_pair_eq; lia.

Theorem gen_read_uint64_spec b r v r' :
  is_byte b = true -> spec_number (b :: r) = Some (v, r') -> read_uint64 (b :: r) = Ok (v, r').
Proof.
  intros Hb Hs. unfold is_byte in Hb.
  unfold spec_number in Hs. cbv zeta in Hs.
  destruct (length r <? leading_ones b)%nat eqn:El; [discriminate|].
  apply Nat.ltb_ge in El. apply Some_pair_inj in Hs as [Hv Hr]. subst v r'.
  unfold read_uint64. rewrite rd_read_nat by lia. cev. cbn [firstn skipn py_ord bind].
  destruct (b =? 255) eqn:E255.
  - assert (b = 255) by lia. subst b.
    change (leading_ones 255) with 8%nat in *.
    unfold read_real_uint64. rewrite rd_read_nat by lia. cev.
    unfold py_unpack_Q. rewrite py_unpack_n_ok by (apply firstn_length_le; exact El).
    cbn [bind fst]. num_consts 8%nat. apply ok_pair_eq. lia.
  - cbn [for_m].
    destruct (b <=? 127) eqn:E0.
    { cbv iota. cbn [bind]. cev. cbv iota.
      assert (Hl : leading_ones b = 0%nat) by (unfold leading_ones; split_ifs; reflexivity).
      rewrite Hl. rewrite (land_ones_lit b 127 7) by (reflexivity || lia).
      num_consts 0%nat. cbn [firstn skipn le_value]. apply ok_pair_eq. lia. }
    cev. destruct (b <=? 191) eqn:E1; [rd_fin b 1%nat 63 6|].
    cev. destruct (b <=? 223) eqn:E2; [rd_fin b 2%nat 31 5|].
    cev. destruct (b <=? 239) eqn:E3; [rd_fin b 3%nat 15 4|].
    cev. destruct (b <=? 247) eqn:E4; [rd_fin b 4%nat 7 3|].
    cev. destruct (b <=? 251) eqn:E5; [rd_fin b 5%nat 3 2|].
    cev. destruct (b <=? 253) eqn:E6; [rd_fin b 6%nat 1 1|].
    cev. destruct (b <=? 254) eqn:E7; [rd_fin b 7%nat 0 0|].
    lia.
Qed.

Theorem gen_read_uint64_enc v r : 0 <= v < 2^64 -> read_uint64 (number_enc v ++ r) = Ok (v, r).
Proof.
  intros Hv. pose proof (number_spec_enc v r Hv) as Hs. pose proof (number_enc_wf v Hv) as Hw.
  rewrite number_enc_unfold in *. cbn [app] in *. cbn [wf_bytes forallb] in Hw.
  apply andb_true_iff in Hw as [Hb _]. apply gen_read_uint64_spec; assumption.
Qed.

Corollary number_roundtrip v : 0 <= v < 2^64 -> forall r, exists bs,
  write_uint64 v = Ok bs /\ read_uint64 (bs ++ r) = Ok (v, r) /\
  spec_number (bs ++ r) = Some (v, r) /\ (1 <= length bs <= 9)%nat.
Proof.
  intros Hv r. exists (number_enc v).
  split; [apply gen_write_uint64_eq; exact Hv|].
  split; [apply gen_read_uint64_enc; exact Hv|].
  split; [apply number_spec_enc; exact Hv|apply number_enc_length; exact Hv].
Qed.

(* Known divergence: on truncated input the generated reader (int.from_bytes of a short
   file.read) returns a value where the specification decoder rejects. *)
Theorem read_uint64_truncated_diverges :
  read_uint64 [192; 1] = Ok (1, []) /\ spec_number [192; 1] = None.
Proof. split; vm_compute; reflexivity. Qed.

(* more generally: whenever fewer than the announced extra bytes (1..7) follow, the reader
   still succeeds.  With first byte 255 and fewer than 8 bytes it raises (struct.error). *)
Theorem read_uint64_truncated_255 : read_uint64 [255; 1; 2; 3] = Err EOther /\ spec_number [255; 1; 2; 3] = None.
Proof. split; vm_compute; reflexivity. Qed.
Theorem read_uint64_empty : read_uint64 [] = Err EOther /\ spec_number [] = None.
Proof. split; vm_compute; reflexivity. Qed.

(* ---------- fixed-width integers ---------- *)

Lemma rd_read_exact (a r : bytes) n : Z.of_nat (length a) = n -> rd_read (a ++ r) n = (a, r).
Proof. intros <-. apply rd_read_app. Qed.

Theorem gen_uint32_roundtrip v r : 0 <= v < 2^32 -> exists bs,
  write_uint32 v = Ok bs /\ length bs = 4%nat /\ read_uint32 (bs ++ r) = Ok ((v, bs), r).
Proof.
  intros Hv. exists (le_bytes 4 v).
  split; [|split; [apply le_bytes_length|]].
  - unfold write_uint32, py_pack_L. rewrite py_to_bytes_le_ok by (cev; lia). reflexivity.
  - unfold read_uint32. rewrite rd_read_exact by (rewrite le_bytes_length; reflexivity).
    unfold py_unpack_L. rewrite py_unpack_n_ok by apply le_bytes_length.
    cbn [bind fst]. rewrite le_value_le_bytes_small by (cev; lia). reflexivity.
Qed.

Theorem gen_real_uint64_roundtrip v r : 0 <= v < 2^64 -> exists bs,
  write_real_uint64 v = Ok bs /\ length bs = 8%nat /\ read_real_uint64 (bs ++ r) = Ok ((v, bs), r).
Proof.
  intros Hv. exists (le_bytes 8 v).
  split; [|split; [apply le_bytes_length|]].
  - unfold write_real_uint64, py_pack_Q. rewrite py_to_bytes_le_ok by (cev; lia). reflexivity.
  - unfold read_real_uint64. rewrite rd_read_exact by (rewrite le_bytes_length; reflexivity).
    unfold py_unpack_Q. rewrite py_unpack_n_ok by apply le_bytes_length.
    cbn [bind fst]. rewrite le_value_le_bytes_small by (cev; lia). reflexivity.
Qed.

Theorem gen_write_uint32_rejects v : v < 0 \/ 2^32 <= v -> write_uint32 v = Err EOther.
Proof.
  intros Hv. unfold write_uint32, py_pack_L, py_to_bytes_le. cev. cbv iota.
  destruct ((v <? 0) || (4294967296 <=? v)) eqn:E; [reflexivity|lia].
Qed.

Theorem gen_write_real_uint64_rejects v : v < 0 \/ 2^64 <= v -> write_real_uint64 v = Err EOther.
Proof.
  intros Hv. unfold write_real_uint64, py_pack_Q, py_to_bytes_le. cev. cbv iota.
  destruct ((v <? 0) || (18446744073709551616 <=? v)) eqn:E; [reflexivity|lia].
Qed.

(* ceil(n / 8), for every integer n *)
Theorem gen_bits_to_bytes_all n : bits_to_bytes n = Ok ((n + 7) / 8).
Proof. unfold bits_to_bytes. f_equal. lia. Qed.
Theorem gen_bits_to_bytes n : 0 <= n -> bits_to_bytes n = Ok ((n + 7) / 8).
Proof. intros _. apply gen_bits_to_bytes_all. Qed.

Print Assumptions gen_write_uint64_eq.
Print Assumptions gen_write_uint64_rejects.
Print Assumptions gen_read_uint64_spec.
Print Assumptions number_roundtrip.
Print Assumptions read_uint64_truncated_diverges.
Print Assumptions gen_uint32_roundtrip.
Print Assumptions gen_real_uint64_roundtrip.
Print Assumptions gen_bits_to_bytes.
