(* CompGen.v -- SevenZipCompressor.compress / flush as generated from py7zr/compressor.py (gen/CompChain.v) are Comp.v's
   compress / flush, for every object, source, read schedule and initial crc; the stage encoders are the same abstract
   cstep / cflush on both sides, zlib.crc32 is Crc32.crc32_update.  The generated code computes every CRC through
   helpers.calculate_crc32 on the method's fuel: when that fuel does not cover a block the generated function answers
   Err EFuel (the model has no such limit), hence the form "Err EFuel or the model's answer". *)
From P7 Require Import Prelude PyPrims PyStr PyRe Crc32.
From P7 Require Decomp Comp.
From P7 Require CrcGen DecompGen CompSession.
From P7gen Require HelpersCrc CompChain.
From Coq Require Import Lia ZArith List ZifyBool ZifyNat.
Import ListNotations.
Open Scope Z_scope.

Definition zcrc : bytes -> Z -> Z := fun d v => crc32_update v d.

(* ------------------------------------------------------------------ helpers.calculate_crc32 on any fuel *)
Lemma gen_crc_loop_or (data : bytes) (v0 bs : Z) (Hv0 : 0 <= v0 < 2 ^ 32) (Hbs : 0 < bs) :
  forall (fuel : nat) (value pos : Z), 0 <= pos -> value = zcrc (firstn (Z.to_nat pos) data) v0 ->
    let w := while_m fuel (fun '(value, pos) => pos <? py_len data)
        (fun '(value, pos) => Ok ((zcrc (py_slice data (Some pos) (Some (pos + bs))) value, pos + bs), false))
        (value, pos) in
    w = Err EFuel \/ exists pos', w = Ok (zcrc data v0, pos').
Proof.
  induction fuel as [|f IH]; intros value pos Hpos Hval; cbv zeta.
  - cbn [while_m]. destruct (pos <? py_len data) eqn:E; [left; reflexivity|].
    right. exists pos. rewrite Hval. f_equal. f_equal. f_equal. apply firstn_all2. unfold py_len in E. lia.
  - cbn [while_m]. destruct (pos <? py_len data) eqn:E.
    + apply IH; [lia|].
      rewrite Hval. unfold zcrc. rewrite <- crc32_update_app by exact Hv0. f_equal. apply CrcGen.firstn_plus_slice; lia.
    + right. exists pos. rewrite Hval. f_equal. f_equal. f_equal. apply firstn_all2. unfold py_len in E. lia.
Qed.

Lemma gen_calculate_crc32_or (fuel : nat) (data : bytes) (value : Z) : 0 <= value < 2 ^ 32 ->
  HelpersCrc.calculate_crc32 zcrc fuel data value 1048576 = Err EFuel \/
  HelpersCrc.calculate_crc32 zcrc fuel data value 1048576 = Ok (crc32_update value data).
Proof.
  intros Hv. unfold HelpersCrc.calculate_crc32.
  destruct (py_len data <=? 1048576) eqn:E.
  - right. cbv zeta. unfold zcrc. now rewrite CrcGen.land_u32 by (apply crc32_update_range; exact Hv).
  - cbv zeta. rewrite CrcGen.slice_to_firstn by lia.
    destruct (gen_crc_loop_or data value 1048576 Hv ltac:(lia) fuel
                (zcrc (firstn (Z.to_nat 1048576) data) value) 1048576 ltac:(lia) eq_refl) as [Hl | [pos' Hl]].
    + left. rewrite Hl. reflexivity.
    + right. rewrite Hl. cbn [bind]. unfold zcrc. now rewrite CrcGen.land_u32 by (apply crc32_update_range; exact Hv).
Qed.

Arguments CompChain.SevenZipCompressor_chain {stage} _.
Arguments CompChain.SevenZipCompressor__unpacksizes {stage} _.
Arguments CompChain.SevenZipCompressor_digest {stage} _.
Arguments CompChain.SevenZipCompressor_packsize {stage} _.
Arguments CompChain.SevenZipCompressor__block_size {stage} _.
Arguments CompChain.mkSevenZipCompressor {stage} _ _ _ _ _.

Section Gen.
Variable stage : Type.
Variable cstep : stage -> bytes -> stage * bytes.
Variable cflush : stage -> stage * bytes.

Notation SZC := (CompChain.SevenZipCompressor stage).

(* ------------------------------------------------------------------ objects and model states *)
Definition st_of (o : SZC) (written : bytes) : Comp.cstate stage :=
  Comp.mkC (CompChain.SevenZipCompressor_chain o) (CompChain.SevenZipCompressor__unpacksizes o) (CompChain.SevenZipCompressor_digest o)
           (CompChain.SevenZipCompressor_packsize o) (CompChain.SevenZipCompressor__block_size o) written.
Definition of_st (st : Comp.cstate stage) : SZC :=
  CompChain.mkSevenZipCompressor (Comp.cstages st) (Comp.cunpack st) (Comp.cdigest st) (Comp.cpacksize st) (Comp.cblock st).
Lemma of_st_of o w : of_st (st_of o w) = o.
Proof. destruct o; reflexivity. Qed.
Lemma st_of_of st : st_of (of_st st) (Comp.cout st) = st.
Proof. destruct st; reflexivity. Qed.

(* ------------------------------------------------------------------ the loop over self.chain in compress = Comp.pipe *)
Section Pipe.
Variable body : Z * stage -> list Z * bytes * list stage -> res ((list Z * bytes * list stage) * bool).
Hypothesis Hb : forall i c us data chain, body (i, c) (us, data, chain) =
  do t3 <- py_index us i;
  do us <- py_setitem us i (t3 + py_len data);
  let '(t4s, t4) := cstep c data in
  do chain <- py_setitem chain i t4s;
  Ok ((us, t4, chain), false).

Lemma gen_pipe_loop : forall (suffix cpre : list stage) (upre usuf : list Z) (data : bytes),
  length upre = length cpre ->
  for_m (enumerate_from (Z.of_nat (length cpre)) suffix) body (upre ++ usuf, data, cpre ++ suffix) =
  match Comp.pipe cstep suffix usuf data with
  | Ok (ss', us', d) => Ok (upre ++ us', d, cpre ++ ss')
  | Err e => Err e
  end.
Proof.
  clear cflush. induction suffix as [|s ss IH]; intros cpre upre usuf data Hu.
  - reflexivity.
  - cbn [Comp.pipe enumerate_from for_m]. rewrite Hb.
    destruct usuf as [|u usuf'].
    { rewrite app_nil_r, (DecompGen.py_index_end_k upre _ Hu). reflexivity. }
    rewrite (DecompGen.py_index_mid_k upre u usuf' _ Hu). cbn [bind].
    rewrite (DecompGen.py_setitem_mid_k upre u usuf' _ _ Hu). cbn [bind].
    destruct (cstep s data) as [s' o] eqn:Ec. rewrite DecompGen.py_setitem_mid. cbn [bind].
    specialize (IH (cpre ++ [s']) (upre ++ [u + py_len data]) usuf' o).
    rewrite !app_length in IH. cbn [length] in IH. specialize (IH ltac:(lia)).
    replace (Z.of_nat (length cpre) + 1) with (Z.of_nat (length cpre + 1)) by lia.
    rewrite <- !app_assoc in IH. cbn [app] in IH. rewrite IH.
    destruct (Comp.pipe cstep ss usuf' o) as [[[ss'' us''] d]|e]; cbn [bind]; [|reflexivity].
    rewrite <- !app_assoc. reflexivity.
Qed.
End Pipe.

Lemma read_sched_fd (avail : bytes) (n : Z) (sched : list nat) :
  py_read_sched avail n sched =
  (fst (Comp.fd_read avail n (Comp.fd_hd sched avail)), snd (Comp.fd_read avail n (Comp.fd_hd sched avail)), tl sched).
Proof. reflexivity. Qed.

(* ------------------------------------------------------------------ compress: the `while data:` loop = Comp.comp_loop *)
Definition pbody : Z * stage -> list Z * bytes * list stage -> res ((list Z * bytes * list stage) * bool) :=
  fun '(i, compressor) '(us, data, chain) =>
    do t3 <- py_index us i;
    do us <- py_setitem us i (t3 + py_len data);
    let '(t4s, t4) := cstep compressor data in
    do chain <- py_setitem chain i t4s;
    Ok ((us, t4, chain), false).

Lemma pbody_eq i c us data chain : pbody (i, c) (us, data, chain) =
  do t3 <- py_index us i;
  do us <- py_setitem us i (t3 + py_len data);
  let '(t4s, t4) := cstep c data in
  do chain <- py_setitem chain i t4s;
  Ok ((us, t4, chain), false).
Proof. reflexivity. Qed.

Definition wstate : Type := Z * Z * Z * Z * bytes * Z * list Z * bytes * bytes * list nat * list stage.

Section Loop.
Variables (F : nat) (bsz : Z).
Variable wcond : wstate -> bool.
Hypothesis Hc : forall crc ps dg fo data ins us out inp sched chain,
  wcond (crc, ps, dg, fo, data, ins, us, out, inp, sched, chain) = py_nonempty data.
Variable wbody : wstate -> res (wstate * bool).
Hypothesis Hw : forall crc ps dg fo data ins us out inp sched chain,
  wbody (crc, ps, dg, fo, data, ins, us, out, inp, sched, chain) =
    do t2 <- HelpersCrc.calculate_crc32 zcrc F data crc 1048576;
    do t5s <- for_m (py_enumerate chain) pbody (us, data, chain);
    let '(us, data, chain) := t5s in
    do t6 <- HelpersCrc.calculate_crc32 zcrc F data dg 1048576;
    let '(t7, inp, sched) := py_read_sched inp bsz sched in
    Ok ((t2, ps + py_len data, t6, fo + py_len data, t7, ins + py_len t7, us, out ++ data, inp, sched, chain), false).

Lemma gen_comp_loop : forall (n : nat) crc ps dg fo data ins us out inp sched chain,
  0 <= crc < 2 ^ 32 -> 0 <= dg < 2 ^ 32 ->
  while_m n wcond wbody (crc, ps, dg, fo, data, ins, us, out, inp, sched, chain) = Err EFuel \/
  match Comp.comp_loop cstep n (Comp.mkC chain us dg ps bsz out) data inp sched ins fo crc with
  | Ok (st', fd', (i, f, c)) =>
      exists sched', while_m n wcond wbody (crc, ps, dg, fo, data, ins, us, out, inp, sched, chain) =
        Ok (c, Comp.cpacksize st', Comp.cdigest st', f, [], i, Comp.cunpack st', Comp.cout st', fd', sched', Comp.cstages st')
  | Err e => while_m n wcond wbody (crc, ps, dg, fo, data, ins, us, out, inp, sched, chain) = Err e
  end.
Proof.
  clear cflush. induction n as [|n IH]; intros crc ps dg fo data ins us out inp sched chain Hcrc Hdg.
  - cbn [while_m Comp.comp_loop]. rewrite Hc. destruct data as [|b d]; [|left; reflexivity].
    right. cbn. exists sched. reflexivity.
  - cbn [while_m Comp.comp_loop]. rewrite Hc. destruct data as [|b d].
    { right. cbn. exists sched. reflexivity. }
    set (data := b :: d). cbn [py_nonempty]. replace (Decomp.zlen data =? 0) with false by (unfold data, Decomp.zlen; cbn [length]; lia).
    rewrite Hw. cbn [Comp.cstages Comp.cunpack Comp.cdigest Comp.cpacksize Comp.cblock Comp.cout].
    destruct (gen_calculate_crc32_or F data crc Hcrc) as [E | E]; rewrite E; [left; reflexivity|]. cbn [bind].
    unfold py_enumerate. change (enumerate_from 0 chain) with (enumerate_from (Z.of_nat (@length stage [])) chain).
    pose proof (gen_pipe_loop pbody pbody_eq chain [] [] us data eq_refl) as HP. cbn [app] in HP. rewrite HP. clear HP.
    destruct (Comp.pipe cstep chain us data) as [[[ss' us'] o]|e]; cbn [bind]; [|right; reflexivity].
    destruct (gen_calculate_crc32_or F o dg Hdg) as [E2 | E2]; rewrite E2; [left; reflexivity|]. cbn [bind].
    rewrite read_sched_fd. destruct (Comp.fd_read inp bsz (Comp.fd_hd sched inp)) as [data' fd'] eqn:Er. cbn [fst snd].
    change (py_len o) with (Decomp.zlen o). change (py_len data') with (Decomp.zlen data').
    apply IH; apply crc32_update_range; assumption.
Qed.
End Loop.

Lemma comp_loop_cblock : forall n (st : Comp.cstate stage) data fd sched ins fo crc st' fd' info,
  Comp.comp_loop cstep n st data fd sched ins fo crc = Ok (st', fd', info) -> Comp.cblock st' = Comp.cblock st.
Proof.
  induction n as [|n IH]; intros st data fd sched ins fo crc st' fd' info; cbn [Comp.comp_loop].
  - destruct (Decomp.zlen data =? 0); [|discriminate]. intros H. inversion H. reflexivity.
  - destruct (Decomp.zlen data =? 0); [intros H; inversion H; reflexivity|].
    destruct (Comp.pipe cstep (Comp.cstages st) (Comp.cunpack st) data) as [[[ss us] o]|e]; cbn [bind]; [|discriminate].
    destruct (Comp.fd_read fd (Comp.cblock st) (Comp.fd_hd sched fd)) as [data' fd1].
    intros H. apply IH in H. exact H.
Qed.

Theorem gen_compress_or (self : SZC) (fd : bytes) (fuel : nat) (crc : Z) (sched : list nat) :
  0 <= crc < 2 ^ 32 -> 0 <= CompChain.SevenZipCompressor_digest self < 2 ^ 32 ->
  CompChain.SevenZipCompressor_compress stage cstep zcrc self fd fuel crc sched = Err EFuel \/
  CompChain.SevenZipCompressor_compress stage cstep zcrc self fd fuel crc sched =
    match Comp.compress cstep fuel (st_of self []) fd sched crc with
    | Ok (st', fd', info) => Ok (((of_st st', info), fd'), Comp.cout st')
    | Err e => Err e
    end.
Proof.
  intros Hcrc Hdg. destruct self as [ch us dg ps bsz].
  unfold CompChain.SevenZipCompressor_compress, Comp.compress, st_of. cbv zeta.
  cbn [CompChain.SevenZipCompressor_chain CompChain.SevenZipCompressor__unpacksizes CompChain.SevenZipCompressor_digest
       CompChain.SevenZipCompressor_packsize CompChain.SevenZipCompressor__block_size Comp.cblock] in Hdg |- *.
  rewrite read_sched_fd. destruct (Comp.fd_read fd bsz (Comp.fd_hd sched fd)) as [data fd1] eqn:Er. cbn [fst snd].
  match goal with |- context[while_m fuel ?c ?b ?init] =>
    pose proof (gen_comp_loop fuel bsz c ltac:(intros; reflexivity) b ltac:(intros; reflexivity) fuel crc ps dg 0 data (py_len data) us []
                              fd1 (tl sched) ch Hcrc Hdg) as HL end.
  change (py_len data) with (Decomp.zlen data) in HL |- *.
  destruct HL as [HL | HL].
  { left. match goal with |- context[while_m fuel ?c ?b ?init] => replace (while_m fuel c b init) with (@Err wstate EFuel) by (symmetry; exact HL) end.
    reflexivity. }
  right.
  destruct (Comp.comp_loop cstep fuel (Comp.mkC ch us dg ps bsz []) data fd1 (tl sched) (Decomp.zlen data) 0 crc) as [[[st' fd'] [[i f] c]]|e] eqn:Ecl.
  - destruct HL as (sched' & HL).
    match goal with |- context[while_m fuel ?c0 ?b ?init] => replace (while_m fuel c0 b init) with
      (Ok (c, Comp.cpacksize st', Comp.cdigest st', f, [], i, Comp.cunpack st', Comp.cout st', fd', sched', Comp.cstages st') : res wstate)
      by (symmetry; exact HL) end.
    cbn [bind]. unfold of_st.
    rewrite (comp_loop_cblock _ _ _ _ _ _ _ _ _ _ _ Ecl). reflexivity.
  - match goal with |- context[while_m fuel ?c ?b ?init] => replace (while_m fuel c b init) with (@Err wstate e) by (symmetry; exact HL) end.
    reflexivity.
Qed.

(* ------------------------------------------------------------------ flush: the loop over self.chain = Comp.flush_pipe *)
Lemma py_index_beyond {A} (l : list A) k : (length l <= k)%nat -> py_index l (Z.of_nat k) = Err EOther.
Proof.
  intros H. unfold py_index, py_len. destruct (Z.of_nat k <? 0) eqn:E; [lia|].
  destruct ((Z.of_nat k <? 0) || (Z.of_nat (length l) <=? Z.of_nat k)) eqn:E2; [reflexivity | lia].
Qed.

Section Flush.
Variable fbody : Z * stage -> list Z * option bytes * list stage -> res ((list Z * option bytes * list stage) * bool).
Hypothesis Hf : forall i c us (data : option bytes) chain, fbody (i, c) (us, data, chain) =
  if match data with Some b => py_nonempty b | None => false end then
    do t1 <- py_index us i;
    do t2 <- py_unwrap data;
    do us <- py_setitem us i (t1 + py_len t2);
    do t3 <- py_unwrap data;
    let '(t4s, t4) := cstep c t3 in
    do chain <- py_setitem chain i t4s;
    do t5 <- py_unwrap (Some t4);
    let '(t6s, t6) := cflush t4s in
    do chain <- py_setitem chain i t6s;
    Ok ((us, Some (t5 ++ t6), chain), false)
  else
    let '(t7s, t7) := cflush c in
    do chain <- py_setitem chain i t7s;
    Ok ((us, Some t7, chain), false).

Lemma gen_flush_loop : forall (suffix cpre : list stage) (upre usuf : list Z) (data : option bytes),
  (length upre = length cpre \/ (usuf = [] /\ (length upre <= length cpre)%nat)) ->
  for_m (enumerate_from (Z.of_nat (length cpre)) suffix) fbody (upre ++ usuf, data, cpre ++ suffix) =
  match Comp.flush_pipe cstep cflush suffix usuf data with
  | Ok (ss', us', d) => Ok (upre ++ us', d, cpre ++ ss')
  | Err e => Err e
  end.
Proof.
  induction suffix as [|s ss IH]; intros cpre upre usuf data Hu.
  - reflexivity.
  - cbn [Comp.flush_pipe enumerate_from for_m]. rewrite Hf.
    assert (Hskip : forall (dd : option bytes), (match dd with Some (_ :: _) => False | _ => True end) ->
      (let '(t7s, t7) := cflush s in
       do chain <- py_setitem (cpre ++ s :: ss) (Z.of_nat (length cpre)) t7s;
       Ok ((upre ++ usuf, Some t7, chain), false)) = Ok ((upre ++ usuf, Some (snd (cflush s)), cpre ++ fst (cflush s) :: ss), false)).
    { intros dd _. destruct (cflush s) as [s2 o2]. rewrite DecompGen.py_setitem_mid. reflexivity. }
    assert (Hnext : forall o2 s2,
      for_m (enumerate_from (Z.of_nat (length cpre) + 1) ss) fbody (upre ++ usuf, Some o2, cpre ++ s2 :: ss) =
      match Comp.flush_pipe cstep cflush ss (tl usuf) (Some o2) with
      | Ok (ss'', us'', dd) => Ok (upre ++ (match usuf with u :: _ => [u] | [] => [] end) ++ us'', dd, cpre ++ s2 :: ss'')
      | Err e => Err e
      end).
    { intros o2 s2. specialize (IH (cpre ++ [s2]) (upre ++ match usuf with u :: _ => [u] | [] => [] end) (tl usuf) (Some o2)).
      rewrite !app_length in IH. cbn [length] in IH.
      assert (Hinv : (length upre + length (match usuf with u :: _ => [u] | [] => [] end))%nat = (length cpre + 1)%nat \/
                     (tl usuf = [] /\ (length upre + length (match usuf with u :: _ => [u] | [] => [] end) <= length cpre + 1)%nat)).
      { destruct usuf as [|u usuf']; cbn [length tl].
        - right. split; [reflexivity|]. destruct Hu as [Hu | [_ Hu]]; lia.
        - left. destruct Hu as [Hu | [Hu _]]; [lia | discriminate]. }
      specialize (IH Hinv).
      replace (Z.of_nat (length cpre) + 1) with (Z.of_nat (length cpre + 1)) by lia.
      rewrite <- !app_assoc in IH. cbn [app] in IH.
      assert (Hus : (match usuf with u :: _ => [u] | [] => [] end) ++ tl usuf = usuf) by (destruct usuf; reflexivity).
      rewrite Hus in IH. rewrite IH.
      destruct (Comp.flush_pipe cstep cflush ss (tl usuf) (Some o2)) as [[[ss'' us''] dd]|e]; [|reflexivity].
      rewrite <- !app_assoc. reflexivity. }
    destruct data as [[|b d]|].
    + cbn [py_nonempty]. rewrite (Hskip (Some []) I). rewrite Hnext.
      destruct (cflush s) as [s2 o2]. cbn [fst snd].
      destruct (Comp.flush_pipe cstep cflush ss (tl usuf) (Some o2)) as [[[ss'' us''] dd]|e]; cbn [bind]; reflexivity.
    + cbn [py_nonempty]. set (dt := b :: d).
      destruct usuf as [|u usuf'].
      { rewrite app_nil_r, py_index_beyond by (destruct Hu as [Hu | [_ Hu]]; lia). reflexivity. }
      assert (Hl : length upre = length cpre) by (destruct Hu as [Hu | [Hu _]]; [exact Hu | discriminate]).
      rewrite (DecompGen.py_index_mid_k upre u usuf' _ Hl). cbn [bind py_unwrap].
      rewrite (DecompGen.py_setitem_mid_k upre u usuf' _ _ Hl). cbn [bind].
      destruct (cstep s dt) as [s1 o1]. rewrite DecompGen.py_setitem_mid. cbn [bind py_unwrap].
      destruct (cflush s1) as [s2 o2]. rewrite DecompGen.py_setitem_mid. cbn [bind].
      specialize (IH (cpre ++ [s2]) (upre ++ [u + py_len dt]) usuf' (Some (o1 ++ o2))).
      rewrite !app_length in IH. cbn [length] in IH. specialize (IH ltac:(left; lia)).
      replace (Z.of_nat (length cpre) + 1) with (Z.of_nat (length cpre + 1)) by lia.
      rewrite <- !app_assoc in IH. cbn [app] in IH. etransitivity; [exact IH|].
      destruct (Comp.flush_pipe cstep cflush ss usuf' (Some (o1 ++ o2))) as [[[ss'' us''] dd]|e]; cbn [bind]; [|reflexivity].
      rewrite <- !app_assoc. reflexivity.
    + rewrite (Hskip None I). rewrite Hnext.
      destruct (cflush s) as [s2 o2]. cbn [fst snd].
      destruct (Comp.flush_pipe cstep cflush ss (tl usuf) (Some o2)) as [[[ss'' us''] dd]|e]; cbn [bind]; reflexivity.
Qed.
End Flush.

Theorem gen_flush_or (self : SZC) (fuel : nat) :
  0 <= CompChain.SevenZipCompressor_digest self < 2 ^ 32 ->
  CompChain.SevenZipCompressor_flush stage cstep cflush zcrc self fuel = Err EFuel \/
  CompChain.SevenZipCompressor_flush stage cstep cflush zcrc self fuel =
    match Comp.flush cstep cflush (st_of self []) with
    | Ok (st', n) => Ok ((of_st st', n), Comp.cout st')
    | Err e => Err e
    end.
Proof.
  intros Hdg. destruct self as [ch us dg ps bsz].
  unfold CompChain.SevenZipCompressor_flush, Comp.flush, st_of. cbv zeta.
  cbn [CompChain.SevenZipCompressor_chain CompChain.SevenZipCompressor__unpacksizes CompChain.SevenZipCompressor_digest
       CompChain.SevenZipCompressor_packsize CompChain.SevenZipCompressor__block_size
       Comp.cstages Comp.cunpack Comp.cdigest Comp.cpacksize Comp.cblock Comp.cout] in *.
  unfold py_enumerate. change (enumerate_from 0 ch) with (enumerate_from (Z.of_nat (@length stage [])) ch).
  match goal with |- context[for_m _ ?b _] =>
    pose proof (gen_flush_loop b ltac:(intros; reflexivity) ch [] [] us None (or_introl eq_refl)) as HL end.
  cbn [app] in HL.
  destruct (Comp.flush_pipe cstep cflush ch us None) as [[[ss' us'] d]|e]; cbn [bind].
  - match goal with |- context[for_m ?xs ?b ?init] =>
      replace (for_m xs b init) with (Ok (us', d, ss') : res (list Z * option bytes * list stage)) by (symmetry; exact HL) end.
    cbn [bind]. destruct d as [data|]; [|right; reflexivity].
    destruct (gen_calculate_crc32_or fuel data dg Hdg) as [E | E]; rewrite E; [left; reflexivity|]. right. reflexivity.
  - right. match goal with |- context[for_m ?xs ?b ?init] =>
      replace (for_m xs b init) with (Err e : res (list Z * option bytes * list stage)) by (symmetry; exact HL) end.
    reflexivity.
Qed.
End Gen.

(* ------------------------------------------------------------------ what an Ok answer of the generated methods says in the model *)
Section Inv.
Variable stage : Type.
Variable cstep : stage -> bytes -> stage * bytes.
Variable cflush : stage -> stage * bytes.

Theorem gen_compress_ok_inv (self o' : CompChain.SevenZipCompressor stage) fd fd' fuel crc sched info out :
  0 <= crc < 2 ^ 32 -> 0 <= CompChain.SevenZipCompressor_digest self < 2 ^ 32 ->
  CompChain.SevenZipCompressor_compress stage cstep zcrc self fd fuel crc sched = Ok (((o', info), fd'), out) ->
  Comp.compress cstep fuel (st_of stage self []) fd sched crc = Ok (st_of stage o' out, fd', info).
Proof.
  intros Hc Hd H. destruct (gen_compress_or stage cstep self fd fuel crc sched Hc Hd) as [E | E]; rewrite E in H; [discriminate|].
  destruct (Comp.compress cstep fuel (st_of stage self []) fd sched crc) as [[[st' fd1] info1]|e]; [|discriminate].
  assert (o' = of_st stage st' /\ info = info1 /\ fd' = fd1 /\ out = Comp.cout st') as (-> & -> & -> & ->) by (repeat split; congruence).
  now rewrite st_of_of.
Qed.

Theorem gen_compress_err (self : CompChain.SevenZipCompressor stage) fd fuel crc sched e :
  0 <= crc < 2 ^ 32 -> 0 <= CompChain.SevenZipCompressor_digest self < 2 ^ 32 ->
  CompChain.SevenZipCompressor_compress stage cstep zcrc self fd fuel crc sched = Err e -> e <> EFuel ->
  Comp.compress cstep fuel (st_of stage self []) fd sched crc = Err e.
Proof.
  intros Hc Hd H Hne. destruct (gen_compress_or stage cstep self fd fuel crc sched Hc Hd) as [E | E]; rewrite E in H; [congruence|].
  destruct (Comp.compress cstep fuel (st_of stage self []) fd sched crc) as [[[st' fd1] info1]|e1]; [discriminate | congruence].
Qed.

Theorem gen_flush_ok_inv (self o' : CompChain.SevenZipCompressor stage) fuel n out :
  0 <= CompChain.SevenZipCompressor_digest self < 2 ^ 32 ->
  CompChain.SevenZipCompressor_flush stage cstep cflush zcrc self fuel = Ok ((o', n), out) ->
  Comp.flush cstep cflush (st_of stage self []) = Ok (st_of stage o' out, n).
Proof.
  intros Hd H. destruct (gen_flush_or stage cstep cflush self fuel Hd) as [E | E]; rewrite E in H; [discriminate|].
  destruct (Comp.flush cstep cflush (st_of stage self [])) as [[st' n1]|e]; [|discriminate].
  assert (o' = of_st stage st' /\ n = n1 /\ out = Comp.cout st') as (-> & -> & ->) by (repeat split; congruence).
  now rewrite st_of_of.
Qed.

Theorem gen_flush_err (self : CompChain.SevenZipCompressor stage) fuel e :
  0 <= CompChain.SevenZipCompressor_digest self < 2 ^ 32 ->
  CompChain.SevenZipCompressor_flush stage cstep cflush zcrc self fuel = Err e -> e <> EFuel ->
  Comp.flush cstep cflush (st_of stage self []) = Err e.
Proof.
  intros Hd H Hne. destruct (gen_flush_or stage cstep cflush self fuel Hd) as [E | E]; rewrite E in H; [congruence|].
  destruct (Comp.flush cstep cflush (st_of stage self [])) as [[st' n1]|e1]; [discriminate | congruence].
Qed.
End Inv.

(* ------------------------------------------------------------------ sessions: CompSession.gen_session (compress for every member, then
   flush, all generated) against Comp.write_session *)
Section SessionProofs.
Variable stage : Type.
Variable cstep : stage -> bytes -> stage * bytes.
Variable cflush : stage -> stage * bytes.

Definition with_out (w : bytes) (st : Comp.cstate stage) : Comp.cstate stage :=
  Comp.mkC (Comp.cstages st) (Comp.cunpack st) (Comp.cdigest st) (Comp.cpacksize st) (Comp.cblock st) (w ++ Comp.cout st).

Lemma comp_loop_frame w : forall n (st : Comp.cstate stage) data fd sched ins fo crc,
  Comp.comp_loop cstep n (with_out w st) data fd sched ins fo crc =
  match Comp.comp_loop cstep n st data fd sched ins fo crc with
  | Ok (st', fd', info) => Ok (with_out w st', fd', info)
  | Err e => Err e
  end.
Proof.
  induction n as [|n IH]; intros st data fd sched ins fo crc; cbn [Comp.comp_loop].
  - destruct (Decomp.zlen data =? 0); reflexivity.
  - destruct (Decomp.zlen data =? 0); [reflexivity|].
    cbn [with_out Comp.cstages Comp.cunpack Comp.cdigest Comp.cpacksize Comp.cblock Comp.cout].
    destruct (Comp.pipe cstep (Comp.cstages st) (Comp.cunpack st) data) as [[[ss us] o]|e]; cbn [bind]; [|reflexivity].
    destruct (Comp.fd_read fd (Comp.cblock st) (Comp.fd_hd sched fd)) as [data' fd1].
    rewrite <- app_assoc.
    exact (IH (Comp.mkC ss us (crc32_update (Comp.cdigest st) o) (Comp.cpacksize st + Decomp.zlen o) (Comp.cblock st) (Comp.cout st ++ o))
              data' fd1 (tl sched) _ _ _).
Qed.

Lemma compress_frame w n (st : Comp.cstate stage) fd sched crc :
  Comp.compress cstep n (with_out w st) fd sched crc =
  match Comp.compress cstep n st fd sched crc with
  | Ok (st', fd', info) => Ok (with_out w st', fd', info)
  | Err e => Err e
  end.
Proof.
  unfold Comp.compress. cbn [with_out Comp.cblock].
  destruct (Comp.fd_read fd (Comp.cblock st) (Comp.fd_hd sched fd)) as [data fd1]. apply comp_loop_frame.
Qed.

Lemma flush_frame w (st : Comp.cstate stage) :
  Comp.flush cstep cflush (with_out w st) =
  match Comp.flush cstep cflush st with
  | Ok (st', n) => Ok (with_out w st', n)
  | Err e => Err e
  end.
Proof.
  unfold Comp.flush. cbn [with_out Comp.cstages Comp.cunpack Comp.cdigest Comp.cpacksize Comp.cblock Comp.cout].
  destruct (Comp.flush_pipe cstep cflush (Comp.cstages st) (Comp.cunpack st) None) as [[[ss us] d]|e]; cbn [bind]; [|reflexivity].
  destruct d as [data|]; unfold with_out; cbn [Comp.cstages Comp.cunpack Comp.cdigest Comp.cpacksize Comp.cblock Comp.cout].
  - rewrite <- app_assoc. reflexivity.
  - reflexivity.
Qed.

Lemma with_out_st_of (o : CompChain.SevenZipCompressor stage) w x : with_out w (st_of stage o x) = st_of stage o (w ++ x).
Proof. reflexivity. Qed.

Lemma comp_loop_digest : forall n (st : Comp.cstate stage) data fd sched ins fo crc st' fd' info,
  0 <= Comp.cdigest st < 2 ^ 32 ->
  Comp.comp_loop cstep n st data fd sched ins fo crc = Ok (st', fd', info) -> 0 <= Comp.cdigest st' < 2 ^ 32.
Proof.
  induction n as [|n IH]; intros st data fd sched ins fo crc st' fd' info Hd; cbn [Comp.comp_loop].
  - destruct (Decomp.zlen data =? 0); [|discriminate]. intros H. inversion H; subst. exact Hd.
  - destruct (Decomp.zlen data =? 0); [intros H; inversion H; subst; exact Hd|].
    destruct (Comp.pipe cstep (Comp.cstages st) (Comp.cunpack st) data) as [[[ss us] o]|e]; cbn [bind]; [|discriminate].
    destruct (Comp.fd_read fd (Comp.cblock st) (Comp.fd_hd sched fd)) as [data' fd1].
    intros H. apply IH in H; [exact H|]. cbn [Comp.cdigest]. apply crc32_update_range. exact Hd.
Qed.

Lemma compress_digest n (st : Comp.cstate stage) fd sched crc st' fd' info :
  0 <= Comp.cdigest st < 2 ^ 32 -> Comp.compress cstep n st fd sched crc = Ok (st', fd', info) -> 0 <= Comp.cdigest st' < 2 ^ 32.
Proof.
  unfold Comp.compress. destruct (Comp.fd_read fd (Comp.cblock st) (Comp.fd_hd sched fd)) as [data fd1]. apply comp_loop_digest.
Qed.

Lemma gen_members_ok_inv fuel : forall ms (o o' : CompChain.SevenZipCompressor stage) w w' infos,
  0 <= CompChain.SevenZipCompressor_digest o < 2 ^ 32 ->
  CompSession.gen_members stage cstep zcrc fuel o w ms = Ok (o', w', infos) ->
  Comp.members_loop cstep fuel (st_of stage o w) ms = Ok (st_of stage o' w', infos) /\
  0 <= CompChain.SevenZipCompressor_digest o' < 2 ^ 32.
Proof.
  induction ms as [|[content sched] ms IH]; intros o o' w w' infos Hd; cbn [CompSession.gen_members Comp.members_loop].
  - intros H. inversion H; subst. split; [reflexivity | exact Hd].
  - destruct (CompChain.SevenZipCompressor_compress stage cstep zcrc o content fuel 0 sched) as [[[[o1 info] fd'] out]|e] eqn:Ec;
      cbn [bind]; [|discriminate].
    pose proof (gen_compress_ok_inv stage cstep o o1 content fd' fuel 0 sched info out ltac:(lia) Hd Ec) as Hm.
    assert (Hd1 : 0 <= CompChain.SevenZipCompressor_digest o1 < 2 ^ 32).
    { exact (compress_digest fuel (st_of stage o []) content sched 0 (st_of stage o1 out) fd' info Hd Hm). }
    destruct (CompSession.gen_members stage cstep zcrc fuel o1 (w ++ out) ms) as [[[o2 w2] infos2]|e] eqn:Em; cbn [bind]; [|discriminate].
    intros H. inversion H; subst. destruct (IH o1 o' (w ++ out) w' infos2 Hd1 Em) as [Hml Hd2].
    split; [|exact Hd2].
    rewrite <- (app_nil_r w) at 1. rewrite <- with_out_st_of, compress_frame, Hm. cbn [bind].
    rewrite with_out_st_of, Hml. reflexivity.
Qed.

Theorem gen_session_ok_inv fuel ms (o o' : CompChain.SevenZipCompressor stage) w' infos n :
  0 <= CompChain.SevenZipCompressor_digest o < 2 ^ 32 ->
  CompSession.gen_session stage cstep cflush zcrc fuel o ms = Ok (o', w', infos, n) ->
  Comp.write_session cstep cflush fuel (st_of stage o []) ms = Ok (st_of stage o' w', infos, n).
Proof.
  intros Hd. unfold CompSession.gen_session, Comp.write_session.
  destruct (CompSession.gen_members stage cstep zcrc fuel o [] ms) as [[[o1 w1] infos1]|e] eqn:Em; cbn [bind]; [|discriminate].
  destruct (gen_members_ok_inv fuel ms o o1 [] w1 infos1 Hd Em) as [Hml Hd1]. rewrite Hml. cbn [bind].
  destruct (CompChain.SevenZipCompressor_flush stage cstep cflush zcrc o1 fuel) as [[[o2 n2] out]|e] eqn:Ef; cbn [bind]; [|discriminate].
  intros H. inversion H; subst.
  pose proof (gen_flush_ok_inv stage cstep cflush o1 o' fuel n out Hd1 Ef) as Hf.
  rewrite <- (app_nil_r w1) at 1. rewrite <- with_out_st_of, flush_frame, Hf. cbn [bind]. rewrite with_out_st_of. reflexivity.
Qed.

(* the object SevenZipCompressor.__init__ leaves: a chain, one zero per stage, digest 0, packsize 0 *)
Definition obj_init (s0s : list stage) (bsz : Z) : CompChain.SevenZipCompressor stage :=
  CompChain.mkSevenZipCompressor s0s (map (fun _ => 0) s0s) 0 0 bsz.
Lemma st_of_init s0s bsz : st_of stage (obj_init s0s bsz) [] = Comp.cinit s0s bsz.
Proof. reflexivity. Qed.

(* C01_compress_chain / C01_sizes_and_crcs over the code as translated *)
Theorem gen_compress_chain (E : stage -> bytes -> bytes -> Prop) (wf : stage -> Prop) :
  (forall (s0 s : stage) (cin cout : bytes), wf s0 -> Comp.ereach cstep s0 s cin cout -> E s0 cin (cout ++ snd (cflush s))) ->
  forall (s0s : list stage) (bsz : Z) (fuel : nat) (ms : list (bytes * list nat)) o' w infos n,
    Forall wf s0s -> bsz <> 0 ->
    CompSession.gen_session stage cstep cflush zcrc fuel (obj_init s0s bsz) ms = Ok (o', w, infos, n) ->
    exists ins, Comp.Echain E s0s (concat (map fst ms)) ins w.
Proof.
  intros HE s0s bsz fuel ms o' w infos n Hwf Hb H.
  apply gen_session_ok_inv in H; [|cbn; lia]. rewrite st_of_init in H.
  exact (Comp.compress_chain stage cstep cflush E wf HE s0s bsz fuel ms _ infos n Hwf Hb H).
Qed.

Theorem gen_sizes_and_crcs (E : stage -> bytes -> bytes -> Prop) (wf : stage -> Prop) :
  (forall (s0 s : stage) (cin cout : bytes), wf s0 -> Comp.ereach cstep s0 s cin cout -> E s0 cin (cout ++ snd (cflush s))) ->
  forall (s0s : list stage) (bsz : Z) (fuel : nat) (ms : list (bytes * list nat)) o' w infos n,
    Forall wf s0s -> bsz <> 0 ->
    CompSession.gen_session stage cstep cflush zcrc fuel (obj_init s0s bsz) ms = Ok (o', w, infos, n) ->
    map Comp.info_in infos = map (fun m : bytes * list nat => Decomp.zlen (fst m)) ms /\
    map Comp.info_crc infos = map (fun m : bytes * list nat => crc32 (fst m)) ms /\
    CompChain.SevenZipCompressor_packsize o' = Decomp.zlen w /\
    CompChain.SevenZipCompressor_digest o' = crc32 w /\
    Comp.zsum (map Comp.info_out infos) + n = CompChain.SevenZipCompressor_packsize o' /\
    exists ins, Comp.Echain E s0s (concat (map fst ms)) ins w /\ CompChain.SevenZipCompressor__unpacksizes o' = map Decomp.zlen ins.
Proof.
  intros HE s0s bsz fuel ms o' w infos n Hwf Hb H.
  apply gen_session_ok_inv in H; [|cbn; lia]. rewrite st_of_init in H.
  exact (Comp.sizes_and_crcs stage cstep cflush E wf HE s0s bsz fuel ms _ infos n Hwf Hb H).
Qed.
End SessionProofs.
